/-
Property C02 — Booleans compute the regularised set operation on the operand solids.

  "For epsilon-valid operands A and B, every point farther than the result's tolerance from both
   input surfaces is inside A+B, A-B or A^B exactly when the corresponding set formula on
   'inside A' and 'inside B' says so, so volumes obey inclusion-exclusion and intersection/union
   are commutative as solids. [...] Split returns exactly (A^B, A-B) [...]"

What is proved here (model: `MV/Model/Bool3.lean`; the constants `c1 c2 c3` are GENERATED from
`Boolean3::Result` on every run, so every theorem below is re-checked against the working tree):

* `inclusion_is_setop`     on windings in {0,1} the inclusion number is the set formula;
* `inclusion_coboundary`   in ANY arrangement (all integer windings, i.e. also self-overlapping
                           operands, any cell adjacency), keeping each P-piece `c1 + c3·wQ` times and
                           each Q-piece `c2 + c3·wP` times gives a surface whose winding function is
                           `incl (wP, wQ)` in every cell connected to infinity — existence and
                           uniqueness (a 0-cochain is determined by its coboundary and one value);
* `ray_winding`            the 1-D version, computationally, for every crossing sequence;
* `inclusion_exclusion`, `volume_inclusion_exclusion`, `add_comm_solid`, `intersect_comm_solid`,
  `split_partition`, `split_disjoint`, `keepNew_is_jump`;
* `shadows_antisymm`       for the `Shadows` predicate instantiated at an ordered field;
* `abssum_law`, `abssum_scan_any_schedule`  the algebraic law the parallel `exclusive_scan` with
                           `AbsSum` needs (C13's `parExclusiveScan_eq`), and the layout it yields.

NOT proved (oracle-checked by harness/c02_bool.cpp only): that `Intersect12`/`Winding03` and the
collider deliver the true `x12`/`w03` of the perturbed operands (global correctness of the
kernel cascade), anything about rounding, and the lattice clause — `lattice_partial` below is
stated in a comment only; the harness enumerates it and reports what it finds.
-/
import MV.Model.Bool3
import MV.Props.C13a
import Mathlib.Algebra.Order.Field.Basic
import Mathlib.Algebra.Order.Ring.Rat
import Mathlib.Algebra.Field.Rat
import Mathlib.Tactic.Ring
import Mathlib.Tactic.LinearCombination

namespace MV.Bool3.C02
open MV.Bool3

/-! ## 1. inclusion arithmetic on {0,1} -/

/-- For `wP, wQ ∈ {0,1}` (`b2i` of "inside A", "inside B") the inclusion number is `b2i` of the
set formula: `∪` for Add, `\` for Subtract, `∩` for Intersect; in particular it is in {0,1}. -/
theorem inclusion_is_setop (op : OpType) (a b : Bool) :
    incl op (b2i a) (b2i b) = b2i (setOp op a b) := by
  cases op <;> cases a <;> cases b <;> decide

theorem inclusion_in_01 (op : OpType) (wP wQ : Int) (hP : wP = 0 ∨ wP = 1) (hQ : wQ = 0 ∨ wQ = 1) :
    incl op wP wQ = 0 ∨ incl op wP wQ = 1 := by
  cases op <;> rcases hP with rfl | rfl <;> rcases hQ with rfl | rfl <;> decide

example : incl .subtract 1 0 = 1 ∧ incl .subtract 1 1 = 0 ∧ incl .add 1 1 = 1 ∧ incl .intersect 1 0 = 0 := by
  decide

/-- the constants, as read from the working tree (fails to build if the translator reads
something else: this is what the other proofs unfold) -/
theorem constants :
    (OpType.all.map fun op => (c1 op, c2 op, c3 op)) = [(1, 1, -1), (1, 0, -1), (0, 0, 1)] := by
  decide

/-! ## 2. the coboundary argument -/

/-- the jump of `incl` across a piece is the piece's orientation times its kept multiplicity -/
theorem incl_jump (op : OpType) (A : Arrangement) (p : Piece) (h : p.Ok A) :
    incl op (A.wP p.dst) (A.wQ p.dst) =
      incl op (A.wP p.src) (A.wQ p.src) + p.sign * p.keep op A := by
  unfold Piece.Ok at h
  unfold Piece.keep
  cases ho : p.owner <;> simp only [ho] at h ⊢
  · obtain ⟨h1, h2⟩ := h
    rw [h1, h2]; unfold incl keepP; ring
  · obtain ⟨h1, h2⟩ := h
    rw [h1, h2]; unfold incl keepQ; ring

/-- **`inclusion_coboundary`.**  In any well-formed arrangement and for ALL integer windings
(self-overlapping operands included):
(1) `c ↦ incl op (wP c) (wQ c)` is a winding function of the kept surface (`i03, i30` kept
    multiplicities), and
(2) it is the only one: any `w` whose jumps are those of the kept surface and that agrees with it
    in one cell `c0` (the cell at infinity, where everything is 0) agrees in every cell joined to
    `c0` by pieces. -/
theorem inclusion_coboundary (op : OpType) (A : Arrangement) (hA : A.WF) :
    IsWindingOfKept op A (fun c => incl op (A.wP c) (A.wQ c)) ∧
    ∀ (w : Nat → Int) (c0 : Nat), IsWindingOfKept op A w →
      w c0 = incl op (A.wP c0) (A.wQ c0) →
      ∀ c, Reach A c0 c → w c = incl op (A.wP c) (A.wQ c) := by
  refine ⟨fun p hp => incl_jump op A p (hA p hp), ?_⟩
  intro w c0 hw h0 c hr
  induction hr with
  | base => exact h0
  | @fwd p hp _ ih =>
    rw [hw p hp, ih, incl_jump op A p (hA p hp)]
  | @bwd p hp _ ih =>
    have h1 := hw p hp
    have h2 := incl_jump op A p (hA p hp)
    omega

/-- at infinity both windings vanish, and so does `incl` -/
theorem incl_at_infinity (op : OpType) : incl op 0 0 = 0 := by
  unfold incl; ring

/-- non-vacuity: a ray through `A = [1,3]`, `B = [2,4]` on a line: cells 0 (outside), 1 (A only),
2 (both), 3 (B only), 4 (outside); the kept surface of `A - B` winds once in cell 1 only. -/
def exArr : Arrangement where
  wP := fun c => if c = 1 ∨ c = 2 then 1 else 0
  wQ := fun c => if c = 2 ∨ c = 3 then 1 else 0
  pieces := [⟨.P, 1, 0, 1⟩, ⟨.Q, 1, 1, 2⟩, ⟨.P, -1, 2, 3⟩, ⟨.Q, -1, 3, 4⟩]

example : exArr.WF := by
  intro p hp
  simp only [exArr, List.mem_cons, List.mem_nil_iff, or_false] at hp
  rcases hp with rfl | rfl | rfl | rfl <;> simp [Piece.Ok, exArr]

example : (List.range 5).map (fun c => incl .subtract (exArr.wP c) (exArr.wQ c)) = [0, 1, 0, 0, 0] ∧
    exArr.pieces.map (Piece.keep .subtract exArr) = [1, -1, 0, 0] := by decide

/-- part (2) is not vacuous: cell 2 (inside both) is joined to infinity, so any winding function of
the kept surface of `A - B` that vanishes at infinity vanishes there -/
example (w : Nat → Int) (hw : IsWindingOfKept .subtract exArr w) (h0 : w 0 = 0) : w 2 = 0 := by
  have hwf : exArr.WF := by
    intro p hp
    simp only [exArr, List.mem_cons, List.mem_nil_iff, or_false] at hp
    rcases hp with rfl | rfl | rfl | rfl <;> simp [Piece.Ok, exArr]
  have hr : Reach exArr 0 2 :=
    Reach.fwd (p := ⟨.Q, 1, 1, 2⟩) (by simp [exArr])
      (Reach.fwd (p := ⟨.P, 1, 0, 1⟩) (by simp [exArr]) Reach.base)
  have := (inclusion_coboundary .subtract exArr hwf).2 w 0 hw (by rw [h0]; decide) 2 hr
  rw [this]; decide

/-- every step of a ray keeps `wR = incl (wP, wQ)` -/
theorem rayStep_inv (op : OpType) (s : RayState) (c : Crossing) (h : s.wR = incl op s.wP s.wQ) :
    (rayStep op s c).wR = incl op (rayStep op s c).wP (rayStep op s c).wQ := by
  unfold rayStep
  cases c.owner
  · simp only [h]; unfold incl keepP; ring
  · simp only [h]; unfold incl keepQ; ring

theorem foldl_rayStep_inv (op : OpType) (cs : List Crossing) (s : RayState)
    (h : s.wR = incl op s.wP s.wQ) :
    (cs.foldl (rayStep op) s).wR =
      incl op (cs.foldl (rayStep op) s).wP (cs.foldl (rayStep op) s).wQ := by
  induction cs generalizing s with
  | nil => exact h
  | cons c cs ih => exact ih _ (rayStep_inv op s c h)

/-- **1-D version of `inclusion_coboundary`**: walking in from infinity along any generic ray,
summing `sign × kept multiplicity` over the crossed pieces (= the winding number of the kept
surface at the end point, by definition of winding number) gives `incl` of the operands'
winding numbers there — for every sequence of crossings, any signs, any multiplicities. -/
theorem ray_winding (op : OpType) (cs : List Crossing) :
    (rayRun op cs).wR = incl op (rayRun op cs).wP (rayRun op cs).wQ :=
  foldl_rayStep_inv op cs ⟨0, 0, 0⟩ (incl_at_infinity op).symm

example : rayRun .subtract [⟨.P, 1⟩, ⟨.P, 1⟩, ⟨.Q, 1⟩, ⟨.P, -1⟩] = ⟨1, 1, 0⟩ := by decide
example : rayRun .add [⟨.P, 1⟩, ⟨.P, 1⟩, ⟨.Q, 1⟩] = ⟨2, 1, 1⟩ := by decide

/-- `i12 = c3 · x12`: along an edge of P that crosses a face of Q with signed crossing number `x`
(the jump of `wQ`), the kept multiplicity of the edge jumps by the multiplicity of the new
vertex — the start/end balance `PairUp` relies on. -/
theorem keepNew_is_jump (op : OpType) (wQ x : Int) :
    keepP op (wQ + x) = keepP op wQ + keepNew op x ∧
    keepQ op (wQ + x) = keepQ op wQ + keepNew op x := by
  unfold keepP keepQ keepNew; constructor <;> ring

/-! ## 3. corollaries -/

/-- inclusion–exclusion, cell by cell (all integer windings) -/
theorem inclusion_exclusion (wP wQ : Int) :
    incl .add wP wQ + incl .intersect wP wQ = wP + wQ := by
  simp only [incl, c1, c2, c3, MV.Gen.Inclusion.c1Add, MV.Gen.Inclusion.c2Add, MV.Gen.Inclusion.c3Add,
    MV.Gen.Inclusion.c1Intersect, MV.Gen.Inclusion.c2Intersect, MV.Gen.Inclusion.c3Intersect]
  ring

/-- `Vol(A∪B) + Vol(A∩B) = Vol A + Vol B` on cell measures: for any finite family of cells with
measures `μ c` in a commutative ring (ℝ, ℚ, …) and the winding-weighted volumes
`Σ μ c · w c`. -/
theorem volume_inclusion_exclusion {R : Type} [CommRing R] (cells : List Nat) (μ : Nat → R)
    (wP wQ : Nat → Int) :
    (cells.map fun c => μ c * ((incl .add (wP c) (wQ c) : Int) : R)).sum +
      (cells.map fun c => μ c * ((incl .intersect (wP c) (wQ c) : Int) : R)).sum =
    (cells.map fun c => μ c * ((wP c : Int) : R)).sum + (cells.map fun c => μ c * ((wQ c : Int) : R)).sum := by
  induction cells with
  | nil => simp
  | cons c cs ih =>
    simp only [List.map_cons, List.sum_cons]
    have h := inclusion_exclusion (wP c) (wQ c)
    have h' : ((incl .add (wP c) (wQ c) : Int) : R) + ((incl .intersect (wP c) (wQ c) : Int) : R)
        = ((wP c : Int) : R) + ((wQ c : Int) : R) := by
      rw [← Int.cast_add, h, Int.cast_add]
    linear_combination ih + μ c * h'

example : (([0, 1, 2, 3].map fun c => (2 : Int) * ((incl .add (exArr.wP c) (exArr.wQ c) : Int) : Int)).sum +
    ([0, 1, 2, 3].map fun c => (2 : Int) * ((incl .intersect (exArr.wP c) (exArr.wQ c) : Int) : Int)).sum) = 8 := by
  decide

/-- union is commutative as a solid (same winding function with the operands exchanged) -/
theorem add_comm_solid (wP wQ : Int) : incl .add wP wQ = incl .add wQ wP := by
  simp only [incl, c1, c2, c3, MV.Gen.Inclusion.c1Add, MV.Gen.Inclusion.c2Add, MV.Gen.Inclusion.c3Add]
  ring

/-- intersection is commutative as a solid -/
theorem intersect_comm_solid (wP wQ : Int) : incl .intersect wP wQ = incl .intersect wQ wP := by
  simp only [incl, c1, c2, c3, MV.Gen.Inclusion.c1Intersect, MV.Gen.Inclusion.c2Intersect,
    MV.Gen.Inclusion.c3Intersect]
  ring

/-- subtraction is not: the statement is not vacuous -/
example : incl .subtract 1 0 ≠ incl .subtract 0 1 := by decide

/-- `Split(cutter) = (A ^ B, A − B)`: the two results of `Split` (both computed from ONE
`Boolean3` built with `OpType::Subtract`, manifold.cpp:977-987) partition A, winding by winding -/
theorem split_partition (wP wQ : Int) :
    incl .intersect wP wQ + incl .subtract wP wQ = wP := by
  simp only [incl, c1, c2, c3, MV.Gen.Inclusion.c1Subtract, MV.Gen.Inclusion.c2Subtract,
    MV.Gen.Inclusion.c3Subtract, MV.Gen.Inclusion.c1Intersect, MV.Gen.Inclusion.c2Intersect,
    MV.Gen.Inclusion.c3Intersect]
  ring

/-- … and the two parts are disjoint for simple operands -/
theorem split_disjoint (a b : Bool) :
    incl .intersect (b2i a) (b2i b) * incl .subtract (b2i a) (b2i b) = 0 := by
  cases a <;> cases b <;> decide

/-! ## 4. `Shadows` over an ordered field -/

/-- The `Scalar` interface instantiated at a linearly ordered field extended by an absorbing
not-a-number (`none`): exact arithmetic, division by zero is not finite, comparisons with
not-a-number are false — the IEEE conventions the kernels rely on, without rounding. -/
instance exactScalar (F : Type) [Field F] [LinearOrder F] : Scalar (Option F) where
  zero := some 0
  add a b := match a, b with | some x, some y => some (x + y) | _, _ => none
  sub a b := match a, b with | some x, some y => some (x - y) | _, _ => none
  mul a b := match a, b with | some x, some y => some (x * y) | _, _ => none
  div a b := match a, b with | some x, some y => if y = 0 then none else some (x / y) | _, _ => none
  neg a := match a with | some x => some (-x) | none => none
  abs a := match a with | some x => some (if x < 0 then -x else x) | none => none
  lt a b := match a, b with | some x, some y => decide (x < y) | _, _ => false
  beq a b := match a, b with | some x, some y => decide (x = y) | _, _ => false
  isFinite a := a.isSome

section Field
variable {F : Type} [Field F] [LinearOrder F] [IsStrictOrderedRing F]

omit [IsStrictOrderedRing F] in
/-- `shadows` at the exact instance is literally `p == q ? dir < 0 : p < q` -/
theorem shadows_exact (p q d : F) :
    shadows (some p) (some q) (some d) = if p = q then decide (d < 0) else decide (p < q) := by
  unfold shadows
  simp only [Scalar.beq, Scalar.lt, Scalar.zero]
  by_cases h : p = q <;> simp [h]

/-- **`shadows_antisymm`**: exchanging the operands and negating the perturbation direction
negates the answer, unless `p = q ∧ d = 0` (no perturbation on a tie). -/
theorem shadows_antisymm (p q d : F) (h : ¬ (p = q ∧ d = 0)) :
    shadows (some p) (some q) (some d) = !shadows (some q) (some p) (Scalar.neg (some d)) := by
  have hneg : (Scalar.neg (some d) : Option F) = some (-d) := rfl
  rw [hneg, shadows_exact, shadows_exact]
  by_cases hpq : p = q
  · subst hpq
    have hd : d ≠ 0 := fun h0 => h ⟨rfl, h0⟩
    simp only [if_true]
    rcases lt_trichotomy d 0 with h1 | h1 | h1
    · simp [h1, le_of_lt h1]
    · exact absurd h1 hd
    · simp [h1, not_lt.2 (le_of_lt h1)]
  · have hqp : ¬ q = p := fun e => hpq e.symm
    simp only [hpq, hqp, if_false]
    rcases lt_trichotomy p q with h1 | h1 | h1
    · simp [h1, not_lt.2 (le_of_lt h1)]
    · exact absurd h1 hpq
    · simp [h1, not_lt.2 (le_of_lt h1)]

omit [IsStrictOrderedRing F] in
/-- the exception is real: on an unperturbed tie both orders answer "does not shadow" -/
theorem shadows_tie (p : F) :
    shadows (some p) (some p) (some (0 : F)) = false ∧
    shadows (some p) (some p) (Scalar.neg (some (0 : F))) = false := by
  have hneg : (Scalar.neg (some (0 : F)) : Option F) = some (-0) := rfl
  rw [hneg, shadows_exact, shadows_exact]
  simp

example : shadows (some (1 : ℚ)) (some 1) (some (-1)) = true ∧
    shadows (some (1 : ℚ)) (some 1) (Scalar.neg (some (-1))) = false := by
  have hneg : (Scalar.neg (some (-1 : ℚ)) : Option ℚ) = some (-(-1)) := rfl
  rw [hneg, shadows_exact, shadows_exact]
  norm_num

end Field

/-! ## 5. `AbsSum` and the parallel scan -/

/-- `AbsSum` is associative and satisfies `f a (f 0 b) = f a b` (it has NO identity: `f a 0 = |a|`),
exactly the two hypotheses of C13's `parExclusiveScan_eq`. -/
theorem abssum_law :
    (∀ a b c : Int, absSum (absSum a b) c = absSum a (absSum b c)) ∧
    (∀ a b : Int, absSum a (absSum 0 b) = absSum a b) ∧
    ¬ (∀ a : Int, absSum a 0 = a) := by
  refine ⟨?_, ?_, ?_⟩
  · intro a b c; unfold absSum; omega
  · intro a b; unfold absSum; omega
  · intro h; exact absurd (h (-1)) (by decide)

/-- The four `exclusive_scan(…, AbsSum())` calls of `Boolean3::Result` (l.802-821), run through
TBB's `parallel_scan` under ANY valid schedule, give the sequential exclusive scan. -/
theorem abssum_scan_any_schedule {t : MV.Par.Sched} {xs : List Int} (init : Int)
    (hv : t.Valid xs.length) :
    MV.Par.parExclusiveScan absSum init 0 t xs = (MV.Par.exScan absSum init xs).1 :=
  MV.Par.parExclusiveScan_eq abssum_law.1 abssum_law.2.1 init hv

/-- … and the sequential scan lays the duplicated vertices out in consecutive disjoint blocks:
started from a count `init ≥ 0` (`0`, then `numVertR`), the running value after the whole list is
`init + Σ |i03[j]|` — the `numVertR` the code reads off as `AbsSum()(vP2R.back(), i03.back())`. -/
theorem abssum_exScan_total (init : Int) (h0 : 0 ≤ init) (xs : List Int) :
    (MV.Par.exScan absSum init xs).2 = init + (xs.map fun x => (x.natAbs : Int)).sum := by
  induction xs generalizing init with
  | nil => simp [MV.Par.exScan]
  | cons x xs ih =>
    simp only [MV.Par.exScan, List.map_cons, List.sum_cons]
    rw [ih (absSum init x) (by unfold absSum; omega)]
    unfold absSum; omega

example : (MV.Par.exScan absSum 3 [1, -1, 0, -2, 1]).2 = 8 := by decide

example : MV.Par.parExclusiveScan absSum 3 0 (.node 2 true .leaf .leaf) [1, -1, 0, -2, 1] = [3, 4, 5, 5, 7] :=
  (abssum_scan_any_schedule 3 (by decide)).trans (by decide)

/-!
`lattice_partial` (NOT proved, and false on the pinned tree if DESIGN.md §7 defect 8 reproduces):
"for every CSG program over integer-lattice boxes, the result of the real evaluator classified at
voxel centres equals the voxel-set semantics of the program."  The harness enumerates all pairs
of boxes with integer corners in [0,3]³ × 3 operations (thorough) and random programs of depth ≤ 6.
-/

end MV.Bool3.C02
