/-
Prop-level reading of the decidable check `wfTree`: blocks, unique parents, unique paths.
-/
import MV.Proof.ColliderRadix

namespace MV.Collider

/-- Block structure, spelled out: the subtree covers exactly the leaves `f … l`; an internal
node's index is `f` or `l`; it splits at some `γ ∈ [f, l-1]` into `[f,γ]` and `[γ+1,l]`; a child
is a leaf iff its block is a singleton; an internal left child has index `γ`, an internal
right child has index `γ+1`. -/
def Blocks : T → Nat → Nat → Prop
  | .leaf i, f, l => f = i ∧ l = i
  | .node k a b, f, l =>
    f < l ∧ (k = f ∨ k = l) ∧ ∃ γ, f ≤ γ ∧ γ < l ∧ Blocks a f γ ∧ Blocks b (γ + 1) l ∧
      (a.isNode = false ↔ f = γ) ∧ (b.isNode = false ↔ γ + 1 = l) ∧
      (∀ ka a1 a2, a = .node ka a1 a2 → ka = γ) ∧ (∀ kb b1 b2, b = .node kb b1 b2 → kb = γ + 1)

theorem blocks_of_cover : ∀ (t : T) (f l : Nat), t.cover f l = true → Blocks t f l := by
  intro t
  induction t with
  | leaf i =>
    intro f l h
    simp only [T.cover, Bool.and_eq_true, beq_iff_eq] at h
    exact h
  | node k a b iha ihb =>
    intro f l h
    simp only [T.cover, Bool.and_eq_true, decide_eq_true_eq, Bool.or_eq_true, beq_iff_eq] at h
    obtain ⟨⟨⟨⟨⟨hlt, hk⟩, ha⟩, hb⟩, hka⟩, hkb⟩ := h
    have ⟨_, _, a3⟩ := cover_first_last _ _ _ ha
    have ⟨_, _, b3⟩ := cover_first_last _ _ _ hb
    refine ⟨hlt, hk, a.last, a3, by omega, iha _ _ ha, ihb _ _ hb, ?_, ?_, ?_, ?_⟩
    · cases a with
      | leaf i =>
        simp only [T.cover, Bool.and_eq_true, beq_iff_eq, T.last] at ha ⊢
        simp only [T.isNode, true_iff]; omega
      | node ka a1 a2 =>
        simp only [T.cover, Bool.and_eq_true, decide_eq_true_eq] at ha
        have := ha.1.1.1.1.1
        simp only [T.isNode, Bool.true_eq_false, false_iff]; omega
    · cases b with
      | leaf i =>
        simp only [T.cover, Bool.and_eq_true, beq_iff_eq] at hb
        simp only [T.isNode, true_iff]; omega
      | node kb b1 b2 =>
        simp only [T.cover, Bool.and_eq_true, decide_eq_true_eq] at hb
        have := hb.1.1.1.1.1
        simp only [T.isNode, Bool.true_eq_false, false_iff]; omega
    · intro ka a1 a2 e
      subst e
      simpa using hka
    · intro kb b1 b2 e
      subst e
      simpa using hkb

/-! ## edges -/

theorem ids_eq_root_or_key (t : T) (c : Int) :
    c ∈ t.ids → c = t.id ∨ c ∈ t.pairs.map Prod.fst := by
  induction t with
  | leaf i => intro h; simp [T.ids] at h; left; simp [T.id, h]
  | node k a b iha ihb =>
    intro h
    simp only [T.ids, List.mem_cons, List.mem_append] at h
    simp only [T.pairs, List.map_cons, List.map_append, List.mem_cons, List.mem_append, T.id]
    rcases h with h | h | h
    · exact Or.inl h
    · rcases iha h with e | e
      · exact Or.inr (Or.inl e)
      · exact Or.inr (Or.inr (Or.inr (Or.inl e)))
    · rcases ihb h with e | e
      · exact Or.inr (Or.inr (Or.inl e))
      · exact Or.inr (Or.inr (Or.inr (Or.inr e)))

theorem pairs_of_parentOk (parent : Array Int) (t : T) : t.parentOk parent = true →
    ∀ c k, (c, k) ∈ t.pairs → parent[c.toNat]? = some (2 * (k : Int) + 1) := by
  induction t with
  | leaf i => intro _ c k h; simp [T.pairs] at h
  | node k0 a b iha ihb =>
    intro h c k hm
    simp only [T.parentOk, Bool.and_eq_true, beq_iff_eq] at h
    obtain ⟨⟨⟨h1, h2⟩, h3⟩, h4⟩ := h
    simp only [T.pairs, List.mem_cons, List.mem_append, Prod.mk.injEq] at hm
    rcases hm with ⟨e1, e2⟩ | ⟨e1, e2⟩ | hm | hm
    · subst e1; subst e2; exact h1
    · subst e1; subst e2; exact h2
    · exact iha h3 c k hm
    · exact ihb h4 c k hm

/-- **Unique parents.**  In a well-formed pair of arrays every node other than the root
(`0 ≤ c < 2n-1`, `c ≠ 1`) is a child of exactly one internal node `k`, and `nodeParent_[c]`
is that node's number `2k+1`. -/
theorem unique_parent_of_wf {ch : Array (Int × Int)} {parent : Array Int} {n : Nat}
    (hwf : wfTree ch parent n = true) (c : Nat) (hc : c < 2 * n - 1) (hc1 : c ≠ 1) :
    ∃ k, k < n - 1 ∧ parent[c]? = some (2 * (k : Int) + 1) ∧
      (∃ c1 c2, ch[k]? = some (c1, c2) ∧ ((c : Int) = c1 ∨ (c : Int) = c2)) ∧
      ∀ k', k' < n - 1 →
        (∃ c1 c2, ch[k']? = some (c1, c2) ∧ ((c : Int) = c1 ∨ (c : Int) = c2)) → k' = k := by
  obtain ⟨hn, _, _, t, ht, hcov, hpar, _⟩ := wfTree_unpack hwf
  obtain ⟨hrep, hid, _⟩ := toTree_spec _ _ _ ht
  have hid1 : t.id = 1 := hid
  have hleaves : ∀ i, i ∈ t.leaves ↔ i < n := by
    intro i; rw [mem_leaves_of_cover hcov]; omega
  have hints : ∀ k, k ∈ t.internals ↔ k < n - 1 := mem_internals_root hcov hid1
  have hnd : t.ids.Nodup :=
    nodup_ids t (nodup_leaves_of_cover hcov) (cover_internals _ _ _ hcov).1
  obtain ⟨hkeys, hkmem⟩ := pairs_keys t hnd
  -- `c` is a node of the tree
  have hcid : (c : Int) ∈ t.ids := by
    rw [mem_ids]
    by_cases hpar : c % 2 = 0
    · left; exact ⟨c / 2, (hleaves _).mpr (by omega), by omega⟩
    · right; exact ⟨(c - 1) / 2, (hints _).mpr (by omega), by omega⟩
  have hkey : (c : Int) ∈ t.pairs.map Prod.fst := by
    rcases ids_eq_root_or_key t c hcid with e | e
    · rw [hid1] at e; omega
    · exact e
  obtain ⟨⟨c', k⟩, hm, e⟩ := List.mem_map.mp hkey
  simp only at e
  subst e
  obtain ⟨hkint, c1, c2, hck, hor⟩ := internal_of_pairs t hrep _ k hm
  refine ⟨k, (hints k).mp hkint, ?_, ⟨c1, c2, hck, hor⟩, ?_⟩
  · have := pairs_of_parentOk parent t hpar _ k hm
    simpa using this
  · intro k' hk' ⟨d1, d2, hd, hor'⟩
    obtain ⟨e1, e2, he, m1, m2⟩ := pairs_of_internal t hrep k' ((hints k').mpr hk')
    rw [hd] at he
    simp only [Option.some.injEq, Prod.mk.injEq] at he
    obtain ⟨he1, he2⟩ := he
    subst he1; subst he2
    have : ((c : Int), k') ∈ t.pairs := by
      rcases hor' with h | h
      · rw [h]; exact m1
      · rw [h]; exact m2
    exact functional_of_nodup_keys t.pairs hkeys _ k' k this hm

/-! ## paths -/

/-- follow a path of left(`false`)/right(`true`) turns through `internalChildren_` -/
def walk (ch : Array (Int × Int)) : Int → List Bool → Option Int
  | node, [] => some node
  | node, d :: ds =>
    if node < 1 ∨ node % 2 = 0 then none
    else match ch[((node - 1) / 2).toNat]? with
      | none => none
      | some (c1, c2) => walk ch (if d then c2 else c1) ds

theorem walk_nil (ch : Array (Int × Int)) (node : Int) : walk ch node [] = some node := rfl

theorem walk_leaf_cons (ch : Array (Int × Int)) (j : Nat) (d : Bool) (ds : List Bool) :
    walk ch (T.leaf j).id (d :: ds) = none := by
  have : (T.leaf j).id < 1 ∨ (T.leaf j).id % 2 = 0 := by simp only [T.id]; omega
  rw [walk, if_pos this]

theorem walk_node_cons {ch : Array (Int × Int)} {k : Nat} {a b : T}
    (hc : ch[k]? = some (a.id, b.id)) (d : Bool) (ds : List Bool) :
    walk ch (T.node k a b).id (d :: ds) = walk ch (if d then b.id else a.id) ds := by
  have h1 : ¬ ((T.node k a b).id < 1 ∨ (T.node k a b).id % 2 = 0) := by simp only [T.id]; omega
  have h3 : (((T.node k a b).id - 1) / 2).toNat = k := by simp only [T.id]; omega
  rw [walk, if_neg h1, h3, hc]

theorem walk_leaf_mem {ch : Array (Int × Int)} : ∀ (t : T), Rep ch t → ∀ (p : List Bool) (i : Nat),
    walk ch t.id p = some (2 * (i : Int)) → i ∈ t.leaves := by
  intro t
  induction t with
  | leaf j =>
    intro _ p i h
    cases p with
    | nil =>
      rw [walk_nil] at h
      simp only [T.id, Option.some.injEq] at h
      simp only [T.leaves, List.mem_singleton]; omega
    | cons d ds => rw [walk_leaf_cons] at h; cases h
  | node k a b iha ihb =>
    intro hrep p i h
    obtain ⟨hc, ra, rb⟩ := hrep
    cases p with
    | nil =>
      rw [walk_nil] at h
      simp only [T.id, Option.some.injEq] at h
      omega
    | cons d ds =>
      rw [walk_node_cons hc] at h
      simp only [T.leaves, List.mem_append]
      cases d with
      | false => exact Or.inl (iha ra ds i (by simpa using h))
      | true => exact Or.inr (ihb rb ds i (by simpa using h))

theorem walk_exists {ch : Array (Int × Int)} : ∀ (t : T), Rep ch t → ∀ (i : Nat), i ∈ t.leaves →
    ∃ p, walk ch t.id p = some (2 * (i : Int)) := by
  intro t
  induction t with
  | leaf j =>
    intro _ i hi
    simp only [T.leaves, List.mem_singleton] at hi
    subst hi
    exact ⟨[], by rw [walk_nil]; rfl⟩
  | node k a b iha ihb =>
    intro hrep i hi
    obtain ⟨hc, ra, rb⟩ := hrep
    simp only [T.leaves, List.mem_append] at hi
    rcases hi with hi | hi
    · obtain ⟨p, hp⟩ := iha ra i hi
      exact ⟨false :: p, by rw [walk_node_cons hc]; simpa using hp⟩
    · obtain ⟨p, hp⟩ := ihb rb i hi
      exact ⟨true :: p, by rw [walk_node_cons hc]; simpa using hp⟩

theorem walk_unique {ch : Array (Int × Int)} : ∀ (t : T), Rep ch t → t.leaves.Nodup →
    ∀ (i : Nat) (p p' : List Bool),
      walk ch t.id p = some (2 * (i : Int)) → walk ch t.id p' = some (2 * (i : Int)) → p = p' := by
  intro t
  induction t with
  | leaf j =>
    intro _ _ i p p' h h'
    cases p with
    | cons d ds => rw [walk_leaf_cons] at h; cases h
    | nil =>
      cases p' with
      | nil => rfl
      | cons d ds => rw [walk_leaf_cons] at h'; cases h'
  | node k a b iha ihb =>
    intro hrep hnd i p p' h h'
    obtain ⟨hc, ra, rb⟩ := hrep
    simp only [T.leaves, List.nodup_append] at hnd
    obtain ⟨na, nb, nab⟩ := hnd
    cases p with
    | nil =>
      rw [walk_nil] at h
      simp only [T.id, Option.some.injEq] at h; omega
    | cons d ds =>
      cases p' with
      | nil =>
        rw [walk_nil] at h'
        simp only [T.id, Option.some.injEq] at h'; omega
      | cons d' ds' =>
        rw [walk_node_cons hc] at h h'
        cases d with
        | false =>
          cases d' with
          | false =>
            have := iha ra na i ds ds' (by simpa using h) (by simpa using h')
            rw [this]
          | true =>
            exfalso
            exact nab i (walk_leaf_mem a ra ds i (by simpa using h)) i
              (walk_leaf_mem b rb ds' i (by simpa using h')) rfl
        | true =>
          cases d' with
          | false =>
            exfalso
            exact nab i (walk_leaf_mem a ra ds' i (by simpa using h')) i
              (walk_leaf_mem b rb ds i (by simpa using h)) rfl
          | true =>
            have := ihb rb nb i ds ds' (by simpa using h) (by simpa using h')
            rw [this]

/-- **Unique paths.**  Every leaf is reached from the root by exactly one path. -/
theorem unique_path_of_wf {ch : Array (Int × Int)} {parent : Array Int} {n : Nat}
    (hwf : wfTree ch parent n = true) (i : Nat) (hi : i < n) :
    ∃ p, walk ch kRoot p = some (2 * (i : Int)) ∧
      ∀ p', walk ch kRoot p' = some (2 * (i : Int)) → p' = p := by
  obtain ⟨hn, _, _, t, ht, hcov, _, _⟩ := wfTree_unpack hwf
  obtain ⟨hrep, hid, _⟩ := toTree_spec _ _ _ ht
  have hmem : i ∈ t.leaves := by rw [mem_leaves_of_cover hcov]; omega
  obtain ⟨p, hp⟩ := walk_exists t hrep i hmem
  rw [hid] at hp
  refine ⟨p, hp, ?_⟩
  intro p' hp'
  rw [← hid] at hp hp'
  exact walk_unique t hrep (nodup_leaves_of_cover hcov) i p' p hp' hp

end MV.Collider
