import MV.Proof.EdgeOpBasic
import Mathlib.Data.Finset.Card
/-!
`UpdateVert` (edge_op.cpp:726-735) evaluated along the walk `c ↦ Pair(Next(c))`, the fuel bound for
that walk under `PairInv` (`walk_simple`), and `FormLoop` (edge_op.cpp:740-756) up to its final
`RemoveIfFolded` (`formLoopCore`).
-/
namespace MV.EdgeOp
open MV.Halfedge (HErr rd wr nextHalfedge)

/-! ## the walk only reads `paired` -/

theorem walk_congr {s s' : HE} (h : s'.paired = s.paired) (c i : Nat) :
    s'.walk c i = s.walk c i := by
  induction i with
  | zero => rfl
  | succ i ih => rw [walk_succ, walk_succ, ih]; unfold HE.Pn; rw [h]

theorem walk_add (s : HE) (c i j : Nat) : s.walk c (i + j) = s.walk (s.walk c i) j := by
  induction j with
  | zero => rfl
  | succ j ih => rw [← Nat.add_assoc, walk_succ, walk_succ, ih]

/-! ## T4: `UpdateVert` -/

theorem updateVertLoop_spec (vert endEdge : Int) (k : Nat) :
    ∀ (f : Nat) (s : HE) (c0 : Nat), WF s → k < f →
    (∀ i, i ≤ k → s.walk c0 i < s.start.size) →
    (∀ i, i < k → 0 ≤ s.P (nx (s.walk c0 i))) →
    ((s.walk c0 k : Nat) : Int) = endEdge →
    (∀ i, i < k → ((s.walk c0 i : Nat) : Int) ≠ endEdge) →
    ∃ s', updateVertLoop vert endEdge f (c0 : Int) s = .ok s' ∧ s'.paired = s.paired ∧
      s'.prop = s.prop ∧ s'.nVert = s.nVert ∧ s'.nPropVert = s.nPropVert ∧
      s'.start.size = s.start.size ∧
      (∀ i, i < k → s'.S (nx (s.walk c0 i)) = vert) ∧
      (∀ j, (∀ i, i < k → j ≠ nx (s.walk c0 i)) → s'.S j = s.S j) := by
  induction k with
  | zero =>
    intro f s c0 hw hf hr hp hend hmin
    obtain ⟨f, rfl⟩ : ∃ f', f = f' + 1 := ⟨f - 1, by omega⟩
    refine ⟨s, ?_, rfl, rfl, rfl, rfl, rfl, by intro i hi; omega, fun j _ => rfl⟩
    unfold updateVertLoop
    simp only [walk_zero] at hend
    rw [if_pos hend]; rfl
  | succ k ih =>
    intro f s c0 hw hf hr hp hend hmin
    obtain ⟨f, rfl⟩ : ∃ f', f = f' + 1 := ⟨f - 1, by omega⟩
    have hc0 : c0 < s.start.size := by simpa using hr 0 (by omega)
    have hn : nx c0 < s.start.size := nx_lt hw.2.2 hc0
    have hne : (c0 : Int) ≠ endEdge := by simpa using hmin 0 (by omega)
    have hp0 : 0 ≤ s.P (nx c0) := by simpa using hp 0 (by omega)
    have hs1p : ((s.setS (nx c0) vert).setS (nx c0) vert).paired = s.paired := rfl
    have hwalk : ∀ i, ((s.setS (nx c0) vert).setS (nx c0) vert).walk (s.Pn (nx c0)) i
        = s.walk c0 (i + 1) := by
      intro i; rw [walk_congr hs1p, walk_succ']
    have hw1 : WF ((s.setS (nx c0) vert).setS (nx c0) vert) := WF_setS _ _ _ (WF_setS _ _ _ hw)
    obtain ⟨s', h1, h2, h3, h4, h5, h6, h7, h8⟩ :=
      ih f ((s.setS (nx c0) vert).setS (nx c0) vert) (s.Pn (nx c0)) hw1 (by omega)
        (by intro i hi; rw [hwalk]; simpa using hr (i + 1) (by omega))
        (by intro i hi; rw [hwalk]; exact hp (i + 1) (by omega))
        (by rw [hwalk]; exact hend)
        (by intro i hi; rw [hwalk]; exact hmin (i + 1) (by omega))
    refine ⟨s', ?_, h2, h3, h4, h5, by simpa using h6, ?_, ?_⟩
    · unfold updateVertLoop
      rw [if_neg hne, setEnd_ok s c0 vert hn]
      simp only [bind, Except.bind]
      rw [nextI_cast, setStart_ok _ _ _ (by simpa using hn)]
      simp only []
      rw [getPair_ok _ _ (by simpa using hw.1 ▸ hn)]
      simp only []
      have : ((s.setS (nx c0) vert).setS (nx c0) vert).P (nx c0) = ((s.Pn (nx c0) : Nat) : Int) := by
        rw [Pn_cast s _ hp0]; rfl
      rw [this]; exact h1
    · intro i hi
      rcases i with _ | i
      · by_cases hex : ∃ i', i' < k ∧ nx c0 = nx (s.walk c0 (i' + 1))
        · obtain ⟨i', hi', he⟩ := hex
          have := h7 i' hi'
          rw [hwalk] at this
          simp only [walk_zero]; rw [he]; exact this
        · have := h8 (nx c0) (by
            intro i' hi' he; rw [hwalk] at he; exact hex ⟨i', hi', he⟩)
          simp only [walk_zero]; rw [this]; simp [hn]
      · have := h7 i (by omega)
        rw [hwalk] at this; exact this
    · intro j hj
      have hj0 : j ≠ nx c0 := by simpa using hj 0 (by omega)
      rw [h8 j (by intro i hi; rw [hwalk]; exact hj (i + 1) (by omega))]
      simp [Ne.symm hj0]

/-- T4.  `UpdateVert(vert, c0, endEdge)` when the walk `c ↦ Pair(Next(c))` from `c0` reaches `endEdge`
after `k ≤ size` steps: it succeeds, writes only `start_`, exactly at `Next(walk i)`, `i < k`. -/
theorem updateVert_spec (s : HE) (vert : Int) (c0 k : Nat) (endEdge : Int)
    (hw : WF s) (hk : k ≤ s.start.size)
    (hr : ∀ i, i ≤ k → s.walk c0 i < s.start.size)
    (hp : ∀ i, i < k → 0 ≤ s.P (nx (s.walk c0 i)))
    (hend : ((s.walk c0 k : Nat) : Int) = endEdge)
    (hmin : ∀ i, i < k → ((s.walk c0 i : Nat) : Int) ≠ endEdge) :
    ∃ s', updateVert s vert (c0 : Int) endEdge = .ok s' ∧ s'.paired = s.paired ∧ s'.prop = s.prop ∧
      s'.nVert = s.nVert ∧ s'.nPropVert = s.nPropVert ∧ s'.start.size = s.start.size ∧
      (∀ i, i < k → s'.S (nx (s.walk c0 i)) = vert) ∧
      (∀ j, (∀ i, i < k → j ≠ nx (s.walk c0 i)) → s'.S j = s.S j) := by
  unfold updateVert HE.size
  exact updateVertLoop_spec vert endEdge k (s.start.size + 1) s c0 hw (by omega) hr hp hend hmin

/-- a tetrahedron -/
def tetraHE : HE :=
  { start := #[0,2,1, 0,1,3, 1,2,3, 2,0,3], paired := #[9,6,3, 2,8,10, 1,11,4, 0,5,7],
    prop := #[0,2,1, 0,1,3, 1,2,3, 2,0,3], nVert := 4, nPropVert := 4 }

example : PairInv tetraHE := by decide +kernel

/-- non-vacuity of `updateVert_spec`: relabel two of the three halfedges out of vertex 0 -/
example : WF tetraHE ∧ 2 ≤ tetraHE.start.size ∧
    (∀ i, i ≤ 2 → tetraHE.walk 2 i < tetraHE.start.size) ∧
    (∀ i, i < 2 → 0 ≤ tetraHE.P (nx (tetraHE.walk 2 i))) ∧
    ((tetraHE.walk 2 2 : Nat) : Int) = 5 ∧
    (∀ i, i < 2 → ((tetraHE.walk 2 i : Nat) : Int) ≠ 5) := by decide +kernel

/-! ## the fuel bound: under `PairInv` a minimal walk is duplicate-free, hence shorter than `size` -/

theorem PairInv.good {s : HE} (h : PairInv s) {e : Nat} (he : e < s.start.size) : Good s e :=
  h.2.2.2 e he

/-- one step `e ↦ Pair(Next(e))` from a live in-range halfedge -/
theorem step_live {s : HE} (h : PairInv s) {e : Nat} (he : e < s.start.size) (hl : s.P e ≠ -1) :
    nx e < s.start.size ∧ s.P (nx e) ≠ -1 ∧ 0 ≤ s.P (nx e) ∧ s.Pn (nx e) < s.start.size ∧
      s.P (s.Pn (nx e)) = ((nx e : Nat) : Int) ∧ s.S (nx (s.Pn (nx e))) = s.S (nx e) := by
  have hn : nx e < s.start.size := nx_lt h.1.2.2 he
  obtain ⟨a, _, _⟩ := (h.good he).live hl
  rcases (good_iff s (nx e)).1 (h.good hn) with ⟨a', _, _⟩ | ⟨_, _, c, d, f, _, g, _⟩
  · exact absurd a' a
  · exact ⟨hn, by omega, c, d, f, g.symm⟩

theorem walk_live (s : HE) (c0 : Nat) (h : PairInv s) (hc0 : c0 < s.start.size) (hl0 : s.P c0 ≠ -1) :
    ∀ i, s.walk c0 i < s.start.size ∧ s.P (s.walk c0 i) ≠ -1 ∧ 0 ≤ s.P (nx (s.walk c0 i)) ∧
      s.S (nx (s.walk c0 i)) = s.S (nx c0) := by
  intro i
  induction i with
  | zero =>
    obtain ⟨_, _, c, _⟩ := step_live h hc0 hl0
    exact ⟨hc0, hl0, c, rfl⟩
  | succ i ih =>
    obtain ⟨a, b, _, d⟩ := ih
    obtain ⟨_, _, _, p, q, r⟩ := step_live h a b
    have hl : s.P (s.walk c0 (i + 1)) ≠ -1 := by rw [walk_succ, q]; omega
    have hr : s.walk c0 (i + 1) < s.start.size := p
    obtain ⟨_, _, c, _⟩ := step_live h hr hl
    exact ⟨hr, hl, c, by rw [walk_succ, r, d]⟩

/-- the step is injective on live in-range halfedges -/
theorem step_inj {s : HE} (h : PairInv s) {e e' : Nat} (he : e < s.start.size) (hl : s.P e ≠ -1)
    (he' : e' < s.start.size) (hl' : s.P e' ≠ -1) (heq : s.Pn (nx e) = s.Pn (nx e')) : e = e' := by
  obtain ⟨_, _, _, _, q, _⟩ := step_live h he hl
  obtain ⟨_, _, _, _, q', _⟩ := step_live h he' hl'
  rw [heq, q'] at q
  exact nx_inj (by omega)

theorem pigeon (n k : Nat) (f : Nat → Nat) (hr : ∀ i, i ≤ k → f i < n)
    (hinj : ∀ i j, i < j → j ≤ k → f i ≠ f j) : k < n := by
  have := Finset.card_le_card_of_injOn (s := Finset.range (k+1)) (t := Finset.range n) f
    (by intro i hi; simp at hi ⊢; exact hr i (by omega))
    (by
      intro i hi j hj h
      simp at hi hj
      rcases Nat.lt_trichotomy i j with h' | h' | h'
      · exact absurd h (hinj i j h' (by omega))
      · exact h'
      · exact absurd h.symm (hinj j i h' (by omega)))
  simp at this; omega

theorem walk_back {s : HE} {c0 : Nat} (h : PairInv s) (hc0 : c0 < s.start.size) (hl0 : s.P c0 ≠ -1) :
    ∀ i j, s.walk c0 i = s.walk c0 (i + j) → c0 = s.walk c0 j := by
  intro i
  induction i with
  | zero => intro j hj; simpa using hj
  | succ i ih =>
    intro j hj
    apply ih
    have e : i + 1 + j = (i + j) + 1 := by omega
    rw [e, walk_succ, walk_succ] at hj
    obtain ⟨a, b, _⟩ := walk_live s c0 h hc0 hl0 i
    obtain ⟨a', b', _⟩ := walk_live s c0 h hc0 hl0 (i + j)
    exact step_inj h a b a' b' hj

/-- FUEL BOUND.  Under `PairInv`, the walk `c ↦ Pair(Next(c))` from a live halfedge `c0` up to the
FIRST visit of `t` never repeats a halfedge, hence takes fewer than `size` steps. -/
theorem walk_simple (s : HE) (c0 k t : Nat) (h : PairInv s) (hc0 : c0 < s.start.size)
    (hl0 : s.P c0 ≠ -1) (hk : s.walk c0 k = t) (hmin : ∀ i, i < k → s.walk c0 i ≠ t) :
    (∀ i j, i < j → j ≤ k → s.walk c0 i ≠ s.walk c0 j) ∧ k < s.start.size := by
  have hnd : ∀ i j, i < j → j ≤ k → s.walk c0 i ≠ s.walk c0 j := by
    intro i j hij hjk heq
    have e : j = i + (j - i) := by omega
    rw [e] at heq
    have hper := walk_back h hc0 hl0 i (j - i) heq
    have e2 : k = (j - i) + (k - (j - i)) := by omega
    have : s.walk c0 (k - (j - i)) = t := by
      rw [← hk]; conv => rhs; rw [e2, walk_add, ← hper]
    exact hmin _ (by omega) this
  exact ⟨hnd, pigeon _ k (s.walk c0) (fun i _ => (walk_live s c0 h hc0 hl0 i).1) hnd⟩

example : PairInv tetraHE ∧ 2 < tetraHE.start.size ∧ tetraHE.P 2 ≠ -1 ∧ tetraHE.walk 2 2 = 5 ∧
    (∀ i, i < 2 → tetraHE.walk 2 i ≠ 5) := by decide +kernel

end MV.EdgeOp
