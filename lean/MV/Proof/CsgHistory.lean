import MV.Proof.Csg
/-
Forcing histories and API-level programs.
-/
set_option autoImplicit false
namespace MV.Csg
open SolidAlg XfAct

variable {M S : Type} [One M] [Mul M] [SolidAlg S] [XfAct M S]

omit [One M] [Mul M] [SolidAlg S] [XfAct M S] in
theorem leafAt_of_node {s : Store M} {n : Nat} {l : Leaf M}
    (h : s.nodes[n]? = some (Node.leaf l)) : s.leafAt? n = some l := by
  simp [Store.leafAt?, h]

/-- any sequence of forcing calls, each with its own oracle, on nodes of the initial store -/
theorem forceSeq_spec (s : Store M) (hwf : WFs s) (calls : List (Nat × List Bool))
    (hvalid : ∀ c ∈ calls, c.1 < s.nodes.length) :
    (forceSeq s calls).2.2.2 = true ∧ WFs (forceSeq s calls).1 ∧
    ∀ (L : Val S), Respects L (forceSeq s calls).2.2.1 → CacheOK L s →
      (forceSeq s calls).2.1.map (Option.map L.leaf)
        = calls.map (fun c => some (denote L s c.1)) ∧
      SemExt L s (forceSeq s calls).1 ∧ CacheOK L (forceSeq s calls).1 ∧
      s.nodes.length ≤ (forceSeq s calls).1.nodes.length := by
  induction calls generalizing s with
  | nil =>
    exact ⟨rfl, hwf, fun L _ hc => ⟨rfl, SemExt.refl L s, hc, Nat.le_refl _⟩⟩
  | cons c cs ih =>
    obtain ⟨n, orc⟩ := c
    have hn : n < s.nodes.length := hvalid (n, orc) (by simp)
    obtain ⟨ok, ub, wf1, ⟨l, hl⟩, hsem⟩ := force_built (S := S) s hwf n hn orc
    -- structural monotonicity does not depend on the valuation
    have hmono : s.nodes.length ≤ (force s n orc).st.nodes.length := by
      simp only [force]
      split
      · exact Nat.le_refl _
      · cases hnd : s.nodes[n]? with
        | none => rw [List.getElem?_eq_getElem hn] at hnd; cases hnd
        | some nd =>
          cases nd with
          | leaf l' => simp [toLeaf, hnd, Store.addNode]
          | op i o nxf cache =>
            cases cache with
            | some c' => simp [toLeaf, hnd]
            | none =>
              exact (toLeaf_op_none (S := S) s hwf n i o nxf hnd orc _ (Nat.le_refl _)).1.ext.len
    obtain ⟨ok', wf', hsem'⟩ := ih (force s n orc).st wf1
      (fun c hc => Nat.lt_of_lt_of_le (hvalid c (by simp [hc])) hmono)
    refine ⟨by simp [forceSeq, ok, ub, ok'], wf', ?_⟩
    intro L hL hc
    simp only [forceSeq] at hL ⊢
    obtain ⟨hL1, hL2⟩ := (Respects_append L _ _).1 hL
    have b := hsem L hL1 hc
    obtain ⟨r1, s2, c2, m2⟩ := hsem' L hL2 b.cache
    refine ⟨?_, SemExt.trans' b.mono b.sem s2, c2, Nat.le_trans b.mono m2⟩
    simp only [List.map_cons, leafAt_of_node hl, Option.map_some]
    rw [← denote_leaf L hl, b.val, r1]
    congr 1
    apply List.map_congr_left
    intro c' hc'
    rw [b.sem c'.1 (hvalid c' (by simp [hc']))]

end MV.Csg

namespace MV.Csg
open SolidAlg XfAct

variable {M S : Type} [One M] [Mul M] [SolidAlg S] [XfAct M S]

theorem lookup_cons_eq {α : Type} (l : List (Nat × α)) (h h' : Nat) (v : α) :
    ((h, v) :: l).lookup h' = if h' = h then some v else l.lookup h' := by
  rw [List.lookup_cons]
  by_cases e : h' = h
  · subst e; simp
  · have : (h' == h) = false := by simpa using e
    simp [this, e]

theorem lookup_filter_ne {α : Type} (l : List (Nat × α)) (h h' : Nat) :
    (l.filter (fun p => p.1 != h)).lookup h' = if h' = h then none else l.lookup h' := by
  induction l with
  | nil => simp
  | cons p ps ih =>
    obtain ⟨k, v⟩ := p
    simp only [List.filter_cons]
    by_cases hk : k = h
    · subst hk
      simp only [bne_self_eq_false, Bool.false_eq_true, if_false, ih, lookup_cons_eq]
      by_cases e : h' = k <;> simp [e]
    · have : (k != h) = true := by simpa using hk
      simp only [this, if_true, lookup_cons_eq, ih]
      by_cases e : h' = k
      · subst e; simp [hk]
      · simp [e]

/-- the lazy session and the eager specification agree -/
structure SessInv (L : Val S) (σ : Sess M) (sp : Spec S) : Prop where
  wf : WFs σ.st
  cache : CacheOK L σ.st
  bound : ∀ h n, σ.handles.lookup h = some n →
    n < σ.st.nodes.length ∧ sp.env.lookup h = some (denote L σ.st n)
  unbound : ∀ h, σ.handles.lookup h = none → sp.env.lookup h = none
  rets : σ.rets.map L.leaf = sp.rets

theorem SessInv.bind {L : Val S} {σ : Sess M} {sp : Spec S} (inv : SessInv L σ sp)
    {st' : Store M} {n' : Nat} {v : S} (h : Nat) (b : Built L σ.st st' n' v) :
    SessInv L { σ with st := st', handles := (h, n') :: σ.handles }
      { sp with env := (h, v) :: sp.env } := by
  refine ⟨b.wf, b.cache, ?_, ?_, inv.rets⟩
  · intro h' n hl
    simp only [lookup_cons_eq] at hl ⊢
    by_cases e : h' = h
    · simp only [e, if_true] at hl ⊢
      cases hl
      exact ⟨b.lt, by rw [b.val]⟩
    · simp only [e, if_false] at hl ⊢
      obtain ⟨h1, h2⟩ := inv.bound h' n hl
      exact ⟨Nat.lt_of_lt_of_le h1 b.mono, by rw [h2, b.sem n h1]⟩
  · intro h' hl
    simp only [lookup_cons_eq] at hl ⊢
    by_cases e : h' = h
    · simp only [e, if_true] at hl; cases hl
    · simp only [e, if_false] at hl ⊢
      exact inv.unbound h' hl

theorem SessInv.all {L : Val S} {σ : Sess M} {sp : Spec S} (inv : SessInv L σ sp)
    (as : List Nat) :
    (∀ ns, lookupAll σ.handles as = some ns →
      lookupAll sp.env as = some (ns.map (denote L σ.st)) ∧ ∀ n ∈ ns, n < σ.st.nodes.length) ∧
    (lookupAll σ.handles as = none → lookupAll sp.env as = none) := by
  induction as with
  | nil => simp [lookupAll]
  | cons a as ih =>
    simp only [lookupAll]
    cases ha : σ.handles.lookup a with
    | none => simp [inv.unbound a ha]
    | some n =>
      obtain ⟨h1, h2⟩ := inv.bound a n ha
      cases has : lookupAll σ.handles as with
      | none => simp [h2, ih.2 has]
      | some ns =>
        obtain ⟨h3, h4⟩ := ih.1 ns has
        simp only [h2, h3]
        refine ⟨?_, by simp⟩
        intro ns' e
        cases e
        exact ⟨rfl, fun n' hn' => by
          rcases List.mem_cons.1 hn' with rfl | h'
          · exact h1
          · exact h4 n' h'⟩

theorem SessInv.fail {L : Val S} {σ : Sess M} {sp : Spec S} (inv : SessInv L σ sp) :
    SessInv L { σ with ok := false } sp :=
  ⟨inv.wf, inv.cache, inv.bound, inv.unbound, inv.rets⟩

/-- one command -/
theorem exec_inv {L : Val S} {σ : Sess M} {sp : Spec S} (inv : SessInv L σ sp) (c : Cmd M)
    (hL : Respects L (σ.exec c).evs) : SessInv L (σ.exec c) (sp.exec L c) := by
  cases c with
  | leaf h => exact inv.bind h (newLeaf_built L σ.st inv.wf inv.cache h)
  | bool h o a b =>
    simp only [Sess.exec, Spec.exec]
    cases ha : σ.handles.lookup a with
    | none => simp only [inv.unbound a ha]; exact inv.fail
    | some na =>
      obtain ⟨a1, a2⟩ := inv.bound a na ha
      cases hb : σ.handles.lookup b with
      | none => simp only [a2, inv.unbound b hb]; exact inv.fail
      | some nb =>
        obtain ⟨b1, b2⟩ := inv.bound b nb hb
        simp only [a2, b2]
        exact inv.bind h (boolean_built L σ.st inv.wf inv.cache na nb o a1 b1)
  | batch h o as =>
    simp only [Sess.exec, Spec.exec]
    cases has : lookupAll σ.handles as with
    | none => simp only [(inv.all as).2 has]; exact inv.fail
    | some ns =>
      obtain ⟨h1, h2⟩ := (inv.all as).1 ns has
      simp only [h1]
      exact inv.bind h (batch_built L σ.st inv.wf inv.cache ns o h2)
  | xf h a m =>
    simp only [Sess.exec, Spec.exec]
    cases ha : σ.handles.lookup a with
    | none => simp only [inv.unbound a ha]; exact inv.fail
    | some na =>
      obtain ⟨a1, a2⟩ := inv.bound a na ha
      simp only [a2]
      exact inv.bind h (transform_built L σ.st inv.wf inv.cache na m a1)
  | drop h =>
    simp only [Sess.exec, Spec.exec]
    refine ⟨inv.wf, inv.cache, ?_, ?_, inv.rets⟩
    · intro h' n hl
      rw [lookup_filter_ne] at hl ⊢
      split at hl
      · cases hl
      · rename_i e; rw [if_neg e]; exact inv.bound h' n hl
    · intro h' hl
      rw [lookup_filter_ne] at hl ⊢
      split
      · rfl
      · rename_i e; rw [if_neg e] at hl; exact inv.unbound h' hl
  | force h orc =>
    simp only [Sess.exec, Spec.exec] at hL ⊢
    cases hh : σ.handles.lookup h with
    | none => simp only [inv.unbound h hh]; exact inv.fail
    | some n =>
      obtain ⟨h1, h2⟩ := inv.bound h n hh
      obtain ⟨_, _, _, ⟨l, hl⟩, hsem⟩ := force_built (S := S) σ.st inv.wf n h1 orc
      simp only [hh, leafAt_of_node hl] at hL
      obtain ⟨_, hL2⟩ := (Respects_append L _ _).1 hL
      have b := hsem L hL2 inv.cache
      simp only [h2, leafAt_of_node hl]
      refine ⟨b.wf, b.cache, ?_, ?_, ?_⟩
      · intro h' n' hl'
        simp only [lookup_cons_eq] at hl' ⊢
        by_cases e : h' = h
        · simp only [e, if_true] at hl'
          cases hl'
          exact ⟨b.lt, by rw [e, h2, b.val]⟩
        · simp only [e, if_false] at hl'
          obtain ⟨g1, g2⟩ := inv.bound h' n' hl'
          exact ⟨Nat.lt_of_lt_of_le g1 b.mono, by rw [g2, b.sem n' g1]⟩
      · intro h' hl'
        simp only [lookup_cons_eq] at hl'
        by_cases e : h' = h
        · simp only [e, if_true] at hl'; cases hl'
        · simp only [e, if_false] at hl'
          exact inv.unbound h' hl'
      · simp only [List.map_append, List.map_cons, List.map_nil, inv.rets]
        rw [← denote_leaf L hl, b.val]

omit [SolidAlg S] [XfAct M S] in
theorem exec_evs (σ : Sess M) (c : Cmd M) : ∃ e, (σ.exec c).evs = σ.evs ++ e := by
  cases c with
  | leaf h => exact ⟨[], by simp [Sess.exec]⟩
  | bool h o a b => simp only [Sess.exec]; split <;> exact ⟨[], by simp⟩
  | batch h o as => simp only [Sess.exec]; split <;> exact ⟨[], by simp⟩
  | xf h a m => simp only [Sess.exec]; split <;> exact ⟨[], by simp⟩
  | drop h => exact ⟨[], by simp [Sess.exec]⟩
  | force h orc =>
    simp only [Sess.exec]
    split
    · split
      · exact ⟨_, rfl⟩
      · exact ⟨[], by simp⟩
    · exact ⟨[], by simp⟩

omit [SolidAlg S] [XfAct M S] in
theorem run_evs (σ : Sess M) (prog : List (Cmd M)) : ∃ e, (σ.run prog).evs = σ.evs ++ e := by
  induction prog generalizing σ with
  | nil => exact ⟨[], by simp [Sess.run]⟩
  | cons c cs ih =>
    obtain ⟨e1, h1⟩ := exec_evs σ c
    obtain ⟨e2, h2⟩ := ih (σ.exec c)
    exact ⟨e1 ++ e2, by simp only [Sess.run, List.foldl_cons] at h2 ⊢; rw [h2, h1, List.append_assoc]⟩

/-- a whole program, from any consistent pair of states -/
theorem run_inv {L : Val S} (prog : List (Cmd M)) (σ : Sess M) (sp : Spec S)
    (inv : SessInv L σ sp) (hL : Respects L (σ.run prog).evs) :
    SessInv L (σ.run prog) (sp.run L prog) := by
  induction prog generalizing σ sp with
  | nil => exact inv
  | cons c cs ih =>
    obtain ⟨e, he⟩ := run_evs (σ.exec c) cs
    have hL' : Respects L (σ.exec c).evs := by
      have : (σ.run (c :: cs)).evs = (σ.exec c).evs ++ e := he
      rw [this] at hL
      exact ((Respects_append L _ _).1 hL).1
    exact ih (σ.exec c) (sp.exec L c) (exec_inv inv c hL') hL

omit [One M] [Mul M] in
theorem wfs_empty : WFs ({} : Store M) := by
  refine ⟨?_, ?_, ?_, ?_, ?_⟩ <;> intros <;> simp_all

theorem sessInv_empty (L : Val S) : SessInv L ({} : Sess M) ({} : Spec S) := by
  refine ⟨wfs_empty, ?_, ?_, ?_, rfl⟩
  · intro n i o m c h; simp at h
  · intro h n hl; simp at hl
  · intro h _; rfl

end MV.Csg
