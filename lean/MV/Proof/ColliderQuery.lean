/-
`FindCollision`: the explicit-stack loop over the arrays computes the recursive traversal
`visit` of the abstract tree; the traversal reports exactly the overlapping leaves, once each;
the 64-entry stack and `children.size` iterations suffice.
-/
import MV.Proof.ColliderBase

namespace MV.Collider

section
variable (boxes : Array Box) (ov : Box → Bool) (self : Bool) (q : Nat)

/-- box stored for node `id` -/
def cell (id : Int) : Box := boxes.getD id.toNat default

/-- the overlap test on a node's cell -/
def ovb (c : T) : Bool := ov (cell boxes c.id)

/-- what `RecordCollision` appends for child `c` -/
def hit : T → List Nat
  | .leaf i => if ov (cell boxes (2 * (i : Int))) && (!self || i != q) then [i] else []
  | .node _ _ _ => []

/-- `RecordCollision`'s return value for child `c` -/
def trav : T → Bool
  | .leaf _ => false
  | .node k _ _ => ov (cell boxes (2 * (k : Int) + 1))

/-- everything recorded from the moment the loop is at internal node `t` until it leaves `t`'s
subtree -/
def visit : T → List Nat
  | .leaf _ => []
  | .node _ l r =>
    hit boxes ov self q l ++ hit boxes ov self q r ++
      (if trav boxes ov l then visit l else []) ++ (if trav boxes ov r then visit r else [])

/-- all cells of the tree are inside `nodeBBox_` -/
def BoxIn : T → Prop
  | .leaf i => 2 * i < boxes.size
  | .node k l r => 2 * k + 1 < boxes.size ∧ BoxIn l ∧ BoxIn r

theorem BoxIn.id_lt {boxes : Array Box} : ∀ {t : T}, BoxIn boxes t → t.id.toNat < boxes.size
  | .leaf i, h => by rw [id_leaf_toNat]; exact h
  | .node k l r, h => by rw [id_node_toNat]; exact h.1

theorem recordCollision_spec {c : T} (hb : BoxIn boxes c) (out : Array Nat) :
    recordCollision boxes ov self q c.id out =
      some (trav boxes ov c, out ++ (hit boxes ov self q c).toArray) := by
  have hlt := hb.id_lt
  have h0 := id_nonneg c
  unfold recordCollision
  have hget : boxes[c.id.toNat]? = some (cell boxes c.id) := by
    simp [cell, Array.getD_eq_getD_getElem?, Array.getElem?_eq_getElem hlt]
  simp only [show ¬ c.id < 0 from by omega, if_false, hget]
  cases c with
  | leaf i =>
    have e1 : isLeaf (T.leaf i).id = true := by
      simp only [isLeaf, T.id, beq_iff_eq]; omega
    have e2 : isInternal (T.leaf i).id = false := by
      simp only [isInternal, T.id, beq_eq_false_iff_ne, ne_eq]; omega
    have e3 : (node2Leaf (T.leaf i).id).toNat = i := by simp only [node2Leaf, T.id]; omega
    simp only [e1, e2, e3, Bool.and_true, Bool.and_false, trav, hit]
    simp only [T.id]
    by_cases hc : (ov (cell boxes (2 * (i : Int))) && (!self || i != q)) = true
    · simp [hc]
    · simp [hc]
  | node k l r =>
    have e1 : isLeaf (T.node k l r).id = false := by
      simp only [isLeaf, T.id, beq_eq_false_iff_ne, ne_eq]; omega
    have e2 : isInternal (T.node k l r).id = true := by
      simp only [isInternal, T.id, beq_iff_eq]; omega
    simp only [e1, e2, Bool.and_false, Bool.and_true, Bool.false_and, trav, hit]
    simp [T.id]

/-- stack discipline: an entry with `m` entries below it has height `≤ 64 - m` -/
def StackOk : List T → Prop
  | [] => True
  | s :: rest => rest.length + s.height ≤ 64 ∧ StackOk rest

/-- number of loop iterations still needed -/
def work : List T → Nat
  | [] => 0
  | s :: rest => s.internals.length + work rest

/-- The loop at internal node `t` with pending stack `ts` (top first) finishes with `t`'s visit
followed by the visits of the pending nodes. -/
theorem findLoop_spec {ch : Array (Int × Int)} :
    ∀ (fuel : Nat) (t : T) (ts : List T) (out : Array Nat),
      t.isNode = true → Rep ch t → BoxIn boxes t →
      (∀ s ∈ ts, s.isNode = true ∧ Rep ch s ∧ BoxIn boxes s) →
      StackOk (t :: ts) → work (t :: ts) ≤ fuel →
      findLoop ch boxes ov self q fuel t.id (ts.map T.id) out =
        some (out ++ (visit boxes ov self q t ++ ts.flatMap (visit boxes ov self q)).toArray) := by
  intro fuel
  induction fuel with
  | zero =>
    intro t ts out hn _ _ _ _ hw
    cases t with
    | leaf i => simp [T.isNode] at hn
    | node k l r => simp [work, T.internals] at hw
  | succ f ih =>
    intro t ts out hn hrep hbox hts hst hw
    cases t with
    | leaf i => simp [T.isNode] at hn
    | node k l r =>
      obtain ⟨hc, rl, rr⟩ := hrep
      obtain ⟨_, bl, br⟩ := hbox
      obtain ⟨hst1, hst2⟩ := hst
      simp only [T.height] at hst1
      have hm1 : l.height ≤ Nat.max l.height r.height := Nat.le_max_left _ _
      have hm2 : r.height ≤ Nat.max l.height r.height := Nat.le_max_right _ _
      simp only [work, T.internals, List.length_cons, List.length_append] at hw
      unfold findLoop
      have h1 : ¬ (T.node k l r).id < 1 := by simp only [T.id]; omega
      have h3 : (node2Internal (T.node k l r).id).toNat = k := by
        simp only [T.id, node2Internal]; omega
      simp only [h1, if_false, h3, hc, recordCollision_spec boxes ov self q bl,
        recordCollision_spec boxes ov self q br]
      by_cases t1 : trav boxes ov l = true
      · -- descend into child1
        have hln : l.isNode = true := by
          cases l with
          | leaf i => simp [trav] at t1
          | node _ _ _ => rfl
        by_cases t2 : trav boxes ov r = true
        · have hrn : r.isNode = true := by
            cases r with
            | leaf i => simp [trav] at t2
            | node _ _ _ => rfl
          have hlh : 1 ≤ l.height := by
            cases l with
            | leaf i => simp [T.isNode] at hln
            | node _ _ _ => simp only [T.height]; omega
          have hlen : ¬ (ts.map T.id).length ≥ kStackSize := by
            simp only [List.length_map, kStackSize]; omega
          simp only [t1, t2, Bool.not_true, Bool.and_self, Bool.false_eq_true, if_false, if_true,
            hlen]
          have := ih l (r :: ts) (out ++ (hit boxes ov self q l).toArray ++
              (hit boxes ov self q r).toArray) hln rl bl
            (by
              intro s hs
              rcases List.mem_cons.mp hs with e | e
              · subst e; exact ⟨hrn, rr, br⟩
              · exact hts s e)
            (by
              refine ⟨?_, ?_, hst2⟩
              · simp only [List.length_cons]; omega
              · omega)
            (by simp only [work]; omega)
          simp only [List.map_cons] at this
          rw [this]
          simp [visit, t1, t2, List.flatMap_cons]
        · simp only [Bool.not_eq_true] at t2
          simp only [t1, t2, Bool.not_true, Bool.false_and, Bool.and_false, Bool.false_eq_true,
            if_false, if_true]
          have := ih l ts (out ++ (hit boxes ov self q l).toArray ++
              (hit boxes ov self q r).toArray) hln rl bl hts
            ⟨by omega, hst2⟩ (by simp only [work]; omega)
          rw [this]
          simp [visit, t1, t2]
      · simp only [Bool.not_eq_true] at t1
        by_cases t2 : trav boxes ov r = true
        · have hrn : r.isNode = true := by
            cases r with
            | leaf i => simp [trav] at t2
            | node _ _ _ => rfl
          simp only [t1, t2, Bool.not_true, Bool.not_false, Bool.and_false, Bool.false_and,
            Bool.false_eq_true, if_false]
          have := ih r ts (out ++ (hit boxes ov self q l).toArray ++
              (hit boxes ov self q r).toArray) hrn rr br hts
            ⟨by omega, hst2⟩ (by simp only [work]; omega)
          rw [this]
          simp [visit, t1, t2]
        · simp only [Bool.not_eq_true] at t2
          simp only [t1, t2, Bool.not_false, Bool.and_self, if_true]
          cases ts with
          | nil => simp [visit, t1, t2]
          | cons s rest =>
            have ⟨hsn, hsr, hsb⟩ := hts s (List.mem_cons_self)
            simp only [List.map_cons]
            have := ih s rest (out ++ (hit boxes ov self q l).toArray ++
              (hit boxes ov self q r).toArray) hsn hsr hsb
              (fun s' hs' => hts s' (List.mem_cons_of_mem _ hs')) hst2
              (by simp only [work] at hw ⊢; omega)
            rw [this]
            simp [visit, t1, t2, List.flatMap_cons]

/-! ### what the traversal reports -/

/-- pruning is sound: below every internal node, an overlapping child cell forces the node's
own cell to overlap -/
def OvMono : T → Prop
  | .leaf _ => True
  | .node k l r =>
    (ovb boxes ov l = true → ovb boxes ov (.node k l r) = true) ∧
    (ovb boxes ov r = true → ovb boxes ov (.node k l r) = true) ∧ OvMono l ∧ OvMono r

/-- the leaf `i` is a reportable hit -/
def good (i : Nat) : Bool := ov (cell boxes (2 * (i : Int))) && (!self || i != q)

/-- entering child `c`: its own record plus, if traversed, its visit -/
def enter (c : T) : List Nat :=
  hit boxes ov self q c ++ (if trav boxes ov c then visit boxes ov self q c else [])

theorem count_visit_node (k : Nat) (l r : T) (x : Nat) :
    (visit boxes ov self q (.node k l r)).count x =
      (enter boxes ov self q l).count x + (enter boxes ov self q r).count x := by
  simp only [visit, enter, List.count_append]
  omega

theorem mem_visit_node (k : Nat) (l r : T) (x : Nat) :
    x ∈ visit boxes ov self q (.node k l r) ↔
      x ∈ enter boxes ov self q l ∨ x ∈ enter boxes ov self q r := by
  simp only [visit, enter, List.mem_append]
  constructor
  · rintro (((h | h) | h) | h)
    · exact Or.inl (Or.inl h)
    · exact Or.inr (Or.inl h)
    · exact Or.inl (Or.inr h)
    · exact Or.inr (Or.inr h)
  · rintro ((h | h) | (h | h))
    · exact Or.inl (Or.inl (Or.inl h))
    · exact Or.inl (Or.inr h)
    · exact Or.inl (Or.inl (Or.inr h))
    · exact Or.inr h

theorem ovb_of_leaf_good : ∀ (t : T), OvMono boxes ov t → ∀ x, x ∈ t.leaves →
    ov (cell boxes (2 * (x : Int))) = true → ovb boxes ov t = true := by
  intro t
  induction t with
  | leaf i =>
    intro _ x hx h
    simp only [T.leaves, List.mem_singleton] at hx
    subst hx
    simpa [ovb, T.id] using h
  | node k l r ihl ihr =>
    intro hm x hx h
    obtain ⟨m1, m2, ml, mr⟩ := hm
    simp only [T.leaves, List.mem_append] at hx
    rcases hx with hx | hx
    · exact m1 (ihl ml x hx h)
    · exact m2 (ihr mr x hx h)

theorem mem_enter : ∀ (t : T), OvMono boxes ov t → ∀ x,
    x ∈ enter boxes ov self q t ↔ (x ∈ t.leaves ∧ good boxes ov self q x = true) := by
  intro t
  induction t with
  | leaf i =>
    intro _ x
    simp only [enter, hit, trav, T.leaves, List.mem_singleton, good, Bool.false_eq_true, if_false,
      List.append_nil]
    split
    · rename_i h
      simp only [List.mem_singleton]
      constructor
      · intro e; subst e; exact ⟨rfl, h⟩
      · intro e; exact e.1
    · rename_i h
      simp only [List.not_mem_nil, false_iff]
      intro ⟨e, g⟩
      subst e
      exact h g
  | node k l r ihl ihr =>
    intro hm x
    have hm' := hm
    obtain ⟨m1, m2, ml, mr⟩ := hm
    simp only [enter, hit, List.nil_append]
    by_cases tv : trav boxes ov (.node k l r) = true
    · simp only [tv, if_true]
      rw [mem_visit_node, ihl ml, ihr mr]
      simp only [T.leaves, List.mem_append]
      constructor
      · rintro (⟨h, g⟩ | ⟨h, g⟩)
        · exact ⟨Or.inl h, g⟩
        · exact ⟨Or.inr h, g⟩
      · rintro ⟨h | h, g⟩
        · exact Or.inl ⟨h, g⟩
        · exact Or.inr ⟨h, g⟩
    · simp only [Bool.not_eq_true] at tv
      simp only [tv, Bool.false_eq_true, if_false, List.not_mem_nil, false_iff]
      intro ⟨hx, g⟩
      have tv : ¬ trav boxes ov (.node k l r) = true := by simp [tv]
      apply tv
      simp only [good, Bool.and_eq_true] at g
      have := ovb_of_leaf_good boxes ov _ hm' x hx g.1
      simpa [ovb, trav, T.id] using this

theorem count_enter_le : ∀ (t : T) (x : Nat),
    (enter boxes ov self q t).count x ≤ t.leaves.count x := by
  intro t
  induction t with
  | leaf i =>
    intro x
    simp only [enter, hit, trav, T.leaves, Bool.false_eq_true, if_false, List.append_nil]
    split
    · exact Nat.le_refl _
    · simp
  | node k l r ihl ihr =>
    intro x
    simp only [enter, hit, List.nil_append, T.leaves, List.count_append]
    split
    · rw [count_visit_node]
      have := ihl x; have := ihr x; omega
    · simp

end

/-! ### the query theorem from the decidable checks -/

/-- data extracted from `unionBoxes` -/
theorem unionBoxes_unpack {ch : Array (Int × Int)} {boxes leafBB : Array Box} {n : Nat}
    (h : unionBoxes ch boxes leafBB n = true) :
    boxes.size = 2 * n - 1 ∧ leafBB.size = n ∧
    (∀ i, i < n → boxes[2 * i]? = leafBB[i]?) ∧
    (∀ k, k < n - 1 → ∃ c1 c2 b b1 b2, ch[k]? = some (c1, c2) ∧ 0 ≤ c1 ∧ 0 ≤ c2 ∧
      boxes[2 * k + 1]? = some b ∧ boxes[c1.toNat]? = some b1 ∧ boxes[c2.toNat]? = some b2 ∧
      b = b1.union b2) := by
  simp only [unionBoxes, Bool.and_eq_true, beq_iff_eq, List.all_eq_true, List.mem_range] at h
  obtain ⟨⟨⟨h1, h2⟩, h3⟩, h4⟩ := h
  refine ⟨h1, h2, h3, ?_⟩
  intro k hk
  have := h4 k hk
  split at this
  · simp at this
  · rename_i c1 c2 hc
    simp only [Bool.and_eq_true, decide_eq_true_eq] at this
    obtain ⟨⟨p1, p2⟩, p3⟩ := this
    split at p3
    · rename_i b b1 b2 e e1 e2
      exact ⟨c1, c2, b, b1, b2, hc, p1, p2, e, e1, e2, by simpa using p3⟩
    · simp at p3

theorem ovMono_of_unionBoxes {ch : Array (Int × Int)} {boxes leafBB : Array Box} {n : Nat}
    (hub : unionBoxes ch boxes leafBB n = true) (ov : Box → Bool)
    (hov1 : ∀ a b : Box, ov a = true → ov (a.union b) = true)
    (hov2 : ∀ a b : Box, ov b = true → ov (a.union b) = true) :
    ∀ (t : T), Rep ch t → (∀ k ∈ t.internals, k < n - 1) → OvMono boxes ov t := by
  have ⟨_, _, _, hk⟩ := unionBoxes_unpack hub
  intro t
  induction t with
  | leaf i => intro _ _; trivial
  | node k l r ihl ihr =>
    intro hrep hint
    obtain ⟨hc, rl, rr⟩ := hrep
    have hkn : k < n - 1 := hint k (by simp [T.internals])
    obtain ⟨c1, c2, b, b1, b2, e, _, _, eb, e1, e2, eu⟩ := hk k hkn
    rw [hc] at e
    simp only [Option.some.injEq, Prod.mk.injEq] at e
    obtain ⟨el, er⟩ := e
    have cl : cell boxes l.id = b1 := by
      simp [cell, Array.getD_eq_getD_getElem?, el, e1]
    have cr : cell boxes r.id = b2 := by
      simp [cell, Array.getD_eq_getD_getElem?, er, e2]
    have ck : cell boxes (T.node k l r).id = b := by
      simp [cell, Array.getD_eq_getD_getElem?, id_node_toNat, eb]
    refine ⟨?_, ?_, ihl rl ?_, ihr rr ?_⟩
    · intro h
      simp only [ovb] at h ⊢
      rw [ck, eu]; rw [cl] at h
      exact hov1 _ _ h
    · intro h
      simp only [ovb] at h ⊢
      rw [ck, eu]; rw [cr] at h
      exact hov2 _ _ h
    · intro k' hk'; exact hint k' (by simp [T.internals, hk'])
    · intro k' hk'; exact hint k' (by simp [T.internals, hk'])

theorem boxIn_of_bounds {boxes : Array Box} {n : Nat} (hsz : boxes.size = 2 * n - 1) :
    ∀ (t : T), (∀ i ∈ t.leaves, i < n) → (∀ k ∈ t.internals, k < n - 1) → BoxIn boxes t := by
  intro t
  induction t with
  | leaf i =>
    intro hl _
    have := hl i (by simp [T.leaves])
    simp only [BoxIn]; omega
  | node k l r ihl ihr =>
    intro hl hi
    have := hi k (by simp [T.internals])
    refine ⟨by omega, ihl ?_ ?_, ihr ?_ ?_⟩
    · intro i h; exact hl i (by simp [T.leaves, h])
    · intro i h; exact hi i (by simp [T.internals, h])
    · intro i h; exact hl i (by simp [T.leaves, h])
    · intro i h; exact hi i (by simp [T.internals, h])

/-- **Query correctness from the two decidable checks.**  For any overlap test `ov` that is
monotone under `Box.union` (both the box and the point test are), `findCollision` terminates
within its fuel, never pushes onto a full 64-entry stack, and returns each leaf whose box
passes `ov` (and differs from the query index when `selfCollision`) exactly once. -/
theorem findCollision_of_wf {ch : Array (Int × Int)} {parent : Array Int}
    {boxes leafBB : Array Box} {n : Nat}
    (hwf : wfTree ch parent n = true) (hub : unionBoxes ch boxes leafBB n = true)
    (ov : Box → Bool)
    (hov1 : ∀ a b : Box, ov a = true → ov (a.union b) = true)
    (hov2 : ∀ a b : Box, ov b = true → ov (a.union b) = true)
    (self : Bool) (q : Nat) :
    ∃ out, findCollision ch boxes ov self q = some out ∧ out.toList.Nodup ∧
      ∀ i, i ∈ out.toList ↔
        (i < n ∧ (∃ b, leafBB[i]? = some b ∧ ov b = true) ∧ (self = true → i ≠ q)) := by
  obtain ⟨hn, hcs, _, t, ht, hcov, _, _⟩ := wfTree_unpack hwf
  obtain ⟨hrep, hid, hh⟩ := toTree_spec _ _ _ ht
  have ⟨hbs, hls, hleaf, _⟩ := unionBoxes_unpack hub
  have hleaves : ∀ i, i ∈ t.leaves ↔ i < n := by
    intro i; rw [mem_leaves_of_cover hcov]; omega
  have hints : ∀ k, k ∈ t.internals ↔ k < n - 1 := mem_internals_root hcov hid
  have hbox : BoxIn boxes t :=
    boxIn_of_bounds hbs t (fun i h => (hleaves i).mp h) (fun k h => (hints k).mp h)
  have hmono : OvMono boxes ov t :=
    ovMono_of_unionBoxes hub ov hov1 hov2 t hrep (fun k h => (hints k).mp h)
  have hnode : t.isNode = true := by
    cases t with
    | leaf i => simp only [T.id, kRoot] at hid; omega
    | node _ _ _ => rfl
  have hwork : work [t] ≤ ch.size := by
    have := leaves_length t
    have hl : t.leaves.length = n := by
      rw [cover_leaves _ _ _ hcov]; simp; omega
    simp only [work]; omega
  have hspec := findLoop_spec boxes ov self q (ch := ch) ch.size t [] #[] hnode hrep hbox
    (by intro s hs; simp at hs) ⟨by simp; omega, trivial⟩ hwork
  refine ⟨(visit boxes ov self q t).toArray, ?_, ?_, ?_⟩
  · unfold findCollision
    have : ¬ ch.size = 0 := by omega
    simp only [this, if_false]
    rw [← hid, show ([] : List Int) = ([] : List T).map T.id from rfl, hspec]
    simp
  · -- each leaf at most once
    rw [List.nodup_iff_count]
    intro x
    have hnd : t.leaves.Nodup := nodup_leaves_of_cover hcov
    cases t with
    | leaf i => simp [T.isNode] at hnode
    | node k l r =>
      rw [count_visit_node]
      have h1 := count_enter_le boxes ov self q l x
      have h2 := count_enter_le boxes ov self q r x
      have h3 := (List.nodup_iff_count.mp hnd) x
      simp only [T.leaves, List.count_append] at h3
      omega
  · intro i
    cases t with
    | leaf i => simp [T.isNode] at hnode
    | node k l r =>
      obtain ⟨_, _, ml, mr⟩ := hmono
      rw [mem_visit_node, mem_enter boxes ov self q l ml, mem_enter boxes ov self q r mr]
      have hl := hleaves i
      simp only [T.leaves, List.mem_append] at hl
      have hgood : i < n → (good boxes ov self q i = true ↔
          ((∃ b, leafBB[i]? = some b ∧ ov b = true) ∧ (self = true → i ≠ q))) := by
        intro hi
        have e := hleaf i hi
        have hi' : i < leafBB.size := by omega
        have hc : cell boxes (2 * (i : Int)) = leafBB[i] := by
          have : (2 * (i : Int)).toNat = 2 * i := by omega
          simp only [cell, this, Array.getD_eq_getD_getElem?, e,
            Array.getElem?_eq_getElem hi', Option.getD_some]
        simp only [good, hc, Bool.and_eq_true, Bool.or_eq_true, Bool.not_eq_true',
          bne_iff_ne, ne_eq, Array.getElem?_eq_getElem hi', Option.some.injEq, exists_eq_left']
        constructor
        · rintro ⟨h1, h2⟩
          refine ⟨h1, ?_⟩
          intro hs
          rcases h2 with h2 | h2
          · rw [hs] at h2; cases h2
          · exact h2
        · rintro ⟨h1, h2⟩
          refine ⟨h1, ?_⟩
          cases self with
          | false => exact Or.inl rfl
          | true => exact Or.inr (h2 rfl)
      constructor
      · rintro (⟨h, g⟩ | ⟨h, g⟩)
        · have hi := hl.mp (Or.inl h)
          have := (hgood hi).mp g
          exact ⟨hi, this.1, this.2⟩
        · have hi := hl.mp (Or.inr h)
          have := (hgood hi).mp g
          exact ⟨hi, this.1, this.2⟩
      · rintro ⟨hi, g1, g2⟩
        have g := (hgood hi).mpr ⟨g1, g2⟩
        rcases hl.mpr hi with h | h
        · exact Or.inl ⟨h, g⟩
        · exact Or.inr ⟨h, g⟩

/-! ### the two documented overlap tests are monotone under union -/

theorem doesOverlapBox_union_left (qb a b : Box) (h : doesOverlapBox a qb = true) :
    doesOverlapBox (a.union b) qb = true := by
  simp only [doesOverlapBox, Bool.and_eq_true, decide_eq_true_eq] at h
  simp only [doesOverlapBox, Box.union, Bool.and_eq_true]
  refine ⟨⟨⟨⟨⟨?_, ?_⟩, ?_⟩, ?_⟩, ?_⟩, ?_⟩ <;> apply decide_eq_true <;> omega

theorem doesOverlapBox_union_right (qb a b : Box) (h : doesOverlapBox b qb = true) :
    doesOverlapBox (a.union b) qb = true := by
  simp only [doesOverlapBox, Bool.and_eq_true, decide_eq_true_eq] at h
  simp only [doesOverlapBox, Box.union, Bool.and_eq_true]
  refine ⟨⟨⟨⟨⟨?_, ?_⟩, ?_⟩, ?_⟩, ?_⟩, ?_⟩ <;> apply decide_eq_true <;> omega

theorem doesOverlapPoint_union_left (p : Vec3) (a b : Box) (h : doesOverlapPoint a p = true) :
    doesOverlapPoint (a.union b) p = true := by
  simp only [doesOverlapPoint, Bool.and_eq_true, decide_eq_true_eq] at h
  simp only [doesOverlapPoint, Box.union, Bool.and_eq_true]
  refine ⟨⟨⟨?_, ?_⟩, ?_⟩, ?_⟩ <;> apply decide_eq_true <;> omega

theorem doesOverlapPoint_union_right (p : Vec3) (a b : Box) (h : doesOverlapPoint b p = true) :
    doesOverlapPoint (a.union b) p = true := by
  simp only [doesOverlapPoint, Bool.and_eq_true, decide_eq_true_eq] at h
  simp only [doesOverlapPoint, Box.union, Bool.and_eq_true]
  refine ⟨⟨⟨?_, ?_⟩, ?_⟩, ?_⟩ <;> apply decide_eq_true <;> omega

end MV.Collider
