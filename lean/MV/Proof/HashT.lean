/-
Verification of the lock-free hash table model MV/Model/HashT.lean
(`HashTableD::Insert` / `operator[]` / `Full` of /repo/src/hashtable.h) for ALL thread
counts, programs and schedules under sequential consistency.

Standing hypothesis, stated explicitly in every theorem that needs it: `KeysOK progs`, i.e.
no op uses the key `kOpen = 2^64-1`.  With `key = kOpen` the CAS `kOpen -> kOpen` "succeeds"
without claiming anything, so two threads can both "claim" the same slot and race on the
plain value store (concrete counterexample `kOpen_key_breaks_exclusion` at the end).
-/
import MV.Model.HashT

namespace MV.HashT

/-! ## list helpers -/

@[simp] theorem getD_set_eq (l : List Nat) (i a d : Nat) (h : i < l.length) :
    (l.set i a).getD i d = a := by
  simp [List.getD_eq_getElem?_getD, h]

@[simp] theorem getD_set_ne (l : List Nat) (i j a d : Nat) (h : i ≠ j) :
    (l.set i a).getD j d = l.getD j d := by
  simp [List.getD_eq_getElem?_getD, h]

theorem getD_ne_default_lt (l : List Nat) (i d : Nat) (h : l.getD i d ≠ d) : i < l.length := by
  apply Classical.byContradiction
  intro hn
  apply h
  simp [List.getD_eq_getElem?_getD, List.getElem?_eq_none (Nat.le_of_not_lt hn)]

theorem getElem?_snoc {α : Type} (l : List α) (r x : α) (n : Nat) :
    (l ++ [r])[n]? = some x ↔ l[n]? = some x ∨ (n = l.length ∧ x = r) := by
  rw [List.getElem?_append]
  by_cases h : n < l.length
  · simp only [h, if_true]
    constructor
    · exact Or.inl
    · rintro (h1 | ⟨h1, _⟩)
      · exact h1
      · omega
  · simp only [h, if_false]
    have h0 : l[n]? = none := List.getElem?_eq_none (Nat.le_of_not_lt h)
    by_cases h2 : n = l.length
    · subst h2
      simp [eq_comm]
    · have : n - l.length ≠ 0 := by omega
      obtain ⟨m, hm⟩ := Nat.exists_eq_succ_of_ne_zero this
      simp [hm, h0, h2]

/-! ## keys only ever go from `kOpen` to a key -/

def KeysMono (k k' : List Nat) : Prop :=
  k'.length = k.length ∧ ∀ i, k.getD i kOpen ≠ kOpen → k'.getD i kOpen = k.getD i kOpen

theorem KeysMono.refl (k : List Nat) : KeysMono k k := ⟨rfl, fun _ _ => rfl⟩

theorem KeysMono.trans {a b c : List Nat} (h1 : KeysMono a b) (h2 : KeysMono b c) :
    KeysMono a c := by
  refine ⟨h2.1.trans h1.1, fun i hi => ?_⟩
  have e1 := h1.2 i hi
  have e2 := h2.2 i (by rw [e1]; exact hi)
  rw [e2, e1]

theorem KeysMono.set (k : List Nat) (i key : Nat) (h : k.getD i kOpen = kOpen) :
    KeysMono k (k.set i key) := by
  refine ⟨by simp, fun j hj => ?_⟩
  have : i ≠ j := by rintro rfl; exact hj h
  simp [this]

/-! ## the transition relation of one thread (a relational reading of `stepThr`) -/

inductive TStep (cfg : Cfg) (keys vals : List Nat) (used : Nat) (t : Thr) :
    List Nat → List Nat → Nat → Thr → Prop
  | fullYes (key val : Nat) : t.cur = some (.ins key val) → t.pc = .iFull →
      used * 2 > cfg.size → TStep cfg keys vals used t keys vals used (t.finish cfg .full)
  | fullNo (key val : Nat) : t.cur = some (.ins key val) → t.pc = .iFull →
      ¬ used * 2 > cfg.size → TStep cfg keys vals used t keys vals used { t with pc := .iCas }
  | casWin (key val : Nat) : t.cur = some (.ins key val) → t.pc = .iCas →
      keys.getD t.idx kOpen = kOpen →
      TStep cfg keys vals used t (keys.set t.idx key) vals used { t with pc := .iAdd }
  | casPresent (key val : Nat) : t.cur = some (.ins key val) → t.pc = .iCas →
      keys.getD t.idx kOpen ≠ kOpen → keys.getD t.idx kOpen = key →
      TStep cfg keys vals used t keys vals used (t.finish cfg (.present t.idx))
  | casOther (key val : Nat) : t.cur = some (.ins key val) → t.pc = .iCas →
      keys.getD t.idx kOpen ≠ kOpen → keys.getD t.idx kOpen ≠ key →
      TStep cfg keys vals used t keys vals used (t.advance cfg .iFull)
  | add (key val : Nat) : t.cur = some (.ins key val) → t.pc = .iAdd →
      TStep cfg keys vals used t keys vals (used + 1) { t with pc := .iStore }
  | store (key val : Nat) : t.cur = some (.ins key val) → t.pc = .iStore →
      TStep cfg keys vals used t keys (vals.set t.idx val) used (t.finish cfg (.inserted t.idx))
  | keyHit (key : Nat) : t.cur = some (.get key) → t.pc = .gKey →
      (keys.getD t.idx kOpen = key ∨ keys.getD t.idx kOpen = kOpen) →
      TStep cfg keys vals used t keys vals used { t with pc := .gVal, reg := keys.getD t.idx kOpen }
  | keyMiss (key : Nat) : t.cur = some (.get key) → t.pc = .gKey →
      ¬ (keys.getD t.idx kOpen = key ∨ keys.getD t.idx kOpen = kOpen) →
      TStep cfg keys vals used t keys vals used (t.advance cfg .gKey)
  | val (key : Nat) : t.cur = some (.get key) → t.pc = .gVal →
      TStep cfg keys vals used t keys vals used
        (t.finish cfg (.got (if t.reg = key then 1 else 0) t.idx (vals.getD t.idx 0)))

/-- `stepThr` either leaves everything unchanged or performs a `TStep`. -/
theorem stepThr_cases (cfg : Cfg) (keys vals : List Nat) (used tid : Nat) (t : Thr) :
    let o := stepThr cfg keys vals used tid t
    (o.keys = keys ∧ o.vals = vals ∧ o.used = used ∧ o.t = t) ∨
      TStep cfg keys vals used t o.keys o.vals o.used o.t := by
  intro o
  show (_ ∧ _ ∧ _ ∧ _) ∨ _
  unfold o stepThr
  split
  · rename_i key val hcur
    unfold stepIns
    split
    · split
      · exact Or.inr (.fullYes key val hcur ‹_› ‹_›)
      · exact Or.inr (.fullNo key val hcur ‹_› ‹_›)
    · dsimp only
      split
      · exact Or.inr (.casWin key val hcur ‹_› ‹_›)
      · split
        · exact Or.inr (.casPresent key val hcur ‹_› ‹_› ‹_›)
        · exact Or.inr (.casOther key val hcur ‹_› ‹_› ‹_›)
    · exact Or.inr (.add key val hcur ‹_›)
    · exact Or.inr (.store key val hcur ‹_›)
    · exact Or.inl ⟨rfl, rfl, rfl, rfl⟩
  · rename_i key hcur
    unfold stepGet
    split
    · dsimp only
      split
      · exact Or.inr (.keyHit key hcur ‹_› ‹_›)
      · exact Or.inr (.keyMiss key hcur ‹_› ‹_›)
    · exact Or.inr (.val key hcur ‹_›)
    · exact Or.inl ⟨rfl, rfl, rfl, rfl⟩
  · exact Or.inl ⟨rfl, rfl, rfl, rfl⟩

theorem step_cases (cfg : Cfg) (s : State) (tid : Nat) :
    (step cfg s tid).1 = s ∨
      ∃ t k' v' u' t', s.thr[tid]? = some t ∧ TStep cfg s.keys s.vals s.used t k' v' u' t' ∧
        (step cfg s tid).1 = ⟨k', v', u', s.thr.set tid t'⟩ := by
  unfold step
  split
  · exact Or.inl rfl
  · rename_i t ht
    rcases stepThr_cases cfg s.keys s.vals s.used tid t with ⟨h1, h2, h3, h4⟩ | h
    · left
      dsimp only
      rw [h1, h2, h3, h4]
      have : s.thr.set tid t = s.thr := by
        obtain ⟨hlt, hget⟩ := List.getElem?_eq_some_iff.mp ht
        rw [← hget]; exact List.set_getElem_self hlt
      rw [this]
    · right
      exact ⟨t, _, _, _, _, ht, h, rfl⟩

theorem TStep.keysMono {cfg : Cfg} {keys vals : List Nat} {used : Nat} {t : Thr}
    {k' v' : List Nat} {u' : Nat} {t' : Thr} (h : TStep cfg keys vals used t k' v' u' t') :
    KeysMono keys k' := by
  cases h <;> first | exact KeysMono.refl _ | exact KeysMono.set _ _ _ ‹_›

/-- Two-state lemma: a claimed key slot never changes (no hypothesis on the state at all). -/
theorem step_keys_mono (cfg : Cfg) (s : State) (tid : Nat) :
    KeysMono s.keys (step cfg s tid).1.keys := by
  rcases step_cases cfg s tid with h | ⟨t, k', v', u', t', _, hs, h⟩
  · rw [h]; exact KeysMono.refl _
  · rw [h]; exact hs.keysMono

theorem run_keys_mono (cfg : Cfg) (sched : List Nat) :
    ∀ s : State, KeysMono s.keys (run cfg s sched).1.keys := by
  induction sched with
  | nil => intro s; exact KeysMono.refl _
  | cons tid rest ih =>
      intro s
      exact (step_keys_mono cfg s tid).trans (ih _)

/-! ## probe sequences, `Fresh`, `Located`, sequential lookup -/

/-- probe positions repeat with period `size` -/
theorem probe_mod (c : Cfg) (key j : Nat) : c.probe key (j % c.size) = c.probe key j := by
  unfold Cfg.probe
  conv => rhs; rw [← Nat.div_add_mod j c.size]
  rw [Nat.add_mul, Nat.mul_assoc, ← Nat.add_assoc, Nat.add_right_comm, Nat.add_mul_mod_self_left]

/-- the first `j` probes of `key` all hold keys other than `kOpen` and `key` -/
def Fresh (cfg : Cfg) (keys : List Nat) (key j : Nat) : Prop :=
  ∀ j', j' < j → keys.getD (cfg.probe key j') kOpen ≠ kOpen ∧ keys.getD (cfg.probe key j') kOpen ≠ key

/-- slot `i` is where the probe sequence of `key` meets `key` for the first time -/
def Located (cfg : Cfg) (keys : List Nat) (key i : Nat) : Prop :=
  ∃ j, i = cfg.probe key j ∧ keys.getD i kOpen = key ∧ Fresh cfg keys key j

theorem Fresh.zero (cfg : Cfg) (keys : List Nat) (key : Nat) : Fresh cfg keys key 0 :=
  fun _ h => absurd h (Nat.not_lt_zero _)

theorem Fresh.succ {cfg : Cfg} {keys : List Nat} {key j : Nat} (h : Fresh cfg keys key j)
    (h1 : keys.getD (cfg.probe key j) kOpen ≠ kOpen) (h2 : keys.getD (cfg.probe key j) kOpen ≠ key) :
    Fresh cfg keys key (j + 1) := by
  intro j' hj'
  by_cases e : j' = j
  · subst e; exact ⟨h1, h2⟩
  · exact h j' (by omega)

theorem Fresh.mono {cfg : Cfg} {keys keys' : List Nat} {key j : Nat} (hm : KeysMono keys keys')
    (h : Fresh cfg keys key j) : Fresh cfg keys' key j := by
  intro j' hj'
  have := h j' hj'
  rw [hm.2 _ this.1]
  exact this

theorem Located.mono {cfg : Cfg} {keys keys' : List Nat} {key i : Nat} (hm : KeysMono keys keys')
    (hk : key ≠ kOpen) (h : Located cfg keys key i) : Located cfg keys' key i := by
  obtain ⟨j, h1, h2, h3⟩ := h
  refine ⟨j, h1, ?_, h3.mono hm⟩
  rw [hm.2 i (by rw [h2]; exact hk), h2]

theorem lookupGo_found (cfg : Cfg) (keys vals : List Nat) (key : Nat) :
    ∀ fuel j0 j, j < fuel → keys.getD (cfg.probe key (j0 + j)) kOpen = key →
      (∀ j', j' < j → keys.getD (cfg.probe key (j0 + j')) kOpen ≠ kOpen ∧
        keys.getD (cfg.probe key (j0 + j')) kOpen ≠ key) →
      lookupGo cfg keys vals key fuel (cfg.probe key j0) =
        some (cfg.probe key (j0 + j), vals.getD (cfg.probe key (j0 + j)) 0) := by
  intro fuel
  induction fuel with
  | zero => intro j0 j h; omega
  | succ fuel ih =>
      intro j0 j hj hkey hfresh
      unfold lookupGo
      cases j with
      | zero =>
          simp only [Nat.add_zero] at hkey ⊢
          rw [if_pos hkey]
      | succ j =>
          have h0 := hfresh 0 (by omega)
          simp only [Nat.add_zero] at h0
          simp only [h0.1, h0.2, if_false]
          rw [Cfg.next_probe]
          have e : j0 + (j + 1) = j0 + 1 + j := by omega
          rw [e] at hkey ⊢
          apply ih (j0 + 1) j (by omega) hkey
          intro j' hj'
          have := hfresh (j' + 1) (by omega)
          have e' : j0 + (j' + 1) = j0 + 1 + j' := by omega
          rwa [e'] at this

/-- `lookup` needs only `size` probes to find a located key -/
theorem Located.lookup_eq {cfg : Cfg} {keys vals : List Nat} {key i : Nat}
    (h : Located cfg keys key i) : lookup cfg keys vals key = some (i, vals.getD i 0) := by
  obtain ⟨j, h1, h2, h3⟩ := h
  have hp := probe_mod cfg key j
  have hlt : j % cfg.size < cfg.size := Nat.mod_lt _ cfg.size_pos
  unfold MV.HashT.lookup
  rw [Cfg.idx0_eq_probe]
  have := lookupGo_found cfg keys vals key cfg.size 0 (j % cfg.size) hlt
    (by simp only [Nat.zero_add]; rw [hp, ← h1]; exact h2)
    (by
      intro j' hj'
      simp only [Nat.zero_add]
      exact h3 j' (Nat.lt_of_lt_of_le hj' (Nat.mod_le _ _)))
  simp only [Nat.zero_add] at this
  rw [this, hp, ← h1]

/-! ## per-thread invariant -/

/-- the thread has won its CAS and not yet stored its value -/
def Claiming (t : Thr) : Prop := t.pc = .iAdd ∨ t.pc = .iStore

instance (t : Thr) : Decidable (Claiming t) := by unfold Claiming; exact inferInstance

/-- what a recorded result says about the (final, by monotonicity) key array -/
def ResOK (cfg : Cfg) (keys : List Nat) : Op → Res → Prop
  | .ins _ _, .full => True
  | .ins key _, .inserted i => Located cfg keys key i
  | .ins key _, .present i => Located cfg keys key i
  | .get _, .got _ _ _ => True
  | _, _ => False

theorem ResOK.mono {cfg : Cfg} {keys keys' : List Nat} {op : Op} {r : Res}
    (hm : KeysMono keys keys') (hk : op.key ≠ kOpen) (h : ResOK cfg keys op r) :
    ResOK cfg keys' op r := by
  cases op <;> cases r <;> simp only [ResOK] at h ⊢ <;> exact Located.mono hm hk h

structure ThrOK (cfg : Cfg) (keys : List Nat) (t : Thr) : Prop where
  len : t.results.length = t.opIdx
  keysOK : ∀ op, op ∈ t.prog → op.key ≠ kOpen
  done : t.cur = none → t.pc = .iFull
  ins : ∀ key val, t.cur = some (.ins key val) →
    (t.pc = .iFull ∨ t.pc = .iCas ∨ t.pc = .iAdd ∨ t.pc = .iStore) ∧
    t.idx = cfg.probe key t.j ∧ Fresh cfg keys key t.j ∧
    (Claiming t → keys.getD t.idx kOpen = key)
  get : ∀ key, t.cur = some (.get key) →
    (t.pc = .gKey ∨ t.pc = .gVal) ∧ t.idx = cfg.probe key t.j
  res : ∀ (n : Nat) (r : Res), t.results[n]? = some r → ∃ op : Op, t.prog[n]? = some op ∧ ResOK cfg keys op r

theorem Thr.cur_mem {t : Thr} {op : Op} (h : t.cur = some op) : op ∈ t.prog :=
  List.mem_of_getElem? h

theorem ThrOK.mono {cfg : Cfg} {keys keys' : List Nat} {t : Thr} (hm : KeysMono keys keys')
    (h : ThrOK cfg keys t) : ThrOK cfg keys' t where
  len := h.len
  keysOK := h.keysOK
  done := h.done
  ins := by
    intro key val hc
    obtain ⟨h1, h2, h3, h4⟩ := h.ins key val hc
    refine ⟨h1, h2, h3.mono hm, fun hcl => ?_⟩
    have hk : key ≠ kOpen := h.keysOK _ (Thr.cur_mem hc)
    have := h4 hcl
    rw [hm.2 _ (by rw [this]; exact hk), this]
  get := h.get
  res := by
    intro n r hr
    obtain ⟨op, h1, h2⟩ := h.res n r hr
    exact ⟨op, h1, h2.mono hm (h.keysOK _ (List.mem_of_getElem? h1))⟩

/-! ### `start` / `finish` -/

@[simp] theorem Thr.start_prog (cfg : Cfg) (t : Thr) : (t.start cfg).prog = t.prog := by
  unfold Thr.start; split <;> rfl
@[simp] theorem Thr.start_opIdx (cfg : Cfg) (t : Thr) : (t.start cfg).opIdx = t.opIdx := by
  unfold Thr.start; split <;> rfl
@[simp] theorem Thr.start_results (cfg : Cfg) (t : Thr) : (t.start cfg).results = t.results := by
  unfold Thr.start; split <;> rfl
@[simp] theorem Thr.start_cur (cfg : Cfg) (t : Thr) : (t.start cfg).cur = t.cur := by
  simp [Thr.cur]

theorem Thr.start_cases (cfg : Cfg) (t : Thr) :
    (∃ key val, t.cur = some (.ins key val) ∧ (t.start cfg).pc = .iFull ∧
        (t.start cfg).idx = cfg.probe key 0 ∧ (t.start cfg).j = 0) ∨
    (∃ key, t.cur = some (.get key) ∧ (t.start cfg).pc = .gKey ∧
        (t.start cfg).idx = cfg.probe key 0 ∧ (t.start cfg).j = 0) ∨
    (t.cur = none ∧ (t.start cfg).pc = .iFull) := by
  unfold Thr.start Thr.cur
  split
  · rename_i key val h; left; exact ⟨key, val, h, rfl, Cfg.idx0_eq_probe _ _, rfl⟩
  · rename_i key h; right; left; exact ⟨key, h, rfl, Cfg.idx0_eq_probe _ _, rfl⟩
  · rename_i h; right; right; exact ⟨h, rfl⟩

theorem Thr.start_not_claiming (cfg : Cfg) (t : Thr) : ¬ Claiming (t.start cfg) := by
  rcases Thr.start_cases cfg t with ⟨_, _, _, h, _⟩ | ⟨_, _, h, _⟩ | ⟨_, h⟩ <;>
    simp [Claiming, h]

theorem Thr.start_pc_ne_iAdd (cfg : Cfg) (t : Thr) : (t.start cfg).pc ≠ .iAdd :=
  fun h => Thr.start_not_claiming cfg t (Or.inl h)

@[simp] theorem Thr.finish_prog (cfg : Cfg) (t : Thr) (r : Res) : (t.finish cfg r).prog = t.prog := by
  simp [Thr.finish]
@[simp] theorem Thr.finish_opIdx (cfg : Cfg) (t : Thr) (r : Res) :
    (t.finish cfg r).opIdx = t.opIdx + 1 := by
  simp [Thr.finish]
@[simp] theorem Thr.finish_results (cfg : Cfg) (t : Thr) (r : Res) :
    (t.finish cfg r).results = t.results ++ [r] := by
  simp [Thr.finish]
theorem Thr.finish_not_claiming (cfg : Cfg) (t : Thr) (r : Res) : ¬ Claiming (t.finish cfg r) :=
  Thr.start_not_claiming _ _
theorem Thr.finish_pc_ne_iAdd (cfg : Cfg) (t : Thr) (r : Res) : (t.finish cfg r).pc ≠ .iAdd :=
  Thr.start_pc_ne_iAdd _ _

/-- a well-formed initial thread -/
theorem ThrOK.start_init (cfg : Cfg) (keys : List Nat) (p : List Op)
    (hk : ∀ op, op ∈ p → op.key ≠ kOpen) :
    ThrOK cfg keys (Thr.start cfg ⟨p, 0, .iFull, 0, 0, 0, []⟩) := by
  have hc := Thr.start_cases cfg ⟨p, 0, .iFull, 0, 0, 0, []⟩
  refine ⟨by simp, by simpa using hk, ?_, ?_, ?_, by simp⟩
  · intro h
    rcases hc with ⟨_, _, _, h', _⟩ | ⟨_, h0, _⟩ | ⟨_, h'⟩
    · exact h'
    · simp only [Thr.start_cur] at h; rw [h] at h0; cases h0
    · exact h'
  · intro key val h
    simp only [Thr.start_cur] at h
    rcases hc with ⟨k, v, h0, h1, h2, h3⟩ | ⟨_, h0, _⟩ | ⟨h0, _⟩
    · rw [h] at h0; cases h0
      refine ⟨Or.inl h1, by rw [h2, h3], by rw [h3]; exact Fresh.zero _ _ _, ?_⟩
      intro hcl; exact absurd hcl (Thr.start_not_claiming _ _)
    · rw [h] at h0; cases h0
    · rw [h] at h0; cases h0
  · intro key h
    simp only [Thr.start_cur] at h
    rcases hc with ⟨k, v, h0, _⟩ | ⟨k, h0, h1, h2, h3⟩ | ⟨h0, _⟩
    · rw [h] at h0; cases h0
    · rw [h] at h0; cases h0
      exact ⟨Or.inl h1, by rw [h2, h3]⟩
    · rw [h] at h0; cases h0

theorem ThrOK.finish {cfg : Cfg} {keys : List Nat} {t : Thr} {op : Op} {r : Res}
    (h : ThrOK cfg keys t) (hop : t.cur = some op) (hr : ResOK cfg keys op r) :
    ThrOK cfg keys (t.finish cfg r) := by
  have hc := Thr.start_cases cfg { t with opIdx := t.opIdx + 1, results := t.results ++ [r] }
  change _ ∨ _ ∨ _ at hc
  have hfin : t.finish cfg r =
      Thr.start cfg { t with opIdx := t.opIdx + 1, results := t.results ++ [r] } := rfl
  rw [← hfin] at hc
  have hcur : (t.finish cfg r).cur =
      ({ t with opIdx := t.opIdx + 1, results := t.results ++ [r] } : Thr).cur := by
    rw [hfin, Thr.start_cur]
  rw [← hcur] at hc
  refine ⟨by simp [h.len], by simpa using h.keysOK, ?_, ?_, ?_, ?_⟩
  · intro hn
    rcases hc with ⟨_, _, h0, _⟩ | ⟨_, h0, _⟩ | ⟨_, h'⟩
    · rw [hn] at h0; cases h0
    · rw [hn] at h0; cases h0
    · exact h'
  · intro key val hn
    rcases hc with ⟨k, v, h0, h1, h2, h3⟩ | ⟨_, h0, _⟩ | ⟨h0, _⟩
    · rw [hn] at h0; cases h0
      refine ⟨Or.inl h1, by rw [h2, h3], by rw [h3]; exact Fresh.zero _ _ _, ?_⟩
      intro hcl; exact absurd hcl (Thr.finish_not_claiming _ _ _)
    · rw [hn] at h0; cases h0
    · rw [hn] at h0; cases h0
  · intro key hn
    rcases hc with ⟨k, v, h0, _⟩ | ⟨k, h0, h1, h2, h3⟩ | ⟨h0, _⟩
    · rw [hn] at h0; cases h0
    · rw [hn] at h0; cases h0
      exact ⟨Or.inl h1, by rw [h2, h3]⟩
    · rw [hn] at h0; cases h0
  · intro n x hx
    simp only [Thr.finish_results, Thr.finish_prog] at hx ⊢
    rcases (getElem?_snoc _ _ _ _).mp hx with h1 | ⟨h1, h2⟩
    · exact h.res n x h1
    · subst h2
      rw [h1, h.len]
      exact ⟨op, hop, hr⟩


/-! ### every thread transition preserves `ThrOK` -/

theorem TStep.thrOK {cfg : Cfg} {keys vals : List Nat} {used : Nat} {t : Thr}
    {k' v' : List Nat} {u' : Nat} {t' : Thr} (hs : TStep cfg keys vals used t k' v' u' t')
    (hlen : keys.length = cfg.size) (h : ThrOK cfg keys t) : ThrOK cfg k' t' := by
  cases hs with
  | fullYes key val hc hpc hu => exact h.finish hc trivial
  | fullNo key val hc hpc hu =>
      obtain ⟨_, h2, h3, _⟩ := h.ins key val hc
      refine ⟨h.len, h.keysOK, ?_, ?_, ?_, h.res⟩
      · intro (hn : t.cur = none); rw [hn] at hc; cases hc
      · intro k v (hc' : t.cur = some (.ins k v))
        rw [hc] at hc'; cases hc'
        refine ⟨Or.inr (Or.inl rfl), h2, h3, ?_⟩
        rintro (hcl | hcl) <;> cases hcl
      · intro k (hc' : t.cur = some (.get k)); rw [hc] at hc'; cases hc'
  | casWin key val hc hpc hf =>
      have hm := KeysMono.set keys t.idx key hf
      obtain ⟨_, h2, h3, _⟩ := h.ins key val hc
      have hlt : t.idx < keys.length := by rw [h2, hlen]; exact cfg.probe_lt _ _
      refine ⟨h.len, h.keysOK, ?_, ?_, ?_, (h.mono hm).res⟩
      · intro (hn : t.cur = none); rw [hn] at hc; cases hc
      · intro k v (hc' : t.cur = some (.ins k v))
        rw [hc] at hc'; cases hc'
        refine ⟨Or.inr (Or.inr (Or.inl rfl)), h2, h3.mono hm, fun _ => ?_⟩
        exact getD_set_eq _ _ _ _ hlt
      · intro k (hc' : t.cur = some (.get k)); rw [hc] at hc'; cases hc'
  | casPresent key val hc hpc hf hk =>
      obtain ⟨_, h2, h3, _⟩ := h.ins key val hc
      exact h.finish hc ⟨t.j, h2, hk, h3⟩
  | casOther key val hc hpc hf hk =>
      obtain ⟨_, h2, h3, _⟩ := h.ins key val hc
      refine ⟨h.len, h.keysOK, ?_, ?_, ?_, h.res⟩
      · intro (hn : t.cur = none); rw [hn] at hc; cases hc
      · intro k v (hc' : t.cur = some (.ins k v))
        rw [hc] at hc'; cases hc'
        rw [h2] at hf hk
        refine ⟨Or.inl rfl, ?_, h3.succ hf hk, ?_⟩
        · show cfg.next t.idx = _
          rw [h2, Cfg.next_probe]; rfl
        · rintro (hcl | hcl) <;> cases hcl
      · intro k (hc' : t.cur = some (.get k)); rw [hc] at hc'; cases hc'
  | add key val hc hpc =>
      obtain ⟨_, h2, h3, h4⟩ := h.ins key val hc
      refine ⟨h.len, h.keysOK, ?_, ?_, ?_, h.res⟩
      · intro (hn : t.cur = none); rw [hn] at hc; cases hc
      · intro k v (hc' : t.cur = some (.ins k v))
        rw [hc] at hc'; cases hc'
        exact ⟨Or.inr (Or.inr (Or.inr rfl)), h2, h3, fun _ => h4 (Or.inl hpc)⟩
      · intro k (hc' : t.cur = some (.get k)); rw [hc] at hc'; cases hc'
  | store key val hc hpc =>
      obtain ⟨_, h2, h3, h4⟩ := h.ins key val hc
      exact h.finish hc ⟨t.j, h2, h4 (Or.inr hpc), h3⟩
  | keyHit key hc hpc hk =>
      obtain ⟨_, h2⟩ := h.get key hc
      refine ⟨h.len, h.keysOK, ?_, ?_, ?_, h.res⟩
      · intro (hn : t.cur = none); rw [hn] at hc; cases hc
      · intro k v (hc' : t.cur = some (.ins k v)); rw [hc] at hc'; cases hc'
      · intro k (hc' : t.cur = some (.get k))
        rw [hc] at hc'; cases hc'
        exact ⟨Or.inr rfl, h2⟩
  | keyMiss key hc hpc hk =>
      obtain ⟨_, h2⟩ := h.get key hc
      refine ⟨h.len, h.keysOK, ?_, ?_, ?_, h.res⟩
      · intro (hn : t.cur = none); rw [hn] at hc; cases hc
      · intro k v (hc' : t.cur = some (.ins k v)); rw [hc] at hc'; cases hc'
      · intro k (hc' : t.cur = some (.get k))
        rw [hc] at hc'; cases hc'
        refine ⟨Or.inl rfl, ?_⟩
        show cfg.next t.idx = _
        rw [h2, Cfg.next_probe]; rfl
  | val key hc hpc => exact h.finish hc trivial


/-! ## global invariant: slot ownership -/

theorem getElem?_set_some {α : Type} {l : List α} {i x : Nat} {a b : α}
    (h : (l.set i a)[x]? = some b) : (x = i ∧ b = a) ∨ (x ≠ i ∧ l[x]? = some b) := by
  rw [List.getElem?_set] at h
  by_cases e : i = x
  · subst e
    left
    split at h
    · split at h
      · exact ⟨rfl, (Option.some.inj h).symm⟩
      · cases h
    · contradiction
  · right
    rw [if_neg e] at h
    exact ⟨fun h' => e h'.symm, h⟩

theorem getElem?_set_self_of {α : Type} {l : List α} {i : Nat} {a t : α} (h : l[i]? = some t) :
    (l.set i a)[i]? = some a := by
  obtain ⟨hlt, _⟩ := List.getElem?_eq_some_iff.mp h
  rw [List.getElem?_set]; simp [hlt]

theorem getElem?_set_of_ne {α : Type} {l : List α} {i x : Nat} {a : α} (h : x ≠ i) :
    (l.set i a)[x]? = l[x]? := by
  rw [List.getElem?_set, if_neg (fun e => h e.symm)]

/-- Ownership of claimed slots.  A slot is *claimed by thread `x`* while `x` sits between its
successful CAS and its value store (`Claiming`), and *settled* once some completed op
carries the result `inserted i`. -/
structure Own (keys vals : List Nat) (thr : List Thr) : Prop where
  /-- two distinct threads never claim the same slot: at most one thread can be about to
  execute the plain store `values_[i] = val` -/
  excl : ∀ (x x' : Nat) (th th' : Thr), thr[x]? = some th → thr[x']? = some th' →
    Claiming th → Claiming th' → th.idx = th'.idx → x = x'
  /-- a slot whose value has been stored is never claimed again -/
  exclDone : ∀ (x x' : Nat) (th th' : Thr) (n : Nat), thr[x]? = some th → Claiming th →
    thr[x']? = some th' → th'.results[n]? = some (.inserted th.idx) → False
  /-- at most one completed op reports `inserted i`, i.e. `values_[i]` is stored at most once -/
  uniq : ∀ (x x' : Nat) (th th' : Thr) (n n' i : Nat), thr[x]? = some th → thr[x']? = some th' →
    th.results[n]? = some (.inserted i) → th'.results[n']? = some (.inserted i) → x = x' ∧ n = n'
  /-- the stored value is the claimer's, and nobody overwrote it -/
  valOK : ∀ (x : Nat) (th : Thr) (n key val i : Nat), thr[x]? = some th →
    th.prog[n]? = some (.ins key val) → th.results[n]? = some (.inserted i) → vals.getD i 0 = val
  /-- every non-open slot is claimed or settled -/
  owned : ∀ i : Nat, keys.getD i kOpen ≠ kOpen →
    (∃ (x : Nat) (th : Thr), thr[x]? = some th ∧ Claiming th ∧ th.idx = i) ∨
    (∃ (x : Nat) (th : Thr) (n : Nat), thr[x]? = some th ∧ th.results[n]? = some (.inserted i))

/-- `t'` is indistinguishable from `t` as far as `Own` is concerned -/
structure Obs (t t' : Thr) : Prop where
  cl : Claiming t' ↔ Claiming t
  idx : Claiming t → t'.idx = t.idx
  prog : t'.prog = t.prog
  res : ∀ (n i : Nat), t'.results[n]? = some (.inserted i) ↔ t.results[n]? = some (.inserted i)

theorem Obs.refl (t : Thr) : Obs t t := ⟨Iff.rfl, fun _ => rfl, rfl, fun _ _ => Iff.rfl⟩

theorem own_transfer {keys vals : List Nat} {thr : List Thr} {tid : Nat} {t t' : Thr}
    (ht : thr[tid]? = some t) (ho : Obs t t') (h : Own keys vals thr) :
    Own keys vals (thr.set tid t') := by
  have back : ∀ (x : Nat) (th' : Thr), (thr.set tid t')[x]? = some th' →
      ∃ th, thr[x]? = some th ∧ Obs th th' := by
    intro x th' hx
    rcases getElem?_set_some hx with ⟨rfl, rfl⟩ | ⟨_, h2⟩
    · exact ⟨t, ht, ho⟩
    · exact ⟨th', h2, Obs.refl _⟩
  have fwd : ∀ (x : Nat) (th : Thr), thr[x]? = some th →
      ∃ th', (thr.set tid t')[x]? = some th' ∧ Obs th th' := by
    intro x th hx
    by_cases e : x = tid
    · subst e
      rw [ht] at hx; cases hx
      exact ⟨t', getElem?_set_self_of ht, ho⟩
    · exact ⟨th, by rw [getElem?_set_of_ne e]; exact hx, Obs.refl _⟩
  constructor
  · intro x x' th th' hx hx' hc hc' hi
    obtain ⟨a, ha, oa⟩ := back x th hx
    obtain ⟨b, hb, ob⟩ := back x' th' hx'
    have ca := oa.cl.mp hc
    have cb := ob.cl.mp hc'
    exact h.excl x x' a b ha hb ca cb (by rw [← oa.idx ca, ← ob.idx cb]; exact hi)
  · intro x x' th th' n hx hc hx' hr
    obtain ⟨a, ha, oa⟩ := back x th hx
    obtain ⟨b, hb, ob⟩ := back x' th' hx'
    have ca := oa.cl.mp hc
    rw [oa.idx ca] at hr
    exact h.exclDone x x' a b n ha ca hb ((ob.res _ _).mp hr)
  · intro x x' th th' n n' i hx hx' hr hr'
    obtain ⟨a, ha, oa⟩ := back x th hx
    obtain ⟨b, hb, ob⟩ := back x' th' hx'
    exact h.uniq x x' a b n n' i ha hb ((oa.res _ _).mp hr) ((ob.res _ _).mp hr')
  · intro x th n key val i hx hp hr
    obtain ⟨a, ha, oa⟩ := back x th hx
    rw [oa.prog] at hp
    exact h.valOK x a n key val i ha hp ((oa.res _ _).mp hr)
  · intro i hi
    rcases h.owned i hi with ⟨x, th, hx, hc, hidx⟩ | ⟨x, th, n, hx, hr⟩
    · obtain ⟨th', hx', o⟩ := fwd x th hx
      exact Or.inl ⟨x, th', hx', o.cl.mpr hc, by rw [o.idx hc]; exact hidx⟩
    · obtain ⟨th', hx', o⟩ := fwd x th hx
      exact Or.inr ⟨x, th', n, hx', (o.res _ _).mpr hr⟩


/-- a successful CAS on an open slot: the winner becomes the slot's unique claimer -/
theorem own_casWin {keys vals : List Nat} {thr : List Thr} {tid i key : Nat} {t t' : Thr}
    (ht : thr[tid]? = some t) (hnc : ¬ Claiming t) (hc' : Claiming t') (hidx : t'.idx = i)
    (hprog : t'.prog = t.prog) (hres : t'.results = t.results)
    (hopen : keys.getD i kOpen = kOpen)
    (ha : ∀ (x : Nat) (th : Thr), thr[x]? = some th → Claiming th → th.idx ≠ i)
    (hb : ∀ (x : Nat) (th : Thr) (n : Nat), thr[x]? = some th →
      th.results[n]? ≠ some (.inserted i))
    (h : Own keys vals thr) : Own (keys.set i key) vals (thr.set tid t') := by
  -- results (and programs) of all threads are unchanged
  have back : ∀ (x : Nat) (th' : Thr), (thr.set tid t')[x]? = some th' →
      ∃ th, thr[x]? = some th ∧ th'.prog = th.prog ∧ th'.results = th.results := by
    intro x th' hx
    rcases getElem?_set_some hx with ⟨rfl, rfl⟩ | ⟨_, h2⟩
    · exact ⟨t, ht, hprog, hres⟩
    · exact ⟨th', h2, rfl, rfl⟩
  constructor
  · intro x x' th th' hx hx' hc hcc hi
    rcases getElem?_set_some hx with ⟨rfl, rfl⟩ | ⟨e1, h1⟩ <;>
      rcases getElem?_set_some hx' with ⟨rfl, rfl⟩ | ⟨e2, h2⟩
    · rfl
    · exact absurd (hi.symm.trans hidx) (ha x' th' h2 hcc)
    · exact absurd (hi.trans hidx) (ha x th h1 hc)
    · exact h.excl x x' th th' h1 h2 hc hcc hi
  · intro x x' th th' n hx hc hx' hr
    obtain ⟨b, hb', _, rb⟩ := back x' th' hx'
    rw [rb] at hr
    rcases getElem?_set_some hx with ⟨rfl, rfl⟩ | ⟨e1, h1⟩
    · rw [hidx] at hr; exact hb x' b n hb' hr
    · exact h.exclDone x x' th b n h1 hc hb' hr
  · intro x x' th th' n n' j hx hx' hr hr'
    obtain ⟨a, ha', _, ra⟩ := back x th hx
    obtain ⟨b, hb', _, rb⟩ := back x' th' hx'
    rw [ra] at hr; rw [rb] at hr'
    exact h.uniq x x' a b n n' j ha' hb' hr hr'
  · intro x th n k v j hx hp hr
    obtain ⟨a, ha', pa, ra⟩ := back x th hx
    rw [pa] at hp; rw [ra] at hr
    exact h.valOK x a n k v j ha' hp hr
  · intro j hj
    by_cases e : j = i
    · subst e
      exact Or.inl ⟨tid, t', getElem?_set_self_of ht, hc', hidx⟩
    · rw [getD_set_ne _ _ _ _ _ (fun e' => e e'.symm)] at hj
      rcases h.owned j hj with ⟨x, th, hx, hc, hi⟩ | ⟨x, th, n, hx, hr⟩
      · have : x ≠ tid := by
          rintro rfl; rw [ht] at hx; cases hx; exact hnc hc
        exact Or.inl ⟨x, th, by rw [getElem?_set_of_ne this]; exact hx, hc, hi⟩
      · by_cases e2 : x = tid
        · subst e2
          rw [ht] at hx; cases hx
          exact Or.inr ⟨x, t', n, getElem?_set_self_of ht, by rw [hres]; exact hr⟩
        · exact Or.inr ⟨x, th, n, by rw [getElem?_set_of_ne e2]; exact hx, hr⟩

/-- the plain value store: the claimer settles its slot -/
theorem own_store {keys vals : List Nat} {thr : List Thr} {tid key val : Nat} {t t' : Thr}
    (ht : thr[tid]? = some t) (hc : Claiming t) (hnc' : ¬ Claiming t')
    (hprog : t'.prog = t.prog) (hres : t'.results = t.results ++ [.inserted t.idx])
    (hop : t.prog[t.results.length]? = some (.ins key val))
    (hlt : t.idx < vals.length)
    (h : Own keys vals thr) : Own keys (vals.set t.idx val) (thr.set tid t') := by
  -- no completed op anywhere reports `inserted t.idx` yet
  have hfree : ∀ (x : Nat) (th : Thr) (n : Nat), thr[x]? = some th →
      th.results[n]? ≠ some (.inserted t.idx) :=
    fun x th n hx hr => h.exclDone tid x t th n ht hc hx hr
  -- a result of the new thread list is an old result or the new one
  have back : ∀ (x : Nat) (th' : Thr) (n j : Nat), (thr.set tid t')[x]? = some th' →
      th'.results[n]? = some (.inserted j) →
      (∃ th, thr[x]? = some th ∧ th'.prog = th.prog ∧ th.results[n]? = some (.inserted j)) ∨
      (x = tid ∧ th' = t' ∧ n = t.results.length ∧ j = t.idx) := by
    intro x th' n j hx hr
    rcases getElem?_set_some hx with ⟨rfl, rfl⟩ | ⟨_, h2⟩
    · rw [hres] at hr
      rcases (getElem?_snoc _ _ _ _).mp hr with h1 | ⟨h1, h2⟩
      · exact Or.inl ⟨t, ht, hprog, h1⟩
      · cases h2; exact Or.inr ⟨rfl, rfl, h1, rfl⟩
    · exact Or.inl ⟨th', h2, rfl, hr⟩
  constructor
  · intro x x' th th' hx hx' hcl hcl' hi
    rcases getElem?_set_some hx with ⟨rfl, rfl⟩ | ⟨e1, h1⟩
    · exact absurd hcl hnc'
    · rcases getElem?_set_some hx' with ⟨rfl, rfl⟩ | ⟨e2, h2⟩
      · exact absurd hcl' hnc'
      · exact h.excl x x' th th' h1 h2 hcl hcl' hi
  · intro x x' th th' n hx hcl hx' hr
    rcases getElem?_set_some hx with ⟨rfl, rfl⟩ | ⟨e1, h1⟩
    · exact absurd hcl hnc'
    · rcases back x' th' n th.idx hx' hr with ⟨b, hb, _, rb⟩ | ⟨_, _, _, hj⟩
      · exact h.exclDone x x' th b n h1 hcl hb rb
      · exact e1 (h.excl x tid th t h1 ht hcl hc hj)
  · intro x x' th th' n n' j hx hx' hr hr'
    rcases back x th n j hx hr with ⟨a, ha, _, ra⟩ | ⟨e1, _, e3, e4⟩ <;>
      rcases back x' th' n' j hx' hr' with ⟨b, hb, _, rb⟩ | ⟨f1, _, f3, f4⟩
    · exact h.uniq x x' a b n n' j ha hb ra rb
    · subst f4; exact absurd ra (hfree x a n ha)
    · subst e4; exact absurd rb (hfree x' b n' hb)
    · exact ⟨e1.trans f1.symm, e3.trans f3.symm⟩
  · intro x th n k v j hx hp hr
    rcases back x th n j hx hr with ⟨a, ha, pa, ra⟩ | ⟨e1, e2, e3, e4⟩
    · have hne : t.idx ≠ j := by
        rintro rfl; exact hfree x a n ha ra
      rw [getD_set_ne _ _ _ _ _ hne]
      rw [pa] at hp
      exact h.valOK x a n k v j ha hp ra
    · subst e2 e3 e4
      rw [hprog, hop] at hp
      cases hp
      exact getD_set_eq _ _ _ _ hlt
  · intro j hj
    rcases h.owned j hj with ⟨x, th, hx, hcl, hi⟩ | ⟨x, th, n, hx, hr⟩
    · by_cases e : x = tid
      · subst e
        rw [ht] at hx; cases hx
        refine Or.inr ⟨x, t', t.results.length, getElem?_set_self_of ht, ?_⟩
        rw [hres, ← hi]
        exact (getElem?_snoc _ _ _ _).mpr (Or.inr ⟨rfl, rfl⟩)
      · exact Or.inl ⟨x, th, by rw [getElem?_set_of_ne e]; exact hx, hcl, hi⟩
    · by_cases e : x = tid
      · subst e
        rw [ht] at hx; cases hx
        refine Or.inr ⟨x, t', n, getElem?_set_self_of ht, ?_⟩
        rw [hres]
        exact (getElem?_snoc _ _ _ _).mpr (Or.inl hr)
      · exact Or.inr ⟨x, th, n, by rw [getElem?_set_of_ne e]; exact hx, hr⟩


/-! ## the full invariant and its preservation -/

/-- number of threads between their CAS and their `fetch_add` -/
def cntAdd (thr : List Thr) : Nat := thr.countP (fun t => decide (t.pc = .iAdd))

/-- number of non-open slots -/
def claimed (keys : List Nat) : Nat := keys.countP (fun k => decide (k ≠ kOpen))

theorem cntAdd_set : ∀ (thr : List Thr) (tid : Nat) (t t' : Thr), thr[tid]? = some t →
    cntAdd (thr.set tid t') + (if t.pc = .iAdd then 1 else 0) =
      cntAdd thr + (if t'.pc = .iAdd then 1 else 0) := by
  intro thr
  induction thr with
  | nil => intro tid t t' h; simp at h
  | cons a l ih =>
      intro tid t t' h
      cases tid with
      | zero =>
          simp only [List.getElem?_cons_zero, Option.some.injEq] at h
          subst h
          simp only [List.set_cons_zero, cntAdd, List.countP_cons, decide_eq_true_eq]
          omega
      | succ tid =>
          simp only [List.getElem?_cons_succ] at h
          have := ih tid t t' h
          simp only [List.set_cons_succ, cntAdd, List.countP_cons, decide_eq_true_eq] at this ⊢
          omega

theorem cntAdd_set_same {thr : List Thr} {tid : Nat} {t t' : Thr} (ht : thr[tid]? = some t)
    (hp : t.pc ≠ .iAdd) (hp' : t'.pc ≠ .iAdd) : cntAdd (thr.set tid t') = cntAdd thr := by
  have := cntAdd_set thr tid t t' ht
  rw [if_neg hp, if_neg hp'] at this; exact this

theorem cntAdd_set_enter {thr : List Thr} {tid : Nat} {t t' : Thr} (ht : thr[tid]? = some t)
    (hp : t.pc ≠ .iAdd) (hp' : t'.pc = .iAdd) : cntAdd (thr.set tid t') = cntAdd thr + 1 := by
  have := cntAdd_set thr tid t t' ht
  rw [if_neg hp, if_pos hp'] at this; exact this

theorem cntAdd_set_leave {thr : List Thr} {tid : Nat} {t t' : Thr} (ht : thr[tid]? = some t)
    (hp : t.pc = .iAdd) (hp' : t'.pc ≠ .iAdd) : cntAdd (thr.set tid t') + 1 = cntAdd thr := by
  have := cntAdd_set thr tid t t' ht
  rw [if_pos hp, if_neg hp'] at this; exact this

theorem claimed_set : ∀ (keys : List Nat) (i key : Nat), i < keys.length →
    keys.getD i kOpen = kOpen → key ≠ kOpen → claimed (keys.set i key) = claimed keys + 1 := by
  intro keys
  induction keys with
  | nil => intro i key h; simp at h
  | cons a l ih =>
      intro i key hlt ho hk
      cases i with
      | zero =>
          simp only [List.getD_cons_zero] at ho
          subst ho
          simp [claimed, hk]
      | succ i =>
          simp only [List.getD_cons_succ] at ho
          have := ih i key (by simpa using hlt) ho hk
          simp only [List.set_cons_succ, claimed, List.countP_cons] at this ⊢
          omega

structure Inv (cfg : Cfg) (s : State) : Prop where
  klen : s.keys.length = cfg.size
  vlen : s.vals.length = cfg.size
  /-- per-thread facts: program counter matches the op, `idx = probe key j`, all earlier
  probes of the current insert hold keys `∉ {kOpen, key}`, a claiming thread sees its own
  key in its slot, recorded results are `Located` -/
  thrOK : ∀ (x : Nat) (th : Thr), s.thr[x]? = some th → ThrOK cfg s.keys th
  /-- `used_` lags the number of claimed slots by exactly the threads at `fetch_add` -/
  count : s.used + cntAdd s.thr = claimed s.keys
  own : Own s.keys s.vals s.thr

theorem not_claiming_of_pc {t : Thr} {p : Pc} (h : t.pc = p) (h1 : p ≠ .iAdd) (h2 : p ≠ .iStore) :
    ¬ Claiming t := by
  rintro (h' | h') <;> rw [h] at h' <;> contradiction

theorem Obs.finish (cfg : Cfg) {t : Thr} {r : Res} (hnc : ¬ Claiming t)
    (hr : ∀ i, r ≠ .inserted i) : Obs t (t.finish cfg r) := by
  refine ⟨⟨fun h => absurd h (Thr.finish_not_claiming _ _ _), fun h => absurd h hnc⟩,
    fun h => absurd h hnc, by simp, fun n i => ?_⟩
  rw [Thr.finish_results, getElem?_snoc]
  constructor
  · rintro (h | ⟨_, h⟩)
    · exact h
    · exact absurd h.symm (hr i)
  · exact Or.inl

theorem Obs.same {t t' : Thr} (hnc : ¬ Claiming t) (hnc' : ¬ Claiming t')
    (hp : t'.prog = t.prog) (hr : t'.results = t.results) : Obs t t' :=
  ⟨⟨fun h => absurd h hnc', fun h => absurd h hnc⟩, fun h => absurd h hnc, hp,
    fun _ _ => by rw [hr]⟩

theorem inv_tstep {cfg : Cfg} {s : State} {tid : Nat} {t : Thr}
    {k' v' : List Nat} {u' : Nat} {t' : Thr} (hinv : Inv cfg s) (ht : s.thr[tid]? = some t)
    (hs : TStep cfg s.keys s.vals s.used t k' v' u' t') :
    Inv cfg ⟨k', v', u', s.thr.set tid t'⟩ := by
  have hok := hinv.thrOK tid t ht
  have hok' : ThrOK cfg k' t' := hs.thrOK hinv.klen hok
  have hm := hs.keysMono
  have hthr : ∀ (x : Nat) (th : Thr), (s.thr.set tid t')[x]? = some th → ThrOK cfg k' th := by
    intro x th hx
    rcases getElem?_set_some hx with ⟨rfl, rfl⟩ | ⟨_, h2⟩
    · exact hok'
    · exact (hinv.thrOK x th h2).mono hm
  have hcount := hinv.count
  refine ⟨hm.1.trans hinv.klen, ?_, hthr, ?_, ?_⟩
  · cases hs <;> simp [hinv.vlen]
  · show u' + cntAdd (s.thr.set tid t') = claimed k'
    cases hs with
    | fullYes key val hc hpc hu =>
        rw [cntAdd_set_same ht (by rw [hpc]; decide) (Thr.finish_pc_ne_iAdd _ _ _)]; exact hcount
    | fullNo key val hc hpc hu =>
        rw [cntAdd_set_same ht (by rw [hpc]; decide) (by show Pc.iCas ≠ Pc.iAdd; decide)]
        exact hcount
    | casWin key val hc hpc hf =>
        obtain ⟨_, h2, _, _⟩ := hok.ins key val hc
        have hlt : t.idx < s.keys.length := by rw [h2, hinv.klen]; exact cfg.probe_lt _ _
        rw [claimed_set s.keys t.idx key hlt hf (hok.keysOK _ (Thr.cur_mem hc)),
          cntAdd_set_enter ht (by rw [hpc]; decide) rfl]
        omega
    | casPresent key val hc hpc hf hk =>
        rw [cntAdd_set_same ht (by rw [hpc]; decide) (Thr.finish_pc_ne_iAdd _ _ _)]; exact hcount
    | casOther key val hc hpc hf hk =>
        rw [cntAdd_set_same ht (by rw [hpc]; decide) (by show Pc.iFull ≠ Pc.iAdd; decide)]
        exact hcount
    | add key val hc hpc =>
        have := cntAdd_set_leave (t' := { t with pc := .iStore }) ht hpc
          (by show Pc.iStore ≠ Pc.iAdd; decide)
        omega
    | store key val hc hpc =>
        rw [cntAdd_set_same ht (by rw [hpc]; decide) (Thr.finish_pc_ne_iAdd _ _ _)]; exact hcount
    | keyHit key hc hpc hk =>
        rw [cntAdd_set_same ht (by rw [hpc]; decide) (by show Pc.gVal ≠ Pc.iAdd; decide)]
        exact hcount
    | keyMiss key hc hpc hk =>
        rw [cntAdd_set_same ht (by rw [hpc]; decide) (by show Pc.gKey ≠ Pc.iAdd; decide)]
        exact hcount
    | val key hc hpc =>
        rw [cntAdd_set_same ht (by rw [hpc]; decide) (Thr.finish_pc_ne_iAdd _ _ _)]; exact hcount
  · show Own k' v' (s.thr.set tid t')
    cases hs with
    | fullYes key val hc hpc hu =>
        exact own_transfer ht (Obs.finish cfg (not_claiming_of_pc hpc (by decide) (by decide))
          (by intro i h; cases h)) hinv.own
    | fullNo key val hc hpc hu =>
        exact own_transfer ht (Obs.same (not_claiming_of_pc hpc (by decide) (by decide))
          (not_claiming_of_pc (p := .iCas) rfl (by decide) (by decide)) rfl rfl) hinv.own
    | casWin key val hc hpc hf =>
        refine own_casWin ht (not_claiming_of_pc hpc (by decide) (by decide)) (Or.inl rfl) rfl
          rfl rfl hf ?_ ?_ hinv.own
        · intro x th hx hcl hi
          have hth := hinv.thrOK x th hx
          have hcur : ∃ k v, th.cur = some (.ins k v) := by
            cases hcu : th.cur with
            | none => have := hth.done hcu; rcases hcl with h | h <;> rw [this] at h <;> cases h
            | some op =>
                cases op with
                | ins k v => exact ⟨k, v, rfl⟩
                | get k =>
                    obtain ⟨hp, _⟩ := hth.get k hcu
                    rcases hcl with h | h <;> rcases hp with hp | hp <;> rw [hp] at h <;> cases h
          obtain ⟨k, v, hcu⟩ := hcur
          obtain ⟨_, _, _, h4⟩ := hth.ins k v hcu
          have := h4 hcl
          rw [hi, hf] at this
          exact hth.keysOK _ (Thr.cur_mem hcu) this.symm
        · intro x th n hx hr
          obtain ⟨op, hop, hres⟩ := (hinv.thrOK x th hx).res n _ hr
          cases op with
          | ins k v =>
              obtain ⟨_, _, h2, _⟩ := hres
              rw [hf] at h2
              exact (hinv.thrOK x th hx).keysOK _ (List.mem_of_getElem? hop) h2.symm
          | get k => exact hres
    | casPresent key val hc hpc hf hk =>
        exact own_transfer ht (Obs.finish cfg (not_claiming_of_pc hpc (by decide) (by decide))
          (by intro i h; cases h)) hinv.own
    | casOther key val hc hpc hf hk =>
        exact own_transfer ht (Obs.same (not_claiming_of_pc hpc (by decide) (by decide))
          (not_claiming_of_pc (p := .iFull) rfl (by decide) (by decide)) rfl rfl) hinv.own
    | add key val hc hpc =>
        exact own_transfer ht ⟨⟨fun _ => Or.inl hpc, fun _ => Or.inr rfl⟩, fun _ => rfl, rfl,
          fun _ _ => Iff.rfl⟩ hinv.own
    | store key val hc hpc =>
        obtain ⟨_, h2, _, _⟩ := hok.ins key val hc
        have hlt : t.idx < s.vals.length := by rw [h2, hinv.vlen]; exact cfg.probe_lt _ _
        refine own_store (key := key) ht (Or.inr hpc) (Thr.finish_not_claiming _ _ _) (by simp) (by simp)
          ?_ hlt hinv.own
        rw [hok.len]; exact hc
    | keyHit key hc hpc hk =>
        exact own_transfer ht (Obs.same (not_claiming_of_pc hpc (by decide) (by decide))
          (not_claiming_of_pc (p := .gVal) rfl (by decide) (by decide)) rfl rfl) hinv.own
    | keyMiss key hc hpc hk =>
        exact own_transfer ht (Obs.same (not_claiming_of_pc hpc (by decide) (by decide))
          (not_claiming_of_pc (p := .gKey) rfl (by decide) (by decide)) rfl rfl) hinv.own
    | val key hc hpc =>
        exact own_transfer ht (Obs.finish cfg (not_claiming_of_pc hpc (by decide) (by decide))
          (by intro i h; cases h)) hinv.own

theorem inv_step {cfg : Cfg} {s : State} (hinv : Inv cfg s) (tid : Nat) :
    Inv cfg (step cfg s tid).1 := by
  rcases step_cases cfg s tid with h | ⟨t, k', v', u', t', ht, hs, h⟩
  · rw [h]; exact hinv
  · rw [h]; exact inv_tstep hinv ht hs

theorem inv_run {cfg : Cfg} (sched : List Nat) :
    ∀ s : State, Inv cfg s → Inv cfg (run cfg s sched).1 := by
  induction sched with
  | nil => intro s h; exact h
  | cons tid rest ih => intro s h; exact ih _ (inv_step h tid)


/-! ## initial state, reachability -/

/-- no op uses the reserved key `kOpen` -/
def KeysOK (progs : List (List Op)) : Prop :=
  ∀ p, p ∈ progs → ∀ op, op ∈ p → op.key ≠ kOpen

instance (progs : List (List Op)) : Decidable (KeysOK progs) := by
  unfold KeysOK; exact inferInstance

/-- every state some schedule can produce from the initial state -/
def Reachable (cfg : Cfg) (progs : List (List Op)) (s : State) : Prop :=
  ∃ sched, (run cfg (init cfg progs) sched).1 = s

theorem init_thr_get {cfg : Cfg} {progs : List (List Op)} {x : Nat} {th : Thr}
    (h : (init cfg progs).thr[x]? = some th) :
    ∃ p, progs[x]? = some p ∧ th = Thr.start cfg ⟨p, 0, .iFull, 0, 0, 0, []⟩ := by
  simp only [init, List.getElem?_map, Option.map_eq_some_iff] at h
  obtain ⟨p, h1, h2⟩ := h
  exact ⟨p, h1, h2.symm⟩

theorem getD_replicate_self (n i d : Nat) : (List.replicate n d).getD i d = d := by
  rw [List.getD_eq_getElem?_getD, List.getElem?_replicate]
  split <;> rfl

theorem inv_init (cfg : Cfg) (progs : List (List Op)) (hk : KeysOK progs) :
    Inv cfg (init cfg progs) := by
  have hnc : ∀ (x : Nat) (th : Thr), (init cfg progs).thr[x]? = some th →
      ¬ Claiming th ∧ th.results = [] := by
    intro x th hx
    obtain ⟨p, _, rfl⟩ := init_thr_get hx
    exact ⟨Thr.start_not_claiming _ _, by simp⟩
  have hres : ∀ (x : Nat) (th : Thr) (n : Nat) (r : Res), (init cfg progs).thr[x]? = some th →
      th.results[n]? = some r → False := by
    intro x th n r hx hr
    rw [(hnc x th hx).2] at hr; simp at hr
  refine ⟨by simp [init], by simp [init], ?_, ?_, ?_⟩
  · intro x th hx
    obtain ⟨p, hp, rfl⟩ := init_thr_get hx
    exact ThrOK.start_init cfg _ p (hk p (List.mem_of_getElem? hp))
  · have h1 : cntAdd (init cfg progs).thr = 0 := by
      unfold cntAdd
      rw [List.countP_eq_zero]
      intro th hth
      obtain ⟨x, hx⟩ := List.getElem?_of_mem hth
      have := (hnc x th hx).1
      simp only [decide_eq_true_eq]
      exact fun h => this (Or.inl h)
    have h2 : claimed (init cfg progs).keys = 0 := by
      unfold claimed
      rw [List.countP_eq_zero]
      intro k hk
      simp only [init, List.mem_replicate] at hk
      simp [hk.2]
    rw [h1, h2]; rfl
  · constructor
    · intro x x' th th' hx _ hc; exact absurd hc (hnc x th hx).1
    · intro x x' th th' n hx hc; exact absurd hc (hnc x th hx).1
    · intro x x' th th' n n' i hx _ hr; exact (hres x th n _ hx hr).elim
    · intro x th n key val i hx _ hr; exact (hres x th n _ hx hr).elim
    · intro i hi
      exact absurd (getD_replicate_self _ _ _) hi


/-! ## fixtures for the examples

`hash 2 1 id ; i 1 10 , g 1 ; i 1 20 , i 5 50 ; sched 0 1 1 0 1 1 0 1 1 0 1 1 1 1` in the
driver protocol: two threads insert the SAME key 1 with different values (thread 1 wins the
CAS, thread 0 gets `present`), key 5 collides with key 1 (5 % 4 = 1) and moves on to slot 2. -/

def cfgEx : Cfg := ⟨2, 1, fun k => k⟩
def progsEx : List (List Op) := [[.ins 1 10, .get 1], [.ins 1 20, .ins 5 50]]
def schedEx : List Nat := [0, 1, 1, 0, 1, 1, 0, 1, 1, 0, 1, 1, 1, 1]
/-- final (quiescent) state -/
def sEx : State := (run cfgEx (init cfgEx progsEx) schedEx).1
/-- after 4 steps: thread 1 has won its CAS and sits at `fetch_add`; thread 0 found `present` -/
def sMid : State := (run cfgEx (init cfgEx progsEx) (schedEx.take 4)).1

/-- `hash 1 1 id ; i 0 1 , i 2 3 ; i 1 2 , i 3 4 ; sched 0 1 0 1 0 1 0 1 0 1`: size 2, both
second inserts observe `Full()` -/
def cfgF : Cfg := ⟨1, 1, fun k => k⟩
def progsF : List (List Op) := [[.ins 0 1, .ins 2 3], [.ins 1 2, .ins 3 4]]
def schedF : List Nat := [0, 1, 0, 1, 0, 1, 0, 1, 0, 1]
def sF : State := (run cfgF (init cfgF progsF) schedF).1

/-- THEOREM (invariant).  `Inv` holds in every reachable state, for every number of threads,
all programs without the key `kOpen`, and every schedule.  `Inv` contains:
* `klen`, `vlen`: `keys.length = vals.length = size`;
* `count`: `used + #{threads at pc iAdd} = #{slots with key ≠ kOpen}`
  (see `hash_used_eq_claimed` for the quiescent form);
* `thrOK` (per thread, `ThrOK`): `results.length = opIdx`; pc matches the kind of the current
  op; `idx = (h key + j*stepP) % size` for the ghost probe counter `j`; for a thread inside
  `ins key val` every slot visited earlier in this op's probe sequence holds a key
  `∉ {kOpen, key}` (`Fresh`); a thread at `iAdd`/`iStore` sees its own key in `keys[idx]`;
  every recorded `inserted i` / `present i` of an `ins key _` satisfies `Located keys key i`;
* `own` (`Own`): at most one thread is at `iAdd`/`iStore` for a given slot (`excl`), never for
  a slot whose value has already been stored (`exclDone`), at most one completed op reports
  `inserted i` (`uniq`) -- so each slot's value is written at most once and only by its
  claimer: no write-write race on the plain store --, `vals[i]` is the value of that op
  (`valOK`), and every claimed slot is either being claimed or settled (`owned`).
The "claimed key slot never changes" part is the two-state lemma `step_keys_mono`, lifted to
schedules in `run_keys_mono` / `hash_no_two_keys`. -/
theorem hash_inv_reachable {cfg : Cfg} {progs : List (List Op)} {s : State}
    (hk : KeysOK progs) (hr : Reachable cfg progs s) : Inv cfg s := by
  obtain ⟨sched, rfl⟩ := hr
  exact inv_run sched _ (inv_init cfg progs hk)

/- non-vacuity: a reachable NON-quiescent state with a thread at `fetch_add`; there
`used + 1 = claimed`, and the final state -/
example : KeysOK progsEx := by decide
example : Inv cfgEx sMid := hash_inv_reachable (by decide) ⟨schedEx.take 4, rfl⟩
example : sMid.keys = [kOpen, 1, kOpen, kOpen] ∧ sMid.used = 0 ∧ cntAdd sMid.thr = 1 ∧
    claimed sMid.keys = 1 ∧ sMid.thr.map (·.pc) = [.gKey, .iAdd] ∧
    sMid.thr.map (·.results) = [[.present 1], []] := by decide
example : Inv cfgEx sEx := hash_inv_reachable (by decide) ⟨schedEx, rfl⟩
example : sEx.keys = [kOpen, 1, 5, kOpen] ∧ sEx.vals = [0, 20, 50, 0] ∧ sEx.used = 2 ∧
    sEx.thr.map (·.results) = [[.present 1, .got 1 1 20], [.inserted 1, .inserted 2]] := by decide

/-! ### programs are immutable -/

theorem set_eq_self_of_getElem? {α : Type} {l : List α} {i : Nat} {a : α} (h : l[i]? = some a) :
    l.set i a = l := by
  obtain ⟨hlt, hget⟩ := List.getElem?_eq_some_iff.mp h
  rw [← hget]; exact List.set_getElem_self hlt

theorem TStep.prog_eq {cfg : Cfg} {keys vals : List Nat} {used : Nat} {t : Thr}
    {k' v' : List Nat} {u' : Nat} {t' : Thr} (h : TStep cfg keys vals used t k' v' u' t') :
    t'.prog = t.prog := by
  cases h <;> first | rfl | exact Thr.finish_prog _ _ _

theorem step_progs (cfg : Cfg) (s : State) (tid : Nat) :
    (step cfg s tid).1.thr.map Thr.prog = s.thr.map Thr.prog := by
  rcases step_cases cfg s tid with h | ⟨t, k', v', u', t', ht, hs, h⟩
  · rw [h]
  · rw [h]
    show (s.thr.set tid t').map Thr.prog = _
    rw [List.map_set, hs.prog_eq]
    apply set_eq_self_of_getElem?
    rw [List.getElem?_map, ht]; rfl

theorem run_progs (cfg : Cfg) (sched : List Nat) :
    ∀ s : State, (run cfg s sched).1.thr.map Thr.prog = s.thr.map Thr.prog := by
  induction sched with
  | nil => intro s; rfl
  | cons tid rest ih => intro s; exact (ih _).trans (step_progs cfg s tid)

theorem init_progs (cfg : Cfg) (progs : List (List Op)) :
    (init cfg progs).thr.map Thr.prog = progs := by
  simp only [init, List.map_map]
  have : (Thr.prog ∘ fun p => Thr.start cfg ⟨p, 0, .iFull, 0, 0, 0, []⟩) = id := by
    funext p; simp
  rw [this, List.map_id]

theorem reachable_progs {cfg : Cfg} {progs : List (List Op)} {s : State}
    (hr : Reachable cfg progs s) : s.thr.map Thr.prog = progs := by
  obtain ⟨sched, rfl⟩ := hr
  rw [run_progs, init_progs]

theorem prog_of_thr {progs : List (List Op)} {s : State} (hp : s.thr.map Thr.prog = progs)
    {x : Nat} {th : Thr} (hx : s.thr[x]? = some th) : progs[x]? = some th.prog := by
  rw [← hp, List.getElem?_map, hx]; rfl

theorem opOf_of_thr {progs : List (List Op)} {s : State} (hp : s.thr.map Thr.prog = progs)
    {x : Nat} {th : Thr} (hx : s.thr[x]? = some th) (n : Nat) : opOf progs x n = th.prog[n]? := by
  unfold opOf; rw [prog_of_thr hp hx]; rfl

theorem res_of_thr {s : State} {x : Nat} {th : Thr} (hx : s.thr[x]? = some th) (n : Nat) :
    s.res x n = th.results[n]? := by
  unfold State.res; rw [hx]; rfl

theorem res_some {s : State} {x n : Nat} {r : Res} (h : s.res x n = some r) :
    ∃ th, s.thr[x]? = some th ∧ th.results[n]? = some r := by
  unfold State.res at h
  cases hx : s.thr[x]? with
  | none => rw [hx] at h; cases h
  | some th => rw [hx] at h; exact ⟨th, rfl, h⟩

/-! ## user-facing theorems -/

/-- THEOREM (no slot ever holds two different keys over time).  Along every execution, once
slot `i` holds a key `≠ kOpen` it holds that same key in every later state. -/
theorem hash_no_two_keys {cfg : Cfg} {progs : List (List Op)} {s : State}
    (_hr : Reachable cfg progs s) (sched : List Nat) (i : Nat)
    (h : s.keys.getD i kOpen ≠ kOpen) :
    (run cfg s sched).1.keys.getD i kOpen = s.keys.getD i kOpen :=
  (run_keys_mono cfg sched s).2 i h

/-- same statement for two points of one execution from the initial state -/
theorem hash_no_two_keys' (cfg : Cfg) (progs : List (List Op)) (sched1 sched2 : List Nat) (i : Nat) :
    let s1 := (run cfg (init cfg progs) sched1).1
    let s2 := (run cfg s1 sched2).1
    s1.keys.getD i kOpen ≠ kOpen → s2.keys.getD i kOpen = s1.keys.getD i kOpen :=
  fun h => (run_keys_mono cfg sched2 _).2 i h

/- slot 1 holds key 1 in `sMid` and still does after the remaining 10 steps, during which
thread 1 tries to CAS key 5 into the same slot -/
example : sMid.keys.getD 1 kOpen = 1 ∧
    (run cfgEx sMid (schedEx.drop 4)).1.keys.getD 1 kOpen = 1 := by decide
example : (run cfgEx sMid (schedEx.drop 4)).1.keys.getD 1 kOpen = sMid.keys.getD 1 kOpen :=
  hash_no_two_keys (progs := progsEx) ⟨schedEx.take 4, rfl⟩ _ 1 (by decide)

theorem finished_not_claiming {cfg : Cfg} {keys : List Nat} {th : Thr} (hok : ThrOK cfg keys th)
    (hf : th.finished = true) : ¬ Claiming th := by
  have hcur : th.cur = none := by
    unfold Thr.finished at hf
    exact List.getElem?_eq_none (by simpa using hf)
  exact not_claiming_of_pc (hok.done hcur) (by decide) (by decide)

theorem quiescent_finished {s : State} (hq : quiescent s = true) {x : Nat} {th : Thr}
    (hx : s.thr[x]? = some th) : th.finished = true := by
  unfold quiescent at hq
  rw [List.all_eq_true] at hq
  exact hq th (List.mem_of_getElem? hx)

/-- at quiescence `used_` is exactly the number of claimed slots -/
theorem hash_used_eq_claimed {cfg : Cfg} {progs : List (List Op)} {s : State}
    (hk : KeysOK progs) (hr : Reachable cfg progs s) (hq : quiescent s = true) :
    s.used = claimed s.keys := by
  have hinv := hash_inv_reachable hk hr
  have h0 : cntAdd s.thr = 0 := by
    unfold cntAdd
    rw [List.countP_eq_zero]
    intro th hth
    obtain ⟨x, hx⟩ := List.getElem?_of_mem hth
    have := finished_not_claiming (hinv.thrOK x th hx) (quiescent_finished hq hx)
    simp only [decide_eq_true_eq]
    exact fun h => this (Or.inl h)
  have := hinv.count
  omega

example : quiescent sEx = true ∧ sEx.used = 2 ∧ claimed sEx.keys = 2 := by decide

/-- at quiescence every op of every program has a recorded result -/
theorem quiescent_all_done {cfg : Cfg} {progs : List (List Op)} {s : State}
    (hk : KeysOK progs) (hr : Reachable cfg progs s) (hq : quiescent s = true)
    {t n : Nat} {op : Op} (hop : opOf progs t n = some op) : ∃ r, s.res t n = some r := by
  have hinv := hash_inv_reachable hk hr
  have hp := reachable_progs hr
  unfold opOf at hop
  cases hpt : progs[t]? with
  | none => rw [hpt] at hop; cases hop
  | some p =>
      have hlt : t < s.thr.length := by
        have := (List.getElem?_eq_some_iff.mp hpt).1
        rw [← hp] at this; simpa using this
      have hx : s.thr[t]? = some s.thr[t] := List.getElem?_eq_getElem hlt
      have hfin := quiescent_finished hq hx
      have hok := hinv.thrOK t _ hx
      have hpp : p = s.thr[t].prog := by
        have := prog_of_thr hp hx; rw [hpt] at this; exact Option.some.inj this
      rw [hpt] at hop
      have hn : n < s.thr[t].results.length := by
        have h1 : n < p.length := (List.getElem?_eq_some_iff.mp hop).1
        unfold Thr.finished at hfin
        have h2 : s.thr[t].prog.length ≤ s.thr[t].opIdx := by simpa using hfin
        rw [hok.len, ← hpp] at *; omega
      exact ⟨_, by rw [res_of_thr hx]; exact List.getElem?_eq_getElem hn⟩

/-- THEOREM (completed inserts are retrievable).  In every reachable quiescent state, for
every completed op `ins key val` (op `n` of thread `t`) whose result `r` is not `full`:
the sequential `lookup` finds `key`, in the slot `i` that `r` names, with a value `v` that is
the argument of some op `ins key v` whose recorded result is `inserted i` (the unique
claimer of the slot); and if this op is itself the claimer (`r = inserted i'`) then `i' = i`
and `v = val`.

Quiescence matters only for the value: without it an `ins` that returned `present i` can
complete while the claimer still sits between its CAS and its plain store, and a lookup
then reads the initial value (see the `stale read` example below). -/
theorem hash_insert_retrievable {cfg : Cfg} {progs : List (List Op)} {s : State}
    (hk : KeysOK progs) (hr : Reachable cfg progs s) (hq : quiescent s = true)
    {t n key val : Nat} {r : Res}
    (hop : opOf progs t n = some (.ins key val)) (hres : s.res t n = some r) (hnf : r ≠ .full) :
    ∃ i v, lookup cfg s.keys s.vals key = some (i, v) ∧
      (∃ t2 n2, opOf progs t2 n2 = some (.ins key v) ∧ s.res t2 n2 = some (.inserted i)) ∧
      (r = .inserted i ∨ r = .present i) ∧
      (∀ i', r = .inserted i' → i' = i ∧ v = val) := by
  have hinv := hash_inv_reachable hk hr
  have hp := reachable_progs hr
  obtain ⟨th, hx, hrr⟩ := res_some hres
  rw [opOf_of_thr hp hx] at hop
  have hok := hinv.thrOK t th hx
  obtain ⟨op, hop', hresok⟩ := hok.res n r hrr
  rw [hop] at hop'; cases hop'
  have hkey : key ≠ kOpen := hok.keysOK _ (List.mem_of_getElem? hop)
  -- the slot named by the result
  have hloc : ∃ i, (r = .inserted i ∨ r = .present i) ∧ Located cfg s.keys key i := by
    cases r with
    | full => exact absurd rfl hnf
    | inserted i => exact ⟨i, Or.inl rfl, hresok⟩
    | present i => exact ⟨i, Or.inr rfl, hresok⟩
    | got a b c => exact hresok.elim
  obtain ⟨i, hri, hloc⟩ := hloc
  have hki : s.keys.getD i kOpen = key := by obtain ⟨_, _, h2, _⟩ := hloc; exact h2
  -- its settled owner
  have hown : ∃ (x : Nat) (th2 : Thr) (n2 : Nat), s.thr[x]? = some th2 ∧
      th2.results[n2]? = some (.inserted i) := by
    rcases hinv.own.owned i (by rw [hki]; exact hkey) with ⟨x, th2, hx2, hc, _⟩ | h
    · exact absurd hc (finished_not_claiming (hinv.thrOK x th2 hx2) (quiescent_finished hq hx2))
    · exact h
  obtain ⟨x, th2, n2, hx2, hr2⟩ := hown
  obtain ⟨op2, hop2, hresok2⟩ := (hinv.thrOK x th2 hx2).res n2 _ hr2
  cases op2 with
  | get k => exact hresok2.elim
  | ins key2 v2 =>
      have hk2 : key2 = key := by
        obtain ⟨_, _, h2, _⟩ := hresok2
        rw [← h2, hki]
      subst hk2
      have hv2 := hinv.own.valOK x th2 n2 key2 v2 i hx2 hop2 hr2
      refine ⟨i, v2, ?_, ⟨x, n2, ?_, ?_⟩, hri, ?_⟩
      · rw [hloc.lookup_eq, hv2]
      · rw [opOf_of_thr hp hx2]; exact hop2
      · rw [res_of_thr hx2]; exact hr2
      · intro i' hi'
        subst hi'
        have hii : i' = i := by
          rcases hri with h | h <;> cases h; rfl
        subst hii
        exact ⟨rfl, hv2.symm.trans (hinv.own.valOK t th n key2 val i' hx hop hrr)⟩

/- op 0 of thread 0 is `ins 1 10`, its result is `present 1`; the lookup returns slot 1 with
the value 20 of the FIRST claimer (thread 1's `ins 1 20`, result `inserted 1`), not 10 -/
example : quiescent sEx = true := by decide
example : opOf progsEx 0 0 = some (.ins 1 10) ∧ sEx.res 0 0 = some (.present 1) ∧
    lookup cfgEx sEx.keys sEx.vals 1 = some (1, 20) ∧
    opOf progsEx 1 0 = some (.ins 1 20) ∧ sEx.res 1 0 = some (.inserted 1) ∧
    lookup cfgEx sEx.keys sEx.vals 5 = some (2, 50) := by decide
example : ∃ i v, lookup cfgEx sEx.keys sEx.vals 1 = some (i, v) ∧
      (∃ t2 n2, opOf progsEx t2 n2 = some (.ins 1 v) ∧ sEx.res t2 n2 = some (.inserted i)) ∧
      (Res.present 1 = .inserted i ∨ Res.present 1 = .present i) ∧
      (∀ i', Res.present 1 = .inserted i' → i' = i ∧ v = 10) :=
  hash_insert_retrievable (progs := progsEx) (t := 0) (n := 0) (by decide) ⟨schedEx, rfl⟩
    (by decide) (by decide) (by decide) (by decide)

/-- COROLLARY, in the wording of the property: in every reachable quiescent state, either
some Insert returned because the table was `Full()`, or every key passed to an Insert is
found by `lookup` with a value that some Insert call wrote for that key (an `ins key v`
that ended `inserted` in the very slot the lookup returns). -/
theorem hash_full_or_all_found {cfg : Cfg} {progs : List (List Op)} {s : State}
    (hk : KeysOK progs) (hr : Reachable cfg progs s) (hq : quiescent s = true) :
    (∃ t n, s.res t n = some .full) ∨
    (∀ t n key val, opOf progs t n = some (.ins key val) →
      ∃ i v, lookup cfg s.keys s.vals key = some (i, v) ∧
        ∃ t2 n2, opOf progs t2 n2 = some (.ins key v) ∧ s.res t2 n2 = some (.inserted i)) := by
  by_cases hf : ∃ t n, s.res t n = some .full
  · exact Or.inl hf
  · right
    intro t n key val hop
    obtain ⟨r, hres⟩ := quiescent_all_done hk hr hq hop
    have hnf : r ≠ .full := by
      rintro rfl; exact hf ⟨t, n, hres⟩
    obtain ⟨i, v, h1, h2, _⟩ := hash_insert_retrievable hk hr hq hop hres hnf
    exact ⟨i, v, h1, h2⟩

/- `Full()` observed: size 2, both threads claim one slot each (used = 2, 2*2 > 2), then both
second inserts return `full`, and their keys 2 and 3 are NOT found -- the first disjunct of
the corollary is necessary.  (Also: both threads passed the `Full()` check before either
`fetch_add`, so the table ends 100% full although `Full()` triggers at > 50%.) -/
example : KeysOK progsF ∧ quiescent sF = true := by decide
example : sF.thr.map (·.results) = [[.inserted 0, .full], [.inserted 1, .full]] ∧
    sF.keys = [0, 1] ∧ sF.vals = [1, 2] ∧ sF.used = 2 ∧
    lookup cfgF sF.keys sF.vals 0 = some (0, 1) ∧ lookup cfgF sF.keys sF.vals 1 = some (1, 2) ∧
    lookup cfgF sF.keys sF.vals 2 = none ∧ lookup cfgF sF.keys sF.vals 3 = none := by decide
example : (∃ t n, sF.res t n = some .full) := ⟨0, 1, by decide⟩
/- and an instance where the second disjunct holds -/
example : ∀ t n key val, opOf progsEx t n = some (.ins key val) →
      ∃ i v, lookup cfgEx sEx.keys sEx.vals key = some (i, v) ∧
        ∃ t2 n2, opOf progsEx t2 n2 = some (.ins key v) ∧ sEx.res t2 n2 = some (.inserted i) := by
  rcases hash_full_or_all_found (cfg := cfgEx) (progs := progsEx) (s := sEx) (by decide)
    ⟨schedEx, rfl⟩ (by decide) with ⟨t, n, h⟩ | h
  · exfalso
    have hth : ∀ th, th ∈ sEx.thr → ∀ r, r ∈ th.results → r ≠ .full := by decide
    obtain ⟨th, hx, hr⟩ := res_some h
    exact hth th (List.mem_of_getElem? hx) _ (List.mem_of_getElem? hr) rfl
  · exact h


/-- a thread between CAS and store is inside an `ins` whose key is in its slot -/
theorem ThrOK.claiming_cur {cfg : Cfg} {keys : List Nat} {th : Thr} (hth : ThrOK cfg keys th)
    (hcl : Claiming th) : ∃ v, th.cur = some (.ins (keys.getD th.idx kOpen) v) := by
  cases hcu : th.cur with
  | none => have := hth.done hcu; rcases hcl with h | h <;> rw [this] at h <;> cases h
  | some op =>
      cases op with
      | ins k v =>
          obtain ⟨_, _, _, h4⟩ := hth.ins k v hcu
          rw [h4 hcl]; exact ⟨v, rfl⟩
      | get k =>
          obtain ⟨hp, _⟩ := hth.get k hcu
          rcases hcl with h | h <;> rcases hp with hp | hp <;> rw [hp] at h <;> cases h

/-- THEOREM (slot ownership, in the wording of the task).  In every reachable state, for a
claimed slot `i` EITHER exactly one thread is at pc `iAdd`/`iStore` with `idx = i`, and
that thread's current op is `ins keys[i] v`, OR `vals[i] = v` for some completed
`ins keys[i] v` whose result is `inserted i`; never both. -/
theorem hash_slot_owner {cfg : Cfg} {progs : List (List Op)} {s : State}
    (hk : KeysOK progs) (hr : Reachable cfg progs s) (i : Nat)
    (hi : s.keys.getD i kOpen ≠ kOpen) :
    ((∃ (x : Nat) (th : Thr) (v : Nat), s.thr[x]? = some th ∧ Claiming th ∧ th.idx = i ∧
        th.cur = some (.ins (s.keys.getD i kOpen) v) ∧
        ∀ (x' : Nat) (th' : Thr), s.thr[x']? = some th' → Claiming th' → th'.idx = i → x' = x) ∨
     (∃ (x : Nat) (th : Thr) (n v : Nat), s.thr[x]? = some th ∧
        th.prog[n]? = some (.ins (s.keys.getD i kOpen) v) ∧
        th.results[n]? = some (.inserted i) ∧ s.vals.getD i 0 = v)) ∧
    ¬ ((∃ (x : Nat) (th : Thr), s.thr[x]? = some th ∧ Claiming th ∧ th.idx = i) ∧
       (∃ (x : Nat) (th : Thr) (n : Nat), s.thr[x]? = some th ∧
          th.results[n]? = some (.inserted i))) := by
  have hinv := hash_inv_reachable hk hr
  constructor
  · rcases hinv.own.owned i hi with ⟨x, th, hx, hc, hidx⟩ | ⟨x, th, n, hx, hrr⟩
    · left
      obtain ⟨v, hv⟩ := (hinv.thrOK x th hx).claiming_cur hc
      rw [hidx] at hv
      exact ⟨x, th, v, hx, hc, hidx, hv, fun x' th' hx' hc' hi' =>
        hinv.own.excl x' x th' th hx' hx hc' hc (hi'.trans hidx.symm)⟩
    · right
      obtain ⟨op, hop, hres⟩ := (hinv.thrOK x th hx).res n _ hrr
      cases op with
      | get k => exact hres.elim
      | ins k v =>
          have hki : s.keys.getD i kOpen = k := by obtain ⟨_, _, h2, _⟩ := hres; exact h2
          rw [hki]
          exact ⟨x, th, n, v, hx, hop, hrr, hinv.own.valOK x th n k v i hx hop hrr⟩
  · rintro ⟨⟨x, th, hx, hc, hidx⟩, ⟨x', th', n, hx', hrr⟩⟩
    rw [← hidx] at hrr
    exact hinv.own.exclDone x x' th th' n hx hc hx' hrr

/- in `sMid` slot 1 is being claimed by thread 1 (first disjunct), in `sEx` it is settled -/
example : ∃ th, sMid.thr[1]? = some th ∧ Claiming th ∧ th.idx = 1 ∧ th.cur = some (.ins 1 20) :=
  ⟨_, rfl, by decide⟩
example : ∃ th, sEx.thr[1]? = some th ∧ th.prog[0]? = some (.ins 1 20) ∧
    th.results[0]? = some (.inserted 1) ∧ sEx.vals.getD 1 0 = 20 := ⟨_, rfl, by decide⟩

/-- THEOREM (probe prefix).  In every reachable state, a thread inside `ins key val` has
`idx = (h key + j*stepP) % size` and every slot it visited earlier in this op holds a key
that is neither `kOpen` nor `key`. -/
theorem hash_probe_prefix {cfg : Cfg} {progs : List (List Op)} {s : State}
    (hk : KeysOK progs) (hr : Reachable cfg progs s) {x : Nat} {th : Thr} {key val : Nat}
    (hx : s.thr[x]? = some th) (hc : th.cur = some (.ins key val)) :
    th.idx = (cfg.h key + th.j * cfg.stepP) % cfg.size ∧
    ∀ j', j' < th.j →
      s.keys.getD ((cfg.h key + j' * cfg.stepP) % cfg.size) kOpen ≠ kOpen ∧
      s.keys.getD ((cfg.h key + j' * cfg.stepP) % cfg.size) kOpen ≠ key := by
  obtain ⟨_, h2, h3, _⟩ := ((hash_inv_reachable hk hr).thrOK x th hx).ins key val hc
  exact ⟨h2, h3⟩

/-! ## no write-write race on the plain value store (trace form) -/

theorem stepThr_vstore {cfg : Cfg} {keys vals : List Nat} {used tid : Nat} {t : Thr}
    (h : (stepThr cfg keys vals used tid t).log.kind = .vstore) :
    t.pc = .iStore ∧ (stepThr cfg keys vals used tid t).log.index = t.idx ∧
      (stepThr cfg keys vals used tid t).t = t.finish cfg (.inserted t.idx) := by
  generalize ho : stepThr cfg keys vals used tid t = o at h ⊢
  unfold stepThr at ho
  split at ho
  · unfold stepIns at ho
    split at ho
    · split at ho <;> (subst ho; cases h)
    · dsimp only at ho
      split at ho
      · subst ho; cases h
      · split at ho <;> (subst ho; cases h)
    · subst ho; cases h
    · subst ho; exact ⟨‹_›, rfl, rfl⟩
    · subst ho; cases h
  · unfold stepGet at ho
    split at ho
    · dsimp only at ho
      split at ho <;> (subst ho; cases h)
    · subst ho; cases h
    · subst ho; cases h
  · subst ho; cases h

theorem step_vstore {cfg : Cfg} {s : State} {tid : Nat}
    (h : (step cfg s tid).2.kind = .vstore) :
    ∃ t, s.thr[tid]? = some t ∧ t.pc = .iStore ∧ (step cfg s tid).2.index = t.idx ∧
      (step cfg s tid).1.thr = s.thr.set tid (t.finish cfg (.inserted t.idx)) := by
  unfold step at h ⊢
  split at h
  · cases h
  · rename_i t ht
    obtain ⟨h1, h2, h3⟩ := stepThr_vstore h
    refine ⟨t, ht, h1, ?_, ?_⟩
    · exact h2
    · show s.thr.set tid _ = _; rw [h3]

theorem TStep.results_grow {cfg : Cfg} {keys vals : List Nat} {used : Nat} {t : Thr}
    {k' v' : List Nat} {u' : Nat} {t' : Thr} (h : TStep cfg keys vals used t k' v' u' t') :
    t'.results = t.results ∨ ∃ r, t'.results = t.results ++ [r] := by
  cases h <;> first | exact Or.inl rfl | exact Or.inr ⟨_, Thr.finish_results _ _ _⟩

/-- recorded results are never retracted -/
theorem step_res_mono {cfg : Cfg} {s : State} {x n : Nat} {r : Res} (tid : Nat)
    (h : s.res x n = some r) : (step cfg s tid).1.res x n = some r := by
  rcases step_cases cfg s tid with e | ⟨t, k', v', u', t', ht, hs, e⟩
  · rw [e]; exact h
  · rw [e]
    obtain ⟨th, hx, hr⟩ := res_some h
    by_cases hxt : x = tid
    · subst hxt
      rw [ht] at hx; cases hx
      have : (State.mk k' v' u' (s.thr.set x t')).thr[x]? = some t' := getElem?_set_self_of ht
      rw [res_of_thr this]
      rcases hs.results_grow with e' | ⟨r', e'⟩
      · rw [e']; exact hr
      · rw [e']; exact (getElem?_snoc _ _ _ _).mpr (Or.inl hr)
    · have : (State.mk k' v' u' (s.thr.set tid t')).thr[x]? = some th := by
        show (s.thr.set tid t')[x]? = _
        rw [getElem?_set_of_ne hxt]; exact hx
      rw [res_of_thr this]; exact hr

theorem run_res_mono {cfg : Cfg} {x n : Nat} {r : Res} (sched : List Nat) :
    ∀ s : State, s.res x n = some r → (run cfg s sched).1.res x n = some r := by
  induction sched with
  | nil => intro s h; exact h
  | cons tid rest ih => intro s h; exact ih _ (step_res_mono tid h)

/-- THEOREM (each slot's value is stored at most once).  Any two plain stores
`values_[idx] = val` occurring in one execution (at any two different times, by any
threads) target different slots; hence there is no write-write race on `values_`. -/
theorem hash_store_once {cfg : Cfg} {progs : List (List Op)} (hk : KeysOK progs)
    (sched1 sched2 : List Nat) (tid1 tid2 : Nat) :
    let sA := (run cfg (init cfg progs) sched1).1
    let stA := step cfg sA tid1
    let sB := (run cfg stA.1 sched2).1
    let stB := step cfg sB tid2
    stA.2.kind = .vstore → stB.2.kind = .vstore → stA.2.index ≠ stB.2.index := by
  intro sA stA sB stB hA hB heq
  have invA : Inv cfg sA := hash_inv_reachable hk ⟨sched1, rfl⟩
  have invB : Inv cfg sB := inv_run sched2 _ (inv_step invA tid1)
  obtain ⟨t1, ht1, _, hi1, hthr1⟩ := step_vstore hA
  obtain ⟨t2, ht2, hpc2, hi2, _⟩ := step_vstore hB
  have hres1 : stA.1.res tid1 t1.results.length = some (.inserted t1.idx) := by
    have : stA.1.thr[tid1]? = some (t1.finish cfg (.inserted t1.idx)) := by
      rw [hthr1]; exact getElem?_set_self_of ht1
    rw [res_of_thr this, Thr.finish_results]
    exact (getElem?_snoc _ _ _ _).mpr (Or.inr ⟨rfl, rfl⟩)
  have hresB : sB.res tid1 t1.results.length = some (.inserted t1.idx) :=
    run_res_mono sched2 _ hres1
  obtain ⟨th, hx, hr⟩ := res_some hresB
  have hidx : t1.idx = t2.idx := by rw [← hi1, ← hi2]; exact heq
  rw [hidx] at hr
  exact invB.own.exclDone tid2 tid1 t2 th _ ht2 (Or.inr hpc2) hx hr

/-- state form: two distinct threads are never both between CAS and store on one slot -/
theorem hash_store_exclusive {cfg : Cfg} {progs : List (List Op)} {s : State}
    (hk : KeysOK progs) (hr : Reachable cfg progs s) {x x' : Nat} {th th' : Thr}
    (hx : s.thr[x]? = some th) (hx' : s.thr[x']? = some th')
    (hc : Claiming th) (hc' : Claiming th') (hi : th.idx = th'.idx) : x = x' :=
  (hash_inv_reachable hk hr).own.excl x x' th th' hx hx' hc hc' hi


/- the two stores of `schedEx` go to slots 1 and 2 -/
example : ((run cfgEx (init cfgEx progsEx) schedEx).2.filter (·.kind = .vstore)).map (·.index)
    = [1, 2] := by decide

/-! ## what the theorems do NOT promise -/

/-- STALE READ (why quiescence / phase separation is needed for values).
`hash 1 1 id ; i 0 10 ; i 0 20 , g 0 ; sched 0 0 1 1 1 1`: thread 0 wins the CAS for key 0 and
is preempted before `values_[0] = 10`; thread 1's Insert returns `present 0` and its
`operator[]` then HITS key 0 but reads the initial value 0. -/
example :
    let s := (run ⟨1, 1, fun k => k⟩ (init ⟨1, 1, fun k => k⟩ [[.ins 0 10], [.ins 0 20, .get 0]])
      [0, 0, 1, 1, 1, 1]).1
    s.thr.map (·.results) = [[], [.present 0, .got 1 0 0]] ∧ s.keys = [0, kOpen] ∧
      s.vals = [0, 0] := by decide

/-- WHY `KeysOK` IS NEEDED.  `hash 1 1 id ; i 18446744073709551615 1 ; i 18446744073709551615 2 ;
sched 0 1 0 1 0 1 0 1`: with `key = kOpen` the CAS `kOpen -> kOpen` returns `kOpen` for BOTH
threads, both believe they claimed slot 1, `used_` becomes 2 with no slot claimed, and both
execute the plain store on slot 1 (a write-write race in C++). -/
theorem kOpen_key_breaks_exclusion :
    let cfg : Cfg := ⟨1, 1, fun k => k⟩
    let progs : List (List Op) := [[.ins kOpen 1], [.ins kOpen 2]]
    let r := run cfg (init cfg progs) [0, 1, 0, 1, 0, 1, 0, 1]
    ¬ KeysOK progs ∧
    (r.2.filter (fun l => l.kind = .vstore ∧ l.index = 1)).length = 2 ∧
    r.1.thr.map (·.results) = [[.inserted 1], [.inserted 1]] ∧
    r.1.used = 2 ∧ claimed r.1.keys = 0 := by decide

/-- the `h64` hash: `hash 3 3 h64 ; i 42 7 , g 42 , g 43 ; i 42 8 ; sched 0 1 0 1 0 0 0 0 0 0 0`;
`hash64bit 42 % 8 = 2`, `hash64bit 43 % 8 = 5` -/
example :
    let cfg : Cfg := ⟨3, 3, hashNat⟩
    let s := (run cfg (init cfg [[.ins 42 7, .get 42, .get 43], [.ins 42 8]])
      [0, 1, 0, 1, 0, 0, 0, 0, 0, 0, 0]).1
    s.keys.getD 2 kOpen = 42 ∧ s.vals.getD 2 0 = 7 ∧ quiescent s = true ∧
      s.thr.map (·.results) = [[.inserted 2, .got 1 2 7, .got 0 5 0], [.present 2]] := by decide

end MV.HashT
