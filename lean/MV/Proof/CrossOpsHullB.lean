import MV.Proof.CrossOpsHullA
/-!
Convex hull, part B: the invariant of one monotone chain (`chain = foldl hullPush []`), for any
order that behaves like the lexicographic one (so that it applies to the lower chain with `lle` and
to the upper chain with the reversed order).  Stacks are lists with the TOP FIRST.
-/
namespace MV.CrossOps
set_option linter.unusedSectionVars false

variable {F : Type} [Field F] [LinearOrder F] [IsStrictOrderedRing F]

/-- what the chain invariant needs from the order the input is sorted by -/
structure GoodOrd (le : V2 F → V2 F → Prop) : Prop where
  total : ∀ a b, le a b ∨ le b a
  antisymm : ∀ {a b}, le a b → le b a → a = b
  L1 : ∀ {a t p q}, le a t → le q t → le t p → 0 ≤ orient a t q → 0 < orient a t p →
    0 ≤ orient t p q
  L2b : ∀ {a b p q}, le a q → le q b → le b p → orient a b p ≤ 0 → 0 ≤ orient a b q →
    0 ≤ orient a p q
  L3 : ∀ {a b c p}, le a b → le b c → le c p → 0 < orient a b c → 0 ≤ orient b c p →
    0 ≤ orient a b p

theorem goodOrd_lle : GoodOrd (lle (F := F)) where
  total := lle_total
  antisymm := lle_antisymm
  L1 := orient_L1
  L2b := orient_L2b
  L3 := orient_L3

theorem goodOrd_gle : GoodOrd (fun a b : V2 F => lle b a) where
  total := fun a b => lle_total b a
  antisymm := fun h1 h2 => lle_antisymm h2 h1
  L1 := fun {a t p q} h1 h2 h3 h4 h5 => by
    have := orient_L1 (a := vneg a) (t := vneg t) (p := vneg p) (q := vneg q)
      (lle_vneg.2 h1) (lle_vneg.2 h2) (lle_vneg.2 h3)
      (by rw [orient_vneg]; exact h4) (by rw [orient_vneg]; exact h5)
    rwa [orient_vneg] at this
  L2b := fun {a b p q} h1 h2 h3 h4 h5 => by
    have := orient_L2b (a := vneg a) (b := vneg b) (p := vneg p) (q := vneg q)
      (lle_vneg.2 h1) (lle_vneg.2 h2) (lle_vneg.2 h3)
      (by rw [orient_vneg]; exact h4) (by rw [orient_vneg]; exact h5)
    rwa [orient_vneg] at this
  L3 := fun {a b c p} h1 h2 h3 h4 h5 => by
    have := orient_L3 (a := vneg a) (b := vneg b) (c := vneg c) (p := vneg p)
      (lle_vneg.2 h1) (lle_vneg.2 h2) (lle_vneg.2 h3)
      (by rw [orient_vneg]; exact h4) (by rw [orient_vneg]; exact h5)
    rwa [orient_vneg] at this

/-- every edge `(a, b)` of the stack (bottom-to-top direction) has `q` on its left or on it -/
def Sees (S : List (V2 F)) (q : V2 F) : Prop :=
  ∀ l1 l2 a b, S = l1 ++ b :: a :: l2 → 0 ≤ orient a b q

/-- every three consecutive stack vertices (bottom-to-top) make a strict left turn -/
def Turns (S : List (V2 F)) : Prop :=
  ∀ l1 l2 a b c, S = l1 ++ c :: b :: a :: l2 → 0 < orient a b c

theorem Sees.suffix {R S : List (V2 F)} {q : V2 F} (h : Sees S q) (hs : R <:+ S) : Sees R q := by
  obtain ⟨pre, rfl⟩ := hs
  intro l1 l2 a b e
  exact h (pre ++ l1) l2 a b (by rw [e, List.append_assoc])

theorem Turns.suffix {R S : List (V2 F)} (h : Turns S) (hs : R <:+ S) : Turns R := by
  obtain ⟨pre, rfl⟩ := hs
  intro l1 l2 a b c e
  exact h (pre ++ l1) l2 a b c (by rw [e, List.append_assoc])

theorem Sees.cons {S : List (V2 F)} {q x : V2 F} (h : Sees S q)
    (hx : ∀ a r, S = a :: r → 0 ≤ orient a x q) : Sees (x :: S) q := by
  intro l1 l2 a b e
  cases l1 with
  | nil =>
    simp only [List.nil_append, List.cons.injEq] at e
    obtain ⟨rfl, e⟩ := e
    exact hx a l2 e
  | cons y l1 =>
    simp only [List.cons_append, List.cons.injEq] at e
    exact h l1 l2 a b e.2

theorem Turns.cons {S : List (V2 F)} {x : V2 F} (h : Turns S)
    (hx : ∀ b a r, S = b :: a :: r → 0 < orient a b x) : Turns (x :: S) := by
  intro l1 l2 a b c e
  cases l1 with
  | nil =>
    simp only [List.nil_append, List.cons.injEq] at e
    obtain ⟨rfl, e⟩ := e
    exact hx b a l2 e
  | cons y l1 =>
    simp only [List.cons_append, List.cons.injEq] at e
    exact h l1 l2 a b c e.2

theorem sees_nil (q : V2 F) : Sees [] q := by
  intro l1 l2 a b e
  cases l1 <;> simp at e

theorem sees_single (x q : V2 F) : Sees [x] q :=
  (sees_nil q).cons (fun a r e => by simp at e)

theorem turns_nil : Turns ([] : List (V2 F)) := by
  intro l1 l2 a b c e
  cases l1 <;> simp at e

theorem turns_single (x : V2 F) : Turns [x] :=
  turns_nil.cons (fun b a r e => by simp at e)

/-- the pops of `HullBacktrack` -/
theorem backtrack_spec {le : V2 F → V2 F → Prop} (G : GoodOrd le) (Q : List (V2 F)) (p : V2 F) :
    ∀ (below : List (V2 F)) (b : V2 F),
      (∀ s ∈ b :: below, le s p) →
      (b :: below).Pairwise (fun hi lo => le lo hi) →
      (∀ q ∈ Q, Sees (b :: below) q) →
      (∀ q ∈ Q, le b q → 0 ≤ orient b p q) →
      ∃ t R', hullBacktrack p b below = t :: R' ∧ (t :: R') <:+ (b :: below) ∧
        (∀ a r, R' = a :: r → 0 < orient a t p) ∧ (∀ q ∈ Q, le t q → 0 ≤ orient t p q) := by
  intro below
  induction below with
  | nil =>
    intro b _ _ _ hb
    refine ⟨b, [], by simp [hullBacktrack], List.suffix_refl _, ?_, hb⟩
    intro a r e; simp at e
  | cons a rest ih =>
    intro b hS hD hSees hb
    have hiff : (ccw a b p (Scalar.zero : F) ≤ 0) ↔ orient a b p ≤ 0 := ccw_zero_le_iff a b p
    by_cases h : orient a b p ≤ 0
    · have hpop : hullBacktrack p b (a :: rest) = hullBacktrack p a rest := by
        rw [hullBacktrack, if_pos (hiff.2 h)]
      have hsuf : (a :: rest) <:+ (b :: a :: rest) := List.suffix_cons b _
      have hD' := List.Pairwise.sublist hsuf.sublist hD
      have hab : le a b := by
        have := (List.pairwise_cons.1 hD).1 a (by simp)
        exact this
      have hbp : le b p := hS b (by simp)
      obtain ⟨t, R', hR, hs, ht, hq⟩ := ih a (fun s hs => hS s (List.mem_cons_of_mem _ hs)) hD'
        (fun q hq => (hSees q hq).suffix hsuf)
        (fun q hq haq => by
          have hedge : 0 ≤ orient a b q := hSees q hq [] rest a b rfl
          rcases G.total b q with hbq | hqb
          · exact orient_L2a h hedge (hb q hq hbq)
          · exact G.L2b haq hqb hbp h hedge)
      exact ⟨t, R', hpop.trans hR, hs.trans hsuf, ht, hq⟩
    · have hkeep : hullBacktrack p b (a :: rest) = b :: a :: rest := by
        rw [hullBacktrack, if_neg (fun hc => h (hiff.1 hc))]
      refine ⟨b, a :: rest, hkeep, List.suffix_refl _, ?_, hb⟩
      intro a' r e
      simp only [List.cons.injEq] at e
      obtain ⟨rfl, _⟩ := e
      exact not_le.1 h

/-- older edges see the new point -/
theorem sees_old {le : V2 F → V2 F → Prop} (G : GoodOrd le) (p : V2 F) :
    ∀ R : List (V2 F), (∀ s ∈ R, le s p) → R.Pairwise (fun hi lo => le lo hi) → Turns R →
      (∀ c b r, R = c :: b :: r → 0 ≤ orient b c p) → Sees R p := by
  intro R
  induction R with
  | nil => intro _ _ _ _; exact sees_nil p
  | cons c R ih =>
    intro hS hD hT h0
    have hsuf : R <:+ c :: R := List.suffix_cons c R
    refine Sees.cons (ih (fun s hs => hS s (List.mem_cons_of_mem _ hs))
      (List.Pairwise.sublist hsuf.sublist hD) (hT.suffix hsuf) ?_) ?_
    · intro c' b' r e
      subst e
      have h1 : 0 < orient b' c' c := hT [] r b' c' c rfl
      have h2 : 0 ≤ orient c' c p := h0 c c' (b' :: r) rfl
      have hD1 := List.pairwise_cons.1 hD
      have hD2 := List.pairwise_cons.1 hD1.2
      exact G.L3 (hD2.1 b' (by simp)) (hD1.1 c' (by simp)) (hS c (by simp)) h1 h2
    · intro a r e
      subst e
      exact h0 c a r rfl

/-- the invariant of a chain: stack `S` (top first) after the points `Q` were processed -/
structure Inv (le : V2 F → V2 F → Prop) (S Q : List (V2 F)) : Prop where
  sub : ∀ s ∈ S, s ∈ Q
  desc : S.Pairwise (fun hi lo => le lo hi)
  turns : Turns S
  sees : ∀ q ∈ Q, Sees S q
  top : ∀ t r, S = t :: r → ∀ q ∈ Q, le q t
  bot : ∀ l t, S = l ++ [t] → ∀ q ∈ Q, le t q
  ne : Q ≠ [] → S ≠ []
  len : 2 ≤ Q.length → 2 ≤ S.length

theorem inv_nil (le : V2 F → V2 F → Prop) : Inv le [] [] where
  sub := by simp
  desc := List.Pairwise.nil
  turns := turns_nil
  sees := by simp
  top := by simp
  bot := by simp
  ne := by simp
  len := by simp

theorem inv_push {le : V2 F → V2 F → Prop} (G : GoodOrd le) {S Q : List (V2 F)} {p : V2 F}
    (h : Inv le S Q) (hp : ∀ q ∈ Q, le q p) : Inv le (hullPush S p) (Q ++ [p]) := by
  have hpp : le p p := (G.total p p).elim id id
  have hp' : ∀ q ∈ Q ++ [p], le q p := by
    intro q hq
    rcases List.mem_append.1 hq with hq | hq
    · exact hp q hq
    · rw [List.mem_singleton.1 hq]; exact hpp
  cases S with
  | nil =>
    have hQ : Q = [] := by
      by_contra hne; exact h.ne hne rfl
    subst hQ
    simp only [hullPush, List.nil_append]
    exact {
      sub := by simp
      desc := List.pairwise_singleton _ _
      turns := turns_single p
      sees := fun q _ => sees_single p q
      top := by
        intro t r e q hq
        simp only [List.cons.injEq] at e
        rw [← e.1]; exact hp' q (by simpa using hq)
      bot := by
        intro l t e q hq
        have : t = p := by
          cases l with
          | nil => simp at e; exact e.symm
          | cons x l => simp at e
        rw [this, List.mem_singleton.1 hq]; exact hpp
      ne := by simp
      len := by simp }
  | cons b below =>
    have hSp : ∀ s ∈ b :: below, le s p := fun s hs => hp s (h.sub s hs)
    obtain ⟨t, R', hR, hsuf, hturn, hsee⟩ := backtrack_spec G Q p below b hSp h.desc h.sees
      (fun q hq hbq => by
        have : q = b := G.antisymm (h.top b below rfl q hq) hbq
        rw [this]; exact le_of_eq (orient_self_mid b p).symm)
    have hpush : hullPush (b :: below) p = p :: t :: R' := by
      simp only [hullPush, hR]
    rw [hpush]
    have hRp : ∀ s ∈ t :: R', le s p := fun s hs => hSp s (hsuf.subset hs)
    have hRD : (t :: R').Pairwise (fun hi lo => le lo hi) :=
      List.Pairwise.sublist hsuf.sublist h.desc
    have hRT : Turns (t :: R') := h.turns.suffix hsuf
    have hT : Turns (p :: t :: R') := by
      refine hRT.cons ?_
      intro b' a' r e
      simp only [List.cons.injEq] at e
      obtain ⟨rfl, e⟩ := e
      exact hturn a' r e
    exact {
      sub := by
        intro s hs
        rcases List.mem_cons.1 hs with hs | hs
        · rw [hs]; simp
        · exact List.mem_append_left _ (h.sub s (hsuf.subset hs))
      desc := List.pairwise_cons.2 ⟨hRp, hRD⟩
      turns := hT
      sees := by
        intro q hq
        rcases List.mem_append.1 hq with hq | hq
        · refine ((h.sees q hq).suffix hsuf).cons ?_
          intro a r e
          simp only [List.cons.injEq] at e
          obtain ⟨rfl, rfl⟩ := e
          rcases G.total t q with htq | hqt
          · exact hsee q hq htq
          · cases R' with
            | nil =>
              obtain ⟨pre, hpre⟩ := hsuf
              exact hsee q hq (h.bot pre t hpre.symm q hq)
            | cons a r =>
              have hat : le a t := (List.pairwise_cons.1 hRD).1 a (by simp)
              have h1 : 0 ≤ orient a t q := ((h.sees q hq).suffix hsuf) [] r a t rfl
              exact G.L1 hat hqt (hRp t (by simp)) h1 (hturn a r rfl)
        · rw [List.mem_singleton.1 hq]
          refine (sees_old G p (t :: R') hRp hRD hRT ?_).cons ?_
          · intro c b' r e
            simp only [List.cons.injEq] at e
            obtain ⟨rfl, e⟩ := e
            exact le_of_lt (hturn b' r e)
          · intro a r e
            simp only [List.cons.injEq] at e
            obtain ⟨rfl, _⟩ := e
            exact le_of_eq (orient_self_right _ p).symm
      top := by
        intro t' r e q hq
        simp only [List.cons.injEq] at e
        rw [← e.1]; exact hp' q hq
      bot := by
        intro l t' e q hq
        cases l with
        | nil => simp at e
        | cons x l =>
          simp only [List.cons_append, List.cons.injEq] at e
          obtain ⟨pre, hpre⟩ := hsuf
          have hS : b :: below = (pre ++ l) ++ [t'] := by
            rw [← hpre, e.2, List.append_assoc]
          rcases List.mem_append.1 hq with hq | hq
          · exact h.bot _ t' hS q hq
          · rw [List.mem_singleton.1 hq]
            exact hSp t' (by rw [hS]; simp)
      ne := by simp
      len := by simp }

theorem chain_inv_aux {le : V2 F → V2 F → Prop} (G : GoodOrd le) :
    ∀ (suf pre S : List (V2 F)), (pre ++ suf).Pairwise le → Inv le S pre →
      Inv le (suf.foldl hullPush S) (pre ++ suf) := by
  intro suf
  induction suf with
  | nil => intro pre S _ h; simpa using h
  | cons p suf ih =>
    intro pre S hP h
    have hp : ∀ q ∈ pre, le q p := by
      intro q hq
      exact (List.pairwise_append.1 hP).2.2 q hq p (by simp)
    have e : pre ++ p :: suf = (pre ++ [p]) ++ suf := by simp
    rw [List.foldl_cons, e]
    exact ih (pre ++ [p]) (hullPush S p) (e ▸ hP) (inv_push G h hp)

theorem chain_inv {le : V2 F → V2 F → Prop} (G : GoodOrd le) (l : List (V2 F))
    (hl : l.Pairwise le) : Inv le (chain l) l := by
  have := chain_inv_aux G l [] [] (by simpa using hl) (inv_nil le)
  simpa [chain] using this

/-- two equal neighbours on the stack: every processed point is that point -/
theorem Inv.allEq {le : V2 F → V2 F → Prop} (G : GoodOrd le) {S Q : List (V2 F)} (h : Inv le S Q)
    {l1 l2 : List (V2 F)} {a b : V2 F} (hS : S = l1 ++ b :: a :: l2) (hab : a = b) :
    ∀ q ∈ Q, q = a := by
  subst hab
  cases l2 with
  | cons a' l2 =>
    have := h.turns l1 l2 a' a a hS
    rw [orient_self_right] at this
    exact absurd this (lt_irrefl _)
  | nil =>
    rcases List.eq_nil_or_concat l1 with e | ⟨l1', c, e⟩
    · subst e
      intro q hq
      have h1 : le q a := h.top a [a] hS q hq
      have h2 : le a q := h.bot [a] a hS q hq
      exact G.antisymm h1 h2
    · subst e
      have := h.turns l1' [] a a c (by rw [hS]; simp)
      rw [orient_self_left] at this
      exact absurd this (lt_irrefl _)

/-- all processed points collinear: the stack has at most two vertices -/
theorem Inv.len_le_two {le : V2 F → V2 F → Prop} {S Q : List (V2 F)} (h : Inv le S Q)
    (hcol : ∀ a ∈ Q, ∀ b ∈ Q, ∀ c ∈ Q, orient a b c = 0) : S.length ≤ 2 := by
  match S, h with
  | [], _ => simp
  | [_], _ => simp
  | [_, _], _ => simp
  | c :: b :: a :: r, h =>
    have := h.turns [] r a b c rfl
    rw [hcol a (h.sub a (by simp)) b (h.sub b (by simp)) c (h.sub c (by simp))] at this
    exact absurd this (lt_irrefl _)

end MV.CrossOps
