import MV.Proof.CsgBig
/-
The two cases of a frame visit: finalize later (`noncollapse_big`) or collapse (`visit_big`).
-/
set_option autoImplicit false
namespace MV.Csg
open SolidAlg XfAct

variable {M S : Type} [One M] [Mul M] [SolidAlg S] [XfAct M S]

/-- A frame that is not collapsed: visit, all child frames, finalize.  Also used for the root
frame (`posDest = none`). -/
theorem noncollapse_big (r : Nat) (IH : VisitSpec (M := M) S r)
    (σ : EvalState M) (G : Frame M) (rest : List (Frame M)) (i : Nat) (o : Op) (nxf : M)
    (cache : Option Nat)
    (hs : σ.stack = G :: rest) (hwf : WFs σ.st)
    (hn : σ.st.nodes[G.node]? = some (Node.op i o nxf cache)) (hi : i ≤ r)
    (hfin : G.finalize = false) (hpos : G.pos = []) (hneg : G.neg = [])
    (hcc : canCollapse G o (σ.orc.headD false) (σ.st.impls.getD i []).length = false) :
    ∃ (k : Nat) (ev' : List (Event M)) (σ' : EvalState M) (c : Nat) (cl : Leaf M),
      Big σ σ' k ev' ∧ k ≤ cost σ.st G.node ∧
      σ'.stack = pushO rest G.posDest (cl.transform G.xf) ∧
      σ'.st.nodes[G.node]? = some (Node.op i o nxf (some c)) ∧
      σ'.st.nodes[c]? = some (Node.leaf cl) ∧
      ∀ (L : Val S), Respects L ev' → CacheOK L σ.st →
        SemExt L σ.st σ'.st ∧ CacheOK L σ'.st ∧ L.leaf cl = denote L σ.st G.node := by
  have himpl := hwf.impl_get hn
  have hcost := cost_op hwf hn
  generalize hcs : σ.st.impls.getD i [] = cs at himpl hcc hcost
  have hex : ∀ c ∈ cs, σ.st.nodes[c]? ≠ none := by
    intro c hc
    rcases hwf.child himpl c hc with ⟨l, hl⟩ | ⟨_, _, _, _, hl, _⟩ <;> simp [hl]
  have hne : cs ≠ [] := by
    rcases hwf.shape himpl with h2 | ⟨c, l, rfl, _⟩
    · intro h; simp [h] at h2
    · simp
  -- step 1: the visit
  obtain ⟨a, ha⟩ : ∃ a : Dest, a = ⟨rest.length, false⟩ := ⟨_, rfl⟩
  obtain ⟨b, hb⟩ : ∃ b : Dest, b = ⟨rest.length, true⟩ := ⟨_, rfl⟩
  have hab : a ≠ b := by rw [ha, hb]; simp
  obtain ⟨F1, hF1⟩ : ∃ F1 : Frame M, F1 = { G with finalize := true } := ⟨_, rfl⟩
  obtain ⟨frames, hframes⟩ :
    ∃ fr, fr = childFrames σ.st o (1 : M) (some a) (some b) cs true := ⟨_, rfl⟩
  obtain ⟨leafLog, hleafLog⟩ :
    ∃ ll, ll = childLog σ.st o (1 : M) (some a) (some b) cs true := ⟨_, rfl⟩
  obtain ⟨σ1, hσ1⟩ : ∃ σ1 : EvalState M, σ1 =
      { σ with stack := frames.reverse ++ applyPushes (F1 :: rest) leafLog,
               orc := σ.orc.tail, used := σ.used + 1 } := ⟨_, rfl⟩
  have hstep : step σ = σ1 := by
    rw [step_visit hs hn hfin]
    simp only [hcs, hcc, Bool.false_eq_true, if_false]
    have := addChildren_eq σ.st o (1 : M) (some a) (some b) cs true [] (F1 :: rest) σ.ub hex rfl
      (fun _ => rfl) (by
        intro d hd
        rcases hd with hd | hd <;> (cases hd; simp [ha, hb]))
    rw [ha, hb, hF1] at this
    simp only [List.nil_append, List.append_nil] at this
    rw [this, hσ1, hframes, hleafLog, ha, hb, hF1]
  have big1 : Big σ σ1 1 [] :=
    { run := by rw [run_one, hstep]
      ub := by rw [hσ1]
      evs := by rw [hσ1]; simp
      wf := by rw [hσ1]; exact hwf
      ext := by rw [hσ1]; exact Ext.refl _ }
  have hst1 : σ1.st = σ.st := by rw [hσ1]
  -- step 2: the child frames
  have hbase_len : (applyPushes (F1 :: rest) leafLog).length = rest.length + 1 := by simp
  have hGs : ∀ G' ∈ frames, FrameOK G' (applyPushes (F1 :: rest) leafLog).length ∧
      ∃ i' o' nxf' cache', σ1.st.nodes[G'.node]? = some (Node.op i' o' nxf' cache') ∧ i' < r := by
    intro G' hG'
    rw [hframes] at hG'
    obtain ⟨f', _, hG'eq, hmem, i', o', m', k', hnd'⟩ := childFrames_mem hG'
    refine ⟨?_, i', o', m', k', by rw [hst1]; exact hnd', ?_⟩
    · rw [hG'eq, hbase_len]
      exact childFrame_ok o f' 1 a (some b) _ _ (by rw [ha]; simp)
        (fun _ => ⟨b, rfl, by rw [hb]; simp, fun h => hab h.symm⟩)
    · rcases hwf.child himpl _ hmem with ⟨l, hl⟩ | ⟨i'', _, _, _, hl, hlt⟩
      · rw [hl] at hnd'; cases hnd'
      · rw [hl] at hnd'; cases hnd'; omega
  obtain ⟨k2, logs, ev2, σ2, big2, hk2, hst2, hlog, hsem2⟩ :=
    frames_big r IH frames σ1 (applyPushes (F1 :: rest) leafLog) (by rw [hσ1]) (by rw [hst1]; exact hwf)
      hGs
  rw [← applyPushes_append] at hst2
  have hdests := loop_dests σ.st o (1 : M) (some a) (some b) cs true logs (by rw [← hframes]; exact hlog)
  rw [← hleafLog] at hdests
  have hdepth : ∀ e ∈ leafLog ++ logs.reverse.flatten, e.1.depth = rest.length := by
    intro e he
    rcases hdests e he with h | h <;> (cases h; simp [ha, hb])
  rw [applyPushes_head F1 rest _ hdepth] at hst2
  have hF1pos : F1.pos = [] := by rw [hF1]; exact hpos
  have hF1neg : F1.neg = [] := by rw [hF1]; exact hneg
  rw [hF1pos, hF1neg, List.nil_append, List.nil_append, ← ha, ← hb] at hst2
  have hposne : sel a (leafLog ++ logs.reverse.flatten) ≠ [] := by
    rw [hleafLog]
    exact loop_ne σ.st o (1 : M) a (some b) cs hne hex logs (by rw [← hframes]; exact hlog)
  -- the frame on top is now F2, in finalize state
  have big12 := big1.trans big2
  obtain ⟨c2, hn2⟩ := big12.ext.op hn
  have hkle : 1 + k2 + 1 ≤ cost σ.st G.node := by
    have h1 := childFrames_cost σ.st σ.st o (1 : M) (some a) (some b) cs true
    rw [← hframes] at h1
    rw [hst1] at hk2
    omega
  obtain ⟨F2, hF2⟩ : ∃ F2 : Frame M, F2 =
      ({ F1 with pos := sel a (leafLog ++ logs.reverse.flatten)
                 neg := sel b (leafLog ++ logs.reverse.flatten) } : Frame M) := ⟨_, rfl⟩
  obtain ⟨eN, eF, eP, eX⟩ :
      F2.node = G.node ∧ F2.finalize = true ∧ F2.posDest = G.posDest ∧ F2.xf = G.xf := by
    rw [hF2, hF1]; exact ⟨rfl, rfl, rfl, rfl⟩
  have eFpos : F2.pos = sel a (leafLog ++ logs.reverse.flatten) := by rw [hF2]
  have eFneg : F2.neg = sel b (leafLog ++ logs.reverse.flatten) := by rw [hF2]
  rw [← hF2] at hst2
  rw [← eN] at hn2
  cases c2 with
  | some c =>
    -- the cache was set in the meantime: just push it
    obtain ⟨⟨cl, hcl⟩, _⟩ := big2.wf.cache hn2
    have hstep3 := step_finalize_cached hst2 hn2 eF hcl
    rw [eP, eX] at hstep3
    refine ⟨1 + k2 + 1, [] ++ ev2 ++ [],
      { σ2 with stack := pushO rest G.posDest (cl.transform G.xf) }, c, cl,
      big12.trans { run := by rw [run_one, hstep3], ub := rfl, evs := by simp, wf := big2.wf,
                    ext := Ext.refl _ }, hkle, rfl, by rw [← eN]; exact hn2, hcl, ?_⟩
    intro L hL hc
    simp only [List.nil_append, List.append_nil] at hL
    obtain ⟨s2, c2', _⟩ := hsem2 L hL (by rw [hst1]; exact hc)
    rw [hst1] at s2
    refine ⟨s2, c2', ?_⟩
    rw [← denote_leaf L hcl, c2' hn2, eN, s2 _ (List.getElem?_eq_some_iff.1 hn).1]
  | none =>
    have hstep3 := step_finalize_compute hst2 hn2 eF
    rw [eP, eX, eN, eFpos, eFneg] at hstep3
    rw [eN] at hn2
    have hres := fun L : Val S => finalizeResult_sem L (⟨.res σ2.st.nextRes, 1⟩ : Leaf M) o
      (sel a (leafLog ++ logs.reverse.flatten)) (sel b (leafLog ++ logs.reverse.flatten)) hposne
    generalize hrdef : finalizeResult (⟨.res σ2.st.nextRes, 1⟩ : Leaf M) o
      (sel a (leafLog ++ logs.reverse.flatten)) (sel b (leafLog ++ logs.reverse.flatten)) = rr
      at hstep3 hres
    obtain ⟨res, fresh, ub'⟩ := rr
    simp only at hstep3 hres
    have hub : ub' = false := (hres ⟨fun _ => empty, fun _ => empty⟩).1
    subst hub
    have hGlt : G.node < σ2.st.nodes.length := (List.getElem?_eq_some_iff.1 hn2).1
    refine ⟨1 + k2 + 1, [] ++ ev2 ++ [_], _, σ2.st.nodes.length + 1, res.transform nxf,
      big12.trans { run := by rw [run_one, hstep3], ub := by simp, evs := rfl,
                    wf := finStore_wfs big2.wf hn2, ext := finStore_ext big2.wf hn2 },
      hkle, rfl, finStore_n hGlt, finStore_len1, ?_⟩
    intro L hL hc
    simp only [List.nil_append] at hL
    obtain ⟨hL2, hL3⟩ := (Respects_append L _ _).1 hL
    obtain ⟨s2, c2', contracts⟩ := hsem2 L hL2 (by rw [hst1]; exact hc)
    rw [hst1] at s2 contracts
    -- value accounting
    have hW := loop_sem L σ.st (1 : M) o a (some b) (fun _ => ⟨b, rfl, hab⟩) cs hne hex logs
      (by rw [← hframes]; exact contracts)
    rw [← hleafLog] at hW
    have hval : L.leaf res = opSem o (cs.map (denote L σ.st)) := by
      have h2 := hW.2
      simp only [logSem, negSel, act_one] at h2
      rw [← h2]
      cases hfr : fresh with
      | true =>
        have := hL3 _ (List.mem_singleton.2 rfl) hfr
        exact this
      | false => exact (hres L).2 hfr
    have hden : denote L σ.st G.node = act nxf (L.leaf res) := by
      rw [denote_op L hwf hn, hcs, hval]
    have hresAll : ∀ {k : Nat} {o' : Op} {m : M} {c' : Option Nat},
        σ2.st.nodes[k]? = some (Node.op i o' m c') → denote L σ2.st k = act m (L.leaf res) := by
      intro k o' m c' hk
      obtain ⟨c0, hk0⟩ := big12.ext.op_inv hk
      have : o' = o := hwf.op_same hk0 hn
      subst this
      rw [s2 k (List.getElem?_eq_some_iff.1 hk0).1, denote_op L hwf hk0, hcs, hval]
    have s3 := finStore_sem (fresh := fresh) L big2.wf hn2 @hresAll
    have c3 : CacheOK L (finStore σ2.st G.node i o nxf res fresh) :=
      finStore_cacheOK L big2.wf hn2 c2' (hresAll hn2) s3
    refine ⟨SemExt.trans big12.ext s2 s3, c3, ?_⟩
    rw [Val.leaf_transform, hden]

/-- a single leaf pushed through `d1` fulfils any contract with its own value -/
theorem contract_single (L : Val S) (p : Op) (d1 : Dest) (d2 : Option Dest) (l : Leaf M)
    (hd : ∀ d, d2 = some d → d ≠ d1) :
    Contract L p d1 d2 (L.leaf l) [(d1, l)] := by
  have h1 : sel d1 [(d1, l)] = [l] := by simp [sel]
  have h2 : negSel d2 [(d1, l)] = [] := by
    cases d2 with
    | none => rfl
    | some d =>
      have hne : ¬ d1 = d := fun h => hd d rfl h.symm
      simp [negSel, sel, hne]
  refine ⟨by simp [h1], ?_⟩
  simp only [logSem, h1, h2]
  cases p <;> simp [evSem, Val.leaves, union_empty, bigI, bigIo, diff_empty]

omit [One M] [Mul M] in
theorem FrameOK.neg_ne {G : Frame M} {h : Nat} (hG : FrameOK G h) {d1 : Dest}
    (hd1 : G.posDest = some d1) : ∀ d, G.negDest = some d → d ≠ d1 := by
  intro d hd
  by_cases hp : G.parentOp = .sub
  · obtain ⟨d', hd', _, hne⟩ := hG.d2 hp
    rw [hd] at hd'; cases hd'
    rw [hd1] at hne
    exact fun h => hne (by rw [h])
  · rw [hG.d2n hp] at hd; cases hd

theorem visit_step (r : Nat) (IH : VisitSpec (M := M) S r) : VisitSpec (M := M) S (r + 1) := by
  intro σ G rest i o nxf cache d1 hs hwf hn hi hG hd1
  obtain ⟨d1', hd1', hd1lt⟩ := hG.d1
  rw [hd1] at hd1'; cases hd1'
  by_cases hcc : canCollapse G o (σ.orc.headD false) (σ.st.impls.getD i []).length = true
  · -- the frame is collapsed into its parent
    have himpl := hwf.impl_get hn
    have hcost := cost_op hwf hn
    have hden := fun L : Val S => denote_op L hwf hn
    have hstep := step_visit hs hn hG.fin
    simp only [hcc, if_true] at hstep
    generalize hcs : σ.st.impls.getD i [] = cs at himpl hcc hcost hstep hden
    have hex : ∀ c ∈ cs, σ.st.nodes[c]? ≠ none := by
      intro c hc
      rcases hwf.child himpl c hc with ⟨l, hl⟩ | ⟨_, _, _, _, hl, _⟩ <;> simp [hl]
    rcases hwf.shape himpl with h2 | ⟨c, lf, rfl, hlf⟩
    · -- same operation as the parent
      have hop : o = G.parentOp := by
        simp only [canCollapse, Bool.and_eq_true, Bool.or_eq_true, beq_iff_eq] at hcc
        rcases hcc.2 with h | h
        · exact h.1
        · omega
      have hne : cs ≠ [] := by intro h; simp [h] at h2
      have hsub : o = .sub → ∃ b, G.negDest = some b ∧ b.depth < rest.length ∧ b ≠ d1 := by
        intro ho
        obtain ⟨d, hd, hlt, _⟩ := hG.d2 (hop ▸ ho)
        exact ⟨d, hd, hlt, hG.neg_ne hd1 d hd⟩
      obtain ⟨frames, hframes⟩ :
        ∃ fr, fr = childFrames σ.st o (G.xf * nxf) (some d1) G.negDest cs true := ⟨_, rfl⟩
      obtain ⟨leafLog, hleafLog⟩ :
        ∃ ll, ll = childLog σ.st o (G.xf * nxf) (some d1) G.negDest cs true := ⟨_, rfl⟩
      obtain ⟨σ1, hσ1⟩ : ∃ σ1 : EvalState M, σ1 =
          { σ with stack := frames.reverse ++ applyPushes rest leafLog,
                   orc := σ.orc.tail, used := σ.used + 1 } := ⟨_, rfl⟩
      have hstep' : step σ = σ1 := by
        rw [hstep, hd1]
        have := addChildren_eq σ.st o (G.xf * nxf) (some d1) G.negDest cs true [] rest σ.ub hex
          rfl (fun ho => by obtain ⟨b, hb, _⟩ := hsub ho; simp [hb]) (by
            intro d hd
            rcases hd with hd | hd
            · cases hd; exact hd1lt
            · by_cases hp : G.parentOp = .sub
              · obtain ⟨d', hd', hlt, _⟩ := hG.d2 hp
                rw [hd] at hd'; cases hd'; exact hlt
              · rw [hG.d2n hp] at hd; cases hd)
        simp only [List.nil_append, List.append_nil] at this
        rw [this, hσ1, hframes, hleafLog]
      have big1 : Big σ σ1 1 [] :=
        { run := by rw [run_one, hstep']
          ub := by rw [hσ1]
          evs := by rw [hσ1]; simp
          wf := by rw [hσ1]; exact hwf
          ext := by rw [hσ1]; exact Ext.refl _ }
      have hst1 : σ1.st = σ.st := by rw [hσ1]
      have hGs : ∀ G' ∈ frames, FrameOK G' (applyPushes rest leafLog).length ∧
          ∃ i' o' nxf' cache', σ1.st.nodes[G'.node]? = some (Node.op i' o' nxf' cache') ∧
            i' < r := by
        intro G' hG'
        rw [hframes] at hG'
        obtain ⟨f', _, hG'eq, hmem, i', o', m', k', hnd'⟩ := childFrames_mem hG'
        refine ⟨?_, i', o', m', k', by rw [hst1]; exact hnd', ?_⟩
        · rw [hG'eq, applyPushes_length]
          exact childFrame_ok o f' _ d1 G.negDest _ _ hd1lt hsub
        · rcases hwf.child himpl _ hmem with ⟨l, hl⟩ | ⟨i'', _, _, _, hl, hlt⟩
          · rw [hl] at hnd'; cases hnd'
          · rw [hl] at hnd'; cases hnd'; omega
      obtain ⟨k2, logs, ev2, σ2, big2, hk2, hst2, hlog, hsem2⟩ :=
        frames_big r IH frames σ1 (applyPushes rest leafLog) (by rw [hσ1])
          (by rw [hst1]; exact hwf) hGs
      rw [← applyPushes_append] at hst2
      have hlog' : All2 LogOK (childFrames σ.st o (G.xf * nxf) (some d1) G.negDest cs true) logs := by
        rw [← hframes]; exact hlog
      refine ⟨1 + k2, leafLog ++ logs.reverse.flatten, [] ++ ev2, σ2, big1.trans big2, ?_, hst2,
        ⟨?_, ?_⟩, ?_⟩
      · have h1 := childFrames_cost σ.st σ.st o (G.xf * nxf) (some d1) G.negDest cs true
        rw [← hframes] at h1
        rw [hst1] at hk2
        omega
      · rw [hleafLog, hd1]
        exact loop_dests σ.st o _ (some d1) G.negDest cs true logs hlog'
      · intro d hd
        rw [hd1] at hd; cases hd
        rw [hleafLog]
        exact loop_ne σ.st o _ d1 G.negDest cs hne hex logs hlog'
      · intro L hL hc
        simp only [List.nil_append] at hL
        obtain ⟨s2, c2', contracts⟩ := hsem2 L hL (by rw [hst1]; exact hc)
        rw [hst1] at s2 contracts
        refine ⟨s2, c2', ?_⟩
        have hW := loop_sem L σ.st (G.xf * nxf) o d1 G.negDest
          (fun ho => by obtain ⟨b, hb, _, hne'⟩ := hsub ho; exact ⟨b, hb, fun h => hne' h.symm⟩)
          cs hne hex logs (by rw [← hframes]; exact contracts)
        rw [← hleafLog, act_mul, ← hden L, hop] at hW
        exact hW
    · -- a single (leaf) child: push it transformed
      have hstep' : step σ = { σ with stack := pushDest rest d1 (lf.transform (G.xf * nxf)),
                                      orc := σ.orc.tail, used := σ.used + 1 } := by
        rw [hstep, hd1]
        simp [addChildren, addChild, hlf]
      refine ⟨1, [(d1, lf.transform (G.xf * nxf))], [],
        { σ with stack := pushDest rest d1 (lf.transform (G.xf * nxf)),
                 orc := σ.orc.tail, used := σ.used + 1 },
        { run := by rw [run_one, hstep'], ub := rfl, evs := by simp, wf := hwf, ext := Ext.refl _ },
        by omega, rfl, ⟨?_, ?_⟩, ?_⟩
      · intro e he
        simp only [List.mem_singleton] at he
        subst he
        exact Or.inl hd1.symm
      · intro d hd
        rw [hd1] at hd; cases hd
        simp [sel]
      · intro L _ hc
        refine ⟨SemExt.refl L _, hc, ?_⟩
        have := contract_single L G.parentOp d1 G.negDest (lf.transform (G.xf * nxf))
          (hG.neg_ne hd1)
        rw [Val.leaf_transform, act_mul] at this
        rw [hden L]
        simpa [opSem_singleton, denote_leaf L hlf] using this
  · -- the frame is finalized later and pushes its (transformed) cache
    obtain ⟨k, ev', σ', c, cl, big, hk, hst, _, _, hsem⟩ :=
      noncollapse_big r IH σ G rest i o nxf cache hs hwf hn (by omega) hG.fin hG.pos hG.neg
        (by simpa using hcc)
    refine ⟨k, [(d1, cl.transform G.xf)], ev', σ', big, hk, ?_, ⟨?_, ?_⟩, ?_⟩
    · rw [hst, hd1]; rfl
    · intro e he
      simp only [List.mem_singleton] at he
      subst he
      exact Or.inl hd1.symm
    · intro d hd
      rw [hd1] at hd; cases hd
      simp [sel]
    · intro L hL hc
      obtain ⟨s, c', hv⟩ := hsem L hL hc
      refine ⟨s, c', ?_⟩
      have := contract_single L G.parentOp d1 G.negDest (cl.transform G.xf) (hG.neg_ne hd1)
      rw [Val.leaf_transform, hv] at this
      exact this

/-- every pending frame is processed according to `VisitSpec` -/
theorem visit_all : ∀ r, VisitSpec (M := M) S r := by
  intro r
  induction r with
  | zero => intro σ G rest i o nxf cache d1 _ _ _ hi; omega
  | succ r ih => exact visit_step r ih

end MV.Csg
