import MV.Model.Mesh
/-!
Lemmas about the mesh vocabulary: correctness of the checker, invariance of
`Closed2Manifold` under permutation / rotation / relabelling, Euler count.
-/
namespace MV.Mesh
open List

/-! ## small list lemmas -/

theorem adjDup_none_iff_nodup : ∀ (l : List Nat), l.Pairwise (· ≤ ·) → (adjDup l = none ↔ l.Nodup)
  | [], _ => by simp [adjDup]
  | [a], _ => by simp [adjDup]
  | a :: b :: l, h => by
    have ih := adjDup_none_iff_nodup (b :: l) h.tail
    rw [pairwise_cons] at h
    unfold adjDup
    by_cases hab : a = b
    · subst hab; simp
    · simp only [hab, if_false, ih]
      constructor
      · intro hn
        refine nodup_cons.2 ⟨?_, hn⟩
        intro hm
        rcases mem_cons.1 hm with rfl | hm
        · exact hab rfl
        · have h1 := h.1 b mem_cons_self
          have h2 := (pairwise_cons.1 h.2).1 a hm
          omega
      · intro hn; exact (nodup_cons.1 hn).2

theorem firstUnmatched_none_iff : ∀ (l₁ l₂ : List Nat), firstUnmatched l₁ l₂ = none ↔ l₁ = l₂
  | [], [] => by simp [firstUnmatched]
  | a :: _, [] => by simp [firstUnmatched]
  | [], b :: _ => by simp [firstUnmatched]
  | a :: as, b :: bs => by
    unfold firstUnmatched
    by_cases hab : a = b
    · subst hab; simp [firstUnmatched_none_iff as bs]
    · by_cases hlt : a < b <;> simp [hab, hlt]

theorem nodup_map_iff_of_injOn {α β} {f : α → β} {l : List α}
    (h : ∀ x ∈ l, ∀ y ∈ l, f x = f y → x = y) : (l.map f).Nodup ↔ l.Nodup := by
  unfold Nodup
  rw [pairwise_map]
  apply Pairwise.iff_of_mem
  intro a b ha hb
  constructor
  · intro hne heq; exact hne (heq ▸ rfl)
  · intro hne heq; exact hne (h a ha b hb heq)

theorem sorted_natKeys (l : List Nat) : (l.mergeSort).Pairwise (· ≤ ·) := by
  have := pairwise_mergeSort (le := fun a b => decide (a ≤ b))
    (by intro a b c; simp; omega) (by intro a b; simp; omega) l
  exact this.imp (by simp)

theorem mergeSort_eq_iff_perm (l₁ l₂ : List Nat) : l₁.mergeSort = l₂.mergeSort ↔ l₁ ~ l₂ := by
  constructor
  · intro h
    have h1 := (mergeSort_perm l₁ (fun a b => decide (a ≤ b))).symm
    rw [h] at h1
    exact h1.trans (mergeSort_perm l₂ _)
  · intro h
    apply Perm.eq_of_pairwise (le := (· ≤ ·)) (fun a b _ _ h1 h2 => Nat.le_antisymm h1 h2)
      (sorted_natKeys l₁) (sorted_natKeys l₂)
    exact ((mergeSort_perm l₁ _).trans h).trans (mergeSort_perm l₂ _).symm

/-! ## keys -/

theorem key_inj {nV a b c d : Nat} (hb : b < nV) (hd : d < nV) (h : a * nV + b = c * nV + d) :
    a = c ∧ b = d := by
  have h1 : (a * nV + b) / nV = a := by
    rw [Nat.mul_comm, Nat.mul_add_div (by omega), Nat.div_eq_of_lt hb]; rfl
  have h2 : (c * nV + d) / nV = c := by
    rw [Nat.mul_comm, Nat.mul_add_div (by omega), Nat.div_eq_of_lt hd]; rfl
  have hac : a = c := by rw [← h1, ← h2, h]
  subst hac
  exact ⟨rfl, by omega⟩

/-! ## vertices and edges -/

theorem mem_dirEdges {ts : List Tri} {e : Nat × Nat} :
    e ∈ dirEdges ts ↔ ∃ t ∈ ts, e ∈ triEdges t := by
  simp [dirEdges, mem_flatMap]

theorem mem_triEdges {t : Tri} {e : Nat × Nat} :
    e ∈ triEdges t ↔ e = (t.1, t.2.1) ∨ e = (t.2.1, t.2.2) ∨ e = (t.2.2, t.1) := by
  simp [triEdges]

theorem mem_triVerts {t : Tri} {v : Nat} :
    v ∈ triVerts t ↔ v = t.1 ∨ v = t.2.1 ∨ v = t.2.2 := by
  simp [triVerts]

/-- a vertex is a corner of a triangle iff it starts one of its edges -/
theorem mem_triVerts_iff_start {t : Tri} {v : Nat} :
    v ∈ triVerts t ↔ ∃ b, (v, b) ∈ triEdges t := by
  simp only [mem_triVerts, mem_triEdges, Prod.mk.injEq]
  constructor
  · rintro (h | h | h)
    · exact ⟨_, .inl ⟨h, rfl⟩⟩
    · exact ⟨_, .inr (.inl ⟨h, rfl⟩)⟩
    · exact ⟨_, .inr (.inr ⟨h, rfl⟩)⟩
  · rintro ⟨b, h | h | h⟩
    · exact .inl h.1
    · exact .inr (.inl h.1)
    · exact .inr (.inr h.1)

theorem mem_triVerts_iff_end {t : Tri} {v : Nat} :
    v ∈ triVerts t ↔ ∃ a, (a, v) ∈ triEdges t := by
  simp only [mem_triVerts, mem_triEdges, Prod.mk.injEq]
  constructor
  · rintro (h | h | h)
    · exact ⟨_, .inr (.inr ⟨rfl, h⟩)⟩
    · exact ⟨_, .inl ⟨rfl, h⟩⟩
    · exact ⟨_, .inr (.inl ⟨rfl, h⟩)⟩
  · rintro ⟨b, h | h | h⟩
    · exact .inr (.inl h.2)
    · exact .inr (.inr h.2)
    · exact .inl h.2

theorem triInRange_iff {nV : Nat} {t : Tri} : triInRange nV t = true ↔ TriInRange nV t := by
  simp [triInRange, TriInRange, and_assoc]

theorem triNondeg_iff {t : Tri} : triNondeg t = true ↔ TriNondeg t := by
  simp [triNondeg, TriNondeg, and_assoc]

theorem edges_inRange {nV : Nat} {ts : List Tri} (h : ∀ t ∈ ts, TriInRange nV t)
    {e : Nat × Nat} (he : e ∈ dirEdges ts) : e.1 < nV ∧ e.2 < nV := by
  obtain ⟨t, ht, he⟩ := mem_dirEdges.1 he
  have := h t ht
  rcases mem_triEdges.1 he with rfl | rfl | rfl
  · exact ⟨this.1, this.2.1⟩
  · exact ⟨this.2.1, this.2.2⟩
  · exact ⟨this.2.2, this.1⟩

/-! ## marks -/

theorem getD_set1 (m : Array Bool) (a v : Nat) :
    (m.setIfInBounds a true).getD v false
      = (m.getD v false || (decide (v < m.size) && v == a)) := by
  simp only [Array.getD_eq_getD_getElem?, Array.getElem?_setIfInBounds]
  by_cases hv : v < m.size
  · by_cases h1 : a = v
    · subst h1; simp [hv]
    · have : ¬ v = a := fun h => h1 h.symm
      simp [h1, this]
  · have hn : m[v]? = none := by simp; omega
    by_cases h1 : a = v
    · subst h1; simp [hv]
    · simp [h1, hv]

theorem getD_set3 (m : Array Bool) (a b c v : Nat) :
    (((m.setIfInBounds a true).setIfInBounds b true).setIfInBounds c true).getD v false
      = (m.getD v false || (decide (v < m.size) && (v == a || v == b || v == c))) := by
  rw [getD_set1, getD_set1, getD_set1]
  simp only [Array.size_setIfInBounds]
  cases m.getD v false <;> cases decide (v < m.size) <;> simp

theorem markVerts_go (ts : List Tri) (m : Array Bool) (v : Nat) :
    (ts.foldl (fun m t => ((m.setIfInBounds t.1 true).setIfInBounds t.2.1 true).setIfInBounds t.2.2 true) m).getD v false
      = (m.getD v false || (decide (v < m.size) && ts.any fun t => v == t.1 || v == t.2.1 || v == t.2.2)) ∧
    (ts.foldl (fun m t => ((m.setIfInBounds t.1 true).setIfInBounds t.2.1 true).setIfInBounds t.2.2 true) m).size = m.size := by
  induction ts generalizing m with
  | nil => simp
  | cons t ts ih =>
    simp only [foldl_cons, any_cons]
    obtain ⟨h1, h2⟩ := ih (((m.setIfInBounds t.1 true).setIfInBounds t.2.1 true).setIfInBounds t.2.2 true)
    refine ⟨?_, by rw [h2]; simp⟩
    rw [h1, getD_set3]
    simp only [Array.size_setIfInBounds]
    cases m.getD v false <;> cases decide (v < m.size) <;> simp

theorem markVerts_getD (nV : Nat) (ts : List Tri) (v : Nat) :
    (markVerts nV ts).getD v false = true ↔ v < nV ∧ ∃ t ∈ ts, v ∈ triVerts t := by
  unfold markVerts
  rw [(markVerts_go ts _ v).1]
  have : (Array.replicate nV false).getD v false = false := by
    simp only [Array.getD_eq_getD_getElem?, Array.getElem?_replicate]
    split <;> rfl
  rw [this]
  simp only [Array.size_replicate, Bool.false_or, Bool.and_eq_true, decide_eq_true_eq, any_eq_true,
    Bool.or_eq_true, beq_iff_eq, mem_triVerts, or_assoc]

theorem firstUnreferenced_none_iff (nV : Nat) (ex : Nat → Bool) (ts : List Tri) :
    firstUnreferenced nV ex ts = none ↔
      ∀ v, v < nV → ex v = false → ∃ t ∈ ts, v ∈ triVerts t := by
  unfold firstUnreferenced
  simp only [find?_eq_none, mem_range]
  constructor
  · intro h v hv hex
    have := h v hv
    simp only [hex, Bool.not_false, Bool.and_true, Bool.not_eq_true', Bool.not_eq_false] at this
    exact ((markVerts_getD nV ts v).1 (by simpa using this)).2
  · intro h v hv
    cases hex : ex v
    · have := (markVerts_getD nV ts v).2 ⟨hv, h v hv hex⟩
      simp [this]
    · simp

/-! ## the checker is sound and complete -/

theorem matched_iff_sorted_eq {nV : Nat} {ts : List Tri} (hr : ∀ t ∈ ts, TriInRange nV t)
    (hnd : (dirEdges ts).Nodup) :
    (edgeKeys nV (dirEdges ts)).mergeSort = (revKeys nV (dirEdges ts)).mergeSort ↔
      ∀ a b, (a, b) ∈ dirEdges ts → (b, a) ∈ dirEdges ts := by
  rw [mergeSort_eq_iff_perm]
  have hk : (edgeKeys nV (dirEdges ts)).Nodup := by
    unfold edgeKeys
    rw [nodup_map_iff_of_injOn]; exact hnd
    intro x hx y hy h
    have := key_inj (edges_inRange hr hx).2 (edges_inRange hr hy).2 h
    exact Prod.ext this.1 this.2
  have hrk : (revKeys nV (dirEdges ts)).Nodup := by
    unfold revKeys
    rw [nodup_map_iff_of_injOn]; exact hnd
    intro x hx y hy h
    have := key_inj (edges_inRange hr hx).1 (edges_inRange hr hy).1 h
    exact Prod.ext this.2 this.1
  rw [perm_ext_iff_of_nodup hk hrk]
  unfold edgeKeys revKeys
  simp only [mem_map, Prod.exists]
  constructor
  · intro h a b hab
    obtain ⟨c, d, hcd, hkey⟩ := (h (b * nV + a)).2 ⟨a, b, hab, rfl⟩
    have := key_inj (edges_inRange hr hcd).2 (edges_inRange hr hab).1 hkey
    obtain ⟨rfl, rfl⟩ := this
    exact hcd
  · intro h k
    constructor
    · rintro ⟨a, b, hab, rfl⟩; exact ⟨b, a, h a b hab, rfl⟩
    · rintro ⟨a, b, hab, rfl⟩; exact ⟨b, a, h a b hab, rfl⟩

theorem err_iff {e : MeshErr} {P : Prop} (h : ¬ P) :
    ((Except.error e : Except MeshErr Unit) = .ok () ↔ P) :=
  ⟨fun h' => by simp at h', fun hp => absurd hp h⟩

theorem checkMeshEx_iff (nV : Nat) (ex : Nat → Bool) (ts : List Tri) :
    checkMeshEx nV ex ts = .ok () ↔ Closed2ManifoldEx nV ex ts := by
  unfold checkMeshEx Closed2ManifoldEx
  split
  · rename_i i hi
    have : ¬ ∀ t ∈ ts, TriInRange nV t := by
      intro h
      have := (findIdx?_eq_none_iff (xs := ts) (p := fun t => !triInRange nV t)).2
        (by intro t ht; simp [triInRange_iff.2 (h t ht)])
      rw [this] at hi; cases hi
    exact err_iff (fun h => this h.1)
  rename_i h1
  have hr : ∀ t ∈ ts, TriInRange nV t := by
    intro t ht
    have := (findIdx?_eq_none_iff.1 h1) t ht
    exact triInRange_iff.1 (by simpa using this)
  split
  · rename_i i hi
    have : ¬ ∀ t ∈ ts, TriNondeg t := by
      intro h
      have := (findIdx?_eq_none_iff (xs := ts) (p := fun t => !triNondeg t)).2
        (by intro t ht; simp [triNondeg_iff.2 (h t ht)])
      rw [this] at hi; cases hi
    exact err_iff (fun h => this h.2.1)
  rename_i h2
  have hd : ∀ t ∈ ts, TriNondeg t := by
    intro t ht
    have := (findIdx?_eq_none_iff.1 h2) t ht
    exact triNondeg_iff.1 (by simpa using this)
  have hnodup : adjDup (edgeKeys nV (dirEdges ts)).mergeSort = none ↔ (dirEdges ts).Nodup := by
    rw [adjDup_none_iff_nodup _ (sorted_natKeys _), (mergeSort_perm _ _).nodup_iff]
    unfold edgeKeys
    apply nodup_map_iff_of_injOn
    intro x hx y hy h
    have := key_inj (edges_inRange hr hx).2 (edges_inRange hr hy).2 h
    exact Prod.ext this.1 this.2
  simp only []
  split
  · rename_i k hk
    have : ¬ (dirEdges ts).Nodup := by
      intro h; rw [hnodup.2 h] at hk; cases hk
    exact err_iff (fun h => this h.2.2.1)
  rename_i h3
  have hnd := hnodup.1 h3
  have hm := matched_iff_sorted_eq hr hnd
  rw [← firstUnmatched_none_iff] at hm
  split
  · rename_i k hk
    have : ¬ ∀ a b, (a, b) ∈ dirEdges ts → (b, a) ∈ dirEdges ts := by
      intro h; rw [hm.2 h] at hk; cases hk
    exact err_iff (fun h => this h.2.2.2.1)
  · rename_i k hk
    have : ¬ ∀ a b, (a, b) ∈ dirEdges ts → (b, a) ∈ dirEdges ts := by
      intro h; rw [hm.2 h] at hk; cases hk
    exact err_iff (fun h => this h.2.2.2.1)
  rename_i h4
  have hmt := hm.1 h4
  have hu := firstUnreferenced_none_iff nV ex ts
  split
  · rename_i v hv
    have : ¬ ∀ v, v < nV → ex v = false → ∃ t ∈ ts, v ∈ triVerts t := by
      intro h; rw [hu.2 h] at hv; cases hv
    exact err_iff (fun h => this h.2.2.2.2)
  · rename_i h5
    simp only [true_iff]
    exact ⟨hr, hd, hnd, hmt, hu.1 h5⟩

theorem closed2Manifold_iff_ex (nV : Nat) (ts : List Tri) :
    Closed2Manifold nV ts ↔ Closed2ManifoldEx nV (fun _ => false) ts := by
  simp [Closed2Manifold, Closed2ManifoldEx]

theorem checkMesh_iff' (nV : Nat) (ts : List Tri) :
    checkMesh nV ts = .ok () ↔ Closed2Manifold nV ts := by
  rw [closed2Manifold_iff_ex]; exact checkMeshEx_iff nV _ ts


/-! ## decidability (for `decide` on concrete meshes) -/

theorem closed2ManifoldEx_iff_bounded (nV : Nat) (ex : Nat → Bool) (ts : List Tri) :
    Closed2ManifoldEx nV ex ts ↔
      (∀ t ∈ ts, TriInRange nV t) ∧ (∀ t ∈ ts, TriNondeg t) ∧ (dirEdges ts).Nodup ∧
      (∀ e ∈ dirEdges ts, (e.2, e.1) ∈ dirEdges ts) ∧
      (∀ v, v < nV → ex v = false → ∃ t ∈ ts, v ∈ triVerts t) := by
  unfold Closed2ManifoldEx
  have : (∀ a b, (a, b) ∈ dirEdges ts → (b, a) ∈ dirEdges ts) ↔
      (∀ e ∈ dirEdges ts, (e.2, e.1) ∈ dirEdges ts) :=
    ⟨fun h e he => h e.1 e.2 he, fun h a b hab => h (a, b) hab⟩
  rw [this]

instance (nV : Nat) (ex : Nat → Bool) (ts : List Tri) : Decidable (Closed2ManifoldEx nV ex ts) :=
  decidable_of_iff _ (closed2ManifoldEx_iff_bounded nV ex ts).symm

instance (nV : Nat) (ts : List Tri) : Decidable (Closed2Manifold nV ts) :=
  decidable_of_iff _ (closed2Manifold_iff_ex nV ts).symm

instance (ts : List Tri) : Decidable (ClosedOriented ts) :=
  decidable_of_iff ((∀ t ∈ ts, TriNondeg t) ∧ (dirEdges ts).Nodup ∧
      (∀ e ∈ dirEdges ts, (e.2, e.1) ∈ dirEdges ts))
    ⟨fun h => ⟨h.1, h.2.1, fun a b hab => h.2.2 (a, b) hab⟩,
     fun h => ⟨h.1, h.2.1, fun e he => h.2.2 e.1 e.2 he⟩⟩

/-! ## the specification in terms of the directed-edge list -/

/-- `Closed2ManifoldEx` stated on the list of directed edges only -/
def EdgeSpec (nV : Nat) (ex : Nat → Bool) (es : List (Nat × Nat)) : Prop :=
  (∀ e ∈ es, e.1 < nV) ∧ (∀ e ∈ es, e.1 ≠ e.2) ∧ es.Nodup ∧
  (∀ a b, (a, b) ∈ es → (b, a) ∈ es) ∧ (∀ v, v < nV → ex v = false → ∃ b, (v, b) ∈ es)

theorem inRange_iff_edges {nV : Nat} {ts : List Tri} :
    (∀ t ∈ ts, TriInRange nV t) ↔ ∀ e ∈ dirEdges ts, e.1 < nV := by
  constructor
  · intro h e he; exact (edges_inRange h he).1
  · intro h t ht
    refine ⟨h (t.1, t.2.1) ?_, h (t.2.1, t.2.2) ?_, h (t.2.2, t.1) ?_⟩ <;>
      exact mem_dirEdges.2 ⟨t, ht, by simp [triEdges]⟩

theorem nondeg_iff_edges {ts : List Tri} :
    (∀ t ∈ ts, TriNondeg t) ↔ ∀ e ∈ dirEdges ts, e.1 ≠ e.2 := by
  constructor
  · intro h e he
    obtain ⟨t, ht, he⟩ := mem_dirEdges.1 he
    have := h t ht
    rcases mem_triEdges.1 he with rfl | rfl | rfl
    · exact this.1
    · exact this.2.1
    · exact this.2.2
  · intro h t ht
    refine ⟨h (t.1, t.2.1) ?_, h (t.2.1, t.2.2) ?_, h (t.2.2, t.1) ?_⟩ <;>
      exact mem_dirEdges.2 ⟨t, ht, by simp [triEdges]⟩

/-- `v` is a corner of some triangle -/
def Used (ts : List Tri) (v : Nat) : Prop := ∃ t ∈ ts, v ∈ triVerts t

theorem used_iff_start {ts : List Tri} {v : Nat} : Used ts v ↔ ∃ b, (v, b) ∈ dirEdges ts := by
  unfold Used
  constructor
  · rintro ⟨t, ht, hv⟩
    obtain ⟨b, hb⟩ := mem_triVerts_iff_start.1 hv
    exact ⟨b, mem_dirEdges.2 ⟨t, ht, hb⟩⟩
  · rintro ⟨b, hb⟩
    obtain ⟨t, ht, he⟩ := mem_dirEdges.1 hb
    exact ⟨t, ht, mem_triVerts_iff_start.2 ⟨b, he⟩⟩

theorem used_iff_end {ts : List Tri} {v : Nat} : Used ts v ↔ ∃ a, (a, v) ∈ dirEdges ts := by
  unfold Used
  constructor
  · rintro ⟨t, ht, hv⟩
    obtain ⟨b, hb⟩ := mem_triVerts_iff_end.1 hv
    exact ⟨b, mem_dirEdges.2 ⟨t, ht, hb⟩⟩
  · rintro ⟨b, hb⟩
    obtain ⟨t, ht, he⟩ := mem_dirEdges.1 hb
    exact ⟨t, ht, mem_triVerts_iff_end.2 ⟨b, he⟩⟩

theorem closed2ManifoldEx_iff_edges (nV : Nat) (ex : Nat → Bool) (ts : List Tri) :
    Closed2ManifoldEx nV ex ts ↔ EdgeSpec nV ex (dirEdges ts) := by
  unfold Closed2ManifoldEx EdgeSpec
  rw [inRange_iff_edges, nondeg_iff_edges]
  have : (∀ v, v < nV → ex v = false → ∃ t ∈ ts, v ∈ triVerts t) ↔
      (∀ v, v < nV → ex v = false → ∃ b, (v, b) ∈ dirEdges ts) := by
    constructor
    · intro h v hv hx; exact used_iff_start.1 (h v hv hx)
    · intro h v hv hx; exact used_iff_start.2 (h v hv hx)
  rw [this]

theorem edgeSpec_perm {nV : Nat} {ex : Nat → Bool} {es es' : List (Nat × Nat)} (h : es ~ es') :
    EdgeSpec nV ex es ↔ EdgeSpec nV ex es' := by
  unfold EdgeSpec
  simp only [h.mem_iff, h.nodup_iff]

/-- Everything `Closed2Manifold` says depends only on the multiset of directed edges. -/
theorem closed2ManifoldEx_of_dirEdges_perm {nV : Nat} {ex : Nat → Bool} {ts ts' : List Tri}
    (h : dirEdges ts ~ dirEdges ts') :
    Closed2ManifoldEx nV ex ts ↔ Closed2ManifoldEx nV ex ts' := by
  rw [closed2ManifoldEx_iff_edges, closed2ManifoldEx_iff_edges, edgeSpec_perm h]

theorem closed2Manifold_of_dirEdges_perm {nV : Nat} {ts ts' : List Tri}
    (h : dirEdges ts ~ dirEdges ts') : Closed2Manifold nV ts ↔ Closed2Manifold nV ts' := by
  rw [closed2Manifold_iff_ex, closed2Manifold_iff_ex, closed2ManifoldEx_of_dirEdges_perm h]

/-! ## permutation and rotation -/

/-- rotate a triangle's corners: `(a,b,c) ↦ (b,c,a)` -/
def rotTri (t : Tri) : Tri := (t.2.1, t.2.2, t.1)

/-- the same oriented triangle up to rotation of its three indices -/
def RotEq (t t' : Tri) : Prop := t' = t ∨ t' = rotTri t ∨ t' = rotTri (rotTri t)

instance (t t' : Tri) : Decidable (RotEq t t') := by unfold RotEq; infer_instance

theorem triEdges_rot (t : Tri) : triEdges (rotTri t) ~ triEdges t := by
  show [(t.2.1, t.2.2), (t.2.2, t.1), (t.1, t.2.1)] ~ [(t.1, t.2.1), (t.2.1, t.2.2), (t.2.2, t.1)]
  exact (perm_append_comm (l₁ := [(t.2.1, t.2.2), (t.2.2, t.1)]) (l₂ := [(t.1, t.2.1)]))

theorem triEdges_rotEq {t t' : Tri} (h : RotEq t t') : triEdges t' ~ triEdges t := by
  rcases h with rfl | rfl | rfl
  · exact Perm.refl _
  · exact triEdges_rot t
  · exact (triEdges_rot _).trans (triEdges_rot t)

theorem dirEdges_perm {ts ts' : List Tri} (h : ts ~ ts') : dirEdges ts ~ dirEdges ts' :=
  h.flatMap_right _

/-- position-wise: every triangle of `ts'` is the triangle of `ts` at the same position with its
three indices rotated (by 0, 1 or 2 places) -/
inductive Rotated : List Tri → List Tri → Prop
  | nil : Rotated [] []
  | cons {t t' : Tri} {ts ts' : List Tri} : RotEq t t' → Rotated ts ts' → Rotated (t :: ts) (t' :: ts')

theorem dirEdges_rot {ts ts' : List Tri} (h : Rotated ts ts') :
    dirEdges ts ~ dirEdges ts' := by
  induction h with
  | nil => exact Perm.refl _
  | cons hab _ ih =>
    simp only [dirEdges, flatMap_cons] at ih ⊢
    exact (triEdges_rotEq hab).symm.append ih

/-! ## relabelling -/

theorem dirEdges_map (f : Nat → Nat) (ts : List Tri) :
    dirEdges (ts.map (mapTri f)) = (dirEdges ts).map (fun e => (f e.1, f e.2)) := by
  induction ts with
  | nil => rfl
  | cons t ts ih =>
    simp only [dirEdges, map_cons, flatMap_cons, map_append] at ih ⊢
    rw [ih]; rfl

theorem closedOriented_iff_edges (ts : List Tri) :
    ClosedOriented ts ↔ (∀ e ∈ dirEdges ts, e.1 ≠ e.2) ∧ (dirEdges ts).Nodup ∧
      (∀ a b, (a, b) ∈ dirEdges ts → (b, a) ∈ dirEdges ts) := by
  unfold ClosedOriented; rw [nondeg_iff_edges]

theorem Closed2ManifoldEx.closedOriented {nV : Nat} {ex : Nat → Bool} {ts : List Tri}
    (h : Closed2ManifoldEx nV ex ts) : ClosedOriented ts := ⟨h.2.1, h.2.2.1, h.2.2.2.1⟩

theorem Closed2Manifold.closedOriented {nV : Nat} {ts : List Tri}
    (h : Closed2Manifold nV ts) : ClosedOriented ts := ⟨h.2.1, h.2.2.1, h.2.2.2.1⟩

theorem relabel_iff (f : Nat → Nat) (nV' : Nat) (ts : List Tri)
    (hinj : ∀ u v, Used ts u → Used ts v → f u = f v → u = v)
    (hlt : ∀ v, Used ts v → f v < nV')
    (hsurj : ∀ w, w < nV' → ∃ v, Used ts v ∧ f v = w) :
    Closed2Manifold nV' (ts.map (mapTri f)) ↔ ClosedOriented ts := by
  rw [closed2Manifold_iff_ex, closed2ManifoldEx_iff_edges, closedOriented_iff_edges, dirEdges_map]
  have hs : ∀ {e : Nat × Nat}, e ∈ dirEdges ts → Used ts e.1 := fun {e} he =>
    used_iff_start.2 ⟨e.2, he⟩
  have he : ∀ {e : Nat × Nat}, e ∈ dirEdges ts → Used ts e.2 := fun {e} he =>
    used_iff_end.2 ⟨e.1, he⟩
  have ginj : ∀ x ∈ dirEdges ts, ∀ y ∈ dirEdges ts,
      (fun e : Nat × Nat => (f e.1, f e.2)) x = (fun e : Nat × Nat => (f e.1, f e.2)) y → x = y := by
    intro x hx y hy h
    simp only [Prod.mk.injEq] at h
    exact Prod.ext (hinj _ _ (hs hx) (hs hy) h.1) (hinj _ _ (he hx) (he hy) h.2)
  unfold EdgeSpec
  rw [nodup_map_iff_of_injOn ginj]
  simp only [mem_map, forall_exists_index, and_imp]
  constructor
  · rintro ⟨_, hnd, hno, hm, _⟩
    refine ⟨?_, hno, ?_⟩
    · intro e hemem heq
      exact hnd _ e hemem rfl (by simp only [heq])
    · intro a b hab
      obtain ⟨e', he', heq⟩ := hm (f a) (f b) (a, b) hab rfl
      simp only [Prod.mk.injEq] at heq
      have h1 := hinj _ _ (hs he') (he hab) heq.1
      have h2 := hinj _ _ (he he') (hs hab) heq.2
      have : e' = (b, a) := Prod.ext h1 h2
      rw [← this]; exact he'
  · rintro ⟨hnd, hno, hm⟩
    refine ⟨?_, ?_, hno, ?_, ?_⟩
    · rintro _ e hemem rfl; exact hlt _ (hs hemem)
    · rintro _ e hemem rfl h
      exact hnd e hemem (hinj _ _ (hs hemem) (he hemem) h)
    · intro a b e hemem heq
      simp only [Prod.mk.injEq] at heq
      refine ⟨(e.2, e.1), hm _ _ hemem, ?_⟩
      simp only [Prod.mk.injEq]; exact ⟨heq.2, heq.1⟩
    · intro w hw _
      obtain ⟨v, hv, rfl⟩ := hsurj w hw
      obtain ⟨b, hb⟩ := used_iff_start.1 hv
      exact ⟨f b, (v, b), hb, rfl⟩

/-! ## Euler count -/

theorem length_dirEdges (ts : List Tri) : (dirEdges ts).length = 3 * ts.length := by
  induction ts with
  | nil => rfl
  | cons t ts ih => simp only [dirEdges, flatMap_cons, length_append, length_cons] at ih ⊢; rw [ih]; simp [triEdges]; omega

theorem length_fwd_add_bwd (es : List (Nat × Nat)) (h : ∀ e ∈ es, e.1 ≠ e.2) :
    es.length = (es.filter fun e => e.1 < e.2).length + (es.filter fun e => e.2 < e.1).length := by
  induction es with
  | nil => rfl
  | cons e es ih =>
    have hne := h e mem_cons_self
    have := ih (fun x hx => h x (mem_cons_of_mem _ hx))
    simp only [filter_cons, length_cons]
    by_cases h1 : e.1 < e.2
    · have h2 : ¬ e.2 < e.1 := by omega
      simp [h1, h2]; omega
    · have h2 : e.2 < e.1 := by omega
      simp [h1, h2]; omega

theorem length_filter_le_of_swap (es : List (Nat × Nat)) (hnd : es.Nodup)
    (hm : ∀ a b, (a, b) ∈ es → (b, a) ∈ es) (p q : Nat × Nat → Bool)
    (hpq : ∀ e, p e = true → q (e.2, e.1) = true) :
    (es.filter p).length ≤ (es.filter q).length := by
  have h1 : ((es.filter p).map fun e => (e.2, e.1)).Nodup := by
    rw [nodup_map_iff_of_injOn]
    · exact hnd.sublist filter_sublist
    · intro x _ y _ h
      simp only [Prod.mk.injEq] at h
      exact Prod.ext h.2 h.1
  have h2 : ((es.filter p).map fun e => (e.2, e.1)) ⊆ es.filter q := by
    intro x hx
    obtain ⟨e, he, rfl⟩ := mem_map.1 hx
    rw [mem_filter] at he ⊢
    exact ⟨hm _ _ he.1, hpq e he.2⟩
  have := h1.length_le_of_subset h2
  simpa using this

theorem euler_edges {ts : List Tri} (h : ClosedOriented ts) :
    3 * ts.length = 2 * numUndirected ts := by
  obtain ⟨hnd, hno, hm⟩ := (closedOriented_iff_edges ts).1 h
  have h1 := length_fwd_add_bwd _ hnd
  have h2 := length_filter_le_of_swap _ hno hm (fun e => e.1 < e.2) (fun e => e.2 < e.1)
    (by intro e; simp)
  have h3 := length_filter_le_of_swap _ hno hm (fun e => e.2 < e.1) (fun e => e.1 < e.2)
    (by intro e; simp)
  rw [length_dirEdges] at h1
  unfold numUndirected
  omega

/-! ## merge vectors: the table is the specification function -/

theorem mergeTable_go (v : Nat) : ∀ (l : List (Nat × Nat)) (m : Array Nat), v < m.size →
    (l.foldl (fun m ft => m.setIfInBounds ft.1 ft.2) m).getD v v =
      (match l.reverse.find? (fun ft => ft.1 == v) with
       | some ft => ft.2
       | none => m.getD v v)
  | [], m, _ => by simp
  | p :: l, m, hv => by
    rw [foldl_cons, mergeTable_go v l _ (by simpa using hv), reverse_cons, find?_append]
    cases h : l.reverse.find? (fun ft => ft.1 == v) with
    | some ft => simp
    | none =>
      simp only [Option.none_or, find?_cons, find?_nil]
      by_cases hp : p.1 = v
      · subst hp
        simp [Array.getD_eq_getD_getElem?, hv]
      · have : (p.1 == v) = false := by simpa using hp
        simp [this, Array.getD_eq_getD_getElem?, hp]

theorem mergeTable_getD (n : Nat) (mf mt : List Nat) (v : Nat) (hv : v < n) :
    (mergeTable n mf mt).getD v v = mergeFun mf mt v := by
  unfold mergeTable mergeFun
  rw [mergeTable_go v _ _ (by simpa using hv)]
  cases (mf.zip mt).reverse.find? (fun ft => ft.1 == v) with
  | some ft => rfl
  | none => simp [Array.getD_eq_getD_getElem?, hv]

theorem indexBound_go : ∀ (ts : List Tri) (n : Nat),
    n ≤ ts.foldl (fun n t => max (max (max n (t.1 + 1)) (t.2.1 + 1)) (t.2.2 + 1)) n ∧
    ∀ t ∈ ts, t.1 < ts.foldl (fun n t => max (max (max n (t.1 + 1)) (t.2.1 + 1)) (t.2.2 + 1)) n ∧
      t.2.1 < ts.foldl (fun n t => max (max (max n (t.1 + 1)) (t.2.1 + 1)) (t.2.2 + 1)) n ∧
      t.2.2 < ts.foldl (fun n t => max (max (max n (t.1 + 1)) (t.2.1 + 1)) (t.2.2 + 1)) n
  | [], n => ⟨Nat.le_refl _, by simp⟩
  | t :: ts, n => by
    obtain ⟨h1, h2⟩ := indexBound_go ts (max (max (max n (t.1 + 1)) (t.2.1 + 1)) (t.2.2 + 1))
    rw [foldl_cons]
    refine ⟨by omega, ?_⟩
    intro t' ht'
    rcases mem_cons.1 ht' with rfl | ht'
    · omega
    · exact h2 t' ht'

/-- `applyMerge` (array table, O(n)) maps every index through `mergeFun` (the specification:
last matching `mergeFrom[i]` wins, no chaining). -/
theorem applyMerge_eq (mf mt : List Nat) (ts : List Tri) :
    applyMerge mf mt ts = ts.map (mapTri (mergeFun mf mt)) := by
  unfold applyMerge
  apply map_congr_left
  intro t ht
  obtain ⟨h1, h2, h3⟩ := (indexBound_go ts 0).2 t ht
  unfold mapTri
  simp only [indexBound, mergeTable_getD _ mf mt _ h1, mergeTable_getD _ mf mt _ h2,
    mergeTable_getD _ mf mt _ h3]

end MV.Mesh
