import MV.Model.LazyEval

/-!
Proofs for Part 1 of `MV/Model/LazyEval.lean` (property C06, lazy evaluation lock protocol):
an inductive invariant `Inv` of the small-step machine, preserved by `step` for every thread
(enabled or not), and from it the reachable-state facts `run_inv`, absence of deadlock
`run_no_deadlock` and mutual exclusion `run_mutex`.
-/
namespace MV.LazyEval

/-- Inductive invariant of the machine. -/
structure Inv (V : Nat) (T : Nat → Nat) (hd : Nat → Nat) (s : State) : Prop where
  pcle : ∀ t, (s.th t).pc ≤ 10
  /-- the guard of O is owned exactly by the thread at pc 3, 5 or 7 -/
  gl : ∀ t, ((s.th t).pc = 3 ∨ (s.th t).pc = 5 ∨ (s.th t).pc = 7) ↔ s.glock = some t
  /-- the handle mutex of `hd t` is owned by `t` exactly while `1 ≤ pc t ≤ 9` -/
  hl : ∀ t, (1 ≤ (s.th t).pc ∧ (s.th t).pc ≤ 9) ↔ s.hlock (hd t) = some t
  hown : ∀ h u, s.hlock h = some u → hd u = h
  res : ∀ t v, (s.th t).res = some v → v = T V ∧ s.cache = some (T V)
  pn : ∀ h v, s.pnode h = .leaf v → v = T V ∧ s.cache = some (T V)
  cn : s.cache = none → s.evals = 0 ∧ s.impl = .orig
  cs : ∀ v, s.cache = some v → v = T V ∧ s.evals = 1 ∧ s.impl = .reduced V
  seen : ∀ t v, (s.th t).seen = .reduced v → v = V
  p8 : ∀ t, (s.th t).pc = 8 → (s.th t).res = some (T V)
  p9 : ∀ t, ((s.th t).pc = 9 ∨ (s.th t).pc = 10) →
    (s.th t).res = some (T V) ∧ s.pnode (hd t) = .leaf (T V)

theorem init_inv (V : Nat) (T : Nat → Nat) (hd : Nat → Nat) : Inv V T hd init := by
  constructor <;> simp [init]

theorem step_inv {V : Nat} {T : Nat → Nat} {hd : Nat → Nat} {s : State}
    (h : Inv V T hd s) (t : Nat) : Inv V T hd (step V T hd s t) := by
  by_cases he : enabled hd s t = true
  case neg =>
    have : step V T hd s t = s := by simp [step, he]
    rw [this]; exact h
  obtain ⟨pcle, gl, hl, hown, res, pn, cn, cs, seen, p8, p9⟩ := h
  have hp := pcle t
  have hc : (s.th t).pc = 0 ∨ (s.th t).pc = 1 ∨ (s.th t).pc = 2 ∨ (s.th t).pc = 3 ∨
      (s.th t).pc = 4 ∨ (s.th t).pc = 5 ∨ (s.th t).pc = 6 ∨ (s.th t).pc = 7 ∨
      (s.th t).pc = 8 ∨ (s.th t).pc = 9 ∨ (s.th t).pc = 10 := by omega
  have he' := he
  have himpl : ∀ v, s.impl = .reduced v → v = V := by
    intro v hv
    cases hca : s.cache with
    | none => have := (cn hca).2; simp [this] at hv
    | some w => have := (cs w hca).2.2; simp [this] at hv; exact hv.symm
  rcases hc with h0 | h0 | h0 | h0 | h0 | h0 | h0 | h0 | h0 | h0 | h0
  · -- pc 0
    simp [enabled, h0] at he'
    simp [step, he, h0]
    constructor <;> simp only [upd] <;> grind
  · -- pc 1
    cases hpn : s.pnode (hd t) with
    | op =>
      simp [step, he, h0, hpn]
      constructor <;> simp only [upd] <;> grind
    | leaf v =>
      simp [step, he, h0, hpn]
      constructor <;> simp only [upd] <;> grind
  · -- pc 2
    simp [enabled, h0] at he'
    simp [step, he, h0]
    constructor <;> simp only [upd] <;> grind
  · -- pc 3
    cases hca : s.cache with
    | none =>
      simp [step, he, h0, hca]
      constructor <;> simp only [upd] <;> grind
    | some v =>
      simp [step, he, h0, hca]
      constructor <;> simp only [upd] <;> grind
  · -- pc 4
    simp [enabled, h0] at he'
    simp [step, he, h0]
    constructor <;> simp only [upd] <;> grind
  · -- pc 5
    simp [step, he, h0]
    constructor <;> simp only [upd] <;> grind
  · -- pc 6
    simp [enabled, h0] at he'
    simp [step, he, h0]
    constructor <;> simp only [upd] <;> grind
  · -- pc 7
    cases hca : s.cache with
    | none =>
      have hes : evalSeen V (s.th t).seen = V := by
        cases hs : (s.th t).seen with
        | orig => rfl
        | reduced v => exact seen t v hs
      simp [step, he, h0, hca, hes]
      constructor <;> simp only [upd] <;> grind
    | some v =>
      simp [step, he, h0, hca]
      constructor <;> simp only [upd] <;> grind
  · -- pc 8
    have h8 := p8 t h0
    simp [step, he, h0, h8]
    constructor <;> simp only [upd] <;> grind
  · -- pc 9
    simp [step, he, h0]
    constructor <;> simp only [upd] <;> grind
  · -- pc 10
    simp [enabled, h0] at he'

theorem run_Inv {V : Nat} {T : Nat → Nat} {hd : Nat → Nat} (sched : List Nat) :
    ∀ {s : State}, Inv V T hd s → Inv V T hd (run V T hd s sched) := by
  induction sched with
  | nil => intro s h; exact h
  | cons t ts ih => intro s h; exact ih (step_inv h t)

/-- Invariant facts in every reachable state, for every schedule (list of thread ids, any length, any threads). -/
theorem run_inv (V : Nat) (T : Nat → Nat) (hd : Nat → Nat) (sched : List Nat) :
    let s := run V T hd init sched
    (∀ t v, (s.th t).res = some v → v = T V) ∧
    (∀ h v, s.pnode h = .leaf v → v = T V ∧ s.cache = some (T V)) ∧
    s.evals ≤ 1 ∧
    (s.cache = none → s.evals = 0 ∧ s.impl = .orig) ∧
    (∀ v, s.cache = some v → v = T V ∧ s.evals = 1 ∧ s.impl = .reduced V) ∧
    (∀ t, (s.th t).pc = 10 → (s.th t).res = some (T V) ∧ s.pnode (hd t) = .leaf (T V) ∧ s.evals = 1) := by
  intro s
  have h : Inv V T hd s := run_Inv sched (init_inv V T hd)
  obtain ⟨pcle, gl, hl, hown, res, pn, cn, cs, seen, p8, p9⟩ := h
  refine ⟨fun t v hv => (res t v hv).1, pn, ?_, cn, cs, ?_⟩
  · cases hca : s.cache with
    | none => have := (cn hca).1; omega
    | some w => have := (cs w hca).2.1; omega
  · intro t ht
    have h9 := p9 t (Or.inr ht)
    exact ⟨h9.1, h9.2, (cs _ (res t _ h9.1).2).2.1⟩

/-- No deadlock: a thread that is neither done nor enabled waits (directly, or via the owner of its handle lock) for a thread that has started, is not done, and can move. -/
theorem run_no_deadlock (V : Nat) (T : Nat → Nat) (hd : Nat → Nat) (sched : List Nat) (t : Nat) :
    let s := run V T hd init sched
    (s.th t).pc ≠ 10 → enabled hd s t = false →
    ∃ u, u ≠ t ∧ enabled hd s u = true ∧ 1 ≤ (s.th u).pc ∧ (s.th u).pc < 10 := by
  intro s hne hdis
  have h : Inv V T hd s := run_Inv sched (init_inv V T hd)
  obtain ⟨pcle, gl, hl, hown, res, pn, cn, cs, seen, p8, p9⟩ := h
  -- a thread blocked on the guard of O waits for its owner, which is enabled
  have hguard : ∀ x, ((s.th x).pc = 2 ∨ (s.th x).pc = 4 ∨ (s.th x).pc = 6) →
      enabled hd s x = false →
      ∃ u, u ≠ x ∧ enabled hd s u = true ∧ ((s.th u).pc = 3 ∨ (s.th u).pc = 5 ∨ (s.th u).pc = 7) := by
    intro x hx hxd
    cases hg : s.glock with
    | none => rcases hx with hx | hx | hx <;> simp [enabled, hx, hg] at hxd
    | some w =>
      have hw := (gl w).2 hg
      refine ⟨w, ?_, ?_, hw⟩
      · intro hwx; subst hwx; omega
      · rcases hw with hw | hw | hw <;> simp [enabled, hw]
  have hp := pcle t
  have hc : (s.th t).pc = 0 ∨ (s.th t).pc = 2 ∨ (s.th t).pc = 4 ∨ (s.th t).pc = 6 ∨
      (s.th t).pc = 1 ∨ (s.th t).pc = 3 ∨ (s.th t).pc = 5 ∨ (s.th t).pc = 7 ∨
      (s.th t).pc = 8 ∨ (s.th t).pc = 9 := by omega
  rcases hc with h0 | h0 | h0 | h0 | h0 | h0 | h0 | h0 | h0 | h0
  · -- blocked on the handle mutex
    cases hh : s.hlock (hd t) with
    | none => simp [enabled, h0, hh] at hdis
    | some u =>
      have hu : hd u = hd t := hown _ _ hh
      have hpu := (hl u).2 (by rw [hu]; exact hh)
      have hut : u ≠ t := by intro e; subst e; omega
      cases heu : enabled hd s u with
      | true => exact ⟨u, hut, heu, hpu.1, by omega⟩
      | false =>
        have hpcu : (s.th u).pc = 2 ∨ (s.th u).pc = 4 ∨ (s.th u).pc = 6 := by
          have h10 := pcle u
          have hcu : (s.th u).pc = 2 ∨ (s.th u).pc = 4 ∨ (s.th u).pc = 6 ∨
              (s.th u).pc = 1 ∨ (s.th u).pc = 3 ∨ (s.th u).pc = 5 ∨ (s.th u).pc = 7 ∨
              (s.th u).pc = 8 ∨ (s.th u).pc = 9 := by omega
          rcases hcu with h | h | h | h | h | h | h | h | h
          · exact Or.inl h
          · exact Or.inr (Or.inl h)
          · exact Or.inr (Or.inr h)
          all_goals simp [enabled, h] at heu
        obtain ⟨w, _, hwe, hw⟩ := hguard u hpcu heu
        refine ⟨w, ?_, hwe, by omega, by omega⟩
        intro e; subst e; omega
  · obtain ⟨w, hwt, hwe, hw⟩ := hguard t (Or.inl h0) hdis
    exact ⟨w, hwt, hwe, by omega, by omega⟩
  · obtain ⟨w, hwt, hwe, hw⟩ := hguard t (Or.inr (Or.inl h0)) hdis
    exact ⟨w, hwt, hwe, by omega, by omega⟩
  · obtain ⟨w, hwt, hwe, hw⟩ := hguard t (Or.inr (Or.inr h0)) hdis
    exact ⟨w, hwt, hwe, by omega, by omega⟩
  all_goals simp [enabled, h0] at hdis

/-- Mutual exclusion of the two kinds of lock. -/
theorem run_mutex (V : Nat) (T : Nat → Nat) (hd : Nat → Nat) (sched : List Nat) :
    let s := run V T hd init sched
    (∀ t u, t ≠ u → (s.th t).pc ∈ [3, 5, 7] → (s.th u).pc ∈ [3, 5, 7] → False) ∧
    (∀ t u, t ≠ u → hd t = hd u → 1 ≤ (s.th t).pc → (s.th t).pc ≤ 9 → 1 ≤ (s.th u).pc → (s.th u).pc ≤ 9 → False) := by
  intro s
  have h : Inv V T hd s := run_Inv sched (init_inv V T hd)
  obtain ⟨pcle, gl, hl, hown, res, pn, cn, cs, seen, p8, p9⟩ := h
  constructor
  · intro t u htu ht hu
    simp only [List.mem_cons, List.mem_nil_iff, or_false] at ht hu
    have h1 := (gl t).1 ht
    have h2 := (gl u).1 hu
    rw [h1] at h2
    exact htu (Option.some.inj h2)
  · intro t u htu hhd ht1 ht9 hu1 hu9
    have h1 := (hl t).1 ⟨ht1, ht9⟩
    have h2 := (hl u).1 ⟨hu1, hu9⟩
    rw [hhd, h2] at h1
    exact htu (Option.some.inj h1).symm

/-- the round-robin schedule 0,1,2 repeated `n` times -/
def rr : Nat → List Nat
  | 0 => []
  | n + 1 => 0 :: 1 :: 2 :: rr n

/-- final state of three threads (handles 0, 1, 0) under 20 round-robin rounds -/
def demo : State := run 7 (fun x => x + 100) (fun t => t % 2) init (rr 20)

/-- Non-vacuity: on a concrete schedule all three threads finish, the Boolean is executed once,
and `run_inv` then yields the serial answer `T V = 107` for every thread. -/
example :
    ((demo.th 0).pc = 10 ∧ (demo.th 1).pc = 10 ∧ (demo.th 2).pc = 10 ∧ demo.evals = 1) ∧
    ((demo.th 0).res = some 107 ∧ (demo.th 1).res = some 107 ∧ (demo.th 2).res = some 107 ∧
      demo.pnode 0 = .leaf 107 ∧ demo.pnode 1 = .leaf 107) := by
  have hpc : (demo.th 0).pc = 10 ∧ (demo.th 1).pc = 10 ∧ (demo.th 2).pc = 10 ∧ demo.evals = 1 := by
    decide +kernel
  have hdemo : run 7 (fun x => x + 100) (fun t => t % 2) init (rr 20) = demo := rfl
  have key := run_inv 7 (fun x => x + 100) (fun t => t % 2) (rr 20)
  dsimp only at key
  rw [hdemo] at key
  obtain ⟨-, -, -, -, -, h⟩ := key
  have h0 := h 0 hpc.1
  have h1 := h 1 hpc.2.1
  have h2 := h 2 hpc.2.2.1
  simp only [Nat.reduceAdd, Nat.reduceMod] at h0 h1 h2
  exact ⟨hpc, h0.1, h1.1, h2.1, h0.2.1, h1.2.1⟩

end MV.LazyEval
