import MV.Model.Ctor
/-!
Lemmas for the integer / decision-table theorems of property C17 (`MV/Props/C17.lean`).  Core only.
-/
namespace MV.Ctor

/-! grid index -/

theorem le_two_pow_ceilLog2 (v : Nat) : v ≤ 2 ^ ceilLog2 v := by
  unfold ceilLog2
  split
  · omega
  · have := Nat.lt_log2_self (n := v - 1)
    omega

/-- every index the marching grid uses (`0 … gridSize + 2` after `kVoxelOffset`) fits its field -/
theorem gridPow_fits (n : Nat) : n + 2 < 2 ^ gridPow n := by
  have := le_two_pow_ceilLog2 (n + 2 + 1); unfold gridPow; omega

theorem encode_arith (x y z w py pz : Nat) (hw : w < 2) (hz : z < 2 ^ pz) (hy : y < 2 ^ py) :
    encodeIndex x y z w py pz = w + 2 * (z + 2 ^ pz * (y + 2 ^ py * x)) := by
  unfold encodeIndex
  have h1 : w ||| z <<< 1 = z <<< 1 + w := by
    rw [Nat.or_comm]; exact (Nat.shiftLeft_add_eq_or_of_lt (by simpa using hw) z).symm
  have hb1 : z <<< 1 + w < 2 ^ (1 + pz) := by
    rw [Nat.shiftLeft_eq, Nat.pow_add]; omega
  have h2 : (z <<< 1 + w) ||| y <<< (1 + pz) = y <<< (1 + pz) + (z <<< 1 + w) := by
    rw [Nat.or_comm]; exact (Nat.shiftLeft_add_eq_or_of_lt hb1 y).symm
  have hb2 : y <<< (1 + pz) + (z <<< 1 + w) < 2 ^ (1 + pz + py) := by
    rw [Nat.shiftLeft_eq, Nat.shiftLeft_eq, Nat.pow_add 2 (1 + pz) py]
    have : y * 2 ^ (1 + pz) + 2 ^ (1 + pz) ≤ 2 ^ (1 + pz) * 2 ^ py := by
      rw [← Nat.succ_mul, Nat.mul_comm]; exact Nat.mul_le_mul_left _ hy
    rw [Nat.shiftLeft_eq] at hb1; omega
  have h3 : (y <<< (1 + pz) + (z <<< 1 + w)) ||| x <<< (1 + pz + py)
      = x <<< (1 + pz + py) + (y <<< (1 + pz) + (z <<< 1 + w)) := by
    rw [Nat.or_comm]; exact (Nat.shiftLeft_add_eq_or_of_lt hb2 x).symm
  rw [h1, h2, h3]
  simp only [Nat.shiftLeft_eq, Nat.pow_add, Nat.pow_one]
  rw [Nat.mul_add, Nat.mul_add, Nat.mul_add]
  have e1 : 2 * (2 ^ pz * (2 ^ py * x)) = x * (2 * 2 ^ pz * 2 ^ py) := by
    rw [Nat.mul_comm x]; simp only [Nat.mul_assoc]
  have e2 : 2 * (2 ^ pz * y) = y * (2 * 2 ^ pz) := by rw [Nat.mul_comm y]; simp only [Nat.mul_assoc]
  omega

theorem decode_arith (idx px py pz : Nat) :
    decodeIndex idx px py pz =
      (idx / 2 / 2 ^ pz / 2 ^ py % 2 ^ px, idx / 2 / 2 ^ pz % 2 ^ py, idx / 2 % 2 ^ pz, idx % 2) := by
  unfold decodeIndex
  simp only [Nat.one_shiftLeft, Nat.and_two_pow_sub_one_eq_mod, Nat.shiftRight_eq_div_pow, Nat.pow_one]
  have : idx &&& 1 = idx % 2 := by
    simp
  rw [this]

theorem grid_index_roundtrip' (x y z w px py pz : Nat) (hw : w < 2) (hz : z < 2 ^ pz) (hy : y < 2 ^ py)
    (hx : x < 2 ^ px) :
    decodeIndex (encodeIndex x y z w py pz) px py pz = (x, y, z, w) ∧
    encodeIndex x y z w py pz < 2 ^ (1 + pz + py + px) := by
  rw [encode_arith x y z w py pz hw hz hy, decode_arith]
  have hpz : 0 < 2 ^ pz := Nat.two_pow_pos _
  have hpy : 0 < 2 ^ py := Nat.two_pow_pos _
  have d1 : (w + 2 * (z + 2 ^ pz * (y + 2 ^ py * x))) / 2 = z + 2 ^ pz * (y + 2 ^ py * x) := by omega
  have m1 : (w + 2 * (z + 2 ^ pz * (y + 2 ^ py * x))) % 2 = w := by omega
  have d2 : (z + 2 ^ pz * (y + 2 ^ py * x)) / 2 ^ pz = y + 2 ^ py * x := by
    rw [Nat.add_mul_div_left _ _ hpz, Nat.div_eq_of_lt hz]; omega
  have m2 : (z + 2 ^ pz * (y + 2 ^ py * x)) % 2 ^ pz = z := by
    rw [Nat.add_mul_mod_self_left, Nat.mod_eq_of_lt hz]
  have d3 : (y + 2 ^ py * x) / 2 ^ py = x := by
    rw [Nat.add_mul_div_left _ _ hpy, Nat.div_eq_of_lt hy]; omega
  have m3 : (y + 2 ^ py * x) % 2 ^ py = y := by
    rw [Nat.add_mul_mod_self_left, Nat.mod_eq_of_lt hy]
  rw [d1, m1, d2, m2, d3, m3, Nat.mod_eq_of_lt hx]
  refine ⟨rfl, ?_⟩
  have e : 2 ^ (1 + pz + py + px) = 2 * (2 ^ pz * (2 ^ py * 2 ^ px)) := by
    simp only [Nat.pow_add, Nat.pow_one, Nat.mul_assoc]
  rw [e]
  have b3 : y + 2 ^ py * x + 1 ≤ 2 ^ py * 2 ^ px := by
    have : 2 ^ py * (x + 1) ≤ 2 ^ py * 2 ^ px := Nat.mul_le_mul_left _ hx
    rw [Nat.mul_add] at this; omega
  have b2 : z + 2 ^ pz * (y + 2 ^ py * x) + 1 ≤ 2 ^ pz * (2 ^ py * 2 ^ px) := by
    have : 2 ^ pz * (y + 2 ^ py * x + 1) ≤ 2 ^ pz * (2 ^ py * 2 ^ px) := Nat.mul_le_mul_left _ b3
    rw [Nat.mul_add] at this; omega
  omega

/-! sind / cosd -/

theorem quadrant_exact (quo m : Nat) (hq : quo % 8 = m % 8) :
    quadrant 0 1 quo = sinQuarter (m : Int) := by
  have h4 : quo % 4 = m % 4 := by omega
  have hm : ((m : Int) % 4) = ((m % 4 : Nat) : Int) := by omega
  unfold quadrant sinQuarter
  rw [h4, hm]
  have : m % 4 < 4 := Nat.mod_lt _ (by omega)
  generalize m % 4 = r at this ⊢
  match r, this with
  | 0, _ => rfl
  | 1, _ => rfl
  | 2, _ => rfl
  | 3, _ => rfl

theorem sinQuarter_neg (k : Int) : sinQuarter (-k) = - sinQuarter k := by
  unfold sinQuarter
  have h : (-k) % 4 = (4 - k % 4) % 4 := by omega
  have hr : 0 ≤ k % 4 ∧ k % 4 < 4 := by omega
  rw [h]
  generalize k % 4 = r at hr ⊢
  have : r = 0 ∨ r = 1 ∨ r = 2 ∨ r = 3 := by omega
  rcases this with rfl | rfl | rfl | rfl <;> rfl

theorem cosQuarter_eq (k : Int) : cosQuarter k = sinQuarter (k + 1) := by
  unfold sinQuarter cosQuarter
  have h : (k + 1) % 4 = (k % 4 + 1) % 4 := by omega
  have hr : 0 ≤ k % 4 ∧ k % 4 < 4 := by omega
  rw [h]
  generalize k % 4 = r at hr ⊢
  have : r = 0 ∨ r = 1 ∨ r = 2 ∨ r = 3 := by omega
  rcases this with rfl | rfl | rfl | rfl <;> rfl

theorem sindQ_exact (quoOf : Nat → Nat) (hq : ∀ m, quoOf m % 8 = m % 8) (k : Int) :
    sindQ 0 1 quoOf k = sinQuarter k := by
  unfold sindQ
  split
  · next h =>
    rw [quadrant_exact _ _ (hq _)]
    have : (((-k).toNat : Nat) : Int) = -k := by omega
    rw [this, sinQuarter_neg]; omega
  · next h =>
    rw [quadrant_exact _ _ (hq _)]
    have : ((k.toNat : Nat) : Int) = k := by omega
    rw [this]

theorem quarter_pythagoras (k : Int) : sinQuarter k * sinQuarter k + cosQuarter k * cosQuarter k = 1 := by
  unfold sinQuarter cosQuarter
  have hr : 0 ≤ k % 4 ∧ k % 4 < 4 := by omega
  generalize k % 4 = r at hr ⊢
  have : r = 0 ∨ r = 1 ∨ r = 2 ∨ r = 3 := by omega
  rcases this with rfl | rfl | rfl | rfl <;> rfl

/-! Quality -/

theorem segments_props (circ a l : Nat) :
    (0 < circ → segments circ a l = circ) ∧
    (circ = 0 → segments circ a l % 4 = 0 ∧ 4 ≤ segments circ a l ∧
      min a l ≤ segments circ a l ∧ (1 ≤ min a l → segments circ a l < min a l + 4)) := by
  unfold segments
  constructor
  · intro h; simp [h]
  · intro h
    subst h
    simp only [Nat.lt_irrefl, if_false]
    generalize min a l = m
    have h1 : (m + 3 - (m + 3) % 4) % 4 = 0 := by omega
    have h2 : m ≤ m + 3 - (m + 3) % 4 := by omega
    refine ⟨?_, by omega, by omega, by omega⟩
    rcases Nat.le_total (m + 3 - (m + 3) % 4) 4 with h | h
    · rw [Nat.max_eq_right h]
    · rw [Nat.max_eq_left h]; exact h1

theorem setCircularSegments_range (cur number : Int) (hc : cur = 0 ∨ 3 ≤ cur) :
    setCircularSegments cur number = 0 ∨ 3 ≤ setCircularSegments cur number := by
  unfold setCircularSegments; split <;> omega

end MV.Ctor
