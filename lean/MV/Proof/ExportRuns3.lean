import MV.Proof.ExportRuns2
/-! helper lemmas for `runs_roundtrip` (C08b): the importer's run loop -/
namespace MV.Export
open List

variable {τ : Type}

/-! ## generic -/

/-- invariant rule for a fold over `zipIdx` -/
theorem foldl_zipIdx_inv {α σ : Type} (f : σ → α × Nat → σ) (P : Nat → σ → Prop) :
    ∀ (l : List α) (k : Nat) (s0 : σ), P k s0 →
      (∀ i (hi : i < l.length) s, P (k + i) s → P (k + i + 1) (f s (l[i], k + i))) →
      P (k + l.length) ((l.zipIdx k).foldl f s0) := by
  intro l
  induction l with
  | nil => intro k s0 h0 _; simpa using h0
  | cons a l ih =>
    intro k s0 h0 hs
    simp only [zipIdx_cons, foldl_cons, length_cons]
    have := ih (k + 1) (f s0 (a, k)) (by have := hs 0 (by simp) s0 (by simpa using h0); simpa using this)
      (fun i hi s hP => by
        have := hs (i + 1) (by simp only [length_cons]; omega) s
          (by rw [show k + (i + 1) = k + 1 + i by omega]; exact hP)
        simpa [show k + (i + 1) = k + 1 + i by omega] using this)
    rw [show k + (l.length + 1) = k + 1 + l.length by omega]
    exact this

/-- a monotone walk from `f 0 ≤ t` to `t < f R` crosses `t` in some block -/
theorem exists_block (f : Nat → Nat) : ∀ (R t : Nat), f 0 ≤ t → t < f R →
    ∃ k, k < R ∧ f k ≤ t ∧ t < f (k + 1) := by
  intro R
  induction R with
  | zero => intro t h1 h2; omega
  | succ R ih =>
    intro t h1 h2
    by_cases h : t < f R
    · obtain ⟨k, hk, h3⟩ := ih t h1 h
      exact ⟨k, by omega, h3⟩
    · exact ⟨R, by omega, by omega, h2⟩

/-- writing `g t` to the cells `lo, lo+1, …, lo+len-1` -/
theorem foldl_set_range (g : Nat → TriRef) : ∀ (len lo : Nat) (a : Array TriRef),
    ((List.range' lo len).foldl (fun a tri => a.setIfInBounds tri (g tri)) a).size = a.size ∧
    ∀ t, ((List.range' lo len).foldl (fun a tri => a.setIfInBounds tri (g tri)) a)[t]? =
      if lo ≤ t ∧ t < lo + len ∧ t < a.size then some (g t) else a[t]? := by
  intro len
  induction len with
  | zero =>
    intro lo a
    refine ⟨rfl, fun t => ?_⟩
    simp only [range'_zero, foldl_nil]
    rw [if_neg (by omega)]
  | succ len ih =>
    intro lo a
    simp only [range'_succ, foldl_cons]
    obtain ⟨h1, h2⟩ := ih (lo + 1) (a.setIfInBounds lo (g lo))
    refine ⟨by rw [h1, Array.size_setIfInBounds], fun t => ?_⟩
    rw [h2 t, Array.size_setIfInBounds, Array.getElem?_setIfInBounds]
    by_cases e : lo = t
    · subst e
      by_cases hs : lo < a.size
      · rw [if_neg (by omega), if_pos rfl, if_pos hs, if_pos (by omega)]
      · rw [if_neg (by omega), if_pos rfl, if_neg hs, if_neg (by omega)]
        exact (Array.getElem?_eq_none (by omega)).symm
    · rw [if_neg e]
      by_cases hc : lo + 1 ≤ t ∧ t < lo + 1 + len ∧ t < a.size
      · rw [if_pos hc, if_pos (by omega)]
      · rw [if_neg hc, if_neg (by omega)]

theorem importRunTris_spec (a : Array TriRef) (faceID : List Int) (meshID originalID : Int) (lo hi : Nat) :
    (importRunTris a faceID meshID originalID lo hi).size = a.size ∧
    ∀ t, (importRunTris a faceID meshID originalID lo hi)[t]? =
      if lo ≤ t ∧ t < hi ∧ t < a.size then
        some ⟨meshID, originalID, if faceID.isEmpty then -1 else faceID.getD t 0, t⟩
      else a[t]? := by
  obtain ⟨h1, h2⟩ := foldl_set_range
    (fun tri => ⟨meshID, originalID, if faceID.isEmpty then -1 else faceID.getD tri 0, tri⟩) (hi - lo) lo a
  refine ⟨h1, fun t => ?_⟩
  unfold importRunTris
  rw [h2 t]
  by_cases hc : lo ≤ t ∧ t < hi ∧ t < a.size
  · rw [if_pos hc, if_pos (by omega)]
  · rw [if_neg hc, if_neg (by omega)]

/-! ## the importer's loop body as a definition -/

/-- the `step` of `importRuns` -/
def impStep (idT : τ) (startID : Int) (numExtraProp : Nat) (inp : ImportIn τ) (runIndex : List Nat)
    (st : Array TriRef × RelMap τ) (io : Nat × Int) : Array TriRef × RelMap τ :=
  let i := io.1; let originalID := io.2
  let meshID := startID + i
  let backside := inp.runFlags.getD i 0 % 2 == 1
  let runHasN := (inp.runFlags.getD i 0 / 2 % 2 == 1) && decide (3 ≤ numExtraProp)
  let refs := importRunTris st.1 inp.faceID meshID originalID (runIndex.getD i 0 / 3) (runIndex.getD (i + 1) 0 / 3)
  let rel : Rel τ := if inp.runTransform.isEmpty then ⟨originalID, idT, false, runHasN⟩
    else ⟨originalID, inp.runTransform.getD i idT, backside, runHasN⟩
  (refs, RelMap.insert st.2 meshID rel)

theorem importRuns_eq (idT : τ) (startID : Int) (nx : Nat) (inp : ImportIn τ) :
    importRuns idT startID nx inp =
      (((((if inp.runOriginalID.isEmpty then [startID] else inp.runOriginalID).zipIdx.map
          fun oi => (oi.2, oi.1)).foldl
        (impStep idT startID nx inp (normRunIndex inp.runIndex inp.runOriginalID.length (3 * inp.numTri)))
        (Array.replicate inp.numTri default, [])).1).toList,
       ((((if inp.runOriginalID.isEmpty then [startID] else inp.runOriginalID).zipIdx.map
          fun oi => (oi.2, oi.1)).foldl
        (impStep idT startID nx inp (normRunIndex inp.runIndex inp.runOriginalID.length (3 * inp.numTri)))
        (Array.replicate inp.numTri default, [])).2)) := rfl

theorem relFlags_back (r : Rel τ) : (relFlags r % 2 == 1) = r.backSide := by
  unfold relFlags; cases r.backSide <;> cases r.hasNormals <;> rfl

theorem relFlags_normals (r : Rel τ) : (relFlags r / 2 % 2 == 1) = r.hasNormals := by
  unfold relFlags; cases r.backSide <;> cases r.hasNormals <;> rfl

/-! ## importing an exported run table -/

theorem starts_getElem? (rt : RunTable τ) (k : Nat) (hk : k ≤ rt.runs.length) :
    (rt.runs.map (·.start) ++ [rt.numTri])[k]? = some (nxt rt.runs k rt.numTri) := by
  unfold nxt
  rcases Nat.lt_or_ge k rt.runs.length with h | h
  · rw [getElem?_append_left (by simpa using h)]
    simp [getElem?_eq_getElem h]
  · have e : k = rt.runs.length := by omega
    subst e
    rw [getElem?_append_right (by simp)]
    simp

theorem nxt_mono (rt : RunTable τ) (hp : (rt.runs.map (·.start) ++ [rt.numTri]).Pairwise (· ≤ ·))
    {a b : Nat} (hab : a ≤ b) (hb : b ≤ rt.runs.length) :
    nxt rt.runs a rt.numTri ≤ nxt rt.runs b rt.numTri := by
  rcases Nat.lt_or_ge a b with h | h
  · exact pairwise_getElem? hp (starts_getElem? rt a (by omega)) (starts_getElem? rt b hb) h
  · have : a = b := by omega
    subst this; exact Nat.le_refl _

theorem nxt_le_numTri (rt : RunTable τ) (hp : (rt.runs.map (·.start) ++ [rt.numTri]).Pairwise (· ≤ ·))
    {a : Nat} (ha : a ≤ rt.runs.length) : nxt rt.runs a rt.numTri ≤ rt.numTri := by
  have := nxt_mono rt hp ha (Nat.le_refl _)
  rwa [nxt_of_ge (Nat.le_refl _)] at this

/-- what the importer has written after runs `0..i-1` -/
structure ImpInv (rt : RunTable τ) (startID : Int) (nx : Nat) (i : Nat)
    (st : Array TriRef × RelMap τ) : Prop where
  size : st.1.size = rt.numTri
  dflt : ∀ t, nxt rt.runs i rt.numTri ≤ t → t < rt.numTri → st.1[t]? = some default
  done : ∀ k run, k < i → rt.runs[k]? = some run → ∀ t, nxt rt.runs k rt.numTri ≤ t →
    t < nxt rt.runs (k + 1) rt.numTri →
    st.1[t]? = some ⟨startID + (k : Nat), run.rel.originalID,
      if rt.faceID.isEmpty then -1 else rt.faceID.getD t 0, t⟩
  map : st.2 = (rt.runs.take i).zipIdx.map (fun rk =>
    (startID + (rk.2 : Nat), { rk.1.rel with hasNormals := rk.1.rel.hasNormals && decide (3 ≤ nx) }))

theorem impStep_inv (idT : τ) (rt : RunTable τ) (startID : Int) (nx : Nat)
    (ho : rt.isOriginal = false)
    (hp : (rt.runs.map (·.start) ++ [rt.numTri]).Pairwise (· ≤ ·))
    (i : Nat) (hi : i < rt.runs.length) (st : Array TriRef × RelMap τ)
    (inv : ImpInv rt startID nx i st) :
    ImpInv rt startID nx (i + 1)
      (impStep idT startID nx (ImportIn.ofExport rt) rt.runIndex st (i, (rt.runs[i]).rel.originalID)) := by
  have hlo : rt.runIndex.getD i 0 / 3 = nxt rt.runs i rt.numTri := by
    rw [runIndex_getD rt i (Nat.le_of_lt hi)]; omega
  have hhi : rt.runIndex.getD (i + 1) 0 / 3 = nxt rt.runs (i + 1) rt.numTri := by
    rw [runIndex_getD rt (i + 1) hi]; omega
  have hmono : nxt rt.runs i rt.numTri ≤ nxt rt.runs (i + 1) rt.numTri :=
    nxt_mono rt hp (Nat.le_succ i) hi
  have hle : nxt rt.runs (i + 1) rt.numTri ≤ rt.numTri := nxt_le_numTri rt hp hi
  obtain ⟨hsz, hspec⟩ := importRunTris_spec st.1 rt.faceID (startID + (i : Nat)) (rt.runs[i]).rel.originalID
    (nxt rt.runs i rt.numTri) (nxt rt.runs (i + 1) rt.numTri)
  have hne : (rt.runs.map (·.rel.transform)).isEmpty = false := by
    cases h : rt.runs with
    | nil => rw [h] at hi; simp at hi
    | cons a l => rfl
  have hrefs : (impStep idT startID nx (ImportIn.ofExport rt) rt.runIndex st
      (i, (rt.runs[i]).rel.originalID)).1 =
      importRunTris st.1 rt.faceID (startID + (i : Nat)) (rt.runs[i]).rel.originalID
        (nxt rt.runs i rt.numTri) (nxt rt.runs (i + 1) rt.numTri) := by
    simp only [impStep, ImportIn.ofExport, hlo, hhi]
  have hmap : (impStep idT startID nx (ImportIn.ofExport rt) rt.runIndex st
      (i, (rt.runs[i]).rel.originalID)).2 =
      RelMap.insert st.2 (startID + (i : Nat))
        { (rt.runs[i]).rel with hasNormals := (rt.runs[i]).rel.hasNormals && decide (3 ≤ nx) } := by
    simp only [impStep, ImportIn.ofExport, RunTable.runTransform, ho, Bool.false_eq_true, if_false, hne,
      RunTable.runFlags, getD_eq_getElem?_getD, getElem?_map, getElem?_eq_getElem hi, Option.map_some,
      Option.getD_some, relFlags_back, relFlags_normals]
  refine ⟨?_, ?_, ?_, ?_⟩
  · rw [hrefs, hsz]; exact inv.size
  · intro t h1 h2
    rw [hrefs, hspec t, if_neg (by omega)]
    exact inv.dflt t (by omega) h2
  · intro k run hk hrun t h1 h2
    rw [hrefs, hspec t]
    rcases Nat.lt_or_ge k i with hki | hki
    · have := nxt_mono rt hp (show k + 1 ≤ i by omega) (Nat.le_of_lt hi)
      rw [if_neg (by omega)]
      exact inv.done k run hki hrun t h1 h2
    · have e : k = i := by omega
      subst e
      rw [getElem?_eq_getElem hi] at hrun
      cases hrun
      rw [if_pos ⟨h1, h2, by rw [inv.size]; omega⟩]
  · rw [hmap, inv.map, RelMap.insert_eq_append_of_lt, take_add_one, getElem?_eq_getElem hi]
    · rw [Option.toList_some, zipIdx_append, map_append, length_take, Nat.min_eq_left (Nat.le_of_lt hi)]
      simp only [Nat.zero_add, zipIdx_cons, zipIdx_nil, map_cons, map_nil]
    · intro k' hk'
      simp only [RelMap.keys, map_map, mem_map, Function.comp] at hk'
      obtain ⟨rk, hrk, rfl⟩ := hk'
      have := snd_lt_of_mem_zipIdx hrk
      simp only [length_take] at this
      omega

theorem normRunIndex_ofExport (rt : RunTable τ) (hne : rt.runs ≠ []) :
    normRunIndex rt.runIndex rt.runOriginalID.length (3 * rt.numTri) = rt.runIndex := by
  have hl : rt.runs.length ≠ 0 := fun h => hne (length_eq_zero_iff.1 h)
  unfold normRunIndex
  have h1 : rt.runIndex.isEmpty = false := by simp [RunTable.runIndex]
  have h2 : rt.runIndex.length = rt.runs.length + 1 := by simp [RunTable.runIndex]
  have h3 : rt.runOriginalID.length = rt.runs.length := by simp [RunTable.runOriginalID]
  rw [h1, h2, h3]
  simp only [Bool.false_eq_true, if_false]
  rw [if_neg (by omega), if_neg (by omega)]

/-- the state of the importer after all runs of an exported (non-original) table -/
theorem importRuns_ofExport (idT : τ) (rt : RunTable τ) (startID : Int) (nx : Nat)
    (ho : rt.isOriginal = false) (hne : rt.runs ≠ [])
    (hp : (rt.runs.map (·.start) ++ [rt.numTri]).Pairwise (· ≤ ·)) :
    ∃ st, ImpInv rt startID nx rt.runs.length st ∧
      importRuns idT startID nx (ImportIn.ofExport rt) = (st.1.toList, st.2) := by
  refine ⟨_, ?_, importRuns_eq idT startID nx (ImportIn.ofExport rt)⟩
  have hemp : (ImportIn.ofExport rt).runOriginalID.isEmpty = false := by
    cases h : rt.runs with
    | nil => exact absurd h hne
    | cons a l => simp [ImportIn.ofExport, RunTable.runOriginalID, h]
  have hnorm : normRunIndex (ImportIn.ofExport rt).runIndex (ImportIn.ofExport rt).runOriginalID.length
      (3 * (ImportIn.ofExport rt).numTri) = rt.runIndex := normRunIndex_ofExport rt hne
  rw [hemp, hnorm]
  simp only [Bool.false_eq_true, if_false]
  have hl : ((ImportIn.ofExport rt).runOriginalID.zipIdx.map fun oi => (oi.2, oi.1)) =
      rt.runs.zipIdx.map (fun rk => (rk.2, rk.1.rel.originalID)) := by
    simp only [ImportIn.ofExport, RunTable.runOriginalID, zipIdx_map, map_map]
    rfl
  rw [hl, foldl_map]
  have := foldl_zipIdx_inv
    (fun st (rk : Run τ × Nat) => impStep idT startID nx (ImportIn.ofExport rt) rt.runIndex st
      (rk.2, rk.1.rel.originalID))
    (fun i st => ImpInv rt startID nx i st) rt.runs 0
    (Array.replicate (ImportIn.ofExport rt).numTri default, [])
    ⟨by simp [ImportIn.ofExport],
     fun t _ ht => by simp [ImportIn.ofExport, ht],
     fun k run hk => absurd hk (Nat.not_lt_zero k),
     by simp⟩
    (fun i hi st inv => by
      simp only [Nat.zero_add] at inv ⊢
      exact impStep_inv idT rt startID nx ho hp i hi st inv)
  simpa using this

/-! ## the exported table of a consistent state: every triangle's run -/

section roundtrip
variable (idT : τ) (refs : List TriRef) (m : RelMap τ)

theorem exportRuns_runs_ne_nil (o : Bool) (hid : ∀ r ∈ refs, r.meshID ≠ -1) (hne : refs ≠ []) :
    (exportRuns o idT refs m).runs ≠ [] := by
  intro h
  have := (exportRuns_starts o idT refs m hid).2
  rw [h] at this
  simp only [map_nil, nil_append, head?_cons, Option.some.injEq] at this
  exact hne (length_eq_zero_iff.1 this)

theorem exportRuns_nxt_zero (o : Bool) (hid : ∀ r ∈ refs, r.meshID ≠ -1) :
    nxt (exportRuns o idT refs m).runs 0 refs.length = 0 := by
  have h1 := (exportRuns_starts o idT refs m hid).2
  have h2 := starts_getElem? (exportRuns o idT refs m) 0 (Nat.zero_le _)
  rw [exportRuns_numTri] at h2
  rw [head?_eq_getElem?, h2] at h1
  exact Option.some.inj h1

/-- the run of the `t`-th exported triangle -/
theorem ref_run (hid : ∀ r ∈ refs, r.meshID ≠ -1) (hc : Consistent refs m) (t : Nat) (r : TriRef)
    (hr : (sortedOf false refs)[t]? = some r) :
    ∃ k run, (loopOf false idT refs m).1[k]? = some run ∧
      nxt (exportRuns false idT refs m).runs k refs.length ≤ t ∧
      t < nxt (exportRuns false idT refs m).runs (k + 1) refs.length ∧
      run.meshID = r.meshID ∧ run.rel.originalID = r.originalID ∧
      (exportRuns false idT refs m).runMeshID.idxOf r.meshID = k := by
  have htn : t < refs.length := by
    rw [← sortedOf_length false refs]; exact (List.getElem?_eq_some_iff.1 hr).1
  obtain ⟨k, hk, h1, h2⟩ := exists_block (fun k => nxt (exportRuns false idT refs m).runs k refs.length)
    (exportRuns false idT refs m).runs.length t
    (by simp only [exportRuns_nxt_zero idT refs m false hid]; exact Nat.zero_le _)
    (by simp only [nxt_of_ge (Nat.le_refl _)]; exact htn)
  have hkp : k < (loopOf false idT refs m).1.length := by
    rcases Nat.lt_or_ge k (loopOf false idT refs m).1.length with h | h
    · exact h
    · rw [exportRuns_nxt, nxt_of_ge h] at h1; omega
  have hrun : (loopOf false idT refs m).1[k]? = some (loopOf false idT refs m).1[k] := getElem?_eq_getElem hkp
  refine ⟨k, _, hrun, h1, h2, ?_⟩
  -- homogeneity
  have hcov : r.meshID = ((loopOf false idT refs m).1[k]).meshID := by
    rw [exportRuns_nxt] at h1 h2
    have hs : nxt (loopOf false idT refs m).1 k refs.length = ((loopOf false idT refs m).1[k]).start := by
      simp [nxt, hrun]
    exact (runsFrom_cover (Rel.dflt idT) (sortedOf false refs) 0 (-1) m).2 k _ t r hrun
      (by rw [hs] at h1; exact h1) (by rw [Nat.zero_add, sortedOf_length]; exact h2) (by simpa using hr)
  obtain ⟨r0, hr0, hm0, _, ho0⟩ := loop_run_spec idT refs m hid hc _ (getElem_mem hkp)
  refine ⟨hcov.symm, ?_, ?_⟩
  · rw [ho0]
    exact consistent_orig m (consistent_sortedOf refs m hc false) r0 (mem_of_getElem? hr0) r
      (mem_of_getElem? hr) (by rw [hm0, hcov])
  · have hmem : r.meshID ∈ (loopOf false idT refs m).1.map (·.meshID) :=
      mem_map.2 ⟨_, getElem_mem hkp, hcov.symm⟩
    rw [RunTable.runMeshID, exportRuns_runs, map_append, idxOf_append, if_pos hmem]
    have hnd := loop_meshIDs_nodup idT refs m hid hc
    have hk' : k < ((loopOf false idT refs m).1.map (·.meshID)).length := by simpa using hkp
    have := hnd.idxOf_getElem k hk'
    rw [getElem_map] at this
    rw [hcov]; exact this

end roundtrip

end MV.Export
