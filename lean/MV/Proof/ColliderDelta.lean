import MV.Model.Collider
/-!
Karras' δ function for the model of `PrefixLength` (collider.h:92-105): `prefixLength codes i j`
is the length of the common prefix of the 64-bit keys `code * 2^32 + index`, and therefore
satisfies `δ(i,k) = min (δ(i,j)) (δ(j,k))` and `δ(i,j) ≠ δ(j,k)` on sorted codes.
Core Lean only.
-/
namespace MV.Collider

/-! ## arithmetic of common prefixes -/

/-- keys agree on their top `L` bits of `W` -/
def agree (W L x y : Nat) : Prop := x / 2 ^ (W - L) = y / 2 ^ (W - L)

theorem agree_mid {W L x y z : Nat} (hxy : x ≤ y) (hyz : y ≤ z) (h : agree W L x z) :
    agree W L x y ∧ agree W L y z := by
  unfold agree at *
  have h1 : x / 2 ^ (W - L) ≤ y / 2 ^ (W - L) := Nat.div_le_div_right hxy
  have h2 : y / 2 ^ (W - L) ≤ z / 2 ^ (W - L) := Nat.div_le_div_right hyz
  omega

theorem agree_trans {W L x y z : Nat} (h1 : agree W L x y) (h2 : agree W L y z) :
    agree W L x z := by
  unfold agree at *; omega

/-- one more bit: prefix (L+1) is 2*prefix L or 2*prefix L + 1 -/
theorem prefix_succ (W L x : Nat) (hL : L < W) :
    x / 2 ^ (W - (L+1)) = 2 * (x / 2 ^ (W - L)) ∨
    x / 2 ^ (W - (L+1)) = 2 * (x / 2 ^ (W - L)) + 1 := by
  have : W - L = (W - (L+1)) + 1 := by omega
  rw [this, Nat.pow_succ, ← Nat.div_div_eq_div_mul]
  omega

/-- three sorted keys cannot have the same "first differing bit" for (x,y) and (y,z) -/
theorem no_equal_split {W L x y z : Nat} (hL : L < W) (hxy : x ≤ y) (hyz : y ≤ z)
    (a1 : agree W L x y) (d1 : ¬ agree W (L+1) x y)
    (a2 : agree W L y z) (d2 : ¬ agree W (L+1) y z) : False := by
  unfold agree at *
  have m1 : x / 2 ^ (W - (L+1)) ≤ y / 2 ^ (W - (L+1)) := Nat.div_le_div_right hxy
  have m2 : y / 2 ^ (W - (L+1)) ≤ z / 2 ^ (W - (L+1)) := Nat.div_le_div_right hyz
  rcases prefix_succ W L x hL with hx | hx <;> rcases prefix_succ W L y hL with hy | hy <;>
    rcases prefix_succ W L z hL with hz | hz <;> omega

/-! ## sorted codes and keys -/

/-- codes fit in 32 bits and are non-decreasing -/
def Sorted (codes : Array Nat) : Prop :=
  (∀ i, i < codes.size → codes.getD i 0 < 2 ^ 32) ∧
  ∀ i j, i ≤ j → j < codes.size → codes.getD i 0 ≤ codes.getD j 0

theorem sorted_of_sortedCodes {codes : Array Nat} (h : sortedCodes codes = true) :
    Sorted codes := by
  unfold sortedCodes at h
  rw [Bool.and_eq_true, List.all_eq_true, List.all_eq_true] at h
  obtain ⟨h1, h2⟩ := h
  have adj : ∀ i, i + 1 < codes.size → codes.getD i 0 ≤ codes.getD (i + 1) 0 := by
    intro i hi
    have := h2 i (List.mem_range.mpr (by omega))
    exact of_decide_eq_true this
  refine ⟨?_, ?_⟩
  · intro i hi
    have hm : codes[i] ∈ codes.toList := by simp
    have := of_decide_eq_true (h1 _ hm)
    simpa [Array.getD, hi] using this
  · intro i j
    induction j with
    | zero =>
      intro hij _
      have : i = 0 := by omega
      subst this; exact Nat.le_refl _
    | succ j ih =>
      intro hij hj
      by_cases hij' : i = j + 1
      · subst hij'; exact Nat.le_refl _
      · exact Nat.le_trans (ih (by omega) (by omega)) (adj j hj)

/-- the 64-bit key: Morton code in the high word, leaf index in the low word -/
def key (codes : Array Nat) (i : Nat) : Nat := codes.getD i 0 * 2 ^ 32 + i

theorem key_strictMono {codes : Array Nat} (hs : Sorted codes) {i j : Nat} (hij : i < j)
    (hj : j < codes.size) : key codes i < key codes j := by
  unfold key
  have := hs.2 i j (Nat.le_of_lt hij) hj
  omega

theorem key_mono {codes : Array Nat} (hs : Sorted codes) {i j : Nat} (hij : i ≤ j)
    (hj : j < codes.size) : key codes i ≤ key codes j := by
  unfold key
  have := hs.2 i j hij hj
  omega

/-! ## count-leading-zeros of a xor -/

theorem xor_eq_zero_iff {a b : Nat} : a ^^^ b = 0 ↔ a = b := by
  constructor
  · intro h
    apply Nat.eq_of_testBit_eq
    intro i
    have := congrArg (·.testBit i) h
    simp [Nat.testBit_xor] at this
    exact this
  · rintro rfl; exact Nat.xor_self a

theorem bitLen_le_iff (x k : Nat) : bitLen x ≤ k ↔ x < 2 ^ k := by
  unfold bitLen
  split
  · next h => subst h; simp [Nat.two_pow_pos]
  · next h =>
    rw [← Nat.log2_lt h]
    omega

theorem shiftRight_eq_iff (x y k : Nat) : x >>> k = y >>> k ↔ bitLen (x ^^^ y) ≤ k := by
  rw [bitLen_le_iff, ← xor_eq_zero_iff, ← Nat.shiftRight_xor_distrib, Nat.shiftRight_eq_div_pow,
    Nat.div_eq_zero_iff]
  have : 2 ^ k ≠ 0 := Nat.ne_of_gt (Nat.two_pow_pos k)
  constructor
  · rintro (h | h)
    · exact absurd h this
    · exact h
  · exact Or.inr

/-- clz32 (a xor b) is the number of leading bits (of 32) on which a and b agree: for every L ≤ 32,
 a and b agree on the top L bits iff L ≤ clz32 (a ^^^ b). (For a = b this gives 32.) -/
theorem clz32_xor_spec {a b : Nat} (ha : a < 2 ^ 32) (hb : b < 2 ^ 32) (L : Nat) (hL : L ≤ 32) :
    (a >>> (32 - L) = b >>> (32 - L)) ↔ L ≤ clz32 (a ^^^ b) := by
  rw [shiftRight_eq_iff]
  have hx : bitLen (a ^^^ b) ≤ 32 := (bitLen_le_iff _ _).mpr (Nat.xor_lt_two_pow ha hb)
  unfold clz32
  omega

theorem clz32_le (x : Nat) : clz32 x ≤ 32 := by unfold clz32; omega

theorem clz32_lt_of_ne_zero {x : Nat} (h : x ≠ 0) : clz32 x < 32 := by
  unfold clz32 bitLen
  rw [if_neg h]; omega

theorem clz32_zero : clz32 0 = 32 := by
  unfold clz32 bitLen; simp

/-- and the "largest L" form -/
theorem clz32_xor_largest {a b : Nat} (ha : a < 2 ^ 32) (hb : b < 2 ^ 32) (hab : a ≠ b) :
    clz32 (a ^^^ b) < 32 ∧
    a >>> (32 - clz32 (a ^^^ b)) = b >>> (32 - clz32 (a ^^^ b)) ∧
    a >>> (32 - (clz32 (a ^^^ b) + 1)) ≠ b >>> (32 - (clz32 (a ^^^ b) + 1)) := by
  have hlt : clz32 (a ^^^ b) < 32 := clz32_lt_of_ne_zero (fun h => hab (xor_eq_zero_iff.mp h))
  refine ⟨hlt, ?_, ?_⟩
  · exact (clz32_xor_spec ha hb _ (Nat.le_of_lt hlt)).mpr (Nat.le_refl _)
  · intro h
    have := (clz32_xor_spec ha hb _ hlt).mp h
    omega

/-! ## prefixes of keys -/

theorem key_div32 (c i : Nat) (hi : i < 2 ^ 32) : (c * 2 ^ 32 + i) / 2 ^ 32 = c := by
  rw [Nat.mul_comm, Nat.mul_add_div (Nat.two_pow_pos _), Nat.div_eq_of_lt hi]
  rfl

/-- the top `L ≤ 32` bits of a key are the top `L` bits of the code -/
theorem key_div_low (c i L : Nat) (hi : i < 2 ^ 32) (hL : L ≤ 32) :
    (c * 2 ^ 32 + i) / 2 ^ (64 - L) = c / 2 ^ (32 - L) := by
  have : 64 - L = 32 + (32 - L) := by omega
  rw [this, Nat.pow_add, ← Nat.div_div_eq_div_mul, key_div32 c i hi]

/-- the top `L ≥ 32` bits of a key are the code followed by the top `L - 32` bits of the index -/
theorem key_div_high (c i L : Nat) (hL : 32 ≤ L) (hL' : L ≤ 64) :
    (c * 2 ^ 32 + i) / 2 ^ (64 - L) = c * 2 ^ (L - 32) + i / 2 ^ (64 - L) := by
  have : (2 : Nat) ^ 32 = 2 ^ (64 - L) * 2 ^ (L - 32) := by
    rw [← Nat.pow_add]; congr 1; omega
  have h2 : c * 2 ^ 32 = 2 ^ (64 - L) * (c * 2 ^ (L - 32)) := by
    rw [this, Nat.mul_left_comm]
  rw [h2, Nat.mul_add_div (Nat.two_pow_pos _)]

/-- the arithmetic heart of `prefixLength_spec` -/
theorem agree_key_iff {ci cj a b : Nat} (hci : ci < 2 ^ 32) (hcj : cj < 2 ^ 32)
    (ha : a < 2 ^ 32) (hb : b < 2 ^ 32) (L : Nat) (hL : L ≤ 64) :
    agree 64 L (ci * 2 ^ 32 + a) (cj * 2 ^ 32 + b) ↔
      (L : Int) ≤ (if ci = cj then 32 + (clz32 (a ^^^ b) : Int) else (clz32 (ci ^^^ cj) : Int)) := by
  unfold agree
  by_cases h32 : L ≤ 32
  · rw [key_div_low ci a L ha h32, key_div_low cj b L hb h32, ← Nat.shiftRight_eq_div_pow,
      ← Nat.shiftRight_eq_div_pow, clz32_xor_spec hci hcj L h32]
    split
    · next h =>
      subst h
      rw [Nat.xor_self, clz32_zero]
      omega
    · omega
  · have h32' : 32 ≤ L := by omega
    rw [key_div_high ci a L h32' hL, key_div_high cj b L h32' hL]
    split
    · next h =>
      subst h
      have hs := clz32_xor_spec ha hb (L - 32) (by omega)
      have e : 32 - (L - 32) = 64 - L := by omega
      rw [e, Nat.shiftRight_eq_div_pow, Nat.shiftRight_eq_div_pow] at hs
      generalize ci * 2 ^ (L - 32) = t
      omega
    · next h =>
      have hc := clz32_le (ci ^^^ cj)
      constructor
      · intro heq
        exfalso
        apply h
        have h1 := key_div_high ci a L h32' hL
        have h2 := key_div_high cj b L h32' hL
        have e : (2 : Nat) ^ 32 = 2 ^ (64 - L) * 2 ^ (L - 32) := by
          rw [← Nat.pow_add]; congr 1; omega
        have k1 : (ci * 2 ^ 32 + a) / 2 ^ (64 - L) / 2 ^ (L - 32) = ci := by
          rw [Nat.div_div_eq_div_mul, ← e]; exact key_div32 ci a ha
        have k2 : (cj * 2 ^ 32 + b) / 2 ^ (64 - L) / 2 ^ (L - 32) = cj := by
          rw [Nat.div_div_eq_div_mul, ← e]; exact key_div32 cj b hb
        rw [h1] at k1
        rw [h2] at k2
        rw [← k1, ← k2, heq]
      · intro hle
        omega

/-! ## the model's `prefixLength` -/

theorem prefixLength_in {codes : Array Nat} {i j : Int} (hj0 : 0 ≤ j) (hj : j < codes.size) :
    prefixLength codes i j =
      if codes.getD i.toNat 0 = codes.getD j.toNat 0 then
        32 + (clz32 (i.toNat ^^^ j.toNat) : Int)
      else (clz32 (codes.getD i.toNat 0 ^^^ codes.getD j.toNat 0) : Int) := by
  unfold prefixLength code
  rw [if_neg (by omega)]

/-- the model's PrefixLength is the common-prefix length of the 64-bit keys -/
theorem prefixLength_spec {codes : Array Nat} (hs : Sorted codes) (hn : codes.size < 2 ^ 32)
    {i j : Int} (hi0 : 0 ≤ i) (hi : i < codes.size) (hj0 : 0 ≤ j) (hj : j < codes.size)
    (L : Nat) (hL : L ≤ 64) :
    ((L : Int) ≤ prefixLength codes i j) ↔ agree 64 L (key codes i.toNat) (key codes j.toNat) := by
  have hi' : i.toNat < codes.size := by omega
  have hj' : j.toNat < codes.size := by omega
  rw [prefixLength_in hj0 hj]
  unfold key
  exact (agree_key_iff (hs.1 _ hi') (hs.1 _ hj') (by omega) (by omega) L hL).symm

theorem prefixLength_out {codes : Array Nat} {i j : Int} (hj : j < 0 ∨ (codes.size : Int) ≤ j) :
    prefixLength codes i j = -1 := by
  unfold prefixLength
  rw [if_pos (by omega)]

theorem prefixLength_self {codes : Array Nat} {i : Int} (hi0 : 0 ≤ i) (hi : i < codes.size) :
    prefixLength codes i i = 64 := by
  rw [prefixLength_in hi0 hi, if_pos rfl, Nat.xor_self, clz32_zero]
  rfl

/-- in range the prefix length lies in `[0, 64]` -/
theorem prefixLength_bounds {codes : Array Nat} {i j : Int} (hj0 : 0 ≤ j) (hj : j < codes.size) :
    0 ≤ prefixLength codes i j ∧ prefixLength codes i j ≤ 64 := by
  rw [prefixLength_in hj0 hj]
  have h1 := clz32_le (i.toNat ^^^ j.toNat)
  have h2 := clz32_le (codes.getD i.toNat 0 ^^^ codes.getD j.toNat 0)
  split <;> omega

set_option linter.unusedVariables false in
theorem prefixLength_range {codes : Array Nat} (hs : Sorted codes) (hn : codes.size < 2 ^ 32)
    {i j : Int} (hi0 : 0 ≤ i) (hi : i < codes.size) (hj0 : 0 ≤ j) (hj : j < codes.size) (hij : i ≠ j) :
    0 ≤ prefixLength codes i j ∧ prefixLength codes i j ≤ 63 := by
  rw [prefixLength_in hj0 hj]
  split
  · have : i.toNat ^^^ j.toNat ≠ 0 := fun h => hij (by have := xor_eq_zero_iff.mp h; omega)
    have := clz32_lt_of_ne_zero this
    omega
  · next h =>
    have := clz32_lt_of_ne_zero (fun h' => h (xor_eq_zero_iff.mp h'))
    omega

theorem prefixLength_symm {codes : Array Nat} {i j : Int} (hi0 : 0 ≤ i) (hi : i < codes.size)
    (hj0 : 0 ≤ j) (hj : j < codes.size) : prefixLength codes i j = prefixLength codes j i := by
  rw [prefixLength_in hj0 hj, prefixLength_in hi0 hi, Nat.xor_comm j.toNat,
    Nat.xor_comm (codes.getD j.toNat 0)]
  by_cases h : codes.getD i.toNat 0 = codes.getD j.toNat 0
  · rw [if_pos h, if_pos h.symm]
  · rw [if_neg h, if_neg (fun h' => h h'.symm)]

/-- Karras' δ(i,k) = min(δ(i,j), δ(j,k)) for i ≤ j ≤ k -/
theorem delta_min {codes : Array Nat} (hs : Sorted codes) (hn : codes.size < 2 ^ 32)
    {i j k : Int} (hi0 : 0 ≤ i) (hij : i ≤ j) (hjk : j ≤ k) (hk : k < codes.size) :
    prefixLength codes i k = min (prefixLength codes i j) (prefixLength codes j k) := by
  have hj0 : 0 ≤ j := by omega
  have hk0 : 0 ≤ k := by omega
  have hi : i < codes.size := by omega
  have hj : j < codes.size := by omega
  have kij : key codes i.toNat ≤ key codes j.toNat := key_mono hs (by omega) (by omega)
  have kjk : key codes j.toNat ≤ key codes k.toNat := key_mono hs (by omega) (by omega)
  have key : ∀ L : Nat, L ≤ 64 → ((L : Int) ≤ prefixLength codes i k ↔
      ((L : Int) ≤ prefixLength codes i j ∧ (L : Int) ≤ prefixLength codes j k)) := by
    intro L hL
    rw [prefixLength_spec hs hn hi0 hi hk0 hk L hL, prefixLength_spec hs hn hi0 hi hj0 hj L hL,
      prefixLength_spec hs hn hj0 hj hk0 hk L hL]
    exact ⟨agree_mid kij kjk, fun h => agree_trans h.1 h.2⟩
  have b1 := prefixLength_bounds (codes := codes) (i := i) hk0 hk
  have b2 := prefixLength_bounds (codes := codes) (i := i) hj0 hj
  have b3 := prefixLength_bounds (codes := codes) (i := j) hk0 hk
  have e1 := key (prefixLength codes i k).toNat (by omega)
  have e2 := key (min (prefixLength codes i j) (prefixLength codes j k)).toNat (by omega)
  omega

/-- for i < j < k the two adjacent prefix lengths differ -/
theorem delta_ne {codes : Array Nat} (hs : Sorted codes) (hn : codes.size < 2 ^ 32)
    {i j k : Int} (hi0 : 0 ≤ i) (hij : i < j) (hjk : j < k) (hk : k < codes.size) :
    prefixLength codes i j ≠ prefixLength codes j k := by
  intro heq
  have hj0 : 0 ≤ j := by omega
  have hk0 : 0 ≤ k := by omega
  have hi : i < codes.size := by omega
  have hj : j < codes.size := by omega
  have kij : key codes i.toNat ≤ key codes j.toNat := key_mono hs (by omega) (by omega)
  have kjk : key codes j.toNat ≤ key codes k.toNat := key_mono hs (by omega) (by omega)
  have r1 := prefixLength_range hs hn hi0 hi hj0 hj (by omega)
  have r2 := prefixLength_range hs hn hj0 hj hk0 hk (by omega)
  have hL : (prefixLength codes i j).toNat < 64 := by omega
  have a1 := (prefixLength_spec hs hn hi0 hi hj0 hj (prefixLength codes i j).toNat
    (by omega)).mp (by omega)
  have a2 := (prefixLength_spec hs hn hj0 hj hk0 hk (prefixLength codes i j).toNat
    (by omega)).mp (by omega)
  have d1 : ¬ agree 64 ((prefixLength codes i j).toNat + 1) (key codes i.toNat)
      (key codes j.toNat) := fun h => by
    have := (prefixLength_spec hs hn hi0 hi hj0 hj ((prefixLength codes i j).toNat + 1)
      (by omega)).mpr h
    omega
  have d2 : ¬ agree 64 ((prefixLength codes i j).toNat + 1) (key codes j.toNat)
      (key codes k.toNat) := fun h => by
    have := (prefixLength_spec hs hn hj0 hj hk0 hk ((prefixLength codes i j).toNat + 1)
      (by omega)).mpr h
    omega
  exact no_equal_split hL kij kjk a1 d1 a2 d2

end MV.Collider
