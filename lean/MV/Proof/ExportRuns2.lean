import MV.Proof.ExportRuns
import MV.Proof.ExportIds
/-! helper lemmas for `runs_sorted` (C07): the run table of a consistent, non-original export -/
namespace MV.Export
open List

variable {τ : Type}

theorem pairwise_getElem? {α} {R : α → α → Prop} {l : List α} (h : l.Pairwise R) {i j : Nat} {a b : α}
    (hi : l[i]? = some a) (hj : l[j]? = some b) (hij : i < j) : R a b := by
  obtain ⟨hi', rfl⟩ := List.getElem?_eq_some_iff.1 hi
  obtain ⟨hj', rfl⟩ := List.getElem?_eq_some_iff.1 hj
  exact pairwise_iff_getElem.1 h i j hi' hj' hij

/-- consecutive `nxt` values increase strictly over the existing runs -/
theorem nxt_strict {runs : List (Run τ)} {e : Nat} (hp : runs.Pairwise (fun a b => a.start < b.start))
    (hb : ∀ run ∈ runs, run.start < e) {k : Nat} (hk : k < runs.length) :
    nxt runs k e < nxt runs (k + 1) e := by
  have e1 : nxt runs k e = runs[k].start := by simp [nxt, getElem?_eq_getElem hk]
  rw [e1]
  rcases Nat.lt_or_ge (k + 1) runs.length with h | h
  · have e2 : nxt runs (k + 1) e = runs[k + 1].start := by simp [nxt, getElem?_eq_getElem h]
    rw [e2]
    exact pairwise_iff_getElem.1 hp k (k + 1) hk h (Nat.lt_succ_self k)
  · have e2 : nxt runs (k + 1) e = e := by simp [nxt, getElem?_eq_none h]
    rw [e2]
    exact hb _ (getElem_mem hk)

theorem nxt_of_ge {runs : List (Run τ)} {e k : Nat} (hk : runs.length ≤ k) : nxt runs k e = e := by
  simp [nxt, getElem?_eq_none hk]

/-! ## facts about the sorted list of a consistent state -/

section consistent
variable (idT : τ) (refs : List TriRef) (m : RelMap τ)

theorem consistent_sortedOf (hc : Consistent refs m) (o : Bool) : Consistent (sortedOf o refs) m :=
  fun r hr => hc r (sortedOf_mem.1 hr)

theorem consistent_orig {rs : List TriRef} (hc : Consistent rs m) :
    ∀ a ∈ rs, ∀ b ∈ rs, a.meshID = b.meshID → a.originalID = b.originalID := by
  intro a ha b hb e
  obtain ⟨ra, h1, h2⟩ := hc a ha
  obtain ⟨rb, h3, h4⟩ := hc b hb
  rw [e, h3] at h1
  cases h1
  rw [← h2, ← h4]

theorem sortedOf_grouped (hid : ∀ r ∈ refs, r.meshID ≠ -1) (hc : Consistent refs m) :
    Grouped (-1 :: (sortedOf false refs).map (·.meshID)) := by
  refine ⟨grouped_of_sorted (sortIdx_sorted refs) (consistent_orig m (consistent_sortedOf refs m hc false)), ?_⟩
  intro h
  obtain ⟨r, hr, e⟩ := mem_map.1 h
  exact absurd e (hid r (sortedOf_mem.1 hr))

/-- every non-empty run: the triangle that opens it, its relation -/
theorem loop_run_spec (hid : ∀ r ∈ refs, r.meshID ≠ -1) (hc : Consistent refs m) :
    ∀ run ∈ (loopOf false idT refs m).1, ∃ r, (sortedOf false refs)[run.start]? = some r ∧
      r.meshID = run.meshID ∧ RelMap.lookup m run.meshID = some run.rel ∧
      run.rel.originalID = r.originalID := by
  intro run hr
  obtain ⟨_, _, r, hr', e⟩ := (runsFrom_start (Rel.dflt idT) (sortedOf false refs) 0 (-1) m).1 run hr
  obtain ⟨_, _, h3⟩ := runsFrom_grouped (Rel.dflt idT) (sortedOf false refs) 0 (-1) m
    (sortedOf_grouped refs m hid hc)
  obtain ⟨rel, hl, ho⟩ := hc r (sortedOf_mem.1 (mem_of_getElem? hr'))
  have hrel : run.rel = rel := by rw [h3 run hr, ← e, hl]; rfl
  refine ⟨r, by simpa using hr', e, ?_, ?_⟩
  · rw [hrel, ← e, hl]
  · rw [hrel, ho]

theorem loop_meshIDs_nodup (hid : ∀ r ∈ refs, r.meshID ≠ -1) (hc : Consistent refs m) :
    ((loopOf false idT refs m).1.map (·.meshID)).Nodup :=
  (runsFrom_grouped (Rel.dflt idT) (sortedOf false refs) 0 (-1) m (sortedOf_grouped refs m hid hc)).2.1

theorem loop_mem_meshIDs (o : Bool) (hid : ∀ r ∈ refs, r.meshID ≠ -1) (id : Int) :
    id ∈ (loopOf o idT refs m).1.map (·.meshID) ↔ id ∈ refs.map (·.meshID) := by
  constructor
  · intro h
    obtain ⟨run, hr, rfl⟩ := mem_map.1 h
    have := runsFrom_meshID_mem (Rel.dflt idT) (sortedOf o refs) 0 (-1) m run hr
    obtain ⟨r, hr', e⟩ := mem_map.1 this
    exact mem_map.2 ⟨r, sortedOf_mem.1 hr', e⟩
  · intro h
    obtain ⟨r, hr, rfl⟩ := mem_map.1 h
    rcases runsFrom_mem_meshID (Rel.dflt idT) (sortedOf o refs) 0 (-1) m r (sortedOf_mem.2 hr) with e | e
    · exact absurd e (hid r hr)
    · exact e

theorem loop_pairwise_key (hid : ∀ r ∈ refs, r.meshID ≠ -1) (hc : Consistent refs m) :
    (loopOf false idT refs m).1.Pairwise RunKeyLT := by
  have h2 := (runsFrom_start (Rel.dflt idT) (sortedOf false refs) 0 (-1) m).2
  have hn := pairwise_map.1 (loop_meshIDs_nodup idT refs m hid hc)
  refine (h2.and hn).imp_of_mem ?_
  intro a b ha hb ⟨hlt, hne⟩
  obtain ⟨ra, ha1, ha2, _, ha4⟩ := loop_run_spec idT refs m hid hc a ha
  obtain ⟨rb, hb1, hb2, _, hb4⟩ := loop_run_spec idT refs m hid hc b hb
  have hle := (runLE_iff _ _).1 (pairwise_getElem? (sortIdx_sorted refs) ha1 hb1 hlt)
  unfold RunKeyLT
  rw [ha4, hb4, ← ha2, ← hb2]
  rw [← ha2, ← hb2] at hne
  omega

/-- the trailing runs are the unused relations -/
theorem loop_snd (o : Bool) (hid : ∀ r ∈ refs, r.meshID ≠ -1) :
    (loopOf o idT refs m).2 = m.filter (fun kv => !(refs.map (·.meshID)).contains kv.1) := by
  rw [loopOf, runsFrom_snd]
  apply filter_congr
  intro kv _
  have := loop_mem_meshIDs idT refs m o hid kv.1
  rw [Bool.eq_iff_iff]
  simp only [Bool.not_eq_true', ← Bool.not_eq_true, contains_iff_mem]
  exact not_congr this

end consistent

end MV.Export
