/-
Lemmas for property C18, part 1: the exact (`no rounding`) instance of the `Scalar` interface at a
linearly ordered field, the Kahan loop, the signed-tetrahedron sum and its translation invariance
on closed meshes.
-/
import MV.Model.Measure
import MV.Proof.Mesh
import Mathlib.Algebra.Order.Field.Basic
import Mathlib.Algebra.BigOperators.Group.List.Basic
import Mathlib.Tactic.Ring
import Mathlib.Tactic.Linarith
import Mathlib.Tactic.FieldSimp
import Mathlib.Data.List.Nodup

namespace MV.Measure
open MV.Bool3 MV.Mesh

/-- `Scalar` at a linearly ordered field: exact arithmetic, total division (`x / 0 = 0` as in
Mathlib), comparisons decided by the order, everything finite. -/
@[reducible] def fieldScalar (F : Type) [Field F] [LinearOrder F] : Scalar F where
  zero := 0
  add a b := a + b
  sub a b := a - b
  mul a b := a * b
  div a b := a / b
  neg a := -a
  abs a := |a|
  lt a b := decide (a < b)
  beq a b := decide (a = b)
  isFinite _ := true

namespace Exact
scoped instance (F : Type) [Field F] [LinearOrder F] : Scalar F := fieldScalar F
end Exact
open Exact

section Field
variable {F : Type} [Field F] [LinearOrder F] [IsStrictOrderedRing F]

/-- the triple product `a · (b × c)` = determinant of the three positions -/
def det3 (a b c : V3 F) : F :=
  a.x * (b.y * c.z - b.z * c.y) + a.y * (b.z * c.x - b.x * c.z) + a.z * (b.x * c.y - b.y * c.x)

/-- squared length -/
def normSq (a : V3 F) : F := a.x * a.x + a.y * a.y + a.z * a.z

omit [IsStrictOrderedRing F] in
theorem dot_eq (a b : V3 F) : dot a b = a.x * b.x + a.y * b.y + a.z * b.z := by
  show ((0 : F) + a.x * b.x) + a.y * b.y + a.z * b.z = _
  ring

omit [IsStrictOrderedRing F] in
theorem dot_self_eq (a : V3 F) : dot a a = normSq a := by rw [dot_eq]; rfl

omit [IsStrictOrderedRing F] in
/-- `dot(cross(b - a, c - a), a)` is the determinant of `(a, b, c)` -/
theorem dot_cross_sub (a b c : V3 F) : dot (cross (vsub b a) (vsub c a)) a = det3 a b c := by
  rw [dot_eq]
  show ((b.y - a.y) * (c.z - a.z) - (b.z - a.z) * (c.y - a.y)) * a.x +
      ((b.z - a.z) * (c.x - a.x) - (b.x - a.x) * (c.z - a.z)) * a.y +
      ((b.x - a.x) * (c.y - a.y) - (b.y - a.y) * (c.x - a.x)) * a.z = det3 a b c
  unfold det3; ring

/-! ## Kahan summation without rounding -/

omit [IsStrictOrderedRing F] in
theorem kahan_foldl (xs : List F) (v c : F) :
    xs.foldl kahanStep (v, c) = (v + xs.sum, c) := by
  induction xs generalizing v c with
  | nil => simp
  | cons x xs ih =>
    rw [List.foldl_cons]
    have : kahanStep (v, c) x = (v + x, c) := by
      show (v + x, c + ((v - (v + x)) + x)) = (v + x, c)
      congr 1; ring
    rw [this, ih, List.sum_cons]; congr 1; ring

omit [IsStrictOrderedRing F] in
/-- without rounding the compensated sum is the plain sum -/
theorem kahan_eq_sum (xs : List F) : kahan xs = xs.sum := by
  unfold kahan
  show (xs.foldl kahanStep ((0 : F), (0 : F))).1 + (xs.foldl kahanStep ((0 : F), (0 : F))).2 = _
  rw [kahan_foldl]; simp

/-! ## the triangle list of a `KMesh` -/

/-- triangle `t` of the halfedge arrays: the start vertices of halfedges `3t, 3t+1, 3t+2` -/
def meshTri (m : KMesh F) (t : Nat) : Tri := (m.startOf (3 * t), m.startOf (3 * t + 1), m.startOf (3 * t + 2))

def meshTris (m : KMesh F) : List Tri := (List.range (numTri m)).map (meshTri m)

/-- six times the signed volume: the sum of the determinants of the triangles' corner positions -/
def vol6 (pos : Nat → V3 F) (ts : List Tri) : F :=
  (ts.map fun t => det3 (pos t.1) (pos t.2.1) (pos t.2.2)).sum

omit [IsStrictOrderedRing F] in
theorem triVolume_eq [MConst F] (m : KMesh F) (t : Nat) :
    triVolume m t = det3 (m.pos (meshTri m t).1) (m.pos (meshTri m t).2.1) (m.pos (meshTri m t).2.2)
      / (MConst.six : F) := by
  unfold triVolume
  show dot (cross (vsub (corner m t 1) (corner m t 0)) (vsub (corner m t 2) (corner m t 0))) (corner m t 0)
    / (MConst.six : F) = _
  rw [dot_cross_sub]; rfl

omit [LinearOrder F] [IsStrictOrderedRing F] in
theorem sum_map_div (l : List Nat) (f : Nat → F) (c : F) :
    (l.map fun t => f t / c).sum = (l.map f).sum / c := by
  induction l with
  | nil => simp
  | cons a l ih => simp only [List.map_cons, List.sum_cons, ih]; ring

omit [IsStrictOrderedRing F] in
/-- **volume_def** in the form used below: `Volume()` is the sum of the corner determinants over six -/
theorem volume_eq_vol6 [MConst F] (m : KMesh F) :
    volume m = vol6 m.pos (meshTris m) / (MConst.six : F) := by
  unfold volume
  split
  · next h =>
    have h0 : numTri m = 0 := by simpa using h
    unfold vol6 meshTris; rw [h0]; simp
    rfl
  · rw [kahan_eq_sum]
    have : (List.range (numTri m)).map (triVolume m) =
        (List.range (numTri m)).map (fun t =>
          det3 (m.pos (meshTri m t).1) (m.pos (meshTri m t).2.1) (m.pos (meshTri m t).2.2) / (MConst.six : F)) :=
      List.map_congr_left fun t _ => triVolume_eq m t
    rw [this, sum_map_div]
    unfold vol6 meshTris
    rw [List.map_map]; rfl

/-! ## translation invariance on closed meshes -/

/-- `d · (u × v)` -/
def dcross (d u v : V3 F) : F :=
  d.x * (u.y * v.z - u.z * v.y) + d.y * (u.z * v.x - u.x * v.z) + d.z * (u.x * v.y - u.y * v.x)

omit [LinearOrder F] [IsStrictOrderedRing F] in
theorem dcross_antisymm (d u v : V3 F) : dcross d v u = -dcross d u v := by unfold dcross; ring

def vaddF (a d : V3 F) : V3 F := ⟨a.x + d.x, a.y + d.y, a.z + d.z⟩

omit [LinearOrder F] [IsStrictOrderedRing F] in
/-- multilinearity: translating the three corners by `d` changes the determinant by
`d · (a×b + b×c + c×a)` -/
theorem det3_translate (a b c d : V3 F) :
    det3 (vaddF a d) (vaddF b d) (vaddF c d) =
      det3 a b c + (dcross d a b + dcross d b c + dcross d c a) := by
  unfold det3 dcross vaddF; ring

omit [LinearOrder F] [IsStrictOrderedRing F] in
/-- the correction terms of all triangles are a sum over the directed edges -/
theorem sum_tri_edges (g : Nat × Nat → F) (ts : List Tri) :
    (ts.map fun t => g (t.1, t.2.1) + g (t.2.1, t.2.2) + g (t.2.2, t.1)).sum =
      ((dirEdges ts).map g).sum := by
  induction ts with
  | nil => simp [dirEdges]
  | cons t ts ih =>
    have : dirEdges (t :: ts) = triEdges t ++ dirEdges ts := by simp [dirEdges]
    rw [this, List.map_append, List.sum_append, List.map_cons, List.sum_cons, ih]
    simp [triEdges]; ring

/-- a closed oriented mesh: the directed edges are a permutation of their own reversals -/
theorem dirEdges_perm_swap {ts : List Tri} (h : ClosedOriented ts) :
    ((dirEdges ts).map Prod.swap).Perm (dirEdges ts) := by
  obtain ⟨_, hnd, hrev⟩ := h
  apply (List.perm_ext_iff_of_nodup (List.Nodup.map Prod.swap_injective hnd) hnd).2
  intro e
  constructor
  · intro he
    obtain ⟨x, hx, rfl⟩ := List.mem_map.1 he
    exact hrev x.1 x.2 hx
  · intro he
    exact List.mem_map.2 ⟨e.swap, hrev e.1 e.2 he, by simp⟩

/-- the sum of an antisymmetric edge function over the directed edges of a closed mesh vanishes -/
theorem sum_antisymm_closed {ts : List Tri} (h : ClosedOriented ts) (g : Nat × Nat → F)
    (hg : ∀ u v, g (v, u) = -g (u, v)) : ((dirEdges ts).map g).sum = 0 := by
  have hp := (dirEdges_perm_swap h).map g
  have h1 : (((dirEdges ts).map Prod.swap).map g).sum = ((dirEdges ts).map g).sum := hp.sum_eq
  have h2 : (((dirEdges ts).map Prod.swap).map g) = (dirEdges ts).map (fun e => -g e) := by
    rw [List.map_map]; apply List.map_congr_left; intro e _; exact hg e.1 e.2
  have h3 : ((dirEdges ts).map (fun e => -g e)).sum = -((dirEdges ts).map g).sum := by
    induction (dirEdges ts) with
    | nil => simp
    | cons a l ih => simp only [List.map_cons, List.sum_cons, ih]; ring
  rw [h2, h3] at h1
  linarith

omit [LinearOrder F] [IsStrictOrderedRing F] in
theorem sum_map_add' {ι : Type} (l : List ι) (f g : ι → F) :
    (l.map fun t => f t + g t).sum = (l.map f).sum + (l.map g).sum := by
  induction l with
  | nil => simp
  | cons a l ih => simp only [List.map_cons, List.sum_cons, ih]; ring

/-- **translation invariance of the signed-tetrahedron sum** on closed oriented meshes -/
theorem vol6_translate {ts : List Tri} (h : ClosedOriented ts) (pos : Nat → V3 F) (d : V3 F) :
    vol6 (fun v => vaddF (pos v) d) ts = vol6 pos ts := by
  unfold vol6
  let g : Nat × Nat → F := fun e => dcross d (pos e.1) (pos e.2)
  have h1 : (ts.map fun t => det3 (vaddF (pos t.1) d) (vaddF (pos t.2.1) d) (vaddF (pos t.2.2) d)) =
      ts.map fun t => det3 (pos t.1) (pos t.2.1) (pos t.2.2) +
        (g (t.1, t.2.1) + g (t.2.1, t.2.2) + g (t.2.2, t.1)) :=
    List.map_congr_left fun t _ => det3_translate _ _ _ _
  rw [h1, sum_map_add', sum_tri_edges g ts,
    sum_antisymm_closed h g (fun u v => dcross_antisymm d (pos u) (pos v)), add_zero]

end Field
end MV.Measure
