import MV.Model.EarClip
/-!
Lemmas for the C10 theorems (`MV/Props/C10.lean`).  Core Lean only.
-/
namespace MV.EarClip

/-! ## algebra -/

theorem ind_swap (x y a b : Nat) : ind x y a b + ind y x a b = 0 := by
  unfold ind; split <;> split <;> split <;> split <;> omega

theorem ind_self (x a b : Nat) : ind x x a b = 0 := by
  unfold ind; split <;> split <;> omega

theorem ind_anti (x y a b : Nat) : ind x y b a = - ind x y a b := by
  unfold ind; split <;> split <;> omega

@[simp] theorem net_nil (a b : Nat) : net [] a b = 0 := by simp [net]

theorem net_cons (x y : Nat) (es : List Edge) (a b : Nat) :
    net ((x, y) :: es) a b = ind x y a b + net es a b := by
  unfold net ind
  simp only [List.count_cons, beq_iff_eq, Prod.mk.injEq]
  split <;> split <;> omega

theorem net_append (es fs : List Edge) (a b : Nat) :
    net (es ++ fs) a b = net es a b + net fs a b := by
  unfold net; simp only [List.count_append]; omega

theorem net_self (es : List Edge) (a : Nat) : net es a a = 0 := by unfold net; omega

theorem net_anti (es : List Edge) (a b : Nat) : net es b a = - net es a b := by unfold net; omega

theorem net_perm {es fs : List Edge} (h : es.Perm fs) (a b : Nat) : net es a b = net fs a b := by
  unfold net; rw [h.count_eq, h.count_eq]

/-- sum of `g 0 … g (n-1)` -/
def sumTo : Nat → (Nat → Int) → Int
  | 0, _ => 0
  | n + 1, g => sumTo n g + g n

theorem sumTo_congr {n : Nat} {g g' : Nat → Int} (h : ∀ v, v < n → g v = g' v) :
    sumTo n g = sumTo n g' := by
  induction n with
  | zero => rfl
  | succ n ih =>
    simp only [sumTo]
    rw [ih (fun v hv => h v (by omega)), h n (by omega)]

theorem sumTo_add (n : Nat) (g g' : Nat → Int) :
    sumTo n (fun v => g v + g' v) = sumTo n g + sumTo n g' := by
  induction n with
  | zero => rfl
  | succ n ih => simp only [sumTo, ih]; omega

theorem sumTo_zero (n : Nat) : sumTo n (fun _ => 0) = 0 := by
  induction n with
  | zero => rfl
  | succ n ih => simp only [sumTo, ih]; omega

theorem sumTo_single (n p : Nat) (x : Int) :
    sumTo n (fun v => if v = p then x else 0) = if p < n then x else 0 := by
  induction n with
  | zero => simp [sumTo]
  | succ n ih =>
    simp only [sumTo, ih]
    by_cases h1 : p < n
    · have : n ≠ p := by omega
      simp [h1, this]; omega
    · by_cases h2 : n = p
      · subst h2; simp
      · have : ¬ p < n + 1 := by omega
        simp [h1, h2, this]

theorem net_map_range (n : Nat) (live : Nat → Bool) (f : Nat → Edge) (a b : Nat) :
    net (((List.range n).filter live).map f) a b =
      sumTo n (fun v => if live v then ind (f v).1 (f v).2 a b else 0) := by
  induction n with
  | zero => simp [sumTo]
  | succ n ih =>
    rw [List.range_succ, List.filter_append, List.map_append, net_append, ih]
    simp only [sumTo]
    cases h : live n
    · simp [h]
    · simp only [h, List.filter_cons_of_pos, List.filter_nil, List.map_cons, List.map_nil, if_true]
      rw [show f n = ((f n).1, (f n).2) from rfl, net_cons]; simp


/-! ## array accessors -/

theorem getV_set (vs : Array Vert) (i j : Nat) (x : Vert) :
    getV (vs.setIfInBounds i x) j = if j = i ∧ i < vs.size then x else getV vs j := by
  unfold getV
  simp only [Array.getD_eq_getD_getElem?, Array.getElem?_setIfInBounds]
  by_cases h : i = j
  · subst h
    by_cases h2 : i < vs.size
    · simp [h2]
    · simp [h2]
  · have : ¬ j = i := fun e => h e.symm
    simp [h, this]

theorem getV_push (vs : Array Vert) (j : Nat) (x : Vert) :
    getV (vs.push x) j = if j = vs.size then x else getV vs j := by
  unfold getV
  simp only [Array.getD_eq_getD_getElem?, Array.getElem?_push]
  split <;> simp

theorem getV_ge (vs : Array Vert) (j : Nat) (h : vs.size ≤ j) : getV vs j = ⟨0, 0, 0⟩ := by
  unfold getV
  simp [Array.getD_eq_getD_getElem?, Array.getElem?_eq_none h]

@[simp] theorem size_setLeft (vs : Array Vert) (i x : Nat) : (setLeft vs i x).size = vs.size := by
  simp [setLeft]
@[simp] theorem size_setRight (vs : Array Vert) (i x : Nat) : (setRight vs i x).size = vs.size := by
  simp [setRight]
@[simp] theorem size_linkV (vs : Array Vert) (l r : Nat) : (linkV vs l r).size = vs.size := by
  simp [linkV]

theorem left_setLeft (vs : Array Vert) (i x j : Nat) :
    (getV (setLeft vs i x) j).left = if j = i ∧ i < vs.size then x else (getV vs j).left := by
  simp only [setLeft, getV_set]; split <;> rfl
theorem right_setLeft (vs : Array Vert) (i x j : Nat) :
    (getV (setLeft vs i x) j).right = (getV vs j).right := by
  simp only [setLeft, getV_set]; split
  · next h => rw [h.1]
  · rfl
theorem mesh_setLeft (vs : Array Vert) (i x j : Nat) :
    (getV (setLeft vs i x) j).meshIdx = (getV vs j).meshIdx := by
  simp only [setLeft, getV_set]; split
  · next h => rw [h.1]
  · rfl
theorem right_setRight (vs : Array Vert) (i x j : Nat) :
    (getV (setRight vs i x) j).right = if j = i ∧ i < vs.size then x else (getV vs j).right := by
  simp only [setRight, getV_set]; split <;> rfl
theorem left_setRight (vs : Array Vert) (i x j : Nat) :
    (getV (setRight vs i x) j).left = (getV vs j).left := by
  simp only [setRight, getV_set]; split
  · next h => rw [h.1]
  · rfl
theorem mesh_setRight (vs : Array Vert) (i x j : Nat) :
    (getV (setRight vs i x) j).meshIdx = (getV vs j).meshIdx := by
  simp only [setRight, getV_set]; split
  · next h => rw [h.1]
  · rfl

theorem left_linkV (vs : Array Vert) (l r j : Nat) :
    (getV (linkV vs l r) j).left = if j = r ∧ r < vs.size then l else (getV vs j).left := by
  simp only [linkV, left_setLeft, left_setRight, size_setRight]
theorem right_linkV (vs : Array Vert) (l r j : Nat) :
    (getV (linkV vs l r) j).right = if j = l ∧ l < vs.size then r else (getV vs j).right := by
  simp only [linkV, right_setLeft, right_setRight]
theorem mesh_linkV (vs : Array Vert) (l r j : Nat) :
    (getV (linkV vs l r) j).meshIdx = (getV vs j).meshIdx := by
  simp only [linkV, mesh_setLeft, mesh_setRight]

/-! ## `clipEar` in terms of the pointer functions -/

theorem clipEar_n (s : State) (e : Nat) : (clipEar s e).n = s.n := by
  unfold clipEar State.n; dsimp only; split <;> simp

theorem clipEar_verts (s : State) (e : Nat) :
    (clipEar s e).verts = linkV s.verts (s.L e) (s.R e) := by
  unfold clipEar; dsimp only; split <;> rfl

theorem clipEar_mesh (s : State) (e v : Nat) : (clipEar s e).mesh v = s.mesh v := by
  simp only [State.mesh, clipEar_verts, mesh_linkV]

theorem clipEar_L (s : State) (e v : Nat) :
    (clipEar s e).L v = if v = s.R e ∧ s.R e < s.n then s.L e else s.L v := by
  simp only [State.L, clipEar_verts, left_linkV, State.n]; rfl

theorem clipEar_R (s : State) (e v : Nat) :
    (clipEar s e).R v = if v = s.L e ∧ s.L e < s.n then s.R e else s.R v := by
  simp only [State.R, clipEar_verts, right_linkV, State.n]; rfl


/-! ## the list invariant -/

/-- well-linked state: all pointers in range; for every unclipped `v` (`v.right.left = v`)
    also `v.left.right = v`, and `v.right` is unclipped.  Hence `right` is a bijection of the
    unclipped verts with inverse `left` (`liveList_map_R_perm`): they decompose into disjoint
    cycles. -/
structure Linked (s : State) : Prop where
  range : ∀ v, v < s.n → s.L v < s.n ∧ s.R v < s.n
  live : ∀ v, v < s.n → s.live v → s.R (s.L v) = v ∧ s.live (s.R v)

theorem Linked.liveL {s : State} (h : Linked s) {v : Nat} (hv : v < s.n) (hl : s.live v) :
    s.live (s.L v) := by
  unfold State.live; rw [(h.live v hv hl).1]

/-- the contribution of vert `v` to the ring boundaries -/
def term (s : State) (a b v : Nat) : Int :=
  if s.L (s.R v) = v then ind (s.mesh v) (s.mesh (s.R v)) a b else 0

theorem netLive_eq (s : State) (a b : Nat) :
    net (liveEdges s) a b = sumTo s.n (term s a b) := by
  unfold liveEdges liveList
  rw [net_map_range]
  apply sumTo_congr
  intro v _
  simp only [term, State.clipped, Bool.not_eq_eq_eq_not, Bool.not_true, bne_eq_false_iff_eq]

theorem sumTo_two_points {n l e : Nat} {g g' : Nat → Int} {dl de : Int}
    (hl : l < n) (he : e < n)
    (h : ∀ v, v < n → g' v = g v + (if v = l then dl else 0) + (if v = e then de else 0)) :
    sumTo n g' = sumTo n g + dl + de := by
  rw [sumTo_congr h, sumTo_add, sumTo_add, sumTo_single, sumTo_single]
  simp [hl, he]

/-! ## `clipEar` preserves the invariant -/

theorem clip_term (s : State) (h : Linked s) (e : Nat) (he : e < s.n) (hl : s.live e)
    (hne : s.L e ≠ e) (a b v : Nat) (hv : v < s.n) :
    term (clipEar s e) a b v = term s a b v
      + (if v = s.L e then ind (s.mesh (s.L e)) (s.mesh (s.R e)) a b - ind (s.mesh (s.L e)) (s.mesh e) a b else 0)
      + (if v = e then - ind (s.mesh e) (s.mesh (s.R e)) a b else 0) := by
  have hr := h.range e he
  have h1 := h.live e he hl
  have h2 := h.live v hv
  have h3 := h.range v hv
  have h4 := h.live (s.L e) hr.1 (h.liveL he hl)
  unfold State.live at *
  simp only [term, clipEar_L, clipEar_R, clipEar_mesh]
  grind

theorem clip_term_single (s : State) (h : Linked s) (e : Nat) (he : e < s.n) (hl : s.live e)
    (heq : s.L e = e) (a b v : Nat) :
    term (clipEar s e) a b v = term s a b v := by
  have h1 := h.live e he hl
  unfold State.live at *
  simp only [term, clipEar_L, clipEar_R, clipEar_mesh]
  grind

theorem clip_linked (s : State) (h : Linked s) (e : Nat) (he : e < s.n) (hl : s.live e) :
    Linked (clipEar s e) := by
  have hr := h.range e he
  have h1 := h.live e he hl
  have h4 := h.live (s.L e) hr.1 (h.liveL he hl)
  have h5 := h.live (s.R e) hr.2 h1.2
  constructor
  · intro v hv
    rw [clipEar_n] at hv
    have h3 := h.range v hv
    simp only [clipEar_L, clipEar_R, clipEar_n]
    grind
  · intro v hv
    rw [clipEar_n] at hv
    have h2 := h.live v hv
    have h3 := h.range v hv
    have h6 := h.live (s.L v) h3.1
    have h7 := h.live (s.R v) h3.2
    unfold State.live at *
    simp only [clipEar_L, clipEar_R]
    grind

theorem clip_live (s : State) (h : Linked s) (e : Nat) (he : e < s.n) (hl : s.live e)
    (hne : s.L e ≠ e) (v : Nat) (hv : v < s.n) :
    (clipEar s e).live v ↔ (s.live v ∧ v ≠ e) := by
  have hr := h.range e he
  have h1 := h.live e he hl
  have h2 := h.live v hv
  have h3 := h.range v hv
  have h4 := h.live (s.L e) hr.1 (h.liveL he hl)
  unfold State.live at *
  simp only [clipEar_L, clipEar_R]
  grind

/-! ## `joinPolygons` -/

theorem join_n (st : State) (s c : Nat) : (joinPolygons st s c).n = st.n + 2 := by
  simp [joinPolygons, State.n]

theorem join_mesh (st : State) (s c v : Nat) (hc : c < st.n) :
    (joinPolygons st s c).mesh v =
      if v = st.n then st.mesh s else if v = st.n + 1 then st.mesh c else st.mesh v := by
  simp only [joinPolygons, State.mesh, State.n, mesh_linkV, mesh_setLeft, mesh_setRight, getV_push,
    Array.size_push] at *
  grind

theorem join_L (st : State) (s c v : Nat) (hs : s < st.n) (hc : c < st.n) (hrs : st.R s < st.n) :
    (joinPolygons st s c).L v =
      if v = st.n then st.n + 1 else if v = c then s else if v = st.R s then st.n
      else if v = st.n + 1 then st.L c else st.L v := by
  simp only [joinPolygons, State.L, State.R, State.n, left_linkV, left_setLeft, left_setRight, getV_push,
    Array.size_push, size_linkV, size_setLeft, size_setRight] at *
  grind

theorem join_R (st : State) (s c v : Nat) (hs : s < st.n) (hc : c < st.n) (hrs : st.R s < st.n)
    (hlc : st.L c < st.n) :
    (joinPolygons st s c).R v =
      if v = st.n + 1 then st.n else if v = s then c
      else if v = (if c = st.R s then st.n else st.L c) then st.n + 1
      else if v = st.n then st.R s else st.R v := by
  simp only [joinPolygons, State.L, State.R, State.n, right_linkV, right_setLeft, right_setRight,
    left_setLeft, getV_push,
    Array.size_push, size_linkV, size_setLeft, size_setRight] at *
  grind

theorem join_term (st : State) (h : Linked st) (s c : Nat) (hs : s < st.n) (hc : c < st.n)
    (hls : st.live s) (hlc : st.live c) (hne : st.R s ≠ c) (a b v : Nat) (hv : v < st.n + 2) :
    term (joinPolygons st s c) a b v =
      if v = st.n then ind (st.mesh s) (st.mesh (st.R s)) a b
      else if v = st.n + 1 then ind (st.mesh c) (st.mesh s) a b
      else term st a b v +
        (if v = s then ind (st.mesh s) (st.mesh c) a b - ind (st.mesh s) (st.mesh (st.R s)) a b else 0) := by
  have hrs := h.range s hs
  have hrc := h.range c hc
  have h1 := h.live s hs hls
  have h2 := h.live c hc hlc
  have h3 := fun hv' : v < st.n => h.live v hv'
  have h4 := fun hv' : v < st.n => h.range v hv'
  unfold State.live at *
  simp only [term, join_L st s c _ hs hc hrs.2, join_R st s c _ hs hc hrs.2 hrc.1, join_mesh st s c _ hc]
  grind

theorem join_live (st : State) (h : Linked st) (s c : Nat) (hs : s < st.n) (hc : c < st.n)
    (hls : st.live s) (hlc : st.live c) (hne : st.R s ≠ c) (v : Nat) (hv : v < st.n + 2) :
    (joinPolygons st s c).live v ↔ (v < st.n → st.live v) := by
  have hrs := h.range s hs
  have hrc := h.range c hc
  have h1 := h.live s hs hls
  have h2 := h.live c hc hlc
  have h3 := fun hv' : v < st.n => h.live v hv'
  have h4 := fun hv' : v < st.n => h.range v hv'
  unfold State.live at *
  simp only [join_L st s c _ hs hc hrs.2, join_R st s c _ hs hc hrs.2 hrc.1]
  grind

theorem join_range (st : State) (h : Linked st) (s c : Nat) (hs : s < st.n) (hc : c < st.n)
    (v : Nat) (hv : v < st.n + 2) :
    (joinPolygons st s c).L v < st.n + 2 ∧ (joinPolygons st s c).R v < st.n + 2 := by
  have hrs := h.range s hs
  have hrc := h.range c hc
  have h4 := fun hv' : v < st.n => h.range v hv'
  simp only [join_L st s c _ hs hc hrs.2, join_R st s c _ hs hc hrs.2 hrc.1]
  grind

theorem join_linked (st : State) (h : Linked st) (s c : Nat) (hs : s < st.n) (hc : c < st.n)
    (hls : st.live s) (hlc : st.live c) (hne : st.R s ≠ c) : Linked (joinPolygons st s c) := by
  have hrs := h.range s hs
  have hrc := h.range c hc
  have h1 := h.live s hs hls
  have h2 := h.live c hc hlc
  constructor
  · intro v hv
    rw [join_n] at hv ⊢
    exact join_range st h s c hs hc v hv
  · intro v hv hl'
    rw [join_n] at hv
    have hl := (join_live st h s c hs hc hls hlc hne v hv).1 hl'
    have h3 := fun hv' : v < st.n => h.live v hv' (hl hv')
    have h4 := fun hv' : v < st.n => h.range v hv'
    constructor
    · unfold State.live at *
      simp only [join_L st s c _ hs hc hrs.2, join_R st s c _ hs hc hrs.2 hrc.1]
      grind
    · rw [join_live st h s c hs hc hls hlc hne _ (join_range st h s c hs hc v hv).2]
      unfold State.live at *
      simp only [join_R st s c _ hs hc hrs.2 hrc.1]
      grind

/-! ## the chain invariant, one step -/

theorem bdTri_eq (x y z a b : Nat) :
    net (triEdgesOf (x, y, z)) a b = ind x y a b + ind y z a b + ind z x a b := by
  simp only [triEdgesOf, net_cons, net_nil]; omega

theorem triEdges_snoc (ts : List Tri) (t : Tri) (a b : Nat) :
    net (triEdges (ts ++ [t])) a b = net (triEdges ts) a b + net (triEdgesOf t) a b := by
  simp only [triEdges, List.flatMap_append, List.flatMap_cons, List.flatMap_nil, List.append_nil,
    net_append]

/-- `net(triangles) + Σ_rings net(ring edges)` -/
def chainVal (s : State) (a b : Nat) : Int := net (triEdges s.tris) a b + net (liveEdges s) a b

/-- what `ClipEar` appends to the triangle list, in the group: the boundary of the ear triangle,
    or nothing when two of the three mesh indices coincide — in which case that boundary is zero
    anyway. -/
theorem clipEar_tris_net (s : State) (e a b : Nat) :
    net (triEdges (clipEar s e).tris) a b = net (triEdges s.tris) a b +
      (ind (s.mesh (s.L e)) (s.mesh e) a b + ind (s.mesh e) (s.mesh (s.R e)) a b +
        ind (s.mesh (s.R e)) (s.mesh (s.L e)) a b) := by
  unfold clipEar; dsimp only
  split
  · rw [triEdges_snoc, bdTri_eq]
  · next hdeg =>
    show net (triEdges s.tris) a b = _
    have h1 := ind_swap (s.mesh (s.L e)) (s.mesh e) a b
    have h2 := ind_swap (s.mesh e) (s.mesh (s.R e)) a b
    have h3 := ind_swap (s.mesh (s.R e)) (s.mesh (s.L e)) a b
    by_cases c1 : s.mesh (s.L e) = s.mesh e
    · rw [c1] at *; rw [ind_self]; omega
    · by_cases c2 : s.mesh e = s.mesh (s.R e)
      · rw [c2] at *; rw [ind_self]; omega
      · have c3 : s.mesh (s.R e) = s.mesh (s.L e) := by
          false_or_by_contra; exact hdeg ⟨c1, c2, by assumption⟩
        rw [c3] at *; rw [ind_self]; omega

theorem clip_chain (s : State) (h : Linked s) (e : Nat) (he : e < s.n) (hl : s.live e)
    (a b : Nat) : chainVal (clipEar s e) a b = chainVal s a b := by
  unfold chainVal
  rw [clipEar_tris_net, netLive_eq, netLive_eq, clipEar_n]
  by_cases hne : s.L e = e
  · have hR : s.R e = e := by
      have := (h.live e he hl).1; rw [hne] at this; exact this
    rw [sumTo_congr (fun v _ => clip_term_single s h e he hl hne a b v)]
    rw [hne, hR, ind_self]; omega
  · rw [sumTo_two_points (h.range e he).1 he (fun v hv => clip_term s h e he hl hne a b v hv)]
    have h1 := ind_swap (s.mesh (s.L e)) (s.mesh (s.R e)) a b
    omega

theorem sumTo_succ_succ (n : Nat) (g : Nat → Int) : sumTo (n + 2) g = sumTo n g + g n + g (n + 1) := by
  simp only [sumTo]

theorem join_tris (st : State) (s c : Nat) : (joinPolygons st s c).tris = st.tris := by
  simp only [joinPolygons]

theorem join_chain (st : State) (h : Linked st) (s c : Nat) (hs : s < st.n) (hc : c < st.n)
    (hls : st.live s) (hlc : st.live c) (hne : st.R s ≠ c) (a b : Nat) :
    chainVal (joinPolygons st s c) a b = chainVal st a b := by
  unfold chainVal
  rw [join_tris, netLive_eq, netLive_eq, join_n, sumTo_succ_succ,
    join_term st h s c hs hc hls hlc hne a b _ (by omega),
    join_term st h s c hs hc hls hlc hne a b _ (by omega)]
  have : sumTo st.n (term (joinPolygons st s c) a b) = sumTo st.n (term st a b)
      + (ind (st.mesh s) (st.mesh c) a b - ind (st.mesh s) (st.mesh (st.R s)) a b) + 0 := by
    apply sumTo_two_points hs hs
    intro v hv
    rw [join_term st h s c hs hc hls hlc hne a b v (by omega)]
    have : v ≠ st.n := by omega
    have : v ≠ st.n + 1 := by omega
    simp [*]
  rw [this]
  have h1 := ind_swap (st.mesh s) (st.mesh c) a b
  simp
  omega

/-! ## `Initialize` -/

theorem range_getElem? (k i : Nat) : (List.range k)[i]? = if i < k then some i else none := by
  split
  · next h => exact List.getElem?_range h
  · next h => exact List.getElem?_eq_none (by simp; omega)

/-- append one contour (closed form of one round of the `Initialize` loop) -/
def appendPoly (s : State) (p : List Nat) : State :=
  { s with verts := s.verts ++ (initPoly s.verts.size p).toArray }

theorem appendPoly_n (s : State) (p : List Nat) : (appendPoly s p).n = s.n + p.length := by
  simp [appendPoly, State.n, initPoly]

theorem appendPoly_getV (s : State) (p : List Nat) (v : Nat) :
    getV (appendPoly s p).verts v =
      if v < s.n then getV s.verts v
      else if v < s.n + p.length then
        ⟨p.getD (v - s.n) 0,
         s.n + (if v - s.n = 0 then p.length - 1 else v - s.n - 1),
         s.n + (if v - s.n + 1 < p.length then v - s.n + 1 else 0)⟩
      else ⟨0, 0, 0⟩ := by
  unfold getV appendPoly State.n initPoly
  simp only [Array.getD_eq_getD_getElem?, Array.getElem?_append, List.getElem?_toArray,
    List.getElem?_map, range_getElem?]
  by_cases h1 : v < s.verts.size
  · simp [h1]
  · by_cases h2 : v < s.verts.size + p.length
    · have : v - s.verts.size < p.length := by omega
      simp [h1, h2, this]
    · have : ¬ v - s.verts.size < p.length := by omega
      simp [h1, h2, this]

theorem appendPoly_mesh (s : State) (p : List Nat) (v : Nat) :
    (appendPoly s p).mesh v = if v < s.n then s.mesh v
      else if v < s.n + p.length then p.getD (v - s.n) 0 else 0 := by
  simp only [State.mesh, appendPoly_getV]; split
  · rfl
  · split <;> rfl

theorem appendPoly_L (s : State) (p : List Nat) (v : Nat) :
    (appendPoly s p).L v = if v < s.n then s.L v
      else if v < s.n + p.length then s.n + (if v - s.n = 0 then p.length - 1 else v - s.n - 1)
      else 0 := by
  simp only [State.L, appendPoly_getV]; split
  · rfl
  · split <;> rfl

theorem appendPoly_R (s : State) (p : List Nat) (v : Nat) :
    (appendPoly s p).R v = if v < s.n then s.R v
      else if v < s.n + p.length then s.n + (if v - s.n + 1 < p.length then v - s.n + 1 else 0)
      else 0 := by
  simp only [State.R, appendPoly_getV]; split
  · rfl
  · split <;> rfl

theorem appendPoly_linked (s : State) (h : Linked s) (p : List Nat) : Linked (appendPoly s p) := by
  constructor
  · intro v hv
    rw [appendPoly_n] at hv ⊢
    have := fun hv' : v < s.n => h.range v hv'
    simp only [appendPoly_L, appendPoly_R]
    grind
  · intro v hv
    rw [appendPoly_n] at hv
    have h1 := fun hv' : v < s.n => h.range v hv'
    have h2 := fun hv' : v < s.n => h.live v hv'
    have h3 := fun hv' : v < s.n => h.range _ (h1 hv').1
    have h4 := fun hv' : v < s.n => h.range _ (h1 hv').2
    unfold State.live at *
    simp only [appendPoly_L, appendPoly_R]
    grind

theorem appendPoly_term (s : State) (h : Linked s) (p : List Nat) (a b v : Nat) :
    term (appendPoly s p) a b v =
      if v < s.n then term s a b v
      else if v < s.n + p.length then
        ind (p.getD (v - s.n) 0) (p.getD (if v - s.n + 1 < p.length then v - s.n + 1 else 0) 0) a b
      else term (appendPoly s p) a b v := by
  have h1 := fun hv' : v < s.n => h.range v hv'
  have h3 := fun hv' : v < s.n => h.range _ (h1 hv').2
  simp only [term, appendPoly_L, appendPoly_R, appendPoly_mesh]
  grind

theorem sumTo_split (n k : Nat) (g : Nat → Int) :
    sumTo (n + k) g = sumTo n g + sumTo k (fun i => g (n + i)) := by
  induction k with
  | zero => simp [sumTo]
  | succ k ih => rw [← Nat.add_assoc]; simp only [sumTo, ih]; omega

theorem net_polyEdges (p : List Nat) (a b : Nat) :
    net (polyEdges p) a b = sumTo p.length (fun i =>
      ind (p.getD i 0) (p.getD (if i + 1 < p.length then i + 1 else 0) 0) a b) := by
  have := net_map_range p.length (fun _ => true)
    (fun i => (p.getD i 0, p.getD (if i + 1 < p.length then i + 1 else 0) 0)) a b
  have hf : (List.range p.length).filter (fun _ => true) = List.range p.length := by simp
  rw [hf] at this
  simpa [polyEdges] using this

theorem appendPoly_tris (s : State) (p : List Nat) : (appendPoly s p).tris = s.tris := rfl

theorem appendPoly_chain (s : State) (h : Linked s) (p : List Nat) (a b : Nat) :
    chainVal (appendPoly s p) a b = chainVal s a b + net (polyEdges p) a b := by
  unfold chainVal
  rw [appendPoly_tris, netLive_eq, netLive_eq, appendPoly_n, sumTo_split, net_polyEdges]
  have e1 : sumTo s.n (term (appendPoly s p) a b) = sumTo s.n (term s a b) := by
    apply sumTo_congr; intro v hv; rw [appendPoly_term s h]; simp [hv]
  have e2 : sumTo p.length (fun i => term (appendPoly s p) a b (s.n + i)) =
      sumTo p.length (fun i =>
        ind (p.getD i 0) (p.getD (if i + 1 < p.length then i + 1 else 0) 0) a b) := by
    apply sumTo_congr; intro v hv
    show term (appendPoly s p) a b (s.n + v) = _
    rw [appendPoly_term s h]
    have : ¬ s.n + v < s.n := by omega
    simp [this, hv]
  rw [e1, e2]; omega

theorem foldl_appendPoly_verts (polys : List (List Nat)) (s : State) :
    (polys.foldl appendPoly s).verts =
      polys.foldl (fun vs p => vs ++ (initPoly vs.size p).toArray) s.verts := by
  induction polys generalizing s with
  | nil => rfl
  | cons p ps ih => simp only [List.foldl_cons, ih]; rfl

theorem foldl_appendPoly_tris (polys : List (List Nat)) (s : State) :
    (polys.foldl appendPoly s).tris = s.tris ∧ (polys.foldl appendPoly s).skipped = s.skipped := by
  induction polys generalizing s with
  | nil => exact ⟨rfl, rfl⟩
  | cons p ps ih => simp only [List.foldl_cons]; exact ih _

def emptyState : State := ⟨#[], [], 0⟩

theorem initState_eq (polys : List (List Nat)) : initState polys = polys.foldl appendPoly emptyState := by
  have h1 := foldl_appendPoly_verts polys emptyState
  have h2 := foldl_appendPoly_tris polys emptyState
  generalize polys.foldl appendPoly emptyState = t at *
  cases t
  simp only [initState, initVerts, emptyState] at *
  simp [h1, h2.1, h2.2]

theorem linked_empty : Linked emptyState := by
  constructor <;> intro v hv <;> simp [State.n, emptyState] at hv

theorem foldl_appendPoly_inv (polys : List (List Nat)) (s : State) (h : Linked s) :
    Linked (polys.foldl appendPoly s) ∧
    ∀ a b, chainVal (polys.foldl appendPoly s) a b = chainVal s a b + net (contourEdges polys) a b := by
  induction polys generalizing s with
  | nil => exact ⟨h, fun a b => by simp [contourEdges]⟩
  | cons p ps ih =>
    have := ih (appendPoly s p) (appendPoly_linked s h p)
    refine ⟨this.1, fun a b => ?_⟩
    simp only [List.foldl_cons, this.2, appendPoly_chain s h, contourEdges, List.flatMap_cons, net_append]
    omega

theorem init_linked (polys : List (List Nat)) : Linked (initState polys) := by
  rw [initState_eq]; exact (foldl_appendPoly_inv polys _ linked_empty).1

theorem init_chain (polys : List (List Nat)) (a b : Nat) :
    chainVal (initState polys) a b = net (contourEdges polys) a b := by
  rw [initState_eq, (foldl_appendPoly_inv polys _ linked_empty).2]
  simp [chainVal, emptyState, liveEdges, liveList, State.n, triEdges]

/-! ## exit -/

theorem nodup_map_on {α β : Type} {f : α → β} {l : List α} (hl : l.Nodup)
    (hf : ∀ x, x ∈ l → ∀ y, y ∈ l → f x = f y → x = y) : (l.map f).Nodup := by
  induction l with
  | nil => exact List.nodup_nil
  | cons a l ih =>
    rw [List.nodup_cons] at hl
    rw [List.map_cons, List.nodup_cons]
    refine ⟨?_, ih hl.2 (fun x hx y hy => hf x (List.mem_cons_of_mem _ hx) y (List.mem_cons_of_mem _ hy))⟩
    intro hmem
    rw [List.mem_map] at hmem
    obtain ⟨y, hy, hfy⟩ := hmem
    have := hf y (List.mem_cons_of_mem _ hy) a (List.mem_cons_self) hfy
    subst this
    exact hl.1 hy

theorem mem_liveList (s : State) (v : Nat) : v ∈ liveList s ↔ v < s.n ∧ s.live v := by
  simp [liveList, State.clipped, State.live]

theorem liveList_nodup (s : State) : (liveList s).Nodup :=
  List.Nodup.sublist List.filter_sublist List.nodup_range

/-- `right` permutes the unclipped verts: they decompose into disjoint cycles -/
theorem liveList_map_R_perm (s : State) (h : Linked s) : ((liveList s).map s.R).Perm (liveList s) := by
  rw [List.perm_ext_iff_of_nodup _ (liveList_nodup s)]
  · intro a
    rw [List.mem_map]
    constructor
    · rintro ⟨v, hv, rfl⟩
      rw [mem_liveList] at hv ⊢
      exact ⟨(h.range v hv.1).2, (h.live v hv.1 hv.2).2⟩
    · intro ha
      rw [mem_liveList] at ha
      refine ⟨s.L a, ?_, (h.live a ha.1 ha.2).1⟩
      rw [mem_liveList]
      exact ⟨(h.range a ha.1).1, h.liveL ha.1 ha.2⟩
  · apply nodup_map_on (liveList_nodup s)
    intro x hx y hy hxy
    rw [mem_liveList] at hx hy
    have h1 := hx.2; have h2 := hy.2
    unfold State.live at h1 h2
    rw [← h1, ← h2, hxy]

theorem count_map_swap (es : List Edge) (a b : Nat) :
    (es.map fun e => (e.2, e.1)).count (a, b) = es.count (b, a) := by
  induction es with
  | nil => rfl
  | cons e es ih =>
    simp only [List.map_cons, List.count_cons, ih, beq_iff_eq, Prod.mk.injEq]
    obtain ⟨x, y⟩ := e
    simp only [Prod.mk.injEq]
    by_cases h : y = a ∧ x = b
    · simp [h]
    · have : ¬ (x = b ∧ y = a) := fun h' => h ⟨h'.2, h'.1⟩
      simp [h, this]

/-- exit: if every live ring has ≤ 2 verts the rings' boundaries vanish -/
theorem liveEdges_net_zero (s : State) (h : Linked s) (hd : ringsDone s = true) (a b : Nat) :
    net (liveEdges s) a b = 0 := by
  have hRR : ∀ v, v ∈ liveList s → s.R (s.R v) = v := by
    intro v hv
    rw [mem_liveList] at hv
    simp only [ringsDone, List.all_eq_true, List.mem_range, Bool.or_eq_true, beq_iff_eq,
      State.clipped, bne_iff_ne] at hd
    rcases hd v hv.1 with h1 | h1
    · exact absurd hv.2 h1
    · rw [h1]; exact (h.live v hv.1 hv.2).1
  have hperm : (liveEdges s).map (fun e => (e.2, e.1)) |>.Perm (liveEdges s) := by
    have h1 : (liveEdges s).map (fun e => (e.2, e.1)) =
        ((liveList s).map s.R).map (fun v => (s.mesh v, s.mesh (s.R v))) := by
      simp only [liveEdges, List.map_map]
      apply List.map_congr_left
      intro v hv
      simp [hRR v hv]
    rw [h1]
    exact (liveList_map_R_perm s h).map _
  unfold net
  have := hperm.count_eq (a, b)
  rw [count_map_swap] at this
  omega

/-! ## counting -/

def liveCount (s : State) : Nat := (liveList s).length

theorem length_filter_range (n : Nat) (p : Nat → Bool) :
    (((List.range n).filter p).length : Int) = sumTo n (fun v => if p v then 1 else 0) := by
  induction n with
  | zero => simp [sumTo]
  | succ n ih =>
    rw [List.range_succ, List.filter_append, List.length_append]
    simp only [sumTo, ← ih]
    cases h : p n <;> simp [h]

def liveInd (s : State) (v : Nat) : Int := if s.L (s.R v) = v then 1 else 0

theorem liveCount_eq (s : State) : (liveCount s : Int) = sumTo s.n (liveInd s) := by
  unfold liveCount liveList
  rw [length_filter_range]
  apply sumTo_congr; intro v _
  simp [liveInd, State.clipped]

theorem clip_liveCount (s : State) (h : Linked s) (e : Nat) (he : e < s.n) (hl : s.live e)
    (hne : s.L e ≠ e) : liveCount (clipEar s e) + 1 = liveCount s := by
  have : (liveCount (clipEar s e) : Int) = liveCount s + 0 + (-1) := by
    rw [liveCount_eq, liveCount_eq, clipEar_n]
    apply sumTo_two_points he he
    intro v hv
    have := clip_live s h e he hl hne v hv
    unfold State.live at *
    unfold liveInd
    grind
  omega

theorem join_liveCount (st : State) (h : Linked st) (s c : Nat) (hs : s < st.n) (hc : c < st.n)
    (hls : st.live s) (hlc : st.live c) (hne : st.R s ≠ c) :
    liveCount (joinPolygons st s c) = liveCount st + 2 := by
  have : (liveCount (joinPolygons st s c) : Int) = liveCount st + 2 := by
    rw [liveCount_eq, liveCount_eq, join_n, sumTo_succ_succ]
    have e1 : sumTo st.n (liveInd (joinPolygons st s c)) = sumTo st.n (liveInd st) := by
      apply sumTo_congr; intro v hv
      have := join_live st h s c hs hc hls hlc hne v (by omega)
      unfold State.live at *
      unfold liveInd
      grind
    have e2 := join_live st h s c hs hc hls hlc hne st.n (by omega)
    have e3 := join_live st h s c hs hc hls hlc hne (st.n + 1) (by omega)
    unfold State.live at e2 e3
    rw [e1]
    unfold liveInd
    have : ¬ st.n < st.n := by omega
    have : ¬ st.n + 1 < st.n := by omega
    simp only [*, false_imp_iff, iff_true] at e2 e3
    simp [e2, e3]; omega
  omega

theorem clipEar_emit (s : State) (e : Nat) :
    (clipEar s e).tris.length + (clipEar s e).skipped = s.tris.length + s.skipped + 1 := by
  unfold clipEar; dsimp only; split
  · simp; omega
  · simp; omega

theorem appendPoly_live (s : State) (h : Linked s) (p : List Nat) (v : Nat) (hv : v < s.n + p.length) :
    (appendPoly s p).live v ↔ (v < s.n → s.live v) := by
  have h1 := fun hv' : v < s.n => h.range v hv'
  have h3 := fun hv' : v < s.n => h.range _ (h1 hv').2
  unfold State.live
  simp only [appendPoly_L, appendPoly_R]
  grind

theorem appendPoly_liveCount (s : State) (h : Linked s) (p : List Nat) :
    liveCount (appendPoly s p) = liveCount s + p.length := by
  have : (liveCount (appendPoly s p) : Int) = liveCount s + p.length := by
    rw [liveCount_eq, liveCount_eq, appendPoly_n, sumTo_split]
    have e1 : sumTo s.n (liveInd (appendPoly s p)) = sumTo s.n (liveInd s) := by
      apply sumTo_congr; intro v hv
      have := appendPoly_live s h p v (by omega)
      unfold State.live at this
      unfold liveInd
      grind
    have e2 : sumTo p.length (fun i => liveInd (appendPoly s p) (s.n + i)) = sumTo p.length (fun _ => 1) := by
      apply sumTo_congr; intro v hv
      have := appendPoly_live s h p (s.n + v) (by omega)
      unfold State.live at this
      show liveInd (appendPoly s p) (s.n + v) = 1
      unfold liveInd
      have h' : ¬ s.n + v < s.n := by omega
      simp only [h', false_imp_iff, iff_true] at this
      simp [this]
    have e3 : ∀ k, sumTo k (fun _ => (1 : Int)) = k := by
      intro k; induction k with
      | zero => rfl
      | succ k ih => simp only [sumTo, ih]; omega
    rw [e1, e2, e3]
  omega

/-! ## runs -/

/-- the guard needed for the chain invariant: the vert(s) are in range and unclipped;
    for a join additionally `start->right ≠ connector` (true whenever they are in different rings) -/
def OpLive (st : State) : Op → Prop
  | .clip v => v < st.n ∧ st.live v
  | .join s c => s < st.n ∧ c < st.n ∧ st.live s ∧ st.live c ∧ st.R s ≠ c

/-- the guard the C++ call sites establish (`opOk` is its decision procedure) -/
def OpOk (st : State) : Op → Prop
  | .clip v => v < st.n ∧ st.live v ∧ st.L v ≠ st.R v
  | .join s c => s < st.n ∧ c < st.n ∧ st.live s ∧ st.live c ∧ st.R s ≠ c

theorem opOk_iff (st : State) (op : Op) : opOk st op = true ↔ OpOk st op := by
  cases op <;> simp [opOk, OpOk, State.clipped, State.live, and_assoc]

theorem OpOk.toLive {st : State} {op : Op} (h : OpOk st op) : OpLive st op := by
  cases op
  · exact ⟨h.1, h.2.1⟩
  · exact h

/-- every op of the sequence satisfies guard `G` in the state it is applied to -/
def RunOk (G : State → Op → Prop) : State → List Op → Prop
  | _, [] => True
  | st, op :: rest => G st op ∧ RunOk G (step st op) rest

theorem RunOk.toLive {st : State} {ops : List Op} (h : RunOk OpOk st ops) : RunOk OpLive st ops := by
  induction ops generalizing st with
  | nil => trivial
  | cons op rest ih => exact ⟨h.1.toLive, ih h.2⟩

theorem runChecked_ok (st : State) (ops : List Op) (k : Nat) (st' : State) :
    runChecked st ops k = .ok st' ↔ (RunOk OpOk st ops ∧ st' = run st ops) := by
  induction ops generalizing st k with
  | nil => simp [runChecked, RunOk, run]; exact eq_comm
  | cons op rest ih =>
    unfold runChecked
    by_cases h : opOk st op = true
    · simp only [h, if_true, ih, RunOk, run, List.foldl_cons, ← opOk_iff, true_and]
    · have : ¬ OpOk st op := fun h' => h ((opOk_iff st op).2 h')
      simp [h, RunOk, this]

theorem step_linked (st : State) (h : Linked st) (op : Op) (hop : OpLive st op) :
    Linked (step st op) := by
  cases op with
  | clip v => exact clip_linked st h v hop.1 hop.2
  | join s c => exact join_linked st h s c hop.1 hop.2.1 hop.2.2.1 hop.2.2.2.1 hop.2.2.2.2

theorem step_chain (st : State) (h : Linked st) (op : Op) (hop : OpLive st op) (a b : Nat) :
    chainVal (step st op) a b = chainVal st a b := by
  cases op with
  | clip v => exact clip_chain st h v hop.1 hop.2 a b
  | join s c => exact join_chain st h s c hop.1 hop.2.1 hop.2.2.1 hop.2.2.2.1 hop.2.2.2.2 a b

theorem run_linked (st : State) (h : Linked st) (ops : List Op) (hr : RunOk OpLive st ops) :
    Linked (run st ops) := by
  induction ops generalizing st with
  | nil => exact h
  | cons op rest ih => exact ih _ (step_linked st h op hr.1) hr.2

theorem run_chain (st : State) (h : Linked st) (ops : List Op) (hr : RunOk OpLive st ops) (a b : Nat) :
    chainVal (run st ops) a b = chainVal st a b := by
  induction ops generalizing st with
  | nil => rfl
  | cons op rest ih =>
    show chainVal (run (step st op) rest) a b = _
    rw [ih _ (step_linked st h op hr.1) hr.2, step_chain st h op hr.1]

/-! counting -/
def numJoins : List Op → Nat
  | [] => 0
  | .clip _ :: r => numJoins r
  | .join _ _ :: r => numJoins r + 1

def totalVerts (polys : List (List Nat)) : Nat := (polys.map List.length).sum

theorem step_count (st : State) (h : Linked st) (op : Op) (hop : OpOk st op) :
    (step st op).tris.length + (step st op).skipped + liveCount (step st op) + st.n =
      st.tris.length + st.skipped + liveCount st + (step st op).n ∧
    (step st op).n = st.n + 2 * numJoins [op] := by
  cases op with
  | clip v =>
    have hne : st.L v ≠ v := by
      intro heq
      have := (h.live v hop.1 hop.2.1).1
      rw [heq] at this
      exact hop.2.2 (by rw [heq, this])
    have h1 := clip_liveCount st h v hop.1 hop.2.1 hne
    have h2 := clipEar_emit st v
    simp only [step, clipEar_n, numJoins]
    omega
  | join s c =>
    have h1 := join_liveCount st h s c hop.1 hop.2.1 hop.2.2.1 hop.2.2.2.1 hop.2.2.2.2
    simp only [step, join_n, join_tris, numJoins]
    have : (joinPolygons st s c).skipped = st.skipped := by simp only [joinPolygons]
    exact ⟨by omega, trivial⟩

theorem run_count (st : State) (h : Linked st) (ops : List Op) (hr : RunOk OpOk st ops) :
    (run st ops).tris.length + (run st ops).skipped + liveCount (run st ops) + st.n =
      st.tris.length + st.skipped + liveCount st + (run st ops).n ∧
    (run st ops).n = st.n + 2 * numJoins ops := by
  induction ops generalizing st with
  | nil => simp [run, numJoins]
  | cons op rest ih =>
    have h1 := step_count st h op hr.1
    have h2 := ih _ (step_linked st h op hr.1.toLive) hr.2
    have e : run st (op :: rest) = run (step st op) rest := rfl
    rw [e]
    have : numJoins (op :: rest) = numJoins [op] + numJoins rest := by
      cases op <;> simp [numJoins]; omega
    omega

theorem init_count (polys : List (List Nat)) :
    (initState polys).n = totalVerts polys ∧ liveCount (initState polys) = totalVerts polys := by
  rw [initState_eq]
  have : ∀ (s : State), Linked s → (polys.foldl appendPoly s).n = s.n + totalVerts polys ∧
      liveCount (polys.foldl appendPoly s) = liveCount s + totalVerts polys := by
    induction polys with
    | nil => intro s _; simp [totalVerts]
    | cons p ps ih =>
      intro s hs
      have := ih (appendPoly s p) (appendPoly_linked s hs p)
      simp only [List.foldl_cons, this, appendPoly_n, appendPoly_liveCount s hs, totalVerts,
        List.map_cons, List.sum_cons]
      simp only [totalVerts] at this
      omega
  have := this emptyState linked_empty
  simpa [emptyState, State.n, liveCount, liveList] using this

/-! ## emitted indices -/

def TriIn (I : List Nat) (t : Tri) : Prop := t.1 ∈ I ∧ t.2.1 ∈ I ∧ t.2.2 ∈ I
def TriDistinct (t : Tri) : Prop := t.1 ≠ t.2.1 ∧ t.2.1 ≠ t.2.2 ∧ t.2.2 ≠ t.1

/-- all mesh indices stored in the lists and all emitted indices come from `I` -/
def MeshIn (I : List Nat) (s : State) : Prop :=
  (∀ v, v < s.n → s.mesh v ∈ I) ∧ (∀ t, t ∈ s.tris → TriIn I t)

theorem clipEar_tris_mem (s : State) (e : Nat) (t : Tri) (ht : t ∈ (clipEar s e).tris) :
    t ∈ s.tris ∨ (t = (s.mesh (s.L e), s.mesh e, s.mesh (s.R e)) ∧ TriDistinct t) := by
  unfold clipEar at ht; dsimp only at ht
  split at ht
  · next hd =>
    simp only [List.mem_append, List.mem_singleton] at ht
    rcases ht with ht | ht
    · exact Or.inl ht
    · right; subst ht; exact ⟨rfl, hd⟩
  · exact Or.inl ht

theorem step_meshIn (I : List Nat) (st : State) (h : Linked st) (hm : MeshIn I st) (op : Op)
    (hop : OpLive st op) : MeshIn I (step st op) := by
  cases op with
  | clip v =>
    have hr := h.range v hop.1
    constructor
    · intro u hu
      simp only [step, clipEar_n, clipEar_mesh] at hu ⊢
      exact hm.1 u hu
    · intro t ht
      rcases clipEar_tris_mem st v t ht with h1 | ⟨h1, _⟩
      · exact hm.2 t h1
      · subst h1; exact ⟨hm.1 _ hr.1, hm.1 _ hop.1, hm.1 _ hr.2⟩
  | join s c =>
    constructor
    · intro u hu
      simp only [step, join_n] at hu
      simp only [step, join_mesh st s c u hop.2.1]
      split
      · exact hm.1 _ hop.1
      · split
        · exact hm.1 _ hop.2.1
        · exact hm.1 _ (by omega)
    · intro t ht
      simp only [step, join_tris] at ht
      exact hm.2 t ht

theorem run_meshIn (I : List Nat) (st : State) (h : Linked st) (hm : MeshIn I st) (ops : List Op)
    (hr : RunOk OpLive st ops) : MeshIn I (run st ops) := by
  induction ops generalizing st with
  | nil => exact hm
  | cons op rest ih => exact ih _ (step_linked st h op hr.1) (step_meshIn I st h hm op hr.1) hr.2

theorem getD_mem (p : List Nat) (i : Nat) (h : i < p.length) : p.getD i 0 ∈ p := by
  rw [List.getD_eq_getElem?_getD, List.getElem?_eq_getElem h]; simp

theorem init_meshIn (polys : List (List Nat)) : MeshIn polys.flatten (initState polys) := by
  rw [initState_eq]
  have : ∀ (s : State) (I : List Nat), (∀ v, v < s.n → s.mesh v ∈ I) →
      ∀ v, v < (polys.foldl appendPoly s).n → (polys.foldl appendPoly s).mesh v ∈ I ++ polys.flatten := by
    induction polys with
    | nil => intro s I h v hv; simpa using h v hv
    | cons p ps ih =>
      intro s I h v hv
      have := ih (appendPoly s p) (I ++ p) (by
        intro u hu
        rw [appendPoly_n] at hu
        rw [appendPoly_mesh]
        split
        · next h' => exact List.mem_append_left _ (h u h')
        · exact List.mem_append_right _ (getD_mem p _ (by omega))) v hv
      simpa using this
  constructor
  · intro v hv
    have := this emptyState [] (by intro v hv; simp [emptyState, State.n] at hv) v hv
    simpa using this
  · intro t ht
    rw [(foldl_appendPoly_tris polys emptyState).1] at ht
    simp [emptyState] at ht

theorem step_trisDistinct (st : State) (op : Op) (hd : ∀ t, t ∈ st.tris → TriDistinct t) :
    ∀ t, t ∈ (step st op).tris → TriDistinct t := by
  intro t ht
  cases op with
  | clip v =>
    rcases clipEar_tris_mem st v t ht with h1 | ⟨_, h1⟩
    · exact hd t h1
    · exact h1
  | join s c => simp only [step, join_tris] at ht; exact hd t ht

theorem run_trisDistinct (st : State) (ops : List Op) (hd : ∀ t, t ∈ st.tris → TriDistinct t) :
    ∀ t, t ∈ (run st ops).tris → TriDistinct t := by
  induction ops generalizing st with
  | nil => exact hd
  | cons op rest ih => exact ih _ (step_trisDistinct st op hd)

/-! ## HalfedgeTriangulation -/

theorem lookup_filter_ne (m : Stacks) (k k' : Edge) :
    (m.filter fun e => e.1 != k).lookup k' = if k' = k then none else m.lookup k' := by
  induction m with
  | nil => simp
  | cons e m ih =>
    obtain ⟨ek, ev⟩ := e
    by_cases h1 : ek = k
    · subst h1
      simp only [List.filter_cons, bne_self_eq_false, Bool.false_eq_true, if_false, ih, List.lookup_cons]
      by_cases h2 : k' = ek
      · simp [h2]
      · have : (k' == ek) = false := by simpa using h2
        simp [h2, this]
    · have : (ek != k) = true := by simpa using h1
      simp only [List.filter_cons, this, if_true, List.lookup_cons, ih]
      by_cases h2 : k' = ek
      · subst h2; simp [h1]
      · have : (k' == ek) = false := by simpa using h2
        simp [this]

theorem stackOf_setStack (m : Stacks) (k k' : Edge) (st : List Nat) :
    stackOf (setStack m k st) k' = if k' = k then st else stackOf m k' := by
  unfold stackOf setStack
  dsimp only
  by_cases he : st.isEmpty = true
  · simp only [he, if_true, lookup_filter_ne]
    have : st = [] := by simpa using he
    by_cases h : k' = k <;> simp [h, this]
  · simp only [he]
    by_cases h : k' = k
    · subst h; simp
    · have : (k' == k) = false := by simpa using h
      simp [h, this, List.lookup, lookup_filter_ne]

theorem getH_set (hs : Array Halfedge) (i j : Nat) (x : Halfedge) :
    getH (hs.setIfInBounds i x) j = if j = i ∧ i < hs.size then x else getH hs j := by
  unfold getH
  simp only [Array.getD_eq_getD_getElem?, Array.getElem?_setIfInBounds]
  by_cases h : i = j
  · subst h
    by_cases h2 : i < hs.size <;> simp [h2]
  · have : ¬ j = i := fun e => h e.symm
    simp [h, this]

theorem getH_push (hs : Array Halfedge) (j : Nat) (x : Halfedge) :
    getH (hs.push x) j = if j = hs.size then x else getH hs j := by
  unfold getH
  simp only [Array.getD_eq_getD_getElem?, Array.getElem?_push]
  split <;> simp

def HT.size (t : HT) : Nat := t.halfedges.size
def HT.st (t : HT) (i : Nat) : Nat := (getH t.halfedges i).startVert
def HT.en (t : HT) (i : Nat) : Nat := (getH t.halfedges i).endVert
def HT.pr (t : HT) (i : Nat) : Int := (getH t.halfedges i).paired
def HT.stk (t : HT) (k : Edge) : List Nat := stackOf t.stacks k

theorem add_size (t : HT) (a b : Nat) : (t.addHalfedge a b).size = t.size + 1 := by
  unfold HT.addHalfedge HT.size; dsimp only; split <;> simp

theorem add_pop (t : HT) (a b p : Nat) (rest : List Nat) (h : t.stk (b, a) = p :: rest) (hp : p < t.size) :
    (∀ i, (t.addHalfedge a b).st i = if i = t.size then a else t.st i) ∧
    (∀ i, (t.addHalfedge a b).en i = if i = t.size then b else t.en i) ∧
    (∀ i, (t.addHalfedge a b).pr i = if i = t.size then (p : Int) else if i = p then (t.size : Int) else t.pr i) ∧
    (∀ k, (t.addHalfedge a b).stk k = if k = (b, a) then rest else t.stk k) := by
  unfold HT.stk at h
  unfold HT.addHalfedge HT.st HT.en HT.pr HT.stk HT.size at *
  simp only [h, getH_push, getH_set, Array.size_setIfInBounds, stackOf_setStack]
  refine ⟨?_, ?_, ?_, ?_⟩ <;> intro i <;> grind

theorem add_push (t : HT) (a b : Nat) (h : t.stk (b, a) = []) :
    (∀ i, (t.addHalfedge a b).st i = if i = t.size then a else t.st i) ∧
    (∀ i, (t.addHalfedge a b).en i = if i = t.size then b else t.en i) ∧
    (∀ i, (t.addHalfedge a b).pr i = if i = t.size then -1 else t.pr i) ∧
    (∀ k, (t.addHalfedge a b).stk k = if k = (a, b) then t.size :: t.stk (a, b) else t.stk k) := by
  unfold HT.stk at h
  unfold HT.addHalfedge HT.st HT.en HT.pr HT.stk HT.size at *
  simp only [h, getH_push, stackOf_setStack]
  refine ⟨?_, ?_, ?_, ?_⟩ <;> intro i <;> grind

/-- all halfedges added so far, as directed edges -/
def HT.edges (t : HT) : List Edge := (List.range t.size).map fun i => (t.st i, t.en i)

/-- the invariant of `HalfedgeTriangulation` between calls of `AddHalfedge` -/
structure HInv (t : HT) : Prop where
  prLow : ∀ h, h < t.size → -1 ≤ t.pr h
  pair : ∀ h, h < t.size → ∀ p : Nat, t.pr h = (p : Int) →
    p < t.size ∧ t.pr p = (h : Int) ∧ t.st p = t.en h ∧ t.en p = t.st h ∧ p ≠ h
  stk : ∀ k h, h ∈ t.stk k ↔ (h < t.size ∧ t.pr h = -1 ∧ (t.st h, t.en h) = k)
  nodup : ∀ k, (t.stk k).Nodup
  excl : ∀ a b, a ≠ b → t.stk (a, b) = [] ∨ t.stk (b, a) = []
  self : ∀ a, (t.stk (a, a)).length ≤ 1
  nonempty : ∀ e, e ∈ t.stacks → e.2 ≠ []
  netEq : ∀ a b, net t.edges a b = ((t.stk (a, b)).length : Int) - ((t.stk (b, a)).length : Int)

theorem edges_add (t : HT) (a b : Nat)
    (hst : ∀ i, (t.addHalfedge a b).st i = if i = t.size then a else t.st i)
    (hen : ∀ i, (t.addHalfedge a b).en i = if i = t.size then b else t.en i) :
    (t.addHalfedge a b).edges = t.edges ++ [(a, b)] := by
  unfold HT.edges
  rw [add_size, List.range_succ, List.map_append]
  congr 1
  · apply List.map_congr_left
    intro i hi
    have : i ≠ t.size := by have := List.mem_range.1 hi; omega
    simp [hst, hen, this]
  · simp [hst, hen]

theorem setStack_nonempty (m : Stacks) (k : Edge) (st : List Nat) (h : ∀ e, e ∈ m → e.2 ≠ []) :
    ∀ e, e ∈ setStack m k st → e.2 ≠ [] := by
  intro e he
  unfold setStack at he
  dsimp only at he
  split at he
  · exact h e (List.mem_filter.1 he).1
  · next hne =>
    rcases List.mem_cons.1 he with h1 | h1
    · subst h1; simpa using hne
    · exact h e (List.mem_filter.1 h1).1

theorem hinv_empty : HInv HT.empty := by
  constructor <;> simp [HT.empty, HT.size, HT.stk, stackOf, HT.edges]

theorem hinv_add (t : HT) (hI : HInv t) (a b : Nat) : HInv (t.addHalfedge a b) := by
  cases hc : t.stk (b, a) with
  | nil =>
    obtain ⟨hst, hen, hpr, hstk⟩ := add_push t a b hc
    have hedges := edges_add t a b hst hen
    constructor
    · intro h hh; rw [add_size] at hh; have := hI.prLow h; rw [hpr]; grind
    · intro h hh p hp
      rw [add_size] at hh ⊢
      have := hI.pair h
      rw [hpr] at hp
      simp only [hst, hen, hpr]
      grind
    · intro k h
      rw [add_size, hstk, hst, hen, hpr]
      have := hI.stk k h
      have := hI.stk (a, b) h
      grind
    · intro k
      rw [hstk]
      have := hI.nodup k
      have := hI.stk (a, b) t.size
      split
      · next hk => subst hk; rw [List.nodup_cons]; exact ⟨fun hm => by have := ((hI.stk (a, b) t.size).1 hm).1; omega, hI.nodup _⟩
      · exact hI.nodup k
    · intro x y hxy
      have := hI.excl x y hxy
      simp only [hstk]
      grind
    · intro x
      have := hI.self x
      simp only [hstk]
      grind
    · unfold HT.stk at hc
      simp only [HT.addHalfedge, hc]
      exact setStack_nonempty _ _ _ hI.nonempty
    · intro x y
      rw [hedges, net_append, net_cons, net_nil, hI.netEq, hstk, hstk]
      unfold ind
      have : (x, y) = (a, b) ↔ (x = a ∧ y = b) := by simp
      have : (y, x) = (a, b) ↔ (y = a ∧ x = b) := by simp
      by_cases h1 : x = a ∧ y = b <;> by_cases h2 : y = a ∧ x = b <;> simp [*] <;> grind
  | cons p rest =>
    have hp := (hI.stk (b, a) p).1 (by rw [hc]; exact List.mem_cons_self)
    obtain ⟨hst, hen, hpr, hstk⟩ := add_pop t a b p rest hc hp.1
    have hedges := edges_add t a b hst hen
    have hnd := hI.nodup (b, a)
    rw [hc, List.nodup_cons] at hnd
    constructor
    · intro h hh; rw [add_size] at hh; have := hI.prLow h; rw [hpr]; grind
    · intro h hh q hq
      rw [add_size] at hh ⊢
      have := hI.pair h
      rw [hpr] at hq
      simp only [hst, hen, hpr]
      grind
    · intro k h
      rw [add_size, hstk, hst, hen, hpr]
      have := hI.stk k h
      have := hI.stk (b, a) h
      rw [hc] at this
      grind
    · intro k
      rw [hstk]
      split
      · exact hnd.2
      · exact hI.nodup k
    · intro x y hxy
      have := hI.excl x y hxy
      simp only [hstk]
      grind
    · intro x
      have := hI.self x
      simp only [hstk]
      grind
    · unfold HT.stk at hc
      simp only [HT.addHalfedge, hc]
      exact setStack_nonempty _ _ _ hI.nonempty
    · intro x y
      rw [hedges, net_append, net_cons, net_nil, hI.netEq, hstk, hstk]
      unfold ind
      have hba : a ≠ b → t.stk (a, b) = [] := by
        intro hab
        rcases hI.excl a b hab with h | h
        · exact h
        · rw [hc] at h; cases h
      have : (x, y) = (b, a) ↔ (x = b ∧ y = a) := by simp
      have : (y, x) = (b, a) ↔ (y = b ∧ x = a) := by simp
      by_cases h1 : x = a ∧ y = b <;> by_cases h2 : y = a ∧ x = b <;> simp [*] <;> grind

theorem edges_addHalfedge (t : HT) (hI : HInv t) (a b : Nat) :
    (t.addHalfedge a b).edges = t.edges ++ [(a, b)] := by
  cases hc : t.stk (b, a) with
  | nil =>
    obtain ⟨hst, hen, _, _⟩ := add_push t a b hc
    exact edges_add t a b hst hen
  | cons p rest =>
    have hp := (hI.stk (b, a) p).1 (by rw [hc]; exact List.mem_cons_self)
    obtain ⟨hst, hen, _, _⟩ := add_pop t a b p rest hc hp.1
    exact edges_add t a b hst hen

theorem hinv_addEdges (t : HT) (hI : HInv t) (es : List Edge) :
    HInv (t.addEdges es) ∧ (t.addEdges es).edges = t.edges ++ es := by
  induction es generalizing t with
  | nil => simp [HT.addEdges, hI]
  | cons e es ih =>
    have := ih (t.addHalfedge e.1 e.2) (hinv_add t hI e.1 e.2)
    simp only [HT.addEdges, List.foldl_cons] at this ⊢
    refine ⟨this.1, ?_⟩
    rw [this.2, edges_addHalfedge t hI]; simp

theorem addTriangle_eq (t : HT) (tr : Tri) : t.addTriangle tr = t.addEdges (triEdgesOf tr) := rfl

theorem addTriangles_eq (t : HT) (ts : List Tri) : t.addTriangles ts = t.addEdges (triEdges ts) := by
  induction ts generalizing t with
  | nil => rfl
  | cons tr ts ih =>
    simp only [HT.addTriangles, List.foldl_cons] at ih ⊢
    rw [ih, addTriangle_eq]
    simp [HT.addEdges, triEdges, List.foldl_append]

/-- if the added halfedges cancel in the group and none is a self-loop, nothing is left unpaired -/
theorem hinv_all_paired (t : HT) (hI : HInv t) (hnet : ∀ a b, net t.edges a b = 0)
    (hloop : ∀ i, i < t.size → t.st i ≠ t.en i) :
    t.stacks = [] ∧ ∀ i, i < t.size → 0 ≤ t.pr i := by
  have hempty : ∀ k, t.stk k = [] := by
    intro k
    obtain ⟨a, b⟩ := k
    by_cases hab : a = b
    · subst hab
      cases hc : t.stk (a, a) with
      | nil => rfl
      | cons h rest =>
        have := (hI.stk (a, a) h).1 (by rw [hc]; exact List.mem_cons_self)
        have h1 := hloop h this.1
        have h2 := this.2.2
        simp only [Prod.mk.injEq] at h2
        exact absurd (h2.1.trans h2.2.symm) h1
    · have h1 := hI.netEq a b
      rw [hnet] at h1
      rcases hI.excl a b hab with h | h
      · exact h
      · rw [h] at h1
        simp only [List.length_nil] at h1
        exact List.eq_nil_of_length_eq_zero (by omega)
  constructor
  · cases hs : t.stacks with
    | nil => rfl
    | cons e m =>
      have h1 := hempty e.1
      have h2 := hI.nonempty e (by rw [hs]; exact List.mem_cons_self)
      unfold HT.stk stackOf at h1
      rw [hs] at h1
      simp [List.lookup] at h1
      exact absurd h1 h2
  · intro i hi
    have h1 := hI.prLow i hi
    have h2 := hI.stk (t.st i, t.en i) i
    rw [hempty] at h2
    have : t.pr i ≠ -1 := by
      intro h; exact absurd (h2.2 ⟨hi, h, rfl⟩) (by simp)
    omega

theorem finalizeOk_of (t : HT) (hI : HInv t) (hs : t.stacks = [])
    (hp : ∀ i, i < t.size → 0 ≤ t.pr i) : t.finalizeOk = true := by
  unfold HT.finalizeOk
  simp only [hs, List.isEmpty_nil, Bool.true_and, List.all_eq_true, List.mem_range]
  intro i hi
  have h0 := hp i hi
  have := hI.pair i hi (t.pr i).toNat (by omega)
  unfold HT.pr HT.st HT.en HT.size at *
  simp only [Bool.and_eq_true, decide_eq_true_eq, beq_iff_eq]
  exact ⟨⟨h0, this.1⟩, ⟨this.2.1, this.2.2.2.1.symm⟩, this.2.2.1.symm⟩

theorem net_map_swap (es : List Edge) (a b : Nat) :
    net (es.map fun e => (e.2, e.1)) a b = - net es a b := by
  unfold net; rw [count_map_swap, count_map_swap]; omega

theorem mem_edges (t : HT) (i : Nat) (hi : i < t.size) : (t.st i, t.en i) ∈ t.edges := by
  unfold HT.edges
  exact List.mem_map.2 ⟨i, List.mem_range.2 hi, rfl⟩

theorem triEdges_noloop (ts : List Tri) (hd : ∀ t, t ∈ ts → TriDistinct t) :
    ∀ e, e ∈ triEdges ts → e.1 ≠ e.2 := by
  intro e he
  simp only [triEdges, List.mem_flatMap] at he
  obtain ⟨t, ht, he⟩ := he
  have := hd t ht
  simp only [triEdgesOf, List.mem_cons, List.not_mem_nil, or_false] at he
  rcases he with rfl | rfl | rfl
  · exact this.1
  · exact this.2.1
  · exact this.2.2

theorem halfedgeTriangulation_hinv (polys : List (List Nat)) (ts : List Tri) :
    HInv (halfedgeTriangulation polys ts) ∧
    (halfedgeTriangulation polys ts).edges =
      ((contourEdges polys).map fun e => (e.2, e.1)) ++ triEdges ts := by
  unfold halfedgeTriangulation HT.addContours
  rw [addTriangles_eq]
  have h1 := hinv_addEdges HT.empty hinv_empty ((contourEdges polys).map fun e => (e.2, e.1))
  have h2 := hinv_addEdges _ h1.1 (triEdges ts)
  refine ⟨h2.1, ?_⟩
  rw [h2.2, h1.2]
  simp [HT.edges, HT.empty, HT.size]

/-- `Finalize`'s asserts hold for contours + triangles whenever the triangles' boundary is the
    contours, no contour edge is a self-loop and no triangle is degenerate -/
theorem halfedgeTriangulation_ok (polys : List (List Nat)) (ts : List Tri)
    (hnet : ∀ a b, net (triEdges ts) a b = net (contourEdges polys) a b)
    (hcont : ∀ e, e ∈ contourEdges polys → e.1 ≠ e.2)
    (hd : ∀ t, t ∈ ts → TriDistinct t) :
    (halfedgeTriangulation polys ts).finalizeOk = true := by
  obtain ⟨hI, hE⟩ := halfedgeTriangulation_hinv polys ts
  have hall := hinv_all_paired _ hI
    (by intro a b; rw [hE, net_append, net_map_swap, hnet]; omega)
    (by
      intro i hi
      have := mem_edges _ i hi
      rw [hE, List.mem_append] at this
      rcases this with h | h
      · rw [List.mem_map] at h
        obtain ⟨e, he, heq⟩ := h
        have := hcont e he
        simp only [Prod.mk.injEq] at heq
        rw [← heq.1, ← heq.2]; exact fun h => this h.symm
      · exact triEdges_noloop ts hd _ h)
  exact finalizeOk_of _ hI hall.1 hall.2

/-! ## TriangulateConvex -/

/-- edge `p[t] → p[t+1]` evaluated at `(a,b)` -/
def pe (p : List Nat) (a b t : Nat) : Int := ind (p.getD t 0) (p.getD (t + 1) 0) a b

theorem triEdges_cons (t : Tri) (ts : List Tri) (a b : Nat) :
    net (triEdges (t :: ts)) a b = net (triEdgesOf t) a b + net (triEdges ts) a b := by
  simp only [triEdges, List.flatMap_cons, net_append]

theorem strip_net (p : List Nat) (a b : Nat) (fuel i k : Nat) (right : Bool)
    (hik : i ≤ k) (hf : k - i ≤ fuel + 1) :
    net (triEdges (strip p fuel i k right)) a b =
      (sumTo k (pe p a b) - sumTo i (pe p a b)) + ind (p.getD k 0) (p.getD i 0) a b := by
  induction fuel generalizing i k right with
  | zero =>
    have : k = i ∨ k = i + 1 := by omega
    rcases this with rfl | rfl
    · simp [strip, triEdges, ind_self]
    · simp only [strip, triEdges, List.flatMap_nil, net_nil, sumTo, pe]
      have := ind_swap (p.getD i 0) (p.getD (i + 1) 0) a b
      omega
  | succ fuel ih =>
    unfold strip
    by_cases h : i + 1 < k
    · simp only [h, if_true]
      cases right
      · -- left step: triangle (i, k-1, k), continue with (i, k-1)
        simp only [Bool.false_eq_true, if_false, triEdges_cons, bdTri_eq]
        rw [ih i (k - 1) _ (by omega) (by omega)]
        have hk : k = (k - 1) + 1 := by omega
        have e : sumTo k (pe p a b) = sumTo (k - 1) (pe p a b) + pe p a b (k - 1) := by
          conv => lhs; rw [hk]
          rfl
        rw [e]
        simp only [pe]
        rw [← hk]
        have := ind_swap (p.getD i 0) (p.getD (k - 1) 0) a b
        omega
      · simp only [if_true, triEdges_cons, bdTri_eq]
        rw [ih (i + 1) k _ (by omega) (by omega)]
        have e : sumTo (i + 1) (pe p a b) = sumTo i (pe p a b) + pe p a b i := rfl
        rw [e]
        simp only [pe]
        have := ind_swap (p.getD (i + 1) 0) (p.getD k 0) a b
        omega
    · have : k = i ∨ k = i + 1 := by omega
      simp only [h, if_false]
      rcases this with rfl | rfl
      · simp [triEdges, ind_self]
      · simp only [triEdges, List.flatMap_nil, net_nil, sumTo, pe]
        have := ind_swap (p.getD i 0) (p.getD (i + 1) 0) a b
        omega

theorem strip_length (p : List Nat) (fuel i k : Nat) (right : Bool)
    (hf : k - i ≤ fuel + 1) : (strip p fuel i k right).length = k - i - 1 := by
  induction fuel generalizing i k right with
  | zero => simp [strip]; omega
  | succ fuel ih =>
    unfold strip
    by_cases h : i + 1 < k
    · simp only [h, if_true]
      cases right
      · simp only [Bool.false_eq_true, if_false, List.length_cons]
        rw [ih i (k - 1) _ (by omega)]; omega
      · simp only [if_true, List.length_cons]
        rw [ih (i + 1) k _ (by omega)]; omega
    · simp only [h, if_false, List.length_nil]; omega

theorem polyEdges_net_open (p : List Nat) (hp : 1 ≤ p.length) (a b : Nat) :
    net (polyEdges p) a b =
      sumTo (p.length - 1) (pe p a b) + ind (p.getD (p.length - 1) 0) (p.getD 0 0) a b := by
  rw [net_polyEdges]
  obtain ⟨m, hm⟩ : ∃ m, p.length = m + 1 := ⟨p.length - 1, by omega⟩
  rw [hm]
  simp only [sumTo, Nat.add_sub_cancel, Nat.lt_irrefl, if_false]
  congr 1
  apply sumTo_congr
  intro v hv
  have : v + 1 < m + 1 := by omega
  simp [this, pe]

theorem stripPoly_net (p : List Nat) (a b : Nat) :
    net (triEdges (stripPoly p)) a b = net (polyEdges p) a b := by
  by_cases hp : 1 ≤ p.length
  case neg =>
    have : p = [] := List.eq_nil_of_length_eq_zero (by omega)
    subst this; rfl
  unfold stripPoly
  rw [strip_net p a b _ 0 _ true (by omega) (by omega), polyEdges_net_open p hp]
  simp [sumTo]

theorem stripPoly_length (p : List Nat) : (stripPoly p).length = p.length - 2 := by
  unfold stripPoly
  rw [strip_length _ _ _ _ _ (by omega)]; omega

theorem triangulateConvex_net (polys : List (List Nat)) (a b : Nat) :
    net (triEdges (triangulateConvex polys)) a b = net (contourEdges polys) a b := by
  induction polys with
  | nil => rfl
  | cons p ps ih =>
    simp only [triangulateConvex, contourEdges, triEdges, List.flatMap_cons, List.flatMap_append,
      net_append] at ih ⊢
    rw [ih]
    have := stripPoly_net p a b
    simp only [triEdges] at this
    rw [this]

theorem triangulateConvex_length (polys : List (List Nat)) :
    (triangulateConvex polys).length = (polys.map fun p => p.length - 2).sum := by
  induction polys with
  | nil => rfl
  | cons p ps ih =>
    simp only [triangulateConvex, List.flatMap_cons, List.length_append, List.map_cons,
      List.sum_cons, stripPoly_length] at ih ⊢
    rw [ih]

theorem strip_mem (p : List Nat) (fuel i k : Nat) (right : Bool) (t : Tri)
    (ht : t ∈ strip p fuel i k right) :
    ∃ x y z, i ≤ x ∧ x < y ∧ y < z ∧ z ≤ k ∧ t = (p.getD x 0, p.getD y 0, p.getD z 0) := by
  induction fuel generalizing i k right with
  | zero => simp [strip] at ht
  | succ fuel ih =>
    unfold strip at ht
    by_cases h : i + 1 < k
    · simp only [h, if_true, List.mem_cons] at ht
      rcases ht with rfl | ht
      · cases right
        · exact ⟨i, k - 1, k, by omega, by omega, by omega, by omega, by simp⟩
        · exact ⟨i, i + 1, k, by omega, by omega, by omega, by omega, by simp⟩
      · cases right
        · simp only [Bool.false_eq_true, if_false] at ht
          obtain ⟨x, y, z, h1, h2, h3, h4, h5⟩ := ih _ _ _ ht
          exact ⟨x, y, z, h1, h2, h3, by omega, h5⟩
        · simp only [if_true] at ht
          obtain ⟨x, y, z, h1, h2, h3, h4, h5⟩ := ih _ _ _ ht
          exact ⟨x, y, z, by omega, h2, h3, h4, h5⟩
    · simp [h] at ht

theorem nodup_getD_ne (p : List Nat) (hp : p.Nodup) (x y : Nat) (hxy : x < y) (hy : y < p.length) :
    p.getD x 0 ≠ p.getD y 0 := by
  have hx : x < p.length := by omega
  rw [List.getD_eq_getElem?_getD, List.getD_eq_getElem?_getD, List.getElem?_eq_getElem hx,
    List.getElem?_eq_getElem hy]
  simp only [Option.getD_some]
  exact (List.pairwise_iff_getElem.1 hp) x y hx hy hxy

theorem stripPoly_distinct (p : List Nat) (hp : p.Nodup) :
    ∀ t, t ∈ stripPoly p → TriDistinct t := by
  intro t ht
  obtain ⟨x, y, z, _, h2, h3, h4, rfl⟩ := strip_mem _ _ _ _ _ _ ht
  have hlen : 0 < p.length := by
    cases p with
    | nil => simp [stripPoly, strip] at ht
    | cons => simp
  exact ⟨nodup_getD_ne p hp x y h2 (by omega), nodup_getD_ne p hp y z h3 (by omega),
    fun h => nodup_getD_ne p hp x z (by omega) (by omega) h.symm⟩

theorem stripPoly_in (p : List Nat) : ∀ t, t ∈ stripPoly p → TriIn p t := by
  intro t ht
  obtain ⟨x, y, z, _, h2, h3, h4, rfl⟩ := strip_mem _ _ _ _ _ _ ht
  have hlen : 0 < p.length := by
    cases p with
    | nil => simp [stripPoly, strip] at ht
    | cons => simp
  exact ⟨getD_mem p x (by omega), getD_mem p y (by omega), getD_mem p z (by omega)⟩

theorem polyEdges_noloop (p : List Nat) (hp : p.Nodup) (hlen : 2 ≤ p.length) :
    ∀ e, e ∈ polyEdges p → e.1 ≠ e.2 := by
  intro e he
  simp only [polyEdges, List.mem_map, List.mem_range] at he
  obtain ⟨i, hi, rfl⟩ := he
  dsimp only
  split
  · next h => exact nodup_getD_ne p hp i (i + 1) (by omega) h
  · next h => exact fun h' => nodup_getD_ne p hp 0 i (by omega) hi h'.symm

/-! ## rings of exactly two verts -/

theorem allTwo_facts (s : State) (h : Linked s) (hd : ringsAllTwo s = true) (v : Nat)
    (hv : v < s.n) (hl : s.live v) : s.R v ≠ v ∧ s.R (s.R v) = v ∧ s.R v < s.n ∧ s.live (s.R v) := by
  simp only [ringsAllTwo, List.all_eq_true, List.mem_range, Bool.or_eq_true, Bool.and_eq_true,
    beq_iff_eq, State.clipped, bne_iff_ne] at hd
  rcases hd v hv with h1 | h1
  · exact absurd hl h1
  · refine ⟨h1.2, ?_, (h.range v hv).2, (h.live v hv hl).2⟩
    rw [h1.1]; exact (h.live v hv hl).1

theorem ring_allTwo (s : State) (h : Linked s) (hd : ringsAllTwo s = true) (v : Nat)
    (hv : v < s.n) (hl : s.live v) : ring s v = [v, s.R v] := by
  obtain ⟨h1, h2, h3, _⟩ := allTwo_facts s h hd v hv hl
  obtain ⟨m, hm⟩ : ∃ m, s.n = m + 2 := ⟨s.n - 2, by omega⟩
  unfold ring
  rw [hm]
  simp [ringFrom, h1, h2]

theorem ringReps_allTwo (s : State) (h : Linked s) (hd : ringsAllTwo s = true) :
    ringReps s = (liveList s).filter (fun v => decide (v ≤ s.R v)) := by
  unfold ringReps
  apply List.filter_congr
  intro v hv
  rw [mem_liveList] at hv
  rw [ring_allTwo s h hd v hv.1 hv.2]
  simp

theorem liveCount_allTwo (s : State) (h : Linked s) (hd : ringsAllTwo s = true) :
    liveCount s = 2 * numRings s := by
  unfold numRings liveCount
  rw [ringReps_allTwo s h hd]
  have hsplit := List.length_eq_countP_add_countP (fun v => decide (v ≤ s.R v)) (l := liveList s)
  rw [List.countP_eq_length_filter, List.countP_eq_length_filter] at hsplit
  have hperm : (((liveList s).filter (fun v => decide (v ≤ s.R v))).map s.R).Perm
      ((liveList s).filter (fun v => decide ¬ (decide (v ≤ s.R v) = true))) := by
    rw [List.perm_ext_iff_of_nodup]
    · intro w
      simp only [List.mem_map, List.mem_filter, mem_liveList, decide_eq_true_eq]
      constructor
      · rintro ⟨v, ⟨⟨hv, hl⟩, hle⟩, rfl⟩
        obtain ⟨h1, h2, h3, h4⟩ := allTwo_facts s h hd v hv hl
        refine ⟨⟨h3, h4⟩, ?_⟩
        rw [h2]; omega
      · rintro ⟨⟨hw, hl⟩, hlt⟩
        obtain ⟨h1, h2, h3, h4⟩ := allTwo_facts s h hd w hw hl
        exact ⟨s.R w, ⟨⟨h3, h4⟩, by rw [h2]; omega⟩, h2⟩
    · apply nodup_map_on (List.Nodup.sublist List.filter_sublist (liveList_nodup s))
      intro x hx y hy hxy
      simp only [List.mem_filter, mem_liveList] at hx hy
      have h1 := hx.1.2; have h2 := hy.1.2
      unfold State.live at h1 h2
      rw [← h1, ← h2, hxy]
    · exact List.Nodup.sublist List.filter_sublist (liveList_nodup s)
  have := hperm.length_eq
  rw [List.length_map] at this
  omega


/-! ## number of clips -/

def numClips : List Op → Nat
  | [] => 0
  | .clip _ :: r => numClips r + 1
  | .join _ _ :: r => numClips r

theorem run_emit (st : State) (ops : List Op) :
    (run st ops).tris.length + (run st ops).skipped = st.tris.length + st.skipped + numClips ops := by
  induction ops generalizing st with
  | nil => rfl
  | cons op rest ih =>
    have e : run st (op :: rest) = run (step st op) rest := rfl
    rw [e, ih]
    cases op with
    | clip v => have := clipEar_emit st v; simp only [step, numClips]; omega
    | join s c =>
      have : (joinPolygons st s c).skipped = st.skipped := by simp only [joinPolygons]
      simp only [step, numClips, join_tris, this]

/-! ## the driver's net check -/

theorem net_eq_zero_of_not_mem (es : List Edge) (a b : Nat) (h1 : (a, b) ∉ es) (h2 : (b, a) ∉ es) :
    net es a b = 0 := by
  unfold net
  rw [List.count_eq_zero_of_not_mem h1, List.count_eq_zero_of_not_mem h2]; rfl

/-- the driver's brute-force comparison decides equality in the group -/
theorem netEqCheck_iff (es₁ es₂ : List Edge) :
    netEqCheck es₁ es₂ = true ↔ ∀ a b, net es₁ a b = net es₂ a b := by
  unfold netEqCheck allEdgeKeys
  simp only [List.all_eq_true, beq_iff_eq]
  constructor
  · intro h a b
    by_cases hm : (a, b) ∈ es₁ ++ es₂ ∨ (b, a) ∈ es₁ ++ es₂
    · rcases hm with hm | hm
      · exact h (a, b) (List.mem_append_left _ hm)
      · have := h (b, a) (List.mem_append_left _ hm)
        rw [net_anti es₁, net_anti es₂]; dsimp only at this; omega
    · have h1 : (a, b) ∉ es₁ ++ es₂ := fun h => hm (Or.inl h)
      have h2 : (b, a) ∉ es₁ ++ es₂ := fun h => hm (Or.inr h)
      simp only [List.mem_append, not_or] at h1 h2
      rw [net_eq_zero_of_not_mem es₁ a b h1.1 h2.1, net_eq_zero_of_not_mem es₂ a b h1.2 h2.2]
  · intro h e _
    exact h e.1 e.2

/-! ## `Initialize` line by line = closed form -/

theorem vert_eq {a b : Vert} (h1 : a.meshIdx = b.meshIdx) (h2 : a.left = b.left)
    (h3 : a.right = b.right) : a = b := by
  cases a; cases b; simp_all

theorem getV_lt (a : Array Vert) (j : Nat) (h : j < a.size) : getV a j = a[j] := by
  unfold getV; simp [Array.getD_eq_getD_getElem?, h]

theorem array_ext_getV (a b : Array Vert) (hs : a.size = b.size)
    (h : ∀ j, j < a.size → getV a j = getV b j) : a = b := by
  apply Array.ext hs
  intro i h1 h2
  have := h i h1
  rwa [getV_lt a i h1, getV_lt b i h2] at this

/-- loop invariant of the inner `for (++vert; …)` loop of `Initialize` after the verts `done` -/
structure SeqInv (vs : Array Vert) (i0 : Nat) (done : List Nat) (arr : Array Vert) (last : Nat) : Prop where
  size : arr.size = vs.size + 1 + done.length
  last : last = vs.size + done.length
  old : ∀ j, j < vs.size → getV arr j = getV vs j
  mesh : ∀ i, i ≤ done.length → (getV arr (vs.size + i)).meshIdx = (i0 :: done).getD i 0
  left : ∀ i, i ≤ done.length → (getV arr (vs.size + i)).left = if i = 0 then 0 else vs.size + i - 1
  right : ∀ i, i ≤ done.length → (getV arr (vs.size + i)).right = if i < done.length then vs.size + i + 1 else 0

def seqStep (acc : Array Vert × Nat) (i : Nat) : Array Vert × Nat :=
  (linkV (acc.1.push ⟨i, 0, 0⟩) acc.2 acc.1.size, acc.1.size)

theorem getD_snoc (l : List Nat) (x i : Nat) :
    (l ++ [x]).getD i 0 = if i < l.length then l.getD i 0 else if i = l.length then x else 0 := by
  simp only [List.getD_eq_getElem?_getD, List.getElem?_append]
  split
  · rfl
  · split
    · next h1 h2 => simp [h2]
    · next h1 h2 =>
      have : i - l.length ≠ 0 := by omega
      rw [List.getElem?_eq_none (by simp; omega)]; rfl

theorem seqInv_step (vs : Array Vert) (i0 : Nat) (done : List Nat) (arr : Array Vert) (last x : Nat)
    (h : SeqInv vs i0 done arr last) :
    SeqInv vs i0 (done ++ [x]) (seqStep (arr, last) x).1 (seqStep (arr, last) x).2 := by
  have hs := h.size
  have hl := h.last
  constructor
  · simp [seqStep, hs]; omega
  · simp [seqStep, hs]; omega
  · intro j hj
    have := h.old j hj
    apply vert_eq
    · simp only [seqStep, mesh_linkV, getV_push]; grind
    · simp only [seqStep, left_linkV, getV_push, Array.size_push]; grind
    · simp only [seqStep, right_linkV, getV_push, Array.size_push]; grind
  · intro i hi
    have := h.mesh i
    have e : (i0 :: (done ++ [x])) = (i0 :: done) ++ [x] := rfl
    simp only [seqStep, mesh_linkV, getV_push, e, getD_snoc, List.length_cons, List.length_append] at *
    grind
  · intro i hi
    have := h.left i
    simp only [seqStep, left_linkV, getV_push, Array.size_push, List.length_append,
      List.length_singleton] at *
    grind
  · intro i hi
    have := h.right i
    simp only [seqStep, right_linkV, getV_push, Array.size_push, List.length_append,
      List.length_singleton] at *
    grind

theorem seqInv_foldl (vs : Array Vert) (i0 : Nat) (rest done : List Nat) (arr : Array Vert) (last : Nat)
    (h : SeqInv vs i0 done arr last) :
    SeqInv vs i0 (done ++ rest) (rest.foldl seqStep (arr, last)).1 (rest.foldl seqStep (arr, last)).2 := by
  induction rest generalizing done arr last with
  | nil => simpa using h
  | cons x rest ih =>
    have := ih (done ++ [x]) _ _ (seqInv_step vs i0 done arr last x h)
    simpa using this

theorem seqInv_init (vs : Array Vert) (i0 : Nat) : SeqInv vs i0 [] (vs.push ⟨i0, 0, 0⟩) vs.size := by
  constructor
  · simp
  · simp
  · intro j hj; rw [getV_push]; have : j ≠ vs.size := by omega
    simp [this]
  · intro i hi; have : i = 0 := by simpa using hi
    subst this; simp [getV_push]
  · intro i hi; have : i = 0 := by simpa using hi
    subst this; simp [getV_push]
  · intro i hi; have : i = 0 := by simpa using hi
    subst this; simp [getV_push]

theorem initPolySeq_eq (vs : Array Vert) (p : List Nat) :
    initPolySeq vs p = vs ++ (initPoly vs.size p).toArray := by
  cases p with
  | nil => simp [initPolySeq, initPoly]
  | cons i0 rest =>
    have hinv := seqInv_foldl vs i0 rest [] _ _ (seqInv_init vs i0)
    simp only [List.nil_append] at hinv
    have hdef : initPolySeq vs (i0 :: rest) =
        linkV (rest.foldl seqStep (vs.push ⟨i0, 0, 0⟩, vs.size)).1
          (rest.foldl seqStep (vs.push ⟨i0, 0, 0⟩, vs.size)).2 vs.size := rfl
    rw [hdef]
    generalize (rest.foldl seqStep (vs.push ⟨i0, 0, 0⟩, vs.size)) = acc at hinv
    obtain ⟨arr, last⟩ := acc
    dsimp only at hinv ⊢
    have hs := hinv.size
    have hl := hinv.last
    have hget := appendPoly_getV ⟨vs, [], 0⟩ (i0 :: rest)
    simp only [appendPoly, State.n] at hget
    apply array_ext_getV
    · simp [initPoly, hs]; omega
    · intro j hj
      rw [size_linkV, hs] at hj
      rw [hget j]
      by_cases hjo : j < vs.size
      · have := hinv.old j hjo
        simp only [hjo, if_true]
        apply vert_eq
        · simp only [mesh_linkV]; rw [this]
        · simp only [left_linkV]; rw [← this]; grind
        · simp only [right_linkV]; rw [← this]; grind
      · have hj2 : j < vs.size + (i0 :: rest).length := by simp; omega
        simp only [hjo, hj2, if_true, if_false]
        obtain ⟨i, rfl⟩ : ∃ i, j = vs.size + i := ⟨j - vs.size, by omega⟩
        have hi : i ≤ rest.length := by omega
        have h1 := hinv.mesh i hi
        have h2 := hinv.left i hi
        have h3 := hinv.right i hi
        apply vert_eq
        · simp only [mesh_linkV, h1]; simp
        · simp only [left_linkV, h2, List.length_cons]; grind
        · simp only [right_linkV, h3, List.length_cons]; grind

theorem initStateSeq_eq (polys : List (List Nat)) : initStateSeq polys = initState polys := by
  unfold initStateSeq initState initVerts
  congr 1
  generalize (#[] : Array Vert) = vs
  induction polys generalizing vs with
  | nil => rfl
  | cons p ps ih => simp only [List.foldl_cons, initPolySeq_eq, ih]

end MV.EarClip
