import MV.Proof.Arrange2Adj
/-!
C11b: `ProcessEvent` keeps the status ordered.  The order is an arbitrary relation `below`; what ties it to the
oracles is stated as hypotheses: an UNDER edge is below, an OVER edge above every edge leaving the event point,
and two edges leaving the event point are ordered by the gradient comparison.
-/
namespace MV.Arr2
open MV.Sweep2

theorem take_lo_under (cls : List Side) : ∀ c ∈ cls.take (loIdx cls), c = Side.under := by
  induction cls with
  | nil => simp
  | cons c rest ih =>
    by_cases hc : c = Side.under
    · subst hc
      have : loIdx (Side.under :: rest) = loIdx rest + 1 := by simp [loIdx]
      rw [this]
      intro d hd
      simp only [List.take_succ_cons, List.mem_cons] at hd
      rcases hd with h | h
      · exact h
      · exact ih d h
    · have : loIdx (c :: rest) = 0 := by simp [loIdx, hc]
      rw [this]; simp

theorem mem_takeWhile_over (l : List Side) : ∀ c ∈ l.takeWhile (· = Side.over), c = Side.over := by
  induction l with
  | nil => simp
  | cons x rest ih =>
    intro c hc
    by_cases hx : x = Side.over
    · simp only [List.takeWhile_cons, hx, decide_true, if_true, List.mem_cons] at hc
      rcases hc with h | h
      · exact h
      · exact ih c h
    · simp [List.takeWhile_cons, hx] at hc

theorem drop_hi_over (cls : List Side) : ∀ c ∈ cls.drop (hiIdx cls), c = Side.over := by
  intro c hc
  unfold hiIdx at hc
  rw [← List.drop_drop] at hc
  generalize cls.drop (loIdx cls) = D at hc
  have hD : D = (D.reverse.dropWhile (· = Side.over)).reverse ++ (D.reverse.takeWhile (· = Side.over)).reverse := by
    rw [← List.reverse_append, List.takeWhile_append_dropWhile, List.reverse_reverse]
  have hlen : (D.reverse.dropWhile (· = Side.over)).length = (D.reverse.dropWhile (· = Side.over)).reverse.length := by
    simp
  rw [hlen] at hc
  have h2 : D.drop (D.reverse.dropWhile (· = Side.over)).reverse.length
      = (D.reverse.takeWhile (· = Side.over)).reverse := by
    conv => lhs; arg 2; rw [hD]
    rw [List.drop_left]
  rw [h2] at hc
  exact mem_takeWhile_over _ c (List.mem_reverse.mp hc)

theorem take_lo_under' (cls : List Side) (c : Side) (h : c ∈ cls.take (loIdx cls)) : c = Side.under := take_lo_under cls c h
theorem drop_hi_over' (cls : List Side) (c : Side) (h : c ∈ cls.drop (hiIdx cls)) : c = Side.over := drop_hi_over cls c h

/-- the strict part of the gradient comparison never holds both ways when the cross-product sign oracle is
    antisymmetric (as the IEEE product difference is) -/
theorem gradLE_total (o : Oracle) (hanti : ∀ al ar bl br, o.crossSign bl br al ar = - o.crossSign al ar bl br)
    (a b : SEdge) : (gradLE o a b || gradLE o b a) = true := by
  unfold gradLE gradientLess
  have h := hanti a.l a.r b.l b.r
  simp only
  by_cases h1 : gradientRank a = gradientRank b
  · rw [h1]
    by_cases h2 : gradientRank b = 0
    · simp only [h2, ne_eq, not_true_eq_false, if_false]
      by_cases h3 : o.crossSign a.l a.r b.l b.r = 0
      · rw [h3] at h; simp only [h3, h, Int.neg_zero, not_true_eq_false, if_false]
        by_cases h4 : a.seq < b.seq
        · have : ¬ b.seq < a.seq := by omega
          simp [this]
        · simp [h4]
      · have h3' : o.crossSign b.l b.r a.l a.r ≠ 0 := by omega
        simp only [h3, h3', not_false_eq_true, if_true]
        by_cases h4 : o.crossSign a.l a.r b.l b.r > 0
        · have : ¬ o.crossSign b.l b.r a.l a.r > 0 := by omega
          simp [this]
        · simp [h4]
    · simp only [ne_eq, not_true_eq_false, if_false, h2, not_false_eq_true, if_true]
      by_cases h4 : a.seq < b.seq
      · have : ¬ b.seq < a.seq := by omega
        simp [this]
      · simp [h4]
  · have h1' : gradientRank b ≠ gradientRank a := fun h => h1 h.symm
    simp only [ne_eq, h1, h1', not_false_eq_true, if_true]
    by_cases h4 : gradientRank a < gradientRank b
    · have : ¬ gradientRank b < gradientRank a := by omega
      simp [this]
    · simp [h4]

/-- **status_sorted_invariant** (core form, on the status after the re-insertion). -/
theorem prepare_sorted (o : Oracle) (mode : Mode) (rule : WindRule) (st : St) (p : Pt)
    (below : SEdge → SEdge → Prop)
    (hsorted : st.status.Pairwise below)
    (htot : ∀ a b, (gradLE o a b || gradLE o b a) = true)
    (htr : ∀ a b c, gradLE o a b = true → gradLE o b c = true → gradLE o a c = true)
    (hU : ∀ e ∈ st.status, classify o e p = Side.under → ∀ f, f.l = p → below e f)
    (hO : ∀ e ∈ st.status, classify o e p = Side.over → ∀ f, f.l = p → below f e)
    (hG : ∀ a b, a.l = p → b.l = p → gradLE o a b = true → below a b) :
    (prepare o mode rule st p).mid.status.Pairwise below := by
  have hlh := prepare_lo_le_hi o mode rule st p
  rw [prepare_status]
  have hsplit := status_split st.status _ _ hlh
  rw [hsplit] at hsorted
  have hs1 := List.pairwise_append.mp hsorted
  have hs2 := List.pairwise_append.mp hs1.1
  have hA : ∀ e ∈ st.status.take (prepare o mode rule st p).lo, classify o e p = Side.under := by
    intro e he
    apply take_lo_under (classes o st.status p)
    rw [← prepare_lo, classes, ← List.map_take]
    exact List.mem_map_of_mem he
  have hC : ∀ e ∈ st.status.drop (prepare o mode rule st p).hi, classify o e p = Side.over := by
    intro e he
    apply drop_hi_over (classes o st.status p)
    rw [← prepare_hi, classes, ← List.map_drop]
    exact List.mem_map_of_mem he
  have hRl : ∀ e ∈ sortReinsert o (reinsertOf o mode rule st p), e.l = p :=
    fun e he => reinsertOf_left o mode rule st p e ((sortReinsert_mem o _ e).mp he)
  have hR : (sortReinsert o (reinsertOf o mode rule st p)).Pairwise below := by
    have := pairwise_sortReinsert o htot htr (reinsertOf o mode rule st p)
    exact List.Pairwise.imp_of_mem (fun ha hb h => hG _ _ (hRl _ ha) (hRl _ hb) h) this
  apply List.pairwise_append.mpr
  refine ⟨List.pairwise_append.mpr ⟨hs2.1, hR, ?_⟩, hs1.2.1, ?_⟩
  · intro a ha r hr
    exact hU a (List.mem_of_mem_take ha) (hA a ha) r (hRl r hr)
  · intro x hx c hc
    rcases List.mem_append.mp hx with h | h
    · exact hs1.2.2 x (List.mem_append_left _ h) c hc
    · exact hO c (List.mem_of_mem_drop hc) (hC c hc) x (hRl x h)

end MV.Arr2
