/-
Lemmas for the x-sorted sweep of `CollectIntersectionPairs` (MV/Model/Broad2.lean):
a generic "sorted sweep with early break" and its exactness, the `byFirst` buckets, and the
lexicographic order of the emitted list.
-/
import MV.Model.Broad2

namespace MV.Broad2

/-! ## lexicographic order on pairs -/

/-- strict lexicographic order on index pairs -/
def pairLt (a b : Nat × Nat) : Prop := a.1 < b.1 ∨ (a.1 = b.1 ∧ a.2 < b.2)

theorem pairLt_irrefl (a : Nat × Nat) : ¬ pairLt a a := by
  unfold pairLt; omega

theorem nodup_of_pairwise_pairLt {l : List (Nat × Nat)} (h : l.Pairwise pairLt) : l.Nodup :=
  h.imp (fun {a b} hab e => by subst e; exact pairLt_irrefl a hab)

/-! ## `i` before `j` in a list -/

/-- `i` occurs before `j` -/
def Before (i j : Nat) (l : List Nat) : Prop := [i, j].Sublist l

theorem before_cons {i j a : Nat} {l : List Nat} :
    Before i j (a :: l) ↔ (i = a ∧ j ∈ l) ∨ Before i j l := by
  unfold Before
  rw [List.sublist_cons_iff]
  constructor
  · rintro (h | ⟨r, e, h⟩)
    · exact Or.inr h
    · simp only [List.cons.injEq] at e
      obtain ⟨e1, e2⟩ := e
      subst e2
      exact Or.inl ⟨e1, List.singleton_sublist.mp h⟩
  · rintro (⟨e, h⟩ | h)
    · subst e
      exact Or.inr ⟨[j], rfl, List.singleton_sublist.mpr h⟩
    · exact Or.inl h

theorem Before.mem {i j : Nat} {l : List Nat} (h : Before i j l) : i ∈ l ∧ j ∈ l := by
  constructor
  · exact h.subset (by simp)
  · exact h.subset (by simp)

theorem before_total {l : List Nat} {i j : Nat} (hi : i ∈ l) (hj : j ∈ l) (hij : i ≠ j) :
    Before i j l ∨ Before j i l := by
  induction l with
  | nil => simp at hi
  | cons a l ih =>
    simp only [List.mem_cons] at hi hj
    rcases hi with hi | hi <;> rcases hj with hj | hj
    · omega
    · exact Or.inl (before_cons.mpr (Or.inl ⟨hi, hj⟩))
    · exact Or.inr (before_cons.mpr (Or.inl ⟨hj, hi⟩))
    · rcases ih hi hj with h | h
      · exact Or.inl (before_cons.mpr (Or.inr h))
      · exact Or.inr (before_cons.mpr (Or.inr h))

/-! ## the generic sweep -/

/-- inner loop: stop at the first `j` with `brk i j`, keep the `j` with `keep i j` -/
def innerG (brk keep : Nat → Nat → Bool) (i : Nat) : List Nat → List (Nat × Nat)
  | [] => []
  | j :: rest =>
    if brk i j then []
    else if keep i j then (Min.min i j, Max.max i j) :: innerG brk keep i rest
    else innerG brk keep i rest

def outerG (brk keep : Nat → Nat → Bool) : List Nat → List (Nat × Nat)
  | [] => []
  | i :: rest => innerG brk keep i rest ++ outerG brk keep rest

/-- **The break is sound**: if the list is sorted by a key and `brk i ·` is monotone in the key,
then everything after the first `j` with `brk i j` also satisfies `brk i ·`, so the inner
loop keeps exactly the `j` with `¬ brk i j ∧ keep i j`. -/
theorem mem_innerG {brk keep : Nat → Nat → Bool} {key : Nat → Int}
    (hb : ∀ i a b, key a ≤ key b → brk i a = true → brk i b = true) (i : Nat) :
    ∀ (rest : List Nat), rest.Pairwise (fun a b => key a ≤ key b) → ∀ p,
      p ∈ innerG brk keep i rest ↔
        ∃ j, j ∈ rest ∧ brk i j = false ∧ keep i j = true ∧ p = (Min.min i j, Max.max i j) := by
  intro rest
  induction rest with
  | nil => intro _ p; simp [innerG]
  | cons j rest ih =>
    intro hs p
    rw [List.pairwise_cons] at hs
    obtain ⟨hj, hs'⟩ := hs
    unfold innerG
    by_cases hbr : brk i j = true
    · rw [if_pos hbr]
      constructor
      · intro h; cases h
      · rintro ⟨j', hm, hnb, _, _⟩
        rw [List.mem_cons] at hm
        rcases hm with e | hm
        · subst e; rw [hbr] at hnb; cases hnb
        · rw [hb i j j' (hj j' hm) hbr] at hnb; cases hnb
    · rw [if_neg hbr]
      have hbr' : brk i j = false := by simpa using hbr
      by_cases hk : keep i j = true
      · rw [if_pos hk, List.mem_cons, ih hs' p]
        constructor
        · rintro (e | ⟨j', hm, h1, h2, h3⟩)
          · exact ⟨j, List.mem_cons_self, hbr', hk, e⟩
          · exact ⟨j', List.mem_cons_of_mem _ hm, h1, h2, h3⟩
        · rintro ⟨j', hm, h1, h2, h3⟩
          rw [List.mem_cons] at hm
          rcases hm with e | hm
          · subst e; exact Or.inl h3
          · exact Or.inr ⟨j', hm, h1, h2, h3⟩
      · rw [if_neg hk, ih hs' p]
        constructor
        · rintro ⟨j', hm, h1, h2, h3⟩
          exact ⟨j', List.mem_cons_of_mem _ hm, h1, h2, h3⟩
        · rintro ⟨j', hm, h1, h2, h3⟩
          rw [List.mem_cons] at hm
          rcases hm with e | hm
          · subst e; exact absurd h2 hk
          · exact ⟨j', hm, h1, h2, h3⟩

theorem mem_outerG {brk keep : Nat → Nat → Bool} {key : Nat → Int}
    (hb : ∀ i a b, key a ≤ key b → brk i a = true → brk i b = true) :
    ∀ (l : List Nat), l.Pairwise (fun a b => key a ≤ key b) → ∀ p,
      p ∈ outerG brk keep l ↔
        ∃ i j, Before i j l ∧ brk i j = false ∧ keep i j = true ∧
          p = (Min.min i j, Max.max i j) := by
  intro l
  induction l with
  | nil =>
    intro _ p
    simp only [outerG, List.not_mem_nil, false_iff]
    rintro ⟨i, j, h, _⟩
    cases h
  | cons a l ih =>
    intro hs p
    rw [List.pairwise_cons] at hs
    obtain ⟨_, hs'⟩ := hs
    simp only [outerG, List.mem_append]
    rw [mem_innerG hb a l hs' p, ih hs' p]
    constructor
    · rintro (⟨j, hm, h1, h2, h3⟩ | ⟨i, j, hbf, h1, h2, h3⟩)
      · exact ⟨a, j, before_cons.mpr (Or.inl ⟨rfl, hm⟩), h1, h2, h3⟩
      · exact ⟨i, j, before_cons.mpr (Or.inr hbf), h1, h2, h3⟩
    · rintro ⟨i, j, hbf, h1, h2, h3⟩
      rcases before_cons.mp hbf with ⟨e, hm⟩ | hbf'
      · subst e; exact Or.inl ⟨j, hm, h1, h2, h3⟩
      · exact Or.inr ⟨i, j, hbf', h1, h2, h3⟩

theorem minmax_inj (i j j' : Nat)
    (h : (Min.min i j, Max.max i j) = (Min.min i j', Max.max i j')) : j = j' := by
  simp only [Prod.mk.injEq] at h
  omega

theorem innerG_sublist (brk keep : Nat → Nat → Bool) (i : Nat) : ∀ (rest : List Nat),
    (innerG brk keep i rest).Sublist (rest.map fun j => (Min.min i j, Max.max i j)) := by
  intro rest
  induction rest with
  | nil => simp [innerG]
  | cons j rest ih =>
    unfold innerG
    simp only [List.map_cons]
    split
    · exact List.nil_sublist _
    · split
      · exact List.cons_sublist_cons.mpr ih
      · exact List.Sublist.cons _ ih

theorem nodup_innerG (brk keep : Nat → Nat → Bool) (i : Nat) {rest : List Nat}
    (hn : rest.Nodup) : (innerG brk keep i rest).Nodup := by
  apply List.Nodup.sublist (innerG_sublist brk keep i rest)
  unfold List.Nodup
  rw [List.pairwise_map]
  exact hn.imp (fun {a b} hab e => hab (minmax_inj i a b e))

theorem innerG_has (brk keep : Nat → Nat → Bool) (i : Nat) : ∀ (rest : List Nat) p,
    p ∈ innerG brk keep i rest → (p.1 = i ∨ p.2 = i) ∧ (p.1 ∈ rest ∨ p.2 ∈ rest) := by
  intro rest p hp
  have := (innerG_sublist brk keep i rest).subset hp
  rw [List.mem_map] at this
  obtain ⟨j, hj, e⟩ := this
  subst e
  simp only
  constructor
  · omega
  · by_cases h : i ≤ j
    · right; rw [Nat.max_eq_right h]; exact hj
    · left; rw [Nat.min_eq_right (by omega)]; exact hj

theorem outerG_mem_both (brk keep : Nat → Nat → Bool) : ∀ (l : List Nat) p,
    p ∈ outerG brk keep l → p.1 ∈ l ∧ p.2 ∈ l := by
  intro l
  induction l with
  | nil => intro p h; simp [outerG] at h
  | cons a l ih =>
    intro p h
    simp only [outerG, List.mem_append] at h
    rcases h with h | h
    · have h0 := (innerG_sublist brk keep a l).subset h
      rw [List.mem_map] at h0
      obtain ⟨j, hj, e⟩ := h0
      subst e
      simp only
      by_cases hle : a ≤ j
      · rw [Nat.min_eq_left hle, Nat.max_eq_right hle]
        exact ⟨List.mem_cons_self, List.mem_cons_of_mem _ hj⟩
      · rw [Nat.min_eq_right (by omega), Nat.max_eq_left (by omega)]
        exact ⟨List.mem_cons_of_mem _ hj, List.mem_cons_self⟩
    · have := ih p h
      exact ⟨List.mem_cons_of_mem _ this.1, List.mem_cons_of_mem _ this.2⟩

theorem nodup_outerG (brk keep : Nat → Nat → Bool) : ∀ (l : List Nat), l.Nodup →
    (outerG brk keep l).Nodup := by
  intro l
  induction l with
  | nil => intro _; simp [outerG]
  | cons a l ih =>
    intro hn
    rw [List.nodup_cons] at hn
    obtain ⟨ha, hn'⟩ := hn
    simp only [outerG]
    rw [List.nodup_append]
    refine ⟨nodup_innerG brk keep a hn', ih hn', ?_⟩
    intro p hp q hq e
    subst e
    have h1 := (innerG_has brk keep a l p hp).1
    have h2 := outerG_mem_both brk keep l p hq
    rcases h1 with h1 | h1
    · rw [h1] at h2; exact ha h2.1
    · rw [h1] at h2; exact ha h2.2

/-! ## the `byFirst` buckets -/

theorem bucket_fold (raw : List (Nat × Nat)) : ∀ (acc : Array (Array Nat)) (f : Nat),
    f < acc.size →
    ((raw.foldl (fun acc p => acc.modify p.1 (fun s => s.push p.2)) acc).getD f #[]).toList =
      (acc.getD f #[]).toList ++ (raw.filter (fun p => p.1 == f)).map (·.2) := by
  induction raw with
  | nil => intro acc f _; simp
  | cons p raw ih =>
    intro acc f hf
    rw [List.foldl_cons, ih _ f (by rw [Array.size_modify]; exact hf)]
    rw [Array.getD_eq_getD_getElem?, Array.getElem?_modify, Array.getD_eq_getD_getElem?]
    by_cases e : p.1 = f
    · subst e
      have hs : acc[p.1]? = some acc[p.1] := Array.getElem?_eq_getElem hf
      simp [hs]
    · have : (p.1 == f) = false := by simpa using e
      simp [e, this]

theorem bucketPairs_spec (n : Nat) (raw : List (Nat × Nat)) (f : Nat) (hf : f < n) :
    ((bucketPairs n raw).getD f #[]).toList = (raw.filter (fun p => p.1 == f)).map (·.2) := by
  unfold bucketPairs
  rw [bucket_fold raw _ f (by simpa using hf)]
  simp [Array.getD_eq_getD_getElem?, hf]

/-! ## sorting integers -/

theorem natLe_trans (a b c : Nat) : (!decide (b < a)) = true → (!decide (c < b)) = true →
    (!decide (c < a)) = true := by
  simp only [Bool.not_eq_true', decide_eq_false_iff_not]; omega

theorem natLe_total (a b : Nat) : ((!decide (b < a)) || (!decide (a < b))) = true := by
  simp only [Bool.or_eq_true, Bool.not_eq_true', decide_eq_false_iff_not]; omega

theorem sortSmallInts_perm (l : List Nat) : (sortSmallInts l).Perm l := List.mergeSort_perm _ _

theorem sortSmallInts_sorted (l : List Nat) : (sortSmallInts l).Pairwise (· ≤ ·) := by
  have := List.pairwise_mergeSort (le := fun a b => !decide (b < a)) natLe_trans natLe_total l
  exact this.imp (fun {a b} h => by
    simp only [Bool.not_eq_true', decide_eq_false_iff_not] at h; omega)

theorem sortSmallInts_strict {l : List Nat} (hn : l.Nodup) : (sortSmallInts l).Pairwise (· < ·) := by
  have h1 := sortSmallInts_sorted l
  have h2 : (sortSmallInts l).Nodup := (sortSmallInts_perm l).symm.nodup hn
  exact (h1.and h2).imp (fun {a b} h => by omega)

/-! ## the emitted list: grouped by first index, seconds ascending -/

/-- the list emitted from the buckets of `raw` -/
def emit (n : Nat) (raw : List (Nat × Nat)) : List (Nat × Nat) :=
  (List.range n).flatMap fun first =>
    (sortSmallInts ((bucketPairs n raw).getD first #[]).toList).map fun second => (first, second)

theorem mem_emit {n : Nat} {raw : List (Nat × Nat)} (hlt : ∀ p ∈ raw, p.1 < n) (p : Nat × Nat) :
    p ∈ emit n raw ↔ p ∈ raw := by
  unfold emit
  rw [List.mem_flatMap]
  constructor
  · rintro ⟨f, hf, hp⟩
    rw [List.mem_range] at hf
    rw [List.mem_map] at hp
    obtain ⟨s, hs, e⟩ := hp
    rw [(sortSmallInts_perm _).mem_iff, bucketPairs_spec n raw f hf, List.mem_map] at hs
    obtain ⟨q, hq, e2⟩ := hs
    rw [List.mem_filter] at hq
    obtain ⟨hq1, hq2⟩ := hq
    have : q.1 = f := by simpa using hq2
    have : q = p := by rw [← e]; exact Prod.ext this e2
    rw [← this]; exact hq1
  · intro hp
    refine ⟨p.1, List.mem_range.mpr (hlt p hp), ?_⟩
    rw [List.mem_map]
    refine ⟨p.2, ?_, rfl⟩
    rw [(sortSmallInts_perm _).mem_iff, bucketPairs_spec n raw p.1 (hlt p hp), List.mem_map]
    exact ⟨p, List.mem_filter.mpr ⟨hp, by simp⟩, rfl⟩

theorem emit_sorted {n : Nat} {raw : List (Nat × Nat)} (hn : raw.Nodup) :
    (emit n raw).Pairwise pairLt := by
  unfold emit
  rw [List.pairwise_flatMap]
  constructor
  · intro f hf
    rw [List.mem_range] at hf
    rw [List.pairwise_map]
    have hnd : ((bucketPairs n raw).getD f #[]).toList.Nodup := by
      rw [bucketPairs_spec n raw f hf]
      unfold List.Nodup
      rw [List.pairwise_map]
      have h1 : (raw.filter (fun p => p.1 == f)).Nodup := List.Nodup.sublist List.filter_sublist hn
      refine List.Pairwise.imp_of_mem ?_ h1
      intro a b ha hb hab e
      rw [List.mem_filter] at ha hb
      have e1 : a.1 = f := by simpa using ha.2
      have e2 : b.1 = f := by simpa using hb.2
      exact hab (Prod.ext (by rw [e1, e2]) e)
    exact (sortSmallInts_strict hnd).imp (fun {a b} h => Or.inr ⟨rfl, h⟩)
  · refine List.pairwise_lt_range.imp ?_
    intro f1 f2 h x hx y hy
    rw [List.mem_map] at hx hy
    obtain ⟨_, _, ex⟩ := hx
    obtain ⟨_, _, ey⟩ := hy
    subst ex; subst ey
    exact Or.inl h

/-! ## the instance: `CollectIntersectionPairs` without a BVH -/

def minXof (boxes : Array Box2) (i : Nat) : Int := (boxAt boxes i).minX

/-- the `break` test -/
def xbrk (boxes : Array Box2) (i j : Nat) : Bool :=
  decide ((boxAt boxes j).minX > (boxAt boxes i).maxX)

/-- the closed y-interval test -/
def yov (boxes : Array Box2) (i j : Nat) : Bool :=
  decide ((boxAt boxes i).minY ≤ (boxAt boxes j).maxY) &&
  decide ((boxAt boxes i).maxY ≥ (boxAt boxes j).minY)

def xkeep (boxes : Array Box2) (skip : Nat → Nat → Bool) (i j : Nat) : Bool :=
  yov boxes i j && !skip i j

theorem yov_comm (boxes : Array Box2) (i j : Nat) : yov boxes i j = yov boxes j i := by
  unfold yov
  rw [Bool.and_comm]

theorem sweepInner_eq (boxes : Array Box2) (skip : Nat → Nat → Bool) (i : Nat) :
    ∀ rest, sweepInner boxes skip i rest = innerG (xbrk boxes) (xkeep boxes skip) i rest := by
  intro rest
  induction rest with
  | nil => rfl
  | cons j rest ih =>
    unfold sweepInner innerG
    simp only [xbrk, xkeep, yov, ih, decide_eq_true_eq]
    by_cases h1 : (boxAt boxes j).minX > (boxAt boxes i).maxX
    · simp [h1]
    · simp only [h1, if_false]
      by_cases h2 : (decide ((boxAt boxes i).minY ≤ (boxAt boxes j).maxY) &&
          decide ((boxAt boxes i).maxY ≥ (boxAt boxes j).minY)) = true
      · by_cases h3 : skip i j = true
        · simp [h2, h3]
        · simp [h2, h3]
      · simp [h2]

theorem sweepOuter_eq (boxes : Array Box2) (skip : Nat → Nat → Bool) :
    ∀ l, sweepOuter boxes skip l = outerG (xbrk boxes) (xkeep boxes skip) l := by
  intro l
  induction l with
  | nil => rfl
  | cons i rest ih => simp only [sweepOuter, outerG, sweepInner_eq, ih]

theorem xbrk_mono (boxes : Array Box2) : ∀ i a b, minXof boxes a ≤ minXof boxes b →
    xbrk boxes i a = true → xbrk boxes i b = true := by
  intro i a b h
  simp only [xbrk, minXof, decide_eq_true_eq] at *
  omega

/-- `i` is sorted strictly before `j`: smaller `min.x`, ties by index -/
def precedes (boxes : Array Box2) (i j : Nat) : Prop :=
  minXof boxes i < minXof boxes j ∨ (minXof boxes i = minXof boxes j ∧ i < j)

instance (boxes : Array Box2) (i j : Nat) : Decidable (precedes boxes i j) := by
  unfold precedes; infer_instance

theorem sweepLe_iff (boxes : Array Box2) (a b : Nat) :
    (!sweepLt boxes b a) = true ↔
      (minXof boxes a < minXof boxes b ∨ (minXof boxes a = minXof boxes b ∧ a ≤ b)) := by
  unfold sweepLt minXof
  by_cases h : (boxAt boxes b).minX = (boxAt boxes a).minX
  · simp [h]
  · have : ((boxAt boxes b).minX != (boxAt boxes a).minX) = true := by simpa using h
    simp only [this, if_true, Bool.not_eq_true', decide_eq_false_iff_not]
    omega

theorem sweepLe_trans (boxes : Array Box2) (a b c : Nat) :
    (!sweepLt boxes b a) = true → (!sweepLt boxes c b) = true → (!sweepLt boxes c a) = true := by
  rw [sweepLe_iff, sweepLe_iff, sweepLe_iff]; omega

theorem sweepLe_total (boxes : Array Box2) (a b : Nat) :
    ((!sweepLt boxes b a) || (!sweepLt boxes a b)) = true := by
  rw [Bool.or_eq_true, sweepLe_iff, sweepLe_iff]; omega

theorem sweepOrder_perm (boxes : Array Box2) :
    (sweepOrder boxes).Perm (List.range boxes.size) := List.mergeSort_perm _ _

theorem sweepOrder_nodup (boxes : Array Box2) : (sweepOrder boxes).Nodup :=
  (sweepOrder_perm boxes).symm.nodup List.nodup_range

theorem sweepOrder_mem (boxes : Array Box2) (i : Nat) : i ∈ sweepOrder boxes ↔ i < boxes.size := by
  rw [(sweepOrder_perm boxes).mem_iff, List.mem_range]

theorem sweepOrder_sorted (boxes : Array Box2) :
    (sweepOrder boxes).Pairwise (fun a b => (!sweepLt boxes b a) = true) :=
  List.pairwise_mergeSort (sweepLe_trans boxes) (sweepLe_total boxes) _

theorem sweepOrder_key (boxes : Array Box2) :
    (sweepOrder boxes).Pairwise (fun a b => minXof boxes a ≤ minXof boxes b) :=
  (sweepOrder_sorted boxes).imp (fun {a b} h => by
    rw [sweepLe_iff] at h; omega)

theorem before_ne {l : List Nat} (hn : l.Nodup) {i j : Nat} (h : Before i j l) : i ≠ j := by
  have : [i, j].Nodup := List.Nodup.sublist h hn
  simpa using this

/-- position in `order` = the sorting relation -/
theorem before_sweepOrder (boxes : Array Box2) {i j : Nat} (hi : i < boxes.size)
    (hj : j < boxes.size) (hij : i ≠ j) :
    Before i j (sweepOrder boxes) ↔ precedes boxes i j := by
  have key : ∀ a b, Before a b (sweepOrder boxes) → precedes boxes a b := by
    intro a b h
    have h1 := List.pairwise_pair.mp ((sweepOrder_sorted boxes).sublist h)
    have h2 := before_ne (sweepOrder_nodup boxes) h
    rw [sweepLe_iff] at h1
    unfold precedes; omega
  constructor
  · exact key i j
  · intro hp
    rcases before_total ((sweepOrder_mem boxes i).mpr hi) ((sweepOrder_mem boxes j).mpr hj) hij
      with h | h
    · exact h
    · have := key j i h
      unfold precedes at hp this; omega

end MV.Broad2
