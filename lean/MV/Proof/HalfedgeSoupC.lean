import MV.Proof.HalfedgeSoupB
/-!
C09b, part C: the initial state, the final pairing (impl.cpp:535-556) and the assembled statement:
on EVERY triangle list with an even number of triangles `createHalfedges` returns normally, every
slot of `halfedge_` is written exactly once, and what is written is described halfedge by halfedge.
-/
namespace MV.Halfedge
open MV.Mesh List

theorem prep_size (ts : List Tri) : (prep ts).size = 3 * ts.length := by
  rw [← Array.length_toList, prep_toList, length_map, length_dirEdges]

theorem prep_getD (ts : List Tri) (e : Nat) (he : e < 3 * ts.length) :
    (prep ts).getD e default = ⟨(edgeAt ts e).1, (edgeAt ts e).2, (edgeAt ts e).1⟩ := by
  have h1 : e < (prep ts).size := by rw [prep_size]; exact he
  have h2 : e < (dirEdges ts).length := by rw [length_dirEdges]; exact he
  rw [Array.getD_eq_getD_getElem?, ← Array.getElem?_toList, prep_toList]
  simp [edgeAt, List.getD_eq_getElem?_getD, h2]

theorem sortIds_perm (he : Array CH) : (sortIds he).toList ~ List.range he.size := by
  unfold sortIds
  exact List.mergeSort_perm _ _

theorem replicate_getD_false (n e : Nat) : (Array.replicate n false).getD e false = false := by
  rw [Array.getD_eq_getD_getElem?]
  by_cases h : e < n <;> simp [h]

theorem sinv_init (ts : List Tri) (M : Nat) (hM : 3 * ts.length = 2 * M) :
    SInv (prep ts) M 0 ⟨sortIds (prep ts), Array.replicate (3 * ts.length) false⟩ := by
  have hp := sortIds_perm (prep ts)
  rw [prep_size, hM] at hp
  refine ⟨by rw [prep_size, hM], by omega, ?_, by simp [hM], hp, ?_, ?_⟩
  · have := hp.length_eq; simpa using this
  · intro p _ hr; unfold remAt at hr; rw [replicate_getD_false] at hr; cases hr
  · intro j _; unfold remAt; rw [replicate_getD_false, replicate_getD_false]

/-- `removalState` never faults on an even triangle list -/
theorem removalState_spec (ts : List Tri) (M : Nat) (hM : 3 * ts.length = 2 * M) :
    ∃ s, removalState ts = .ok s ∧ SInv (prep ts) M M s := by
  obtain ⟨s, hs, inv⟩ := serialLoop_spec (he := prep ts) M 0 0 _ (by omega) (Nat.le_refl 0) (sinv_init ts M hM)
  refine ⟨s, ?_, inv⟩
  unfold removalState
  have : 3 * ts.length / 2 = M := by omega
  simp only [prep_size, this]; exact hs

/-- what the final pairing has written into the slot of the halfedge at position `p` of `ids` -/
def SlotOk (he : Array CH) (M : Nat) (s : St) (o : Out) (p : Nat) : Prop :=
  if remAt s.removed s.ids p = true then
    o.start[s.ids.getD p 0]? = some (-1) ∧ o.paired[s.ids.getD p 0]? = some (-1) ∧
    o.prop[s.ids.getD p 0]? = some 0
  else
    o.start[s.ids.getD p 0]? = some ((he.getD (s.ids.getD p 0) default).startVert : Int) ∧
    o.paired[s.ids.getD p 0]? = some ((s.ids.getD (if p < M then p + M else p - M) 0 : Nat) : Int) ∧
    o.prop[s.ids.getD p 0]? = some ((he.getD (s.ids.getD p 0) default).propVert : Int)

structure FQ (he : Array CH) (M : Nat) (s : St) (i : Nat) (o : Out) : Prop where
  ssize : o.start.size = 2 * M
  psize : o.paired.size = 2 * M
  qsize : o.prop.size = 2 * M
  done : ∀ p, (p < i ∨ (M ≤ p ∧ p < M + i)) → SlotOk he M s o p

theorem set2_get' {x : Array Int} {p0 p1 : Nat} {v0 v1 : Int} (h0 : p0 < x.size) (h1 : p1 < x.size)
    (e : Nat) :
    ((x.setIfInBounds p0 v0).setIfInBounds p1 v1)[e]?
      = if p1 = e then some v1 else if p0 = e then some v0 else x[e]? := by
  simp only [Array.getElem?_setIfInBounds, Array.size_setIfInBounds, h0, h1, if_true]

theorem finishStep_spec {he : Array CH} {M : Nat} {s : St} (h : SInv he M M s) {i : Nat} (hi : i < M)
    {o : Out} (fi : FQ he M s i o) :
    ∃ o', finishStep he M s o i = .ok o' ∧ FQ he M s (i + 1) o' := by
  have hv := perm_val h.isz h.perm
  have hinj := perm_inj h.isz h.perm
  have hl0 := hv i (by omega)
  have hl1 := hv (i + M) (by omega)
  have hne : s.ids.getD (i + M) 0 ≠ s.ids.getD i 0 := fun e => by
    have := hinj _ _ (by omega) (by omega) e; omega
  have hp0 : rd s.ids (i : Int) = .ok (s.ids.getD i 0) := rd_nat 0 (by rw [h.isz]; omega)
  have hp1 : rd s.ids ((i : Int) + (M : Int)) = .ok (s.ids.getD (i + M) 0) := by
    have := rd_nat (x := s.ids) (k := i + M) 0 (by rw [h.isz]; omega)
    rwa [Int.natCast_add] at this
  have hr : rd s.removed ((s.ids.getD i 0 : Nat) : Int) = .ok (remAt s.removed s.ids i) :=
    rd_nat false (by rw [h.rsz]; exact hl0)
  have hh0 : rd he ((s.ids.getD i 0 : Nat) : Int) = .ok (he.getD (s.ids.getD i 0) default) :=
    rd_nat default (by rw [h.hsz]; exact hl0)
  have hh1 : rd he ((s.ids.getD (i + M) 0 : Nat) : Int) = .ok (he.getD (s.ids.getD (i + M) 0) default) :=
    rd_nat default (by rw [h.hsz]; exact hl1)
  have W : ∀ (x : Array Int) (v0 v1 : Int), x.size = 2 * M →
      (wr x ((s.ids.getD i 0 : Nat) : Int) v0).bind (fun y => wr y ((s.ids.getD (i + M) 0 : Nat) : Int) v1)
        = .ok ((x.setIfInBounds (s.ids.getD i 0) v0).setIfInBounds (s.ids.getD (i + M) 0) v1) := by
    intro x v0 v1 hx
    rw [wr_nat v0 (by rw [hx]; exact hl0)]
    show wr _ _ _ = _
    rw [wr_nat v1 (by rw [Array.size_setIfInBounds, hx]; exact hl1)]
  -- the generic preservation argument
  have keep : ∀ (o' : Out) (a0 a1 b0 b1 c0 c1 : Int),
      o'.start = (o.start.setIfInBounds (s.ids.getD i 0) a0).setIfInBounds (s.ids.getD (i + M) 0) a1 →
      o'.paired = (o.paired.setIfInBounds (s.ids.getD i 0) b0).setIfInBounds (s.ids.getD (i + M) 0) b1 →
      o'.prop = (o.prop.setIfInBounds (s.ids.getD i 0) c0).setIfInBounds (s.ids.getD (i + M) 0) c1 →
      ∀ p, p < 2 * M → p ≠ i → p ≠ i + M → SlotOk he M s o p → SlotOk he M s o' p := by
    intro o' a0 a1 b0 b1 c0 c1 e1 e2 e3 p hp h1 h2 hs
    have n0 : s.ids.getD i 0 ≠ s.ids.getD p 0 := fun e => h1 (hinj _ _ hp (by omega) e.symm)
    have n1 : s.ids.getD (i + M) 0 ≠ s.ids.getD p 0 := fun e => h2 (hinj _ _ hp (by omega) e.symm)
    unfold SlotOk at hs ⊢
    rw [e1, e2, e3, set2_get' (by rw [fi.ssize]; exact hl0) (by rw [fi.ssize]; exact hl1),
      set2_get' (by rw [fi.psize]; exact hl0) (by rw [fi.psize]; exact hl1),
      set2_get' (by rw [fi.qsize]; exact hl0) (by rw [fi.qsize]; exact hl1)]
    simp only [n0, n1, if_false]
    exact hs
  have w : ∀ (x : Array Int) (e : Nat) (v : Int), x.size = 2 * M → e < 2 * M →
      wr x (e : Int) v = .ok (x.setIfInBounds e v) := fun x e v hx he => wr_nat v (by omega)
  have fin : ∀ (a0 a1 b0 b1 c0 c1 : Int),
      SlotOk he M s ⟨(o.start.setIfInBounds (s.ids.getD i 0) a0).setIfInBounds (s.ids.getD (i + M) 0) a1,
        (o.paired.setIfInBounds (s.ids.getD i 0) b0).setIfInBounds (s.ids.getD (i + M) 0) b1,
        (o.prop.setIfInBounds (s.ids.getD i 0) c0).setIfInBounds (s.ids.getD (i + M) 0) c1⟩ i →
      SlotOk he M s ⟨(o.start.setIfInBounds (s.ids.getD i 0) a0).setIfInBounds (s.ids.getD (i + M) 0) a1,
        (o.paired.setIfInBounds (s.ids.getD i 0) b0).setIfInBounds (s.ids.getD (i + M) 0) b1,
        (o.prop.setIfInBounds (s.ids.getD i 0) c0).setIfInBounds (s.ids.getD (i + M) 0) c1⟩ (i + M) →
      FQ he M s (i + 1) ⟨(o.start.setIfInBounds (s.ids.getD i 0) a0).setIfInBounds (s.ids.getD (i + M) 0) a1,
        (o.paired.setIfInBounds (s.ids.getD i 0) b0).setIfInBounds (s.ids.getD (i + M) 0) b1,
        (o.prop.setIfInBounds (s.ids.getD i 0) c0).setIfInBounds (s.ids.getD (i + M) 0) c1⟩ := by
    intro a0 a1 b0 b1 c0 c1 s0 s1
    refine ⟨by simp [fi.ssize], by simp [fi.psize], by simp [fi.qsize], ?_⟩
    intro p hp
    by_cases h1 : p = i
    · rw [h1]; exact s0
    · by_cases h2 : p = i + M
      · rw [h2]; exact s1
      · exact keep _ a0 a1 b0 b1 c0 c1 rfl rfl rfl p (by omega) h1 h2 (fi.done p (by omega))
  have g0 := fun (x : Array Int) (v0 v1 : Int) (hx : x.size = 2 * M) =>
    set2_get' (x := x) (v0 := v0) (v1 := v1) (show s.ids.getD i 0 < x.size by rw [hx]; exact hl0)
      (show s.ids.getD (i + M) 0 < x.size by rw [hx]; exact hl1)
  unfold finishStep
  simp only [hp0, hp1, hr, bind, Except.bind]
  cases hrm : remAt s.removed s.ids i
  · -- alive pair
    have hrm' : remAt s.removed s.ids (i + M) = false := by rw [← h.sym i hi]; exact hrm
    simp only [Bool.not_false, if_true, hh0, hh1, w o.start _ _ fi.ssize hl0, w o.prop _ _ fi.qsize hl0,
      w o.paired _ _ fi.psize hl0,
      w (o.start.setIfInBounds _ _) _ _ (by simp [fi.ssize]) hl1,
      w (o.prop.setIfInBounds _ _) _ _ (by simp [fi.qsize]) hl1,
      w (o.paired.setIfInBounds _ _) _ _ (by simp [fi.psize]) hl1, pure, Except.pure]
    refine ⟨_, rfl, fin _ _ _ _ _ _ ?_ ?_⟩
    · unfold SlotOk
      simp only [hrm, Bool.false_eq_true, if_false, g0 _ _ _ fi.ssize, g0 _ _ _ fi.psize,
        g0 _ _ _ fi.qsize, hne, if_true, hi]
      first | trivial | exact ⟨trivial, trivial, trivial⟩ | simp
    · unfold SlotOk
      have : ¬ (i + M < M) := by omega
      have e : i + M - M = i := by omega
      simp only [hrm', Bool.false_eq_true, if_false, g0 _ _ _ fi.ssize, g0 _ _ _ fi.psize,
        g0 _ _ _ fi.qsize, if_true, this, e]
      first | trivial | exact ⟨trivial, trivial, trivial⟩ | simp
  · have hrm' : remAt s.removed s.ids (i + M) = true := by rw [← h.sym i hi]; exact hrm
    simp only [Bool.not_true, Bool.false_eq_true, if_false, w o.start _ _ fi.ssize hl0, w o.prop _ _ fi.qsize hl0,
      w o.paired _ _ fi.psize hl0,
      w (o.start.setIfInBounds _ _) _ _ (by simp [fi.ssize]) hl1,
      w (o.prop.setIfInBounds _ _) _ _ (by simp [fi.qsize]) hl1,
      w (o.paired.setIfInBounds _ _) _ _ (by simp [fi.psize]) hl1, pure, Except.pure]
    refine ⟨_, rfl, fin _ _ _ _ _ _ ?_ ?_⟩
    · unfold SlotOk
      simp only [hrm, if_true, g0 _ _ _ fi.ssize, g0 _ _ _ fi.psize, g0 _ _ _ fi.qsize, hne, if_false]
      first | trivial | exact ⟨trivial, trivial, trivial⟩ | simp
    · unfold SlotOk
      simp only [hrm', if_true, g0 _ _ _ fi.ssize, g0 _ _ _ fi.psize, g0 _ _ _ fi.qsize]
      first | trivial | exact ⟨trivial, trivial, trivial⟩ | simp


theorem finish_spec {he : Array CH} {M : Nat} {s : St} (h : SInv he M M s) :
    ∀ (m i : Nat) (o : Out), i + m = M → FQ he M s i o →
      ∃ o', finish he M s m i o = .ok o' ∧ FQ he M s M o'
  | 0, i, o, hm, fi => by
    have : i = M := by omega
    subst this; exact ⟨o, rfl, fi⟩
  | m + 1, i, o, hm, fi => by
    obtain ⟨o', ho', fi'⟩ := finishStep_spec h (show i < M by omega) fi
    obtain ⟨o'', ho'', fi''⟩ := finish_spec h m (i + 1) o' (by omega) fi'
    refine ⟨o'', ?_, fi''⟩
    rw [finish]; simp only [ho', bind, Except.bind]; exact ho''

/-- The facts about `createHalfedges ts` that hold for EVERY even triangle list: sizes; `ids`
ends as a permutation (every slot of `halfedge_` is written exactly once, none stays
uninitialised); a removed halfedge is a full tombstone; a kept halfedge carries the start / prop
vertex of the input and is paired, mutually, with another kept halfedge. -/
structure SoupResult (ts : List Tri) (s : St) (o : Out) : Prop where
  ssize : o.start.size = 3 * ts.length
  psize : o.paired.size = 3 * ts.length
  qsize : o.prop.size = 3 * ts.length
  rsize : s.removed.size = 3 * ts.length
  perm : s.ids.toList ~ List.range (3 * ts.length)
  dead : ∀ e, e < 3 * ts.length → s.removed.getD e false = true →
    o.start[e]? = some (-1) ∧ o.paired[e]? = some (-1) ∧ o.prop[e]? = some 0
  alive : ∀ e, e < 3 * ts.length → s.removed.getD e false = false →
    o.start[e]? = some ((edgeAt ts e).1 : Int) ∧ o.prop[e]? = some ((edgeAt ts e).1 : Int) ∧
    ∃ e', e' < 3 * ts.length ∧ e' ≠ e ∧ s.removed.getD e' false = false ∧
      o.paired[e]? = some (e' : Int) ∧ o.paired[e']? = some (e : Int)

theorem perm_surj {N : Nat} {ids : Array Nat} (hs : ids.size = N) (h : ids.toList ~ List.range N)
    (e : Nat) (he : e < N) : ∃ p, p < N ∧ ids.getD p 0 = e := by
  have hm : e ∈ ids.toList := (h.mem_iff).2 (List.mem_range.2 he)
  obtain ⟨p, hp, hpe⟩ := List.getElem_of_mem hm
  have hp' : p < ids.size := by simpa using hp
  exact ⟨p, by omega, by rw [getD_toList ids p hp']; exact hpe⟩

theorem createHalfedges_soup (ts : List Tri) (heven : ts.length % 2 = 0) :
    ∃ s o, removalState ts = .ok s ∧ createHalfedges ts = .ok o ∧ SoupResult ts s o := by
  obtain ⟨M, hM⟩ : ∃ M, 3 * ts.length = 2 * M := ⟨3 * ts.length / 2, by omega⟩
  obtain ⟨s, hs, inv⟩ := removalState_spec ts M hM
  have fq0 : FQ (prep ts) M s 0 ⟨Array.replicate (3 * ts.length) 0, Array.replicate (3 * ts.length) 0,
      Array.replicate (3 * ts.length) 0⟩ :=
    ⟨by simp [hM], by simp [hM], by simp [hM], fun p hp => by omega⟩
  obtain ⟨o, ho, fq⟩ := finish_spec inv M 0 _ (by omega) fq0
  have hc : createHalfedges ts = .ok o := by
    unfold createHalfedges
    have : 3 * ts.length / 2 = M := by omega
    simp only [hs, prep_size, this, bind, Except.bind]; exact ho
  refine ⟨s, o, hs, hc, ?_⟩
  have hv := perm_val inv.isz inv.perm
  have hinj := perm_inj inv.isz inv.perm
  refine ⟨by rw [fq.ssize, hM], by rw [fq.psize, hM], by rw [fq.qsize, hM], by rw [inv.rsz, hM],
    by rw [hM]; exact inv.perm, ?_, ?_⟩
  · intro e he hr
    obtain ⟨p, hp, hpe⟩ := perm_surj inv.isz inv.perm e (by omega)
    have hs := fq.done p (by omega)
    unfold SlotOk at hs
    have : remAt s.removed s.ids p = true := by unfold remAt; rw [hpe]; exact hr
    rw [if_pos this, hpe] at hs
    exact hs
  · intro e he hr
    obtain ⟨p, hp, hpe⟩ := perm_surj inv.isz inv.perm e (by omega)
    have hs := fq.done p (by omega)
    unfold SlotOk at hs
    have hrp : remAt s.removed s.ids p = false := by unfold remAt; rw [hpe]; exact hr
    rw [if_neg (by rw [hrp]; simp), hpe, prep_getD ts e he] at hs
    refine ⟨hs.1, hs.2.2, ?_⟩
    -- the partner position
    by_cases hpm : p < M
    · have hrp' : remAt s.removed s.ids (p + M) = false := by rw [← inv.sym p hpm]; exact hrp
      have hs' := fq.done (p + M) (by omega)
      unfold SlotOk at hs'
      have e1 : ¬ (p + M < M) := by omega
      have e2 : p + M - M = p := by omega
      rw [if_neg (by rw [hrp']; simp)] at hs'
      simp only [e1, if_false, e2, hpe] at hs'
      simp only [hpm, if_true] at hs
      refine ⟨s.ids.getD (p + M) 0, by have := hv (p + M) (by omega); omega, ?_, hrp', hs.2.1, hs'.2.1⟩
      intro h'; rw [← hpe] at h'
      have := hinj _ _ (by omega) (by omega) h'; omega
    · have hrp' : remAt s.removed s.ids (p - M) = false := by
        rw [inv.sym (p - M) (by omega)]
        have : p - M + M = p := by omega
        rw [this]; exact hrp
      have hs' := fq.done (p - M) (by omega)
      unfold SlotOk at hs'
      have e1 : p - M < M := by omega
      have e2 : p - M + M = p := by omega
      rw [if_neg (by rw [hrp']; simp)] at hs'
      simp only [e1, if_true, e2, hpe] at hs'
      simp only [hpm, if_false] at hs
      refine ⟨s.ids.getD (p - M) 0, by have := hv (p - M) (by omega); omega, ?_, hrp', hs.2.1, hs'.2.1⟩
      intro h'; rw [← hpe] at h'
      have := hinj _ _ (by omega) (by omega) h'; omega

end MV.Halfedge
