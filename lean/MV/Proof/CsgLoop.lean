import MV.Proof.CsgStep
/-
Value accounting for the children loop: what the leaves pushed by the loop and by the child
frames add up to, in any commutative monoid.
-/
set_option autoImplicit false
namespace MV.Csg
open SolidAlg XfAct

variable {M S : Type}

/-- pointwise relation between two lists (core has no `Forall₂`) -/
inductive All2 {α β : Type} (R : α → β → Prop) : List α → List β → Prop
  | nil : All2 R [] []
  | cons {a : α} {b : β} {as : List α} {bs : List β} :
      R a b → All2 R as bs → All2 R (a :: as) (b :: bs)

theorem All2.imp {α β : Type} {R Q : α → β → Prop} {as : List α} {bs : List β}
    (h : All2 R as bs) (f : ∀ a b, a ∈ as → R a b → Q a b) : All2 Q as bs := by
  induction h with
  | nil => exact .nil
  | cons h1 _ ih =>
    exact .cons (f _ _ (by simp) h1) (ih (fun a b ha => f a b (by simp [ha])))

theorem All2.and {α β : Type} {R Q : α → β → Prop} {as : List α} {bs : List β}
    (h : All2 R as bs) (h' : All2 Q as bs) : All2 (fun a b => R a b ∧ Q a b) as bs := by
  induction h with
  | nil => exact .nil
  | cons h1 _ ih =>
    cases h' with
    | cons h1' h2' => exact .cons ⟨h1, h1'⟩ (ih h2')

section Generic
variable {A : Type} (op : A → A → A) (e : A)

/-- fold in a commutative monoid -/
def mfold (l : List A) : A := l.foldr op e

variable (hassoc : ∀ a b c, op (op a b) c = op a (op b c)) (hcomm : ∀ a b, op a b = op b a)
  (hid : ∀ a, op e a = a)
include hassoc hcomm hid

omit hcomm in
theorem mfold_append (a b : List A) : mfold op e (a ++ b) = op (mfold op e a) (mfold op e b) := by
  induction a with
  | nil => simp [mfold, hid]
  | cons x xs ih =>
    simp only [mfold, List.cons_append, List.foldr_cons] at ih ⊢
    rw [ih, hassoc]

theorem mfold_reverse (a : List A) : mfold op e a.reverse = mfold op e a := by
  induction a with
  | nil => rfl
  | cons x xs ih =>
    rw [List.reverse_cons, mfold_append op e hassoc hid, ih, hcomm]
    simp [mfold, hcomm, hid]

omit hassoc hcomm hid in
/-- a monoid homomorphism from logs -/
theorem mfold_flatten {B : Type} (μ : List B → A) (h0 : μ [] = e)
    (hμ : ∀ a b, μ (a ++ b) = op (μ a) (μ b)) (ls : List (List B)) :
    μ ls.flatten = mfold op e (ls.map μ) := by
  induction ls with
  | nil => simpa [mfold] using h0
  | cons l ls ih => simp [hμ, ih, mfold]

theorem mfold_flatten_reverse {B : Type} (μ : List B → A) (h0 : μ [] = e)
    (hμ : ∀ a b, μ (a ++ b) = op (μ a) (μ b)) (ls : List (List B)) :
    μ ls.reverse.flatten = mfold op e (ls.map μ) := by
  rw [mfold_flatten op e μ h0 hμ, List.map_reverse,
    mfold_reverse op e hassoc hcomm hid]

variable [Mul M]

omit hid in
/-- The loop l.835-842 when every child is pushed towards the same `d` (always, except for
the first child of a Subtract).  `val c` is the contribution expected from child `c`. -/
theorem loop_generic (st : Store M) (o : Op) (xf : M) (pd nd : Option Dest) (d : Dest)
    (μ : List (Push M) → A) (hμ : ∀ a b, μ (a ++ b) = op (μ a) (μ b))
    (val : Nat → A) (hd : childDest1 o false pd nd = some d) :
    ∀ (cs : List Nat) (first : Bool) (logs : List (List (Push M))),
      childDest1 o first pd nd = some d →
      (∀ c ∈ cs, st.nodes[c]? ≠ none) →
      (∀ c ∈ cs, ∀ lf, st.nodes[c]? = some (Node.leaf lf) → μ [(d, lf.transform xf)] = val c) →
      All2 (fun G log => μ log = val G.node)
        (childFrames st o xf pd nd cs first) logs →
      op (μ (childLog st o xf pd nd cs first)) (mfold op e (logs.map μ))
        = op (μ []) (mfold op e (cs.map val)) := by
  intro cs
  induction cs with
  | nil =>
    intro first logs _ _ _ hF
    simp only [childFrames] at hF
    cases hF
    simp [childLog]
  | cons c cs ih =>
    intro first logs hd1 hex hleaf hF
    have hex' : ∀ c ∈ cs, st.nodes[c]? ≠ none := fun c' h' => hex c' (by simp [h'])
    have hleaf' : ∀ c ∈ cs, ∀ lf, st.nodes[c]? = some (Node.leaf lf) →
        μ [(d, lf.transform xf)] = val c := fun c' h' => hleaf c' (by simp [h'])
    cases hn : st.nodes[c]? with
    | none => exact absurd hn (hex c (by simp))
    | some nd' =>
      cases nd' with
      | leaf lf =>
        simp only [childFrames, hn] at hF
        have := ih false logs hd hex' hleaf' hF
        simp only [childLog, hn, hd1, List.map_cons, mfold, List.foldr_cons]
        rw [show ((d, lf.transform xf) :: childLog st o xf pd nd cs false)
              = [(d, lf.transform xf)] ++ childLog st o xf pd nd cs false from rfl, hμ,
          hleaf c (by simp) lf hn, hassoc]
        simp only [mfold] at this
        rw [this, ← hassoc, hcomm (val c), hassoc]
      | op i o' m k =>
        simp only [childFrames, hn] at hF
        cases hF with
        | cons h1 hF' =>
          rename_i log logs'
          have := ih false logs' hd hex' hleaf' hF'
          simp only [childLog, hn, List.map_cons, mfold, List.foldr_cons]
          simp only [mfold] at this
          simp only [childFrame] at h1
          rw [h1, ← hassoc, hcomm _ (val c), hassoc, this, ← hassoc, hcomm (val c), hassoc]

end Generic

/-! ### frames created by the loop -/

section Frames
variable [Mul M]

omit [Mul M] in
theorem childFrames_mem {st : Store M} {o : Op} {xf : M} {pd nd : Option Dest} {cs : List Nat}
    {first : Bool} {G : Frame M} (h : G ∈ childFrames st o xf pd nd cs first) :
    ∃ f' : Bool, (f' = true → first = true) ∧ G = childFrame o f' xf pd nd G.node ∧
      G.node ∈ cs ∧ ∃ i o' m k, st.nodes[G.node]? = some (Node.op i o' m k) := by
  induction cs generalizing first with
  | nil => simp [childFrames] at h
  | cons c cs ih =>
    simp only [childFrames] at h
    split at h
    · rename_i i o' m k hn
      rcases List.mem_cons.1 h with rfl | h'
      · exact ⟨first, id, rfl, by simp [childFrame], i, o', m, k,
          by simpa [childFrame] using hn⟩
      · obtain ⟨f', h0, h1, h2, h3⟩ := ih h'
        exact ⟨f', fun e => absurd (h0 e) (by simp), h1, by simp [h2], h3⟩
    · obtain ⟨f', h0, h1, h2, h3⟩ := ih h
      exact ⟨f', fun e => absurd (h0 e) (by simp), h1, by simp [h2], h3⟩

theorem childLog_mem {st : Store M} {o : Op} {xf : M} {pd nd : Option Dest} {cs : List Nat}
    {first : Bool} {e : Push M} (h : e ∈ childLog st o xf pd nd cs first) :
    ∃ f' : Bool, (f' = true → first = true) ∧ childDest1 o f' pd nd = some e.1 := by
  induction cs generalizing first with
  | nil => simp [childLog] at h
  | cons c cs ih =>
    simp only [childLog] at h
    split at h
    · rename_i lf d hn hd
      rcases List.mem_cons.1 h with rfl | h'
      · exact ⟨first, id, hd⟩
      · obtain ⟨f', h0, h1⟩ := ih h'
        exact ⟨f', fun e => absurd (h0 e) (by simp), h1⟩
    · obtain ⟨f', h0, h1⟩ := ih h
      exact ⟨f', fun e => absurd (h0 e) (by simp), h1⟩

end Frames

/-! ### the two instances: union and intersection -/

section Inst
variable [One M] [Mul M] [SolidAlg S] [XfAct M S]

/-- union of the leaves pushed to `d` -/
def muU (L : Val S) (d : Dest) (log : List (Push M)) : S := bigU (L.leaves (sel d log))

/-- intersection of the leaves pushed to `d` -/
def muI (L : Val S) (d : Dest) (log : List (Push M)) : Option S := bigIo (L.leaves (sel d log))

theorem muU_append (L : Val S) (d : Dest) (a b : List (Push M)) :
    muU L d (a ++ b) = union (muU L d a) (muU L d b) := by
  simp [muU, sel_append, Val.leaves, bigU_append]

theorem muI_append (L : Val S) (d : Dest) (a b : List (Push M)) :
    muI L d (a ++ b) = oInter (muI L d a) (muI L d b) := by
  simp [muI, sel_append, Val.leaves, bigIo_append]

theorem muU_single (L : Val S) (d : Dest) (lf : Leaf M) (xf : M) :
    muU L d [(d, lf.transform xf)] = act xf (L.leaf lf) := by
  simp [muU, sel, Val.leaves, Val.leaf_transform, union_empty]

theorem muI_single (L : Val S) (d : Dest) (lf : Leaf M) (xf : M) :
    muI L d [(d, lf.transform xf)] = some (act xf (L.leaf lf)) := by
  simp [muI, sel, Val.leaves, Val.leaf_transform, bigIo]

theorem mfold_some (l : List S) : mfold oInter none (l.map some) = bigIo l := by
  induction l with
  | nil => rfl
  | cons x xs ih =>
    simp only [List.map_cons, mfold, List.foldr_cons, bigIo_cons] at ih ⊢
    rw [ih]

variable (L : Val S) (st : Store M) (o : Op) (xf : M) (pd nd : Option Dest) (d : Dest)

/-- union accounting for a homogeneous loop -/
theorem loop_add (hd0 : childDest1 o false pd nd = some d) (cs : List Nat) (first : Bool)
    (logs : List (List (Push M))) (hd1 : childDest1 o first pd nd = some d)
    (hex : ∀ c ∈ cs, st.nodes[c]? ≠ none)
    (hF : All2 (fun G log => muU L d log = act G.xf (denote L st G.node))
      (childFrames st o xf pd nd cs first) logs) :
    muU L d (childLog st o xf pd nd cs first ++ logs.reverse.flatten)
      = act xf (bigU (cs.map (denote L st))) := by
  have hF' : All2 (fun G log => muU L d log = (fun c => act xf (denote L st c)) G.node)
      (childFrames st o xf pd nd cs first) logs := by
    refine hF.imp (fun G log hG h => ?_)
    obtain ⟨f', _, hG', _⟩ := childFrames_mem hG
    have : G.xf = xf := by rw [hG']; rfl
    rw [h, this]
  have := loop_generic union empty union_assoc union_comm st o xf pd nd d (muU L d)
    (muU_append L d) (fun c => act xf (denote L st c)) hd0 cs first logs hd1 hex
    (fun c _ lf hlf => by rw [muU_single, denote_leaf L hlf]) hF'
  rw [muU_append, mfold_flatten_reverse union empty union_assoc union_comm empty_union
    (muU L d) rfl (muU_append L d), this]
  show union (bigU []) _ = _
  rw [bigU_nil, empty_union, act_bigU, List.map_map]
  rfl

/-- intersection accounting for a homogeneous loop -/
theorem loop_int (hd0 : childDest1 o false pd nd = some d) (cs : List Nat) (first : Bool)
    (logs : List (List (Push M))) (hd1 : childDest1 o first pd nd = some d)
    (hex : ∀ c ∈ cs, st.nodes[c]? ≠ none)
    (hF : All2 (fun G log => muI L d log = some (act G.xf (denote L st G.node)))
      (childFrames st o xf pd nd cs first) logs) :
    muI L d (childLog st o xf pd nd cs first ++ logs.reverse.flatten)
      = (bigIo (cs.map (denote L st))).map (act xf) := by
  have hF' : All2 (fun G log => muI L d log = (fun c => some (act xf (denote L st c))) G.node)
      (childFrames st o xf pd nd cs first) logs := by
    refine hF.imp (fun G log hG h => ?_)
    obtain ⟨f', _, hG', _⟩ := childFrames_mem hG
    have : G.xf = xf := by rw [hG']; rfl
    rw [h, this]
  have := loop_generic oInter none oInter_assoc oInter_comm st o xf pd nd d (muI L d)
    (muI_append L d) (fun c => some (act xf (denote L st c))) hd0 cs first logs hd1 hex
    (fun c _ lf hlf => by rw [muI_single, denote_leaf L hlf]) hF'
  rw [muI_append, mfold_flatten_reverse oInter none oInter_assoc oInter_comm oInter_none_left
    (muI L d) rfl (muI_append L d), this]
  show oInter (bigIo []) _ = _
  rw [bigIo_nil, oInter_none_left, act_bigIo, List.map_map,
    show (fun c => some (act xf (denote L st c))) = some ∘ (act xf ∘ denote L st) from rfl,
    ← List.map_map, mfold_some]

omit [One M] [SolidAlg S] [XfAct M S] in
/-- a homogeneous loop over a non-empty children list pushes something -/
theorem loop_nonempty (cs : List Nat) (first : Bool)
    (logs : List (List (Push M))) (hd1 : childDest1 o first pd nd = some d)
    (hex : ∀ c ∈ cs, st.nodes[c]? ≠ none) (hne : cs ≠ [])
    (hF : All2 (fun _ log => sel d log ≠ []) (childFrames st o xf pd nd cs first) logs) :
    sel d (childLog st o xf pd nd cs first ++ logs.reverse.flatten) ≠ [] := by
  cases cs with
  | nil => exact absurd rfl hne
  | cons c cs =>
    cases hn : st.nodes[c]? with
    | none => exact absurd hn (hex c (by simp))
    | some nd' =>
      cases nd' with
      | leaf lf =>
        simp [childLog, hn, hd1, sel_cons]
      | op i o' m k =>
        simp only [childFrames, hn] at hF
        cases hF with
        | cons h1 hF' =>
          simp only [List.reverse_cons, List.flatten_append, sel_append, List.flatten_cons,
            List.flatten_nil, List.append_nil]
          intro h
          simp only [List.append_eq_nil_iff] at h
          exact h1 h.2.2

end Inst
end MV.Csg
