/-
Shared lemmas: the abstract tree `T` read back from `internalChildren_` (`toTree`), the
representation predicate `Rep`, and the consequences of the block structure `T.cover`.
-/
import MV.Model.Collider

namespace MV.Collider

/-! ## node arithmetic -/

theorem id_leaf_toNat (i : Nat) : (T.leaf i).id.toNat = 2 * i := by
  simp only [T.id]; omega

theorem id_node_toNat (k : Nat) (l r : T) : (T.node k l r).id.toNat = 2 * k + 1 := by
  simp only [T.id]; omega

theorem id_nonneg (t : T) : 0 ≤ t.id := by
  cases t <;> simp only [T.id] <;> omega

/-! ## Rep: the arrays contain the tree -/

/-- `internalChildren_` contains the tree `t` (at the indices carried by its nodes) -/
def Rep (ch : Array (Int × Int)) : T → Prop
  | .leaf _ => True
  | .node k l r => ch[k]? = some (l.id, r.id) ∧ Rep ch l ∧ Rep ch r

theorem toTree_spec {ch : Array (Int × Int)} : ∀ (fuel : Nat) (node : Int) (t : T),
    toTree ch fuel node = some t → Rep ch t ∧ t.id = node ∧ t.height < fuel := by
  intro fuel
  induction fuel with
  | zero => intro node t h; simp [toTree] at h
  | succ f ih =>
    intro node t h
    unfold toTree at h
    split at h
    · simp at h
    · split at h
      · simp only [Option.some.injEq] at h
        subst h
        refine ⟨trivial, ?_, by simp [T.height]⟩
        simp only [T.id]; omega
      · split at h
        · simp at h
        · rename_i c1 c2 hc
          split at h
          · rename_i l r hl hr
            simp only [Option.some.injEq] at h
            subst h
            have ⟨rl, il, hl'⟩ := ih _ _ hl
            have ⟨rr, ir, hr'⟩ := ih _ _ hr
            refine ⟨⟨?_, rl, rr⟩, ?_, ?_⟩
            · rw [il, ir]; exact hc
            · simp only [T.id]; omega
            · simp only [T.height]
              have : Nat.max l.height r.height < f := by
                apply Nat.max_lt.mpr; exact ⟨hl', hr'⟩
              omega
          · simp at h

theorem toTree_of_rep {ch : Array (Int × Int)} : ∀ (t : T) (fuel : Nat),
    Rep ch t → t.height < fuel → toTree ch fuel t.id = some t := by
  intro t
  induction t with
  | leaf i =>
    intro fuel _ h
    cases fuel with
    | zero => omega
    | succ f =>
      unfold toTree
      have h1 : ¬ (T.leaf i).id < 0 := by simp only [T.id]; omega
      have h2 : (T.leaf i).id % 2 = 0 := by simp only [T.id]; omega
      have h3 : ((T.leaf i).id / 2).toNat = i := by simp only [T.id]; omega
      simp only [h1, h2, h3, if_false, if_true]
  | node k l r ihl ihr =>
    intro fuel hrep h
    cases fuel with
    | zero => omega
    | succ f =>
      obtain ⟨hc, rl, rr⟩ := hrep
      simp only [T.height] at h
      have hm1 : l.height ≤ Nat.max l.height r.height := Nat.le_max_left _ _
      have hm2 : r.height ≤ Nat.max l.height r.height := Nat.le_max_right _ _
      unfold toTree
      have h1 : ¬ (T.node k l r).id < 0 := by simp only [T.id]; omega
      have h2 : ¬ (T.node k l r).id % 2 = 0 := by simp only [T.id]; omega
      have h3 : (((T.node k l r).id - 1) / 2).toNat = k := by simp only [T.id]; omega
      simp only [h1, h2, h3, if_false, hc]
      rw [ihl f rl (by omega), ihr f rr (by omega)]

/-! ## sizes -/

theorem leaves_length (t : T) : t.leaves.length = t.internals.length + 1 := by
  induction t with
  | leaf i => simp [T.leaves, T.internals]
  | node k l r ihl ihr => simp [T.leaves, T.internals, ihl, ihr]; omega

theorem height_le_internals (t : T) : t.height ≤ t.internals.length := by
  induction t with
  | leaf i => simp [T.height]
  | node k l r ihl ihr =>
    simp only [T.height, T.internals, List.length_cons, List.length_append]
    have : Nat.max l.height r.height ≤ l.internals.length + r.internals.length := by
      apply Nat.max_le.mpr; constructor <;> omega
    omega

/-! ## consequences of `cover` -/

theorem cover_first_last : ∀ (t : T) (f l : Nat), t.cover f l = true →
    t.first = f ∧ t.last = l ∧ f ≤ l := by
  intro t
  induction t with
  | leaf i =>
    intro f l h
    simp only [T.cover, Bool.and_eq_true, beq_iff_eq] at h
    simp only [T.first, T.last]; omega
  | node k a b iha ihb =>
    intro f l h
    simp only [T.cover, Bool.and_eq_true, decide_eq_true_eq] at h
    obtain ⟨⟨⟨⟨⟨hfl, _⟩, ha⟩, hb⟩, _⟩, _⟩ := h
    have ⟨a1, _, _⟩ := iha _ _ ha
    have ⟨_, b2, _⟩ := ihb _ _ hb
    simp only [T.first, T.last]
    omega

theorem cover_leaves : ∀ (t : T) (f l : Nat), t.cover f l = true →
    t.leaves = List.range' f (l + 1 - f) := by
  intro t
  induction t with
  | leaf i =>
    intro f l h
    simp only [T.cover, Bool.and_eq_true, beq_iff_eq] at h
    obtain ⟨h1, h2⟩ := h
    subst h1; subst h2
    simp [T.leaves]
  | node k a b iha ihb =>
    intro f l h
    have hfl := cover_first_last _ _ _ h
    simp only [T.cover, Bool.and_eq_true, decide_eq_true_eq] at h
    obtain ⟨⟨⟨⟨⟨hlt, _⟩, ha⟩, hb⟩, _⟩, _⟩ := h
    have ⟨_, _, a3⟩ := cover_first_last _ _ _ ha
    have ⟨_, _, b3⟩ := cover_first_last _ _ _ hb
    simp only [T.leaves, iha _ _ ha, ihb _ _ hb]
    have e : l + 1 - f = (a.last + 1 - f) + (l + 1 - (a.last + 1)) := by omega
    rw [e, ← List.range'_append_1]
    congr 2
    omega

theorem mem_leaves_of_cover {t : T} {f l : Nat} (h : t.cover f l = true) (x : Nat) :
    x ∈ t.leaves ↔ f ≤ x ∧ x ≤ l := by
  have := cover_first_last _ _ _ h
  rw [cover_leaves _ _ _ h, List.mem_range'_1]
  omega

theorem nodup_leaves_of_cover {t : T} {f l : Nat} (h : t.cover f l = true) : t.leaves.Nodup := by
  rw [cover_leaves _ _ _ h]
  exact List.nodup_range'

/-- which internal indices occur in a covered subtree: `[f, l-1]` if the node's index is `f`,
`[f+1, l]` if it is `l` -/
def T.ownsRange (t : T) (f l x : Nat) : Prop :=
  match t with
  | .leaf _ => False
  | .node k _ _ => (k = f → f ≤ x ∧ x < l) ∧ (k ≠ f → f < x ∧ x ≤ l)

theorem cover_internals : ∀ (t : T) (f l : Nat), t.cover f l = true →
    t.internals.Nodup ∧ ∀ x, x ∈ t.internals ↔ t.ownsRange f l x := by
  intro t
  induction t with
  | leaf i =>
    intro f l _
    simp [T.internals, T.ownsRange]
  | node k a b iha ihb =>
    intro f l h
    simp only [T.cover, Bool.and_eq_true, decide_eq_true_eq, Bool.or_eq_true, beq_iff_eq] at h
    obtain ⟨⟨⟨⟨⟨hlt, hk⟩, ha⟩, hb⟩, hka⟩, hkb⟩ := h
    have ⟨_, _, a3⟩ := cover_first_last _ _ _ ha
    have ⟨_, _, b3⟩ := cover_first_last _ _ _ hb
    have ⟨na, ma⟩ := iha _ _ ha
    have ⟨nb, mb⟩ := ihb _ _ hb
    -- ranges of the two children
    have ra : ∀ x, x ∈ a.internals → f < x ∧ x ≤ a.last := by
      intro x hx
      have := (ma x).mp hx
      cases a with
      | leaf i => simp [T.ownsRange] at this
      | node ka a1 a2 =>
        simp only [beq_iff_eq] at hka
        simp only [T.ownsRange] at this
        by_cases e : ka = f
        · have := this.1 e; omega
        · exact this.2 e
    have rb : ∀ x, x ∈ b.internals → a.last + 1 ≤ x ∧ x < l := by
      intro x hx
      have := (mb x).mp hx
      cases b with
      | leaf i => simp [T.ownsRange] at this
      | node kb b1 b2 =>
        simp only [beq_iff_eq] at hkb
        simp only [T.ownsRange] at this
        exact this.1 hkb
    have ra' : ∀ x, f < x → x ≤ a.last → x ∈ a.internals := by
      intro x h1 h2
      apply (ma x).mpr
      cases a with
      | leaf i =>
        simp only [T.cover, Bool.and_eq_true, beq_iff_eq, T.last] at ha h2
        omega
      | node ka a1 a2 =>
        simp only [beq_iff_eq] at hka
        simp only [T.ownsRange]
        constructor
        · intro e; omega
        · intro _; exact ⟨h1, h2⟩
    have rb' : ∀ x, a.last + 1 ≤ x → x < l → x ∈ b.internals := by
      intro x h1 h2
      apply (mb x).mpr
      cases b with
      | leaf i =>
        simp only [T.cover, Bool.and_eq_true, beq_iff_eq] at hb
        omega
      | node kb b1 b2 =>
        simp only [beq_iff_eq] at hkb
        simp only [T.ownsRange]
        constructor
        · intro _; exact ⟨h1, h2⟩
        · intro e; omega
    constructor
    · simp only [T.internals, List.nodup_cons, List.mem_append, List.nodup_append]
      refine ⟨?_, na, nb, ?_⟩
      · intro hx
        rcases hx with hx | hx
        · have := ra _ hx; omega
        · have := rb _ hx; omega
      · intro x hx y hy
        have := ra _ hx; have := rb _ hy; omega
    · intro x
      simp only [T.internals, List.mem_cons, List.mem_append, T.ownsRange]
      constructor
      · intro hx
        rcases hx with hx | hx | hx
        · subst hx; constructor <;> intro <;> omega
        · have := ra _ hx; constructor <;> intro <;> omega
        · have := rb _ hx; constructor <;> intro <;> omega
      · intro ⟨h1, h2⟩
        by_cases e : k = f
        · have := h1 e
          by_cases e1 : x = k
          · exact Or.inl e1
          · by_cases e2 : x ≤ a.last
            · exact Or.inr (Or.inl (ra' x (by omega) e2))
            · exact Or.inr (Or.inr (rb' x (by omega) (by omega)))
        · have := h2 e
          by_cases e1 : x = k
          · exact Or.inl e1
          · by_cases e2 : x ≤ a.last
            · exact Or.inr (Or.inl (ra' x (by omega) e2))
            · exact Or.inr (Or.inr (rb' x (by omega) (by omega)))

/-- at the root (index 0 covering `[0, n-1]`) the internal indices are exactly `0 … n-2` -/
theorem mem_internals_root {t : T} {n : Nat} (h : t.cover 0 (n - 1) = true)
    (hid : t.id = 1) (x : Nat) : x ∈ t.internals ↔ x < n - 1 := by
  have ⟨_, m⟩ := cover_internals _ _ _ h
  rw [m x]
  cases t with
  | leaf i => simp only [T.id] at hid; omega
  | node k a b =>
    simp only [T.id] at hid
    have : k = 0 := by omega
    subst this
    constructor
    · intro h1; exact (h1.1 rfl).2
    · intro hx; exact ⟨fun _ => ⟨by omega, hx⟩, fun e => absurd rfl e⟩

/-! ## unpacking `wfTree` -/

theorem wfTree_unpack {ch : Array (Int × Int)} {parent : Array Int} {n : Nat}
    (h : wfTree ch parent n = true) :
    2 ≤ n ∧ ch.size = n - 1 ∧ parent.size = 2 * n - 1 ∧
    ∃ t, toTree ch 65 kRoot = some t ∧ t.cover 0 (n - 1) = true ∧ t.parentOk parent = true ∧
      parent[1]? = some (-1) := by
  unfold wfTree at h
  split at h
  · simp at h
  · rename_i t ht
    simp only [Bool.and_eq_true, decide_eq_true_eq, beq_iff_eq] at h
    obtain ⟨⟨⟨h1, h2⟩, h3⟩, ⟨h4, h5⟩, h6⟩ := h
    exact ⟨h1, h2, h3, t, ht, h4, h5, h6⟩

end MV.Collider
