import MV.Proof.CsgBatchMon
/-
The greedy partition of `BatchUnion` (l.586-599): every index of the chunk lands in exactly one
set, no set is empty, and inside a set no later member overlaps an earlier one — for every
overlap oracle.  Core Lean only.
-/
set_option autoImplicit false
namespace MV.CsgBatch

variable {α : Type}

/-- inside a set no later member's box overlaps an earlier member's box (the test the code
makes: `boxes[i].DoesOverlap(boxes[j])` with `i` the newcomer) -/
def Sep (orc : Orc α) (boxes : Array (BLeaf α)) (set : List Nat) : Prop :=
  set.Pairwise fun j i => ovAt orc boxes i j = false

theorem fits_iff (orc : Orc α) (boxes : Array (BLeaf α)) (i : Nat) (set : List Nat) :
    fits orc boxes i set = true ↔ ∀ j ∈ set, ovAt orc boxes i j = false := by
  simp [fits]

theorem insertSet_flatten_perm (p : List Nat → Bool) (i : Nat) (sets : List (List Nat)) :
    (insertSet p i sets).flatten.Perm (i :: sets.flatten) := by
  induction sets with
  | nil => simp [insertSet]
  | cons s ss ih =>
    simp only [insertSet]
    split
    · simp only [List.flatten_cons, List.append_assoc, List.singleton_append]
      exact List.perm_middle
    · simp only [List.flatten_cons]
      exact (List.Perm.append_left s ih).trans List.perm_middle

/-- a property of sets that holds for singletons and survives an accepted insertion holds for
every set after `insertSet` -/
theorem insertSet_forall (P : List Nat → Prop) (p : List Nat → Bool) (i : Nat)
    (sets : List (List Nat)) (hs : ∀ s ∈ sets, P s) (hnew : P [i])
    (happ : ∀ s ∈ sets, p s = true → P (s ++ [i])) : ∀ s ∈ insertSet p i sets, P s := by
  induction sets with
  | nil => intro s hsm; simp only [insertSet, List.mem_singleton] at hsm; rw [hsm]; exact hnew
  | cons s ss ih =>
    intro t ht
    simp only [insertSet] at ht
    split at ht
    · rename_i hp
      rcases List.mem_cons.1 ht with rfl | ht
      · exact happ s (by simp) hp
      · exact hs t (by simp [ht])
    · rcases List.mem_cons.1 ht with rfl | ht
      · exact hs _ (by simp)
      · exact ih (fun x hx => hs x (by simp [hx])) (fun x hx => happ x (by simp [hx])) t ht

/-- the partition loop run over the indices `is` from the sets `sets` -/
def partFold (orc : Orc α) (boxes : Array (BLeaf α)) (sets : List (List Nat)) (is : List Nat) :
    List (List Nat) :=
  is.foldl (fun sets i => insertSet (fits orc boxes i) i sets) sets

theorem partFold_perm (orc : Orc α) (boxes : Array (BLeaf α)) (sets : List (List Nat))
    (is : List Nat) : (partFold orc boxes sets is).flatten.Perm (sets.flatten ++ is) := by
  induction is generalizing sets with
  | nil => simp [partFold]
  | cons i is ih =>
    simp only [partFold, List.foldl_cons]
    refine (ih (insertSet (fits orc boxes i) i sets)).trans ?_
    refine (List.Perm.append_right is (insertSet_flatten_perm _ i sets)).trans ?_
    simp only [List.cons_append]
    exact List.perm_middle.symm

theorem partFold_sep (orc : Orc α) (boxes : Array (BLeaf α)) (sets : List (List Nat))
    (is : List Nat) (hs : ∀ s ∈ sets, Sep orc boxes s ∧ s ≠ []) :
    ∀ s ∈ partFold orc boxes sets is, Sep orc boxes s ∧ s ≠ [] := by
  induction is generalizing sets with
  | nil => simpa [partFold] using hs
  | cons i is ih =>
    simp only [partFold, List.foldl_cons]
    apply ih
    apply insertSet_forall (fun s => Sep orc boxes s ∧ s ≠ []) _ i sets hs
    · exact ⟨by simp [Sep], by simp⟩
    · intro s hsm hp
      refine ⟨?_, by simp⟩
      simp only [Sep, List.pairwise_append, List.pairwise_cons, List.not_mem_nil, false_imp_iff,
        implies_true, List.Pairwise.nil, and_self, List.mem_singleton, forall_eq, true_and]
      exact ⟨(hs s hsm).1, (fits_iff orc boxes i s).1 hp⟩

theorem partition_eq (orc : Orc α) (boxes : Array (BLeaf α)) :
    partition orc boxes = partFold orc boxes [] (List.range boxes.size) := rfl

/-- every index of the chunk is in exactly one set (with multiplicity: the concatenation of the
sets is a rearrangement of `0 … n-1`) -/
theorem partition_perm (orc : Orc α) (boxes : Array (BLeaf α)) :
    (partition orc boxes).flatten.Perm (List.range boxes.size) := by
  simpa [partition_eq] using partFold_perm orc boxes [] (List.range boxes.size)

theorem partition_sep (orc : Orc α) (boxes : Array (BLeaf α)) :
    ∀ s ∈ partition orc boxes, Sep orc boxes s ∧ s ≠ [] := by
  rw [partition_eq]
  exact partFold_sep orc boxes [] _ (by simp)

theorem partition_lt (orc : Orc α) (boxes : Array (BLeaf α)) :
    ∀ s ∈ partition orc boxes, ∀ j ∈ s, j < boxes.size := by
  intro s hs j hj
  have : j ∈ (partition orc boxes).flatten := List.mem_flatten.2 ⟨s, hs, hj⟩
  simpa using (partition_perm orc boxes).mem_iff.1 this

end MV.CsgBatch
