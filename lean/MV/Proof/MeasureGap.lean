/-
Lemmas for property C18, part 3: `MinGap` (boxes farther apart than the search length contain no
pair of points within it; the clamped minimum over a complete candidate set is the clamped minimum
over all pairs) and the `RayCast` sort.
-/
import MV.Proof.Measure
import Mathlib.Tactic.Linarith
import Mathlib.Order.MinMax

namespace MV.Measure
open MV.Bool3 Exact

section Field
variable {F : Type} [Field F] [LinearOrder F] [IsStrictOrderedRing F]

/-! ## boxes -/

structure BoxF (F : Type) where
  min : V3 F
  max : V3 F

/-- the point lies in the closed box -/
def BoxF.Has (b : BoxF F) (p : V3 F) : Prop :=
  b.min.x ≤ p.x ∧ p.x ≤ b.max.x ∧ b.min.y ≤ p.y ∧ p.y ≤ b.max.y ∧ b.min.z ≤ p.z ∧ p.z ≤ b.max.z

/-- `Box(box.min - vec3(searchLength), box.max + vec3(searchLength))` (properties.cpp:493-497) -/
def BoxF.inflate (b : BoxF F) (L : F) : BoxF F :=
  ⟨⟨b.min.x - L, b.min.y - L, b.min.z - L⟩, ⟨b.max.x + L, b.max.y + L, b.max.z + L⟩⟩

/-- `Box::DoesOverlap(const Box&)` (common.h:436): closed intervals on all three axes -/
def BoxF.Overlaps (a b : BoxF F) : Prop :=
  a.min.x ≤ b.max.x ∧ a.min.y ≤ b.max.y ∧ a.min.z ≤ b.max.z ∧
  b.min.x ≤ a.max.x ∧ b.min.y ≤ a.max.y ∧ b.min.z ≤ a.max.z

/-- squared Euclidean distance -/
def dist2 (p q : V3 F) : F :=
  (p.x - q.x) * (p.x - q.x) + (p.y - q.y) * (p.y - q.y) + (p.z - q.z) * (p.z - q.z)

omit [LinearOrder F] [IsStrictOrderedRing F] in
theorem dist2_comm (p q : V3 F) : dist2 p q = dist2 q p := by unfold dist2; ring

theorem sq_lt_of_gap {L d : F} (hL : 0 ≤ L) (hd : L < d) : L * L < d * d :=
  mul_self_lt_mul_self hL hd

theorem sq_lt_of_gap_neg {L d : F} (hL : 0 ≤ L) (hd : d < -L) : L * L < d * d := by
  have := sq_lt_of_gap hL (by linarith : L < -d)
  nlinarith

/-- **two boxes that do not overlap after inflating one of them by `L ≥ 0` are farther apart
than `L` along some axis, hence every pair of points in them is farther apart than `L`** -/
theorem far_boxes_far_points (a b : BoxF F) (L : F) (hL : 0 ≤ L)
    (h : ¬ a.Overlaps (b.inflate L)) {p q : V3 F} (hp : a.Has p) (hq : b.Has q) :
    L * L < dist2 p q := by
  obtain ⟨p1, p2, p3, p4, p5, p6⟩ := hp
  obtain ⟨q1, q2, q3, q4, q5, q6⟩ := hq
  have hx := mul_self_nonneg (p.x - q.x)
  have hy := mul_self_nonneg (p.y - q.y)
  have hz := mul_self_nonneg (p.z - q.z)
  unfold BoxF.Overlaps BoxF.inflate at h
  simp only [not_and_or, not_le] at h
  unfold dist2
  rcases h with h | h | h | h | h | h
  · have := sq_lt_of_gap hL (by linarith : L < p.x - q.x); linarith
  · have := sq_lt_of_gap hL (by linarith : L < p.y - q.y); linarith
  · have := sq_lt_of_gap hL (by linarith : L < p.z - q.z); linarith
  · have := sq_lt_of_gap_neg hL (by linarith : p.x - q.x < -L); linarith
  · have := sq_lt_of_gap_neg hL (by linarith : p.y - q.y < -L); linarith
  · have := sq_lt_of_gap_neg hL (by linarith : p.z - q.z < -L); linarith

/-! ## the clamped minimum -/

omit [IsStrictOrderedRing F] in
theorem stdMin_eq_min (a b : F) : stdMin a b = min a b := by
  show (if decide (b < a) = true then b else a) = min a b
  by_cases h : b < a
  · simp [h, min_eq_right (le_of_lt h)]
  · simp [h, min_eq_left (not_lt.1 h)]

omit [IsStrictOrderedRing F] in
theorem stdMax_eq_max (a b : F) : stdMax a b = max a b := by
  show (if decide (a < b) = true then b else a) = max a b
  by_cases h : a < b
  · simp [h, max_eq_right (le_of_lt h)]
  · simp [h, max_eq_left (not_lt.1 h)]

omit [IsStrictOrderedRing F] in
/-- C++ `a <= b` at the exact instance -/
theorem le_iff (a b : F) : le a b = true ↔ a ≤ b := by
  show (decide (a < b) || decide (a = b)) = true ↔ a ≤ b
  simp [le_iff_lt_or_eq]

omit [IsStrictOrderedRing F] in
theorem lt_iff (a b : F) : Scalar.lt a b = true ↔ a < b := by
  show decide (a < b) = true ↔ a < b
  simp

omit [IsStrictOrderedRing F] in
theorem le_fold_stdMin_iff {ι : Type} (D : ι → F) (S : List ι) (i0 x : F) :
    x ≤ S.foldl (fun md p => stdMin md (D p)) i0 ↔ x ≤ i0 ∧ ∀ p ∈ S, x ≤ D p := by
  induction S generalizing i0 with
  | nil => simp
  | cons a S ih =>
    rw [List.foldl_cons, ih, stdMin_eq_min, le_min_iff]
    constructor
    · rintro ⟨⟨h1, h2⟩, h3⟩
      exact ⟨h1, fun p hp => by
        rcases List.mem_cons.1 hp with rfl | hp
        · exact h2
        · exact h3 p hp⟩
    · rintro ⟨h1, h2⟩
      exact ⟨⟨h1, h2 a (by simp)⟩, fun p hp => h2 p (List.mem_cons_of_mem _ hp)⟩

omit [IsStrictOrderedRing F] in
/-- if every pair left out of the candidate list is at least `c` apart, clamping at `c` hides
the difference between the candidate list and the full list -/
theorem clamped_fold_eq {ι : Type} (D : ι → F) (cand all : List ι) (i0 c : F)
    (hsub : ∀ p ∈ cand, p ∈ all) (hfar : ∀ p ∈ all, p ∉ cand → c ≤ D p) :
    stdMin (cand.foldl (fun md p => stdMin md (D p)) i0) c =
      stdMin (all.foldl (fun md p => stdMin md (D p)) i0) c := by
  rw [stdMin_eq_min, stdMin_eq_min]
  apply le_antisymm
  · rw [le_min_iff, le_fold_stdMin_iff]
    refine ⟨⟨?_, ?_⟩, min_le_right _ _⟩
    · exact le_trans (min_le_left _ _) ((le_fold_stdMin_iff D cand i0 _).1 (le_refl _)).1
    · intro p hp
      by_cases hc : p ∈ cand
      · exact le_trans (min_le_left _ _) (((le_fold_stdMin_iff D cand i0 _).1 (le_refl _)).2 p hc)
      · exact le_trans (min_le_right _ _) (hfar p hp hc)
  · rw [le_min_iff, le_fold_stdMin_iff]
    refine ⟨⟨?_, ?_⟩, min_le_right _ _⟩
    · exact le_trans (min_le_left _ _) ((le_fold_stdMin_iff D all i0 _).1 (le_refl _)).1
    · intro p hp
      exact le_trans (min_le_left _ _) (((le_fold_stdMin_iff D all i0 _).1 (le_refl _)).2 p (hsub p hp))

omit [IsStrictOrderedRing F] in
theorem mem_allPairs {n k : Nat} {p : Nat × Nat} : p ∈ allPairs n k ↔ p.1 < n ∧ p.2 < k := by
  unfold allPairs
  simp only [List.mem_flatMap, List.mem_range, List.mem_map]
  constructor
  · rintro ⟨i, hi, j, hj, rfl⟩; exact ⟨hi, hj⟩
  · rintro ⟨h1, h2⟩; exact ⟨p.1, h1, p.2, h2, rfl⟩

/-! ## RayCast: the sort -/

/-- sorted by the distance key -/
def SortedHits (l : List (Hit F)) : Prop := l.Pairwise fun a b => a.t ≤ b.t

omit [IsStrictOrderedRing F] in
theorem insertHit_perm (h : Hit F) (l : List (Hit F)) : (insertHit h l).Perm (h :: l) := by
  induction l with
  | nil => simp [insertHit]
  | cons x xs ih =>
    unfold insertHit
    split
    · exact List.Perm.refl _
    · exact (List.Perm.cons x ih).trans (List.Perm.swap h x xs)

omit [IsStrictOrderedRing F] in
theorem insertHit_sorted (h : Hit F) (l : List (Hit F)) (hs : SortedHits l) :
    SortedHits (insertHit h l) := by
  induction l with
  | nil => simp [insertHit, SortedHits]
  | cons x xs ih =>
    unfold insertHit
    have hx := List.pairwise_cons.1 hs
    split
    · next hlt =>
      have hlt' : h.t < x.t := by simpa [Scalar.lt] using hlt
      refine List.pairwise_cons.2 ⟨?_, hs⟩
      intro b hb
      rcases List.mem_cons.1 hb with rfl | hb
      · exact le_of_lt hlt'
      · exact le_trans (le_of_lt hlt') (hx.1 b hb)
    · next hlt =>
      have hge : x.t ≤ h.t := by
        have : ¬ h.t < x.t := by simpa [Scalar.lt] using hlt
        exact not_lt.1 this
      refine List.pairwise_cons.2 ⟨?_, ih hx.2⟩
      intro b hb
      rcases List.mem_cons.1 ((insertHit_perm h xs).subset hb) with rfl | hb
      · exact hge
      · exact hx.1 b hb

omit [IsStrictOrderedRing F] in
theorem foldl_insertHit (hs acc : List (Hit F)) (hacc : SortedHits acc) :
    SortedHits (hs.foldl (fun acc h => insertHit h acc) acc) ∧
      (hs.foldl (fun acc h => insertHit h acc) acc).Perm (hs ++ acc) := by
  induction hs generalizing acc with
  | nil => exact ⟨hacc, List.Perm.refl _⟩
  | cons h hs ih =>
    obtain ⟨s, p⟩ := ih (insertHit h acc) (insertHit_sorted h acc hacc)
    refine ⟨s, p.trans ?_⟩
    have : (hs ++ insertHit h acc).Perm (hs ++ h :: acc) := List.Perm.append_left hs (insertHit_perm h acc)
    exact this.trans (List.perm_middle (a := h) (l₁ := hs) (l₂ := acc))

omit [IsStrictOrderedRing F] in
theorem sortHits_spec (hs : List (Hit F)) : SortedHits (sortHits hs) ∧ (sortHits hs).Perm hs := by
  have := foldl_insertHit hs [] (by simp [SortedHits])
  simpa [sortHits] using this

end Field
end MV.Measure
