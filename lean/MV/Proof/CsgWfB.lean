import MV.Proof.CsgStore
/-
The executable check `Store.wf` implies the invariant `WFs`.
-/
set_option autoImplicit false
namespace MV.Csg

variable {M : Type}

theorem allIdx_get {α : Type} (p : Nat → α → Bool) :
    ∀ (l : List α) (k : Nat), allIdx p k l = true → ∀ (j : Nat) (x : α), l[j]? = some x →
      p (k + j) x = true := by
  intro l
  induction l with
  | nil => intro k _ j x h; simp at h
  | cons y ys ih =>
    intro k h j x hj
    simp only [allIdx, Bool.and_eq_true] at h
    cases j with
    | zero => simp at hj; subst hj; simpa using h.1
    | succ j =>
      simp at hj
      have := ih (k + 1) h.2 j x hj
      rwa [show k + 1 + j = k + (j + 1) by omega] at this

theorem isLeaf_iff {s : Store M} {n : Nat} :
    s.isLeaf n = true ↔ ∃ l, s.nodes[n]? = some (Node.leaf l) := by
  simp only [Store.isLeaf]
  split
  · rename_i l h; simp [h]
  · rename_i h
    simp only [Bool.false_eq_true, false_iff, not_exists]
    intro l hl; exact h l hl

theorem wf_sound {s : Store M} (h : s.wf = true) : WFs s := by
  simp only [Store.wf, Bool.and_eq_true, List.all_eq_true] at h
  obtain ⟨hnodes, himpls⟩ := h
  have hnode : ∀ {n : Nat} {nd : Node M}, s.nodes[n]? = some nd → s.nodeOk nd = true :=
    fun hn => hnodes _ (List.mem_of_getElem? hn)
  have himpl : ∀ {j : Nat} {ch : List Nat}, s.impls[j]? = some ch → s.implOk j ch = true := by
    intro j ch hj
    have := allIdx_get s.implOk s.impls 0 himpls j ch hj
    simpa using this
  refine ⟨?_, ?_, ?_, ?_, ?_⟩
  · intro n i o m c hn
    have := hnode hn
    simp only [Store.nodeOk, Bool.and_eq_true, decide_eq_true_eq] at this
    exact this.1.1
  · intro j ch hj c hc
    have := himpl hj
    simp only [Store.implOk, Bool.and_eq_true, List.all_eq_true] at this
    have hc' := this.1 c hc
    split at hc'
    · rename_i l hl; exact Or.inl ⟨l, hl⟩
    · rename_i i o m k hl
      exact Or.inr ⟨i, o, m, k, hl, by simpa using hc'⟩
    · cases hc'
  · intro j ch hj
    have := himpl hj
    simp only [Store.implOk, Bool.and_eq_true, Bool.or_eq_true, decide_eq_true_eq] at this
    rcases this.2 with h2 | h1
    · exact Or.inl h2
    · split at h1
      · rename_i c
        obtain ⟨l, hl⟩ := isLeaf_iff.1 h1
        exact Or.inr ⟨c, l, rfl, hl⟩
      · cases h1
  · intro n n' i o o' m m' c c' h1 h2
    have := hnode h1
    simp only [Store.nodeOk, Bool.and_eq_true, List.all_eq_true] at this
    have := this.1.2 _ (List.mem_of_getElem? h2)
    simp only [bne_self_eq_false, Bool.false_or, beq_iff_eq] at this
    exact this.symm
  · intro n i o m c hn
    have := hnode hn
    simp only [Store.nodeOk, Bool.and_eq_true] at this
    obtain ⟨_, h3⟩ := this
    obtain ⟨hc, h4⟩ := h3
    refine ⟨isLeaf_iff.1 hc, ?_⟩
    have hi : i < s.impls.length := by
      have := hnode hn
      simp only [Store.nodeOk, Bool.and_eq_true, decide_eq_true_eq] at this
      exact this.1.1
    split at h4
    · rename_i c' hg
      obtain ⟨l', hl'⟩ := isLeaf_iff.1 h4
      exact ⟨c', l', by rw [getElem?_of_lt_getD [] hi, hg], hl'⟩
    · cases h4

end MV.Csg
