import MV.Model.Csg
/-
Lemmas for property C03 (lazy CSG evaluation).  Core Lean only.
-/
namespace MV.Csg
open SolidAlg XfAct

variable {M S : Type}

/-! ## algebra of folds -/
section Alg
variable [SolidAlg S]

instance : Std.Associative (α := S) union := ⟨union_assoc⟩
instance : Std.Commutative (α := S) union := ⟨union_comm⟩
instance : Std.Associative (α := S) inter := ⟨inter_assoc⟩
instance : Std.Commutative (α := S) inter := ⟨inter_comm⟩

theorem empty_union (a : S) : union empty a = a := by rw [union_comm, union_empty]

@[simp] theorem bigU_nil : bigU ([] : List S) = empty := rfl
@[simp] theorem bigU_cons (a : S) (l : List S) : bigU (a :: l) = union a (bigU l) := rfl

theorem bigU_append (a b : List S) : bigU (a ++ b) = union (bigU a) (bigU b) := by
  induction a with
  | nil => simp [empty_union]
  | cons x xs ih => simp [ih, union_assoc]

theorem bigU_singleton (a : S) : bigU [a] = a := by simp [union_empty]

/-- `Option S` with `none` as unit of intersection -/
def oInter : Option S → Option S → Option S
  | none, b => b
  | a, none => a
  | some a, some b => some (inter a b)

theorem oInter_none_right (a : Option S) : oInter a none = a := by cases a <;> rfl
theorem oInter_none_left (a : Option S) : oInter none a = a := rfl

theorem oInter_comm (a b : Option S) : oInter a b = oInter b a := by
  cases a <;> cases b <;> simp [oInter, inter_comm]

theorem oInter_assoc (a b c : Option S) : oInter (oInter a b) c = oInter a (oInter b c) := by
  cases a <;> cases b <;> cases c <;> simp [oInter, inter_assoc]

instance : Std.Associative (α := Option S) oInter := ⟨oInter_assoc⟩
instance : Std.Commutative (α := Option S) oInter := ⟨oInter_comm⟩

@[simp] theorem bigIo_nil : bigIo ([] : List S) = none := rfl
theorem bigIo_cons (a : S) (l : List S) : bigIo (a :: l) = oInter (some a) (bigIo l) := by
  simp only [bigIo]; cases bigIo l <;> rfl

theorem bigIo_append (a b : List S) : bigIo (a ++ b) = oInter (bigIo a) (bigIo b) := by
  induction a with
  | nil => simp [oInter]
  | cons x xs ih => simp [bigIo_cons, ih, oInter_assoc]

theorem bigIo_singleton (a : S) : bigIo [a] = some a := rfl

theorem bigIo_ne_nil {l : List S} {v : S} (h : bigIo l = some v) : l ≠ [] := by
  rintro rfl; simp at h

theorem opSem_singleton (o : Op) (x : S) : opSem o [x] = x := by
  cases o <;> simp [opSem, union_empty, bigI, bigIo, diff_empty]

end Alg

section Act
variable [One M] [Mul M] [SolidAlg S] [XfAct M S]

theorem act_bigU (m : M) (l : List S) : act m (bigU l) = bigU (l.map (act m)) := by
  induction l with
  | nil => simp [act_empty]
  | cons x xs ih => simp [act_union, ih]

theorem act_bigIo (m : M) (l : List S) : (bigIo l).map (act m) = bigIo (l.map (act m)) := by
  induction l with
  | nil => rfl
  | cons x xs ih =>
    simp only [List.map_cons, bigIo_cons, ← ih]
    cases bigIo xs <;> simp [oInter, act_inter]

theorem Val.leaf_transform (L : Val S) (l : Leaf M) (m : M) :
    L.leaf (l.transform m) = act m (L.leaf l) := by
  simp [Val.leaf, Leaf.transform, act_mul]

end Act
end MV.Csg
