import MV.Model.PolyGeom
import MV.Proof.CrossOpsField
/-!
The exact instance of `MV.CrossOps.ScalarSqrt` used by MV/Props/C10b.lean: `Option F` over a linearly
ordered field `F`, `none` = NaN.  Arithmetic is exact, `none` is absorbing, every comparison with
`none` is false (IEEE), `x / 0 = none` (the only division `IsConvex` performs is by `length(edge)`,
which is zero exactly when the numerator is the zero vector: `0/0 = NaN`; `normalize_lift` shows that
the `x ≠ 0` case never arises there).  `std::sqrt` is any function positive on the positives with
`sqrt 0 = 0` (class `HasSqrt`): the theorems hold for every such normaliser, in particular for the real
square root.

Also here: the loop of `IsConvex` as a statement about all corners (`isConvexFn_iff`, generic in the
scalar), the corner test at the exact instance (`icReject_lift`, `icReject_nan`), and the cyclic
"first zero-length edge after a non-zero one" lemma.
-/
set_option linter.unusedSectionVars false
namespace MV.PolyGeom
open MV.CrossOps

/-- what the theorems need from `std::sqrt` -/
class HasSqrt (F : Type) [Field F] [LinearOrder F] where
  sqrt : F → F
  sqrt_pos : ∀ x, 0 < x → 0 < sqrt x
  sqrt_zero : sqrt 0 = 0

section Inst
variable {F : Type} [Field F] [LinearOrder F] [HasSqrt F]

def oBin (f : F → F → F) : Option F → Option F → Option F
  | some x, some y => some (f x y)
  | _, _ => none
def oCmp (f : F → F → Bool) : Option F → Option F → Bool
  | some x, some y => f x y
  | _, _ => false
def oDiv : Option F → Option F → Option F
  | some x, some y => if y = 0 then none else some (x / y)
  | _, _ => none
def oSqrt : Option F → Option F
  | some x => if x < 0 then none else some (HasSqrt.sqrt x)
  | none => none

instance optScalar : ScalarSqrt (Option F) where
  zero := some 0
  one := some 1
  add := oBin (· + ·)
  sub := oBin (· - ·)
  mul := oBin (· * ·)
  div := oDiv
  neg a := a.map (- ·)
  abs a := a.map (|·|)
  lt := oCmp (fun x y => decide (x < y))
  le := oCmp (fun x y => decide (x ≤ y))
  beq := oCmp (fun x y => decide (x = y))
  isFinite a := a.isSome
  sqrt := oSqrt

@[simp] theorem o_zero : (Scalar.zero : Option F) = some 0 := rfl
@[simp] theorem o_add (a b : F) : Scalar.add (some a) (some b) = some (a + b) := rfl
@[simp] theorem o_sub (a b : F) : Scalar.sub (some a) (some b) = some (a - b) := rfl
@[simp] theorem o_mul (a b : F) : Scalar.mul (some a) (some b) = some (a * b) := rfl
@[simp] theorem o_div (a b : F) : Scalar.div (some a) (some b) = if b = 0 then none else some (a / b) := rfl
@[simp] theorem o_abs (a : F) : Scalar.abs (some a) = some |a| := rfl
@[simp] theorem o_lt (a b : F) : Scalar.lt (some a) (some b) = decide (a < b) := rfl
@[simp] theorem o_le (a b : F) : Scalar.le (some a) (some b) = decide (a ≤ b) := rfl
@[simp] theorem o_sqrt (a : F) : ScalarSqrt.sqrt (some a) = if a < 0 then none else some (HasSqrt.sqrt a) := rfl
@[simp] theorem o_mul_none_l (b : Option F) : Scalar.mul (none : Option F) b = none := rfl
@[simp] theorem o_mul_none_r (a : Option F) : Scalar.mul a (none : Option F) = none := by cases a <;> rfl
@[simp] theorem o_sub_none_l (b : Option F) : Scalar.sub (none : Option F) b = none := rfl
@[simp] theorem o_sub_none_r (a : Option F) : Scalar.sub a (none : Option F) = none := by cases a <;> rfl
@[simp] theorem o_add_none_l (b : Option F) : Scalar.add (none : Option F) b = none := rfl
@[simp] theorem o_add_none_r (a : Option F) : Scalar.add a (none : Option F) = none := by cases a <;> rfl
@[simp] theorem o_abs_none : Scalar.abs (none : Option F) = none := rfl
@[simp] theorem o_le_none_l (b : Option F) : Scalar.le (none : Option F) b = false := rfl
@[simp] theorem o_lt_none_l (b : Option F) : Scalar.lt (none : Option F) b = false := rfl

/-- a finite point -/
def lift (v : V2 F) : V2 (Option F) := ⟨some v.x, some v.y⟩
/-- `vec2(NaN, NaN)` -/
def nan2 : V2 (Option F) := ⟨none, none⟩

def vsubF (a b : V2 F) : V2 F := ⟨a.x - b.x, a.y - b.y⟩
def crossF (a b : V2 F) : F := a.x * b.y - a.y * b.x
def dotF (a b : V2 F) : F := a.x * b.x + a.y * b.y
def len2F (a : V2 F) : F := a.x * a.x + a.y * a.y

@[simp] theorem sub_lift (a b : V2 F) : (lift a).sub (lift b) = lift (vsubF a b) := rfl
@[simp] theorem cross_lift (a b : V2 F) : cross (lift a) (lift b) = some (crossF a b) := rfl
@[simp] theorem dot_lift (a b : V2 F) : dot (lift a) (lift b) = some (dotF a b) := by
  simp [dot, lift, dotF]
@[simp] theorem cross_nan (b : V2 (Option F)) : cross (nan2 : V2 (Option F)) b = none := by
  simp [cross, nan2]
@[simp] theorem dot_nan (b : V2 (Option F)) : dot (nan2 : V2 (Option F)) b = none := by
  simp [dot, nan2]

end Inst

section Ordered
variable {F : Type} [Field F] [LinearOrder F] [IsStrictOrderedRing F] [HasSqrt F]

omit [HasSqrt F] in
theorem len2F_nonneg (a : V2 F) : 0 ≤ len2F a := by
  unfold len2F; nlinarith [mul_self_nonneg a.x, mul_self_nonneg a.y]

omit [HasSqrt F] in
theorem len2F_eq_zero_iff (a : V2 F) : len2F a = 0 ↔ a.x = 0 ∧ a.y = 0 := by
  unfold len2F
  constructor
  · intro h
    have hx := mul_self_nonneg a.x
    have hy := mul_self_nonneg a.y
    have h1 : a.x * a.x = 0 := by linarith
    have h2 : a.y * a.y = 0 := by linarith
    exact ⟨mul_self_eq_zero.1 h1, mul_self_eq_zero.1 h2⟩
  · rintro ⟨h1, h2⟩; simp [h1, h2]

/-- the length the code divides by -/
def lenF (a : V2 F) : F := HasSqrt.sqrt (len2F a)

theorem lenF_pos {a : V2 F} (h : len2F a ≠ 0) : 0 < lenF a :=
  HasSqrt.sqrt_pos _ (lt_of_le_of_ne (len2F_nonneg a) (Ne.symm h))

/-- `la::normalize` of a finite vector: NaN in both components exactly for the zero vector (0/0), the
vector divided by its positive length otherwise.  In particular `x/0` with `x ≠ 0` never occurs. -/
theorem normalize_lift (a : V2 F) :
    normalize (lift a) = if len2F a = 0 then nan2 else lift ⟨a.x / lenF a, a.y / lenF a⟩ := by
  have hnn : ¬ len2F a < 0 := not_lt.2 (len2F_nonneg a)
  have hd : dot (lift a) (lift a) = some (len2F a) := by simp [dotF, len2F]
  show (lift a).divs (ScalarSqrt.sqrt (dot (lift a) (lift a))) = _
  rw [hd, o_sqrt, if_neg hnn]
  by_cases h0 : len2F a = 0
  · rw [if_pos h0, h0, HasSqrt.sqrt_zero]; simp [V2.divs, lift, nan2]
  · have hne : HasSqrt.sqrt (len2F a) ≠ 0 := ne_of_gt (lenF_pos h0)
    rw [if_neg h0]; simp [V2.divs, lift, lenF, hne]

/-- a NaN `lastEdge` never rejects: every comparison is false -/
theorem icReject_nan (eps : Option F) (e : V2 (Option F)) : icReject eps nan2 e = false := by
  simp [icReject]

/-- the corner test on finite vectors -/
theorem icReject_lift (eps : F) (a b : V2 F) :
    icReject (some eps) (lift a) (lift b)
      = (decide (crossF a b ≤ 0) || (decide (|crossF a b| < eps) && decide (dotF a b < 0))) := by
  simp [icReject]

theorem crossF_div (a b : V2 F) (s : F) :
    crossF ⟨a.x / s, a.y / s⟩ b = crossF a b / s := by
  unfold crossF; simp only []; ring
theorem dotF_div (a b : V2 F) (s : F) :
    dotF ⟨a.x / s, a.y / s⟩ b = dotF a b / s := by
  unfold dotF; simp only []; ring

end Ordered

/-! ## the loop of `IsConvex`, generic in the scalar -/
section Loop
variable {α : Type} [ScalarSqrt α]

/-- `lastEdge` when the loop reaches index `v` -/
def icLast (p : Nat → V2 α) (n : Nat) (firstEdge : V2 α) (v : Nat) : V2 α :=
  if v = 0 then normalize firstEdge else normalize (icEdge p n firstEdge (v - 1))

theorem icLoop_iff (eps : α) (p : Nat → V2 α) (n : Nat) (fe : V2 α) :
    ∀ fuel v, icLoop eps p n fe fuel v (icLast p n fe v) = true ↔
      ∀ j, v ≤ j → j < v + fuel → icReject eps (icLast p n fe j) (icEdge p n fe j) = false := by
  intro fuel
  induction fuel with
  | zero => intro v; simp only [icLoop, true_iff]; intro j h1 h2; omega
  | succ f ih =>
    intro v
    have hl : normalize (icEdge p n fe v) = icLast p n fe (v + 1) := by simp [icLast]
    simp only [icLoop]
    by_cases hr : icReject eps (icLast p n fe v) (icEdge p n fe v) = true
    · simp only [hr, if_true, Bool.false_eq_true, false_iff]
      intro h
      have := h v (le_refl _) (by omega)
      rw [hr] at this; cases this
    · have hr' : icReject eps (icLast p n fe v) (icEdge p n fe v) = false := by
        cases h : icReject eps (icLast p n fe v) (icEdge p n fe v) <;> simp_all
      simp only [hr', Bool.false_eq_true, if_false, hl, ih (v + 1)]
      constructor
      · intro h j h1 h2
        by_cases hj : j = v
        · subst hj; exact hr'
        · exact h j (by omega) (by omega)
      · intro h j h1 h2; exact h j (by omega) (by omega)

/-- `IsConvex` on one contour accepts exactly when the contour has at least three vertices and NO
corner trips the test (the early return is invisible) -/
theorem isConvexFn_iff (eps : α) (p : Nat → V2 α) (n : Nat) :
    isConvexFn eps p n = true ↔
      3 ≤ n ∧ ∀ v, v < n →
        icReject eps (icLast p n ((p 0).sub (p (n - 1))) v) (icEdge p n ((p 0).sub (p (n - 1))) v) = false := by
  unfold isConvexFn
  by_cases hn : n < 3
  · simp only [hn, if_true, Bool.false_eq_true, false_iff]; intro h; omega
  · simp only [hn, if_false]
    have h0 : normalize ((p 0).sub (p (n - 1))) = icLast p n ((p 0).sub (p (n - 1))) 0 := by simp [icLast]
    rw [h0, icLoop_iff]
    constructor
    · intro h; exact ⟨by omega, fun v hv => h v (Nat.zero_le _) (by omega)⟩
    · rintro ⟨_, h⟩ j _ hj; exact h j (by omega)

end Loop

/-! ## cyclic sequences -/

theorem exists_drop {P : Nat → Prop} : ∀ b a, a < b → P a → ¬ P b → ∃ v, a < v ∧ v ≤ b ∧ P (v - 1) ∧ ¬ P v := by
  intro b
  induction b with
  | zero => intro a h; omega
  | succ b ih =>
    intro a hab ha hb
    by_cases hpb : P b
    · exact ⟨b + 1, by omega, le_refl _, by simpa using hpb, hb⟩
    · have hne : a ≠ b := fun h => hpb (h ▸ ha)
      obtain ⟨v, h1, h2, h3, h4⟩ := ih a (by omega) ha hpb
      exact ⟨v, h1, by omega, h3, h4⟩

/-- the cyclic predecessor index -/
def cpred (n v : Nat) : Nat := if v = 0 then n - 1 else v - 1

/-- in a cyclic sequence that is neither all-`P` nor all-`¬P` some element without `P` follows one
with `P` -/
theorem exists_cyclic_drop {P : Nat → Prop} {n : Nat} (hu : ∃ u, u < n ∧ P u) (hw : ∃ w, w < n ∧ ¬ P w) :
    ∃ v, v < n ∧ P (cpred n v) ∧ ¬ P v := by
  obtain ⟨u, hun, hu⟩ := hu
  obtain ⟨w, hwn, hw⟩ := hw
  have huw : u ≠ w := fun h => hw (h ▸ hu)
  have fromDrop : ∀ a b, a < b → b < n → P a → ¬ P b → ∃ v, v < n ∧ P (cpred n v) ∧ ¬ P v := by
    intro a b hab hbn ha hb
    obtain ⟨v, h1, h2, h3, h4⟩ := exists_drop b a hab ha hb
    refine ⟨v, by omega, ?_, h4⟩
    have : cpred n v = v - 1 := by unfold cpred; rw [if_neg (by omega)]
    rw [this]; exact h3
  by_cases h : u < w
  · exact fromDrop u w h hwn hu hw
  · by_cases hl : P (n - 1)
    · by_cases h0 : P 0
      · have : 0 < w := Nat.pos_of_ne_zero (fun hz => hw (hz ▸ h0))
        exact fromDrop 0 w this hwn h0 hw
      · exact ⟨0, by omega, by simpa [cpred] using hl, h0⟩
    · have : u ≠ n - 1 := fun hz => hl (hz ▸ hu)
      exact fromDrop u (n - 1) (by omega) (by omega) hu hl

end MV.PolyGeom
