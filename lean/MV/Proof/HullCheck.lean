import MV.Model.HullCheck
import MV.Proof.Mesh
import Mathlib.Tactic.Ring
import Mathlib.Tactic.LinearCombination
/-!
Soundness and completeness of the convex-hull certificate checker (`MV.Hull.checkHull`) and
exactness of `MV.Hull.affineRank`, for all inputs.
-/
namespace MV.Hull
open MV.Mesh

/-- what an accepted certificate states -/
structure HullCert (pts : List P3) (vs : Array P3) (ts : List Tri) : Prop where
  /-- the output triangles form a closed oriented 2-manifold over all output vertices -/
  manifold : Closed2Manifold vs.size ts
  /-- every output vertex is an input point -/
  verts_input : ∀ i, i < vs.size → vpos vs i ∈ pts
  /-- every input point is on or behind the plane of every output triangle -/
  inside : ∀ t ∈ ts, ∀ p ∈ pts, triOrient vs t p ≤ 0

theorem isZero_iff (u : P3) : isZero u = true ↔ u = (0, 0, 0) := by
  obtain ⟨a, b, c⟩ := u
  simp [isZero, Prod.ext_iff, and_assoc]

theorem firstOutside_none_iff (vs : Array P3) (pts : List P3) (t : Tri) :
    firstOutside vs pts t = none ↔ ∀ p ∈ pts, triOrient vs t p ≤ 0 := by
  simp [firstOutside, List.findIdx?_eq_none_iff]

theorem findOutside_none_iff (vs : Array P3) (pts : List P3) :
    ∀ (ts : List Tri) (i : Nat),
      findOutside vs pts ts i = none ↔ ∀ t ∈ ts, ∀ p ∈ pts, triOrient vs t p ≤ 0
  | [], i => by simp [findOutside]
  | t :: ts, i => by
    unfold findOutside
    cases h : firstOutside vs pts t with
    | some j =>
      have hn : ¬ ∀ p ∈ pts, triOrient vs t p ≤ 0 := by
        rw [← firstOutside_none_iff, h]; simp
      simp only [reduceCtorEq, List.mem_cons, forall_eq_or_imp, false_iff, not_and]
      intro h1; exact absurd h1 hn
    | none =>
      have hy := (firstOutside_none_iff vs pts t).mp h
      simp only [List.mem_cons, forall_eq_or_imp]
      rw [findOutside_none_iff vs pts ts (i + 1)]
      exact ⟨fun h2 => ⟨hy, h2⟩, fun h2 => h2.2⟩

/-- **The checker is exact.**  It accepts iff the three certificate clauses hold. -/
theorem checkHull_iff (pts : List P3) (vs : Array P3) (ts : List Tri) :
    checkHull pts vs ts = .ok () ↔ HullCert pts vs ts := by
  unfold checkHull
  cases hm : checkMesh vs.size ts with
  | error e =>
    simp only [reduceCtorEq, false_iff]
    intro hc
    have := (checkMesh_iff' vs.size ts).mpr hc.manifold
    rw [hm] at this; cases this
  | ok u =>
    have hM : Closed2Manifold vs.size ts := (checkMesh_iff' vs.size ts).mp (by rw [hm])
    simp only
    cases hv : (List.range vs.size).find? (fun i => !(pts.contains (vpos vs i))) with
    | some i =>
      simp only [reduceCtorEq, false_iff]
      intro hc
      have h1 := List.find?_some hv
      have h2 := List.mem_range.mp (List.mem_of_find?_eq_some hv)
      have := hc.verts_input i h2
      simp [this] at h1
    | none =>
      have hV : ∀ i, i < vs.size → vpos vs i ∈ pts := by
        intro i hi
        have := List.find?_eq_none.mp hv i (List.mem_range.mpr hi)
        simpa [List.contains_iff_mem] using this
      simp only
      cases ho : findOutside vs pts ts 0 with
      | some ij =>
        obtain ⟨i, j⟩ := ij
        simp only [reduceCtorEq, false_iff]
        intro hc
        have := (findOutside_none_iff vs pts ts 0).mpr hc.inside
        rw [ho] at this; cases this
      | none =>
        simp only [true_iff]
        exact ⟨hM, hV, (findOutside_none_iff vs pts ts 0).mp ho⟩

instance (pts : List P3) (vs : Array P3) (ts : List Tri) : Decidable (HullCert pts vs ts) :=
  decidable_of_iff
    (Closed2Manifold vs.size ts ∧ (∀ i, i < vs.size → vpos vs i ∈ pts) ∧
      (∀ t ∈ ts, ∀ p ∈ pts, triOrient vs t p ≤ 0))
    ⟨fun h => ⟨h.1, h.2.1, h.2.2⟩, fun h => ⟨h.manifold, h.verts_input, h.inside⟩⟩

theorem checkHull_sound {pts : List P3} {vs : Array P3} {ts : List Tri}
    (h : checkHull pts vs ts = .ok ()) : HullCert pts vs ts := (checkHull_iff pts vs ts).mp h

/-- consequence used for "every edge is convex": every VERTEX of an accepted mesh is on or behind
the plane of every triangle, in particular the apex of the triangle across any edge -/
theorem HullCert.vertex_behind {pts : List P3} {vs : Array P3} {ts : List Tri}
    (h : HullCert pts vs ts) {t : Tri} (ht : t ∈ ts) {i : Nat} (hi : i < vs.size) :
    triOrient vs t (vpos vs i) ≤ 0 :=
  h.inside t ht _ (h.verts_input i hi)

theorem flatOnInput_iff (pts : List P3) (vs : Array P3) (ts : List Tri) :
    flatOnInput pts vs ts = true ↔
      (∀ i, i < vs.size → vpos vs i ∈ pts) ∧ ∀ t ∈ ts, ∀ p ∈ pts, triOrient vs t p = 0 := by
  simp [flatOnInput, List.all_eq_true, List.mem_range]

/-! ## affine rank -/

/-- `M n = 0` with `n ≠ 0` forces `det M = 0` (rows `u v w`): the cofactor expansion, once per
coordinate of `n` -/
theorem det_zero_of_kernel {u v w n : P3} (hu : dot u n = 0) (hv : dot v n = 0) (hw : dot w n = 0)
    (hn : n ≠ (0, 0, 0)) : dot (cross u v) w = 0 := by
  obtain ⟨u1, u2, u3⟩ := u; obtain ⟨v1, v2, v3⟩ := v; obtain ⟨w1, w2, w3⟩ := w
  obtain ⟨n1, n2, n3⟩ := n
  simp only [dot, cross] at *
  have e1 : ((u2 * v3 - u3 * v2) * w1 + (u3 * v1 - u1 * v3) * w2 + (u1 * v2 - u2 * v1) * w3) * n1 = 0 := by
    linear_combination (v2 * w3 - v3 * w2) * hu - (u2 * w3 - u3 * w2) * hv + (u2 * v3 - u3 * v2) * hw
  have e2 : ((u2 * v3 - u3 * v2) * w1 + (u3 * v1 - u1 * v3) * w2 + (u1 * v2 - u2 * v1) * w3) * n2 = 0 := by
    linear_combination (v3 * w1 - v1 * w3) * hu - (u3 * w1 - u1 * w3) * hv + (u3 * v1 - u1 * v3) * hw
  have e3 : ((u2 * v3 - u3 * v2) * w1 + (u3 * v1 - u1 * v3) * w2 + (u1 * v2 - u2 * v1) * w3) * n3 = 0 := by
    linear_combination (v1 * w2 - v2 * w1) * hu - (u1 * w2 - u2 * w1) * hv + (u1 * v2 - u2 * v1) * hw
  by_contra hd
  have h1 : n1 = 0 := by rcases Int.mul_eq_zero.mp e1 with h | h; exact absurd h hd; exact h
  have h2 : n2 = 0 := by rcases Int.mul_eq_zero.mp e2 with h | h; exact absurd h hd; exact h
  have h3 : n3 = 0 := by rcases Int.mul_eq_zero.mp e3 with h | h; exact absurd h hd; exact h
  exact hn (by rw [h1, h2, h3])

/-- all points of `pts` lie in the plane through `o` with normal `n ≠ 0`: any four are coplanar -/
theorem coplanar_of_common_plane {pts : List P3} {o n : P3} (hn : n ≠ (0, 0, 0))
    (h : ∀ x ∈ pts, dot (sub x o) n = 0) :
    ∀ a ∈ pts, ∀ b ∈ pts, ∀ c ∈ pts, ∀ d ∈ pts, orient a b c d = 0 := by
  intro a ha b hb c hc d hd
  have ka := h a ha; have kb := h b hb; have kc := h c hc; have kd := h d hd
  unfold orient normal
  apply det_zero_of_kernel (n := n) _ _ _ hn
  · obtain ⟨a1, a2, a3⟩ := a; obtain ⟨b1, b2, b3⟩ := b; obtain ⟨o1, o2, o3⟩ := o; obtain ⟨n1, n2, n3⟩ := n
    simp only [dot, sub] at *; linear_combination kb - ka
  · obtain ⟨a1, a2, a3⟩ := a; obtain ⟨c1, c2, c3⟩ := c; obtain ⟨o1, o2, o3⟩ := o; obtain ⟨n1, n2, n3⟩ := n
    simp only [dot, sub] at *; linear_combination kc - ka
  · obtain ⟨a1, a2, a3⟩ := a; obtain ⟨d1, d2, d3⟩ := d; obtain ⟨o1, o2, o3⟩ := o; obtain ⟨n1, n2, n3⟩ := n
    simp only [dot, sub] at *; linear_combination kd - ka

/-- a non-zero vector has a non-zero vector orthogonal to it, among `d × e₁, d × e₂, d × e₃` -/
theorem exists_orthogonal {d : P3} (hd : d ≠ (0, 0, 0)) :
    ∃ n : P3, n ≠ (0, 0, 0) ∧ ∀ y : P3, cross d y = (0, 0, 0) → dot y n = 0 := by
  obtain ⟨d1, d2, d3⟩ := d
  by_cases h1 : d1 = 0
  · by_cases h2 : d2 = 0
    · have h3 : d3 ≠ 0 := by
        intro h3; exact hd (by rw [h1, h2, h3])
      refine ⟨(0, d3, -d2), by simp [Prod.ext_iff, h3], ?_⟩
      rintro ⟨y1, y2, y3⟩ hy
      simp only [cross, Prod.mk.injEq] at hy
      simp only [dot]; linear_combination -hy.1
    · refine ⟨(d2, -d1, 0), by simp [Prod.ext_iff, h2], ?_⟩
      rintro ⟨y1, y2, y3⟩ hy
      simp only [cross, Prod.mk.injEq] at hy
      simp only [dot]; linear_combination -hy.2.2
  · refine ⟨(d2, -d1, 0), by simp [Prod.ext_iff, h1], ?_⟩
    rintro ⟨y1, y2, y3⟩ hy
    simp only [cross, Prod.mk.injEq] at hy
    simp only [dot]; linear_combination -hy.2.2

theorem orient_eq_dot (a b c p : P3) : orient a b c p = dot (sub p a) (normal a b c) := by
  obtain ⟨a1, a2, a3⟩ := a; obtain ⟨b1, b2, b3⟩ := b; obtain ⟨c1, c2, c3⟩ := c; obtain ⟨p1, p2, p3⟩ := p
  simp only [orient, normal, dot, cross, sub]; ring

theorem orient_corner (a b c : P3) : orient a b c a = 0 ∧ orient a b c b = 0 ∧ orient a b c c = 0 := by
  obtain ⟨a1, a2, a3⟩ := a; obtain ⟨b1, b2, b3⟩ := b; obtain ⟨c1, c2, c3⟩ := c
  simp only [orient, normal, dot, cross, sub]
  refine ⟨by ring, by ring, by ring⟩

theorem sub_self_zero (a : P3) : sub a a = (0, 0, 0) := by
  obtain ⟨a1, a2, a3⟩ := a; simp [sub]

theorem dot_zero_left (n : P3) : dot (0, 0, 0) n = 0 := by simp [dot]

/-- **`affineRank` is exact on the question the property asks.**  Rank 4 exhibits four input points
spanning a tetrahedron; any smaller rank means every four input points are coplanar. -/
theorem affineRank_four_iff (pts : List P3) :
    affineRank pts = 4 ↔ ∃ a ∈ pts, ∃ b ∈ pts, ∃ c ∈ pts, ∃ d ∈ pts, orient a b c d ≠ 0 := by
  constructor
  · intro h
    cases pts with
    | nil => simp [affineRank] at h
    | cons p0 rest =>
      unfold affineRank at h
      cases h1 : rest.find? (fun q => !isZero (sub q p0)) with
      | none => simp [h1] at h
      | some p1 =>
        simp only [h1] at h
        cases h2 : rest.find? (fun q => !isZero (cross (sub p1 p0) (sub q p0))) with
        | none => simp [h2] at h
        | some p2 =>
          simp only [h2] at h
          cases h3 : rest.find? (fun q => orient p0 p1 p2 q != 0) with
          | none => simp [h3] at h
          | some p3 =>
            refine ⟨p0, by simp, p1, List.mem_cons_of_mem _ (List.mem_of_find?_eq_some h1),
              p2, List.mem_cons_of_mem _ (List.mem_of_find?_eq_some h2),
              p3, List.mem_cons_of_mem _ (List.mem_of_find?_eq_some h3), ?_⟩
            simpa using List.find?_some h3
  · rintro ⟨a, ha, b, hb, c, hc, d, hd, hne⟩
    by_contra hr
    apply hne
    cases pts with
    | nil => simp at ha
    | cons p0 rest =>
      unfold affineRank at hr
      -- every point of the cloud, including `p0`, satisfies a predicate that holds on `rest` and at `p0`
      have all_of {P : P3 → Prop} (h0 : P p0) (hrest : ∀ x ∈ rest, P x) : ∀ x ∈ p0 :: rest, P x := by
        intro x hx
        rcases List.mem_cons.mp hx with rfl | hx
        · exact h0
        · exact hrest x hx
      cases h1 : rest.find? (fun q => !isZero (sub q p0)) with
      | none =>
        -- all points equal p0
        have hall : ∀ x ∈ p0 :: rest, dot (sub x p0) (1, 0, 0) = 0 := by
          apply all_of
          · rw [sub_self_zero]; exact dot_zero_left _
          · intro x hx
            have := List.find?_eq_none.mp h1 x hx
            simp only [Bool.not_eq_eq_eq_not, Bool.not_true, Bool.not_eq_false] at this
            rw [(isZero_iff _).mp this]; exact dot_zero_left _
        exact coplanar_of_common_plane (by simp) hall a ha b hb c hc d hd
      | some p1 =>
        simp only [h1] at hr
        have hp1 : sub p1 p0 ≠ (0, 0, 0) := by
          have := List.find?_some h1
          rw [Ne, ← isZero_iff]; simpa using this
        cases h2 : rest.find? (fun q => !isZero (cross (sub p1 p0) (sub q p0))) with
        | none =>
          obtain ⟨n, hn, hortho⟩ := exists_orthogonal hp1
          have hall : ∀ x ∈ p0 :: rest, dot (sub x p0) n = 0 := by
            apply all_of
            · rw [sub_self_zero]; exact dot_zero_left _
            · intro x hx
              have := List.find?_eq_none.mp h2 x hx
              simp only [Bool.not_eq_eq_eq_not, Bool.not_true, Bool.not_eq_false] at this
              exact hortho _ ((isZero_iff _).mp this)
          exact coplanar_of_common_plane hn hall a ha b hb c hc d hd
        | some p2 =>
          simp only [h2] at hr
          have hn : normal p0 p1 p2 ≠ (0, 0, 0) := by
            have := List.find?_some h2
            rw [Ne, ← isZero_iff]; simpa [normal] using this
          cases h3 : rest.find? (fun q => orient p0 p1 p2 q != 0) with
          | some p3 => simp [h3] at hr
          | none =>
            have hall : ∀ x ∈ p0 :: rest, dot (sub x p0) (normal p0 p1 p2) = 0 := by
              apply all_of
              · rw [sub_self_zero]; exact dot_zero_left _
              · intro x hx
                have := List.find?_eq_none.mp h3 x hx
                rw [← orient_eq_dot]; simpa using this
            exact coplanar_of_common_plane hn hall a ha b hb c hc d hd

end MV.Hull
