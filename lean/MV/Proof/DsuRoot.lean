/-
Consequences of the memory invariant in a fixed memory: the parent graph is a forest
(`mu` strictly decreases along parent links), following parents reaches a root within
`n` steps, "same root" is exactly `Conn E`, and the sequential `findImpl` (`findSeq`, used by
`connectedComponents`) terminates with fuel `n`, returns the root, and keeps the invariant.
-/
import MV.Proof.Dsu

namespace MV.Dsu

instance (m : Mem) (a b : Nat) : Decidable (KLt m a b) := by unfold KLt; infer_instance

theorem countP_lt_of_imp {α : Type} (P Q : α → Bool) (l : List α)
    (himp : ∀ x, x ∈ l → P x = true → Q x = true)
    (hex : ∃ x, x ∈ l ∧ Q x = true ∧ P x = false) : l.countP P < l.countP Q := by
  induction l with
  | nil => obtain ⟨x, hx, _⟩ := hex; cases hx
  | cons y ys ih =>
    have hle : ys.countP P ≤ ys.countP Q :=
      List.countP_mono_left (fun x hx hp => himp x (List.mem_cons_of_mem _ hx) hp)
    obtain ⟨x, hx, hq, hp⟩ := hex
    rcases List.mem_cons.1 hx with e | hx'
    · subst e
      simp only [List.countP_cons, hq, hp, if_true]
      simp; omega
    · have := ih (fun x hx hp => himp x (List.mem_cons_of_mem _ hx) hp) ⟨x, hx', hq, hp⟩
      simp only [List.countP_cons]
      have := himp y (List.mem_cons_self ..)
      cases hpy : P y <;> cases hqy : Q y <;> simp_all <;> omega

/-- number of elements with a strictly larger key: decreases along parent links -/
def mu (m : Mem) (n : Nat) (i : Nat) : Nat := (List.range n).countP fun j => decide (KLt m i j)

theorem mu_lt_n (m : Mem) {n i : Nat} (hi : i < n) : mu m n i < n := by
  have := countP_lt_of_imp (fun j => decide (KLt m i j)) (fun _ => true) (List.range n)
    (fun _ _ _ => rfl) ⟨i, List.mem_range.2 hi, rfl, by simp [KLt.irrefl]⟩
  simpa [mu] using this

theorem mu_par_lt {n : Nat} {m : Mem} {E : List (Nat × Nat)} (hm : MemInv n m E) {i : Nat}
    (hi : i < n) (hnr : par m i ≠ i) : mu m n (par m i) < mu m n i := by
  have hk := hm.klt i hi hnr
  unfold mu
  apply countP_lt_of_imp
  · intro x _ hx
    simp only [decide_eq_true_eq] at hx ⊢
    exact hk.trans hx
  · exact ⟨par m i, List.mem_range.2 (hm.bound i hi), by simpa using hk, by simp [KLt.irrefl]⟩

/-- follow parent links at most `fuel` times -/
def rootF (m : Mem) : Nat → Nat → Nat
  | 0, i => i
  | f + 1, i => if par m i = i then i else rootF m f (par m i)

/-- the representative of `i` -/
def root (m : Mem) (i : Nat) : Nat := rootF m m.length i

theorem rootF_spec {n : Nat} {m : Mem} {E : List (Nat × Nat)} (hm : MemInv n m E) :
    ∀ (f i : Nat), i < n → mu m n i < f →
      rootF m f i < n ∧ par m (rootF m f i) = rootF m f i ∧ Conn E i (rootF m f i) := by
  intro f
  induction f with
  | zero => intro i _ h; omega
  | succ f ih =>
    intro i hi hmu
    unfold rootF
    by_cases hr : par m i = i
    · rw [if_pos hr]; exact ⟨hi, hr, .refl _⟩
    · rw [if_neg hr]
      have := mu_par_lt hm hi hr
      obtain ⟨h1, h2, h3⟩ := ih (par m i) (hm.bound i hi) (by omega)
      exact ⟨h1, h2, (hm.edge i hi).trans h3⟩

theorem root_spec {n : Nat} {m : Mem} {E : List (Nat × Nat)} (hm : MemInv n m E) {i : Nat}
    (hi : i < n) : root m i < n ∧ par m (root m i) = root m i ∧ Conn E i (root m i) := by
  unfold root; rw [hm.len]; exact rootF_spec hm n i hi (mu_lt_n m hi)

/-- (I2) the partition induced by "same root" is the equivalence closure of the links -/
theorem root_eq_iff {n : Nat} {m : Mem} {E : List (Nat × Nat)} (hm : MemInv n m E) {a b : Nat}
    (ha : a < n) (hb : b < n) : root m a = root m b ↔ Conn E a b := by
  obtain ⟨a1, a2, a3⟩ := root_spec hm ha
  obtain ⟨b1, b2, b3⟩ := root_spec hm hb
  constructor
  · intro h; exact a3.trans (h ▸ b3.symm)
  · intro h; exact hm.uroot _ _ a1 b1 (a3.symm.trans (h.trans b3)) a2 b2

theorem root_of_isRoot {n : Nat} {m : Mem} {E : List (Nat × Nat)} (hm : MemInv n m E) {r : Nat}
    (hr : r < n) (h : par m r = r) : root m r = r := by
  obtain ⟨a1, a2, a3⟩ := root_spec hm hr
  exact hm.uroot _ _ a1 hr a3.symm a2 h

/-! ## sequential `findImpl` -/

theorem findSeq_spec {n : Nat} {E : List (Nat × Nat)} :
    ∀ (f : Nat) (m : Mem) (i : Nat), MemInv n m E → i < n → mu m n i < f →
      MemInv n (findSeq f m i).1 E ∧
      (findSeq f m i).2 < n ∧ par (findSeq f m i).1 (findSeq f m i).2 = (findSeq f m i).2 ∧
      Conn E i (findSeq f m i).2 ∧
      (∀ j, rk (findSeq f m i).1 j = rk m j) ∧
      (∀ j, par (findSeq f m i).1 j = j ↔ par m j = j) := by
  intro f
  induction f with
  | zero => intro m i _ _ h; omega
  | succ f ih =>
    intro m i hm hi hmu
    unfold findSeq
    by_cases hr : (rd m i).parent = i
    · rw [if_pos hr]
      exact ⟨hm, hi, hr, .refl _, fun _ => rfl, fun _ => Iff.rfl⟩
    · rw [if_neg hr]
      have hr' : par m i ≠ i := hr
      -- p = parent, g = grandparent
      have hp : (rd m i).parent < n := hm.bound i hi
      have hg : (rd m (rd m i).parent).parent < n := hm.bound _ hp
      have hmu1 := mu_par_lt hm hi hr'
      by_cases hpg : (rd m (rd m i).parent).parent = (rd m i).parent
      · -- parent is a root: value = new_value, no CAS
        have e : (rd m i) = ⟨(rd m i).rank, (rd m (rd m i).parent).parent⟩ := by
          rw [hpg]
        simp only [ne_eq, ← e, not_true_eq_false, if_false]
        have hmu2 : mu m n (rd m (rd m i).parent).parent < f := by
          rw [hpg]; unfold par at hmu1; omega
        obtain ⟨r1, r3, r4, r5, r6, r7⟩ := ih m _ hm hg hmu2
        refine ⟨r1, r3, r4, ?_, r6, r7⟩
        have : Conn E i (rd m i).parent := hm.edge i hi
        rw [hpg] at r5 ⊢
        exact this.trans r5
      · have hpg' : par m (rd m i).parent ≠ (rd m i).parent := hpg
        have hne : rd m i ≠ ⟨(rd m i).rank, (rd m (rd m i).parent).parent⟩ := by
          intro e
          have := congrArg Word.parent e
          exact hpg this.symm
        simp only [ne_eq, hne, not_false_eq_true, if_true]
        have hk := hm.klt _ hp hpg'
        obtain ⟨hm', x⟩ := halve_mem (g := (rd m (rd m i).parent).parent) hm hi rfl hr' hg
          (hm.edge _ hp) hk
        have hmu2 := mu_par_lt hm hp hpg'
        -- ranks are unchanged, so `mu` is unchanged
        have hrk : ∀ j, rk (wr m i ⟨(rd m i).rank, (rd m (rd m i).parent).parent⟩) j = rk m j := by
          intro j
          have hlen : i < m.length := hm.len ▸ hi
          rw [rk_wr _ _ _ _ hlen]; by_cases e : i = j
          · subst e; simp [rk]
          · simp [e]
        have hmu' : ∀ j, mu (wr m i ⟨(rd m i).rank, (rd m (rd m i).parent).parent⟩) n j = mu m n j := by
          intro j; unfold mu KLt; simp only [hrk]
        have hmu3 : mu (wr m i ⟨(rd m i).rank, (rd m (rd m i).parent).parent⟩) n
            (rd m (rd m i).parent).parent < f := by
          rw [hmu']; unfold par at hmu1 hmu2; omega
        obtain ⟨r1, r3, r4, r5, r6, r7⟩ := ih _ _ hm' hg hmu3
        have hroot : ∀ j, par (wr m i ⟨(rd m i).rank, (rd m (rd m i).parent).parent⟩) j = j ↔
            par m j = j := by
          intro j
          constructor
          · intro h; exact Classical.byContradiction fun hn => (x.nonroot j hn).1 h
          · intro h
            have hlen : i < m.length := hm.len ▸ hi
            rw [par_wr _ _ _ _ hlen]
            by_cases e : i = j
            · subst e; exact (hr' h).elim
            · simp [e, h]
        exact ⟨r1, r3, r4, (hm.edge i hi).trans ((hm.edge _ hp).trans r5),
          fun j => (r6 j).trans (hrk j), fun j => (r7 j).trans (hroot j)⟩

end MV.Dsu
