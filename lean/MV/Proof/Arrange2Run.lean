import MV.Proof.Arrange2Events
import MV.Proof.Arrange2Sorted
/-!
C11b: `ProcessEvent` and `Run()` keep the event-queue invariant; events are processed in strictly increasing
lexicographic order as long as every constructed crossing lies after the event at which it is found.
-/
namespace MV.Arr2
open MV.Sweep2

theorem classify_of_r_eq (o : Oracle) (e : SEdge) (p : Pt) (h : e.r = p) : classify o e p = Side.ends := by
  simp [classify, h]

theorem mem_zip_map {α β : Type} (f : α → β) (l : List α) (x : α × β) (h : x ∈ l.zip (l.map f)) :
    x.1 ∈ l ∧ x.2 = f x.1 := by
  induction l with
  | nil => simp at h
  | cons y rest ih =>
    simp only [List.map_cons, List.zip_cons_cons, List.mem_cons] at h
    rcases h with h | h
    · rw [h]; exact ⟨List.mem_cons_self, rfl⟩
    · exact ⟨List.mem_cons_of_mem _ (ih h).1, (ih h).2⟩

theorem blockLoop_right (mode : Mode) (rule : WindRule) (p : Pt) (bl : List (SEdge × Side)) (w : Int)
    (out : PolySet) (re : List SEdge) (seq : Nat) :
    ∀ e ∈ (blockLoop mode rule p bl w out re seq).2.1, e ∈ re ∨ ∃ x ∈ bl, x.2 ≠ Side.ends ∧ e.r = x.1.r := by
  induction bl generalizing w out re seq with
  | nil => intro e he; left; simpa [blockLoop] using he
  | cons x rest ih =>
    obtain ⟨e0, c⟩ := x
    intro e he
    unfold blockLoop at he
    by_cases hc : c = Side.ends
    · simp only [hc, if_true] at he
      rcases ih _ _ _ _ e he with h | ⟨x, hx, h⟩
      · left; exact h
      · right; exact ⟨x, List.mem_cons_of_mem _ hx, h⟩
    · simp only [hc, if_false] at he
      rcases ih _ _ _ _ e he with h | ⟨x, hx, h⟩
      · rcases List.mem_append.mp h with h1 | h1
        · left; exact h1
        · right
          simp only [List.mem_singleton] at h1
          exact ⟨(e0, c), List.mem_cons_self, hc, by rw [h1]⟩
      · right; exact ⟨x, List.mem_cons_of_mem _ hx, h⟩

theorem pendingEdges_right (p : Pt) (inner : List (Pt × Int)) (seq : Nat) :
    ∀ e ∈ pendingEdges p inner seq, ∃ x ∈ inner, e.r = x.1 := by
  induction inner generalizing seq with
  | nil => simp [pendingEdges]
  | cons x rest ih =>
    obtain ⟨b, m⟩ := x
    intro e he
    simp only [pendingEdges, List.mem_cons] at he
    rcases he with h | h
    · exact ⟨(b, m), List.mem_cons_self, by rw [h]⟩
    · obtain ⟨x, hx, hx'⟩ := ih _ e h
      exact ⟨x, List.mem_cons_of_mem _ hx, hx'⟩

/-- the state right after `events_.erase(events_.begin())` of the event `p` -/
structure PreInv (p : Pt) (st : St) : Prop where
  sorted : EvSorted st.events
  after : After p st
  statusR : ∀ e ∈ st.status, e.r = p ∨ e.r ∈ st.events
  pend : ∀ e ∈ st.pending, (lexLess p e.1 = true ∨ e.1 = p) → ∀ x ∈ e.2, lexLess e.1 x.1 = true ∧ x.1 ∈ st.events

theorem reinsertOf_right (o : Oracle) (mode : Mode) (rule : WindRule) (st : St) (p : Pt) (h : PreInv p st) :
    ∀ e ∈ reinsertOf o mode rule st p, e.r ∈ st.events := by
  intro e he
  unfold reinsertOf at he
  simp only at he
  rcases List.mem_append.mp he with h1 | h1
  · rcases blockLoop_right mode rule p _ _ _ [] _ e h1 with h2 | ⟨x, hx, hne, hr⟩
    · simp at h2
    · have hx' := mem_zip_map (classify o · p) st.status x
        (List.mem_of_mem_drop (List.mem_of_mem_take hx))
      rcases h.statusR x.1 hx'.1 with h3 | h3
      · exact absurd (hx'.2.trans (classify_of_r_eq o x.1 p h3)) hne
      · rw [hr]; exact h3
  · cases hf : pendFind st.pending p with
    | none => simp [hf] at h1
    | some inner =>
      simp only [hf] at h1
      obtain ⟨x, hx, hx'⟩ := pendingEdges_right p inner _ e h1
      rw [hx']
      exact (h.pend (p, inner) (pendFind_mem _ _ _ hf) (Or.inr rfl) x hx).2

theorem prepare_events (o : Oracle) (mode : Mode) (rule : WindRule) (st : St) (p : Pt) :
    (prepare o mode rule st p).mid.events = st.events := rfl
theorem prepare_pending (o : Oracle) (mode : Mode) (rule : WindRule) (st : St) (p : Pt) :
    (prepare o mode rule st p).mid.pending = pendErase st.pending p := rfl
theorem prepare_ahead (o : Oracle) (mode : Mode) (rule : WindRule) (st : St) (p : Pt) :
    (prepare o mode rule st p).mid.ahead = st.ahead := rfl

theorem prepare_inv (o : Oracle) (mode : Mode) (rule : WindRule) (st : St) (p : Pt) (h : PreInv p st) :
    Inv p (prepare o mode rule st p).mid ∧ After p (prepare o mode rule st p).mid := by
  refine ⟨⟨?_, ?_, ?_⟩, ?_⟩
  · rw [prepare_events]; exact h.sorted
  · intro e he
    rw [prepare_events]
    rw [prepare_status] at he
    have hne : ∀ e ∈ st.status, classify o e p ≠ Side.ends → e.r ∈ st.events := by
      intro e he hc
      rcases h.statusR e he with h1 | h1
      · exact absurd (classify_of_r_eq o e p h1) hc
      · exact h1
    rcases List.mem_append.mp he with h1 | h1
    · rcases List.mem_append.mp h1 with h2 | h2
      · apply hne e (List.mem_of_mem_take h2)
        have : classify o e p = Side.under := by
          apply take_lo_under' (classes o st.status p)
          rw [← prepare_lo, classes, ← List.map_take]
          exact List.mem_map_of_mem h2
        rw [this]; decide
      · exact reinsertOf_right o mode rule st p h e ((sortReinsert_mem o _ e).mp h2)
    · apply hne e (List.mem_of_mem_drop h1)
      have : classify o e p = Side.over := by
        apply drop_hi_over' (classes o st.status p)
        rw [← prepare_hi, classes, ← List.map_drop]
        exact List.mem_map_of_mem h1
      rw [this]; decide
  · intro e he hp x hx
    rw [prepare_events]
    rw [prepare_pending] at he
    exact h.pend e (mem_pendErase _ _ _ he) (Or.inl hp) x hx
  · intro q hq; rw [prepare_events] at hq; exact h.after q hq

theorem processEvent_ahead_mono (o : Oracle) (mode : Mode) (rule : WindRule) (st : St) (p : Pt)
    (hah : (processEvent o mode rule st p).ahead = true) : st.ahead = true := by
  unfold processEvent at hah
  have hmono : ∀ (cs : List (Nat × Nat)) (s : St),
      (cs.foldl (fun s ij => testPair o p s ij.1 ij.2) s).ahead = true → s.ahead = true := by
    intro cs
    induction cs with
    | nil => intro s hs; exact hs
    | cons c' r' ih' => intro s hs; exact testPair_ahead_mono o p s c'.1 c'.2 (ih' _ hs)
  cases mode with
  | arrangement => simp only at hah; have := hmono _ _ hah; rw [prepare_ahead] at this; exact this
  | winding => simp only at hah; rw [prepare_ahead] at hah; exact hah

theorem processEvent_inv (o : Oracle) (mode : Mode) (rule : WindRule) (st : St) (p : Pt) (h : PreInv p st)
    (hah : (processEvent o mode rule st p).ahead = true) :
    Inv p (processEvent o mode rule st p) ∧ After p (processEvent o mode rule st p) := by
  obtain ⟨h1, h2⟩ := prepare_inv o mode rule st p h
  unfold processEvent at hah ⊢
  cases mode with
  | arrangement =>
    simp only at hah ⊢
    obtain ⟨i1, i2, _⟩ := fold_inv o p _ _ h1 h2 hah
    exact ⟨i1, i2⟩
  | winding => exact ⟨h1, h2⟩

/-! ### Run -/

theorem finalState_cons (st : St) (x : Pt × St × St) (tr : List (Pt × St × St)) :
    finalState st (x :: tr) = finalState x.2.2 tr := by
  unfold finalState
  cases tr with
  | nil => simp
  | cons y rest =>
    simp only [List.getLast?_cons_cons]
    cases hl : (y :: rest).getLast? with
    | none => simp at hl
    | some z => rfl

theorem run_ahead_mono (o : Oracle) (mode : Mode) (rule : WindRule) (fuel : Nat) (st : St)
    (hah : (finalState st (runStates o mode rule fuel st)).ahead = true) : st.ahead = true := by
  induction fuel generalizing st with
  | zero => simpa [runStates, finalState] using hah
  | succ fuel ih =>
    unfold runStates at hah
    cases hev : st.events with
    | nil => simp only [hev] at hah; simpa [finalState] using hah
    | cons p rest =>
      simp only [hev] at hah
      rw [finalState_cons] at hah
      have := processEvent_ahead_mono o mode rule _ p (ih _ hah)
      exact this

/-- popping the least event of a state satisfying the invariant gives the pre-state of `ProcessEvent` -/
theorem pop_preInv (p p' : Pt) (rest : List Pt) (st : St) (h : Inv p st) (ha : After p st)
    (hev : st.events = p' :: rest) : PreInv p' { st with events := rest } := by
  have hs := h.sorted
  rw [hev] at hs
  have hs' := List.pairwise_cons.mp hs
  have hpp' : lexLess p p' = true := ha p' (by rw [hev]; exact List.mem_cons_self)
  refine ⟨hs'.2, hs'.1, ?_, ?_⟩
  · intro e he
    have := h.statusR e he
    rw [hev] at this
    rcases List.mem_cons.mp this with h1 | h1
    · left; exact h1
    · right; exact h1
  · intro e he hp x hx
    have hpe : lexLess p e.1 = true := by
      rcases hp with h1 | h1
      · exact lexLess_trans hpp' h1
      · rw [h1]; exact hpp'
    obtain ⟨h1, h2⟩ := h.pend e he hpe x hx
    refine ⟨h1, ?_⟩
    rw [hev] at h2
    rcases List.mem_cons.mp h2 with h3 | h3
    · -- x.1 = p' is impossible: p' ≤ e.1 < x.1
      exfalso
      rw [h3] at h1
      rcases hp with h4 | h4
      · have := lexLess_asymm h4; rw [h1] at this; cases this
      · rw [h4] at h1; have := lexLess_irrefl p'; rw [h1] at this; cases this
    · exact h3

/-- **events_processed_in_order** (core form): from a state satisfying the queue invariant relative to `p`,
    if the run ends with the `ahead` flag still set, the processed events are strictly increasing and all after `p`. -/
theorem run_in_order (o : Oracle) (mode : Mode) (rule : WindRule) (fuel : Nat) (st : St) (p : Pt)
    (h : Inv p st) (ha : After p st)
    (hah : (finalState st (runStates o mode rule fuel st)).ahead = true) :
    ((runStates o mode rule fuel st).map (·.1)).Pairwise (fun a b => lexLess a b = true)
    ∧ ∀ q ∈ (runStates o mode rule fuel st).map (·.1), lexLess p q = true := by
  induction fuel generalizing st p with
  | zero => simp [runStates]
  | succ fuel ih =>
    unfold runStates at hah ⊢
    cases hev : st.events with
    | nil => simp
    | cons p' rest =>
      simp only [hev] at hah ⊢
      rw [finalState_cons] at hah
      have hpre := pop_preInv p p' rest st h ha hev
      have hah1 := run_ahead_mono o mode rule fuel _ hah
      obtain ⟨i1, i2⟩ := processEvent_inv o mode rule _ p' hpre hah1
      obtain ⟨j1, j2⟩ := ih _ p' i1 i2 hah
      have hpp' : lexLess p p' = true := ha p' (by rw [hev]; exact List.mem_cons_self)
      simp only [List.map_cons]
      refine ⟨List.pairwise_cons.mpr ⟨j2, j1⟩, ?_⟩
      intro q hq
      rcases List.mem_cons.mp hq with h1 | h1
      · rw [h1]; exact hpp'
      · exact lexLess_trans hpp' (j2 q h1)

/-- the invariant holds after seeding, relative to any point -/
theorem seedAll_inv (p : Pt) (es : List DEdge) : Inv p (seedAll es) := by
  unfold seedAll
  have : ∀ (es : List DEdge) (st : St), Inv p st →
      Inv p (es.foldl (fun st e => pendingAdd st e.1 e.2.1 e.2.2) st) := by
    intro es
    induction es with
    | nil => intro st h; exact h
    | cons e rest ih => intro st h; exact ih _ (pendingAdd_inv p st _ _ _ h)
  apply this
  refine ⟨List.Pairwise.nil, ?_, ?_⟩
  · intro e he; simp [St.empty] at he
  · intro e he; simp [St.empty] at he

end MV.Arr2
