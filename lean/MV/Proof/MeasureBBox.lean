/-
Lemmas for property C18, part 2: `CalculateBBox`.  Coordinates are `Option F` (`none` = NaN) with
the exact `Scalar` instance of `MV/Props/C02.lean` (`exactScalar`: comparisons with NaN are false).
The two lambdas skip an operand whose **x** is NaN; a vertex is admissible when it is entirely
non-NaN (`lift p`) or has a NaN x.  For admissible vertices EVERY bracketing of the reduction
(`Red`) returns the tight box of the non-NaN vertices - in particular libstdc++'s 4-way unrolled
`std::reduce` (`stdReduce`) and the left fold.
-/
import MV.Model.Measure
import MV.Props.C02
import MV.Model.Par
import Mathlib.Order.Lattice
import Mathlib.Order.MinMax

set_option linter.unusedSectionVars false

namespace MV.Measure
open MV.Bool3 MV.Bool3.C02

/-- `r` is obtained from the list by combining neighbours with `op` in SOME bracketing -/
inductive Red {β : Type} (op : β → β → β) : List β → β → Prop where
  | one (x : β) : Red op [x] x
  | join {xs ys : List β} {a b : β} : Red op xs a → Red op ys b → Red op (xs ++ ys) (op a b)

theorem foldl_red {β : Type} (op : β → β → β) (xs : List β) {L : List β} {v : β}
    (h : Red op L v) : Red op (L ++ xs) (xs.foldl op v) := by
  induction xs generalizing L v with
  | nil => simpa using h
  | cons x xs ih =>
    have := ih (Red.join h (Red.one x))
    simpa [List.append_assoc] using this

/-- libstdc++'s `std::reduce` is one particular bracketing of `init :: xs` -/
theorem stdReduce_red' {β : Type} (op : β → β → β) (n : Nat) :
    ∀ (xs : List β), xs.length ≤ n → ∀ {L : List β} {v : β}, Red op L v →
      Red op (L ++ xs) (stdReduce op v xs) := by
  induction n with
  | zero =>
    intro xs hn L v h
    have : xs = [] := List.length_eq_zero_iff.1 (Nat.le_zero.1 hn)
    subst this; simpa [stdReduce] using h
  | succ n ih =>
    intro xs hn L v h
    match xs with
    | x0 :: x1 :: x2 :: x3 :: rest =>
      rw [stdReduce]
      have h4 : Red op (L ++ (([x0] ++ [x1]) ++ ([x2] ++ [x3])))
          (op v (op (op x0 x1) (op x2 x3))) :=
        Red.join h (Red.join (Red.join (Red.one x0) (Red.one x1)) (Red.join (Red.one x2) (Red.one x3)))
      have := ih rest (by simp at hn; omega) h4
      simpa [List.append_assoc] using this
    | [] => simpa [stdReduce] using h
    | [a] => simpa [stdReduce] using foldl_red op [a] h
    | [a, b] => simpa [stdReduce] using foldl_red op [a, b] h
    | [a, b, c] => simpa [stdReduce] using foldl_red op [a, b, c] h

theorem stdReduce_red {β : Type} (op : β → β → β) (init : β) (xs : List β) :
    Red op (init :: xs) (stdReduce op init xs) := by
  simpa using stdReduce_red' op xs.length xs (Nat.le_refl _) (Red.one init)

open MV.Par in
/-- `tbb::parallel_reduce` as modelled for C13 (`MV.Par.reduceGo`: any split tree, stolen right
parts restart from the identity and are joined) is a bracketing of the running value, the
elements, and copies of the identity -/
theorem reduceGo_red {β : Type} (op : β → β → β) (idn : β) :
    ∀ (t : Sched) (v : β) (xs L : List β), Red op L v →
      ∃ L', Red op L' (reduceGo op idn t v xs) ∧
        (∀ x ∈ L', x ∈ L ∨ x ∈ xs ∨ x = idn) ∧ (∀ x, x ∈ L ∨ x ∈ xs → x ∈ L')
  | .leaf, v, xs, L, h => by
    refine ⟨L ++ xs, ?_, ?_, ?_⟩
    · exact foldl_red op xs h
    · intro x hx; rcases List.mem_append.1 hx with h | h
      · exact Or.inl h
      · exact Or.inr (Or.inl h)
    · intro x hx; exact List.mem_append.2 hx
  | .node k false l r, v, xs, L, h => by
    obtain ⟨L1, h1, s1, c1⟩ := reduceGo_red op idn l v (xs.take k) L h
    obtain ⟨L2, h2, s2, c2⟩ := reduceGo_red op idn r _ (xs.drop k) L1 h1
    refine ⟨L2, h2, ?_, ?_⟩
    · intro x hx
      rcases s2 x hx with h | h | h
      · rcases s1 x h with h | h | h
        · exact Or.inl h
        · exact Or.inr (Or.inl (List.mem_of_mem_take h))
        · exact Or.inr (Or.inr h)
      · exact Or.inr (Or.inl (List.mem_of_mem_drop h))
      · exact Or.inr (Or.inr h)
    · intro x hx
      rcases hx with h | h
      · exact c2 x (Or.inl (c1 x (Or.inl h)))
      · have : x ∈ xs.take k ++ xs.drop k := by rw [List.take_append_drop]; exact h
        rcases List.mem_append.1 this with h | h
        · exact c2 x (Or.inl (c1 x (Or.inr h)))
        · exact c2 x (Or.inr h)
  | .node k true l r, v, xs, L, h => by
    obtain ⟨L1, h1, s1, c1⟩ := reduceGo_red op idn l v (xs.take k) L h
    obtain ⟨L2, h2, s2, c2⟩ := reduceGo_red op idn r idn (xs.drop k) [idn] (Red.one idn)
    refine ⟨L1 ++ L2, Red.join h1 h2, ?_, ?_⟩
    · intro x hx
      rcases List.mem_append.1 hx with h | h
      · rcases s1 x h with h | h | h
        · exact Or.inl h
        · exact Or.inr (Or.inl (List.mem_of_mem_take h))
        · exact Or.inr (Or.inr h)
      · rcases s2 x h with h | h | h
        · exact Or.inr (Or.inr (by simpa using h))
        · exact Or.inr (Or.inl (List.mem_of_mem_drop h))
        · exact Or.inr (Or.inr h)
    · intro x hx
      rcases hx with h | h
      · exact List.mem_append_left _ (c1 x (Or.inl h))
      · have : x ∈ xs.take k ++ xs.drop k := by rw [List.take_append_drop]; exact h
        rcases List.mem_append.1 this with h | h
        · exact List.mem_append_left _ (c1 x (Or.inr h))
        · exact List.mem_append_right _ (c2 x (Or.inr h))

section
variable {F : Type} [Field F] [LinearOrder F]

/-- a vertex without NaN -/
def lift (p : V3 F) : V3 (Option F) := ⟨some p.x, some p.y, some p.z⟩

/-- admissible vertex: NaN in x (skipped by the reduction) or no NaN at all -/
def Adm (v : V3 (Option F)) : Prop := v.x = none ∨ ∃ p : V3 F, v = lift p

/-- the common shape of the two lambdas of `CalculateBBox` -/
def bbOp (sel : Option F → Option F → Option F) (a b : V3 (Option F)) : V3 (Option F) :=
  if isNaN a.x then b else if isNaN b.x then a else ⟨sel a.x b.x, sel a.y b.y, sel a.z b.z⟩

theorem bbMin_eq : (bbMin : V3 (Option F) → _ → _) = bbOp laMin := rfl
theorem bbMax_eq : (bbMax : V3 (Option F) → _ → _) = bbOp laMax := rfl

theorem isNaN_none : isNaN (none : Option F) = true := rfl
theorem isNaN_some (x : F) : isNaN (some x) = false := by
  show (!decide (x = x)) = false
  simp

theorem bbOp_left (sel) (a b : V3 (Option F)) (h : a.x = none) : bbOp sel a b = b := by
  unfold bbOp; rw [h, isNaN_none]; rfl

theorem bbOp_right (sel) (p : V3 F) (b : V3 (Option F)) (h : b.x = none) :
    bbOp sel (lift p) b = lift p := by
  unfold bbOp
  have : (lift p).x = some p.x := rfl
  rw [this, isNaN_some, h, isNaN_none]; rfl

theorem bbOp_lift (sel : Option F → Option F → Option F) (s : F → F → F)
    (hs : ∀ x y, sel (some x) (some y) = some (s x y)) (p q : V3 F) :
    bbOp sel (lift p) (lift q) = lift ⟨s p.x q.x, s p.y q.y, s p.z q.z⟩ := by
  unfold bbOp
  have h1 : (lift p).x = some p.x := rfl
  have h2 : (lift q).x = some q.x := rfl
  rw [h1, h2, isNaN_some, isNaN_some]
  simp only [Bool.false_eq_true, if_false]
  show (⟨sel (some p.x) (some q.x), sel (some p.y) (some q.y), sel (some p.z) (some q.z)⟩ : V3 (Option F)) = _
  rw [hs, hs, hs]; rfl

theorem laMin_some (x y : F) : laMin (some x) (some y) = some (min x y) := by
  show (if decide (x < y) = true then some x else some y) = some (min x y)
  by_cases h : x < y
  · simp [h, min_eq_left (le_of_lt h)]
  · simp [h, min_eq_right (not_lt.1 h)]

theorem laMax_some (x y : F) : laMax (some x) (some y) = some (max x y) := by
  show (if decide (x < y) = true then some y else some x) = some (max x y)
  by_cases h : x < y
  · simp [h, max_eq_right (le_of_lt h)]
  · simp [h, max_eq_left (not_lt.1 h)]

theorem lift_inj {p q : V3 F} (h : lift p = lift q) : p = q := by
  cases p; cases q
  simp only [lift, V3.mk.injEq, Option.some.injEq] at h
  obtain ⟨h1, h2, h3⟩ := h
  subst h1 h2 h3; rfl

theorem lift_x_ne_none (p : V3 F) : (lift p).x ≠ none := by simp [lift]

/-- `r` is the tight bound of the NaN-free vertices of `L` with respect to the order `R`
(`≤` for the minimum corner, `≥` for the maximum corner): either no vertex is NaN-free and `r`
itself has a NaN x, or `r` is NaN-free, bounds every NaN-free vertex in all three coordinates, and
each of its coordinates is attained by a NaN-free vertex of `L`. -/
def Tight (R : F → F → Prop) (L : List (V3 (Option F))) (r : V3 (Option F)) : Prop :=
  (r.x = none ∧ ∀ v ∈ L, v.x = none) ∨
  ∃ p : V3 F, r = lift p ∧
    (∀ q : V3 F, lift q ∈ L → R p.x q.x ∧ R p.y q.y ∧ R p.z q.z) ∧
    (∃ q : V3 F, lift q ∈ L ∧ q.x = p.x) ∧ (∃ q : V3 F, lift q ∈ L ∧ q.y = p.y) ∧
    (∃ q : V3 F, lift q ∈ L ∧ q.z = p.z)

/-- `Tight` only looks at which vertices occur -/
theorem Tight.congr {R : F → F → Prop} {L L' : List (V3 (Option F))} {r : V3 (Option F)}
    (hm : ∀ x, x ∈ L ↔ x ∈ L') (h : Tight R L r) : Tight R L' r := by
  rcases h with ⟨h1, h2⟩ | ⟨p, rfl, hb, ⟨q1, m1, e1⟩, ⟨q2, m2, e2⟩, ⟨q3, m3, e3⟩⟩
  · exact Or.inl ⟨h1, fun v hv => h2 v ((hm v).2 hv)⟩
  · exact Or.inr ⟨p, rfl, fun q hq => hb q ((hm _).2 hq), ⟨q1, (hm _).1 m1, e1⟩, ⟨q2, (hm _).1 m2, e2⟩,
      ⟨q3, (hm _).1 m3, e3⟩⟩

/-- the selection `s` picks one of its arguments and is an `R`-lower bound of both -/
structure Sel (R : F → F → Prop) (s : F → F → F) : Prop where
  refl : ∀ x, R x x
  trans : ∀ {x y z}, R x y → R y z → R x z
  left : ∀ x y, R (s x y) x
  right : ∀ x y, R (s x y) y
  choice : ∀ x y, s x y = x ∨ s x y = y

theorem sel_min : Sel (fun x y : F => x ≤ y) min :=
  ⟨le_refl, fun h1 h2 => le_trans h1 h2, min_le_left, min_le_right, min_choice⟩

theorem sel_max : Sel (fun x y : F => y ≤ x) max :=
  ⟨le_refl, fun h1 h2 => le_trans h2 h1, le_max_left, le_max_right, max_choice⟩

/-- MAIN LEMMA: every bracketing of the reduction over admissible vertices gives the tight bound -/
theorem red_tight {R : F → F → Prop} {s : F → F → F} (hS : Sel R s)
    {sel : Option F → Option F → Option F} (hs : ∀ x y, sel (some x) (some y) = some (s x y))
    {L : List (V3 (Option F))} {r : V3 (Option F)} (h : Red (bbOp sel) L r)
    (hadm : ∀ v ∈ L, Adm v) : Tight R L r := by
  induction h with
  | one x =>
    rcases hadm x (by simp) with hx | ⟨p, rfl⟩
    · left; exact ⟨hx, by simpa using hx⟩
    · right
      refine ⟨p, rfl, ?_, ⟨p, by simp, rfl⟩, ⟨p, by simp, rfl⟩, ⟨p, by simp, rfl⟩⟩
      intro q hq
      have : q = p := lift_inj (by simpa using hq)
      subst this; exact ⟨hS.refl _, hS.refl _, hS.refl _⟩
  | @join xs ys a b _ _ iha ihb =>
    have ha := iha (fun v hv => hadm v (List.mem_append_left _ hv))
    have hb := ihb (fun v hv => hadm v (List.mem_append_right _ hv))
    rcases ha with ⟨hax, hxs⟩ | ⟨p, rfl, hpb, hpx, hpy, hpz⟩
    · -- everything on the left is skipped
      rw [bbOp_left _ _ _ hax]
      rcases hb with ⟨hbx, hys⟩ | ⟨q, rfl, hqb, hqx, hqy, hqz⟩
      · left; exact ⟨hbx, fun v hv => (List.mem_append.1 hv).elim (hxs v) (hys v)⟩
      · right
        refine ⟨q, rfl, ?_, ?_, ?_, ?_⟩
        · intro w hw
          rcases List.mem_append.1 hw with h1 | h1
          · exact absurd (hxs _ h1) (lift_x_ne_none w)
          · exact hqb w h1
        · obtain ⟨w, hw, e⟩ := hqx; exact ⟨w, List.mem_append_right _ hw, e⟩
        · obtain ⟨w, hw, e⟩ := hqy; exact ⟨w, List.mem_append_right _ hw, e⟩
        · obtain ⟨w, hw, e⟩ := hqz; exact ⟨w, List.mem_append_right _ hw, e⟩
    · rcases hb with ⟨hbx, hys⟩ | ⟨q, rfl, hqb, hqx, hqy, hqz⟩
      · -- everything on the right is skipped
        rw [bbOp_right _ _ _ hbx]
        right
        refine ⟨p, rfl, ?_, ?_, ?_, ?_⟩
        · intro w hw
          rcases List.mem_append.1 hw with h1 | h1
          · exact hpb w h1
          · exact absurd (hys _ h1) (lift_x_ne_none w)
        · obtain ⟨w, hw, e⟩ := hpx; exact ⟨w, List.mem_append_left _ hw, e⟩
        · obtain ⟨w, hw, e⟩ := hpy; exact ⟨w, List.mem_append_left _ hw, e⟩
        · obtain ⟨w, hw, e⟩ := hpz; exact ⟨w, List.mem_append_left _ hw, e⟩
      · rw [bbOp_lift sel s hs]
        right
        refine ⟨⟨s p.x q.x, s p.y q.y, s p.z q.z⟩, rfl, ?_, ?_, ?_, ?_⟩
        · intro w hw
          rcases List.mem_append.1 hw with h1 | h1
          · obtain ⟨b1, b2, b3⟩ := hpb w h1
            exact ⟨hS.trans (hS.left _ _) b1, hS.trans (hS.left _ _) b2, hS.trans (hS.left _ _) b3⟩
          · obtain ⟨b1, b2, b3⟩ := hqb w h1
            exact ⟨hS.trans (hS.right _ _) b1, hS.trans (hS.right _ _) b2, hS.trans (hS.right _ _) b3⟩
        · rcases hS.choice p.x q.x with e | e
          · obtain ⟨w, hw, e'⟩ := hpx; exact ⟨w, List.mem_append_left _ hw, by simp [e, e']⟩
          · obtain ⟨w, hw, e'⟩ := hqx; exact ⟨w, List.mem_append_right _ hw, by simp [e, e']⟩
        · rcases hS.choice p.y q.y with e | e
          · obtain ⟨w, hw, e'⟩ := hpy; exact ⟨w, List.mem_append_left _ hw, by simp [e, e']⟩
          · obtain ⟨w, hw, e'⟩ := hqy; exact ⟨w, List.mem_append_right _ hw, by simp [e, e']⟩
        · rcases hS.choice p.z q.z with e | e
          · obtain ⟨w, hw, e'⟩ := hpz; exact ⟨w, List.mem_append_left _ hw, by simp [e, e']⟩
          · obtain ⟨w, hw, e'⟩ := hqz; exact ⟨w, List.mem_append_right _ hw, by simp [e, e']⟩

end
end MV.Measure
