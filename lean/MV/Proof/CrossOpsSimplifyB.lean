import MV.Model.CrossOps
import MV.Proof.CrossOpsField
import MV.Proof.CrossOpsSimplifyA
/-!
`SimplifyRing`, part B: the doubly linked ring `prev/next` is the cyclic adjacency of the live
indices `live n st = (List.range n).filter st.alive` (ghost list); a removal erases one element of
that list and relinks exactly its two neighbours.
-/
namespace MV.CrossOps

/-- the cyclic successor of position `i` in a list of length `m` -/
def cs (m i : Nat) : Nat := if i + 1 < m then i + 1 else 0

theorem cs_lt (m i : Nat) (h : 0 < m) : cs m i < m := by
  unfold cs; split <;> omega

/-- position bookkeeping for erasing position `k` from a cyclic list of length `m`: position `i`
of the new list is position `if i < k then i else i + 1` of the old one -/
theorem cs_erase (m k i : Nat) (hk : k < m) (hm : 4 ≤ m) (hi : i < m - 1) :
    ((if i < k then i else i + 1) = (if k = 0 then m - 1 else k - 1) →
      (if cs (m - 1) i < k then cs (m - 1) i else cs (m - 1) i + 1) = cs m k) ∧
    ((if cs (m - 1) i < k then cs (m - 1) i else cs (m - 1) i + 1) = cs m k →
      (if i < k then i else i + 1) = (if k = 0 then m - 1 else k - 1)) ∧
    ((if i < k then i else i + 1) ≠ (if k = 0 then m - 1 else k - 1) →
      cs m (if i < k then i else i + 1) =
        (if cs (m - 1) i < k then cs (m - 1) i else cs (m - 1) i + 1)) := by
  unfold cs
  refine ⟨?_, ?_, ?_⟩ <;> intro hh <;> (try split_ifs at hh ⊢) <;> omega

/-- `next` maps every element of `l` to its cyclic successor and `prev` maps the successor back -/
def LinkedL (l : List Nat) (prev next : Nat → Nat) : Prop :=
  ∀ i a b, l[i]? = some a → l[cs l.length i]? = some b → next a = b ∧ prev b = a

theorem linkedL_range (n : Nat) :
    LinkedL (List.range n) (fun i => (i + n - 1) % n) (fun i => (i + 1) % n) := by
  intro i a b ha hb
  have hi : i < n := by
    have := (List.getElem?_eq_some_iff.1 ha).1
    simpa using this
  have hc := cs_lt n i (by omega)
  rw [List.length_range] at hb
  rw [List.getElem?_range hi] at ha
  rw [List.getElem?_range hc] at hb
  cases ha; cases hb
  show (i + 1) % n = cs n i ∧ (cs n i + n - 1) % n = i
  unfold cs
  split
  · rename_i h
    refine ⟨Nat.mod_eq_of_lt h, ?_⟩
    have : i + 1 + n - 1 = i + n := by omega
    rw [this, Nat.add_mod_right, Nat.mod_eq_of_lt hi]
  · rename_i h
    have hin : i + 1 = n := by omega
    refine ⟨by rw [hin, Nat.mod_self], ?_⟩
    have : 0 + n - 1 = i := by omega
    rw [this, Nat.mod_eq_of_lt hi]

/-- erasing the element at position `k` of a duplicate-free list with at least 4 elements and
relinking its two neighbours keeps the list linked -/
theorem linkedL_eraseIdx (l : List Nat) (hnd : l.Nodup) (prev next : Nat → Nat)
    (hL : LinkedL l prev next) (k : Nat) (hk : k < l.length) (hm : 4 ≤ l.length) :
    LinkedL (l.eraseIdx k) (upd prev (next l[k]) (prev l[k])) (upd next (prev l[k]) (next l[k])) := by
  -- the predecessor position of `k`
  have hpk : ∃ pk, pk < l.length ∧ cs l.length pk = k ∧ pk = (if k = 0 then l.length - 1 else k - 1) := by
    refine ⟨_, ?_, ?_, rfl⟩
    · split <;> omega
    · unfold cs; split <;> split <;> omega
  obtain ⟨pk, hpklt, hpkcs, hpkdef⟩ := hpk
  have hck := cs_lt l.length k (by omega)
  have hP : l[pk]? = some l[pk] := List.getElem?_eq_getElem hpklt
  have hX : l[k]? = some l[k] := List.getElem?_eq_getElem hk
  have hN : l[cs l.length k]? = some l[cs l.length k] := List.getElem?_eq_getElem hck
  have h1 := hL pk l[pk] l[k] hP (by rw [hpkcs]; exact hX)
  have h2 := hL k l[k] l[cs l.length k] hX hN
  rw [h1.2, h2.1]
  intro i a b ha hb
  have hlen : (l.eraseIdx k).length = l.length - 1 := by
    rw [List.length_eraseIdx, if_pos hk]
  rw [hlen] at hb
  have hi : i < l.length - 1 := by
    have := (List.getElem?_eq_some_iff.1 ha).1
    rw [hlen] at this; exact this
  rw [List.getElem?_eraseIdx] at ha hb
  -- old positions of `a` and `b`
  obtain ⟨j, hj, hjdef⟩ : ∃ j, l[j]? = some a ∧ j = (if i < k then i else i + 1) := by
    refine ⟨_, ?_, rfl⟩
    split <;> rename_i h <;> simp only [h, if_true, if_false] at ha <;> exact ha
  obtain ⟨j', hj', hj'def⟩ : ∃ j', l[j']? = some b ∧
      j' = (if cs (l.length - 1) i < k then cs (l.length - 1) i else cs (l.length - 1) i + 1) := by
    refine ⟨_, ?_, rfl⟩
    split <;> rename_i h <;> simp only [h, if_true, if_false] at hb <;> exact hb
  have hjlt : j < l.length := (List.getElem?_eq_some_iff.1 hj).1
  have hj'lt : j' < l.length := (List.getElem?_eq_some_iff.1 hj').1
  have hcs := cs_erase l.length k i hk hm hi
  rw [← hjdef, ← hj'def, ← hpkdef] at hcs
  have hA : j = pk ↔ j' = cs l.length k := ⟨hcs.1, hcs.2.1⟩
  have hB : j ≠ pk → cs l.length j = j' := hcs.2.2
  by_cases hjp : j = pk
  · have hj'c := hA.1 hjp
    rw [hjp, hP] at hj
    rw [hj'c, hN] at hj'
    cases hj; cases hj'
    simp [upd]
  · have hj'c : j' ≠ cs l.length k := fun h => hjp (hA.2 h)
    have haP : a ≠ l[pk] := by
      intro h
      apply hjp
      apply (List.getElem?_inj hjlt hnd).1
      rw [hj, hP, h]
    have hbN : b ≠ l[cs l.length k] := by
      intro h
      apply hj'c
      apply (List.getElem?_inj hj'lt hnd).1
      rw [hj', hN, h]
    have := hL j a b hj (by rw [hB hjp]; exact hj')
    simp only [upd, if_neg haP, if_neg hbN]
    exact this

/-- the ghost list of live indices -/
def live {α : Type} (n : Nat) (st : SState α) : List Nat := (List.range n).filter st.alive

theorem live_nodup {α : Type} (n : Nat) (st : SState α) : (live n st).Nodup :=
  List.nodup_range.filter _

section Field
variable {F : Type} [Field F] [LinearOrder F]

theorem linked_remove (r : Nat → V2 F) (n : Nat) (st : SState F) (rest : List (Entry F)) (i : Nat)
    (hi : i < n) (ha : st.alive i = true) (hcnt : 4 ≤ (live n st).length)
    (hL : LinkedL (live n st) st.prev st.next) :
    LinkedL (live n (removeVertex r st rest i)) (removeVertex r st rest i).prev
      (removeVertex r st rest i).next := by
  have hmem : i ∈ live n st := by simp [live, hi, ha]
  obtain ⟨k, hk, hki⟩ := List.mem_iff_getElem.1 hmem
  have h := linkedL_eraseIdx (live n st) (live_nodup n st) st.prev st.next hL k hk hcnt
  rw [hki] at h
  have hl : live n (removeVertex r st rest i) = (live n st).eraseIdx k := by
    rw [← (live_nodup n st).erase_getElem k hk, hki]
    simp only [live, removeVertex_alive]
    exact filter_upd_false st.alive n i
  rw [hl, removeVertex_prev, removeVertex_next]
  exact h

theorem loop_linked (r : Nat → V2 F) (n : Nat) (tol2 : F) (st : SState F) :
    SInv r n st → LinkedL (live n st) st.prev st.next →
      LinkedL (live n (simplifyLoop r tol2 st)) (simplifyLoop r tol2 st).prev
        (simplifyLoop r tol2 st).next := by
  induction st using simplifyLoop.induct r tol2 with
  | case1 x h k top rest hstale ih =>
    intro hinv hL
    have hk := minIdx_lt x.heap h.2
    have htop : top = x.heap[minIdx x.heap] := getD_eq_getElem' _ _ hk _
    rw [simplifyLoop, dif_pos h]
    rw [if_pos hstale]
    apply ih
    · rw [htop] at hstale
      exact inv_skip r n x hinv h.2 hstale
    · exact hL
  | case2 x h k top hcur hle =>
    intro hinv hL
    rw [simplifyLoop, dif_pos h]
    rw [if_neg hcur, if_pos hle]
    exact hL
  | case3 x h k top rest hcur hnle ih =>
    intro hinv hL
    have hk := minIdx_lt x.heap h.2
    have htop : top = x.heap[minIdx x.heap] := getD_eq_getElem' _ _ hk _
    rw [simplifyLoop, dif_pos h]
    rw [if_neg hcur, if_neg hnle]
    rw [not_stale_iff] at hcur
    have hidx : top.idx < n := by rw [htop]; exact hinv.hidx _ (List.getElem_mem hk)
    apply ih
    · rw [htop] at hcur ⊢
      apply inv_remove r n x hinv
      · exact fun e he => List.mem_of_mem_eraseIdx he
      · intro e he hne
        apply mem_eraseIdx_of_ne _ _ hk e he
        intro heq; exact hne (heq ▸ rfl)
      · exact hinv.hidx _ (List.getElem_mem hk)
      · exact hcur.1
      · exact h.1
    · apply linked_remove r n x rest top.idx hidx hcur.1 _ hL
      have := hinv.cnt
      have := h.1
      unfold live; omega
  | case4 x h =>
    intro hinv hL
    rw [simplifyLoop, dif_neg h]
    exact hL

end Field

/-! ### cyclic triples by position -/

theorem rot1_getElem? {β : Type} (l : List β) (i : Nat) (hi : i < l.length) :
    (l.drop 1 ++ l.take 1)[i]? = l[cs l.length i]? := by
  rw [List.getElem?_append, List.getElem?_drop, List.getElem?_take, List.length_drop]
  unfold cs
  split_ifs with h1 h2 h3
  · rw [Nat.add_comm]
  · omega
  · omega
  · have : i - (l.length - 1) = 0 := by omega
    rw [this]
  · omega
  · omega

theorem rot2_getElem? {β : Type} (l : List β) (i : Nat) (hi : i < l.length) (hm : 2 ≤ l.length) :
    (l.drop 2 ++ l.take 2)[i]? = l[cs l.length (cs l.length i)]? := by
  rw [List.getElem?_append, List.getElem?_drop, List.getElem?_take, List.length_drop]
  unfold cs
  split_ifs <;> first | omega | (congr 1; omega)

/-- a cyclic triple of `l` sits at positions `i`, `i+1`, `i+2` (cyclically) -/
theorem mem_cyclicTriples {β : Type} (l : List β) (hm : 2 ≤ l.length) (t : β × β × β)
    (ht : t ∈ cyclicTriples l) :
    ∃ i, l[i]? = some t.1 ∧ l[cs l.length i]? = some t.2.1 ∧
      l[cs l.length (cs l.length i)]? = some t.2.2 := by
  obtain ⟨i, hi⟩ := List.mem_iff_getElem?.1 ht
  unfold cyclicTriples at hi
  rw [List.getElem?_zip_eq_some, List.getElem?_zip_eq_some] at hi
  have hlt : i < l.length := (List.getElem?_eq_some_iff.1 hi.1).1
  rw [rot1_getElem? l i hlt, rot2_getElem? l i hlt hm] at hi
  exact ⟨i, hi⟩

theorem cyclicTriples_map {β γ : Type} (f : β → γ) (l : List β) :
    cyclicTriples (l.map f) = (cyclicTriples l).map (fun t => (f t.1, f t.2.1, f t.2.2)) := by
  unfold cyclicTriples
  rw [← List.map_drop, ← List.map_drop, ← List.map_take, ← List.map_take, ← List.map_append,
    ← List.map_append, List.zip_map, List.zip_map]
  rfl

end MV.CrossOps
