/-
Soundness of the vector-clock happens-before monitor `hbAccept` (property C06): a trace it
accepts is race free in the sense of `MV/Proof/SyncSpec.lean`.

Plan: an invariant `Inv n tr s` relating the monitor state after `s.k` events of the full
trace `tr` to the relation `HB tr`; `inv_step` shows one `hbStep` preserves it; `inv_run`
iterates over the suffix; the race-freedom component of the invariant at the end is `RaceFree`.
-/
import MV.Proof.SyncSpec

namespace MV.Sync

/-! ### vector clocks -/

theorem vget_nil (t : Nat) : vget [] t = 0 := by simp [vget]

theorem vget_vtab (n : Nat) (f : Nat → Nat) (t : Nat) :
    vget (vtab n f) t = if t < n then f t else 0 := by
  unfold vget vtab
  by_cases h : t < n
  · simp [h, List.getD_eq_getElem?_getD]
  · simp [h, List.getD_eq_getElem?_getD]

theorem vget_vjoin (n : Nat) (a b : VC) (t : Nat) :
    vget (vjoin n a b) t = if t < n then max (vget a t) (vget b t) else 0 :=
  vget_vtab _ _ _

theorem vget_vset (n : Nat) (a : VC) (t c u : Nat) :
    vget (vset n a t c) u = if u < n then (if u = t then c else vget a u) else 0 :=
  vget_vtab _ _ _

theorem vle_iff (n : Nat) (a b : VC) :
    vle n a b = true ↔ ∀ t, t < n → vget a t ≤ vget b t := by
  simp [vle, List.all_eq_true]

theorem vget_tick_self {n : Nat} (s : HbSt) {t : Nat} (hn : t < n) :
    vget (tick n s t) t = s.k + 1 := by
  unfold tick
  rw [vget_vset, if_pos hn, if_pos rfl]

/-! ### association lists -/

namespace AMap
variable {β : Type}

theorem get_del (m : AMap β) (k k' : Nat) :
    get (del m k) k' = if k' = k then none else get m k' := by
  induction m with
  | nil => simp [del, get]
  | cons p m ih =>
    obtain ⟨a, v⟩ := p
    by_cases h1 : a = k
    · have e1 : del ((a, v) :: m) k = del m k := by simp [del, h1]
      rw [e1, ih]
      by_cases h2 : k' = k
      · simp [h2]
      · have h3 : ¬ a = k' := fun h => h2 (h.symm.trans h1)
        simp [get, h2, h3]
    · have e1 : del ((a, v) :: m) k = (a, v) :: del m k := by simp [del, h1]
      rw [e1]
      simp only [get, ih]
      by_cases h2 : a = k'
      · have h3 : ¬ k' = k := fun h => h1 (h2.trans h)
        simp [h2, h3]
      · simp [h2]

theorem get_set (m : AMap β) (k k' : Nat) (v : β) :
    get (set m k v) k' = if k' = k then some v else get m k' := by
  unfold set
  simp only [get, get_del]
  by_cases h : k = k'
  · simp [h]
  · have : ¬ k' = k := fun h' => h h'.symm
    simp [h, this]

theorem getD_set (m : AMap β) (k k' : Nat) (v d : β) :
    getD (set m k v) k' d = if k' = k then v else getD m k' d := by
  unfold getD
  rw [get_set]
  by_cases h : k' = k <;> simp [h]

end AMap

/-! ### the invariant -/

/-- reflexive closure of happens-before -/
def HBe (tr : List Ev) (i j : Nat) : Prop := i = j ∨ HB tr i j

theorem HBe.trans_hb {tr : List Ev} {i j k : Nat} (h1 : HBe tr i j) (h2 : HB tr j k) :
    HB tr i k := by
  rcases h1 with rfl | h1
  · exact h2
  · exact HB.trans h1 h2

/-- among the first `k` events, thread `t` has one at or after (in happens-before) position `i` -/
def Knows (tr : List Ev) (k t i : Nat) : Prop :=
  ∃ j b, j < k ∧ tr[j]? = some b ∧ b.tid = t ∧ HBe tr i j

theorem Knows.mono {tr : List Ev} {k t i : Nat} (h : Knows tr k t i) : Knows tr (k + 1) t i := by
  obtain ⟨j, b, hj, hb, ht, hh⟩ := h
  exact ⟨j, b, Nat.lt_succ_of_lt hj, hb, ht, hh⟩

/-- What the monitor state `s` means after `s.k` events of the trace `tr`. -/
structure Inv (n : Nat) (tr : List Ev) (s : HbSt) : Prop where
  c : ∀ t u i a, i < vget (s.C.getD t []) u → tr[i]? = some a → a.tid = u → Knows tr s.k t i
  l : ∀ l u i a, i < vget (s.L.getD l []) u → tr[i]? = some a → a.tid = u →
        ∃ r t', r < s.k ∧ tr[r]? = some (.rel t' l) ∧ HBe tr i r
  w : ∀ x u i g, i < s.k → tr[i]? = some (.wr u x g) → i < vget (s.W.getD x []) u
  r : ∀ x u i g, i < s.k → tr[i]? = some (.rd u x g) → i < vget (s.R.getD x []) u
  rf : ∀ i j a b, i < j → j < s.k → tr[i]? = some a → tr[j]? = some b → Conflict a b → HB tr i j
  tid : ∀ i a, i < s.k → tr[i]? = some a → a.tid < n

theorem inv_init (n : Nat) (tr : List Ev) : Inv n tr {} where
  c := by intro t u i a hi; simp [AMap.getD, AMap.get, vget_nil] at hi
  l := by intro l u i a hi; simp [AMap.getD, AMap.get, vget_nil] at hi
  w := by intro x u i g hi; simp at hi
  r := by intro x u i g hi; simp at hi
  rf := by intro i j a b _ hj; simp at hj
  tid := by intro i a hi; simp at hi

section step
variable {n : Nat} {tr : List Ev} {s : HbSt}

/-- everything in the ticked clock of the thread of event `s.k` happens before (or is) `s.k` -/
theorem tick_knows {e : Ev} {t : Nat} (hI : Inv n tr s) (he : tr[s.k]? = some e)
    (het : e.tid = t) (u i : Nat) (a : Ev)
    (hi : i < vget (tick n s t) u) (ha : tr[i]? = some a) (hu : a.tid = u) :
    HBe tr i s.k := by
  unfold tick at hi
  rw [vget_vset] at hi
  by_cases hun : u < n
  · rw [if_pos hun] at hi
    by_cases hut : u = t
    · rw [if_pos hut] at hi
      by_cases hik : i = s.k
      · exact Or.inl hik
      · exact Or.inr (HB.po (by omega) ha he (by rw [hu, hut, het]))
    · rw [if_neg hut] at hi
      obtain ⟨j, b, hj, hb, hbt, hij⟩ := hI.c t u i a hi ha hu
      exact Or.inr (hij.trans_hb (HB.po hj hb he (by rw [hbt, het])))
  · rw [if_neg hun] at hi
    omega

/-- the same for the clock after an acquire -/
theorem acq_knows {t l m : Nat} (hI : Inv n tr s) (he : tr[s.k]? = some (.acq t l m))
    (hn : t < n) (u i : Nat) (a : Ev)
    (hi : i < vget (vset n (vjoin n (tick n s t) (s.L.getD l [])) t (s.k + 1)) u)
    (ha : tr[i]? = some a) (hu : a.tid = u) :
    HBe tr i s.k := by
  have key : i < vget (tick n s t) u ∨ i < vget (s.L.getD l []) u := by
    rw [vget_vset, vget_vjoin] at hi
    by_cases hun : u < n
    · rw [if_pos hun] at hi
      by_cases hut : u = t
      · left
        subst hut
        rw [vget_tick_self s hn]
        rw [if_pos rfl] at hi
        exact hi
      · rw [if_neg hut, if_pos hun] at hi
        omega
    · rw [if_neg hun] at hi
      omega
  rcases key with h | h
  · exact tick_knows hI he rfl u i a h ha hu
  · obtain ⟨r, t', hr, hrel, hir⟩ := hI.l l u i a h ha hu
    exact Or.inr (hir.trans_hb (HB.sync hr hrel he))

theorem c_step {e : Ev} (hI : Inv n tr s) (he : tr[s.k]? = some e) (c' : VC)
    (hc : ∀ u i a, i < vget c' u → tr[i]? = some a → a.tid = u → HBe tr i s.k) :
    ∀ t u i a, i < vget ((s.C.set e.tid c').getD t []) u → tr[i]? = some a → a.tid = u →
      Knows tr (s.k + 1) t i := by
  intro t u i a hi ha hu
  rw [AMap.getD_set] at hi
  by_cases ht : t = e.tid
  · rw [if_pos ht] at hi
    exact ⟨s.k, e, Nat.lt_succ_self _, he, ht.symm, hc u i a hi ha hu⟩
  · rw [if_neg ht] at hi
    exact (hI.c t u i a hi ha hu).mono

theorem l_keep (hI : Inv n tr s) :
    ∀ l u i a, i < vget (s.L.getD l []) u → tr[i]? = some a → a.tid = u →
      ∃ r t', r < s.k + 1 ∧ tr[r]? = some (.rel t' l) ∧ HBe tr i r := by
  intro l u i a hi ha hu
  obtain ⟨r, t', hr, h1, h2⟩ := hI.l l u i a hi ha hu
  exact ⟨r, t', Nat.lt_succ_of_lt hr, h1, h2⟩

theorem l_rel {t l : Nat} (hI : Inv n tr s) (he : tr[s.k]? = some (.rel t l)) :
    ∀ l' u i a,
      i < vget ((s.L.set l (vjoin n (s.L.getD l []) (tick n s t))).getD l' []) u →
      tr[i]? = some a → a.tid = u →
      ∃ r t', r < s.k + 1 ∧ tr[r]? = some (.rel t' l') ∧ HBe tr i r := by
  intro l' u i a hi ha hu
  rw [AMap.getD_set] at hi
  by_cases hl : l' = l
  · subst hl
    rw [if_pos rfl] at hi
    have key : i < vget (s.L.getD l' []) u ∨ i < vget (tick n s t) u := by
      rw [vget_vjoin] at hi
      by_cases hun : u < n
      · rw [if_pos hun] at hi; omega
      · rw [if_neg hun] at hi; omega
    rcases key with h | h
    · exact l_keep hI _ _ _ _ h ha hu
    · exact ⟨s.k, t, Nat.lt_succ_self _, he, tick_knows hI he rfl u i a h ha hu⟩
  · rw [if_neg hl] at hi
    exact l_keep hI _ _ _ _ hi ha hu

theorem w_keep {e : Ev} (hI : Inv n tr s) (he : tr[s.k]? = some e)
    (hne : ∀ u x g, e ≠ .wr u x g) :
    ∀ x u i g, i < s.k + 1 → tr[i]? = some (.wr u x g) → i < vget (s.W.getD x []) u := by
  intro x u i g hi ha
  by_cases hik : i = s.k
  · subst hik
    rw [he] at ha
    exact absurd (Option.some.inj ha) (hne u x g)
  · exact hI.w x u i g (by omega) ha

theorem r_keep {e : Ev} (hI : Inv n tr s) (he : tr[s.k]? = some e)
    (hne : ∀ u x g, e ≠ .rd u x g) :
    ∀ x u i g, i < s.k + 1 → tr[i]? = some (.rd u x g) → i < vget (s.R.getD x []) u := by
  intro x u i g hi ha
  by_cases hik : i = s.k
  · subst hik
    rw [he] at ha
    exact absurd (Option.some.inj ha) (hne u x g)
  · exact hI.r x u i g (by omega) ha

theorem w_wr {t x g0 : Nat} (hI : Inv n tr s) (he : tr[s.k]? = some (.wr t x g0)) (hn : t < n) :
    ∀ x' u i g, i < s.k + 1 → tr[i]? = some (.wr u x' g) →
      i < vget ((s.W.set x (vset n (s.W.getD x []) t (s.k + 1))).getD x' []) u := by
  intro x' u i g hi ha
  rw [AMap.getD_set]
  by_cases hik : i = s.k
  · subst hik
    rw [he] at ha
    simp only [Option.some.injEq, Ev.wr.injEq] at ha
    obtain ⟨rfl, rfl, rfl⟩ := ha
    rw [if_pos rfl, vget_vset, if_pos hn, if_pos rfl]
    exact Nat.lt_succ_self _
  · have hik' : i < s.k := by omega
    have hun : u < n := hI.tid i _ hik' ha
    by_cases hx : x' = x
    · subst hx
      rw [if_pos rfl, vget_vset, if_pos hun]
      by_cases hut : u = t
      · rw [if_pos hut]; omega
      · rw [if_neg hut]; exact hI.w _ _ _ _ hik' ha
    · rw [if_neg hx]; exact hI.w _ _ _ _ hik' ha

theorem r_rd {t x g0 : Nat} (hI : Inv n tr s) (he : tr[s.k]? = some (.rd t x g0)) (hn : t < n) :
    ∀ x' u i g, i < s.k + 1 → tr[i]? = some (.rd u x' g) →
      i < vget ((s.R.set x (vset n (s.R.getD x []) t (s.k + 1))).getD x' []) u := by
  intro x' u i g hi ha
  rw [AMap.getD_set]
  by_cases hik : i = s.k
  · subst hik
    rw [he] at ha
    simp only [Option.some.injEq, Ev.rd.injEq] at ha
    obtain ⟨rfl, rfl, rfl⟩ := ha
    rw [if_pos rfl, vget_vset, if_pos hn, if_pos rfl]
    exact Nat.lt_succ_self _
  · have hik' : i < s.k := by omega
    have hun : u < n := hI.tid i _ hik' ha
    by_cases hx : x' = x
    · subst hx
      rw [if_pos rfl, vget_vset, if_pos hun]
      by_cases hut : u = t
      · rw [if_pos hut]; omega
      · rw [if_neg hut]; exact hI.r _ _ _ _ hik' ha
    · rw [if_neg hx]; exact hI.r _ _ _ _ hik' ha

theorem rf_step {e : Ev} (hI : Inv n tr s) (he : tr[s.k]? = some e)
    (hnew : ∀ i a, i < s.k → tr[i]? = some a → Conflict a e → HB tr i s.k) :
    ∀ i j a b, i < j → j < s.k + 1 → tr[i]? = some a → tr[j]? = some b → Conflict a b →
      HB tr i j := by
  intro i j a b hij hj ha hb hc
  by_cases hjk : j = s.k
  · subst hjk
    rw [he] at hb
    cases hb
    exact hnew i a hij ha hc
  · exact hI.rf i j a b hij (by omega) ha hb hc

theorem no_conflict {tr' : List Ev} {k : Nat} {e : Ev} (h : e.access = none) :
    ∀ i a, i < k → tr'[i]? = some a → Conflict a e → HB tr' i k := by
  intro i a _ _ hc
  obtain ⟨_, x, wa, wb, _, h2, _⟩ := hc
  rw [h] at h2
  cases h2

/-- an earlier write the checked clock covers happens before the current event -/
theorem covered_w {e : Ev} {t x : Nat} (hI : Inv n tr s) (he : tr[s.k]? = some e)
    (het : e.tid = t) (hle : vle n (s.W.getD x []) (tick n s t) = true)
    {i u g : Nat} (hi : i < s.k) (ha : tr[i]? = some (.wr u x g)) : HB tr i s.k := by
  have hun : u < n := hI.tid i _ hi ha
  have h4 := hI.w x u i g hi ha
  have h5 := (vle_iff _ _ _).1 hle u hun
  rcases tick_knows hI he het u i _ (by omega) ha rfl with h | h
  · omega
  · exact h

theorem covered_r {e : Ev} {t x : Nat} (hI : Inv n tr s) (he : tr[s.k]? = some e)
    (het : e.tid = t) (hle : vle n (s.R.getD x []) (tick n s t) = true)
    {i u g : Nat} (hi : i < s.k) (ha : tr[i]? = some (.rd u x g)) : HB tr i s.k := by
  have hun : u < n := hI.tid i _ hi ha
  have h4 := hI.r x u i g hi ha
  have h5 := (vle_iff _ _ _).1 hle u hun
  rcases tick_knows hI he het u i _ (by omega) ha rfl with h | h
  · omega
  · exact h

theorem rf_rd {t x g : Nat} (hI : Inv n tr s) (he : tr[s.k]? = some (.rd t x g))
    (hle : vle n (s.W.getD x []) (tick n s t) = true) :
    ∀ i a, i < s.k → tr[i]? = some a → Conflict a (.rd t x g) → HB tr i s.k := by
  intro i a hi ha hc
  obtain ⟨_, x', wa, wb, h1, h2, h3⟩ := hc
  simp only [Ev.access, Option.some.injEq, Prod.mk.injEq] at h2
  obtain ⟨rfl, rfl⟩ := h2
  cases a with
  | wr u y g' =>
    simp only [Ev.access, Option.some.injEq, Prod.mk.injEq] at h1
    obtain ⟨rfl, _⟩ := h1
    exact covered_w hI he rfl hle hi ha
  | rd u y g' =>
    simp only [Ev.access, Option.some.injEq, Prod.mk.injEq] at h1
    obtain ⟨_, rfl⟩ := h1
    simp at h3
  | acq _ _ _ => simp [Ev.access] at h1
  | rel _ _ => simp [Ev.access] at h1
  | fadd _ _ _ => simp [Ev.access] at h1

theorem rf_wr {t x g : Nat} (hI : Inv n tr s) (he : tr[s.k]? = some (.wr t x g))
    (hlw : vle n (s.W.getD x []) (tick n s t) = true)
    (hlr : vle n (s.R.getD x []) (tick n s t) = true) :
    ∀ i a, i < s.k → tr[i]? = some a → Conflict a (.wr t x g) → HB tr i s.k := by
  intro i a hi ha hc
  obtain ⟨_, x', wa, wb, h1, h2, _⟩ := hc
  simp only [Ev.access, Option.some.injEq, Prod.mk.injEq] at h2
  obtain ⟨rfl, rfl⟩ := h2
  cases a with
  | wr u y g' =>
    simp only [Ev.access, Option.some.injEq, Prod.mk.injEq] at h1
    obtain ⟨rfl, _⟩ := h1
    exact covered_w hI he rfl hlw hi ha
  | rd u y g' =>
    simp only [Ev.access, Option.some.injEq, Prod.mk.injEq] at h1
    obtain ⟨rfl, _⟩ := h1
    exact covered_r hI he rfl hlr hi ha
  | acq _ _ _ => simp [Ev.access] at h1
  | rel _ _ => simp [Ev.access] at h1
  | fadd _ _ _ => simp [Ev.access] at h1

theorem tid_step {e : Ev} (hI : Inv n tr s) (he : tr[s.k]? = some e) (hn : e.tid < n) :
    ∀ i a, i < s.k + 1 → tr[i]? = some a → a.tid < n := by
  intro i a hi ha
  by_cases hik : i = s.k
  · subst hik
    rw [he] at ha
    cases ha
    exact hn
  · exact hI.tid i a (by omega) ha

/-- One accepted step of the monitor preserves the invariant. -/
theorem inv_step {e : Ev} {s' : HbSt} (hI : Inv n tr s) (he : tr[s.k]? = some e)
    (hs : hbStep n s e = some s') : Inv n tr s' ∧ s'.k = s.k + 1 := by
  unfold hbStep at hs
  by_cases hn : e.tid < n
  · rw [if_pos hn] at hs
    cases e with
    | acq t l m =>
      simp only [Option.some.injEq] at hs
      subst hs
      exact ⟨{ c := c_step hI he _ (acq_knows hI he hn)
               l := l_keep hI
               w := w_keep hI he (by intro _ _ _ h; cases h)
               r := r_keep hI he (by intro _ _ _ h; cases h)
               rf := rf_step hI he (no_conflict rfl)
               tid := tid_step hI he hn }, rfl⟩
    | rel t l =>
      simp only [Option.some.injEq] at hs
      subst hs
      exact ⟨{ c := c_step hI he _ (tick_knows hI he rfl)
               l := l_rel hI he
               w := w_keep hI he (by intro _ _ _ h; cases h)
               r := r_keep hI he (by intro _ _ _ h; cases h)
               rf := rf_step hI he (no_conflict rfl)
               tid := tid_step hI he hn }, rfl⟩
    | rd t x g =>
      dsimp only at hs
      split at hs
      · rename_i hle
        simp only [Option.some.injEq] at hs
        subst hs
        exact ⟨{ c := c_step hI he _ (tick_knows hI he rfl)
                 l := l_keep hI
                 w := w_keep hI he (by intro _ _ _ h; cases h)
                 r := r_rd hI he hn
                 rf := rf_step hI he (rf_rd hI he hle)
                 tid := tid_step hI he hn }, rfl⟩
      · cases hs
    | wr t x g =>
      dsimp only at hs
      split at hs
      · rename_i hle
        simp only [Bool.and_eq_true] at hle
        simp only [Option.some.injEq] at hs
        subst hs
        exact ⟨{ c := c_step hI he _ (tick_knows hI he rfl)
                 l := l_keep hI
                 w := w_wr hI he hn
                 r := r_keep hI he (by intro _ _ _ h; cases h)
                 rf := rf_step hI he (rf_wr hI he hle.1 hle.2)
                 tid := tid_step hI he hn }, rfl⟩
      · cases hs
    | fadd t o m =>
      simp only [Option.some.injEq] at hs
      subst hs
      exact ⟨{ c := c_step hI he _ (tick_knows hI he rfl)
               l := l_keep hI
               w := w_keep hI he (by intro _ _ _ h; cases h)
               r := r_keep hI he (by intro _ _ _ h; cases h)
               rf := rf_step hI he (no_conflict rfl)
               tid := tid_step hI he hn }, rfl⟩
  · rw [if_neg hn] at hs
    cases hs

end step

/-- Running the monitor over the rest of the trace keeps the invariant and reaches the end. -/
theorem inv_run (n : Nat) (tr : List Ev) :
    ∀ (suf : List Ev) (s s' : HbSt), tr.drop s.k = suf → Inv n tr s →
      hbRun n s suf = some s' → Inv n tr s' ∧ tr.length ≤ s'.k := by
  intro suf
  induction suf with
  | nil =>
    intro s s' hd hI hr
    simp only [hbRun, Option.some.injEq] at hr
    subst hr
    exact ⟨hI, List.drop_eq_nil_iff.1 hd⟩
  | cons e es ih =>
    intro s s' hd hI hr
    have he : tr[s.k]? = some e := by
      have h := List.getElem?_drop (xs := tr) (i := s.k) (j := 0)
      rw [hd] at h
      simpa using h.symm
    simp only [hbRun] at hr
    split at hr
    · rename_i s1 hs1
      obtain ⟨hI1, hk1⟩ := inv_step hI he hs1
      refine ih s1 s' ?_ hI1 hr
      have h2 : tr.drop (s.k + 1) = (tr.drop s.k).drop 1 := by
        rw [List.drop_drop]
      rw [hk1, h2, hd]
      rfl
    · cases hr

/-- Soundness of the happens-before monitor: a trace it accepts has no data race, i.e. every two
conflicting accesses are ordered by happens-before. `n` = number of threads. -/
theorem hbAccept_sound (n : Nat) (tr : List Ev) (h : hbAccept n tr = true) : RaceFree tr := by
  unfold hbAccept at h
  rw [Option.isSome_iff_exists] at h
  obtain ⟨s', hs'⟩ := h
  obtain ⟨hI, hlen⟩ := inv_run n tr tr {} s' rfl (inv_init n tr) hs'
  intro i j a b hij ha hb hc
  have hj : j < tr.length := by
    rcases Nat.lt_or_ge j tr.length with h | h
    · exact h
    · rw [List.getElem?_eq_none h] at hb
      cases hb
  exact hI.rf i j a b hij (by omega) ha hb hc

/-- Non-vacuity: two threads write the same variable under a common lock; accepted. -/
example : hbAccept 2 [.acq 0 7 0, .wr 0 5 8, .rel 0 7, .acq 1 7 0, .wr 1 5 8, .rel 1 7] = true := by
  decide

/-- ... hence race free by the theorem. -/
example : RaceFree [.acq 0 7 0, .wr 0 5 8, .rel 0 7, .acq 1 7 0, .wr 1 5 8, .rel 1 7] :=
  hbAccept_sound 2 _ (by decide)

/-- Two unordered writes of different threads are rejected. -/
example : hbAccept 2 [.wr 0 5 0, .wr 1 5 0] = false := by decide

/-- An unlock → lock pair (here a token, mode 3) between them orders the writes: accepted. -/
example : hbAccept 2 [.wr 0 5 0, .rel 0 9, .acq 1 9 3, .wr 1 5 0] = true := by decide

/-- The acquire must come after the release: the other order is still a race. -/
example : hbAccept 2 [.wr 0 5 0, .acq 1 9 3, .rel 0 9, .wr 1 5 0] = false := by decide

/-- A thread id outside `0 .. n-1` is rejected. -/
example : hbAccept 2 [.wr 2 5 0] = false := by decide

end MV.Sync
