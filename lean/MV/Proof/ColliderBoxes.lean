/-
`BuildInternalBoxes` / `UpdateBoxes` / `Collider::Transform` (collider.h:219-235, 290-313):
the bottom-up box refit is correct for every arrival order of the leaves, the local union
invariant gives the block statement, and `Transform` preserves the invariant for axis-aligned
matrices on valid (non-inverted) boxes.  Core Lean only.
-/
import MV.Proof.ColliderBase

namespace MV.Collider

/-! ## `Box.union` algebra -/

theorem Box.union_assoc (a b c : Box) : (a.union b).union c = a.union (b.union c) := by
  simp only [Box.union, Box.mk.injEq, Vec3.mk.injEq]
  refine ⟨⟨?_, ?_, ?_⟩, ⟨?_, ?_, ?_⟩⟩ <;> omega

theorem unionList_append : ∀ (l1 l2 : List Box) (u1 u2 : Box),
    unionList l1 = some u1 → unionList l2 = some u2 →
    unionList (l1 ++ l2) = some (u1.union u2) := by
  intro l1
  induction l1 with
  | nil => intro l2 u1 u2 h; simp [unionList] at h
  | cons x xs ih =>
    intro l2 u1 u2 h1 h2
    simp only [List.cons_append, unionList] at h1 ⊢
    cases hxs : unionList xs with
    | none =>
      rw [hxs] at h1
      simp only [Option.some.injEq] at h1
      subst h1
      cases xs with
      | nil => simp only [List.nil_append, h2]
      | cons y ys =>
        simp only [unionList] at hxs
        split at hxs <;> simp at hxs
    | some u =>
      rw [hxs] at h1
      simp only [Option.some.injEq] at h1
      subst h1
      rw [ih l2 u u2 hxs h2, Box.union_assoc]

/-! ## (2) the block statement -/

/-- (2) the local invariant gives the block statement: the cell of every node of the tree is the
componentwise union of the leaf boxes of its block -/
theorem unionBoxes_block {ch : Array (Int × Int)} {boxes leafBB : Array Box} {n : Nat}
    (hub : unionBoxes ch boxes leafBB n = true) :
    ∀ (t : T), Rep ch t → (∀ i ∈ t.leaves, i < n) → (∀ k ∈ t.internals, k < n - 1) →
      boxes[t.id.toNat]? = unionList (t.leaves.map fun i => leafBB.getD i default) := by
  unfold unionBoxes at hub
  simp only [Bool.and_eq_true, beq_iff_eq, List.all_eq_true, List.mem_range] at hub
  obtain ⟨⟨⟨hs, hl⟩, hleaf⟩, hint⟩ := hub
  intro t
  induction t with
  | leaf i =>
    intro _ hlv _
    have hi : i < n := hlv i (by simp [T.leaves])
    rw [id_leaf_toNat, hleaf i hi]
    simp only [T.leaves, List.map_cons, List.map_nil, unionList]
    rw [Array.getD_eq_getD_getElem?]
    have : i < leafBB.size := by omega
    simp [this]
  | node k a b iha ihb =>
    intro hrep hlv hin
    obtain ⟨hc, ra, rb⟩ := hrep
    have hk : k < n - 1 := hin k (by simp [T.internals])
    have ha := iha ra (fun i hi => hlv i (by simp [T.leaves, hi]))
      (fun x hx => hin x (by simp [T.internals, hx]))
    have hb := ihb rb (fun i hi => hlv i (by simp [T.leaves, hi]))
      (fun x hx => hin x (by simp [T.internals, hx]))
    have h := hint k hk
    rw [hc] at h
    simp only [Bool.and_eq_true, decide_eq_true_eq] at h
    obtain ⟨_, h⟩ := h
    split at h
    · rename_i bx b1 b2 e0 e1 e2
      simp only [beq_iff_eq] at h
      rw [id_node_toNat, e0, h]
      simp only [T.leaves, List.map_append]
      rw [e1] at ha; rw [e2] at hb
      exact (unionList_append _ _ _ _ ha.symm hb.symm).symm
    · simp at h

/-! ## (3), (5): `Box::Transform` and `Box::Union` -/

theorem scal_min_max (c t p q r s : Int) (h1 : p ≤ q) (h2 : r ≤ s) :
    min (c * min p r + t) (c * max q s + t) = min (min (c * p + t) (c * q + t)) (min (c * r + t) (c * s + t)) ∧
    max (c * min p r + t) (c * max q s + t) = max (max (c * p + t) (c * q + t)) (max (c * r + t) (c * s + t)) := by
  have hmin : (min p r = p ∧ p ≤ r) ∨ (min p r = r ∧ r ≤ p) := by omega
  have hmax : (max q s = q ∧ s ≤ q) ∨ (max q s = s ∧ q ≤ s) := by omega
  rcases Int.le_total 0 c with hc | hc
  · have a1 := Int.mul_le_mul_of_nonneg_left h1 hc
    have a2 := Int.mul_le_mul_of_nonneg_left h2 hc
    rcases hmin with ⟨e, e1⟩ | ⟨e, e1⟩ <;> rcases hmax with ⟨e', e2⟩ | ⟨e', e2⟩ <;> rw [e, e'] <;>
      have a3 := Int.mul_le_mul_of_nonneg_left e1 hc <;>
      have a4 := Int.mul_le_mul_of_nonneg_left e2 hc <;>
      generalize c * p = P at * <;> generalize c * q = Q at * <;>
      generalize c * r = R at * <;> generalize c * s = S at * <;> omega
  · have a1 := Int.mul_le_mul_of_nonpos_left hc h1
    have a2 := Int.mul_le_mul_of_nonpos_left hc h2
    rcases hmin with ⟨e, e1⟩ | ⟨e, e1⟩ <;> rcases hmax with ⟨e', e2⟩ | ⟨e', e2⟩ <;> rw [e, e'] <;>
      have a3 := Int.mul_le_mul_of_nonpos_left hc e1 <;>
      have a4 := Int.mul_le_mul_of_nonpos_left hc e2 <;>
      generalize c * p = P at * <;> generalize c * q = Q at * <;>
      generalize c * r = R at * <;> generalize c * s = S at * <;> omega

theorem Row4.axisAligned_cases {r : Row4} (h : r.axisAligned = true) :
    (r.b = 0 ∧ r.c = 0) ∨ (r.a = 0 ∧ r.c = 0) ∨ (r.a = 0 ∧ r.b = 0) := by
  unfold Row4.axisAligned at h
  simp only [beq_iff_eq] at h
  by_cases ha : r.a = 0 <;> by_cases hb : r.b = 0 <;> by_cases hc : r.c = 0 <;>
    simp [ha, hb, hc] at h ⊢

/-- valid = non-inverted box -/
def Box.Valid (b : Box) : Prop := b.min.x ≤ b.max.x ∧ b.min.y ≤ b.max.y ∧ b.min.z ≤ b.max.z

theorem Box.valid_union {a b : Box} (ha : a.Valid) (hb : b.Valid) : (a.union b).Valid := by
  unfold Box.Valid at *
  simp only [Box.union]
  omega

theorem Box.valid_transform (m : Mat34) (b : Box) : (b.transform m).Valid := by
  unfold Box.Valid
  simp only [Box.transform]
  omega

theorem Row4.apply_union {r : Row4} (hr : r.axisAligned = true) {a b : Box}
    (ha : a.Valid) (hb : b.Valid) :
    min (r.apply (a.union b).min) (r.apply (a.union b).max) =
      min (min (r.apply a.min) (r.apply a.max)) (min (r.apply b.min) (r.apply b.max)) ∧
    max (r.apply (a.union b).min) (r.apply (a.union b).max) =
      max (max (r.apply a.min) (r.apply a.max)) (max (r.apply b.min) (r.apply b.max)) := by
  obtain ⟨hx, hy, hz⟩ := ha
  obtain ⟨hx', hy', hz'⟩ := hb
  rcases Row4.axisAligned_cases hr with ⟨e1, e2⟩ | ⟨e1, e2⟩ | ⟨e1, e2⟩ <;>
    simp only [Row4.apply, Box.union, e1, e2, Int.zero_mul, Int.add_zero, Int.zero_add]
  · exact scal_min_max _ _ _ _ _ _ hx hx'
  · exact scal_min_max _ _ _ _ _ _ hy hy'
  · exact scal_min_max _ _ _ _ _ _ hz hz'

/-- (3) Box::Transform commutes with Union on valid boxes for axis-aligned matrices -/
theorem Box.transform_union {m : Mat34} (hm : m.isAxisAligned = true) {a b : Box} (ha : a.Valid) (hb : b.Valid) :
    (a.union b).transform m = (a.transform m).union (b.transform m) := by
  unfold Mat34.isAxisAligned at hm
  simp only [Bool.and_eq_true] at hm
  obtain ⟨⟨h0, h1⟩, h2⟩ := hm
  have r0 := Row4.apply_union h0 ha hb
  have r1 := Row4.apply_union h1 ha hb
  have r2 := Row4.apply_union h2 ha hb
  simp only [Box.transform, Mat34.apply]
  rw [r0.1, r0.2, r1.1, r1.2, r2.1, r2.2]
  simp only [Box.union]

/-- (5) the validity hypothesis is necessary: with an inverted box (`A = [5,3]` on the x axis,
`B = [0,1]`) even the identity transform does not commute with `Union` -/
theorem transform_union_needs_valid :
    ∃ (m : Mat34) (a b : Box), m.isAxisAligned = true ∧ (a.union b).transform m ≠ (a.transform m).union (b.transform m) :=
  ⟨⟨⟨1, 0, 0, 0⟩, ⟨0, 1, 0, 0⟩, ⟨0, 0, 1, 0⟩⟩, ⟨⟨5, 0, 0⟩, ⟨3, 0, 0⟩⟩, ⟨⟨0, 0, 0⟩, ⟨1, 0, 0⟩⟩, by decide⟩

/-! ## (4) `Collider::Transform` preserves the invariant -/

/-- every cell reachable from a represented tree is valid when the leaf boxes are -/
theorem cells_valid {ch : Array (Int × Int)} {boxes leafBB : Array Box} {n : Nat}
    (hv : ∀ i, i < leafBB.size → (leafBB.getD i default).Valid)
    (hub : unionBoxes ch boxes leafBB n = true) :
    ∀ (t : T), Rep ch t → (∀ i ∈ t.leaves, i < n) → (∀ k ∈ t.internals, k < n - 1) →
      (∃ b, boxes[t.id.toNat]? = some b ∧ b.Valid) ∧
      ∀ k ∈ t.internals, ∀ c1 c2, ch[k]? = some (c1, c2) →
        (∃ b1, boxes[c1.toNat]? = some b1 ∧ b1.Valid) ∧ (∃ b2, boxes[c2.toNat]? = some b2 ∧ b2.Valid) := by
  unfold unionBoxes at hub
  simp only [Bool.and_eq_true, beq_iff_eq, List.all_eq_true, List.mem_range] at hub
  obtain ⟨⟨⟨hs, hl⟩, hleaf⟩, hint⟩ := hub
  intro t
  induction t with
  | leaf i =>
    intro _ hlv _
    have hi : i < n := hlv i (by simp [T.leaves])
    have hi' : i < leafBB.size := by omega
    refine ⟨⟨leafBB.getD i default, ?_, hv i hi'⟩, ?_⟩
    · rw [id_leaf_toNat, hleaf i hi, Array.getD_eq_getD_getElem?]
      simp [hi']
    · intro k hk; simp [T.internals] at hk
  | node k a b iha ihb =>
    intro hrep hlv hin
    obtain ⟨hc, ra, rb⟩ := hrep
    have hk : k < n - 1 := hin k (by simp [T.internals])
    have ⟨⟨ba, ea, va⟩, ha⟩ := iha ra (fun i hi => hlv i (by simp [T.leaves, hi]))
      (fun x hx => hin x (by simp [T.internals, hx]))
    have ⟨⟨bb, eb, vb⟩, hb⟩ := ihb rb (fun i hi => hlv i (by simp [T.leaves, hi]))
      (fun x hx => hin x (by simp [T.internals, hx]))
    have h := hint k hk
    rw [hc] at h
    simp only [Bool.and_eq_true, decide_eq_true_eq] at h
    obtain ⟨_, h⟩ := h
    split at h
    · rename_i bx b1 b2 e0 e1 e2
      simp only [beq_iff_eq] at h
      rw [ea] at e1; rw [eb] at e2
      simp only [Option.some.injEq] at e1 e2
      subst e1; subst e2
      refine ⟨⟨bx, ?_, ?_⟩, ?_⟩
      · rw [id_node_toNat, e0]
      · rw [h]; exact Box.valid_union va vb
      · intro x hx c1 c2 hx'
        simp only [T.internals, List.mem_cons, List.mem_append] at hx
        rcases hx with hx | hx | hx
        · subst hx
          rw [hc] at hx'
          simp only [Option.some.injEq, Prod.mk.injEq] at hx'
          obtain ⟨r1, r2⟩ := hx'
          subst r1; subst r2
          exact ⟨⟨_, ea, va⟩, ⟨_, eb, vb⟩⟩
        · exact ha x hx c1 c2 hx'
        · exact hb x hx c1 c2 hx'
    · simp at h

/-- (4) with validity of the children's cells assumed -/
theorem transform_unionBoxes_of_validCells {ch : Array (Int × Int)} {boxes leafBB : Array Box}
    {n : Nat} {m : Mat34} (hm : m.isAxisAligned = true)
    (hvc : ∀ k, k < n - 1 → ∀ c1 c2, ch[k]? = some (c1, c2) →
      (∃ b1, boxes[c1.toNat]? = some b1 ∧ b1.Valid) ∧ (∃ b2, boxes[c2.toNat]? = some b2 ∧ b2.Valid))
    (hub : unionBoxes ch boxes leafBB n = true) :
    unionBoxes ch (transformBoxes m boxes) (leafBB.map (Box.transform m)) n = true := by
  unfold unionBoxes at hub ⊢
  simp only [Bool.and_eq_true, beq_iff_eq, List.all_eq_true, List.mem_range] at hub ⊢
  obtain ⟨⟨⟨hs, hl⟩, hleaf⟩, hint⟩ := hub
  refine ⟨⟨⟨?_, ?_⟩, ?_⟩, ?_⟩
  · simp [transformBoxes, hs]
  · simp [hl]
  · intro i hi
    simp only [transformBoxes, Array.getElem?_map, hleaf i hi]
  · intro k hk
    have h := hint k hk
    cases hc : ch[k]? with
    | none => rw [hc] at h; simp at h
    | some c =>
      obtain ⟨c1, c2⟩ := c
      rw [hc] at h
      simp only [Bool.and_eq_true, decide_eq_true_eq] at h ⊢
      obtain ⟨h12, h⟩ := h
      refine ⟨h12, ?_⟩
      have ⟨⟨b1, e1, v1⟩, ⟨b2, e2, v2⟩⟩ := hvc k hk c1 c2 hc
      rw [e1, e2] at h
      cases e0 : boxes[2 * k + 1]? with
      | none => rw [e0] at h; simp at h
      | some bx =>
        rw [e0] at h
        simp only [beq_iff_eq] at h
        simp only [transformBoxes, Array.getElem?_map, e0, e1, e2, Option.map_some, beq_iff_eq]
        rw [h]
        exact Box.transform_union hm v1 v2

/-- (4) Collider::Transform preserves the invariant (w.r.t. the transformed leaf boxes), provided
the leaf boxes are valid -/
theorem transform_unionBoxes {ch : Array (Int × Int)} {parent : Array Int} {boxes leafBB : Array Box} {n : Nat} {m : Mat34}
    (hwf : wfTree ch parent n = true)
    (hm : m.isAxisAligned = true) (hv : ∀ i, i < leafBB.size → (leafBB.getD i default).Valid)
    (hub : unionBoxes ch boxes leafBB n = true) :
    unionBoxes ch (transformBoxes m boxes) (leafBB.map (Box.transform m)) n = true := by
  obtain ⟨hn, _, _, t, ht, hcov, _, _⟩ := wfTree_unpack hwf
  obtain ⟨hrep, hid, _⟩ := toTree_spec _ _ _ ht
  have hlv : ∀ i ∈ t.leaves, i < n := by
    intro i hi
    have := (mem_leaves_of_cover hcov i).mp hi
    omega
  have hin : ∀ k ∈ t.internals, k < n - 1 := fun k hk => (mem_internals_root hcov hid k).mp hk
  have hc := (cells_valid hv hub t hrep hlv hin).2
  exact transform_unionBoxes_of_validCells hm
    (fun k hk c1 c2 e => hc k ((mem_internals_root hcov hid k).mpr hk) c1 c2 e) hub

/-! ## (1) `BuildInternalBoxes` for an arbitrary arrival order -/

/-- the box a node must end up with -/
def val (leafBB : Array Box) : T → Box
  | .leaf i => leafBB.getD i default
  | .node _ a b => (val leafBB a).union (val leafBB b)

/-- all leaves of `t` have arrived -/
def complete (S : List Nat) (t : T) : Prop := ∀ i ∈ t.leaves, i ∈ S

instance (S : List Nat) (t : T) : Decidable (complete S t) := by
  unfold complete; infer_instance

/-- contribution of a child to its parent's counter -/
def cnt (S : List Nat) (t : T) : Nat := if complete S t then 1 else 0

/-- the state invariant after the leaves in `S` have been processed -/
def Inv (leafBB : Array Box) (S : List Nat) (st : BState) : T → Prop
  | .leaf i => st.boxes[2 * i]? = some (some (leafBB.getD i default))
  | .node k a b =>
    st.counter[k]? = some (cnt S a + cnt S b) ∧
    (complete S a → complete S b →
      st.boxes[2 * k + 1]? = some (some ((val leafBB a).union (val leafBB b)))) ∧
    Inv leafBB S st a ∧ Inv leafBB S st b

theorem leaves_ne_nil (t : T) : t.leaves ≠ [] := by
  intro h
  have := leaves_length t
  rw [h] at this
  simp at this

theorem complete_node {S : List Nat} {k : Nat} {a b : T} :
    complete S (.node k a b) ↔ complete S a ∧ complete S b := by
  unfold complete
  simp only [T.leaves, List.mem_append]
  constructor
  · intro h; exact ⟨fun i hi => h i (Or.inl hi), fun i hi => h i (Or.inr hi)⟩
  · intro ⟨h1, h2⟩ i hi
    rcases hi with hi | hi
    · exact h1 i hi
    · exact h2 i hi

theorem complete_congr {S S' : List Nat} {t : T} (h : ∀ i ∈ t.leaves, (i ∈ S ↔ i ∈ S')) :
    complete S t ↔ complete S' t := by
  unfold complete
  constructor
  · intro hc i hi; exact (h i hi).mp (hc i hi)
  · intro hc i hi; exact (h i hi).mpr (hc i hi)

theorem cnt_congr {S S' : List Nat} {t : T} (h : ∀ i ∈ t.leaves, (i ∈ S ↔ i ∈ S')) :
    cnt S t = cnt S' t := by
  unfold cnt
  simp only [complete_congr h]

theorem not_complete_of_mem {S : List Nat} {t : T} {l : Nat} (h1 : l ∈ t.leaves) (h2 : l ∉ S) :
    ¬ complete S t := fun h => h2 (h l h1)

theorem cnt_le_one (S : List Nat) (t : T) : cnt S t ≤ 1 := by
  unfold cnt; split <;> omega

/-- what a walk may change: only counters / internal cells with index in `L` -/
structure Frame (L : List Nat) (st st' : BState) : Prop where
  ok : st'.ok = st.ok
  size : st'.boxes.size = st.boxes.size
  leafc : ∀ i, st'.boxes[2 * i]? = st.boxes[2 * i]?
  other : ∀ k, k ∉ L → st'.counter[k]? = st.counter[k]? ∧ st'.boxes[2 * k + 1]? = st.boxes[2 * k + 1]?

theorem Frame.refl (L : List Nat) (st : BState) : Frame L st st :=
  ⟨rfl, rfl, fun _ => rfl, fun _ _ => ⟨rfl, rfl⟩⟩

theorem Frame.trans {L1 L2 L : List Nat} {st st1 st2 : BState} (h1 : Frame L1 st st1)
    (h2 : Frame L2 st1 st2) (s1 : ∀ x ∈ L1, x ∈ L) (s2 : ∀ x ∈ L2, x ∈ L) : Frame L st st2 := by
  refine ⟨h2.ok.trans h1.ok, h2.size.trans h1.size, fun i => (h2.leafc i).trans (h1.leafc i), ?_⟩
  intro k hk
  have k1 : k ∉ L1 := fun h => hk (s1 k h)
  have k2 : k ∉ L2 := fun h => hk (s2 k h)
  exact ⟨(h2.other k k2).1.trans (h1.other k k1).1, (h2.other k k2).2.trans (h1.other k k1).2⟩

theorem Frame.mono {L1 L : List Nat} {st st1 : BState} (h1 : Frame L1 st st1)
    (s1 : ∀ x ∈ L1, x ∈ L) : Frame L st st1 :=
  Frame.trans h1 (Frame.refl [] st1) s1 (fun _ h => by simp at h)

theorem Frame.counter (st : BState) (k v : Nat) :
    Frame [k] st { st with counter := st.counter.setIfInBounds k v } := by
  refine ⟨rfl, rfl, fun _ => rfl, ?_⟩
  intro x hx
  simp only [List.mem_singleton] at hx
  refine ⟨?_, rfl⟩
  exact Array.getElem?_setIfInBounds_ne (fun h => hx h.symm)

theorem Frame.both (st : BState) (k v : Nat) (w : Option Box) :
    Frame [k] st { boxes := st.boxes.setIfInBounds (2 * k + 1) w,
                   counter := st.counter.setIfInBounds k v, ok := st.ok } := by
  refine ⟨rfl, Array.size_setIfInBounds, ?_, ?_⟩
  · intro i
    exact Array.getElem?_setIfInBounds_ne (by omega)
  · intro x hx
    simp only [List.mem_singleton] at hx
    exact ⟨Array.getElem?_setIfInBounds_ne (fun h => hx h.symm),
      Array.getElem?_setIfInBounds_ne (by omega)⟩

theorem Inv_frame {leafBB : Array Box} {S S' : List Nat} {L : List Nat} {st st' : BState}
    (hF : Frame L st st') : ∀ (t : T), (∀ k ∈ t.internals, k ∉ L) →
    (∀ i ∈ t.leaves, (i ∈ S ↔ i ∈ S')) → Inv leafBB S st t → Inv leafBB S' st' t := by
  intro t
  induction t with
  | leaf i =>
    intro _ _ h
    simp only [Inv] at h ⊢
    rw [hF.leafc i]; exact h
  | node k a b iha ihb =>
    intro hk hS h
    simp only [Inv] at h ⊢
    obtain ⟨h1, h2, h3, h4⟩ := h
    have hSa : ∀ i ∈ a.leaves, (i ∈ S ↔ i ∈ S') := fun i hi => hS i (by simp [T.leaves, hi])
    have hSb : ∀ i ∈ b.leaves, (i ∈ S ↔ i ∈ S') := fun i hi => hS i (by simp [T.leaves, hi])
    have hkk : k ∉ L := hk k (by simp [T.internals])
    refine ⟨?_, ?_, iha (fun x hx => hk x (by simp [T.internals, hx])) hSa h3,
      ihb (fun x hx => hk x (by simp [T.internals, hx])) hSb h4⟩
    · rw [(hF.other k hkk).1, h1, cnt_congr hSa, cnt_congr hSb]
    · intro ca cb
      rw [(hF.other k hkk).2]
      exact h2 ((complete_congr hSa).mpr ca) ((complete_congr hSb).mpr cb)

/-- the cell of a leaf, or of a complete internal node, holds its final value -/
theorem Inv_cell {leafBB : Array Box} {S : List Nat} {st : BState} {t : T}
    (h : Inv leafBB S st t) (hc : complete S t) :
    st.boxes[t.id.toNat]? = some (some (val leafBB t)) := by
  cases t with
  | leaf i =>
    simp only [Inv] at h
    rw [id_leaf_toNat, h]; rfl
  | node k a b =>
    simp only [Inv] at h
    have ⟨ca, cb⟩ := complete_node.mp hc
    rw [id_node_toNat, h.2.1 ca cb]; rfl

/-! ### one iteration of the `do … while` loop -/

theorem node2Internal_odd (k : Nat) : (node2Internal (2 * (k : Int) + 1)).toNat = k := by
  simp only [node2Internal]; omega

/-- first arrival: bump the counter and return -/
theorem leafWalk_first {parent : Array Int} {ch : Array (Int × Int)} {f : Nat} {c : Int}
    {st : BState} {k : Nat} {c1 c2 : Int}
    (hc : 0 ≤ c) (hp : parent[c.toNat]? = some (2 * (k : Int) + 1)) (hch : ch[k]? = some (c1, c2))
    (hcnt : st.counter[k]? = some 0) :
    leafWalk parent ch (f + 1) c st = { st with counter := st.counter.setIfInBounds k 1 } := by
  unfold leafWalk
  have h0 : ¬ c < 0 := by omega
  have h1 : ¬ (2 * (k : Int) + 1 < 1) := by omega
  simp only [h0, if_false, hp, h1, node2Internal_odd, hcnt, hch]
  simp

/-- second arrival: bump the counter, write the union, continue from the parent -/
theorem leafWalk_second {parent : Array Int} {ch : Array (Int × Int)} {f : Nat} {c : Int}
    {st : BState} {k : Nat} {c1 c2 : Int} {x y : Box}
    (hc : 0 ≤ c) (hp : parent[c.toNat]? = some (2 * (k : Int) + 1)) (hch : ch[k]? = some (c1, c2))
    (hcnt : st.counter[k]? = some 1) (h1 : 0 ≤ c1) (h2 : 0 ≤ c2)
    (hb1 : st.boxes[c1.toNat]? = some (some x)) (hb2 : st.boxes[c2.toNat]? = some (some y))
    (hsz : 2 * k + 1 < st.boxes.size) :
    leafWalk parent ch (f + 1) c st =
      if (2 * (k : Int) + 1 != kRoot) = true then
        leafWalk parent ch f (2 * (k : Int) + 1)
          { boxes := st.boxes.setIfInBounds (2 * k + 1) (some (x.union y)),
            counter := st.counter.setIfInBounds k 2, ok := st.ok }
      else
        { boxes := st.boxes.setIfInBounds (2 * k + 1) (some (x.union y)),
          counter := st.counter.setIfInBounds k 2, ok := st.ok } := by
  conv => lhs; unfold leafWalk
  have h0 : ¬ c < 0 := by omega
  have h1' : ¬ (2 * (k : Int) + 1 < 1) := by omega
  have h3 : ¬ c1 < 0 := by omega
  have h4 : ¬ c2 < 0 := by omega
  have h5 : (2 * (k : Int) + 1).toNat = 2 * k + 1 := by omega
  simp only [h0, if_false, hp, h1', node2Internal_odd, hcnt, hch, BState.read, h3, h4, hb1, hb2,
    h5, Option.join_some, hsz, if_true]
  simp


/-! ### the walk from a leaf -/

/-- the walk has arrived at the top of `s` and is about to look up its parent (the C++ loop
stops at the root) -/
def cont (parent : Array Int) (ch : Array (Int × Int)) (f : Nat) (s : T) (st : BState) : BState :=
  if (s.id != kRoot) = true then leafWalk parent ch f s.id st else st

/-- result of walking from leaf `l` to the top of `s`: either the walk is at the top of `s`
(all of `s` has arrived) or it has returned inside `s` -/
def Climbed (parent : Array Int) (ch : Array (Int × Int)) (leafBB : Array Box) (S : List Nat)
    (l : Nat) (s : T) (st : BState) : Prop :=
  ∃ st' d, Frame s.internals st st' ∧ Inv leafBB (l :: S) st' s ∧ d ≤ s.height ∧
    ((complete (l :: S) s ∧
        ∀ f, leafWalk parent ch (f + d) (2 * (l : Int)) st = cont parent ch f s st') ∨
     (¬ complete (l :: S) s ∧ ∀ f, leafWalk parent ch (f + d) (2 * (l : Int)) st = st'))

theorem climb_parent {parent : Array Int} {ch : Array (Int × Int)} {leafBB : Array Box}
    {S : List Nat} {l k : Nat} {a b c sib : T} {st : BState}
    (hside : (c = a ∧ sib = b) ∨ (c = b ∧ sib = a))
    (hlS : l ∉ S) (hlc : l ∈ c.leaves) (hls : l ∉ sib.leaves)
    (hkc : k ∉ c.internals) (hks : k ∉ sib.internals) (hdisj : ∀ x ∈ sib.internals, x ∉ c.internals)
    (hch : ch[k]? = some (a.id, b.id))
    (hpar : parent[c.id.toNat]? = some (2 * (k : Int) + 1)) (hc1 : c.id ≠ 1)
    (hkN : 2 * k + 1 < st.boxes.size)
    (hinv : Inv leafBB S st (.node k a b))
    (hcl : Climbed parent ch leafBB S l c st) :
    Climbed parent ch leafBB S l (.node k a b) st := by
  obtain ⟨st1, d1, hF, hinvc, hd1, hwalk⟩ := hcl
  -- facts that depend on the side
  have hcnt0 : cnt S c = 0 := by
    unfold cnt; rw [if_neg (not_complete_of_mem hlc hlS)]
  have hSsib : ∀ i ∈ sib.leaves, (i ∈ S ↔ i ∈ l :: S) := by
    intro i hi
    simp only [List.mem_cons]
    constructor
    · exact Or.inr
    · intro h; rcases h with h | h
      · subst h; exact absurd hi hls
      · exact h
  have hcntS : st.counter[k]? = some (cnt S sib) := by
    simp only [Inv] at hinv
    rw [hinv.1]
    rcases hside with ⟨rfl, rfl⟩ | ⟨rfl, rfl⟩ <;> rw [hcnt0] <;> simp
  have hinvsib : Inv leafBB S st sib := by
    simp only [Inv] at hinv
    rcases hside with ⟨rfl, rfl⟩ | ⟨rfl, rfl⟩
    · exact hinv.2.2.2
    · exact hinv.2.2.1
  have hheight : c.height + 1 ≤ (T.node k a b).height := by
    simp only [T.height]
    have hm1 : a.height ≤ Nat.max a.height b.height := Nat.le_max_left _ _
    have hm2 : b.height ≤ Nat.max a.height b.height := Nat.le_max_right _ _
    rcases hside with ⟨rfl, rfl⟩ | ⟨rfl, rfl⟩ <;> omega
  have hsubc : ∀ x ∈ k :: c.internals, x ∈ (T.node k a b).internals := by
    intro x hx
    simp only [T.internals, List.mem_cons, List.mem_append] at hx ⊢
    rcases hside with ⟨rfl, rfl⟩ | ⟨rfl, rfl⟩
    · rcases hx with hx | hx
      · exact Or.inl hx
      · exact Or.inr (Or.inl hx)
    · rcases hx with hx | hx
      · exact Or.inl hx
      · exact Or.inr (Or.inr hx)
  have hcompl : complete (l :: S) (.node k a b) ↔ complete (l :: S) c ∧ complete (l :: S) sib := by
    rw [complete_node]
    rcases hside with ⟨rfl, rfl⟩ | ⟨rfl, rfl⟩
    · exact Iff.rfl
    · exact And.comm
  -- assembling the invariant of the parent from the pieces
  have assemble : ∀ st', Frame [k] st1 st' →
      st'.counter[k]? = some (cnt (l :: S) c + cnt (l :: S) sib) →
      (complete (l :: S) c → complete (l :: S) sib →
        st'.boxes[2 * k + 1]? = some (some ((val leafBB a).union (val leafBB b)))) →
      Frame (T.node k a b).internals st st' ∧ Inv leafBB (l :: S) st' (.node k a b) := by
    intro st' hF1 hcn hbx
    have hF2 : Frame (k :: c.internals) st st' :=
      Frame.trans hF hF1 (fun x hx => List.mem_cons_of_mem _ hx)
        (fun x hx => by simp only [List.mem_singleton] at hx; subst hx; exact List.mem_cons_self)
    have ic : Inv leafBB (l :: S) st' c :=
      Inv_frame hF1 c (fun x hx h => by
        simp only [List.mem_singleton] at h; subst h; exact hkc hx) (fun _ _ => Iff.rfl) hinvc
    have is : Inv leafBB (l :: S) st' sib :=
      Inv_frame hF2 sib (fun x hx h => by
        simp only [List.mem_cons] at h
        rcases h with h | h
        · subst h; exact hks hx
        · exact hdisj x hx h) hSsib hinvsib
    refine ⟨hF2.mono hsubc, ?_⟩
    simp only [Inv]
    rcases hside with ⟨rfl, rfl⟩ | ⟨rfl, rfl⟩
    · exact ⟨hcn, hbx, ic, is⟩
    · exact ⟨by rw [hcn, Nat.add_comm], fun h1 h2 => hbx h2 h1, is, ic⟩
  have hk1 : st1.counter[k]? = some (cnt S sib) := by rw [(hF.other k hkc).1, hcntS]
  have hcntsib : cnt (l :: S) sib = cnt S sib := (cnt_congr hSsib).symm
  rcases hwalk with ⟨hcc, hw⟩ | ⟨hcc, hw⟩
  · -- the walk reaches the top of `c`
    have hcontc : ∀ f, cont parent ch (f + 1) c st1 = leafWalk parent ch (f + 1) c.id st1 := by
      intro f
      unfold cont
      have : (c.id != kRoot) = true := by simp only [kRoot, bne_iff_ne]; exact hc1
      rw [if_pos this]
    have hcnt1 : cnt (l :: S) c = 1 := by unfold cnt; rw [if_pos hcc]
    by_cases hsc : complete S sib
    · -- second arrival
      have hs1 : cnt S sib = 1 := by unfold cnt; rw [if_pos hsc]
      have hsc' : complete (l :: S) sib := (complete_congr hSsib).mp hsc
      have is1 : Inv leafBB (l :: S) st1 sib :=
        Inv_frame hF sib hdisj hSsib hinvsib
      have cellc := Inv_cell hinvc hcc
      have cells := Inv_cell is1 hsc'
      have cella : st1.boxes[a.id.toNat]? = some (some (val leafBB a)) := by
        rcases hside with ⟨rfl, rfl⟩ | ⟨rfl, rfl⟩
        · exact cellc
        · exact cells
      have cellb : st1.boxes[b.id.toNat]? = some (some (val leafBB b)) := by
        rcases hside with ⟨rfl, rfl⟩ | ⟨rfl, rfl⟩
        · exact cells
        · exact cellc
      have hkN1 : 2 * k + 1 < st1.boxes.size := by rw [hF.size]; exact hkN
      rw [hs1] at hk1
      have hstep := fun f => leafWalk_second (parent := parent) (ch := ch) (f := f)
        (id_nonneg c) hpar hch hk1 (id_nonneg a) (id_nonneg b) cella cellb hkN1
      have hlt : k < st1.counter.size := by
        have ⟨h, _⟩ := Array.getElem?_eq_some_iff.mp hk1
        exact h
      have ⟨hFr, hI⟩ := assemble _ (Frame.both st1 k 2 (some ((val leafBB a).union (val leafBB b))))
        (by
          show (st1.counter.setIfInBounds k 2)[k]? = _
          rw [Array.getElem?_setIfInBounds_self_of_lt hlt, hcnt1, hcntsib, hs1])
        (by
          intro _ _
          show (st1.boxes.setIfInBounds (2 * k + 1) _)[2 * k + 1]? = _
          rw [Array.getElem?_setIfInBounds_self_of_lt hkN1])
      refine ⟨_, d1 + 1, hFr, hI, by omega, Or.inl ⟨hcompl.mpr ⟨hcc, hsc'⟩, ?_⟩⟩
      intro f
      have : f + (d1 + 1) = (f + 1) + d1 := by omega
      rw [this, hw (f + 1), hcontc f, hstep f]
      rfl
    · -- first arrival
      have hs0 : cnt S sib = 0 := by unfold cnt; rw [if_neg hsc]
      have hsc' : ¬ complete (l :: S) sib := fun h => hsc ((complete_congr hSsib).mpr h)
      rw [hs0] at hk1
      have hstep := fun f => leafWalk_first (parent := parent) (ch := ch) (f := f)
        (id_nonneg c) hpar hch hk1
      have hlt : k < st1.counter.size := by
        have ⟨h, _⟩ := Array.getElem?_eq_some_iff.mp hk1
        exact h
      have ⟨hFr, hI⟩ := assemble _ (Frame.counter st1 k 1)
        (by
          show (st1.counter.setIfInBounds k 1)[k]? = _
          rw [Array.getElem?_setIfInBounds_self_of_lt hlt, hcnt1, hcntsib, hs0])
        (fun _ h => absurd h hsc')
      refine ⟨_, d1 + 1, hFr, hI, by omega, Or.inr ⟨fun h => hsc' (hcompl.mp h).2, ?_⟩⟩
      intro f
      have : f + (d1 + 1) = (f + 1) + d1 := by omega
      rw [this, hw (f + 1), hcontc f, hstep f]
  · -- the walk returned inside `c`
    have hcnt0' : cnt (l :: S) c = 0 := by unfold cnt; rw [if_neg hcc]
    have ⟨hFr, hI⟩ := assemble st1 (Frame.refl _ _)
      (by rw [hk1, hcnt0', hcntsib]; simp)
      (fun h _ => absurd h hcc)
    exact ⟨st1, d1, hFr, hI, by omega, Or.inr ⟨fun h => hcc (hcompl.mp h).1, hw⟩⟩


/-- the walk from leaf `l` through any subtree `s` that contains it -/
theorem climb {parent : Array Int} {ch : Array (Int × Int)} {leafBB : Array Box}
    {S : List Nat} {l : Nat} (hlS : l ∉ S) (hp1 : parent[1]? = some (-1)) :
    ∀ (s : T) (st : BState), l ∈ s.leaves → s.leaves.Nodup → s.internals.Nodup → Rep ch s →
      s.parentOk parent = true → (∀ k ∈ s.internals, 2 * k + 1 < st.boxes.size) →
      Inv leafBB S st s → Climbed parent ch leafBB S l s st := by
  intro s
  induction s with
  | leaf i =>
    intro st hl _ _ _ _ _ hinv
    simp only [T.leaves, List.mem_singleton] at hl
    subst hl
    refine ⟨st, 0, Frame.refl _ _, hinv, Nat.le_refl _, Or.inl ⟨?_, ?_⟩⟩
    · intro i hi
      simp only [T.leaves, List.mem_singleton] at hi
      subst hi; exact List.mem_cons_self
    · intro f
      unfold cont
      have : ((T.leaf l).id != kRoot) = true := by
        simp only [T.id, kRoot, bne_iff_ne]; omega
      rw [if_pos this]
      rfl
  | node k a b iha ihb =>
    intro st hl hnl hni hrep hpo hsz hinv
    simp only [T.leaves, List.mem_append] at hl
    simp only [T.leaves, List.nodup_append] at hnl
    obtain ⟨nla, nlb, dl⟩ := hnl
    simp only [T.internals, List.nodup_cons, List.mem_append, List.nodup_append, not_or] at hni
    obtain ⟨⟨hka, hkb⟩, nia, nib, di⟩ := hni
    obtain ⟨hch, ra, rb⟩ := hrep
    simp only [T.parentOk, Bool.and_eq_true, beq_iff_eq] at hpo
    obtain ⟨⟨⟨pa, pb⟩, poa⟩, pob⟩ := hpo
    have e1 : (1 : Int).toNat = 1 := rfl
    have ha1 : a.id ≠ 1 := by
      intro h; rw [h, e1, hp1] at pa
      simp only [Option.some.injEq] at pa; omega
    have hb1 : b.id ≠ 1 := by
      intro h; rw [h, e1, hp1] at pb
      simp only [Option.some.injEq] at pb; omega
    have hkN : 2 * k + 1 < st.boxes.size := hsz k (by simp [T.internals])
    have hinv' := hinv
    simp only [Inv] at hinv'
    by_cases hla : l ∈ a.leaves
    · have ca := iha st hla nla nia ra poa
        (fun x hx => hsz x (by simp [T.internals, hx])) hinv'.2.2.1
      exact climb_parent (Or.inl ⟨rfl, rfl⟩) hlS hla (fun h => dl l hla l h rfl) hka hkb
        (fun x hx h => di x h x hx rfl) hch pa ha1 hkN hinv ca
    · have hlb : l ∈ b.leaves := by
        rcases hl with h | h
        · exact absurd h hla
        · exact h
      have cb := ihb st hlb nlb nib rb pob
        (fun x hx => hsz x (by simp [T.internals, hx])) hinv'.2.2.2
      exact climb_parent (Or.inr ⟨rfl, rfl⟩) hlS hlb hla hkb hka
        (fun x hx h => di x hx x h rfl) hch pb hb1 hkN hinv cb

/-! ### the whole kernel -/

theorem getElem?_eq_some_getD {leafBB : Array Box} {i : Nat} (h : i < leafBB.size) :
    leafBB[i]? = some (leafBB.getD i default) := by
  rw [Array.getD_eq_getD_getElem?]
  simp [h]

theorem Inv_init (leafBB : Array Box) : ∀ (t : T), (∀ i ∈ t.leaves, i < leafBB.size) →
    (∀ k ∈ t.internals, k < leafBB.size - 1) → Inv leafBB [] (initBState leafBB) t := by
  intro t
  induction t with
  | leaf i =>
    intro hl _
    have hi : i < leafBB.size := hl i (by simp [T.leaves])
    simp only [Inv, initBState, Array.getElem?_map, Array.getElem?_range]
    rw [if_pos (by omega)]
    have h1 : 2 * i % 2 = 0 := by omega
    have h2 : 2 * i / 2 = i := by omega
    simp only [Option.map_some, h1, if_true, h2, getElem?_eq_some_getD hi]
  | node k a b iha ihb =>
    intro hl hk
    have hkk : k < leafBB.size - 1 := hk k (by simp [T.internals])
    have nc : ∀ t : T, ¬ complete [] t := by
      intro t h
      cases e : t.leaves with
      | nil => exact leaves_ne_nil t e
      | cons x xs =>
        have := h x (by rw [e]; exact List.mem_cons_self)
        simp at this
    have c0 : ∀ t : T, cnt [] t = 0 := fun t => by unfold cnt; rw [if_neg (nc t)]
    simp only [Inv]
    refine ⟨?_, fun h _ => absurd h (nc a), iha (fun i hi => hl i (by simp [T.leaves, hi]))
      (fun x hx => hk x (by simp [T.internals, hx])), ihb (fun i hi => hl i (by simp [T.leaves, hi]))
      (fun x hx => hk x (by simp [T.internals, hx]))⟩
    simp only [initBState, Array.getElem?_replicate, c0]
    rw [if_pos hkk]

/-- everything the main theorem needs to know about the tree -/
structure TreeCtx (ch : Array (Int × Int)) (parent : Array Int) (n : Nat) (t0 : T) : Prop where
  hn : 2 ≤ n
  hps : parent.size = 2 * n - 1
  hp1 : parent[1]? = some (-1)
  hrep : Rep ch t0
  hid : t0.id = 1
  hcov : t0.cover 0 (n - 1) = true
  hpo : t0.parentOk parent = true

theorem TreeCtx.mem_leaves {ch parent n t0} (c : TreeCtx ch parent n t0) (i : Nat) :
    i ∈ t0.leaves ↔ i < n := by
  rw [mem_leaves_of_cover c.hcov]
  have := c.hn
  omega

theorem TreeCtx.mem_internals {ch parent n t0} (c : TreeCtx ch parent n t0) (k : Nat) :
    k ∈ t0.internals ↔ k < n - 1 := mem_internals_root c.hcov c.hid k

theorem TreeCtx.height_le {ch parent n t0} (c : TreeCtx ch parent n t0) : t0.height ≤ n - 1 := by
  have h1 := height_le_internals t0
  have h2 := leaves_length t0
  have h3 : t0.leaves.length = n := by
    rw [cover_leaves _ _ _ c.hcov]
    have := c.hn
    simp only [List.length_range']
    omega
  omega

/-- the state invariant between two leaves -/
def Good (leafBB : Array Box) (n : Nat) (t0 : T) (S : List Nat) (st : BState) : Prop :=
  st.ok = true ∧ st.boxes.size = 2 * n - 1 ∧ Inv leafBB S st t0

theorem step_good {ch : Array (Int × Int)} {parent : Array Int} {n : Nat} {t0 : T}
    (c : TreeCtx ch parent n t0) {leafBB : Array Box} {S : List Nat} {l : Nat} {st : BState}
    (hlS : l ∉ S) (hl : l < n) (hg : Good leafBB n t0 S st) :
    Good leafBB n t0 (l :: S) (leafWalk parent ch parent.size (leaf2Node (l : Int)) st) := by
  obtain ⟨hok, hsz, hinv⟩ := hg
  have hn := c.hn
  have hcl := climb (leafBB := leafBB) hlS c.hp1 t0 st ((c.mem_leaves l).mpr hl)
    (nodup_leaves_of_cover c.hcov) (cover_internals _ _ _ c.hcov).1 c.hrep c.hpo
    (fun k hk => by have := (c.mem_internals k).mp hk; omega) hinv
  obtain ⟨st', d, hF, hI, hd, hw⟩ := hcl
  have hh := c.height_le
  have e1 : parent.size = (parent.size - d) + d := by rw [c.hps]; omega
  have e2 : leaf2Node (l : Int) = 2 * (l : Int) := by simp only [leaf2Node]; omega
  have hres : leafWalk parent ch parent.size (leaf2Node (l : Int)) st = st' := by
    rw [e1, e2]
    rcases hw with ⟨_, hw⟩ | ⟨_, hw⟩
    · rw [hw]
      unfold cont
      rw [c.hid]
      simp [kRoot]
    · rw [hw]
  rw [hres]
  exact ⟨hF.ok.trans hok, hF.size.trans hsz, hI⟩

theorem fold_good {ch : Array (Int × Int)} {parent : Array Int} {n : Nat} {t0 : T}
    (c : TreeCtx ch parent n t0) {leafBB : Array Box} :
    ∀ (order : List Nat) (S : List Nat) (st : BState), order.Nodup →
      (∀ l ∈ order, l ∉ S ∧ l < n) → Good leafBB n t0 S st →
      Good leafBB n t0 (order.reverse ++ S) (buildInternalBoxes parent ch order st) := by
  intro order
  induction order with
  | nil => intro S st _ _ hg; simpa [buildInternalBoxes] using hg
  | cons l ls ih =>
    intro S st hnd hmem hg
    simp only [List.nodup_cons] at hnd
    have ⟨hlS, hl⟩ := hmem l List.mem_cons_self
    have hg' := step_good c hlS hl hg
    have := ih (l :: S) _ hnd.2 (fun x hx => by
      have ⟨h1, h2⟩ := hmem x (List.mem_cons_of_mem _ hx)
      refine ⟨?_, h2⟩
      simp only [List.mem_cons, not_or]
      exact ⟨fun e => hnd.1 (e ▸ hx), h1⟩) hg'
    unfold buildInternalBoxes at this ⊢
    simp only [List.foldl_cons, hg.1, if_true, List.reverse_cons, List.append_assoc,
      List.singleton_append]
    exact this

/-- when every leaf has arrived, all cells hold their final values -/
theorem Inv_final {ch : Array (Int × Int)} {leafBB : Array Box} {S : List Nat} {st : BState} :
    ∀ (t : T), Rep ch t → complete S t → Inv leafBB S st t →
      (∀ i ∈ t.leaves, st.boxes[2 * i]? = some (some (leafBB.getD i default))) ∧
      (∀ k ∈ t.internals, ∃ a b : T, ch[k]? = some (a.id, b.id) ∧
        st.boxes[2 * k + 1]? = some (some ((val leafBB a).union (val leafBB b))) ∧
        st.boxes[a.id.toNat]? = some (some (val leafBB a)) ∧
        st.boxes[b.id.toNat]? = some (some (val leafBB b))) := by
  intro t
  induction t with
  | leaf i =>
    intro _ _ hinv
    simp only [Inv] at hinv
    refine ⟨?_, ?_⟩
    · intro j hj
      simp only [T.leaves, List.mem_singleton] at hj
      subst hj; exact hinv
    · intro k hk; simp [T.internals] at hk
  | node k a b iha ihb =>
    intro hrep hc hinv
    obtain ⟨hch, ra, rb⟩ := hrep
    have ⟨ca, cb⟩ := complete_node.mp hc
    have hinv' := hinv
    simp only [Inv] at hinv'
    obtain ⟨_, hbx, ia, ib⟩ := hinv'
    have ⟨la, ka⟩ := iha ra ca ia
    have ⟨lb, kb⟩ := ihb rb cb ib
    refine ⟨?_, ?_⟩
    · intro j hj
      simp only [T.leaves, List.mem_append] at hj
      rcases hj with hj | hj
      · exact la j hj
      · exact lb j hj
    · intro x hx
      simp only [T.internals, List.mem_cons, List.mem_append] at hx
      rcases hx with hx | hx | hx
      · subst hx
        exact ⟨a, b, hch, hbx ca cb, Inv_cell ia ca, Inv_cell ib cb⟩
      · exact ka x hx
      · exact kb x hx


theorem wfTree_ctx {ch : Array (Int × Int)} {parent : Array Int} {n : Nat}
    (hwf : wfTree ch parent n = true) : ch.size = n - 1 ∧ ∃ t0, TreeCtx ch parent n t0 := by
  obtain ⟨hn, hcs, hps, t, ht, hcov, hpo, hp1⟩ := wfTree_unpack hwf
  obtain ⟨hrep, hid, _⟩ := toTree_spec _ _ _ ht
  exact ⟨hcs, t, ⟨hn, hps, hp1, hrep, hid, hcov, hpo⟩⟩

/-- (1) any arrival order: the kernel never reads an unwritten box, never leaves an array, every
cell ends up written, and the decidable union invariant holds -/
theorem updateBoxes_correct {ch : Array (Int × Int)} {parent : Array Int} {n : Nat}
    (hwf : wfTree ch parent n = true) (leafBB : Array Box) (hsz : leafBB.size = n)
    (order : List Nat) (hperm : order.Perm (List.range n)) :
    (updateBoxes parent ch leafBB order).ok = true ∧
    (updateBoxes parent ch leafBB order).boxes.size = 2 * n - 1 ∧
    (∀ i, i < 2 * n - 1 → ∃ b, (updateBoxes parent ch leafBB order).boxes[i]? = some (some b)) ∧
    unionBoxes ch (updateBoxes parent ch leafBB order).final leafBB n = true := by
  obtain ⟨hcs, t0, c⟩ := wfTree_ctx hwf
  have hn := c.hn
  have hne : ¬ ch.size = 0 := by omega
  have hupd : updateBoxes parent ch leafBB order =
      buildInternalBoxes parent ch order (initBState leafBB) := by
    unfold updateBoxes; rw [if_neg hne]
  rw [hupd]
  -- the initial state is good
  have hg0 : Good leafBB n t0 [] (initBState leafBB) := by
    refine ⟨rfl, ?_, ?_⟩
    · simp [initBState, hsz]
    · exact Inv_init leafBB t0 (fun i hi => by rw [hsz]; exact (c.mem_leaves i).mp hi)
        (fun k hk => by rw [hsz]; exact (c.mem_internals k).mp hk)
  have hnd : order.Nodup := hperm.nodup_iff.mpr List.nodup_range
  have hmem : ∀ l, l ∈ order ↔ l < n := fun l => by rw [hperm.mem_iff, List.mem_range]
  have hg := fold_good c order [] _ hnd (fun l hl => ⟨by simp, (hmem l).mp hl⟩) hg0
  generalize buildInternalBoxes parent ch order (initBState leafBB) = st at hg ⊢
  obtain ⟨hok, hbs, hinv⟩ := hg
  have hcomp : complete (order.reverse ++ []) t0 := by
    intro i hi
    simp only [List.append_nil, List.mem_reverse]
    exact (hmem i).mpr ((c.mem_leaves i).mp hi)
  have ⟨hL, hK⟩ := Inv_final t0 c.hrep hcomp hinv
  refine ⟨hok, hbs, ?_, ?_⟩
  · intro i hi
    rcases Nat.mod_two_eq_zero_or_one i with h | h
    · have e : i = 2 * (i / 2) := by omega
      rw [e]
      exact ⟨_, hL (i / 2) ((c.mem_leaves _).mpr (by omega))⟩
    · have e : i = 2 * (i / 2) + 1 := by omega
      rw [e]
      have ⟨a, b, _, h2, _⟩ := hK (i / 2) ((c.mem_internals _).mpr (by omega))
      exact ⟨_, h2⟩
  · unfold unionBoxes
    simp only [Bool.and_eq_true, beq_iff_eq, List.all_eq_true, List.mem_range]
    refine ⟨⟨⟨?_, hsz⟩, ?_⟩, ?_⟩
    · simp [BState.final, hbs]
    · intro i hi
      simp only [BState.final, Array.getElem?_map, hL i ((c.mem_leaves i).mpr hi),
        Option.map_some, Option.getD_some]
      exact (getElem?_eq_some_getD (by omega)).symm
    · intro k hk
      have ⟨a, b, h1, h2, h3, h4⟩ := hK k ((c.mem_internals k).mpr hk)
      rw [h1]
      simp only [BState.final, Array.getElem?_map, h2, h3, h4, Option.map_some, Option.getD_some,
        Bool.and_eq_true, decide_eq_true_eq, beq_iff_eq]
      exact ⟨⟨id_nonneg a, id_nonneg b⟩, trivial⟩


/-- non-vacuity: the hypotheses of `updateBoxes_correct` are met by the tree built from the codes
`3,3,3,7,7,9`, six leaf boxes and a scrambled arrival order -/
example :
    let t := createRadixTree #[3, 3, 3, 7, 7, 9]
    let leafBB : Array Box := #[⟨⟨0, 0, 0⟩, ⟨1, 1, 1⟩⟩, ⟨⟨2, 0, 0⟩, ⟨3, 1, 1⟩⟩, ⟨⟨0, 2, 0⟩, ⟨1, 3, 1⟩⟩,
      ⟨⟨5, 5, 5⟩, ⟨6, 6, 6⟩⟩, ⟨⟨7, 5, 5⟩, ⟨8, 6, 6⟩⟩, ⟨⟨9, 9, 9⟩, ⟨9, 9, 9⟩⟩]
    wfTree t.1 t.2 6 = true ∧ leafBB.size = 6 ∧ [4, 2, 0, 5, 1, 3].Perm (List.range 6) ∧
    (updateBoxes t.2 t.1 leafBB [4, 2, 0, 5, 1, 3]).ok = true := by
  intro t leafBB
  have h1 : wfTree t.1 t.2 6 = true := by decide +kernel
  have h2 : leafBB.size = 6 := rfl
  have h3 : [4, 2, 0, 5, 1, 3].Perm (List.range 6) := by decide
  exact ⟨h1, h2, h3, (updateBoxes_correct h1 leafBB h2 _ h3).1⟩


end MV.Collider
