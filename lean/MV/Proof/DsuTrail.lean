/-
`findImpl` is wait-free: under arbitrary interference by other threads, one call performs
fewer than `n` loop iterations.  The ghost field `Thr.trail` records the values `id` has held
in the current call; they form a strictly increasing chain of non-roots in the key order
(non-roots have frozen keys, so the chain stays a chain whatever the other threads do).
-/
import MV.Proof.DsuI3

namespace MV.Dsu

/-- `trail = [v_k, …, v_0]` (newest first) followed by `id`: every `v` is a non-root `< n`
and `v_0 < v_1 < … < v_k < id` in the key order -/
def Chain (n : Nat) (m : Mem) : List Nat → Nat → Prop
  | [], _ => True
  | x :: rest, id => x < n ∧ par m x ≠ x ∧ KLt m x id ∧ Chain n m rest x

theorem Chain.mono {n : Nat} {m m' : Mem} {E E' : List (Nat × Nat)} (x : Ext m m' E E') :
    ∀ {l : List Nat} {id : Nat}, Chain n m l id → Chain n m' l id
  | [], _, _ => trivial
  | _ :: _, _, ⟨h1, h2, h3, h4⟩ => ⟨h1, (x.nonroot _ h2).1, x.klt h2 h3, Chain.mono x h4⟩

theorem mu_lt_of_klt (m : Mem) {n a b : Nat} (hb : b < n) (h : KLt m a b) :
    mu m n b < mu m n a := by
  unfold mu
  apply countP_lt_of_imp
  · intro x _ hx
    simp only [decide_eq_true_eq] at hx ⊢
    exact h.trans hx
  · exact ⟨b, List.mem_range.2 hb, by simpa using h, by simp [KLt.irrefl]⟩

theorem Chain.length_lt {n : Nat} {m : Mem} : ∀ {l : List Nat} {id : Nat}, Chain n m l id →
    id < n → l.length + mu m n id < n
  | [], id, _, hid => by simpa using mu_lt_n m hid
  | x :: rest, id, ⟨h1, _, h3, h4⟩, hid => by
    have := Chain.length_lt h4 h1
    have := mu_lt_of_klt m hid h3
    simp only [List.length_cons]; omega

structure TrailInvT (n : Nat) (m : Mem) (t : Thr) : Prop where
  chain : FindPc t.pc → Chain n m t.trail t.id
  pk : t.pc = .fLoadNP ∨ t.pc = .fCas → par m t.id ≠ t.id ∧ KLt m t.id t.value.parent

def TrailInv (n : Nat) (s : State) : Prop :=
  ∀ (tid : Nat) (t : Thr), s.thr[tid]? = some t → t.finished = false → TrailInvT n s.mem t

theorem TrailInvT.mono {n : Nat} {m m' : Mem} {E E' : List (Nat × Nat)} (x : Ext m m' E E')
    {t : Thr} (h : TrailInvT n m t) : TrailInvT n m' t :=
  ⟨fun hp => (h.chain hp).mono x,
   fun hp => ⟨(x.nonroot _ (h.pk hp).1).1, x.klt (h.pk hp).1 (h.pk hp).2⟩⟩

/-- a thread freshly positioned: at the start of a `findImpl` call with an empty trail, or
outside `findImpl` -/
def FreshT (t : Thr) : Prop := (t.pc = .fLoadP ∧ t.trail = []) ∨ ¬ FindPc t.pc

theorem FreshT.trailInv {n : Nat} {m : Mem} {t : Thr} (h : FreshT t) : TrailInvT n m t := by
  rcases h with ⟨hp, ht⟩ | hn
  · exact ⟨fun _ => by rw [ht]; trivial, fun h => by rw [hp] at h; rcases h with h | h <;> cases h⟩
  · exact ⟨fun hp => (hn hp).elim,
      fun h => by rcases h with h | h <;> (rw [h] at hn; exact (hn trivial).elim)⟩

theorem startOp_fresh {t : Thr} (h : t.startOp.finished = false) : FreshT t.startOp := by
  unfold Thr.startOp at h ⊢
  cases hc : t.curOp with
  | none => simp only [hc] at h; unfold Thr.finished at h; rw [hc] at h; cases h
  | some op => cases op <;> exact .inl ⟨rfl, rfl⟩

theorem finishOp_fresh {t : Thr} {r : Nat} (h : (t.finishOp r).finished = false) :
    FreshT (t.finishOp r) := startOp_fresh h

theorem findRet_fresh {t : Thr} {r : Nat} (h : (t.findRet r).finished = false) :
    FreshT (t.findRet r) := by
  unfold Thr.findRet at h ⊢
  revert h
  cases t.k <;> intro h <;> dsimp only at h ⊢
  · exact finishOp_fresh h
  · exact .inl ⟨rfl, rfl⟩
  · split
    · rename_i e; rw [if_pos e] at h; exact finishOp_fresh h
    · exact .inr (fun h => h)
  · exact .inl ⟨rfl, rfl⟩
  · split
    · rename_i e; rw [if_pos e] at h; exact finishOp_fresh h
    · exact .inr (fun h => h)

theorem step_trailInv {n : Nat} {s : State} (hI : Inv n s) (hT : TrailInv n s) (tid : Nat)
    (sp : Bool) : TrailInv n (step s tid sp).1 := by
  cases hget : s.thr[tid]? with
  | none => rw [step_idle (.inl hget)]; exact hT
  | some t =>
    cases hfin : t.finished with
    | true => rw [step_idle (.inr ⟨t, hget, hfin⟩)]; exact hT
    | false =>
      have x := (step_inv2 hI tid sp).2
      have hTI := hI.thr tid t hget
      have hTr := hT tid t hget hfin
      have htid : tid < s.thr.length := (List.getElem?_eq_some_iff.1 hget).1
      obtain ⟨op, hc⟩ : ∃ op, t.curOp = some op := by
        unfold Thr.finished at hfin
        cases h : t.curOp with
        | none => rw [h] at hfin; cases hfin
        | some op => exact ⟨op, rfl⟩
      obtain ⟨w, ok, hthr, _, hw, _⟩ := step_desc (sp := sp) hget hfin
      intro tid2 t2 hget2 hfin2
      rw [hthr] at hget2
      by_cases e : tid = tid2
      · subst e
        rw [List.getElem?_set_self htid] at hget2
        have ht2 := Option.some.inj hget2
        subst ht2
        -- the acting thread
        cases hp : t.pc with
        | fLoadP =>
          unfold Thr.next at hfin2 ⊢; rw [hp] at hfin2 ⊢; dsimp only at hfin2 ⊢
          split
          · rename_i e; rw [if_pos e] at hfin2; exact (findRet_fresh hfin2).trailInv
          · exact ⟨fun _ => (hTr.chain (by rw [hp]; trivial)).mono x,
              fun h => by rcases h with h | h <;> cases h⟩
        | fLoadV =>
          have hw' : w = rd s.mem t.id := hw t.id (by simp [Thr.memOp, hp])
          obtain ⟨tgt, f⟩ := (hTI.cur op hc).getFind (by rw [hp]; trivial)
          unfold FindInv at f; rw [hp] at f
          obtain ⟨f1, _, f3⟩ := f
          unfold Thr.next; rw [hp]; dsimp only
          refine ⟨fun _ => (hTr.chain (by rw [hp]; trivial)).mono x, fun _ => ?_⟩
          have hk : KLt s.mem t.id w.parent := by rw [hw']; exact hI.mem.klt _ f1 f3
          exact ⟨(x.nonroot _ f3).1, x.klt f3 hk⟩
        | fLoadNP =>
          obtain ⟨tgt, f⟩ := (hTI.cur op hc).getFind (by rw [hp]; trivial)
          have f1 := f.1
          have hch := hTr.chain (by rw [hp]; trivial)
          obtain ⟨p1, p2⟩ := hTr.pk (.inl hp)
          unfold Thr.next; rw [hp]; dsimp only
          split
          · rename_i e
            refine ⟨fun _ => ?_, fun h => by rcases h with h | h <;> cases h⟩
            have : Chain n s.mem (t.id :: t.trail) w.parent := ⟨f1, p1, e ▸ p2, hch⟩
            exact this.mono x
          · exact ⟨fun _ => hch.mono x, fun _ => ⟨(x.nonroot _ p1).1, x.klt p1 p2⟩⟩
        | fCas =>
          obtain ⟨tgt, f⟩ := (hTI.cur op hc).getFind (by rw [hp]; trivial)
          have f1 := f.1
          unfold FindInv at f; rw [hp] at f
          obtain ⟨_, _, _, _, _, _, _, _, f9⟩ := f
          have hch := hTr.chain (by rw [hp]; trivial)
          obtain ⟨p1, p2⟩ := hTr.pk (.inr hp)
          unfold Thr.next; rw [hp]; dsimp only
          refine ⟨fun _ => ?_, fun h => by rcases h with h | h <;> cases h⟩
          have : Chain n s.mem (t.id :: t.trail) t.np := ⟨f1, p1, p2.trans f9, hch⟩
          exact this.mono x
        | uRank1 =>
          unfold Thr.next; rw [hp]; dsimp only
          exact FreshT.trailInv (.inr (fun h => h))
        | uRank2 =>
          unfold Thr.next; rw [hp]; dsimp only
          split <;> exact FreshT.trailInv (.inr (fun h => h))
        | uLink =>
          unfold Thr.next at hfin2 ⊢; rw [hp] at hfin2 ⊢; dsimp only at hfin2 ⊢
          split
          · rename_i e1; rw [if_pos e1] at hfin2
            split
            · exact FreshT.trailInv (.inr (fun h => h))
            · rename_i e2; rw [if_neg e2] at hfin2; exact (finishOp_fresh hfin2).trailInv
          · exact FreshT.trailInv (.inl ⟨rfl, rfl⟩)
        | uRankCas =>
          unfold Thr.next at hfin2 ⊢; rw [hp] at hfin2 ⊢; dsimp only at hfin2 ⊢
          split
          · exact FreshT.trailInv (.inl ⟨rfl, rfl⟩)
          · rename_i e; rw [if_neg e] at hfin2; exact (finishOp_fresh hfin2).trailInv
        | sLoadP =>
          unfold Thr.next at hfin2 ⊢; rw [hp] at hfin2 ⊢; dsimp only at hfin2 ⊢
          split
          · rename_i e; rw [if_pos e] at hfin2; exact (finishOp_fresh hfin2).trailInv
          · exact FreshT.trailInv (.inl ⟨rfl, rfl⟩)
      · rw [List.getElem?_set_ne e] at hget2
        exact (hT tid2 t2 hget2 hfin2).mono x

theorem init_trailInv (n : Nat) (progs : List (List Op)) : TrailInv n (init n progs) := by
  intro tid t hget hfin
  simp only [init, List.getElem?_map] at hget
  cases hp : progs[tid]? with
  | none => rw [hp] at hget; cases hget
  | some p =>
    rw [hp] at hget; simp only [Option.map_some, Option.some.injEq] at hget
    subst hget
    exact (startOp_fresh hfin).trailInv

theorem exec_trailInv {n : Nat} {s : State} (hI : Inv n s) (hT : TrailInv n s)
    (sched : List (Nat × Bool)) : TrailInv n (exec s sched) := by
  induction sched generalizing s with
  | nil => exact hT
  | cons e rest ih => exact ih (step_inv hI e.1 e.2) (step_trailInv hI hT e.1 e.2)

/-- inside `findImpl`, fewer than `n` loop iterations have been performed -/
theorem trail_length_lt {n : Nat} {s : State} (hI : Inv n s) (hT : TrailInv n s) {tid : Nat}
    {t : Thr} (hget : s.thr[tid]? = some t) (hfin : t.finished = false) (hp : FindPc t.pc) :
    t.trail.length < n := by
  obtain ⟨op, hc⟩ : ∃ op, t.curOp = some op := by
    unfold Thr.finished at hfin
    cases h : t.curOp with
    | none => rw [h] at hfin; cases hfin
    | some op => exact ⟨op, rfl⟩
  obtain ⟨tgt, f⟩ := ((hI.thr tid t hget).cur op hc).getFind hp
  have := ((hT tid t hget hfin).chain hp).length_lt f.1
  omega

end MV.Dsu
