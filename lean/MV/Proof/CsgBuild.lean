import MV.Proof.CsgFin
/-
Node-building operations (`Manifold::Boolean`, `BatchBoolean`, `Transform`, constructors):
they append one node and at most one impl; nothing that exists changes.
-/
set_option autoImplicit false
namespace MV.Csg
open SolidAlg XfAct

variable {M S : Type}

/-- append one node and some impls -/
def Store.grow (s : Store M) (nd : Node M) (is : List (List Nat)) : Store M :=
  { s with nodes := s.nodes ++ [nd], impls := s.impls ++ is }

section Grow
variable {s : Store M} {nd : Node M} {is : List (List Nat)}

theorem grow_node_lt {k : Nat} (hk : k < s.nodes.length) :
    (s.grow nd is).nodes[k]? = s.nodes[k]? := by
  simp only [Store.grow]
  rw [List.getElem?_append_left hk]

theorem grow_node_new : (s.grow nd is).nodes[s.nodes.length]? = some nd := by
  simp [Store.grow]

theorem grow_node_old {k : Nat} {x : Node M} (h : s.nodes[k]? = some x) :
    (s.grow nd is).nodes[k]? = some x := by
  rw [grow_node_lt (List.getElem?_eq_some_iff.1 h).1, h]

theorem grow_node_cases {k : Nat} {x : Node M} (h : (s.grow nd is).nodes[k]? = some x) :
    s.nodes[k]? = some x ∨ (k = s.nodes.length ∧ x = nd) := by
  by_cases hk : k < s.nodes.length
  · rw [grow_node_lt hk] at h; exact Or.inl h
  · have hlen := (List.getElem?_eq_some_iff.1 h).1
    simp only [Store.grow, List.length_append, List.length_singleton] at hlen
    have : k = s.nodes.length := by omega
    subst this
    rw [grow_node_new] at h
    exact Or.inr ⟨rfl, (Option.some.inj h).symm⟩

theorem grow_impl_old {j : Nat} {ch : List Nat} (h : s.impls[j]? = some ch) :
    (s.grow nd is).impls[j]? = some ch := by
  simp only [Store.grow]
  rw [List.getElem?_append_left (List.getElem?_eq_some_iff.1 h).1, h]

theorem grow_impl_cases {j : Nat} {ch : List Nat} (h : (s.grow nd is).impls[j]? = some ch) :
    s.impls[j]? = some ch ∨ (s.impls.length ≤ j ∧ ch ∈ is) := by
  by_cases hj : j < s.impls.length
  · simp only [Store.grow] at h
    rw [List.getElem?_append_left hj] at h
    exact Or.inl h
  · right
    simp only [Store.grow] at h
    rw [List.getElem?_append_right (by omega)] at h
    exact ⟨by omega, List.mem_of_getElem? h⟩

/-- side conditions under which `grow` keeps the store well-formed -/
structure GrowOK (s : Store M) (nd : Node M) (is : List (List Nat)) : Prop where
  node : ∀ {i : Nat} {o : Op} {m : M} {c : Option Nat}, nd = Node.op i o m c →
    c = none ∧ i < s.impls.length + is.length ∧
    ∀ {n' : Nat} {o' : Op} {m' : M} {c' : Option Nat},
      s.nodes[n']? = some (Node.op i o' m' c') → o' = o
  impl : ∀ ch ∈ is, 2 ≤ ch.length ∧ ∀ c ∈ ch, c < s.nodes.length

theorem grow_wfs (h : WFs s) (g : GrowOK s nd is) : WFs (s.grow nd is) := by
  refine ⟨?_, ?_, ?_, ?_, ?_⟩
  · intro n i o m c hn
    simp only [Store.grow, List.length_append]
    rcases grow_node_cases hn with h' | ⟨_, rfl⟩
    · have := h.impl_lt h'; omega
    · exact (g.node rfl).2.1
  · intro j ch hj c hc
    rcases grow_impl_cases hj with h' | ⟨hjge, hmem⟩
    · rcases h.child h' c hc with ⟨l, hl⟩ | ⟨i, o, m, k, hk, hlt⟩
      · exact Or.inl ⟨l, grow_node_old hl⟩
      · exact Or.inr ⟨i, o, m, k, grow_node_old hk, hlt⟩
    · have hclt := (g.impl ch hmem).2 c hc
      cases hx : s.nodes[c]? with
      | none => rw [List.getElem?_eq_getElem hclt] at hx; cases hx
      | some x =>
        cases x with
        | leaf l => exact Or.inl ⟨l, grow_node_old hx⟩
        | op i o m k =>
          have := h.impl_lt hx
          exact Or.inr ⟨i, o, m, k, grow_node_old hx, by omega⟩
  · intro j ch hj
    rcases grow_impl_cases hj with h' | ⟨_, hmem⟩
    · rcases h.shape h' with h2 | ⟨c, l, rfl, hl⟩
      · exact Or.inl h2
      · exact Or.inr ⟨c, l, rfl, grow_node_old hl⟩
    · exact Or.inl (g.impl ch hmem).1
  · intro n n' i o o' m m' c c' h1 h2
    rcases grow_node_cases h1 with h1' | ⟨_, e1⟩ <;> rcases grow_node_cases h2 with h2' | ⟨_, e2⟩
    · exact h.op_same h1' h2'
    · exact (g.node e2.symm).2.2 h1'
    · exact ((g.node e1.symm).2.2 h2').symm
    · rw [← e1] at e2; cases e2; rfl
  · intro n i o m c hn
    rcases grow_node_cases hn with h' | ⟨_, e⟩
    · obtain ⟨⟨l, hl⟩, c', l', hi, hl'⟩ := h.cache h'
      exact ⟨⟨l, grow_node_old hl⟩, c', l', grow_impl_old hi, grow_node_old hl'⟩
    · have := (g.node e.symm).1; cases this

section Den
variable [One M] [Mul M] [SolidAlg S] [XfAct M S]

theorem grow_denoteF (L : Val S) (h : WFs s) :
    ∀ f k, k < s.nodes.length → rank s k < f →
      denoteF L (s.grow nd is) f k = denoteF L s f k := by
  intro f
  induction f with
  | zero => intro k _ hr; omega
  | succ f ih =>
    intro k hk hr
    simp only [denoteF, grow_node_lt hk]
    cases hn : s.nodes[k]? with
    | none => rfl
    | some x =>
      cases x with
      | leaf l => rfl
      | op i o m c =>
        simp only
        have hi := h.impl_get hn
        rw [getD_of_getElem? (grow_impl_old (nd := nd) (is := is) hi)]
        congr 2
        apply List.map_congr_left
        intro c hc
        have := h.rank_child hi hc
        rw [rank_op hn] at hr
        exact ih c (h.child_lt hi hc) (by omega)

/-- existing nodes keep their denotation -/
theorem grow_sem (L : Val S) (h : WFs s) : SemExt L s (s.grow nd is) := by
  intro k hk
  have hr : rank s k < s.impls.length + 1 := by
    simp only [rank]
    split
    · rename_i hn; have := h.impl_lt hn; omega
    · omega
  simp only [denote]
  rw [grow_denoteF L h _ k hk (by simp only [Store.grow, List.length_append]; omega)]
  exact denoteF_stable L h _ _ k (by simp only [Store.grow, List.length_append]; omega) hr

theorem grow_cacheOK (L : Val S) (h : WFs s) (g : GrowOK s nd is) (hc : CacheOK L s) :
    CacheOK L (s.grow nd is) := by
  intro n i o m c hn
  rcases grow_node_cases hn with h' | ⟨_, e⟩
  · obtain ⟨⟨l, hl⟩, _⟩ := h.cache h'
    rw [grow_sem L h n (List.getElem?_eq_some_iff.1 h').1,
      grow_sem L h c (List.getElem?_eq_some_iff.1 hl).1]
    exact hc h'
  · have := (g.node e.symm).1; cases this

end Den
end Grow
end MV.Csg

namespace MV.Csg
open SolidAlg XfAct

variable {M S : Type} [One M] [Mul M] [SolidAlg S] [XfAct M S]

theorem opSem_pair (o : Op) (a b : S) : opSem o [a, b] = binSem o a b := by
  cases o <;> simp [opSem, binSem, union_empty, bigI, bigIo]

theorem binSem_comm {o : Op} (ho : o = .add ∨ o = .int) (a b : S) :
    binSem o a b = binSem o b a := by
  rcases ho with rfl | rfl
  · exact union_comm a b
  · exact inter_comm a b

theorem opSem_nil (o : Op) : opSem o ([] : List S) = empty := by
  cases o <;> rfl

/-- result of a node-building operation: store `s'`, new handle root `n'` of value `v` -/
structure Built (L : Val S) (s s' : Store M) (n' : Nat) (v : S) : Prop where
  wf : WFs s'
  sem : SemExt L s s'
  cache : CacheOK L s'
  val : denote L s' n' = v
  lt : n' < s'.nodes.length
  mono : s.nodes.length ≤ s'.nodes.length

omit [One M] [Mul M] in
theorem addNode_eq (s : Store M) (nd : Node M) :
    s.addNode nd = (s.grow nd [], s.nodes.length) := by
  simp [Store.addNode, Store.grow]

theorem addLeaf_built (L : Val S) (s : Store M) (hwf : WFs s) (hc : CacheOK L s) (l : Leaf M) :
    Built L s (s.addNode (.leaf l)).1 (s.addNode (.leaf l)).2 (L.leaf l) := by
  rw [addNode_eq]
  have g : GrowOK s (Node.leaf l) [] := ⟨fun h => (by cases h), fun _ h => (by simp at h)⟩
  exact ⟨grow_wfs hwf g, grow_sem L hwf, grow_cacheOK L hwf g hc,
    denote_leaf L grow_node_new, by simp [Store.grow], by simp [Store.grow]⟩

theorem newLeaf_built (L : Val S) (s : Store M) (hwf : WFs s) (hc : CacheOK L s) (h : Nat) :
    Built L s (s.newLeaf h).1 (s.newLeaf h).2 (L.orig h) := by
  have := addLeaf_built L s hwf hc (⟨.orig h, 1⟩ : Leaf M)
  simpa [Store.newLeaf, Val.leaf, Val.leafId, act_one] using this

theorem emptyLeaf_built (L : Val S) (s : Store M) (hwf : WFs s) (hc : CacheOK L s) :
    Built L s s.emptyLeaf.1 s.emptyLeaf.2 empty := by
  have := addLeaf_built L s hwf hc (⟨.empty, 1⟩ : Leaf M)
  simpa [Store.emptyLeaf, Val.leaf, Val.leafId, act_one] using this

/-- `Transform`: a chain of transforms is the product applied once -/
theorem transform_built (L : Val S) (s : Store M) (hwf : WFs s) (hc : CacheOK L s) (a : Nat)
    (m : M) (ha : a < s.nodes.length) :
    Built L s (s.transform a m).1 (s.transform a m).2 (act m (denote L s a)) := by
  cases hn : s.nodes[a]? with
  | none => rw [List.getElem?_eq_getElem ha] at hn; cases hn
  | some nd =>
    cases nd with
    | leaf l =>
      have := addLeaf_built L s hwf hc (l.transform m)
      simp only [Store.transform, hn]
      rw [Val.leaf_transform, ← denote_leaf L hn] at this
      exact this
    | op i o x c =>
      simp only [Store.transform, hn, addNode_eq]
      have g : GrowOK s (Node.op i o (m * x) none) [] :=
        ⟨fun h => by
          cases h
          exact ⟨rfl, by have := hwf.impl_lt hn; simpa using this,
            fun h' => hwf.op_same h' hn⟩, fun _ h => by simp at h⟩
      have hwf' := grow_wfs hwf g
      refine ⟨hwf', grow_sem L hwf, grow_cacheOK L hwf g hc, ?_, by simp [Store.grow],
        by simp [Store.grow]⟩
      rw [denote_op L hwf' grow_node_new, denote_op L hwf hn, act_mul]
      have hi := hwf.impl_get hn
      rw [getD_of_getElem? (grow_impl_old (nd := Node.op i o (m * x) none) (is := []) hi)]
      congr 3
      apply List.map_congr_left
      intro c hc'
      exact grow_sem L hwf c (hwf.child_lt hi hc')

/-- `std::make_shared<CsgOpNode>(children, op)` with at least two children -/
theorem newOp_built (L : Val S) (s : Store M) (hwf : WFs s) (hc : CacheOK L s) (ch : List Nat)
    (o : Op) (h2 : 2 ≤ ch.length) (hch : ∀ c ∈ ch, c < s.nodes.length) :
    Built L s (s.newOp ch o).1 (s.newOp ch o).2 (opSem o (ch.map (denote L s))) := by
  have e : s.newOp ch o = (s.grow (Node.op s.impls.length o 1 none) [ch], s.nodes.length) := rfl
  rw [e]
  have g : GrowOK s (Node.op s.impls.length o (1 : M) none) [ch] :=
    ⟨fun h => by
      cases h
      exact ⟨rfl, by simp, fun h' => by have := hwf.impl_lt h'; omega⟩,
     fun c h => by simp only [List.mem_singleton] at h; subst h; exact ⟨h2, hch⟩⟩
  have hwf' := grow_wfs hwf g
  refine ⟨hwf', grow_sem L hwf, grow_cacheOK L hwf g hc, ?_, by simp [Store.grow],
    by simp [Store.grow]⟩
  rw [denote_op L hwf' grow_node_new, act_one]
  have : (s.grow (Node.op s.impls.length o (1 : M) none) [ch]).impls.getD s.impls.length [] = ch := by
    simp [Store.grow, List.getD]
  rw [this]
  congr 1
  apply List.map_congr_left
  intro c hc'
  exact grow_sem L hwf c (hch c hc')

/-- `Manifold::Boolean` -/
theorem boolean_built (L : Val S) (s : Store M) (hwf : WFs s) (hc : CacheOK L s) (a b : Nat)
    (o : Op) (ha : a < s.nodes.length) (hb : b < s.nodes.length) :
    Built L s (s.boolean a b o).1 (s.boolean a b o).2
      (binSem o (denote L s a) (denote L s b)) := by
  simp only [Store.boolean]
  split
  · rename_i hcond
    have ho : o = .add ∨ o = .int := by
      simp only [Bool.and_eq_true, Bool.or_eq_true, beq_iff_eq] at hcond
      exact hcond.2
    have := newOp_built L s hwf hc [b, a] o (by simp) (by
      intro c hc'; simp only [List.mem_cons, List.not_mem_nil, or_false] at hc'
      rcases hc' with rfl | rfl <;> assumption)
    simp only [List.map_cons, List.map_nil, opSem_pair] at this
    rw [binSem_comm ho] at this
    exact this
  · have := newOp_built L s hwf hc [a, b] o (by simp) (by
      intro c hc'; simp only [List.mem_cons, List.not_mem_nil, or_false] at hc'
      rcases hc' with rfl | rfl <;> assumption)
    simpa only [List.map_cons, List.map_nil, opSem_pair] using this

/-- `Manifold::BatchBoolean` -/
theorem batch_built (L : Val S) (s : Store M) (hwf : WFs s) (hc : CacheOK L s) (as : List Nat)
    (o : Op) (has : ∀ a ∈ as, a < s.nodes.length) :
    Built L s (s.batch as o).1 (s.batch as o).2 (opSem o (as.map (denote L s))) := by
  match as, has with
  | [], _ =>
    simp only [Store.batch, List.map_nil, opSem_nil]
    exact emptyLeaf_built L s hwf hc
  | [a], has =>
    simp only [Store.batch, List.map_cons, List.map_nil, opSem_singleton]
    exact ⟨hwf, SemExt.refl L s, hc, rfl, has a (by simp), Nat.le_refl _⟩
  | a :: b :: rest, has =>
    simp only [Store.batch]
    exact newOp_built L s hwf hc (a :: b :: rest) o (by simp) has

end MV.Csg
