/-
Basic lemmas for the union-find proofs: memory reads/writes, the key order `KLt`
(rank ascending, then id DESCENDING: `unite` links the root with the smaller rank, and on a
tie the root with the LARGER id, under the other one), and the equivalence closure `Conn`.
-/
import MV.Model.Dsu

namespace MV.Dsu

/-! ## memory -/

theorem rd_wr (m : Mem) (i j : Nat) (w : Word) :
    rd (wr m i w) j = if i = j ∧ i < m.length then w else rd m j := by
  unfold rd wr
  by_cases h : i = j
  · subst h
    by_cases h2 : i < m.length
    · simp [List.getD_eq_getElem?_getD, h2]
    · simp [List.getD_eq_getElem?_getD, h2]
  · simp [List.getD_eq_getElem?_getD, h]

theorem rd_wr_ne (m : Mem) (i j : Nat) (w : Word) (h : i ≠ j) : rd (wr m i w) j = rd m j := by
  simp [rd_wr, h]

theorem rd_wr_eq (m : Mem) (i : Nat) (w : Word) (h : i < m.length) : rd (wr m i w) i = w := by
  simp [rd_wr, h]

@[simp] theorem wr_length (m : Mem) (i : Nat) (w : Word) : (wr m i w).length = m.length := by
  simp [wr]

theorem rd_initMem (n i : Nat) (h : i < n) : rd (initMem n) i = ⟨0, i⟩ := by
  simp [rd, initMem, List.getD_eq_getElem?_getD, h]

@[simp] theorem initMem_length (n : Nat) : (initMem n).length = n := by simp [initMem]

def par (m : Mem) (i : Nat) : Nat := (rd m i).parent
def rk (m : Mem) (i : Nat) : Nat := (rd m i).rank

/-- key order: `a` may be linked under `b` -/
def KLt (m : Mem) (a b : Nat) : Prop := rk m a < rk m b ∨ (rk m a = rk m b ∧ b < a)

theorem KLt.irrefl {m : Mem} {a : Nat} : ¬ KLt m a a := by
  unfold KLt; omega

theorem KLt.trans {m : Mem} {a b c : Nat} (h1 : KLt m a b) (h2 : KLt m b c) : KLt m a c := by
  unfold KLt at *; omega

theorem KLt.ne {m : Mem} {a b : Nat} (h : KLt m a b) : a ≠ b := by
  intro e; subst e; exact KLt.irrefl h

/-- the stable form: `a`'s rank is frozen, `b`'s rank can only grow -/
theorem KLt.mono {m m' : Mem} {a b : Nat} (h : KLt m a b) (ha : rk m' a = rk m a)
    (hb : rk m b ≤ rk m' b) : KLt m' a b := by
  unfold KLt at *; omega

/-! ## equivalence closure of a list of pairs -/

inductive Conn (E : List (Nat × Nat)) : Nat → Nat → Prop where
  | base {a b : Nat} : (a, b) ∈ E → Conn E a b
  | refl (a : Nat) : Conn E a a
  | symm {a b : Nat} : Conn E a b → Conn E b a
  | trans {a b c : Nat} : Conn E a b → Conn E b c → Conn E a c

theorem Conn.mono {E E' : List (Nat × Nat)} (h : ∀ p, p ∈ E → p ∈ E') {a b : Nat}
    (c : Conn E a b) : Conn E' a b := by
  induction c with
  | base hm => exact .base (h _ hm)
  | refl a => exact .refl a
  | symm _ ih => exact .symm ih
  | trans _ _ ih1 ih2 => exact .trans ih1 ih2

theorem Conn.cons {E : List (Nat × Nat)} {p : Nat × Nat} {a b : Nat} (c : Conn E a b) :
    Conn (p :: E) a b := c.mono (fun _ h => List.mem_cons_of_mem _ h)

/-- adding one edge `(x,y)` merges exactly the classes of `x` and `y` -/
theorem Conn.cons_cases {E : List (Nat × Nat)} {x y a b : Nat} (c : Conn ((x, y) :: E) a b) :
    Conn E a b ∨ (Conn E a x ∧ Conn E y b) ∨ (Conn E a y ∧ Conn E x b) := by
  induction c with
  | base hm =>
    rcases List.mem_cons.1 hm with h | h
    · cases h; exact .inr (.inl ⟨.refl _, .refl _⟩)
    · exact .inl (.base h)
  | refl a => exact .inl (.refl a)
  | symm _ ih =>
    rcases ih with h | ⟨h1, h2⟩ | ⟨h1, h2⟩
    · exact .inl h.symm
    · exact .inr (.inr ⟨h2.symm, h1.symm⟩)
    · exact .inr (.inl ⟨h2.symm, h1.symm⟩)
  | trans _ _ ih1 ih2 =>
    rcases ih1 with h | ⟨h1, h2⟩ | ⟨h1, h2⟩ <;> rcases ih2 with k | ⟨k1, k2⟩ | ⟨k1, k2⟩
    · exact .inl (h.trans k)
    · exact .inr (.inl ⟨h.trans k1, k2⟩)
    · exact .inr (.inr ⟨h.trans k1, k2⟩)
    · exact .inr (.inl ⟨h1, h2.trans k⟩)
    · exact .inr (.inl ⟨h1, k2⟩)
    · exact .inl (h1.trans k2)
    · exact .inr (.inr ⟨h1, h2.trans k⟩)
    · exact .inl (h1.trans k2)
    · exact .inr (.inr ⟨h1, k2⟩)

end MV.Dsu
