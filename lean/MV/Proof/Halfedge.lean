import MV.Model.Halfedge
import MV.Proof.Mesh
/-!
Lemmas about the transliteration of `CreateHalfedges`.
-/
namespace MV.Halfedge
open MV.Mesh List

/-! ## the edge key -/

theorem edgeKey_eq {a b : Nat} (ha : a < 2 ^ 31) (hb : b < 2 ^ 31) :
    edgeKey a b = (if a < b then 2 ^ 63 else 0) + min a b * 2 ^ 32 + max a b := by
  unfold edgeKey
  have hmin : min a b < 2 ^ 31 := by omega
  have hmax : max a b < 2 ^ 32 := by omega
  have h1 : (if a < b then 1 else 0) <<< 63 ||| min a b <<< 32
      = (if a < b then 1 else 0) <<< 63 + min a b <<< 32 := by
    rw [Nat.shiftLeft_add_eq_or_of_lt]
    rw [Nat.shiftLeft_eq]; omega
  have h2 : (if a < b then 1 else 0) <<< 63 + min a b <<< 32
      = ((if a < b then 1 else 0) * 2 ^ 31 + min a b) <<< 32 := by
    simp only [Nat.shiftLeft_eq]; split <;> omega
  rw [h1, h2, ← Nat.shiftLeft_add_eq_or_of_lt hmax, Nat.shiftLeft_eq]
  split <;> omega

theorem edgeKey_lt_iff {a b : Nat} (ha : a < 2 ^ 31) (hb : b < 2 ^ 31) :
    edgeKey a b < 2 ^ 63 ↔ ¬ a < b := by
  rw [edgeKey_eq ha hb]; split <;> omega

/-- the key of the reversed edge -/
theorem edgeKey_swap {a b : Nat} (ha : a < 2 ^ 31) (hb : b < 2 ^ 31) (h : b < a) :
    edgeKey b a = edgeKey a b + 2 ^ 63 := by
  rw [edgeKey_eq ha hb, edgeKey_eq hb ha]
  have h1 : ¬ a < b := by omega
  simp only [h, h1, if_true, if_false, Nat.min_comm b a, Nat.max_comm b a]; omega

theorem edgeKey_inj {a b c d : Nat} (ha : a < 2 ^ 31) (hb : b < 2 ^ 31) (hc : c < 2 ^ 31)
    (hd : d < 2 ^ 31) (h : edgeKey a b = edgeKey c d) :
    a = c ∧ b = d := by
  rw [edgeKey_eq ha hb, edgeKey_eq hc hd] at h
  by_cases h1 : a < b <;> by_cases h2 : c < d <;> simp only [h1, h2, if_true, if_false] at h <;> omega


/-! ## sorting: the backward half faces the forward half -/

theorem sorted_split (c : Nat) : ∀ (K : List Nat), K.Pairwise (· ≤ ·) →
    K = K.filter (fun x => decide (x < c)) ++ K.filter (fun x => !decide (x < c))
  | [], _ => rfl
  | x :: K, h => by
    rw [pairwise_cons] at h
    have ih := sorted_split c K h.2
    by_cases hx : x < c
    · simp only [filter_cons, hx, decide_true, if_true, Bool.not_true, cons_append]
      simp only [Bool.false_eq_true, if_false]
      rw [← ih]
    · have h1 : K.filter (fun x => decide (x < c)) = [] := by
        rw [filter_eq_nil_iff]; intro y hy; have := h.1 y hy; simp; omega
      have h2 : K.filter (fun x => !decide (x < c)) = K := by
        rw [filter_eq_self]; intro y hy; have := h.1 y hy; simp; omega
      simp only [filter_cons, hx, decide_false, Bool.false_eq_true, if_false, Bool.not_false,
        if_true, h1, h2, nil_append]

/-- abstract form of what the stable sort by `edgeKey` achieves on a closed oriented edge list -/
theorem sort_spec (es : List (Nat × Nat))
    (hlt : ∀ e ∈ es, e.1 < 2 ^ 31 ∧ e.2 < 2 ^ 31) (hnd : ∀ e ∈ es, e.1 ≠ e.2) (hno : es.Nodup)
    (hm : ∀ a b, (a, b) ∈ es → (b, a) ∈ es)
    (kf : Nat → Nat)
    (hkf : ∀ a, (h : a < es.length) → kf a = edgeKey es[a].1 es[a].2)
    (L : List Nat) (hL : L = (range es.length).mergeSort (fun a b => decide (kf a ≤ kf b))) :
    es.length = 2 * (es.length / 2) ∧ L ~ range es.length ∧
    ∀ i, i < es.length / 2 →
      ∃ (h1 : L.getD i 0 < es.length) (h2 : L.getD (i + es.length / 2) 0 < es.length),
        es[L.getD i 0].2 < es[L.getD i 0].1 ∧
        es[L.getD (i + es.length / 2) 0] = (es[L.getD i 0].2, es[L.getD i 0].1) := by
  have hperm : L ~ range es.length := hL ▸ mergeSort_perm _ _
  have hsorted : L.Pairwise (fun a b => kf a ≤ kf b) := by
    have := pairwise_mergeSort (le := fun a b => decide (kf a ≤ kf b))
      (by intro a b c; simp; omega) (by intro a b; simp; omega) (range es.length)
    rw [← hL] at this
    exact this.imp (by simp)
  have hLlt : ∀ a ∈ L, a < es.length := fun a ha => mem_range.1 (hperm.mem_iff.1 ha)
  -- the key list
  let K := L.map kf
  have hKs : K.Pairwise (· ≤ ·) := by
    show (L.map kf).Pairwise (· ≤ ·)
    rw [pairwise_map]; exact hsorted
  have hkinj : ∀ a, a < es.length → ∀ b, b < es.length → kf a = kf b → a = b := by
    intro a ha b hb h
    rw [hkf a ha, hkf b hb] at h
    have h1 := hlt _ (getElem_mem ha); have h2 := hlt _ (getElem_mem hb)
    have := edgeKey_inj h1.1 h1.2 h2.1 h2.2 h
    exact (List.getElem_inj hno).1 (Prod.ext this.1 this.2)
  have hLno : L.Nodup := hperm.nodup_iff.2 nodup_range
  have hKno : K.Nodup := by
    show (L.map kf).Nodup
    rw [nodup_map_iff_of_injOn]; exact hLno
    intro x hx y hy h; exact hkinj x (hLlt x hx) y (hLlt y hy) h
  have hKmem : ∀ x, x ∈ K ↔ ∃ a, ∃ h : a < es.length, edgeKey es[a].1 es[a].2 = x := by
    intro x
    show x ∈ L.map kf ↔ _
    rw [mem_map]
    constructor
    · rintro ⟨a, ha, rfl⟩; exact ⟨a, hLlt a ha, (hkf a (hLlt a ha)).symm⟩
    · rintro ⟨a, ha, rfl⟩; exact ⟨a, hperm.mem_iff.2 (mem_range.2 ha), hkf a ha⟩
  -- split at 2^63
  let B := K.filter (fun x => decide (x < 2 ^ 63))
  let F := K.filter (fun x => !decide (x < 2 ^ 63))
  have hsplit : K = B ++ F := sorted_split (2 ^ 63) K hKs
  have hBF : B.map (· + 2 ^ 63) = F := by
    apply Perm.eq_of_pairwise (le := (· ≤ ·)) (fun a b _ _ h1 h2 => Nat.le_antisymm h1 h2)
    · rw [pairwise_map]
      exact (hKs.sublist filter_sublist).imp (by intro a b h; omega)
    · exact hKs.sublist filter_sublist
    · rw [perm_ext_iff_of_nodup]
      · intro x
        simp only [B, F, mem_map, mem_filter, decide_eq_true_eq, Bool.not_eq_true',
          decide_eq_false_iff_not, hKmem]
        constructor
        · rintro ⟨y, ⟨⟨a, ha, rfl⟩, hy⟩, rfl⟩
          have hr := hlt _ (getElem_mem ha)
          have hba : es[a].2 < es[a].1 := by
            have := (edgeKey_lt_iff hr.1 hr.2).1 hy
            have := hnd _ (getElem_mem ha); omega
          have hmem : (es[a].2, es[a].1) ∈ es := hm _ _ (getElem_mem ha)
          obtain ⟨a', ha', heq⟩ := getElem_of_mem hmem
          refine ⟨⟨a', ha', ?_⟩, by omega⟩
          rw [heq]; exact edgeKey_swap hr.1 hr.2 hba
        · rintro ⟨⟨a, ha, rfl⟩, hx⟩
          have hr := hlt _ (getElem_mem ha)
          have hab : es[a].1 < es[a].2 := by
            have := (edgeKey_lt_iff hr.1 hr.2); omega
          have hmem : (es[a].2, es[a].1) ∈ es := hm _ _ (getElem_mem ha)
          obtain ⟨a', ha', heq⟩ := getElem_of_mem hmem
          have hsw := edgeKey_swap hr.2 hr.1 hab
          refine ⟨edgeKey es[a'].1 es[a'].2, ⟨⟨a', ha', rfl⟩, ?_⟩, ?_⟩
          · rw [heq]; exact (edgeKey_lt_iff hr.2 hr.1).2 (by simp; omega)
          · rw [heq]; exact hsw.symm
      · rw [nodup_map_iff_of_injOn]
        · exact hKno.sublist filter_sublist
        · intro x _ y _ h; simp at h; exact h
      · exact hKno.sublist filter_sublist
  have hlenBF : B.length = F.length := by rw [← hBF, length_map]
  have hlenK : K.length = es.length := by
    show (L.map kf).length = _
    rw [length_map, hperm.length_eq, length_range]
  have hlenL : L.length = es.length := by rw [hperm.length_eq, length_range]
  have hlen : B.length + F.length = es.length := by rw [← hlenK, hsplit, length_append]
  have hN : B.length = es.length / 2 := by omega
  refine ⟨by omega, hperm, ?_⟩
  intro i hi
  have hi1 : i < L.length := by omega
  have hi2 : i + es.length / 2 < L.length := by omega
  have e1 : L.getD i 0 = L[i] := by simp [List.getD_eq_getElem?_getD, hi1]
  have e2 : L.getD (i + es.length / 2) 0 = L[i + es.length / 2] := by
    simp [List.getD_eq_getElem?_getD, hi2]
  rw [e1, e2]
  have h1 := hLlt _ (getElem_mem hi1)
  have h2 := hLlt _ (getElem_mem hi2)
  refine ⟨h1, h2, ?_⟩
  -- keys at the two positions
  have hKi : K[i]'(by omega) = kf L[i] := by show (L.map kf)[i]'_ = _; simp
  have hKj : K[i + es.length / 2]'(by omega) = kf L[i + es.length / 2] := by
    show (L.map kf)[_]'_ = _; simp
  have hBi : K[i]'(by omega) = B[i]'(by omega) := by
    simp only [hsplit]; rw [getElem_append_left]
  have hFi : K[i + es.length / 2]'(by omega) = F[i]'(by omega) := by
    simp only [hsplit]; rw [getElem_append_right (by omega)]; simp [hN]
  have hFB : F[i]'(by omega) = B[i]'(by omega) + 2 ^ 63 := by
    simp only [← hBF]; simp
  have hBlt : B[i]'(by omega) < 2 ^ 63 := by
    have := getElem_mem (l := B) (n := i) (by omega)
    simp only [B, mem_filter, decide_eq_true_eq] at this; exact this.2
  have hk1 : kf L[i] < 2 ^ 63 := by rw [← hKi, hBi]; exact hBlt
  have hk2 : kf L[i + es.length / 2] = kf L[i] + 2 ^ 63 := by rw [← hKj, hFi, hFB, ← hBi, hKi]
  rw [hkf _ h1] at hk1 hk2
  rw [hkf _ h2] at hk2
  have hr1 := hlt _ (getElem_mem h1)
  have hr2 := hlt _ (getElem_mem h2)
  have hba : es[L[i]].2 < es[L[i]].1 := by
    have := (edgeKey_lt_iff hr1.1 hr1.2).1 hk1
    have := hnd _ (getElem_mem h1); omega
  refine ⟨hba, ?_⟩
  rw [← edgeKey_swap hr1.1 hr1.2 hba] at hk2
  have := edgeKey_inj hr2.1 hr2.2 hr1.2 hr1.1 hk2
  exact Prod.ext this.1 this.2


/-! ## evaluation of checked reads and writes -/

theorem rd_ok {α : Type} {x : Array α} {k : Nat} {v : α} (h : x[k]? = some v) :
    rd x (k : Int) = .ok v := by
  unfold rd
  have : ¬ ((k : Int) < 0) := by omega
  simp [this, h]

theorem rd_ok' {α : Type} {x : Array α} {k j : Nat} {v : α} (h : x[k + j]? = some v) :
    rd x ((k : Int) + (j : Int)) = .ok v := by
  have := rd_ok h; rwa [Int.natCast_add] at this

theorem rd_ok'' {α : Type} {x : Array α} {k j : Nat} {v : α} (h : x[k + j + 1]? = some v) :
    rd x ((k : Int) + (j : Int) + 1) = .ok v := by
  have := rd_ok h; rwa [Int.natCast_add, Int.natCast_add] at this

theorem wr_ok {α : Type} {x : Array α} {k : Nat} {v : α} (h : k < x.size) :
    wr x (k : Int) v = .ok (x.setIfInBounds k v) := by
  unfold wr
  have : ¬ ((k : Int) < 0) := by omega
  simp [this, h]

theorem getElem?_eq_some_getD {α : Type} {x : Array α} {k : Nat} (d : α) (h : k < x.size) :
    x[k]? = some (x.getD k d) := by
  simp [Array.getD_eq_getD_getElem?, h]

/-! ## the situation after sorting, abstractly -/

/-- Everything the rest of the proof needs to know about the prepared halfedges `he`, the sorted
`ids` (as the function `Lf`) and the directed edges (as the function `Ef`), `n = 2N` halfedges. -/
structure Ctx (n N : Nat) (Ef : Nat → Nat × Nat) (Lf : Nat → Nat) (he : Array CH)
    (ids : Array Nat) : Prop where
  n2 : n = 2 * N
  n3 : n % 3 = 0
  he_get : ∀ e, e < n → he[e]? = some ⟨(Ef e).1, (Ef e).2, (Ef e).1⟩
  ids_size : ids.size = n
  ids_get : ∀ i, i < n → ids[i]? = some (Lf i)
  L_lt : ∀ i, i < n → Lf i < n
  L_inj : ∀ i j, i < n → j < n → Lf i = Lf j → i = j
  L_surj : ∀ e, e < n → ∃ i, i < n ∧ Lf i = e
  opp : ∀ i, i < N → Ef (Lf (i + N)) = ((Ef (Lf i)).2, (Ef (Lf i)).1)
  E_inj : ∀ e e', e < n → e' < n → Ef e = Ef e' → e = e'
  E_ne : ∀ e, e < n → (Ef e).1 ≠ (Ef e).2
  E_next : ∀ e, e < n → (Ef (nextHalfedge e)).1 = (Ef e).2

theorem next_lt {n e : Nat} (h3 : n % 3 = 0) (he : e < n) : nextHalfedge e < n := by
  unfold nextHalfedge; split <;> omega

theorem next_next_next (e : Nat) : nextHalfedge (nextHalfedge (nextHalfedge e)) = e := by
  unfold nextHalfedge
  by_cases h0 : e % 3 = 0
  · have h1 : ¬ e % 3 = 2 := by omega
    have h2 : ¬ (e + 1) % 3 = 2 := by omega
    have h3 : (e + 1 + 1) % 3 = 2 := by omega
    simp only [h1, h2, h3, if_true, if_false]; omega
  · by_cases h1 : e % 3 = 1
    · have h1' : ¬ e % 3 = 2 := by omega
      have h2 : (e + 1) % 3 = 2 := by omega
      have h3 : ¬ (e + 1 - 2) % 3 = 2 := by omega
      simp only [h1', h2, h3, if_true, if_false]; omega
    · have h2 : e % 3 = 2 := by omega
      have h3 : ¬ (e - 2) % 3 = 2 := by omega
      have h4 : ¬ (e - 2 + 1) % 3 = 2 := by omega
      simp only [h2, h3, h4, if_true, if_false]; omega

section loop
variable {n N : Nat} {Ef : Nat → Nat × Nat} {Lf : Nat → Nat} {he : Array CH} {ids : Array Nat}

/-- the vertex opposite to halfedge `e` in its triangle: `halfedge[NextHalfedge(e)].endVert` -/
def third (Ef : Nat → Nat × Nat) (e : Nat) : Nat := (Ef (nextHalfedge e)).2

/-- pair `j` (halfedges `Lf j` and `Lf (j+N)`) is marked for removal -/
def Rem (N : Nat) (Ef : Nat → Nat × Nat) (Lf : Nat → Nat) (j : Nat) : Prop :=
  third Ef (Lf j) = third Ef (Lf (j + N))

instance (N : Nat) (Ef : Nat → Nat × Nat) (Lf : Nat → Nat) (j : Nat) : Decidable (Rem N Ef Lf j) := by
  unfold Rem; infer_instance

/-- loop invariant of the serial loop in the duplicate-free case: `ids` is never touched and
`removed` marks exactly the pairs `j < i` whose two triangles share the third vertex -/
structure Inv (n N : Nat) (Ef : Nat → Nat × Nat) (Lf : Nat → Nat) (ids : Array Nat) (i : Nat)
    (s : St) : Prop where
  ids_eq : s.ids = ids
  rsize : s.removed.size = n
  rem : ∀ e, e < n → (s.removed.getD e false = true ↔
    ∃ j, j < i ∧ Rem N Ef Lf j ∧ (e = Lf j ∨ e = Lf (j + N)))

theorem search_eval (c : Ctx n N Ef Lf he ids) {i : Nat} (hi : i < N) {s : St}
    (inv : Inv n N Ef Lf ids i s) (f : Nat) :
    ∃ s', search he N i N (Lf i) ⟨(Ef (Lf i)).1, (Ef (Lf i)).2, (Ef (Lf i)).1⟩ (f + 2) (i + N) s
        = .ok s' ∧ Inv n N Ef Lf ids (i + 1) s' := by
  have hn := c.n2
  have hiN : i + N < n := by omega
  have hin : i < n := by omega
  have hp1 : s.ids[i + N]? = some (Lf (i + N)) := by rw [inv.ids_eq]; exact c.ids_get _ hiN
  have hl0 := c.L_lt i hin
  have hl1 := c.L_lt (i + N) hiN
  have hh1 := c.he_get _ hl1
  have hopp := c.opp i hi
  have hr1 : s.removed[Lf (i + N)]? = some false := by
    rw [getElem?_eq_some_getD false (by rw [inv.rsize]; exact hl1)]
    congr 1
    cases hb : s.removed.getD (Lf (i + N)) false
    · rfl
    · obtain ⟨j, hj, _, h | h⟩ := (inv.rem _ hl1).1 hb
      · have := c.L_inj _ _ hiN (by omega) h; omega
      · have := c.L_inj _ _ hiN (by omega) h; omega
  have hn0 := c.he_get _ (next_lt c.n3 hl0)
  have hn1 := c.he_get _ (next_lt c.n3 hl1)
  by_cases hrem : Rem N Ef Lf i
  · -- the two triangles are opposed: mark, no reordering
    refine ⟨{ s with removed := (s.removed.setIfInBounds (Lf i) true).setIfInBounds (Lf (i + N)) true }, ?_, ?_⟩
    · have hthird : (Ef (nextHalfedge (Lf i))).2 = (Ef (nextHalfedge (Lf (i + N)))).2 := hrem
      simp [search, rd_ok' hp1, rd_ok hh1, rd_ok hr1, rd_ok hn0, rd_ok hn1, hopp, hthird,
        wr_ok (x := s.removed) (k := Lf i) (v := true) (by rw [inv.rsize]; exact hl0),
        wr_ok (x := s.removed.setIfInBounds (Lf i) true) (k := Lf (i + N)) (v := true)
          (by rw [Array.size_setIfInBounds, inv.rsize]; exact hl1),
        bind, Except.bind, pure, Except.pure]
    · refine ⟨inv.ids_eq, by simp [inv.rsize], ?_⟩
      intro e he'
      simp only [getD_set1, Array.size_setIfInBounds, inv.rsize, Bool.or_eq_true, Bool.and_eq_true,
        decide_eq_true_eq, beq_iff_eq, inv.rem e he']
      constructor
      · rintro ((⟨j, hj, h⟩ | ⟨_, h⟩) | ⟨_, h⟩)
        · exact ⟨j, by omega, h⟩
        · exact ⟨i, by omega, hrem, .inl h⟩
        · exact ⟨i, by omega, hrem, .inr h⟩
      · rintro ⟨j, hj, hr, h⟩
        by_cases hji : j = i
        · subst hji
          rcases h with h | h
          · exact .inl (.inr ⟨he', h⟩)
          · exact .inr ⟨he', h⟩
        · exact .inl (.inl ⟨j, by omega, hr, h⟩)
  · -- not opposed: look at the next forward halfedge (a different edge) and stop
    have hthird : ¬ (Ef (nextHalfedge (Lf i))).2 = (Ef (nextHalfedge (Lf (i + N)))).2 := hrem
    have inv' : Inv n N Ef Lf ids (i + 1) s := by
      refine ⟨inv.ids_eq, inv.rsize, ?_⟩
      intro e he'
      rw [inv.rem e he']
      constructor
      · rintro ⟨j, hj, h⟩; exact ⟨j, by omega, h⟩
      · rintro ⟨j, hj, hr, h⟩
        by_cases hji : j = i
        · subst hji; exact absurd hr hrem
        · exact ⟨j, by omega, hr, h⟩
    refine ⟨s, ?_, inv'⟩
    by_cases hlast : i + N + 1 ≥ N + N
    · simp [search, rd_ok' hp1, rd_ok hh1, rd_ok hr1, rd_ok hn0, rd_ok hn1, hopp, hthird, hlast,
        bind, Except.bind, pure, Except.pure]
    · have hi1 : i + 1 < N := by omega
      have hi1N : i + N + 1 < n := by omega
      have hp2 : s.ids[i + N + 1]? = some (Lf (i + N + 1)) := by
        rw [inv.ids_eq]; exact c.ids_get _ hi1N
      have hl2 := c.L_lt _ hi1N
      have hh2 := c.he_get _ hl2
      have hopp2 := c.opp (i + 1) hi1
      have e12 : i + 1 + N = i + N + 1 := by omega
      rw [e12] at hopp2
      have hdiff : ¬ ((Ef (Lf i)).1 = (Ef (Lf (i + 1))).1 ∧ (Ef (Lf i)).2 = (Ef (Lf (i + 1))).2) := by
        rintro ⟨h1, h2⟩
        have := c.E_inj _ _ hl0 (c.L_lt _ (by omega)) (Prod.ext h1 h2)
        have := c.L_inj _ _ hin (by omega) this
        omega
      have hdiff' : ¬ (Ef (Lf i)).1 = (Ef (Lf (i + 1))).1 ∨ ¬ (Ef (Lf i)).2 = (Ef (Lf (i + 1))).2 := by
        by_cases h1 : (Ef (Lf i)).1 = (Ef (Lf (i + 1))).1
        · exact .inr (fun h2 => hdiff ⟨h1, h2⟩)
        · exact .inl h1
      simp [search, rd_ok' hp1, rd_ok hh1, rd_ok hr1, rd_ok hn0, rd_ok hn1, hopp, hthird, hlast,
        rd_ok'' hp2, rd_ok hh2, hopp2, hdiff', bind, Except.bind, pure, Except.pure]

theorem body_eval (c : Ctx n N Ef Lf he ids) {i : Nat} (hi : i < N) {s : St}
    (inv : Inv n N Ef Lf ids i s) :
    ∃ s' cs', body he N i i N s = .ok (s', cs') ∧ Inv n N Ef Lf ids (i + 1) s' ∧
      (i + 1 < N → cs' = i + 1) := by
  have hn := c.n2
  have hin : i < n := by omega
  have hp0 : s.ids[i]? = some (Lf i) := by rw [inv.ids_eq]; exact c.ids_get _ hin
  have hl0 := c.L_lt i hin
  have hh0 := c.he_get _ hl0
  have hfuel : N + N + 1 - (i + N) = (N - 1 - i) + 2 := by omega
  obtain ⟨s', hs', inv'⟩ := search_eval c hi inv (N - 1 - i)
  by_cases hlast : i + 1 = N
  · refine ⟨s', i, ?_, inv', by omega⟩
    simp only [body, rd_ok hp0, rd_ok hh0, hfuel, hs', bind, Except.bind, pure, Except.pure]
    simp [hlast]
  · have hi1 : i + 1 < n := by omega
    have hp1 : s'.ids[i + 1]? = some (Lf (i + 1)) := by rw [inv'.ids_eq]; exact c.ids_get _ hi1
    have hl1 := c.L_lt _ hi1
    have hh1 := c.he_get _ hl1
    have hp1' : rd s'.ids ((i : Int) + 1) = .ok (Lf (i + 1)) := by
      have := rd_ok hp1; rwa [Int.natCast_add] at this
    have hdiff : ¬ ((Ef (Lf (i + 1))).1 = (Ef (Lf i)).1 ∧ (Ef (Lf (i + 1))).2 = (Ef (Lf i)).2) := by
      rintro ⟨h1, h2⟩
      have := c.E_inj _ _ hl1 hl0 (Prod.ext h1 h2)
      have := c.L_inj _ _ hi1 hin this
      omega
    refine ⟨s', i + 1, ?_, inv', fun _ => rfl⟩
    simp only [body, rd_ok hp0, rd_ok hh0, hfuel, hs', bind, Except.bind, pure, Except.pure]
    simp only [hp1', rd_ok hh1]
    simp [hlast, hdiff]

theorem serialLoop_eval (c : Ctx n N Ef Lf he ids) :
    ∀ (m i : Nat) (s : St), i + m = N → Inv n N Ef Lf ids i s →
      ∃ s', serialLoop he N m i i s = .ok s' ∧ Inv n N Ef Lf ids N s'
  | 0, i, s, h, inv => by
    have : i = N := by omega
    subst this
    exact ⟨s, rfl, inv⟩
  | m + 1, i, s, h, inv => by
    obtain ⟨s', cs', hb, inv', hcs⟩ := body_eval c (show i < N by omega) inv
    cases m with
    | zero =>
      have : i + 1 = N := by omega
      refine ⟨s', ?_, this ▸ inv'⟩
      simp [serialLoop, hb, bind, Except.bind, pure, Except.pure]
    | succ m =>
      have hcs' := hcs (by omega)
      subst hcs'
      obtain ⟨s'', hl, inv''⟩ := serialLoop_eval c (m + 1) (i + 1) s' (by omega) inv'
      refine ⟨s'', ?_, inv''⟩
      rw [serialLoop]
      simp only [hb, bind, Except.bind]
      exact hl

/-! ### the final pairing -/

theorem removed_iff (c : Ctx n N Ef Lf he ids) {s : St} (inv : Inv n N Ef Lf ids N s)
    {i : Nat} (hi : i < N) : s.removed.getD (Lf i) false = true ↔ Rem N Ef Lf i := by
  have hn := c.n2
  rw [inv.rem _ (c.L_lt i (by omega))]
  constructor
  · rintro ⟨j, hj, hr, h | h⟩
    · have := c.L_inj _ _ (by omega) (by omega) h; subst this; exact hr
    · have := c.L_inj _ _ (by omega) (by omega) h; omega
  · intro hr; exact ⟨i, hi, hr, .inl rfl⟩

/-- two writes into one array -/
def set2 (x : Array Int) (p0 : Nat) (v0 : Int) (p1 : Nat) (v1 : Int) : Array Int :=
  (x.setIfInBounds p0 v0).setIfInBounds p1 v1

theorem set2_get {x : Array Int} {p0 p1 : Nat} {v0 v1 : Int} (h0 : p0 < x.size) (h1 : p1 < x.size)
    (e : Nat) :
    (set2 x p0 v0 p1 v1)[e]? = if p1 = e then some v1 else if p0 = e then some v0 else x[e]? := by
  unfold set2
  simp only [Array.getElem?_setIfInBounds, Array.size_setIfInBounds, h0, h1, if_true]

theorem set2_size {x : Array Int} {p0 p1 : Nat} {v0 v1 : Int} :
    (set2 x p0 v0 p1 v1).size = x.size := by simp [set2]

/-- what the final pairing writes for pair `j` -/
structure Written (N : Nat) (Ef : Nat → Nat × Nat) (Lf : Nat → Nat) (o : Out) (j : Nat) : Prop where
  s0 : o.start[Lf j]? = some (if Rem N Ef Lf j then -1 else ((Ef (Lf j)).1 : Int))
  s1 : o.start[Lf (j + N)]? = some (if Rem N Ef Lf j then -1 else ((Ef (Lf (j + N))).1 : Int))
  p0 : o.paired[Lf j]? = some (if Rem N Ef Lf j then -1 else (Lf (j + N) : Int))
  p1 : o.paired[Lf (j + N)]? = some (if Rem N Ef Lf j then -1 else (Lf j : Int))
  q0 : o.prop[Lf j]? = some (if Rem N Ef Lf j then 0 else ((Ef (Lf j)).1 : Int))
  q1 : o.prop[Lf (j + N)]? = some (if Rem N Ef Lf j then 0 else ((Ef (Lf (j + N))).1 : Int))

structure FInv (n N : Nat) (Ef : Nat → Nat × Nat) (Lf : Nat → Nat) (i : Nat) (o : Out) : Prop where
  ssize : o.start.size = n
  psize : o.paired.size = n
  qsize : o.prop.size = n
  wr : ∀ j, j < i → Written N Ef Lf o j

theorem finishStep_eval (c : Ctx n N Ef Lf he ids) {s : St} (inv : Inv n N Ef Lf ids N s)
    {i : Nat} (hi : i < N) {o : Out} (fi : FInv n N Ef Lf i o) :
    ∃ o', finishStep he N s o i = .ok o' ∧ FInv n N Ef Lf (i + 1) o' := by
  have hn := c.n2
  have hin : i < n := by omega
  have hiN : i + N < n := by omega
  have hp0 : s.ids[i]? = some (Lf i) := by rw [inv.ids_eq]; exact c.ids_get _ hin
  have hp1 : s.ids[i + N]? = some (Lf (i + N)) := by rw [inv.ids_eq]; exact c.ids_get _ hiN
  have hl0 := c.L_lt i hin
  have hl1 := c.L_lt (i + N) hiN
  have hh0 := c.he_get _ hl0
  have hh1 := c.he_get _ hl1
  have hr : s.removed[Lf i]? = some (s.removed.getD (Lf i) false) :=
    getElem?_eq_some_getD false (by rw [inv.rsize]; exact hl0)
  have hne : Lf (i + N) ≠ Lf i := by
    intro h; have := c.L_inj _ _ hiN hin h; omega
  -- positions of earlier pairs differ from the two positions written now
  have hother : ∀ j, j < i → Lf (i + N) ≠ Lf j ∧ Lf i ≠ Lf j ∧ Lf (i + N) ≠ Lf (j + N) ∧ Lf i ≠ Lf (j + N) := by
    intro j hj
    refine ⟨?_, ?_, ?_, ?_⟩ <;> intro h
    · have := c.L_inj _ _ hiN (by omega) h; omega
    · have := c.L_inj _ _ hin (by omega) h; omega
    · have := c.L_inj _ _ hiN (by omega) h; omega
    · have := c.L_inj _ _ hin (by omega) h; omega
  by_cases hrem : Rem N Ef Lf i
  · have hrv : s.removed.getD (Lf i) false = true := (removed_iff c inv hi).2 hrem
    refine ⟨⟨set2 o.start (Lf i) (-1) (Lf (i + N)) (-1), set2 o.paired (Lf i) (-1) (Lf (i + N)) (-1),
      set2 o.prop (Lf i) 0 (Lf (i + N)) 0⟩, ?_, ?_⟩
    · simp only [finishStep, rd_ok hp0, rd_ok' hp1, rd_ok hr, hrv, bind, Except.bind, pure, Except.pure]
      simp [set2, wr_ok, fi.ssize, fi.psize, fi.qsize, hl0, hl1]
    · refine ⟨by rw [set2_size, fi.ssize], by rw [set2_size, fi.psize], by rw [set2_size, fi.qsize], ?_⟩
      intro j hj
      by_cases hji : j = i
      · subst hji
        constructor <;>
          simp [set2_get, fi.ssize, fi.psize, fi.qsize, hl0, hl1, hrem, hne]
      · have hw := fi.wr j (by omega)
        obtain ⟨a1, a2, a3, a4⟩ := hother j (by omega)
        constructor <;>
          simp only [set2_get, fi.ssize, fi.psize, fi.qsize, hl0, hl1, a1, a2, a3, a4, if_false]
        · exact hw.s0
        · exact hw.s1
        · exact hw.p0
        · exact hw.p1
        · exact hw.q0
        · exact hw.q1
  · have hrv : s.removed.getD (Lf i) false = false := by
      cases hb : s.removed.getD (Lf i) false
      · rfl
      · exact absurd ((removed_iff c inv hi).1 hb) hrem
    refine ⟨⟨set2 o.start (Lf i) ((Ef (Lf i)).1 : Int) (Lf (i + N)) ((Ef (Lf (i + N))).1 : Int),
      set2 o.paired (Lf i) (Lf (i + N) : Int) (Lf (i + N)) (Lf i : Int),
      set2 o.prop (Lf i) ((Ef (Lf i)).1 : Int) (Lf (i + N)) ((Ef (Lf (i + N))).1 : Int)⟩, ?_, ?_⟩
    · simp only [finishStep, rd_ok hp0, rd_ok' hp1, rd_ok hr, hrv, rd_ok hh0, rd_ok hh1, bind,
        Except.bind, pure, Except.pure]
      simp [set2, wr_ok, fi.ssize, fi.psize, fi.qsize, hl0, hl1]
    · refine ⟨by rw [set2_size, fi.ssize], by rw [set2_size, fi.psize], by rw [set2_size, fi.qsize], ?_⟩
      intro j hj
      by_cases hji : j = i
      · subst hji
        constructor <;>
          simp [set2_get, fi.ssize, fi.psize, fi.qsize, hl0, hl1, hrem, hne]
      · have hw := fi.wr j (by omega)
        obtain ⟨a1, a2, a3, a4⟩ := hother j (by omega)
        constructor <;>
          simp only [set2_get, fi.ssize, fi.psize, fi.qsize, hl0, hl1, a1, a2, a3, a4, if_false]
        · exact hw.s0
        · exact hw.s1
        · exact hw.p0
        · exact hw.p1
        · exact hw.q0
        · exact hw.q1

theorem finish_eval (c : Ctx n N Ef Lf he ids) {s : St} (inv : Inv n N Ef Lf ids N s) :
    ∀ (m i : Nat) (o : Out), i + m = N → FInv n N Ef Lf i o →
      ∃ o', finish he N s m i o = .ok o' ∧ FInv n N Ef Lf N o'
  | 0, i, o, h, fi => by
    have : i = N := by omega
    subst this; exact ⟨o, rfl, fi⟩
  | m + 1, i, o, h, fi => by
    obtain ⟨o', ho', fi'⟩ := finishStep_eval c inv (show i < N by omega) fi
    obtain ⟨o'', ho'', fi''⟩ := finish_eval c inv m (i + 1) o' (by omega) fi'
    refine ⟨o'', ?_, fi''⟩
    rw [finish]; simp only [ho', bind, Except.bind]; exact ho''

/-! ### consequences for the output arrays -/

/-- halfedge `e` belongs to a pair marked for removal -/
def Rm (N : Nat) (Ef : Nat → Nat × Nat) (Lf : Nat → Nat) (e : Nat) : Prop :=
  ∃ j, j < N ∧ Rem N Ef Lf j ∧ (e = Lf j ∨ e = Lf (j + N))

theorem view (c : Ctx n N Ef Lf he ids) {o : Out} (fi : FInv n N Ef Lf N o) {e : Nat} (he' : e < n) :
    ∃ p, p < n ∧ Ef p = ((Ef e).2, (Ef e).1) ∧ (Rm N Ef Lf e ↔ Rm N Ef Lf p) ∧
      (third Ef e = third Ef p → Rm N Ef Lf e) ∧
      (Rm N Ef Lf e → third Ef e = third Ef p ∧ o.start[e]? = some (-1) ∧ o.paired[e]? = some (-1)) ∧
      (¬ Rm N Ef Lf e → o.start[e]? = some ((Ef e).1 : Int) ∧ o.paired[e]? = some (p : Int) ∧
        o.paired[p]? = some (e : Int)) ∧
      (Rm N Ef Lf e → o.prop[e]? = some 0) ∧
      (¬ Rm N Ef Lf e → o.prop[e]? = some ((Ef e).1 : Int)) := by
  have hn := c.n2
  obtain ⟨i, hi, rfl⟩ := c.L_surj e he'
  have key : ∀ j, j < N → ∀ x, (x = Lf j ∨ x = Lf (j + N)) → (Rm N Ef Lf x ↔ Rem N Ef Lf j) := by
    intro j hj x hx
    constructor
    · rintro ⟨j', hj', hr, h⟩
      have : j' = j := by
        rcases hx with rfl | rfl <;> rcases h with h | h
        · exact (c.L_inj _ _ (by omega) (by omega) h).symm
        · have := c.L_inj _ _ (by omega) (by omega) h; omega
        · have := c.L_inj _ _ (by omega) (by omega) h; omega
        · have := c.L_inj _ _ (by omega) (by omega) h; omega
      subst this; exact hr
    · intro hr; exact ⟨j, hj, hr, hx⟩
  by_cases hiN : i < N
  · have hw := fi.wr i hiN
    have k1 := key i hiN (Lf i) (.inl rfl)
    have k2 := key i hiN (Lf (i + N)) (.inr rfl)
    refine ⟨Lf (i + N), c.L_lt _ (by omega), c.opp i hiN, k1.trans k2.symm, fun h => k1.2 h, ?_, ?_, ?_, ?_⟩
    · intro h; have hr := k1.1 h
      refine ⟨hr, ?_, ?_⟩
      · rw [hw.s0, if_pos hr]
      · rw [hw.p0, if_pos hr]
    · intro h; have hr : ¬ Rem N Ef Lf i := fun h' => h (k1.2 h')
      refine ⟨?_, ?_, ?_⟩
      · rw [hw.s0, if_neg hr]
      · rw [hw.p0, if_neg hr]
      · rw [hw.p1, if_neg hr]
    · intro h; rw [hw.q0, if_pos (k1.1 h)]
    · intro h; rw [hw.q0, if_neg (fun h' => h (k1.2 h'))]
  · have hj : i - N < N := by omega
    have e1 : i - N + N = i := by omega
    have hw := fi.wr (i - N) hj
    have k1 := key (i - N) hj (Lf i) (.inr (by rw [e1]))
    have k2 := key (i - N) hj (Lf (i - N)) (.inl rfl)
    have hopp := c.opp (i - N) hj
    rw [e1] at hopp
    refine ⟨Lf (i - N), c.L_lt _ (by omega), ?_, k1.trans k2.symm, ?_, ?_, ?_, ?_, ?_⟩
    · rw [hopp]
    · intro h; apply k1.2
      show third Ef (Lf (i - N)) = third Ef (Lf (i - N + N))
      rw [e1]; exact h.symm
    · intro h; have hr := k1.1 h
      refine ⟨?_, ?_, ?_⟩
      · have : third Ef (Lf (i - N)) = third Ef (Lf (i - N + N)) := hr
        rw [e1] at this; exact this.symm
      · have := hw.s1; rw [e1, if_pos hr] at this; exact this
      · have := hw.p1; rw [e1, if_pos hr] at this; exact this
    · intro h; have hr : ¬ Rem N Ef Lf (i - N) := fun h' => h (k1.2 h')
      refine ⟨?_, ?_, ?_⟩
      · have := hw.s1; rw [e1, if_neg hr] at this; exact this
      · have := hw.p1; rw [e1, if_neg hr] at this; exact this
      · have := hw.p0; rw [e1, if_neg hr] at this; exact this
    · intro h; have := hw.q1; rw [e1, if_pos (k1.1 h)] at this; exact this
    · intro h; have := hw.q1; rw [e1, if_neg (fun h' => h (k1.2 h'))] at this; exact this

/-- removal is by whole triangles -/
theorem rm_next (c : Ctx n N Ef Lf he ids) {o : Out} (fi : FInv n N Ef Lf N o) {e : Nat}
    (he' : e < n) (h : Rm N Ef Lf e) : Rm N Ef Lf (nextHalfedge e) := by
  have h3 := c.n3
  obtain ⟨p, hp, hEp, _, _, hrm, _, _, _⟩ := view c fi he'
  obtain ⟨hthird, _, _⟩ := hrm h
  have hx := next_lt h3 he'
  have hxx := next_lt h3 hx
  have hq := next_lt h3 hp
  have hqq := next_lt h3 hq
  obtain ⟨p', hp', hEp', _, _, _, _, _, _⟩ := view c fi hx
  -- the partner of `next e` is `next (next p)`
  have e1 := c.E_next e he'
  have e2 := c.E_next _ hx
  have e3 := c.E_next _ hxx
  rw [next_next_next] at e3
  have f1 := c.E_next p hp
  have f2 := c.E_next _ hq
  have f3 := c.E_next _ hqq
  rw [next_next_next] at f3
  unfold third at hthird
  have hpp : p' = nextHalfedge (nextHalfedge p) := by
    apply c.E_inj _ _ hp' hqq
    rw [hEp']
    apply Prod.ext
    · show (Ef (nextHalfedge e)).2 = (Ef (nextHalfedge (nextHalfedge p))).1
      rw [f2, hthird]
    · show (Ef (nextHalfedge e)).1 = (Ef (nextHalfedge (nextHalfedge p))).2
      rw [← f3, hEp, e1]
  -- so pair of `next e` has equal third vertices
  have hth : third Ef (nextHalfedge e) = third Ef p' := by
    unfold third
    rw [hpp, next_next_next, ← e3, hEp]
  obtain ⟨i, hi, hLi⟩ := c.L_surj _ hx
  have hn := c.n2
  by_cases hiN : i < N
  · have hopp := c.opp i hiN
    have : Lf (i + N) = p' := by
      apply c.E_inj _ _ (c.L_lt _ (by omega)) hp'
      rw [hopp, hEp', hLi]
    refine ⟨i, hiN, ?_, .inl hLi.symm⟩
    show third Ef (Lf i) = third Ef (Lf (i + N))
    rw [this, hLi]; exact hth
  · have hj : i - N < N := by omega
    have e1' : i - N + N = i := by omega
    have hopp := c.opp (i - N) hj
    rw [e1', hLi] at hopp
    have : Lf (i - N) = p' := by
      apply c.E_inj _ _ (c.L_lt _ (by omega)) hp'
      rw [hEp', hopp]
    refine ⟨i - N, hj, ?_, .inr (by rw [e1']; exact hLi.symm)⟩
    show third Ef (Lf (i - N)) = third Ef (Lf (i - N + N))
    rw [this, e1', hLi]; exact hth.symm

theorem rm_next_iff (c : Ctx n N Ef Lf he ids) {o : Out} (fi : FInv n N Ef Lf N o) {e : Nat}
    (he' : e < n) : Rm N Ef Lf (nextHalfedge e) ↔ Rm N Ef Lf e := by
  have h3 := c.n3
  constructor
  · intro h
    have h1 := rm_next c fi (next_lt h3 he') h
    have h2 := rm_next c fi (next_lt h3 (next_lt h3 he')) h1
    rwa [next_next_next] at h2
  · exact rm_next c fi he'

theorem get!_of {x : Array Int} {e : Nat} {v : Int} (h : x[e]? = some v) : x[e]! = v := by
  simp [getElem!_def, h]

theorem start_spec (c : Ctx n N Ef Lf he ids) {o : Out} (fi : FInv n N Ef Lf N o) {e : Nat}
    (he' : e < n) :
    (Rm N Ef Lf e → o.start[e]! = -1) ∧ (¬ Rm N Ef Lf e → o.start[e]! = ((Ef e).1 : Int)) := by
  obtain ⟨p, _, _, _, _, h1, h2, _, _⟩ := view c fi he'
  exact ⟨fun h => get!_of (h1 h).2.1, fun h => get!_of (h2 h).1⟩

theorem prop_spec (c : Ctx n N Ef Lf he ids) {o : Out} (fi : FInv n N Ef Lf N o) {e : Nat}
    (he' : e < n) :
    (Rm N Ef Lf e → o.prop[e]! = 0) ∧ (¬ Rm N Ef Lf e → o.prop[e]! = ((Ef e).1 : Int)) := by
  obtain ⟨p, _, _, _, _, _, _, h1, h2⟩ := view c fi he'
  exact ⟨fun h => get!_of (h1 h), fun h => get!_of (h2 h)⟩

/-- a halfedge is removed iff the halfedge carrying the reversed edge lies in the opposed
triangle (same third vertex) -/
theorem rm_iff (c : Ctx n N Ef Lf he ids) {o : Out} (fi : FInv n N Ef Lf N o) {e : Nat}
    (he' : e < n) :
    Rm N Ef Lf e ↔ ∃ e', e' < n ∧ Ef e' = ((Ef e).2, (Ef e).1) ∧ third Ef e' = third Ef e := by
  obtain ⟨p, hp, hEp, _, h1, h2, _, _, _⟩ := view c fi he'
  constructor
  · intro h; exact ⟨p, hp, hEp, (h2 h).1.symm⟩
  · rintro ⟨e', he'', hE, hth⟩
    have : e' = p := c.E_inj _ _ he'' hp (by rw [hE, hEp])
    subst this
    exact h1 hth.symm

theorem tomb_iff (c : Ctx n N Ef Lf he ids) {o : Out} (fi : FInv n N Ef Lf N o) {e : Nat}
    (he' : e < n) : Tomb o.start o.paired e ↔ Rm N Ef Lf e := by
  constructor
  · intro h
    by_cases hr : Rm N Ef Lf e
    · exact hr
    · have := (start_spec c fi he').2 hr
      rw [h.1] at this; omega
  · intro h
    obtain ⟨p, _, _, _, _, h1, _, _, _⟩ := view c fi he'
    refine ⟨(start_spec c fi he').1 h, ?_, get!_of (h1 h).2.2⟩
    exact (start_spec c fi (next_lt c.n3 he')).1 (rm_next c fi he' h)

theorem pairInv_of (c : Ctx n N Ef Lf he ids) {o : Out} (fi : FInv n N Ef Lf N o) :
    PairInv o.start o.paired := by
  refine ⟨by rw [fi.ssize, fi.psize], by rw [fi.ssize]; exact c.n3, ?_⟩
  intro e he'
  rw [fi.ssize] at he'
  have h3 := c.n3
  by_cases hr : Rm N Ef Lf e
  · exact .inl ((tomb_iff c fi he').2 hr)
  · right
    have hx := next_lt h3 he'
    have hxx := next_lt h3 hx
    have hr1 : ¬ Rm N Ef Lf (nextHalfedge e) := fun h => hr ((rm_next_iff c fi he').1 h)
    have hr2 : ¬ Rm N Ef Lf (nextHalfedge (nextHalfedge e)) :=
      fun h => hr1 ((rm_next_iff c fi hx).1 h)
    obtain ⟨p, hp, hEp, hiff, _, _, h2, _, _⟩ := view c fi he'
    obtain ⟨hs, hpe, hpp⟩ := h2 hr
    have hrp : ¬ Rm N Ef Lf p := fun h => hr (hiff.2 h)
    have hrp1 : ¬ Rm N Ef Lf (nextHalfedge p) := fun h => hrp ((rm_next_iff c fi hp).1 h)
    have s0 := (start_spec c fi he').2 hr
    have s1 := (start_spec c fi hx).2 hr1
    have s2 := (start_spec c fi hxx).2 hr2
    have sp := (start_spec c fi hp).2 hrp
    have sp1 := (start_spec c fi (next_lt h3 hp)).2 hrp1
    have hpe' := get!_of hpe
    have hpp' := get!_of hpp
    have e1 := c.E_next e he'
    have f1 := c.E_next p hp
    have hne := c.E_ne e he'
    rw [hpe']
    simp only [Int.toNat_natCast]
    unfold endOf
    rw [s0, s1, s2, sp, sp1, hpp', e1, f1, hEp, fi.ssize]
    refine ⟨by omega, by omega, by omega, hp, rfl, ?_, rfl, rfl⟩
    intro h; exact hne (by omega)

theorem noDupEdge_of (c : Ctx n N Ef Lf he ids) {o : Out} (fi : FInv n N Ef Lf N o) :
    NoDupEdge o.start o.paired := by
  intro e1 h1 e2 h2 hne htomb
  rw [fi.ssize] at h1 h2
  have h3 := c.n3
  have hr1 : ¬ Rm N Ef Lf e1 := fun h => htomb ((tomb_iff c fi h1).2 h)
  have hr1' : ¬ Rm N Ef Lf (nextHalfedge e1) := fun h => hr1 ((rm_next_iff c fi h1).1 h)
  have s1 := (start_spec c fi h1).2 hr1
  have s1' := (start_spec c fi (next_lt h3 h1)).2 hr1'
  rintro ⟨ha, hb⟩
  unfold endOf at hb
  rw [s1] at ha
  rw [s1'] at hb
  by_cases hr2 : Rm N Ef Lf e2
  · have := (start_spec c fi h2).1 hr2
    rw [this] at ha; omega
  · have hr2' : ¬ Rm N Ef Lf (nextHalfedge e2) := fun h => hr2 ((rm_next_iff c fi h2).1 h)
    rw [(start_spec c fi h2).2 hr2] at ha
    rw [(start_spec c fi (next_lt h3 h2)).2 hr2'] at hb
    have e1' := c.E_next e1 h1
    have e2' := c.E_next e2 h2
    apply hne
    apply c.E_inj _ _ h1 h2
    apply Prod.ext
    · omega
    · omega

end loop


/-! ## assembling the context from a concrete closed oriented triangle list -/

theorem prep_toList (ts : List Tri) :
    (prep ts).toList = (dirEdges ts).map (fun e => (⟨e.1, e.2, e.1⟩ : CH)) := by
  simp only [prep, dirEdges, List.map_flatMap]
  rfl

theorem dirEdges_cons (t : Tri) (ts : List Tri) :
    dirEdges (t :: ts) = (t.1, t.2.1) :: (t.2.1, t.2.2) :: (t.2.2, t.1) :: dirEdges ts := rfl

theorem next_add3 (e : Nat) : nextHalfedge (e + 3) = nextHalfedge e + 3 := by
  unfold nextHalfedge
  have : (e + 3) % 3 = e % 3 := by omega
  rw [this]; split <;> omega

theorem dirEdges_next (d : Nat × Nat) : ∀ (ts : List Tri) (e : Nat), e < 3 * ts.length →
    ((dirEdges ts).getD (nextHalfedge e) d).1 = ((dirEdges ts).getD e d).2
  | [], e, h => by simp at h
  | t :: ts, 0, _ => by simp [dirEdges_cons, nextHalfedge]
  | t :: ts, 1, _ => by simp [dirEdges_cons, nextHalfedge]
  | t :: ts, 2, _ => by simp [dirEdges_cons, nextHalfedge]
  | t :: ts, e + 3, h => by
    rw [next_add3, dirEdges_cons]
    simp only [List.getD_cons_succ]
    exact dirEdges_next d ts e (by simp at h; omega)

/-- The context holds for `he = prep ts`, `ids = sortIds he` when `ts` is closed, oriented,
and its indices fit in a C++ `int`. -/
theorem ctx_of (ts : List Tri) (hco : ClosedOriented ts) (hr : ∀ t ∈ ts, TriInRange (2 ^ 31) t) :
    Ctx (3 * ts.length) (3 * ts.length / 2) (fun e => (dirEdges ts).getD e (0, 0))
      (fun i => (sortIds (prep ts)).getD i 0) (prep ts) (sortIds (prep ts)) := by
  obtain ⟨hnd, hno, hm⟩ := (closedOriented_iff_edges ts).1 hco
  have hlen := length_dirEdges ts
  have hlt : ∀ e ∈ dirEdges ts, e.1 < 2 ^ 31 ∧ e.2 < 2 ^ 31 := fun e he => edges_inRange hr he
  have hsize : (prep ts).size = (dirEdges ts).length := by
    rw [← Array.length_toList, prep_toList, length_map]
  have hget : ∀ e, (h : e < (dirEdges ts).length) →
      (prep ts)[e]? = some ⟨(dirEdges ts)[e].1, (dirEdges ts)[e].2, (dirEdges ts)[e].1⟩ := by
    intro e h
    rw [← Array.getElem?_toList, prep_toList]
    simp [h]
  -- the key function of `sortIds`
  let kf : Nat → Nat := fun a =>
    ((prep ts).map fun h => edgeKey h.startVert h.endVert).getD a 0
  have hkf : ∀ a, (h : a < (dirEdges ts).length) →
      kf a = edgeKey (dirEdges ts)[a].1 (dirEdges ts)[a].2 := by
    intro a h
    show ((prep ts).map fun h => edgeKey h.startVert h.endVert).getD a 0 = _
    simp [Array.getD_eq_getD_getElem?, hget a h]
  have hL : (sortIds (prep ts)).toList =
      (range (dirEdges ts).length).mergeSort (fun a b => decide (kf a ≤ kf b)) := by
    simp only [sortIds, hsize]; rfl
  obtain ⟨h2, hperm, hopp⟩ := sort_spec (dirEdges ts) hlt hnd hno hm kf hkf _ hL
  have hLlen : (sortIds (prep ts)).size = (dirEdges ts).length := by
    rw [← Array.length_toList, hperm.length_eq, length_range]
  have hLget : ∀ i, (sortIds (prep ts)).getD i 0 = (sortIds (prep ts)).toList.getD i 0 := by
    intro i; simp [Array.getD_eq_getD_getElem?, List.getD_eq_getElem?_getD]
  have hLno : (sortIds (prep ts)).toList.Nodup := hperm.nodup_iff.2 nodup_range
  have hgetD : ∀ e, (h : e < (dirEdges ts).length) → (dirEdges ts).getD e (0, 0) = (dirEdges ts)[e] := by
    intro e h; simp [List.getD_eq_getElem?_getD, h]
  rw [← hlen]
  refine
    { n2 := h2, n3 := by rw [hlen]; omega, he_get := ?_, ids_size := hLlen, ids_get := ?_,
      L_lt := ?_, L_inj := ?_, L_surj := ?_, opp := ?_, E_inj := ?_, E_ne := ?_, E_next := ?_ }
  · intro e he'; simp only [hgetD e he']; exact hget e he'
  · intro i hi
    exact getElem?_eq_some_getD 0 (by rw [hLlen]; exact hi)
  · intro i hi
    simp only [hLget]
    have : i < (sortIds (prep ts)).toList.length := by rw [Array.length_toList, hLlen]; exact hi
    have hm := getElem_mem this
    rw [List.getD_eq_getElem?_getD, getElem?_eq_getElem this, Option.getD_some]
    exact mem_range.1 (hperm.mem_iff.1 hm)
  · intro i j hi hj h
    simp only [hLget] at h
    exact (List.getD_inj (by rw [Array.length_toList, hLlen]; exact hi)
      (by rw [Array.length_toList, hLlen]; exact hj) hLno).1 h
  · intro e he'
    have : e ∈ (sortIds (prep ts)).toList := hperm.mem_iff.2 (mem_range.2 he')
    obtain ⟨i, hi, hie⟩ := getElem_of_mem this
    refine ⟨i, by rw [Array.length_toList, hLlen] at hi; exact hi, ?_⟩
    simp only [hLget, List.getD_eq_getElem?_getD, getElem?_eq_getElem hi, Option.getD_some, hie]
  · intro i hi
    obtain ⟨h1, h2', _, h4⟩ := hopp i hi
    simp only [hLget]
    rw [hgetD _ h1, hgetD _ h2']
    exact h4
  · intro e e' he1 he2 h
    rw [hgetD e he1, hgetD e' he2] at h
    exact (List.getElem_inj hno).1 h
  · intro e he'
    rw [hgetD e he']
    exact hnd _ (getElem_mem he')
  · intro e he'
    exact dirEdges_next (0, 0) ts e (by rw [← hlen]; exact he')


/-! ## the duplicate-free case, concretely -/

/-- directed edge of halfedge `e` -/
def edgeAt (ts : List Tri) (e : Nat) : Nat × Nat := (dirEdges ts).getD e (0, 0)

/-- the vertex of the triangle of halfedge `e` that is not on `e` -/
def thirdAt (ts : List Tri) (e : Nat) : Nat := (edgeAt ts (nextHalfedge e)).2

/-- halfedge `e` has a partner halfedge carrying the reversed edge inside a triangle with the
same third vertex, i.e. the triangle of `e` is glued to an opposed copy of itself -/
def OpposedAt (ts : List Tri) (e : Nat) : Prop :=
  ∃ e', e' < 3 * ts.length ∧ edgeAt ts e' = ((edgeAt ts e).2, (edgeAt ts e).1) ∧
    thirdAt ts e' = thirdAt ts e

instance (ts : List Tri) (e : Nat) : Decidable (OpposedAt ts e) := by
  unfold OpposedAt; infer_instance

/-- the facts proved about the output in the duplicate-free case -/
structure NodupResult (ts : List Tri) (o : Out) : Prop where
  ssize : o.start.size = 3 * ts.length
  psize : o.paired.size = 3 * ts.length
  qsize : o.prop.size = 3 * ts.length
  pairInv : PairInv o.start o.paired
  noDup : NoDupEdge o.start o.paired
  tomb_iff : ∀ e, e < 3 * ts.length → (Tomb o.start o.paired e ↔ OpposedAt ts e)
  tomb_next : ∀ e, e < 3 * ts.length →
    (Tomb o.start o.paired (nextHalfedge e) ↔ Tomb o.start o.paired e)
  tomb_prop : ∀ e, e < 3 * ts.length → Tomb o.start o.paired e → o.prop[e]! = 0
  alive : ∀ e, e < 3 * ts.length → ¬ Tomb o.start o.paired e →
    o.start[e]! = ((edgeAt ts e).1 : Int) ∧ o.prop[e]! = ((edgeAt ts e).1 : Int)

theorem createHalfedges_nodup (ts : List Tri) (hco : ClosedOriented ts)
    (hr : ∀ t ∈ ts, TriInRange (2 ^ 31) t) :
    ∃ s o, removalState ts = .ok s ∧ s.ids = sortIds (prep ts) ∧
      createHalfedges ts = .ok o ∧ NodupResult ts o := by
  have c := ctx_of ts hco hr
  have hsz : (prep ts).size = 3 * ts.length := by
    rw [← Array.length_toList, prep_toList, length_map, length_dirEdges]
  have hN : 3 * ts.length / 2 + 0 = 3 * ts.length / 2 := rfl
  have inv0 : Inv (3 * ts.length) (3 * ts.length / 2) (fun e => (dirEdges ts).getD e (0, 0))
      (fun i => (sortIds (prep ts)).getD i 0) (sortIds (prep ts)) 0
      ⟨sortIds (prep ts), Array.replicate (3 * ts.length) false⟩ := by
    refine ⟨rfl, by simp, ?_⟩
    intro e he'
    simp [Array.getD_eq_getD_getElem?, he']
  obtain ⟨s, hs, inv⟩ := serialLoop_eval c (3 * ts.length / 2) 0 _ (by omega) inv0
  have hrs : removalState ts = .ok s := by
    unfold removalState; simp only [hsz]; exact hs
  have fi0 : FInv (3 * ts.length) (3 * ts.length / 2) (fun e => (dirEdges ts).getD e (0, 0))
      (fun i => (sortIds (prep ts)).getD i 0) 0
      ⟨Array.replicate (3 * ts.length) 0, Array.replicate (3 * ts.length) 0,
        Array.replicate (3 * ts.length) 0⟩ :=
    ⟨by simp, by simp, by simp, fun j hj => by omega⟩
  obtain ⟨o, ho, fi⟩ := finish_eval c inv (3 * ts.length / 2) 0 _ (by omega) fi0
  have hch : createHalfedges ts = .ok o := by
    unfold createHalfedges
    simp only [hrs, hsz, bind, Except.bind]
    exact ho
  refine ⟨s, o, hrs, inv.ids_eq, hch, ?_⟩
  have htomb : ∀ e, e < 3 * ts.length → (Tomb o.start o.paired e ↔ OpposedAt ts e) := by
    intro e he'
    rw [tomb_iff c fi he', rm_iff c fi he']
    rfl
  refine
    { ssize := fi.ssize, psize := fi.psize, qsize := fi.qsize, pairInv := pairInv_of c fi,
      noDup := noDupEdge_of c fi, tomb_iff := htomb, tomb_next := ?_, tomb_prop := ?_, alive := ?_ }
  · intro e he'
    rw [tomb_iff c fi he', tomb_iff c fi (next_lt c.n3 he')]
    exact rm_next_iff c fi he'
  · intro e he' h
    exact (prop_spec c fi he').1 ((tomb_iff c fi he').1 h)
  · intro e he' h
    have hr' : ¬ Rm _ _ _ e := fun h' => h ((tomb_iff c fi he').2 h')
    exact ⟨(start_spec c fi he').2 hr', (prop_spec c fi he').2 hr'⟩

/-! ### no opposed triangles: nothing is removed -/

/-- no two triangles of the list are the same vertex triple with opposite orientation -/
def NoOpposed (ts : List Tri) : Prop :=
  ∀ t ∈ ts, ∀ t' ∈ ts, ¬ RotEq (t.2.1, t.1, t.2.2) t'

instance (ts : List Tri) : Decidable (NoOpposed ts) := by unfold NoOpposed; infer_instance

theorem tri_of_halfedge (d : Nat × Nat) : ∀ (ts : List Tri) (e : Nat), e < 3 * ts.length →
    ∃ t ∈ ts, RotEq t (((dirEdges ts).getD e d).1, ((dirEdges ts).getD e d).2,
      ((dirEdges ts).getD (nextHalfedge e) d).2)
  | [], e, h => by simp at h
  | t :: ts, 0, _ => ⟨t, mem_cons_self, .inl (by simp [dirEdges_cons, nextHalfedge])⟩
  | t :: ts, 1, _ => ⟨t, mem_cons_self, .inr (.inl (by simp [dirEdges_cons, nextHalfedge, rotTri]))⟩
  | t :: ts, 2, _ => ⟨t, mem_cons_self, .inr (.inr (by simp [dirEdges_cons, nextHalfedge, rotTri]))⟩
  | t :: ts, e + 3, h => by
    obtain ⟨t', ht', hrot⟩ := tri_of_halfedge d ts e (by simp at h; omega)
    refine ⟨t', mem_cons_of_mem _ ht', ?_⟩
    rw [next_add3, dirEdges_cons]
    simp only [List.getD_cons_succ]
    exact hrot

theorem rotEq_flip {t t' : Tri} {a b c : Nat} (h : RotEq t (a, b, c)) (h' : RotEq t' (b, a, c)) :
    RotEq (t.2.1, t.1, t.2.2) t' := by
  obtain ⟨x, y, z⟩ := t
  obtain ⟨p, q, r⟩ := t'
  unfold RotEq rotTri at *
  simp only [Prod.mk.injEq] at *
  omega

theorem noOpposed_not_opposedAt {ts : List Tri} (h : NoOpposed ts) {e : Nat}
    (he' : e < 3 * ts.length) : ¬ OpposedAt ts e := by
  rintro ⟨e', he'', hE, hth⟩
  obtain ⟨t, ht, hrot⟩ := tri_of_halfedge (0, 0) ts e he'
  obtain ⟨t', ht', hrot'⟩ := tri_of_halfedge (0, 0) ts e' he''
  simp only [edgeAt, thirdAt] at hE hth
  rw [hE, hth] at hrot'
  exact h t ht t' ht' (rotEq_flip hrot hrot')

theorem dirEdges_getD3 (d : Nat × Nat) : ∀ (ts : List Tri) (τ : Nat) (h : τ < ts.length),
    (dirEdges ts).getD (3 * τ) d = (ts[τ].1, ts[τ].2.1) ∧
    (dirEdges ts).getD (3 * τ + 1) d = (ts[τ].2.1, ts[τ].2.2) ∧
    (dirEdges ts).getD (3 * τ + 2) d = (ts[τ].2.2, ts[τ].1)
  | t :: ts, 0, _ => by simp [dirEdges_cons]
  | t :: ts, τ + 1, h => by
    have := dirEdges_getD3 d ts τ (by simpa using h)
    have e1 : 3 * (τ + 1) = 3 * τ + 3 := by omega
    have e2 : 3 * (τ + 1) + 1 = 3 * τ + 1 + 3 := by omega
    have e3 : 3 * (τ + 1) + 2 = 3 * τ + 2 + 3 := by omega
    rw [e3, e2, e1, dirEdges_cons]
    simpa only [List.getD_cons_succ, getElem_cons_succ] using this

theorem filterMap_congr' {α β : Type} {f g : α → Option β} : ∀ {l : List α},
    (∀ a ∈ l, f a = g a) → l.filterMap f = l.filterMap g
  | [], _ => rfl
  | a :: l, h => by
    have ih := filterMap_congr' (l := l) (fun x hx => h x (mem_cons_of_mem _ hx))
    simp only [filterMap_cons, h a mem_cons_self, ih]

theorem readBack_eq (ts : List Tri) (start : Array Int) (hsz : start.size = 3 * ts.length)
    (h : ∀ e, e < 3 * ts.length → start[e]! = ((edgeAt ts e).1 : Int)) : readBack start = ts := by
  unfold readBack
  have hlen : start.size / 3 = ts.length := by omega
  rw [hlen]
  apply List.ext_getElem?
  intro τ
  by_cases hτ : τ < ts.length
  · have h3 := dirEdges_getD3 (0, 0) ts τ hτ
    have hf : ∀ t, t ∈ range ts.length →
        (fun t => if start[3 * t]! < 0 ∨ start[3 * t + 1]! < 0 ∨ start[3 * t + 2]! < 0 then none
          else some ((start[3 * t]!).toNat, (start[3 * t + 1]!).toNat, (start[3 * t + 2]!).toNat)) t
        = (fun t => some ((edgeAt ts (3 * t)).1, (edgeAt ts (3 * t + 1)).1, (edgeAt ts (3 * t + 2)).1)) t := by
      intro t ht
      have ht' := mem_range.1 ht
      simp only [h (3 * t) (by omega), h (3 * t + 1) (by omega), h (3 * t + 2) (by omega),
        Int.toNat_natCast]
      rw [if_neg (by omega)]
    show (filterMap (fun t => if start[3 * t]! < 0 ∨ start[3 * t + 1]! < 0 ∨ start[3 * t + 2]! < 0 then none
          else some ((start[3 * t]!).toNat, (start[3 * t + 1]!).toNat, (start[3 * t + 2]!).toNat))
        (range ts.length))[τ]? = _
    rw [filterMap_congr' hf, List.filterMap_eq_map', getElem?_map, getElem?_range hτ,
      getElem?_eq_getElem hτ]
    simp only [Option.map_some, edgeAt, h3.1, h3.2.1, h3.2.2]
  · have h1 : ts[τ]? = none := by simp; omega
    rw [h1, getElem?_eq_none]
    have := List.length_filterMap_le (fun t =>
      if start[3 * t]! < 0 ∨ start[3 * t + 1]! < 0 ∨ start[3 * t + 2]! < 0 then none
      else some ((start[3 * t]!).toNat, (start[3 * t + 1]!).toNat, (start[3 * t + 2]!).toNat))
      (range ts.length)
    rw [length_range] at this
    exact Nat.le_trans this (by omega)


/-! ## uniqueness of the stable sort (to evaluate `sortIds` on concrete meshes inside the kernel:
`List.mergeSort` is defined by well-founded recursion and does not reduce) -/

theorem pair_sublist_range : ∀ (n y x : Nat), y < x → x < n → [y, x] <+ range n
  | 0, _, _, _, h => by omega
  | n + 1, y, x, hyx, hx => by
    rw [range_succ]
    by_cases hxn : x = n
    · subst hxn
      have : [y] <+ range x := singleton_sublist.2 (mem_range.2 hyx)
      exact this.append (Sublist.refl [x])
    · exact (pair_sublist_range n y x hyx (by omega)).trans (sublist_append_left _ _)

theorem no_both_orders {α : Type} : ∀ {l : List α} {a b : α}, l.Nodup → a ≠ b → [a, b] <+ l → [b, a] <+ l → False
  | [], _, _, _, _, h, _ => by simp at h
  | c :: l, a, b, hn, hab, h1, h2 => by
    rw [nodup_cons] at hn
    rcases sublist_cons_iff.1 h1 with h1 | ⟨r, hr, h1⟩
    · rcases sublist_cons_iff.1 h2 with h2 | ⟨r', hr', h2⟩
      · exact no_both_orders hn.2 hab h1 h2
      · cases hr'
        exact hn.1 (h1.subset (by simp))
    · cases hr
      rcases sublist_cons_iff.1 h2 with h2 | ⟨r', hr', h2⟩
      · exact hn.1 (h2.subset (by simp))
      · cases hr'; exact hab rfl

/-- uniqueness of the stable sort of `range n` by a key -/
theorem mergeSort_range_eq (n : Nat) (kf : Nat → Nat) (r : List Nat) (hperm : r ~ range n)
    (hs : r.Pairwise (fun a b => kf a < kf b ∨ (kf a = kf b ∧ a ≤ b))) :
    (range n).mergeSort (fun a b => decide (kf a ≤ kf b)) = r := by
  have tr : ∀ (a b c : Nat), decide (kf a ≤ kf b) = true → decide (kf b ≤ kf c) = true →
      decide (kf a ≤ kf c) = true := by intro a b c; simp; omega
  have tot : ∀ (a b : Nat), (decide (kf a ≤ kf b) || decide (kf b ≤ kf a)) = true := by
    intro a b; simp; omega
  have hm := mergeSort_perm (range n) (fun a b => decide (kf a ≤ kf b))
  have hp := pairwise_mergeSort tr tot (range n)
  have hno : ((range n).mergeSort (fun a b => decide (kf a ≤ kf b))).Nodup :=
    hm.nodup_iff.2 nodup_range
  apply Perm.eq_of_pairwise (le := fun a b => kf a < kf b ∨ (kf a = kf b ∧ a ≤ b))
  · intro a b _ _ h1 h2
    rcases h1 with h1 | h1 <;> rcases h2 with h2 | h2 <;> omega
  · rw [pairwise_iff_forall_sublist]
    intro x y hxy
    have h1 : kf x ≤ kf y := by
      have := (pairwise_iff_forall_sublist.1 hp) hxy; simpa using this
    by_cases hlt : kf x < kf y
    · exact .inl hlt
    · refine .inr ⟨by omega, ?_⟩
      by_cases hle : x ≤ y
      · exact hle
      · exfalso
        have hx : x < n := mem_range.1 (hm.mem_iff.1 (hxy.subset (by simp)))
        have hs := pair_sublist_range n y x (by omega) hx
        have := pair_sublist_mergeSort tr tot (by simp; omega) hs
        exact no_both_orders hno (by omega) hxy this
  · exact hs
  · exact hm.trans hperm.symm

theorem sortIds_eq (he : Array CH) (r : List Nat) (hperm : r ~ range he.size)
    (hs : r.Pairwise (fun a b =>
      (he.map fun h => edgeKey h.startVert h.endVert).getD a 0 < (he.map fun h => edgeKey h.startVert h.endVert).getD b 0 ∨
      ((he.map fun h => edgeKey h.startVert h.endVert).getD a 0 = (he.map fun h => edgeKey h.startVert h.endVert).getD b 0 ∧ a ≤ b))) :
    sortIds he = r.toArray := by
  unfold sortIds
  simp only []
  rw [mergeSort_range_eq he.size _ r hperm hs]

end MV.Halfedge
