import MV.Proof.Export
/-! helper lemmas for `MV/Props/C07.lean` (run table): the comparator, `sortIdx`, `runsFrom`,
`runOrder` -/
namespace MV.Export
open List

variable {τ : Type}

/-! ## the comparator `runLE` is the lexicographic `≤` on (originalID, meshID) -/

theorem runLE_iff (a b : TriRef) : runLE a b = true ↔
    a.originalID < b.originalID ∨ (a.originalID = b.originalID ∧ a.meshID ≤ b.meshID) := by
  unfold runLE; split <;> simp [*] <;> omega

theorem runLE_trans (a b c : TriRef) : runLE a b = true → runLE b c = true → runLE a c = true := by
  simp only [runLE_iff]; omega

theorem runLE_total (a b : TriRef) : (runLE a b || runLE b a) = true := by
  simp only [Bool.or_eq_true, runLE_iff]; omega

/-! ## `sortIdx` -/

theorem sortIdx_perm (o : Bool) (refs : List TriRef) : sortIdx o refs ~ refs.zipIdx := by
  unfold sortIdx; split
  · exact Perm.refl _
  · exact mergeSort_perm _ _

theorem sortIdx_length (o : Bool) (refs : List TriRef) : (sortIdx o refs).length = refs.length := by
  rw [(sortIdx_perm o refs).length_eq, length_zipIdx]

theorem sortIdx_snd_perm (o : Bool) (refs : List TriRef) :
    (sortIdx o refs).map (·.2) ~ List.range refs.length := by
  have h := (sortIdx_perm o refs).map (·.2)
  rwa [zipIdx_map_snd, ← range_eq_range'] at h

theorem sortIdx_fst_perm (o : Bool) (refs : List TriRef) : (sortIdx o refs).map (·.1) ~ refs := by
  have h := (sortIdx_perm o refs).map (·.1)
  rwa [zipIdx_map_fst] at h

theorem sortIdx_mem {o : Bool} {refs : List TriRef} {x : TriRef × Nat} (h : x ∈ sortIdx o refs) :
    refs[x.2]? = some x.1 :=
  mem_zipIdx_iff_getElem?.1 ((sortIdx_perm o refs).mem_iff.1 h)

theorem sortIdx_sorted (refs : List TriRef) :
    ((sortIdx false refs).map (·.1)).Pairwise (fun a b => runLE a b = true) := by
  simp only [sortIdx, Bool.false_eq_true, if_false, pairwise_map]
  exact pairwise_mergeSort (le := fun a b : TriRef × Nat => runLE a.1 b.1)
    (fun a b c => runLE_trans a.1 b.1 c.1) (fun a b => runLE_total a.1 b.1) _

/-- an already sorted list is left alone (stability) -/
theorem sortIdx_of_sorted {refs : List TriRef} (h : refs.Pairwise (fun a b => runLE a b = true)) :
    sortIdx false refs = refs.zipIdx := by
  simp only [sortIdx, Bool.false_eq_true, if_false]
  apply mergeSort_of_pairwise
  have : refs.zipIdx.Pairwise (fun a b => runLE a.1 b.1 = true) := by
    rw [← pairwise_map (f := Prod.fst) (R := fun a b => runLE a b = true), zipIdx_map_fst]; exact h
  exact this

/-! ## `runsFrom` -/

@[simp] theorem runsFrom_nil (d : Rel τ) (tri : Nat) (last : Int) (m : RelMap τ) :
    runsFrom d [] tri last m = ([], m) := rfl

theorem runsFrom_cons_ne (d : Rel τ) {r : TriRef} (rs : List TriRef) (tri : Nat) {last : Int}
    (m : RelMap τ) (h : r.meshID ≠ last) :
    runsFrom d (r :: rs) tri last m =
      (⟨tri, r.meshID, (RelMap.lookup m r.meshID).getD d⟩ ::
        (runsFrom d rs (tri + 1) r.meshID (RelMap.erase m r.meshID)).1,
       (runsFrom d rs (tri + 1) r.meshID (RelMap.erase m r.meshID)).2) := by
  simp [runsFrom, h]

theorem runsFrom_cons_eq (d : Rel τ) {r : TriRef} (rs : List TriRef) (tri : Nat) {last : Int}
    (m : RelMap τ) (h : r.meshID = last) :
    runsFrom d (r :: rs) tri last m = runsFrom d rs (tri + 1) last m := by
  simp [runsFrom, h]

/-- every run is opened by a triangle with the run's meshID, the starts lie in the range and are
strictly increasing -/
theorem runsFrom_start (d : Rel τ) : ∀ (rs : List TriRef) (tri : Nat) (last : Int) (m : RelMap τ),
    (∀ run ∈ (runsFrom d rs tri last m).1, tri ≤ run.start ∧ run.start < tri + rs.length ∧
      ∃ r, rs[run.start - tri]? = some r ∧ r.meshID = run.meshID) ∧
    (runsFrom d rs tri last m).1.Pairwise (fun a b => a.start < b.start) := by
  intro rs
  induction rs with
  | nil => intro tri last m; simp
  | cons r rs ih =>
    intro tri last m
    by_cases h : r.meshID = last
    · rw [runsFrom_cons_eq d rs tri m h]
      obtain ⟨h1, h2⟩ := ih (tri + 1) last m
      refine ⟨fun run hr => ?_, h2⟩
      obtain ⟨a, b, r', hr', e⟩ := h1 run hr
      refine ⟨by omega, by simp only [length_cons]; omega, r', ?_, e⟩
      have : run.start - tri = (run.start - (tri + 1)) + 1 := by omega
      rw [this, getElem?_cons_succ]; exact hr'
    · rw [runsFrom_cons_ne d rs tri m h]
      obtain ⟨h1, h2⟩ := ih (tri + 1) r.meshID (RelMap.erase m r.meshID)
      refine ⟨fun run hr => ?_, ?_⟩
      · rcases mem_cons.1 hr with rfl | hr
        · exact ⟨Nat.le_refl _, by simp, r, by simp, rfl⟩
        · obtain ⟨a, b, r', hr', e⟩ := h1 run hr
          refine ⟨by omega, by simp only [length_cons]; omega, r', ?_, e⟩
          have : run.start - tri = (run.start - (tri + 1)) + 1 := by omega
          rw [this, getElem?_cons_succ]; exact hr'
      · refine pairwise_cons.2 ⟨fun run hr => ?_, h2⟩
        have := (h1 run hr).1
        show tri < run.start
        omega

/-- start of run `k`, or `e` when there is no run `k` -/
def nxt (runs : List (Run τ)) (k e : Nat) : Nat := ((runs[k]?).map (·.start)).getD e

@[simp] theorem nxt_nil (k e : Nat) : nxt ([] : List (Run τ)) k e = e := by simp [nxt]
@[simp] theorem nxt_cons_zero (a : Run τ) (l : List (Run τ)) (e : Nat) : nxt (a :: l) 0 e = a.start := by
  simp [nxt]
@[simp] theorem nxt_cons_succ (a : Run τ) (l : List (Run τ)) (k e : Nat) :
    nxt (a :: l) (k + 1) e = nxt l k e := by
  simp [nxt]

/-- the triangles from a run's start up to the next run's start carry the run's meshID; the
triangles before the first run carry `lastID` -/
theorem runsFrom_cover (d : Rel τ) : ∀ (rs : List TriRef) (tri : Nat) (last : Int) (m : RelMap τ),
    (∀ t r, tri ≤ t → t < nxt (runsFrom d rs tri last m).1 0 (tri + rs.length) →
      rs[t - tri]? = some r → r.meshID = last) ∧
    (∀ k run t r, (runsFrom d rs tri last m).1[k]? = some run → run.start ≤ t →
      t < nxt (runsFrom d rs tri last m).1 (k + 1) (tri + rs.length) →
      rs[t - tri]? = some r → r.meshID = run.meshID) := by
  intro rs
  induction rs with
  | nil => intro tri last m; simp
  | cons r rs ih =>
    intro tri last m
    have hlen : tri + (r :: rs).length = tri + 1 + rs.length := by simp only [length_cons]; omega
    by_cases h : r.meshID = last
    · rw [runsFrom_cons_eq d rs tri m h, hlen]
      obtain ⟨h1, h2⟩ := ih (tri + 1) last m
      refine ⟨fun t r' ht1 ht2 hr' => ?_, fun k run t r' hk ht1 ht2 hr' => ?_⟩
      · by_cases e : t = tri
        · subst e; simp at hr'; subst hr'; exact h
        · have e' : t - tri = (t - (tri + 1)) + 1 := by omega
          rw [e', getElem?_cons_succ] at hr'
          exact h1 t r' (by omega) ht2 hr'
      · have := ((runsFrom_start d rs (tri + 1) last m).1 run (mem_of_getElem? hk)).1
        have e' : t - tri = (t - (tri + 1)) + 1 := by omega
        rw [e', getElem?_cons_succ] at hr'
        exact h2 k run t r' hk ht1 ht2 hr'
    · rw [runsFrom_cons_ne d rs tri m h, hlen]
      obtain ⟨h1, h2⟩ := ih (tri + 1) r.meshID (RelMap.erase m r.meshID)
      refine ⟨fun t r' ht1 ht2 hr' => ?_, fun k run t r' hk ht1 ht2 hr' => ?_⟩
      · simp only [nxt_cons_zero] at ht2; omega
      · cases k with
        | zero =>
          simp only [getElem?_cons_zero, Option.some.injEq] at hk
          subst hk
          simp only [nxt_cons_succ] at ht2
          by_cases e : t = tri
          · subst e; simp at hr'; subst hr'; rfl
          · have e' : t - tri = (t - (tri + 1)) + 1 := by simp only at ht1; omega
            rw [e', getElem?_cons_succ] at hr'
            exact h1 t r' (by simp only at ht1; omega) ht2 hr'
        | succ k =>
          simp only [getElem?_cons_succ] at hk
          simp only [nxt_cons_succ] at ht2
          have := ((runsFrom_start d rs (tri + 1) r.meshID _).1 run (mem_of_getElem? hk)).1
          have e' : t - tri = (t - (tri + 1)) + 1 := by omega
          rw [e', getElem?_cons_succ] at hr'
          exact h2 k run t r' hk ht1 ht2 hr'

/-! ## which meshIDs get a run, what is left of the map -/

theorem runsFrom_meshID_mem (d : Rel τ) (rs : List TriRef) (tri : Nat) (last : Int) (m : RelMap τ) :
    ∀ run ∈ (runsFrom d rs tri last m).1, run.meshID ∈ rs.map (·.meshID) := by
  intro run hr
  obtain ⟨_, _, r, hr', e⟩ := (runsFrom_start d rs tri last m).1 run hr
  exact mem_map.2 ⟨r, mem_of_getElem? hr', e⟩

theorem runsFrom_mem_meshID (d : Rel τ) : ∀ (rs : List TriRef) (tri : Nat) (last : Int) (m : RelMap τ),
    ∀ r ∈ rs, r.meshID = last ∨ r.meshID ∈ (runsFrom d rs tri last m).1.map (·.meshID) := by
  intro rs
  induction rs with
  | nil => intro tri last m; simp
  | cons r rs ih =>
    intro tri last m r' hr'
    by_cases h : r.meshID = last
    · rw [runsFrom_cons_eq d rs tri m h]
      rcases mem_cons.1 hr' with rfl | hr'
      · exact Or.inl h
      · exact ih (tri + 1) last m r' hr'
    · rw [runsFrom_cons_ne d rs tri m h]
      rcases mem_cons.1 hr' with rfl | hr'
      · right; simp
      · rcases ih (tri + 1) r.meshID (RelMap.erase m r.meshID) r' hr' with e | e
        · right; simp [e]
        · right; simp only [map_cons, mem_cons]; exact Or.inr e

/-- the copy of the map after the loop: the relations of the meshIDs that opened a run are gone -/
theorem runsFrom_snd (d : Rel τ) : ∀ (rs : List TriRef) (tri : Nat) (last : Int) (m : RelMap τ),
    (runsFrom d rs tri last m).2 =
      m.filter (fun kv => !((runsFrom d rs tri last m).1.map (·.meshID)).contains kv.1) := by
  intro rs
  induction rs with
  | nil => intro tri last m; exact (filter_eq_self.2 (fun _ _ => rfl)).symm
  | cons r rs ih =>
    intro tri last m
    by_cases h : r.meshID = last
    · rw [runsFrom_cons_eq d rs tri m h]; exact ih _ _ _
    · rw [runsFrom_cons_ne d rs tri m h]
      simp only [map_cons]
      rw [ih, RelMap.erase, filter_filter]
      apply filter_congr
      intro kv _
      simp only [contains_cons, Bool.not_or, bne, Bool.and_comm]

theorem find?_filter_of_imp {α} (p q : α → Bool) (h : ∀ a, p a = true → q a = true) :
    ∀ l : List α, (l.filter q).find? p = l.find? p
  | [] => rfl
  | a :: l => by
    rw [filter_cons]
    by_cases hq : q a = true
    · rw [if_pos hq, find?_cons, find?_cons, find?_filter_of_imp p q h l]
    · have hp : p a = false := by
        cases hpa : p a
        · rfl
        · exact absurd (h a hpa) hq
      rw [if_neg hq, find?_cons, hp, find?_filter_of_imp p q h l]

theorem lookup_erase_ne (m : RelMap τ) {k k' : Int} (h : k' ≠ k) :
    RelMap.lookup (RelMap.erase m k) k' = RelMap.lookup m k' := by
  unfold RelMap.lookup RelMap.erase
  rw [find?_filter_of_imp]
  intro a ha
  simp only [beq_iff_eq] at ha
  simp only [bne_iff_ne, ne_eq, ha]
  exact h

/-! ## equal meshIDs are contiguous in the sorted list -/

/-- every value occurs in one contiguous block -/
def Grouped : List Int → Prop
  | [] => True
  | x :: xs => Grouped xs ∧ (x ∈ xs → xs.head? = some x)

theorem grouped_of_sorted : ∀ {rs : List TriRef}, rs.Pairwise (fun a b => runLE a b = true) →
    (∀ a ∈ rs, ∀ b ∈ rs, a.meshID = b.meshID → a.originalID = b.originalID) →
    Grouped (rs.map (·.meshID)) := by
  intro rs
  induction rs with
  | nil => intro _ _; trivial
  | cons r rs ih =>
    intro hs hf
    obtain ⟨hs1, hs2⟩ := pairwise_cons.1 hs
    refine ⟨ih hs2 (fun a ha b hb => hf a (mem_cons_of_mem _ ha) b (mem_cons_of_mem _ hb)), ?_⟩
    intro hmem
    obtain ⟨r', hr', e⟩ := mem_map.1 hmem
    cases rs with
    | nil => simp at hr'
    | cons r1 rs' =>
      simp only [map_cons, head?_cons, Option.some.injEq]
      have ho := hf r' (mem_cons_of_mem _ hr') r mem_cons_self e
      have h1 := (runLE_iff _ _).1 (hs1 r1 mem_cons_self)
      rcases mem_cons.1 hr' with rfl | hr''
      · exact e
      · have h2 := (runLE_iff _ _).1 ((pairwise_cons.1 hs2).1 r' hr'')
        simp only at e
        omega

/-- with contiguous meshIDs no relation is looked up after it was erased: every run carries the
relation stored under its meshID in the ORIGINAL map (or the default if there is none), and
every meshID opens exactly one run -/
theorem runsFrom_grouped (d : Rel τ) : ∀ (rs : List TriRef) (tri : Nat) (last : Int) (m : RelMap τ),
    Grouped (last :: rs.map (·.meshID)) →
    last ∉ (runsFrom d rs tri last m).1.map (·.meshID) ∧
    ((runsFrom d rs tri last m).1.map (·.meshID)).Nodup ∧
    ∀ run ∈ (runsFrom d rs tri last m).1, run.rel = (RelMap.lookup m run.meshID).getD d := by
  intro rs
  induction rs with
  | nil => intro tri last m _; simp
  | cons r rs ih =>
    intro tri last m hg
    obtain ⟨⟨hg1, hg2⟩, hg3⟩ := hg
    by_cases h : r.meshID = last
    · rw [runsFrom_cons_eq d rs tri m h]
      exact ih (tri + 1) last m (h ▸ ⟨hg1, hg2⟩)
    · rw [runsFrom_cons_ne d rs tri m h]
      obtain ⟨i1, i2, i3⟩ := ih (tri + 1) r.meshID (RelMap.erase m r.meshID) ⟨hg1, hg2⟩
      have hlast : last ∉ rs.map (·.meshID) := by
        intro hl
        have := hg3 (by simp only [map_cons, mem_cons]; exact Or.inr hl)
        simp only [map_cons, head?_cons, Option.some.injEq] at this
        exact h this
      refine ⟨?_, ?_, ?_⟩
      · simp only [map_cons, mem_cons, not_or]
        refine ⟨fun e => h e.symm, fun hl => hlast ?_⟩
        obtain ⟨run, hr, e⟩ := mem_map.1 hl
        exact e ▸ runsFrom_meshID_mem d rs _ _ _ run hr
      · simp only [map_cons, nodup_cons]; exact ⟨i1, i2⟩
      · intro run hr
        rcases mem_cons.1 hr with rfl | hr
        · rfl
        · rw [i3 run hr, lookup_erase_ne]
          intro e
          have hmem : run.meshID ∈
              (runsFrom d rs (tri + 1) r.meshID (RelMap.erase m r.meshID)).1.map (·.meshID) :=
            mem_map.2 ⟨run, hr, rfl⟩
          rw [e] at hmem
          exact i1 hmem

/-! ## `runOrder` -/

theorem runOrder_cons_cons (a b : Nat) (l : List Nat) :
    runOrder (a :: b :: l) = List.range' (a / 3) (b / 3 - a / 3) ++ runOrder (b :: l) := by
  simp [runOrder]

/-- the blocks `[a₀,a₁), [a₁,a₂), …` of a non-decreasing list tile `[a₀, a_last)` -/
theorem runOrder_map3 : ∀ (l : List Nat) (a : Nat), (a :: l).Pairwise (· ≤ ·) →
    runOrder ((a :: l).map (3 * ·)) = List.range' a (l.getLast?.getD a - a) := by
  intro l
  induction l with
  | nil => intro a _; simp [runOrder]
  | cons b l ih =>
    intro a h
    obtain ⟨h1, h2⟩ := pairwise_cons.1 h
    have hab : a ≤ b := h1 b mem_cons_self
    have hb : b ≤ l.getLast?.getD b := by
      cases hl : l.getLast? with
      | none => simp
      | some x =>
        simp only [Option.getD_some]
        exact (pairwise_cons.1 h2).1 x (mem_of_getLast? hl)
    simp only [map_cons] at ih ⊢
    rw [runOrder_cons_cons, ih b h2, getLast?_cons]
    simp only [Option.getD_some]
    have e1 : 3 * a / 3 = a := by omega
    have e2 : 3 * b / 3 = b := by omega
    rw [e1, e2]
    have key := @range'_append a (b - a) (l.getLast?.getD b - b) 1
    have e3 : a + 1 * (b - a) = b := by omega
    rw [e3] at key
    rw [key]
    congr 1
    omega

/-! ## `exportRuns`: assembling the run table -/

/-- the refs in export order -/
abbrev sortedOf (o : Bool) (refs : List TriRef) : List TriRef := (sortIdx o refs).map (·.1)

/-- the run loop of `exportRuns` -/
abbrev loopOf (o : Bool) (idT : τ) (refs : List TriRef) (m : RelMap τ) : List (Run τ) × RelMap τ :=
  runsFrom (Rel.dflt idT) (sortedOf o refs) 0 (-1) m

theorem exportRuns_sorted (o : Bool) (idT : τ) (refs : List TriRef) (m : RelMap τ) :
    (exportRuns o idT refs m).sorted = sortedOf o refs := rfl

theorem exportRuns_numTri (o : Bool) (idT : τ) (refs : List TriRef) (m : RelMap τ) :
    (exportRuns o idT refs m).numTri = refs.length := rfl

theorem exportRuns_triNew2Old (o : Bool) (idT : τ) (refs : List TriRef) (m : RelMap τ) :
    (exportRuns o idT refs m).triNew2Old = (sortIdx o refs).map (·.2) := rfl

theorem exportRuns_runs (o : Bool) (idT : τ) (refs : List TriRef) (m : RelMap τ) :
    (exportRuns o idT refs m).runs = (loopOf o idT refs m).1 ++
      (loopOf o idT refs m).2.map fun kv => (⟨refs.length, kv.1, kv.2⟩ : Run τ) := rfl

theorem sortedOf_length (o : Bool) (refs : List TriRef) : (sortedOf o refs).length = refs.length := by
  simp [sortedOf, sortIdx_length]

theorem sortedOf_mem {o : Bool} {refs : List TriRef} {r : TriRef} : r ∈ sortedOf o refs ↔ r ∈ refs :=
  (sortIdx_fst_perm o refs).mem_iff

theorem sorted_getElem?_eq (o : Bool) (refs : List TriRef) (t : Nat) (ht : t < refs.length) :
    (sortedOf o refs)[t]? = refs[((sortIdx o refs).map (·.2)).getD t 0]? := by
  have hl : t < (sortIdx o refs).length := by rw [sortIdx_length]; exact ht
  have hm := sortIdx_mem (getElem_mem hl)
  simp only [sortedOf, getElem?_map, getElem?_eq_getElem hl, Option.map_some, getD_eq_getElem?_getD,
    Option.getD_some]
  exact hm.symm

theorem runIndex_eq (rt : RunTable τ) :
    rt.runIndex = (rt.runs.map (·.start) ++ [rt.numTri]).map (3 * ·) := by
  simp [RunTable.runIndex]

theorem runIndex_getD (rt : RunTable τ) (k : Nat) (hk : k ≤ rt.runs.length) :
    rt.runIndex.getD k 0 = 3 * nxt rt.runs k rt.numTri := by
  simp only [RunTable.runIndex, getD_eq_getElem?_getD, nxt]
  rcases Nat.lt_or_ge k rt.runs.length with h | h
  · rw [getElem?_append_left (by simpa using h)]
    simp [getElem?_eq_getElem h]
  · have e : k = rt.runs.length := by omega
    subst e
    rw [getElem?_append_right (by simp)]
    simp

theorem nxt_append_trailing (l1 l2 : List (Run τ)) (k e : Nat) (h : ∀ x ∈ l2, x.start = e) :
    nxt (l1 ++ l2) k e = nxt l1 k e := by
  unfold nxt
  rcases Nat.lt_or_ge k l1.length with hk | hk
  · rw [getElem?_append_left hk]
  · rw [getElem?_append_right hk, getElem?_eq_none hk]
    cases hx : l2[k - l1.length]? with
    | none => rfl
    | some x => simp [h x (mem_of_getElem? hx)]

theorem exportRuns_nxt (o : Bool) (idT : τ) (refs : List TriRef) (m : RelMap τ) (k : Nat) :
    nxt (exportRuns o idT refs m).runs k refs.length = nxt (loopOf o idT refs m).1 k refs.length := by
  rw [exportRuns_runs]
  apply nxt_append_trailing
  intro x hx
  obtain ⟨kv, _, rfl⟩ := mem_map.1 hx
  rfl

/-- the run starts followed by `n` are non-decreasing and begin with 0 -/
theorem exportRuns_starts (o : Bool) (idT : τ) (refs : List TriRef) (m : RelMap τ)
    (hid : ∀ r ∈ refs, r.meshID ≠ -1) :
    ((exportRuns o idT refs m).runs.map (·.start) ++ [refs.length]).Pairwise (· ≤ ·) ∧
    ((exportRuns o idT refs m).runs.map (·.start) ++ [refs.length]).head? = some 0 := by
  rw [exportRuns_runs]
  obtain ⟨h1, h2⟩ := runsFrom_start (Rel.dflt idT) (sortedOf o refs) 0 (-1) m
  constructor
  · simp only [map_append, map_map, append_assoc]
    refine pairwise_append.2 ⟨?_, ?_, ?_⟩
    · exact pairwise_map.2 (h2.imp (fun h => Nat.le_of_lt h))
    · refine pairwise_append.2 ⟨?_, by simp, ?_⟩
      · exact pairwise_map.2 (pairwise_of_forall_sublist fun _ => Nat.le_refl _)
      · intro a ha b hb
        obtain ⟨_, _, rfl⟩ := mem_map.1 ha
        simp only [mem_singleton] at hb; subst hb
        exact Nat.le_refl _
    · intro a ha b hb
      obtain ⟨run, hr, rfl⟩ := mem_map.1 ha
      have hlt := (h1 run hr).2.1
      rw [sortedOf_length] at hlt
      have : b = refs.length := by
        rcases mem_append.1 hb with hb | hb
        · obtain ⟨_, _, rfl⟩ := mem_map.1 hb; rfl
        · simpa using hb
      omega
  · cases hs : sortedOf o refs with
    | nil =>
      have hn : refs.length = 0 := by rw [← sortedOf_length o refs, hs]; rfl
      simp only [loopOf, hs, runsFrom_nil, nil_append, hn]
      cases m <;> simp
    | cons r rs =>
      have hr : r.meshID ≠ -1 := hid r (sortedOf_mem.1 (hs ▸ mem_cons_self))
      simp only [loopOf, hs]
      rw [runsFrom_cons_ne _ rs 0 m hr]
      simp

/-- homogeneity of the runs of the exported table -/
theorem exportRuns_cover (o : Bool) (idT : τ) (refs : List TriRef) (m : RelMap τ) (k t : Nat) (r : TriRef)
    (hk : k < (exportRuns o idT refs m).runs.length)
    (h1 : (exportRuns o idT refs m).runIndex.getD k 0 ≤ 3 * t)
    (h2 : 3 * t < (exportRuns o idT refs m).runIndex.getD (k + 1) 0)
    (hr : (exportRuns o idT refs m).sorted[t]? = some r) :
    (exportRuns o idT refs m).runMeshID[k]? = some r.meshID := by
  rw [runIndex_getD _ _ (Nat.le_of_lt hk), exportRuns_numTri, exportRuns_nxt] at h1
  rw [runIndex_getD _ _ hk, exportRuns_numTri, exportRuns_nxt] at h2
  rw [exportRuns_sorted] at hr
  have htn : t < refs.length := by
    rw [← sortedOf_length o refs]; exact (List.getElem?_eq_some_iff.1 hr).1
  rcases Nat.lt_or_ge k (loopOf o idT refs m).1.length with hk' | hk'
  · have hrun : (loopOf o idT refs m).1[k]? = some (loopOf o idT refs m).1[k] := getElem?_eq_getElem hk'
    have hs : nxt (loopOf o idT refs m).1 k refs.length = ((loopOf o idT refs m).1[k]).start := by
      simp [nxt, hrun]
    have hc := (runsFrom_cover (Rel.dflt idT) (sortedOf o refs) 0 (-1) m).2 k _ t r hrun
      (by rw [hs] at h1; omega)
      (by rw [Nat.zero_add, sortedOf_length]; exact Nat.lt_of_mul_lt_mul_left h2) (by simpa using hr)
    simp only [RunTable.runMeshID, getElem?_map, exportRuns_runs, getElem?_append_left hk', hrun,
      Option.map_some, hc]
  · have : nxt (loopOf o idT refs m).1 k refs.length = refs.length := by
      simp [nxt, getElem?_eq_none hk']
    omega

end MV.Export
