import MV.Proof.CrossOpsField
/-!
The corner-join constructors of the polygon offset (boolean2_offset.cpp: `MiterPoint` l.112-126,
`AppendSquareJoin` l.87-107, `AppendRoundJoin`/`RotateDegrees` l.57-79, `ValidMiterLimit` l.128-130)
at the exact instance `fieldScalar F` of a linearly ordered field.

Vocabulary: `dot a b = a.x*b.x + a.y*b.y` (`dot_eq`); "unit" is `dot n n = 1`; the point `P` is "on the
offset line of an edge with unit normal `n` at distance `delta` from `V`" when
`dot (P.sub V) n = delta`; squared distance from `V` is `dot (P.sub V) (P.sub V)`.
-/
namespace MV.CrossOps

section Join
variable {F : Type} [Field F] [LinearOrder F]

/-! ## MiterPoint -/

/-- the main branch (`denom > 0`) -/
theorem miterPoint_of_pos (V nP nN : V2 F) (delta : F) (hd : 0 < 1 + dot nP nN) :
    miterPoint V nP nN delta = V.add (V2.smul delta ((nP.add nN).divs (1 + dot nP nN))) := by
  have : ¬ (1 + dot nP nN ≤ 0) := not_le.2 hd
  simp only [miterPoint, sc_le, sc_one, sc_add, sc_zero, decide_eq_true_eq, this, if_false]

/-- fallback branch (`denom ≤ 0`): the point is the plain offset endpoint -/
theorem miter_fallback (V nP nN : V2 F) (delta : F) (hd : 1 + dot nP nN ≤ 0) :
    miterPoint V nP nN delta = V.add (V2.smul delta nP) := by
  simp only [miterPoint, sc_le, sc_one, sc_add, sc_zero, decide_eq_true_eq, hd, if_true]

/-- `ValidMiterLimit` always returns a limit `≥ 2` -/
theorem validMiterLimit_ge (m : F) : 2 ≤ validMiterLimit m := by
  simp only [validMiterLimit, sc_isFinite, sc_le, two_eq, Bool.true_and, decide_eq_true_eq]
  split
  · assumption
  · exact le_refl _

/-- … and returns the argument itself when that is `≥ 2` -/
theorem validMiterLimit_of_ge (m : F) (h : 2 ≤ m) : validMiterLimit m = m := by
  simp only [validMiterLimit, sc_isFinite, sc_le, two_eq, Bool.true_and, decide_eq_true_eq, h, if_true]

variable [IsStrictOrderedRing F]

/-- the miter point lies on BOTH offset lines -/
theorem miter_on_both_offsets (V nP nN : V2 F) (delta : F) (hP : dot nP nP = 1) (hN : dot nN nN = 1)
    (hd : 0 < 1 + dot nP nN) :
    dot ((miterPoint V nP nN delta).sub V) nP = delta ∧
    dot ((miterPoint V nP nN delta).sub V) nN = delta := by
  rw [miterPoint_of_pos V nP nN delta hd]
  have hne : 1 + dot nP nN ≠ 0 := ne_of_gt hd
  simp only [dot_eq] at hP hN hne
  simp only [dot_eq, V2.add, V2.sub, V2.smul, V2.divs, sc_mul, sc_div, sc_sub, sc_add]
  constructor
  · field_simp
    linear_combination delta * hP
  · field_simp
    linear_combination delta * hN

/-- its squared distance from the vertex is `2δ²/(1 + nP·nN)` -/
theorem miter_dist2 (V nP nN : V2 F) (delta : F) (hP : dot nP nP = 1) (hN : dot nN nN = 1)
    (hd : 0 < 1 + dot nP nN) :
    dot ((miterPoint V nP nN delta).sub V) ((miterPoint V nP nN delta).sub V) =
      2 * delta ^ 2 / (1 + dot nP nN) := by
  rw [miterPoint_of_pos V nP nN delta hd]
  have hne : 1 + dot nP nN ≠ 0 := ne_of_gt hd
  simp only [dot_eq] at hP hN hne
  simp only [dot_eq, V2.add, V2.sub, V2.smul, V2.divs, sc_mul, sc_div, sc_sub, sc_add]
  field_simp
  linear_combination delta ^ 2 * (hP + hN)

omit [IsStrictOrderedRing F] in
/-- the miter point is on the bisector direction `nP + nN` through `V` -/
theorem miter_on_bisector (V nP nN : V2 F) (delta : F) (hd : 0 < 1 + dot nP nN) :
    cross ((miterPoint V nP nN delta).sub V) (nP.add nN) = 0 := by
  rw [miterPoint_of_pos V nP nN delta hd]
  have hne : 1 + dot nP nN ≠ 0 := ne_of_gt hd
  simp only [dot_eq] at hne
  simp only [cross_eq, dot_eq, V2.add, V2.sub, V2.smul, V2.divs, sc_mul, sc_div, sc_sub, sc_add]
  field_simp
  ring

/-- whenever the denominator is at least `m > 0` (the code refuses to miter when
`1 + dotN < kMinMiterDenom`), the squared distance is at most `2δ²/m` -/
theorem miter_within_min (V nP nN : V2 F) (delta m : F) (hP : dot nP nP = 1) (hN : dot nN nN = 1)
    (hm : 0 < m) (hbr : m ≤ 1 + dot nP nN) :
    dot ((miterPoint V nP nN delta).sub V) ((miterPoint V nP nN delta).sub V) ≤ 2 * delta ^ 2 / m := by
  have hd : 0 < 1 + dot nP nN := lt_of_lt_of_le hm hbr
  rw [miter_dist2 V nP nN delta hP hN hd]
  have h0 : 0 ≤ 2 * delta ^ 2 := by positivity
  exact div_le_div_of_nonneg_left h0 hm hbr

/-- with a tie tolerance `tie` (the code squares the corner when `dotN + tie < 2/L² − 1`, so in the
miter branch `2/L² − 1 ≤ dotN + tie`) the bound degrades gracefully:
distance² `≤ 2δ²/(2/L² − tie)` as long as `tie < 2/L²` -/
theorem miter_within_limit_tie (V nP nN : V2 F) (delta L tie : F) (hP : dot nP nP = 1)
    (hN : dot nN nN = 1) (htie : tie < 2 / (L * L)) (hbr : 2 / (L * L) - 1 ≤ dot nP nN + tie) :
    dot ((miterPoint V nP nN delta).sub V) ((miterPoint V nP nN delta).sub V) ≤
      2 * delta ^ 2 / (2 / (L * L) - tie) := by
  apply miter_within_min V nP nN delta _ hP hN
  · linarith
  · linarith

/-- … hence within the miter limit whenever the code takes the miter branch with `tie = 0`
(exact arithmetic): the distance is `≤ L·|δ|`.  (`_hd` follows from `hbr`; kept for the caller.) -/
theorem miter_within_limit (V nP nN : V2 F) (delta L : F) (hP : dot nP nP = 1) (hN : dot nN nN = 1)
    (hL : 0 < L) (hbr : 2 / (L * L) - 1 ≤ dot nP nN) (_hd : 0 < 1 + dot nP nN) :
    dot ((miterPoint V nP nN delta).sub V) ((miterPoint V nP nN delta).sub V) ≤ (L * delta) ^ 2 := by
  have hLL : 0 < L * L := mul_pos hL hL
  have h := miter_within_limit_tie V nP nN delta L 0 hP hN (by positivity) (by linarith)
  have e : 2 * delta ^ 2 / (2 / (L * L) - 0) = (L * delta) ^ 2 := by
    have : L ≠ 0 := ne_of_gt hL
    field_simp
    ring
  rw [e] at h
  exact h

/-- the test of the miter branch of `OffsetContour` (l.219-224) in exact arithmetic: the miter point
is emitted iff both guards fail -/
theorem miter_branch_cond (dotN tie L md : F) :
    (Scalar.lt (Scalar.add dotN tie) (Scalar.sub (Scalar.div two (Scalar.mul L L)) Scalar.one) ||
      Scalar.lt (Scalar.add Scalar.one dotN) md) = false ↔
    2 / (L * L) - 1 ≤ dotN + tie ∧ md ≤ 1 + dotN := by
  simp [not_lt]

/-- everything the miter branch gives, from the code's own guards: for unit normals, a positive
`kMinMiterDenom`, the miter point is on both offset lines and at squared distance
`≤ 2δ²/kMinMiterDenom`, and `≤ 2δ²/(2/L² − tie)` when `tie < 2/L²` -/
theorem miter_branch_spec (V nP nN : V2 F) (delta L tie md : F) (hP : dot nP nP = 1)
    (hN : dot nN nN = 1) (hmd : 0 < md)
    (hbr : (Scalar.lt (Scalar.add (dot nP nN) tie)
        (Scalar.sub (Scalar.div two (Scalar.mul L L)) Scalar.one) ||
      Scalar.lt (Scalar.add Scalar.one (dot nP nN)) md) = false) :
    dot ((miterPoint V nP nN delta).sub V) nP = delta ∧
    dot ((miterPoint V nP nN delta).sub V) nN = delta ∧
    dot ((miterPoint V nP nN delta).sub V) ((miterPoint V nP nN delta).sub V) ≤ 2 * delta ^ 2 / md ∧
    (tie < 2 / (L * L) →
      dot ((miterPoint V nP nN delta).sub V) ((miterPoint V nP nN delta).sub V) ≤
        2 * delta ^ 2 / (2 / (L * L) - tie)) := by
  obtain ⟨h1, h2⟩ := (miter_branch_cond _ _ _ _).1 hbr
  have hd : 0 < 1 + dot nP nN := lt_of_lt_of_le hmd h2
  obtain ⟨a, b⟩ := miter_on_both_offsets V nP nN delta hP hN hd
  exact ⟨a, b, miter_within_min V nP nN delta md hP hN hmd h2,
    fun htie => miter_within_limit_tie V nP nN delta L tie hP hN htie h1⟩

/-! ## bevel / offset endpoints -/

/-- `V + δ n` lies on the offset line and at distance `|δ|` -/
theorem endpoint_on_offset (V n : V2 F) (delta : F) (hn : dot n n = 1) :
    dot ((V.add (V2.smul delta n)).sub V) n = delta ∧
    dot ((V.add (V2.smul delta n)).sub V) ((V.add (V2.smul delta n)).sub V) = delta ^ 2 := by
  simp only [dot_eq] at hn
  simp only [dot_eq, V2.add, V2.sub, V2.smul, sc_mul, sc_sub, sc_add]
  constructor
  · linear_combination delta * hn
  · linear_combination delta ^ 2 * hn

/-! ## round join -/

/-- a true rotation preserves the dot product -/
theorem rotateCS_dot (u v : V2 F) (c s : F) (h : c ^ 2 + s ^ 2 = 1) :
    dot (rotateCS u c s) (rotateCS v c s) = dot u v := by
  simp only [dot_eq, rotateCS, sc_mul, sc_sub, sc_add]
  linear_combination (u.x * v.x + u.y * v.y) * h

/-- round join: every sampled point is at distance `|δ|` from the vertex, for a true rotation
(`c² + s² = 1`) and a unit normal -/
theorem round_on_circle (V nP : V2 F) (delta : F) (rots : List (F × F)) (hP : dot nP nP = 1)
    (hrot : ∀ cs ∈ rots, cs.1 ^ 2 + cs.2 ^ 2 = 1) :
    ∀ P ∈ roundJoin V nP delta rots, dot (P.sub V) (P.sub V) = delta ^ 2 := by
  intro P hPm
  simp only [roundJoin, List.mem_map] at hPm
  obtain ⟨cs, hcs, rfl⟩ := hPm
  have hr := hrot cs hcs
  simp only [dot_eq] at hP
  simp only [dot_eq, V2.add, V2.sub, V2.smul, rotateCS, sc_mul, sc_sub, sc_add]
  linear_combination delta ^ 2 * (nP.x * nP.x + nP.y * nP.y) * hr + delta ^ 2 * hP

omit [IsStrictOrderedRing F] in
/-- … and one point per sampled rotation, the `i`-th being `V + δ·R_i nP` -/
theorem round_length (V nP : V2 F) (delta : F) (rots : List (F × F)) :
    (roundJoin V nP delta rots).length = rots.length := by
  simp [roundJoin]

/-- the sampled point makes with `nP` the cosine of its rotation:
`(P − V)·nP = δ·c` -/
theorem round_angle (V nP : V2 F) (delta c s : F) (hP : dot nP nP = 1) :
    dot ((V.add (V2.smul delta (rotateCS nP c s))).sub V) nP = delta * c := by
  simp only [dot_eq] at hP
  simp only [dot_eq, V2.add, V2.sub, V2.smul, rotateCS, sc_mul, sc_sub, sc_add]
  linear_combination delta * c * hP

/-! ## square join -/

/-- square cap: both cap points lie on the line tangent to the circle of radius `|δ|` at the
bisector (their component along the unit bisector `b` is `δ`), at squared distance `δ² + half²`
from `V` -/
theorem squareCap_spec (V b : V2 F) (delta half : F) (hb : dot b b = 1) :
    ∀ P ∈ squareCap V b delta half,
      dot (P.sub V) b = delta ∧ dot (P.sub V) (P.sub V) = delta ^ 2 + half ^ 2 := by
  intro P hPm
  simp only [dot_eq] at hb
  simp only [squareCap, List.mem_cons, List.not_mem_nil, or_false] at hPm
  rcases hPm with rfl | rfl
  · simp only [dot_eq, V2.add, V2.sub, V2.smul, sc_mul, sc_sub, sc_add, sc_neg]
    constructor
    · linear_combination delta * hb
    · linear_combination (delta ^ 2 + half ^ 2) * hb
  · simp only [dot_eq, V2.add, V2.sub, V2.smul, sc_mul, sc_sub, sc_add, sc_neg]
    constructor
    · linear_combination delta * hb
    · linear_combination (delta ^ 2 + half ^ 2) * hb

/-- … symmetric about the bisector: the two points are `mid ∓ half·t`, `t = (−b.y, b.x)`, so their
components along the tangent are `−half` and `+half` -/
theorem squareCap_tangent (V b : V2 F) (delta half : F) (hb : dot b b = 1) :
    (squareCap V b delta half).map (fun P => dot (P.sub V) ⟨-b.y, b.x⟩) = [-half, half] := by
  simp only [dot_eq] at hb
  simp only [squareCap, List.map_cons, List.map_nil, dot_eq, V2.add, V2.sub, V2.smul, sc_mul,
    sc_sub, sc_add, sc_neg, List.cons.injEq, and_true]
  constructor
  · linear_combination (-half) * hb
  · linear_combination half * hb

/-- the code's half-width `|δ|·s/(1+c)` is at most `|δ|` (`c = cosHalf ≥ 0`, `s² = 1 − c²`) -/
theorem squareCap_half_le (delta c s : F) (hc : 0 ≤ c) (hcs : s ^ 2 = 1 - c ^ 2) :
    (|delta| * s / (1 + c)) ^ 2 ≤ delta ^ 2 := by
  have h1 : 0 < 1 + c := by linarith
  rw [div_pow, mul_pow, sq_abs, hcs, div_le_iff₀ (pow_pos h1 2)]
  nlinarith [mul_nonneg (sq_nonneg delta) hc, mul_nonneg (sq_nonneg delta) (sq_nonneg c)]

/-- with the code's half-width `half = |δ|·s/(1+c)` where `c = b·nP ≥ 0`, `s² = 1 − c²`
(`s = sinHalf`, `c = cosHalf`): `half ≤ |δ|`, so the cap stays within `√2·|δ|` -/
theorem squareCap_within (V b : V2 F) (delta c s : F) (hb : dot b b = 1) (hc : 0 ≤ c) (_hs : 0 ≤ s)
    (hcs : s ^ 2 = 1 - c ^ 2) :
    ∀ P ∈ squareCap V b delta (|delta| * s / (1 + c)),
      dot (P.sub V) (P.sub V) ≤ 2 * delta ^ 2 := by
  intro P hPm
  rw [(squareCap_spec V b delta _ hb P hPm).2]
  have := squareCap_half_le delta c s hc hcs
  linarith

/-- … `≤ L·|δ|` for every valid miter limit `L ≥ 2` -/
theorem squareCap_within_limit (V b : V2 F) (delta c s L : F) (hb : dot b b = 1) (hc : 0 ≤ c)
    (hcs : s ^ 2 = 1 - c ^ 2) (hL : 2 ≤ L) :
    ∀ P ∈ squareCap V b delta (|delta| * s / (1 + c)),
      dot (P.sub V) (P.sub V) ≤ (L * delta) ^ 2 := by
  intro P hPm
  rw [(squareCap_spec V b delta _ hb P hPm).2]
  have h1 := squareCap_half_le delta c s hc hcs
  have h2 : 0 ≤ (L - 2) * delta ^ 2 := mul_nonneg (by linarith) (sq_nonneg _)
  have h3 : 0 ≤ (L - 2) * (L * delta ^ 2) :=
    mul_nonneg (by linarith) (mul_nonneg (by linarith) (sq_nonneg _))
  nlinarith

private theorem squareCap_aux (delta c s sgn : F) (hc1 : 0 < 1 + c) (hcs : s ^ 2 = 1 - c ^ 2)
    (hsgn : |delta| * sgn = delta) :
    |delta| * s / (1 + c) * (sgn * s) = delta * (1 - c) := by
  have hne : 1 + c ≠ 0 := ne_of_gt hc1
  have h1 : |delta| * s / (1 + c) * (1 + c) = |delta| * s := by field_simp
  apply mul_right_cancel₀ hne
  linear_combination (sgn * s) * h1 + s ^ 2 * hsgn + delta * hcs

private theorem abs_mul_sign (delta : F) : |delta| * (if 0 ≤ delta then 1 else -1) = delta := by
  split
  · rw [abs_of_nonneg ‹_›, mul_one]
  · rw [abs_of_neg (not_le.1 ‹_›)]; ring

/-- the first cap point lies on the previous edge's offset line: for unit `nP` with `b·nP = c`,
`cross(b, nP) = −sgn·s` where `sgn = 1` if `0 ≤ δ` else `−1` (the convex-corner orientation
`cross·deltaSign > 0` of the code), `1 + c > 0` -/
theorem squareCap_on_prev_offset (V b nP : V2 F) (delta c s : F) (_hb : dot b b = 1)
    (_hP : dot nP nP = 1) (hc : dot b nP = c) (hc1 : 0 < 1 + c) (hcs : s ^ 2 = 1 - c ^ 2)
    (hx : cross b nP = -(if 0 ≤ delta then 1 else -1) * s) :
    dot (((squareCap V b delta (|delta| * s / (1 + c))).headD V).sub V) nP = delta := by
  have h2 := squareCap_aux delta c s _ hc1 hcs (abs_mul_sign delta)
  generalize (if 0 ≤ delta then (1 : F) else -1) = sgn at hx h2
  generalize |delta| * s / (1 + c) = h at h2 ⊢
  simp only [dot_eq, cross_eq] at hc hx
  simp only [squareCap, List.headD_cons, dot_eq, V2.add, V2.sub, V2.smul, sc_mul, sc_sub, sc_add,
    sc_neg]
  linear_combination delta * hc - h * hx + h2

/-- … and the second on the next edge's: for unit `nN` with `b·nN = c`, `cross(b, nN) = +sgn·s` -/
theorem squareCap_on_next_offset (V b nN : V2 F) (delta c s : F) (_hb : dot b b = 1)
    (_hN : dot nN nN = 1) (hc : dot b nN = c) (hc1 : 0 < 1 + c) (hcs : s ^ 2 = 1 - c ^ 2)
    (hx : cross b nN = (if 0 ≤ delta then 1 else -1) * s) :
    dot (((squareCap V b delta (|delta| * s / (1 + c))).getD 1 V).sub V) nN = delta := by
  have h2 := squareCap_aux delta c s _ hc1 hcs (abs_mul_sign delta)
  generalize (if 0 ≤ delta then (1 : F) else -1) = sgn at hx h2
  generalize |delta| * s / (1 + c) = h at h2 ⊢
  simp only [dot_eq, cross_eq] at hc hx
  simp only [squareCap, List.getD_cons_succ, List.getD_cons_zero, dot_eq, V2.add, V2.sub, V2.smul,
    sc_mul, sc_sub, sc_add, sc_neg]
  linear_combination delta * hc + h * hx + h2

/-- for the bisector of two unit normals the hypotheses of the two theorems above hold together:
`b = (nP + nN)/‖nP + nN‖` gives `b·nP = b·nN` and `cross(b, nP) = −cross(b, nN)` -/
theorem bisector_symm (nP nN b : V2 F) (len : F) (hP : dot nP nP = 1) (hN : dot nN nN = 1)
    (hlen : len ≠ 0) (hb : b = (nP.add nN).divs len) :
    dot b nP = dot b nN ∧ cross b nP = -cross b nN := by
  subst hb
  simp only [dot_eq] at hP hN
  simp only [dot_eq, cross_eq, V2.add, V2.divs, sc_div, sc_add]
  constructor
  · field_simp
    linear_combination hP - hN
  · field_simp
    ring

end Join

/-! ### non-vacuity at ℚ -/

section Examples

/-- a right-angle corner: unit normals `(1,0)`, `(0,1)`, `δ = 2`, miter point `(2,2)` -/
example : dot (⟨1, 0⟩ : V2 ℚ) ⟨1, 0⟩ = 1 ∧ dot (⟨0, 1⟩ : V2 ℚ) ⟨0, 1⟩ = 1 ∧
    0 < 1 + dot (⟨1, 0⟩ : V2 ℚ) ⟨0, 1⟩ := by
  simp
example : (miterPoint (⟨0, 0⟩ : V2 ℚ) ⟨1, 0⟩ ⟨0, 1⟩ 2).x = 2 ∧
    (miterPoint (⟨0, 0⟩ : V2 ℚ) ⟨1, 0⟩ ⟨0, 1⟩ 2).y = 2 := by decide +kernel
example : dot ((miterPoint (⟨0, 0⟩ : V2 ℚ) ⟨1, 0⟩ ⟨0, 1⟩ 2).sub ⟨0, 0⟩) ⟨1, 0⟩ = 2 :=
  (miter_on_both_offsets _ _ _ _ (by simp) (by simp) (by simp)).1
/-- miter limit `L = 2`: `2/L² − 1 = −1/2 ≤ 0 = nP·nN` -/
example : dot ((miterPoint (⟨0, 0⟩ : V2 ℚ) ⟨1, 0⟩ ⟨0, 1⟩ 2).sub ⟨0, 0⟩)
    ((miterPoint (⟨0, 0⟩ : V2 ℚ) ⟨1, 0⟩ ⟨0, 1⟩ 2).sub ⟨0, 0⟩) ≤ ((2 : ℚ) * 2) ^ 2 :=
  miter_within_limit _ _ _ _ 2 (by simp) (by simp) (by decide) (by simp; decide +kernel)
    (by simp)
/-- with a tie tolerance `1/100` -/
example : dot ((miterPoint (⟨0, 0⟩ : V2 ℚ) ⟨1, 0⟩ ⟨0, 1⟩ 2).sub ⟨0, 0⟩)
    ((miterPoint (⟨0, 0⟩ : V2 ℚ) ⟨1, 0⟩ ⟨0, 1⟩ 2).sub ⟨0, 0⟩) ≤
      2 * (2 : ℚ) ^ 2 / (2 / (2 * 2) - 1 / 100) :=
  miter_within_limit_tie _ _ _ _ 2 (1 / 100) (by simp) (by simp) (by decide +kernel)
    (by simp; decide +kernel)
/-- opposite normals: the fallback -/
example : miterPoint (⟨0, 0⟩ : V2 ℚ) ⟨1, 0⟩ ⟨-1, 0⟩ 2 = (⟨0, 0⟩ : V2 ℚ).add (V2.smul 2 ⟨1, 0⟩) :=
  miter_fallback _ _ _ _ (by simp)
/-- a true rational rotation `(3/5, 4/5)` of the unit normal `(4/5, 3/5)` -/
example : ∀ P ∈ roundJoin (⟨1, 1⟩ : V2 ℚ) ⟨4 / 5, 3 / 5⟩ 2 [(3 / 5, 4 / 5), (1, 0)],
    dot (P.sub ⟨1, 1⟩) (P.sub ⟨1, 1⟩) = 2 ^ 2 :=
  round_on_circle _ _ _ _ (by simp; decide +kernel) (by simp; decide +kernel)
example : dot (((⟨1, 1⟩ : V2 ℚ).add (V2.smul 2 ⟨4 / 5, 3 / 5⟩)).sub ⟨1, 1⟩) ⟨4 / 5, 3 / 5⟩ = 2 :=
  (endpoint_on_offset _ _ _ (by simp; decide +kernel)).1
/-- the square cap of the corner with normals `(3/5, ∓4/5)`: bisector `(1,0)`, `c = 3/5`, `s = 4/5`,
`δ = 2`, half-width `2·(4/5)/(8/5) = 1`; cap points `(2, ∓1)` -/
example : ∀ P ∈ squareCap (⟨0, 0⟩ : V2 ℚ) ⟨1, 0⟩ 2 (|2| * (4 / 5) / (1 + 3 / 5)),
    dot (P.sub ⟨0, 0⟩) (P.sub ⟨0, 0⟩) ≤ 2 * 2 ^ 2 :=
  squareCap_within _ _ _ (3 / 5) (4 / 5) (by simp) (by decide +kernel) (by decide +kernel)
    (by decide +kernel)
example : dot (((squareCap (⟨0, 0⟩ : V2 ℚ) ⟨1, 0⟩ 2 (|2| * (4 / 5) / (1 + 3 / 5))).headD ⟨0, 0⟩).sub
    ⟨0, 0⟩) ⟨3 / 5, -4 / 5⟩ = 2 :=
  squareCap_on_prev_offset _ _ _ _ (3 / 5) (4 / 5) (by simp) (by simp; decide +kernel) (by simp)
    (by decide +kernel) (by decide +kernel) (by decide +kernel)
example : dot (((squareCap (⟨0, 0⟩ : V2 ℚ) ⟨1, 0⟩ 2 (|2| * (4 / 5) / (1 + 3 / 5))).getD 1 ⟨0, 0⟩).sub
    ⟨0, 0⟩) ⟨3 / 5, 4 / 5⟩ = 2 :=
  squareCap_on_next_offset _ _ _ _ (3 / 5) (4 / 5) (by simp) (by simp; decide +kernel) (by simp)
    (by decide +kernel) (by decide +kernel) (by decide +kernel)
/-- inset (`δ = −2`): orientation flips, `sgn = −1` -/
example : dot (((squareCap (⟨0, 0⟩ : V2 ℚ) ⟨1, 0⟩ (-2) (|-2| * (4 / 5) / (1 + 3 / 5))).headD
    ⟨0, 0⟩).sub ⟨0, 0⟩) ⟨3 / 5, 4 / 5⟩ = -2 :=
  squareCap_on_prev_offset _ _ _ _ (3 / 5) (4 / 5) (by simp) (by simp; decide +kernel) (by simp)
    (by decide +kernel) (by decide +kernel) (by decide +kernel)
example : validMiterLimit (1 : ℚ) = 2 ∧ validMiterLimit (3 : ℚ) = 3 := by decide +kernel

end Examples

end MV.CrossOps
