/-
Lock-set discipline ⇒ happens-before race freedom (property C06).

If the lock monitor `lsAccept` accepts a trace and every access to a variable names the same guard,
then any two conflicting accesses are ordered by `HB`: between them the first thread released the
guard and the second one acquired it afterwards.
-/
import MV.Proof.SyncSpec

namespace MV.Sync

namespace AMap
variable {β : Type}

theorem get_del_ls (m : AMap β) (k k' : Nat) :
    get (del m k) k' = if k = k' then none else get m k' := by
  induction m with
  | nil => simp [del, get]
  | cons p t ih =>
    obtain ⟨a, v⟩ := p
    simp only [del, get]
    by_cases hak : a = k <;> by_cases hk : k = k' <;> simp_all [get]

theorem get_set_ls (m : AMap β) (k k' : Nat) (v : β) :
    get (set m k v) k' = if k = k' then some v else get m k' := by
  simp only [set, get, get_del_ls]
  split <;> simp_all

end AMap

/-- `e` is a plain access by thread `t` that names lock `l` as its guard -/
def IsAcc (e : Ev) (t l : Nat) : Prop := ∃ x, e = .rd t x (l + 1) ∨ e = .wr t x (l + 1)

/-! ### What one monitor step does to the owner of a lock -/

/-- a lock stays with its owner unless the owner releases it -/
theorem lsStep_keep {rank : Nat → Nat} {h h' : Held} {e : Ev} (hs : lsStep rank h e = some h')
    {l t d rk : Nat} (hg : AMap.get h l = some (t, d, rk)) :
    (∃ d' rk', AMap.get h' l = some (t, d', rk')) ∨ e = .rel t l := by
  cases e <;> simp only [lsStep] at hs <;> grind [AMap.get_set_ls, AMap.get_del_ls]

/-- an accepted guarded access holds its guard, and does not change the state -/
theorem lsStep_acc {rank : Nat → Nat} {h h' : Held} {e : Ev} (hs : lsStep rank h e = some h')
    {t l : Nat} (ha : IsAcc e t l) :
    h' = h ∧ ∃ d rk, AMap.get h l = some (t, d, rk) := by
  obtain ⟨x, rfl | rfl⟩ := ha <;> simp only [lsStep] at hs <;> grind

/-- a held lock was either held by the same owner before (and the event is not a release by
somebody else) or is being acquired by the owner right now -/
theorem lsStep_origin {rank : Nat → Nat} {h h' : Held} {e : Ev} (hs : lsStep rank h e = some h')
    {l o d rk : Nat} (hg : AMap.get h' l = some (o, d, rk)) :
    ((∃ d' rk', AMap.get h l = some (o, d', rk')) ∧ ∀ t', e = .rel t' l → t' = o) ∨
      ∃ m, e = .acq o l m := by
  cases e with
  | acq t l' mode =>
    by_cases hc : t = o ∧ l' = l
    · exact Or.inr ⟨mode, by rw [hc.1, hc.2]⟩
    · left
      simp only [lsStep] at hs
      grind [AMap.get_set_ls, AMap.get_del_ls]
  | rel t l' => simp only [lsStep] at hs; grind [AMap.get_set_ls, AMap.get_del_ls]
  | rd t x g => simp only [lsStep] at hs; grind
  | wr t x g => simp only [lsStep] at hs; grind
  | fadd t o n => simp only [lsStep] at hs; grind

/-! ### The two invariants -/

/-- every guarded access so far: its thread still owns the guard, or released it later -/
def Q1 (pre : List Ev) (h : Held) : Prop :=
  ∀ (i : Nat) (e : Ev) (t l : Nat), pre[i]? = some e → IsAcc e t l →
    (∃ d rk, AMap.get h l = some (t, d, rk)) ∨ ∃ r : Nat, i < r ∧ pre[r]? = some (Ev.rel t l)

/-- every held lock: its owner acquired it after every release of it by another thread -/
def Q2 (pre : List Ev) (h : Held) : Prop :=
  ∀ (l o d rk : Nat), AMap.get h l = some (o, d, rk) →
    ∃ a m : Nat, pre[a]? = some (Ev.acq o l m) ∧
      ∀ r t' : Nat, pre[r]? = some (Ev.rel t' l) → t' ≠ o → r < a

theorem lt_of_get {α : Type} {l : List α} {i : Nat} {a : α} (h : l[i]? = some a) : i < l.length := by
  rcases Nat.lt_or_ge i l.length with hlt | hge
  · exact hlt
  · rw [List.getElem?_eq_none hge] at h; cases h

theorem snoc_get {α : Type} {pre : List α} {e a : α} {i : Nat} (h : (pre ++ [e])[i]? = some a) :
    pre[i]? = some a ∨ (i = pre.length ∧ a = e) := by
  rw [List.getElem?_append] at h
  split at h
  · exact Or.inl h
  · right
    rw [List.getElem?_singleton] at h
    split at h
    · cases h; exact ⟨by omega, rfl⟩
    · cases h

theorem get_snoc_left {α : Type} {pre : List α} {e a : α} {i : Nat} (h : pre[i]? = some a) :
    (pre ++ [e])[i]? = some a := by
  rw [List.getElem?_append_left (lt_of_get h)]; exact h

theorem get_snoc_last {α : Type} (pre : List α) (e : α) : (pre ++ [e])[pre.length]? = some e := by
  simp

theorem Q1_step {rank : Nat → Nat} {pre : List Ev} {h h' : Held} {e : Ev}
    (hs : lsStep rank h e = some h') (q : Q1 pre h) : Q1 (pre ++ [e]) h' := by
  intro i e' t l hi ha
  rcases snoc_get hi with hi' | ⟨rfl, rfl⟩
  · rcases q i e' t l hi' ha with ⟨d, rk, hg⟩ | ⟨r, hir, hr⟩
    · rcases lsStep_keep hs hg with hk | rfl
      · exact Or.inl hk
      · exact Or.inr ⟨pre.length, lt_of_get hi', get_snoc_last _ _⟩
    · exact Or.inr ⟨r, hir, get_snoc_left hr⟩
  · obtain ⟨rfl, hg⟩ := lsStep_acc hs ha
    exact Or.inl hg

theorem Q2_step {rank : Nat → Nat} {pre : List Ev} {h h' : Held} {e : Ev}
    (hs : lsStep rank h e = some h') (q : Q2 pre h) : Q2 (pre ++ [e]) h' := by
  intro l o d rk hg
  rcases lsStep_origin hs hg with ⟨⟨d', rk', hg'⟩, hrel⟩ | ⟨m, rfl⟩
  · obtain ⟨a, m, ha, hbefore⟩ := q l o d' rk' hg'
    refine ⟨a, m, get_snoc_left ha, ?_⟩
    intro r t' hr hne
    rcases snoc_get hr with hr' | ⟨_, he⟩
    · exact hbefore r t' hr' hne
    · exact absurd (hrel t' he.symm) hne
  · refine ⟨pre.length, m, get_snoc_last _ _, ?_⟩
    intro r t' hr _
    rcases snoc_get hr with hr' | ⟨_, he⟩
    · exact lt_of_get hr'
    · cases he

theorem inv_run_ls {rank : Nat → Nat} (suf : List Ev) : ∀ (pre : List Ev) (h h' : Held),
    lsRun rank h suf = some h' → Q1 pre h → Q2 pre h → Q1 (pre ++ suf) h' ∧ Q2 (pre ++ suf) h' := by
  induction suf with
  | nil =>
    intro pre h h' hr q1 q2
    simp only [lsRun] at hr
    cases hr
    simpa using ⟨q1, q2⟩
  | cons e es ih =>
    intro pre h h' hr q1 q2
    simp only [lsRun] at hr
    split at hr
    · rename_i h1 hs
      have := ih (pre ++ [e]) h1 h' hr (Q1_step hs q1) (Q2_step hs q2)
      simpa using this
    · cases hr

/-- an accepted run can be stopped just before position `j` -/
theorem run_prefix {rank : Nat → Nat} (tr : List Ev) : ∀ (h hf : Held) (j : Nat) (b : Ev),
    lsRun rank h tr = some hf → tr[j]? = some b →
    ∃ h1 h2, lsRun rank h (tr.take j) = some h1 ∧ lsStep rank h1 b = some h2 := by
  induction tr with
  | nil => intro h hf j b _ hj; simp at hj
  | cons e es ih =>
    intro h hf j b hr hj
    simp only [lsRun] at hr
    split at hr
    · rename_i h1 hs
      cases j with
      | zero =>
        simp at hj
        subst hj
        exact ⟨h, h1, by simp [lsRun], hs⟩
      | succ j =>
        simp at hj
        obtain ⟨h2, h3, hr2, hs2⟩ := ih h1 hf j b hr hj
        exact ⟨h2, h3, by simp [lsRun, hs, hr2], hs2⟩
    · cases hr

theorem take_get {α : Type} {l : List α} {j r : Nat} {a : α} (h : (l.take j)[r]? = some a) :
    r < j ∧ l[r]? = some a := by
  rw [List.getElem?_take] at h
  split at h
  · exact ⟨by assumption, h⟩
  · cases h

theorem get_take {α : Type} {l : List α} {j r : Nat} {a : α} (hr : r < j) (h : l[r]? = some a) :
    (l.take j)[r]? = some a := by
  rw [List.getElem?_take, if_pos hr]; exact h

theorem acc_of_guarded {guard : Nat → Nat} {tr : List Ev} (hg : allGuarded guard tr = true)
    {i : Nat} {a : Ev} (hi : tr[i]? = some a) {x : Nat} {w : Bool} (ha : a.access = some (x, w)) :
    IsAcc a a.tid (guard x) := by
  have hmem : a ∈ tr := List.mem_of_getElem? hi
  have := (List.all_eq_true.1 hg) a hmem
  cases a with
  | rd t y g =>
    simp [Ev.access] at ha
    obtain ⟨rfl, _⟩ := ha
    simp at this
    exact ⟨y, Or.inl (by simp [Ev.tid, this])⟩
  | wr t y g =>
    simp [Ev.access] at ha
    obtain ⟨rfl, _⟩ := ha
    simp at this
    exact ⟨y, Or.inr (by simp [Ev.tid, this])⟩
  | acq t l m => simp [Ev.access] at ha
  | rel t l => simp [Ev.access] at ha
  | fadd t o n => simp [Ev.access] at ha

/-- Lock-set discipline is sound: if the lock monitor accepts the trace (mutexes are exclusive, every
access that names a guard holds it) and every access to a variable `x` names the same guard `guard x`,
then no two conflicting accesses are unordered by happens-before. -/
theorem lockset_sound (rank : Nat → Nat) (guard : Nat → Nat) (tr : List Ev)
    (hls : lsAccept rank tr = true) (hg : allGuarded guard tr = true) : RaceFree tr := by
  intro i j a b hij hi hj hc
  obtain ⟨htid, x, wa, wb, haa, hab, _⟩ := hc
  obtain ⟨hf, hrun⟩ := Option.isSome_iff_exists.1 hls
  obtain ⟨h1, h2, hr1, hs⟩ := run_prefix tr [] hf j b hrun hj
  have hinv := inv_run_ls (rank := rank) (tr.take j) [] [] h1 hr1
    (by intro i e t l hi; simp at hi) (by intro l o d rk hg; simp [AMap.get] at hg)
  rw [List.nil_append] at hinv
  obtain ⟨q1, q2⟩ := hinv
  have hia : IsAcc a a.tid (guard x) := acc_of_guarded hg hi haa
  have hib : IsAcc b b.tid (guard x) := acc_of_guarded hg hj hab
  obtain ⟨-, db, rkb, hgb⟩ := lsStep_acc hs hib
  rcases q1 i a a.tid (guard x) (get_take hij hi) hia with ⟨d, rk, hga⟩ | ⟨r, hir, hr⟩
  · rw [hga] at hgb
    injection hgb with hgb
    injection hgb with hgb
    exact absurd hgb htid
  · obtain ⟨hrj, hr'⟩ := take_get hr
    obtain ⟨p, m, hp, hbefore⟩ := q2 (guard x) b.tid db rkb hgb
    obtain ⟨hpj, hp'⟩ := take_get hp
    have hrp : r < p := hbefore r a.tid hr htid
    exact HB.trans (HB.po hir hi hr' rfl) (HB.trans (HB.sync hrp hr' hp') (HB.po hpj hp' hj rfl))

/-- non-vacuity: a two-thread trace that meets both hypotheses -/
example :
    lsAccept (fun _ => 0) [.acq 0 7 0, .wr 0 3 8, .rel 0 7, .acq 1 7 0, .rd 1 3 8, .rel 1 7] = true ∧
    allGuarded (fun _ => 7) [.acq 0 7 0, .wr 0 3 8, .rel 0 7, .acq 1 7 0, .rd 1 3 8, .rel 1 7] = true := by
  decide

/-- the guard is held by another thread: rejected -/
example : lsAccept (fun _ => 0) [.acq 0 7 0, .rd 1 3 8] = false := by decide

/-- exclusion: a second thread cannot acquire a held mutex -/
example : lsAccept (fun _ => 0) [.acq 0 7 0, .acq 1 7 0] = false := by decide

end MV.Sync
