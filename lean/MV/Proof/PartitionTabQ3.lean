import MV.Model.PartitionCheck
/-! Finite table for property C19 (kernel evaluation, no `native_decide`): the verified checker
accepts every cached subdivision pattern of the listed chunk.  Regenerated against the model on
every build; split into chunks so that lake checks them in parallel. -/
namespace MV.Partition

theorem tab_q3 : (canonQuads 3).all checkCached = true := by decide +kernel

end MV.Partition
