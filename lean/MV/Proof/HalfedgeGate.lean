import MV.Proof.HalfedgeSoupC
/-!
C09b, part D: `CheckHalfedges` / `IsManifold` as checked code: it never reads out of range on an
output of `createHalfedges` (every `paired` entry is `-1` or a halfedge index), and it returns
`true` exactly when `PairInv` holds.
-/
namespace MV.Halfedge
open MV.Mesh List

theorem nextI_nat (e : Nat) : nextI (e : Int) = ((nextHalfedge e : Nat) : Int) := by
  unfold nextI nextHalfedge
  have : Int.tmod (e : Int) 3 = ((e % 3 : Nat) : Int) := (Int.ofNat_tmod e 3).symm
  rw [this]
  by_cases h : e % 3 = 2
  · simp only [h, if_true]; norm_cast; omega
  · have : ¬ ((e % 3 : Nat) : Int) = 2 := by omega
    simp only [h, this, if_false]; norm_cast

theorem rd_bang {α : Type} [Inhabited α] {x : Array α} {k : Nat} (h : k < x.size) :
    rd x (k : Int) = .ok x[k]! := by
  apply rd_ok
  simp [getElem!_pos, h]

/-- `CheckHalfedges::operator()` evaluates without a fault and decides `GoodHalfedge` as soon as
`paired[e]` is `-1` or in range -/
theorem checkHalfedge_spec {o : Out} {n e : Nat} (hs : o.start.size = n) (hp : o.paired.size = n)
    (h3 : n % 3 = 0) (he : e < n)
    (hR : o.paired[e]! = -1 ∨ (0 ≤ o.paired[e]! ∧ o.paired[e]! < n)) :
    ∃ b, checkHalfedge o e = .ok b ∧ (b = true ↔ GoodHalfedge o.start o.paired e) := by
  have hn1 := next_lt h3 he
  have hn2 := next_lt h3 hn1
  have r0 : rd o.start (e : Int) = .ok o.start[e]! := rd_bang (by omega)
  have r1 : rd o.start (nextI e) = .ok o.start[nextHalfedge e]! := by
    rw [nextI_nat]; exact rd_bang (by omega)
  have r2 : rd o.paired (e : Int) = .ok o.paired[e]! := rd_bang (by omega)
  have r3 : rd o.start (nextI (nextI e)) = .ok o.start[nextHalfedge (nextHalfedge e)]! := by
    rw [nextI_nat, nextI_nat]; exact rd_bang (by omega)
  unfold checkHalfedge
  simp only [r0, r1, r2, r3, bind, Except.bind, pure, Except.pure]
  unfold GoodHalfedge Tomb endOf
  by_cases c1 : (o.start[e]! == -1 && o.start[nextHalfedge e]! == -1 && o.paired[e]! == -1) = true
  · simp only [c1, if_true]
    refine ⟨true, rfl, ?_⟩
    simp only [Bool.and_eq_true, beq_iff_eq] at c1
    simp [c1.1.1, c1.1.2, c1.2]
  · simp only [c1, Bool.false_eq_true, if_false]
    have c1' : ¬ (o.start[e]! = -1 ∧ o.start[nextHalfedge e]! = -1 ∧ o.paired[e]! = -1) := by
      intro h; apply c1; simp [h.1, h.2.1, h.2.2]
    by_cases c2 : o.start[nextHalfedge e]! = -1
    · have c2b : (o.start[nextHalfedge e]! == -1) = true := by simp [c2]
      simp only [c2b, if_true]
      refine ⟨false, rfl, ⟨fun h => Bool.noConfusion h, ?_⟩⟩
      rintro (h | h)
      · exact absurd h c1'
      · exact absurd c2 h.1
    · have c2' : (o.start[nextHalfedge e]! == -1) = false := by simpa using c2
      simp only [c2', Bool.false_eq_true, if_false]
      by_cases c3 : o.start[nextHalfedge (nextHalfedge e)]! = -1
      · have c3b : (o.start[nextHalfedge (nextHalfedge e)]! == -1) = true := by simp [c3]
        simp only [c3b, if_true]
        refine ⟨false, rfl, ⟨fun h => Bool.noConfusion h, ?_⟩⟩
        rintro (h | h)
        · exact absurd h c1'
        · exact absurd c3 h.2.1
      · have c3' : (o.start[nextHalfedge (nextHalfedge e)]! == -1) = false := by simpa using c3
        simp only [c3', Bool.false_eq_true, if_false]
        by_cases c4 : o.paired[e]! = -1
        · have c4b : (o.paired[e]! == -1) = true := by simp [c4]
          simp only [c4b, if_true]
          refine ⟨false, rfl, ⟨fun h => Bool.noConfusion h, ?_⟩⟩
          rintro (h | h)
          · exact absurd h c1'
          · have := h.2.2.1; omega
        · have c4' : (o.paired[e]! == -1) = false := by simpa using c4
          simp only [c4', Bool.false_eq_true, if_false]
          obtain ⟨hp0, hpn⟩ := hR.resolve_left c4
          obtain ⟨q, hq⟩ := Int.eq_ofNat_of_zero_le hp0
          have hqn : q < n := by omega
          have r4 : rd o.paired o.paired[e]! = .ok o.paired[q]! := by rw [hq]; exact rd_bang (by omega)
          have r5 : rd o.start (nextI o.paired[e]!) = .ok o.start[nextHalfedge q]! := by
            rw [hq, nextI_nat]; exact rd_bang (by have := next_lt h3 hqn; omega)
          have r6 : rd o.start o.paired[e]! = .ok o.start[q]! := by rw [hq]; exact rd_bang (by omega)
          simp only [r4, r5, r6]
          refine ⟨_, rfl, ?_⟩
          have hq' : (o.paired[e]!).toNat = q := by omega
          simp only [hq', Bool.and_eq_true, beq_iff_eq, bne_iff_ne, ne_eq]
          constructor
          · rintro ⟨⟨⟨a1, a2⟩, a3⟩, a4⟩
            exact .inr ⟨c2, c3, hp0, by omega, a1, a2, a3, a4⟩
          · rintro (h | ⟨_, _, _, _, a1, a2, a3, a4⟩)
            · exact absurd h c1'
            · exact ⟨⟨⟨a1, a2⟩, a3⟩, a4⟩


/-- every `paired` entry is `-1` or a halfedge index: what makes `Pair(pair)`, `End(pair)`,
`Start(pair)` of `CheckHalfedges` safe -/
def PairRange (o : Out) : Prop :=
  ∀ e, e < o.start.size → o.paired[e]! = -1 ∨ (0 ≤ o.paired[e]! ∧ o.paired[e]! < o.start.size)

theorem allCheck_spec {o : Out} {n : Nat} (hs : o.start.size = n) (hp : o.paired.size = n)
    (h3 : n % 3 = 0) (hR : PairRange o) :
    ∀ (m e : Nat) (acc : Bool), e + m = n →
      ∃ b, allCheck o m e acc = .ok b ∧
        (b = true ↔ acc = true ∧ ∀ e', e ≤ e' → e' < n → GoodHalfedge o.start o.paired e')
  | 0, e, acc, hm => ⟨acc, rfl, by
      constructor
      · intro h; exact ⟨h, fun e' h1 h2 => by omega⟩
      · intro h; exact h.1⟩
  | m + 1, e, acc, hm => by
    have he : e < n := by omega
    obtain ⟨g, hg, hgi⟩ := checkHalfedge_spec hs hp h3 he (by have := hR e (by omega); rw [hs] at this; exact this)
    obtain ⟨b, hb, hbi⟩ := allCheck_spec hs hp h3 hR m (e + 1) (acc && g) (by omega)
    refine ⟨b, ?_, ?_⟩
    · rw [allCheck]; simp only [hg, bind, Except.bind]; exact hb
    · rw [hbi, Bool.and_eq_true, hgi]
      constructor
      · rintro ⟨⟨h1, h2⟩, h3'⟩
        refine ⟨h1, fun e' h4 h5 => ?_⟩
        by_cases h6 : e' = e
        · rw [h6]; exact h2
        · exact h3' e' (by omega) h5
      · rintro ⟨h1, h2⟩
        exact ⟨⟨h1, h2 e (Nat.le_refl e) he⟩, fun e' h4 h5 => h2 e' (by omega) h5⟩

/-- `Impl::IsManifold()` never faults under `PairRange` and decides `PairInv` -/
theorem isManifold_spec {o : Out} (hp : o.paired.size = o.start.size) (hR : PairRange o) :
    ∃ b, isManifold o = .ok b ∧ (b = true ↔ PairInv o.start o.paired) := by
  unfold isManifold PairInv
  by_cases h0 : o.start.size = 0
  · simp only [h0, if_true]
    exact ⟨true, rfl, by simp [hp, h0]⟩
  · simp only [h0, if_false]
    by_cases h3 : o.start.size % 3 = 0
    · have h3' : ¬ (o.start.size % 3 ≠ 0) := by simpa using h3
      simp only [h3', if_false]
      obtain ⟨b, hb, hbi⟩ := allCheck_spec rfl hp h3 hR o.start.size 0 true (by omega)
      refine ⟨b, hb, ?_⟩
      rw [hbi]
      constructor
      · rintro ⟨_, h⟩; exact ⟨hp.symm, h3, fun e he => h e (Nat.zero_le e) he⟩
      · rintro ⟨_, _, h⟩; exact ⟨rfl, fun e _ he => h e he⟩
    · have h3' : o.start.size % 3 ≠ 0 := h3
      rw [if_pos h3']
      exact ⟨false, rfl, ⟨fun h => Bool.noConfusion h, fun h => absurd h.2.1 h3⟩⟩

theorem SoupResult.pairRange {ts : List Tri} {s : St} {o : Out} (r : SoupResult ts s o) : PairRange o := by
  intro e he
  rw [r.ssize] at he ⊢
  cases hr : s.removed.getD e false
  · obtain ⟨_, _, e', he', _, _, h1, _⟩ := r.alive e he hr
    right; rw [get!_of h1]; omega
  · left; exact get!_of (r.dead e he hr).2.1

/-- removed halfedges are exactly the full tombstones once the gate has passed; kept halfedges carry
the input's directed edge and are paired with a kept halfedge carrying the reversed edge -/
theorem SoupResult.of_pairInv {ts : List Tri} {s : St} {o : Out} (r : SoupResult ts s o)
    (hpi : PairInv o.start o.paired) (e : Nat) (he : e < 3 * ts.length) :
    (s.removed.getD e false = true → Tomb o.start o.paired e ∧ s.removed.getD (nextHalfedge e) false = true) ∧
    (s.removed.getD e false = false → ¬ Tomb o.start o.paired e ∧
      s.removed.getD (nextHalfedge e) false = false ∧
      o.start[e]! = ((edgeAt ts e).1 : Int) ∧ endOf o.start e = ((edgeAt ts e).2 : Int) ∧
      ∃ e', e' < 3 * ts.length ∧ e' ≠ e ∧ s.removed.getD e' false = false ∧ o.paired[e]! = (e' : Int) ∧
        o.paired[e']! = (e : Int) ∧ edgeAt ts e' = ((edgeAt ts e).2, (edgeAt ts e).1)) := by
  have h3 : (3 * ts.length) % 3 = 0 := by omega
  have hne := next_lt h3 he
  have hg := hpi.2.2 e (by rw [r.ssize]; exact he)
  -- status of `next e` from the value of `start[next e]`
  have nextDead : o.start[nextHalfedge e]! = -1 → s.removed.getD (nextHalfedge e) false = true := by
    intro h
    cases hr : s.removed.getD (nextHalfedge e) false
    · have := get!_of (r.alive _ hne hr).1; rw [this] at h; omega
    · rfl
  have nextAlive : o.start[nextHalfedge e]! ≠ -1 → s.removed.getD (nextHalfedge e) false = false := by
    intro h
    cases hr : s.removed.getD (nextHalfedge e) false
    · rfl
    · exact absurd (get!_of (r.dead _ hne hr).1) h
  constructor
  · intro hr
    obtain ⟨d1, d2, _⟩ := r.dead e he hr
    rcases hg with ht | hg
    · exact ⟨ht, nextDead ht.2.1⟩
    · have := hg.2.2.1; rw [get!_of d2] at this; omega
  · intro hr
    obtain ⟨a1, _, e', he', hne', hr', p1, p2⟩ := r.alive e he hr
    have hs1 := get!_of a1
    have hnt : ¬ Tomb o.start o.paired e := by intro ht; have := ht.1; rw [hs1] at this; omega
    have hg := hg.resolve_left hnt
    have hna := nextAlive hg.1
    have hen : endOf o.start e = ((edgeAt ts e).2 : Int) := by
      unfold endOf
      rw [get!_of (r.alive _ hne hna).1]
      have := dirEdges_next (0, 0) ts e he
      unfold edgeAt; rw [this]
    refine ⟨hnt, hna, hs1, hen, e', he', hne', hr', get!_of p1, get!_of p2, ?_⟩
    -- the partner carries the reversed edge
    have hq : (o.paired[e]!).toNat = e' := by rw [get!_of p1]; simp
    have g1 := hg.2.2.2.2.2.2.1   -- start[e] = endOf (paired e)
    have g2 := hg.2.2.2.2.2.2.2   -- endOf e = start[paired e]
    rw [hq] at g1 g2
    obtain ⟨b1, _, _⟩ := r.alive e' he' hr'
    have hs1' := get!_of b1
    -- `next e'` is alive too (e' is not a tombstone and passes the gate)
    have hg' := hpi.2.2 e' (by rw [r.ssize]; exact he')
    have hnt' : ¬ Tomb o.start o.paired e' := by intro ht; have := ht.1; rw [hs1'] at this; omega
    have hg' := hg'.resolve_left hnt'
    have hne2 := next_lt h3 he'
    have hna' : s.removed.getD (nextHalfedge e') false = false := by
      cases hrr : s.removed.getD (nextHalfedge e') false
      · rfl
      · exact absurd (get!_of (r.dead _ hne2 hrr).1) hg'.1
    have hen' : endOf o.start e' = ((edgeAt ts e').2 : Int) := by
      unfold endOf
      rw [get!_of (r.alive _ hne2 hna').1]
      have := dirEdges_next (0, 0) ts e' he'
      unfold edgeAt; rw [this]
    rw [hs1, hen'] at g1
    rw [hen, hs1'] at g2
    apply Prod.ext
    · show (edgeAt ts e').1 = (edgeAt ts e).2; omega
    · show (edgeAt ts e').2 = (edgeAt ts e).1; omega

end MV.Halfedge
