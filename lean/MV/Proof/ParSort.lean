/-
Lemmas for the sorting half of `MV/Model/Par.lean` (property C13, part b).
Core Lean only.

Everything is stated for an arbitrary comparator `lt : α → α → Bool` that is a strict weak
order.  The two hypotheses actually used are packaged in `StrictWeak`:
  asymm    : lt a b = true → lt b a = false
  negTrans : lt a b = false → lt b c = false → lt a c = false
(`StrictWeak.of_std` derives them from the usual irreflexive / transitive /
incomparability-is-transitive presentation; `StrictWeak.irrefl`, `.trans`, `.incomp_trans`
go the other way, so the two presentations are equivalent.)
-/
import MV.Model.Par

namespace MV.Par

variable {α : Type}

/-! ## strict weak orders -/

/-- `lt` is a strict weak order (asymmetric and negatively transitive). -/
structure StrictWeak (lt : α → α → Bool) : Prop where
  asymm : ∀ a b, lt a b = true → lt b a = false
  negTrans : ∀ a b c, lt a b = false → lt b c = false → lt a c = false

namespace StrictWeak
variable {lt : α → α → Bool}

theorem irrefl (h : StrictWeak lt) (a : α) : lt a a = false := by
  cases e : lt a a with
  | false => rfl
  | true => have := h.asymm a a e; simp_all

theorem trans (h : StrictWeak lt) {a b c : α} (hab : lt a b = true) (hbc : lt b c = true) :
    lt a c = true := by
  cases e : lt a c with
  | true => rfl
  | false =>
    have := h.negTrans a c b e (h.asymm b c hbc)
    simp_all

/-- `lt a b` and `b ≤ c` give `lt a c` -/
theorem lt_of_lt_of_not_lt (h : StrictWeak lt) {a b c : α} (hab : lt a b = true)
    (hcb : lt c b = false) : lt a c = true := by
  cases e : lt a c with
  | true => rfl
  | false => have := h.negTrans a c b e hcb; simp_all

/-- `a ≤ b` and `lt b c` give `lt a c` -/
theorem lt_of_not_lt_of_lt (h : StrictWeak lt) {a b c : α} (hba : lt b a = false)
    (hbc : lt b c = true) : lt a c = true := by
  cases e : lt a c with
  | true => rfl
  | false => have := h.negTrans b a c hba e; simp_all

theorem incomp_trans (h : StrictWeak lt) {a b c : α}
    (hab : lt a b = false) (hba : lt b a = false) (hbc : lt b c = false) (hcb : lt c b = false) :
    lt a c = false ∧ lt c a = false :=
  ⟨h.negTrans a b c hab hbc, h.negTrans c b a hcb hba⟩

/-- the textbook presentation implies ours -/
theorem of_std
    (irr : ∀ a, lt a a = false)
    (tr : ∀ a b c, lt a b = true → lt b c = true → lt a c = true)
    (inc : ∀ a b c, lt a b = false → lt b a = false → lt b c = false → lt c b = false →
      lt a c = false ∧ lt c a = false) : StrictWeak lt where
  asymm a b hab := by
    cases e : lt b a with
    | false => rfl
    | true => have := tr a b a hab e; simp_all
  negTrans a b c hab hbc := by
    cases e : lt a c with
    | false => rfl
    | true =>
      cases e1 : lt b a with
      | true => have := tr b a c e1 e; simp_all
      | false =>
        cases e2 : lt c b with
        | true => have := tr a c b e e2; simp_all
        | false => have := (inc a b c hab e1 hbc e2).1; simp_all

end StrictWeak

/-- the comparator `<` on `Nat` as a Bool-valued function -/
def natLt : Nat → Nat → Bool := fun a b => decide (a < b)

theorem strictWeak_natLt : StrictWeak natLt where
  asymm a b h := by simp [natLt] at *; omega
  negTrans a b c h1 h2 := by simp [natLt] at *; omega

/-! ## sortedness, key classes, stability -/

/-- sorted w.r.t. `lt`: no later element is strictly less than an earlier one -/
def SortedBy (lt : α → α → Bool) (l : List α) : Prop := l.Pairwise (fun a b => lt b a = false)

/-- the key class of `a`: elements incomparable with `a` -/
def cls (lt : α → α → Bool) (a : α) : α → Bool := fun x => !lt x a && !lt a x

/-- `l'` is a stable rearrangement of `l`: every key class appears in `l'` exactly as
(same elements, same order) it appears in `l`. -/
def StableWrt (lt : α → α → Bool) (l l' : List α) : Prop :=
  ∀ a, l'.filter (cls lt a) = l.filter (cls lt a)

instance (lt : α → α → Bool) (l : List α) : Decidable (SortedBy lt l) :=
  inferInstanceAs (Decidable (l.Pairwise _))

theorem SortedBy.nil {lt : α → α → Bool} : SortedBy lt [] := List.Pairwise.nil

theorem SortedBy.take {lt : α → α → Bool} {l : List α} (h : SortedBy lt l) (n : Nat) :
    SortedBy lt (l.take n) := List.Pairwise.sublist (List.take_sublist n l) h

theorem SortedBy.drop {lt : α → α → Bool} {l : List α} (h : SortedBy lt l) (n : Nat) :
    SortedBy lt (l.drop n) := List.Pairwise.sublist (List.drop_sublist n l) h

theorem sortedBy_cons {lt : α → α → Bool} {a : α} {l : List α} :
    SortedBy lt (a :: l) ↔ (∀ b ∈ l, lt b a = false) ∧ SortedBy lt l := List.pairwise_cons

theorem sortedBy_natLt_iff {l : List Nat} : SortedBy natLt l ↔ l.Pairwise (· ≤ ·) := by
  unfold SortedBy natLt
  constructor <;> intro h <;> refine h.imp ?_ <;> intro a b hab <;> simp at * <;> omega

theorem cls_self {lt : α → α → Bool} (h : StrictWeak lt) (a : α) : cls lt a a = true := by
  simp [cls, h.irrefl]

/-- two members of one class are incomparable -/
theorem cls_incomp {lt : α → α → Bool} (h : StrictWeak lt) {a x y : α}
    (hx : cls lt a x = true) (hy : cls lt a y = true) : lt x y = false ∧ lt y x = false := by
  simp [cls] at hx hy
  exact h.incomp_trans hx.1 hx.2 hy.2 hy.1

/-! ## uniqueness of the stable sorted arrangement -/

/-- Two sorted lists with the same per-class subsequences are equal.  (No permutation
hypothesis is needed: it follows from the class condition.) -/
theorem sorted_unique_of_cls {lt : α → α → Bool} (sw : StrictWeak lt) :
    ∀ (l' l'' : List α), SortedBy lt l' → SortedBy lt l'' →
      (∀ a, l'.filter (cls lt a) = l''.filter (cls lt a)) → l' = l''
  | [], [], _, _, _ => rfl
  | [], y :: t, _, _, h => by
    have := h y; simp [cls_self sw] at this
  | x :: t, [], _, _, h => by
    have := h x; simp [cls_self sw] at this
  | x :: t', y :: t'', s1, s2, h => by
    rw [sortedBy_cons] at s1 s2
    -- `y ∈ x :: t'` and `x ∈ y :: t''`
    have hy : y ∈ x :: t' := by
      have : y ∈ (x :: t').filter (cls lt y) := by rw [h y]; simp [cls_self sw]
      exact (List.mem_filter.mp this).1
    have hx : x ∈ y :: t'' := by
      have : x ∈ (y :: t'').filter (cls lt x) := by rw [← h x]; simp [cls_self sw]
      exact (List.mem_filter.mp this).1
    have hyx : lt y x = false := by
      rcases List.mem_cons.mp hy with e | m
      · subst e; exact sw.irrefl _
      · exact s1.1 y m
    have hxy : lt x y = false := by
      rcases List.mem_cons.mp hx with e | m
      · subst e; exact sw.irrefl _
      · exact s2.1 x m
    have hxe : x = y := by
      have := h x
      have c : cls lt x y = true := by simp [cls, hyx, hxy]
      simp [cls_self sw, c] at this
      exact this.1
    subst hxe
    have ht : t' = t'' := by
      apply sorted_unique_of_cls sw t' t'' s1.2 s2.2
      intro a
      have := h a
      by_cases c : cls lt a x = true
      · simpa [c] using this
      · simpa [c] using this
    rw [ht]

/-- **Uniqueness of the stable sort.**  Two sorted, stable rearrangements of `l` are equal. -/
theorem stable_unique' {lt : α → α → Bool} (sw : StrictWeak lt) {l l' l'' : List α}
    (s1 : SortedBy lt l') (s2 : SortedBy lt l'')
    (st1 : StableWrt lt l l') (st2 : StableWrt lt l l'') : l' = l'' :=
  sorted_unique_of_cls sw l' l'' s1 s2 (fun a => (st1 a).trans (st2 a).symm)

/-! ## `mergeSeq` (std::merge) -/

@[simp] theorem mergeSeq_nil_left (lt : α → α → Bool) (l : List α) : mergeSeq lt [] l = l := by
  simp [mergeSeq]

@[simp] theorem mergeSeq_nil_right (lt : α → α → Bool) (l : List α) : mergeSeq lt l [] = l := by
  cases l <;> simp [mergeSeq]

theorem mergeSeq_cons_cons (lt : α → α → Bool) (x y : α) (xs ys : List α) :
    mergeSeq lt (x :: xs) (y :: ys) =
      if lt y x then y :: mergeSeq lt (x :: xs) ys else x :: mergeSeq lt xs (y :: ys) := by
  simp [mergeSeq]

theorem mergeSeq_perm (lt : α → α → Bool) :
    ∀ (l1 l2 : List α), (mergeSeq lt l1 l2).Perm (l1 ++ l2)
  | [], l2 => by simp
  | x :: xs, [] => by simp
  | x :: xs, y :: ys => by
    rw [mergeSeq_cons_cons]
    split
    · have ih := mergeSeq_perm lt (x :: xs) ys
      exact (List.Perm.cons y ih).trans (List.perm_middle (l₁ := x :: xs)).symm
    · have ih := mergeSeq_perm lt xs (y :: ys)
      exact List.Perm.cons x ih

theorem mem_mergeSeq {lt : α → α → Bool} {l1 l2 : List α} {a : α} :
    a ∈ mergeSeq lt l1 l2 ↔ a ∈ l1 ∨ a ∈ l2 := by
  rw [(mergeSeq_perm lt l1 l2).mem_iff, List.mem_append]

theorem length_mergeSeq (lt : α → α → Bool) (l1 l2 : List α) :
    (mergeSeq lt l1 l2).length = l1.length + l2.length := by
  rw [(mergeSeq_perm lt l1 l2).length_eq, List.length_append]

theorem mergeSeq_sorted {lt : α → α → Bool} (sw : StrictWeak lt) :
    ∀ (l1 l2 : List α), SortedBy lt l1 → SortedBy lt l2 → SortedBy lt (mergeSeq lt l1 l2)
  | [], l2, _, h2 => by simpa using h2
  | x :: xs, [], h1, _ => by simpa using h1
  | x :: xs, y :: ys, h1, h2 => by
    rw [mergeSeq_cons_cons]
    have h1' := sortedBy_cons.mp h1
    have h2' := sortedBy_cons.mp h2
    split
    next hyx =>
      refine sortedBy_cons.mpr ⟨?_, mergeSeq_sorted sw (x :: xs) ys h1 h2'.2⟩
      intro b hb
      rcases mem_mergeSeq.mp hb with hb | hb
      · -- b ∈ x :: xs, so x ≤ b, and y < x
        have hbx : lt b x = false := by
          rcases List.mem_cons.mp hb with e | m
          · subst e; exact sw.irrefl _
          · exact h1'.1 b m
        exact sw.negTrans b x y hbx (sw.asymm y x hyx)
      · exact h2'.1 b hb
    next hyx =>
      have hyx : lt y x = false := by simpa using hyx
      refine sortedBy_cons.mpr ⟨?_, mergeSeq_sorted sw xs (y :: ys) h1'.2 h2⟩
      intro b hb
      rcases mem_mergeSeq.mp hb with hb | hb
      · exact h1'.1 b hb
      · rcases List.mem_cons.mp hb with e | m
        · subst e; exact hyx
        · exact sw.negTrans b y x (h2'.1 b m) hyx

/-- **Stability of `std::merge`**: restricted to any key class, the merge is the class
members of `l1` followed by those of `l2`. -/
theorem mergeSeq_filter_cls {lt : α → α → Bool} (sw : StrictWeak lt) (a : α) :
    ∀ (l1 l2 : List α), SortedBy lt l1 →
      (mergeSeq lt l1 l2).filter (cls lt a) = l1.filter (cls lt a) ++ l2.filter (cls lt a)
  | [], l2, _ => by simp
  | x :: xs, [], _ => by simp
  | x :: xs, y :: ys, h1 => by
    rw [mergeSeq_cons_cons]
    have h1' := sortedBy_cons.mp h1
    split
    next hyx =>
      have ih := mergeSeq_filter_cls sw a (x :: xs) ys h1
      by_cases c : cls lt a y = true
      · -- nothing in `x :: xs` is in the class of `y`
        have hnil : (x :: xs).filter (cls lt a) = [] := by
          rw [List.filter_eq_nil_iff]
          intro z hz cz
          have hzx : lt z x = false := by
            rcases List.mem_cons.mp hz with e | m
            · subst e; exact sw.irrefl _
            · exact h1'.1 z m
          have hyz : lt y z = true := sw.lt_of_lt_of_not_lt hyx hzx
          have := (cls_incomp sw c cz).1
          simp_all
        rw [List.filter_cons_of_pos c, ih, hnil, List.filter_cons_of_pos c]
        simp
      · rw [List.filter_cons_of_neg c, ih, List.filter_cons_of_neg (l := ys) c]
    next hyx =>
      have ih := mergeSeq_filter_cls sw a xs (y :: ys) h1'.2
      by_cases c : cls lt a x = true
      · rw [List.filter_cons_of_pos c, ih, List.filter_cons_of_pos c]; simp
      · rw [List.filter_cons_of_neg c, ih, List.filter_cons_of_neg c]

theorem mergeSeq_stable {lt : α → α → Bool} (sw : StrictWeak lt) {l1 l2 : List α}
    (h1 : SortedBy lt l1) : StableWrt lt (l1 ++ l2) (mergeSeq lt l1 l2) := by
  intro a; rw [mergeSeq_filter_cls sw a l1 l2 h1, List.filter_append]

/-! ## `insertStable` / `stableSort` (the std::stable_sort specification) -/

/-- inserting after equal keys is merging with a singleton on the right -/
theorem insertStable_eq_mergeSeq (lt : α → α → Bool) (x : α) :
    ∀ l : List α, insertStable lt x l = mergeSeq lt l [x]
  | [] => by simp [insertStable]
  | y :: ys => by
    rw [insertStable, mergeSeq_cons_cons, insertStable_eq_mergeSeq lt x ys]
    simp

theorem sortedBy_singleton (lt : α → α → Bool) (x : α) : SortedBy lt [x] :=
  List.pairwise_singleton _ _

/-- invariant of the insertion loop -/
theorem foldl_insertStable {lt : α → α → Bool} (sw : StrictWeak lt) :
    ∀ (xs acc : List α), SortedBy lt acc →
      SortedBy lt (xs.foldl (fun acc x => insertStable lt x acc) acc) ∧
      (xs.foldl (fun acc x => insertStable lt x acc) acc).Perm (acc ++ xs) ∧
      StableWrt lt (acc ++ xs) (xs.foldl (fun acc x => insertStable lt x acc) acc)
  | [], acc, h => by simp [h, StableWrt]
  | x :: xs, acc, h => by
    have hs : SortedBy lt (insertStable lt x acc) := by
      rw [insertStable_eq_mergeSeq]; exact mergeSeq_sorted sw _ _ h (sortedBy_singleton lt x)
    have ih := foldl_insertStable sw xs (insertStable lt x acc) hs
    rw [List.foldl_cons]
    refine ⟨ih.1, ?_, ?_⟩
    · refine ih.2.1.trans ?_
      rw [insertStable_eq_mergeSeq]
      have := (mergeSeq_perm lt acc [x]).append_right xs
      simpa using this
    · intro a
      rw [ih.2.2 a, List.filter_append, insertStable_eq_mergeSeq,
        mergeSeq_filter_cls sw a acc [x] h]
      by_cases c : cls lt a x = true <;> simp [c]

theorem stableSort_sorted {lt : α → α → Bool} (sw : StrictWeak lt) (xs : List α) :
    SortedBy lt (stableSort lt xs) :=
  (foldl_insertStable sw xs [] SortedBy.nil).1

theorem stableSort_perm {lt : α → α → Bool} (sw : StrictWeak lt) (xs : List α) :
    (stableSort lt xs).Perm xs := by
  simpa [stableSort] using (foldl_insertStable sw xs [] SortedBy.nil).2.1

theorem stableSort_stable {lt : α → α → Bool} (sw : StrictWeak lt) (xs : List α) :
    StableWrt lt xs (stableSort lt xs) := by
  simpa [stableSort] using (foldl_insertStable sw xs [] SortedBy.nil).2.2

theorem length_stableSort {lt : α → α → Bool} (sw : StrictWeak lt) (xs : List α) :
    (stableSort lt xs).length = xs.length := (stableSort_perm sw xs).length_eq

/-- characterisation: the only sorted stable rearrangement of `xs` is `stableSort lt xs` -/
theorem eq_stableSort {lt : α → α → Bool} (sw : StrictWeak lt) {xs l : List α}
    (hs : SortedBy lt l) (hst : StableWrt lt xs l) : l = stableSort lt xs :=
  stable_unique' sw hs (stableSort_sorted sw xs) hst (stableSort_stable sw xs)

/-- merging the stable sorts of two halves is the stable sort of the whole -/
theorem mergeSeq_stableSort {lt : α → α → Bool} (sw : StrictWeak lt) (l1 l2 : List α) :
    mergeSeq lt (stableSort lt l1) (stableSort lt l2) = stableSort lt (l1 ++ l2) := by
  apply eq_stableSort sw
  · exact mergeSeq_sorted sw _ _ (stableSort_sorted sw l1) (stableSort_sorted sw l2)
  · intro a
    rw [mergeSeq_filter_cls sw a _ _ (stableSort_sorted sw l1), stableSort_stable sw l1 a,
      stableSort_stable sw l2 a, List.filter_append]

/-! ## the split lemma behind the parallel merge -/

/-- If everything in `a1` may precede everything in `b2` (`≤`, ties go to the left range) and
everything in `a2` must precede everything in `b1` (strictly less), the merge of the
concatenations is the concatenation of the merges.  No sortedness is needed here. -/
theorem mergeSeq_append_append (lt : α → α → Bool) :
    ∀ (a1 a2 b1 b2 : List α),
      (∀ x ∈ a1, ∀ y ∈ b2, lt y x = false) → (∀ y ∈ a2, ∀ x ∈ b1, lt y x = true) →
      mergeSeq lt (a1 ++ b1) (a2 ++ b2) = mergeSeq lt a1 a2 ++ mergeSeq lt b1 b2
  | [], [], b1, b2, _, _ => by simp
  | [], y :: a2, b1, b2, hA, hB => by
    have ih := mergeSeq_append_append lt [] a2 b1 b2 (by simp)
      (fun y' hy' => hB y' (List.mem_cons_of_mem _ hy'))
    simp only [List.nil_append, mergeSeq_nil_left] at ih ⊢
    cases b1 with
    | nil => simp
    | cons x b1 =>
      rw [List.cons_append, mergeSeq_cons_cons, hB y (List.mem_cons_self) x (List.mem_cons_self)]
      simp [ih]
  | x :: a1, [], b1, b2, hA, hB => by
    have ih := mergeSeq_append_append lt a1 [] b1 b2
      (fun x' hx' => hA x' (List.mem_cons_of_mem _ hx')) (by simp)
    simp only [List.nil_append, mergeSeq_nil_right] at ih ⊢
    cases b2 with
    | nil => simp
    | cons y b2 =>
      rw [List.cons_append, mergeSeq_cons_cons, hA x (List.mem_cons_self) y (List.mem_cons_self)]
      simp [ih]
  | x :: a1, y :: a2, b1, b2, hA, hB => by
    rw [List.cons_append, List.cons_append, mergeSeq_cons_cons, mergeSeq_cons_cons]
    split
    · have ih := mergeSeq_append_append lt (x :: a1) a2 b1 b2 hA
        (fun y' hy' => hB y' (List.mem_cons_of_mem _ hy'))
      rw [List.cons_append] at ih
      rw [ih, List.cons_append]
    · have ih := mergeSeq_append_append lt a1 (y :: a2) b1 b2
        (fun x' hx' => hA x' (List.mem_cons_of_mem _ hx')) hB
      rw [List.cons_append] at ih
      rw [ih, List.cons_append]

/-- **Split lemma** in the index form used by `details::mergeRec`. -/
theorem mergeSeq_split (lt : α → α → Bool) (l1 l2 : List α) (q1 q2 : Nat)
    (hA : ∀ x ∈ l1.take q1, ∀ y ∈ l2.drop q2, lt y x = false)
    (hB : ∀ y ∈ l2.take q2, ∀ x ∈ l1.drop q1, lt y x = true) :
    mergeSeq lt l1 l2 =
      mergeSeq lt (l1.take q1) (l2.take q2) ++ mergeSeq lt (l1.drop q1) (l2.drop q2) := by
  rw [← mergeSeq_append_append lt _ _ _ _ hA hB, List.take_append_drop, List.take_append_drop]

/-! ### the two pivot rules satisfy the split conditions -/

theorem take_length_takeWhile (p : α → Bool) :
    ∀ l : List α, l.take (l.takeWhile p).length = l.takeWhile p
  | [] => by simp
  | x :: xs => by
    rw [List.takeWhile_cons]
    split
    · simp [take_length_takeWhile p xs]
    · simp

theorem drop_length_takeWhile (p : α → Bool) :
    ∀ l : List α, l.drop (l.takeWhile p).length = l.dropWhile p
  | [] => by simp
  | x :: xs => by
    rw [List.takeWhile_cons, List.dropWhile_cons]
    split
    · simp [drop_length_takeWhile p xs]
    · simp

theorem take_lowerBound (lt : α → α → Bool) (l : List α) (v : α) :
    l.take (lowerBound lt l v) = l.takeWhile (fun x => lt x v) := take_length_takeWhile _ l

theorem drop_lowerBound (lt : α → α → Bool) (l : List α) (v : α) :
    l.drop (lowerBound lt l v) = l.dropWhile (fun x => lt x v) := drop_length_takeWhile _ l

theorem take_upperBound (lt : α → α → Bool) (l : List α) (v : α) :
    l.take (upperBound lt l v) = l.takeWhile (fun x => !lt v x) := take_length_takeWhile _ l

theorem drop_upperBound (lt : α → α → Bool) (l : List α) (v : α) :
    l.drop (upperBound lt l v) = l.dropWhile (fun x => !lt v x) := drop_length_takeWhile _ l

theorem mem_takeWhile_prop {p : α → Bool} : ∀ {l : List α} {x : α}, x ∈ l.takeWhile p → p x = true
  | y :: ys, x, h => by
    rw [List.takeWhile_cons] at h
    split at h
    · rcases List.mem_cons.mp h with e | m
      · subst e; assumption
      · exact mem_takeWhile_prop m
    · simp at h

/-- in a sorted list everything from the lower bound on is `≥ v` -/
theorem not_lt_of_mem_dropWhile_lt {lt : α → α → Bool} (sw : StrictWeak lt) {v : α} :
    ∀ {l : List α}, SortedBy lt l → ∀ y ∈ l.dropWhile (fun x => lt x v), lt y v = false
  | [], _, y, h => by simp at h
  | z :: zs, hs, y, h => by
    have hs' := sortedBy_cons.mp hs
    rw [List.dropWhile_cons] at h
    split at h
    · exact not_lt_of_mem_dropWhile_lt sw hs'.2 y h
    · next hz =>
      have hz : lt z v = false := by simpa using hz
      rcases List.mem_cons.mp h with e | m
      · subst e; exact hz
      · exact sw.negTrans y z v (hs'.1 y m) hz

/-- in a sorted list everything from the upper bound on is `> v` -/
theorem lt_of_mem_dropWhile_not_lt {lt : α → α → Bool} (sw : StrictWeak lt) {v : α} :
    ∀ {l : List α}, SortedBy lt l → ∀ y ∈ l.dropWhile (fun x => !lt v x), lt v y = true
  | [], _, y, h => by simp at h
  | z :: zs, hs, y, h => by
    have hs' := sortedBy_cons.mp hs
    rw [List.dropWhile_cons] at h
    split at h
    · exact lt_of_mem_dropWhile_not_lt sw hs'.2 y h
    · next hz =>
      have hz : lt v z = true := by simpa using hz
      rcases List.mem_cons.mp h with e | m
      · subst e; exact hz
      · exact sw.lt_of_lt_of_not_lt hz (hs'.1 y m)

/-- element `q` of a sorted list: everything before is `≤`, everything from `q` on is `≥` -/
theorem sorted_getElem?_take {lt : α → α → Bool} {l : List α} (hs : SortedBy lt l) {q : Nat}
    {p : α} (hp : l[q]? = some p) : ∀ x ∈ l.take q, lt p x = false := by
  intro x hx
  have hsplit : l = l.take q ++ p :: l.drop (q + 1) := by
    have hq : q < l.length := by
      rcases Nat.lt_or_ge q l.length with h | h
      · exact h
      · rw [List.getElem?_eq_none h] at hp; simp at hp
    have : l.drop q = p :: l.drop (q + 1) := by
      rw [List.drop_eq_getElem_cons hq]
      rw [List.getElem?_eq_getElem hq] at hp
      simp at hp; rw [hp]
    rw [← this, List.take_append_drop]
  rw [hsplit] at hs
  exact (List.pairwise_append.mp hs).2.2 x hx p (List.mem_cons_self)

theorem sorted_getElem?_drop {lt : α → α → Bool} (sw : StrictWeak lt) {l : List α}
    (hs : SortedBy lt l) {q : Nat} {p : α} (hp : l[q]? = some p) :
    ∀ x ∈ l.drop q, lt x p = false := by
  intro x hx
  have hq : q < l.length := by
    rcases Nat.lt_or_ge q l.length with h | h
    · exact h
    · rw [List.getElem?_eq_none h] at hp; simp at hp
  have hd : l.drop q = p :: l.drop (q + 1) := by
    rw [List.drop_eq_getElem_cons hq]
    rw [List.getElem?_eq_getElem hq] at hp
    simp at hp; rw [hp]
  rw [hd] at hx
  have hs2 := hs.drop q
  rw [hd] at hs2
  rcases List.mem_cons.mp hx with e | m
  · subst e; exact sw.irrefl _
  · exact (sortedBy_cons.mp hs2).1 x m

/-- left pivot `l1[q1]`, `lower_bound` on the right: split conditions hold -/
theorem split_left_pivot {lt : α → α → Bool} (sw : StrictWeak lt) {l1 l2 : List α}
    (h1 : SortedBy lt l1) (h2 : SortedBy lt l2) {q1 : Nat} {p : α} (hp : l1[q1]? = some p) :
    (∀ x ∈ l1.take q1, ∀ y ∈ l2.drop (lowerBound lt l2 p), lt y x = false) ∧
    (∀ y ∈ l2.take (lowerBound lt l2 p), ∀ x ∈ l1.drop q1, lt y x = true) := by
  constructor
  · intro x hx y hy
    rw [drop_lowerBound] at hy
    exact sw.negTrans y p x (not_lt_of_mem_dropWhile_lt sw h2 y hy) (sorted_getElem?_take h1 hp x hx)
  · intro y hy x hx
    rw [take_lowerBound] at hy
    exact sw.lt_of_lt_of_not_lt (mem_takeWhile_prop (p := fun x => lt x p) hy) (sorted_getElem?_drop sw h1 hp x hx)

/-- right pivot `l2[q2]`, `upper_bound` on the left: split conditions hold -/
theorem split_right_pivot {lt : α → α → Bool} (sw : StrictWeak lt) {l1 l2 : List α}
    (h1 : SortedBy lt l1) (h2 : SortedBy lt l2) {q2 : Nat} {p : α} (hp : l2[q2]? = some p) :
    (∀ x ∈ l1.take (upperBound lt l1 p), ∀ y ∈ l2.drop q2, lt y x = false) ∧
    (∀ y ∈ l2.take q2, ∀ x ∈ l1.drop (upperBound lt l1 p), lt y x = true) := by
  constructor
  · intro x hx y hy
    rw [take_upperBound] at hx
    have hpx : lt p x = false := by simpa using mem_takeWhile_prop (p := fun x => !lt p x) hx
    exact sw.negTrans y p x (sorted_getElem?_drop sw h2 hp y hy) hpx
  · intro y hy x hx
    rw [drop_upperBound] at hx
    exact sw.lt_of_not_lt_of_lt (sorted_getElem?_take h2 hp y hy)
      (lt_of_mem_dropWhile_not_lt sw h1 x hx)

/-! ## `mergeRec` = `mergeSeq` -/

/-- `details::mergeRec` computes `std::merge` on sorted inputs.  Holds for every threshold and
every fuel, because the model falls back to `mergeSeq` when the fuel is exhausted; that the
fuel supplied by the entry points is never exhausted is `mergeRecO_eq_some` below. -/
theorem mergeRec_eq_mergeSeq' {lt : α → α → Bool} (sw : StrictWeak lt) (T : Nat) :
    ∀ (fuel : Nat) (l1 l2 : List α), SortedBy lt l1 → SortedBy lt l2 →
      mergeRec T lt fuel l1 l2 = mergeSeq lt l1 l2
  | 0, l1, l2, _, _ => by simp [mergeRec]
  | fuel + 1, l1, l2, h1, h2 => by
    unfold mergeRec
    split
    · next he => simp at he; subst he; simp
    split
    · next he => simp at he; subst he; simp
    split
    · rfl
    split
    · simp only []
      split
      · rfl
      · next pivot hp =>
        obtain ⟨hA, hB⟩ := split_left_pivot sw h1 h2 hp
        rw [mergeRec_eq_mergeSeq' sw T fuel _ _ (h1.take _) (h2.take _),
          mergeRec_eq_mergeSeq' sw T fuel _ _ (h1.drop _) (h2.drop _)]
        exact (mergeSeq_split lt l1 l2 _ _ hA hB).symm
    · simp only []
      split
      · rfl
      · next pivot hp =>
        obtain ⟨hA, hB⟩ := split_right_pivot sw h1 h2 hp
        rw [mergeRec_eq_mergeSeq' sw T fuel _ _ (h1.take _) (h2.take _),
          mergeRec_eq_mergeSeq' sw T fuel _ _ (h1.drop _) (h2.drop _)]
        exact (mergeSeq_split lt l1 l2 _ _ hA hB).symm

/-! ## `mergeSortRec` = `stableSort` -/

theorem mergeSortRec_eq_stableSort' {lt : α → α → Bool} (sw : StrictWeak lt) (T : Nat) :
    ∀ (fuel : Nat) (xs : List α), mergeSortRec T lt fuel xs = stableSort lt xs
  | 0, xs => by simp [mergeSortRec]
  | fuel + 1, xs => by
    unfold mergeSortRec
    split
    · rfl
    · simp only []
      rw [mergeSortRec_eq_stableSort' sw T fuel, mergeSortRec_eq_stableSort' sw T fuel,
        mergeRec_eq_mergeSeq' sw T _ _ _ (stableSort_sorted sw _) (stableSort_sorted sw _),
        mergeSeq_stableSort sw, List.take_append_drop]

theorem parStableSort_eq_stableSort' {lt : α → α → Bool} (sw : StrictWeak lt) (T : Nat)
    (xs : List α) : parStableSort T lt xs = stableSort lt xs :=
  mergeSortRec_eq_stableSort' sw T _ xs

/-! ## termination: the fuel of the model is never exhausted (needs `2 ≤ T`)

`mergeRec`/`mergeSortRec` in the model fall back to the sequential algorithm when the fuel
runs out, so the equalities above hold for any fuel.  To show that the fall-back is dead code
(i.e. that the C++ recursion terminates) we re-state both functions with `none` for
"fuel exhausted" (and for the impossible out-of-range pivot read), show that the model agrees
with them whenever they return, and that they always return when `2 ≤ T` and the fuel exceeds
the total length.  For `T = 1` the C++ recursion does *not* terminate: see
`mergeRecO_T1_none` and `mergeRec_T1_self_call`. -/

def mergeRecO (T : Nat) (lt : α → α → Bool) : Nat → List α → List α → Option (List α)
  | 0, _, _ => none
  | fuel + 1, l1, l2 =>
    if l1.isEmpty then some l2
    else if l2.isEmpty then some l1
    else if l1.length + l2.length ≤ T then some (mergeSeq lt l1 l2)
    else if l1.length > l2.length then
      let q1 := l1.length / 2
      match l1[q1]? with
      | none => none
      | some pivot =>
        let q2 := lowerBound lt l2 pivot
        match mergeRecO T lt fuel (l1.take q1) (l2.take q2),
              mergeRecO T lt fuel (l1.drop q1) (l2.drop q2) with
        | some a, some b => some (a ++ b)
        | _, _ => none
    else
      let q2 := l2.length / 2
      match l2[q2]? with
      | none => none
      | some pivot =>
        let q1 := upperBound lt l1 pivot
        match mergeRecO T lt fuel (l1.take q1) (l2.take q2),
              mergeRecO T lt fuel (l1.drop q1) (l2.drop q2) with
        | some a, some b => some (a ++ b)
        | _, _ => none

/-- the model agrees with the fuel-aware version whenever the latter returns -/
theorem mergeRecO_sound (T : Nat) (lt : α → α → Bool) :
    ∀ (fuel : Nat) (l1 l2 r : List α), mergeRecO T lt fuel l1 l2 = some r →
      mergeRec T lt fuel l1 l2 = r
  | 0, l1, l2, r, h => by simp [mergeRecO] at h
  | fuel + 1, l1, l2, r, h => by
    unfold mergeRecO at h
    unfold mergeRec
    split
    · next he => simpa [he] using h
    next he1 =>
    split
    · next he => simpa [he1, he] using h
    next he2 =>
    split
    · next he => simpa [he1, he2, he] using h
    next he3 =>
    split
    · next he4 =>
      simp only [he1, he2, he3, he4, if_true, if_false, Bool.false_eq_true] at h
      simp only []
      cases hp : l1[l1.length / 2]? with
      | none => simp [hp] at h
      | some pivot =>
        simp only [hp] at h ⊢
        split at h
        · next a b ha hb =>
          rw [mergeRecO_sound T lt fuel _ _ a ha, mergeRecO_sound T lt fuel _ _ b hb]
          simpa using h
        · simp at h
    · next he4 =>
      simp only [he1, he2, he3, he4, if_false, Bool.false_eq_true] at h
      simp only []
      cases hp : l2[l2.length / 2]? with
      | none => simp [hp] at h
      | some pivot =>
        simp only [hp] at h ⊢
        split at h
        · next a b ha hb =>
          rw [mergeRecO_sound T lt fuel _ _ a ha, mergeRecO_sound T lt fuel _ _ b hb]
          simpa using h
        · simp at h

theorem lowerBound_le (lt : α → α → Bool) (l : List α) (v : α) : lowerBound lt l v ≤ l.length :=
  (List.takeWhile_sublist _).length_le

theorem upperBound_le (lt : α → α → Bool) (l : List α) (v : α) : upperBound lt l v ≤ l.length :=
  (List.takeWhile_sublist _).length_le

/-- **Termination of `details::mergeRec`** for thresholds `≥ 2`: both recursive calls are on
strictly shorter inputs, so fuel `> |l1| + |l2|` is never exhausted.  (No sortedness needed.) -/
theorem mergeRecO_isSome {T : Nat} (hT : 2 ≤ T) (lt : α → α → Bool) :
    ∀ (fuel : Nat) (l1 l2 : List α), l1.length + l2.length < fuel →
      ∃ r, mergeRecO T lt fuel l1 l2 = some r
  | 0, l1, l2, h => by omega
  | fuel + 1, l1, l2, h => by
    unfold mergeRecO
    split
    · exact ⟨_, rfl⟩
    next he1 =>
    split
    · exact ⟨_, rfl⟩
    next he2 =>
    split
    · exact ⟨_, rfl⟩
    next he3 =>
    have hl1 : 0 < l1.length := by
      cases l1 with
      | nil => simp at he1
      | cons _ _ => simp
    have hl2 : 0 < l2.length := by
      cases l2 with
      | nil => simp at he2
      | cons _ _ => simp
    split
    · next he4 =>
      have hq : l1.length / 2 < l1.length := by omega
      simp only [List.getElem?_eq_getElem hq]
      have hb := lowerBound_le lt l2 l1[l1.length / 2]
      obtain ⟨a, ha⟩ := mergeRecO_isSome hT lt fuel (l1.take (l1.length / 2))
        (l2.take (lowerBound lt l2 l1[l1.length / 2])) (by simp only [List.length_take]; omega)
      obtain ⟨b, hb⟩ := mergeRecO_isSome hT lt fuel (l1.drop (l1.length / 2))
        (l2.drop (lowerBound lt l2 l1[l1.length / 2])) (by simp only [List.length_drop]; omega)
      rw [ha, hb]; exact ⟨_, rfl⟩
    · next he4 =>
      have hq : l2.length / 2 < l2.length := by omega
      simp only [List.getElem?_eq_getElem hq]
      have hb := upperBound_le lt l1 l2[l2.length / 2]
      obtain ⟨a, ha⟩ := mergeRecO_isSome hT lt fuel
        (l1.take (upperBound lt l1 l2[l2.length / 2])) (l2.take (l2.length / 2))
        (by simp only [List.length_take]; omega)
      obtain ⟨b, hb⟩ := mergeRecO_isSome hT lt fuel
        (l1.drop (upperBound lt l1 l2[l2.length / 2])) (l2.drop (l2.length / 2))
        (by simp only [List.length_drop]; omega)
      rw [ha, hb]; exact ⟨_, rfl⟩

theorem mergeRecO_eq_some' {lt : α → α → Bool} (sw : StrictWeak lt) {T : Nat} (hT : 2 ≤ T)
    {fuel : Nat} {l1 l2 : List α} (h1 : SortedBy lt l1) (h2 : SortedBy lt l2)
    (hf : l1.length + l2.length < fuel) :
    mergeRecO T lt fuel l1 l2 = some (mergeSeq lt l1 l2) := by
  obtain ⟨r, hr⟩ := mergeRecO_isSome hT lt fuel l1 l2 hf
  rw [hr, ← mergeRecO_sound T lt fuel l1 l2 r hr, mergeRec_eq_mergeSeq' sw T fuel l1 l2 h1 h2]

/-- With threshold 1 the call `mergeRec([1],[0])` re-invokes itself on the same arguments
(right pivot 0, `upper_bound([1],0) = 0`, so the second half is the whole input): the
fuel-aware version never returns, whatever the fuel. -/
theorem mergeRecO_T1_none : ∀ fuel : Nat, mergeRecO 1 natLt fuel [1] [0] = none
  | 0 => rfl
  | fuel + 1 => by
    have ih := mergeRecO_T1_none fuel
    unfold mergeRecO
    simp [upperBound, natLt] at ih ⊢
    rw [ih]
    split <;> simp_all

/-- the same fact on the model: one step of `mergeRec 1` on `([1],[0])` is a call on `([1],[0])` -/
theorem mergeRec_T1_self_call (fuel : Nat) :
    mergeRec 1 natLt (fuel + 1) [1] [0] = [] ++ mergeRec 1 natLt fuel [1] [0] := by
  have h0 : mergeRec 1 natLt fuel [] [] = [] := by cases fuel <;> simp [mergeRec]
  conv => lhs; unfold mergeRec
  simp [upperBound, natLt] at h0 ⊢
  rw [h0]

def mergeSortRecO (T : Nat) (lt : α → α → Bool) : Nat → List α → Option (List α)
  | 0, _ => none
  | fuel + 1, xs =>
    if xs.length ≤ T then some (stableSort lt xs)
    else
      let m := xs.length / 2
      match mergeSortRecO T lt fuel (xs.take m), mergeSortRecO T lt fuel (xs.drop m) with
      | some a, some b => mergeRecO T lt (xs.length + 1) a b
      | _, _ => none

theorem mergeSortRecO_sound (T : Nat) (lt : α → α → Bool) :
    ∀ (fuel : Nat) (xs r : List α), mergeSortRecO T lt fuel xs = some r →
      mergeSortRec T lt fuel xs = r
  | 0, xs, r, h => by simp [mergeSortRecO] at h
  | fuel + 1, xs, r, h => by
    unfold mergeSortRecO at h
    unfold mergeSortRec
    split
    · next he => simpa [he] using h
    · next he =>
      simp only [he, if_false] at h
      split at h
      · next a b ha hb =>
        simp only []
        rw [mergeSortRecO_sound T lt fuel _ a ha, mergeSortRecO_sound T lt fuel _ b hb]
        exact mergeRecO_sound T lt _ a b r h
      · simp at h

/-- **Termination of `details::mergeSortRec`** (and of the `mergeRec` it calls) for `2 ≤ T`. -/
theorem mergeSortRecO_eq_some' {lt : α → α → Bool} (sw : StrictWeak lt) {T : Nat} (hT : 2 ≤ T) :
    ∀ (fuel : Nat) (xs : List α), xs.length < fuel →
      mergeSortRecO T lt fuel xs = some (stableSort lt xs)
  | 0, xs, h => by omega
  | fuel + 1, xs, h => by
    unfold mergeSortRecO
    split
    · rfl
    · next he =>
      simp only []
      rw [mergeSortRecO_eq_some' sw hT fuel (xs.take (xs.length / 2))
            (by simp only [List.length_take]; omega),
          mergeSortRecO_eq_some' sw hT fuel (xs.drop (xs.length / 2))
            (by simp only [List.length_drop]; omega)]
      simp only []
      rw [mergeRecO_eq_some' sw hT (stableSort_sorted sw _) (stableSort_sorted sw _)
            (by rw [length_stableSort sw, length_stableSort sw]
                simp only [List.length_take, List.length_drop]; omega),
          mergeSeq_stableSort sw, List.take_append_drop]

/-- with threshold 0 `mergeSortRec` on a one-element range calls itself on the same range -/
theorem mergeSortRecO_T0_none (lt : α → α → Bool) (x : α) :
    ∀ fuel : Nat, mergeSortRecO 0 lt fuel [x] = none
  | 0 => rfl
  | fuel + 1 => by
    have ih := mergeSortRecO_T0_none lt x fuel
    unfold mergeSortRecO
    simp [ih]

/-! ## sorted permutations over `Nat` are unique -/

theorem sorted_perm_unique_nat : ∀ (l1 l2 : List Nat), l1.Perm l2 →
    l1.Pairwise (· ≤ ·) → l2.Pairwise (· ≤ ·) → l1 = l2
  | [], l2, hp, _, _ => hp.nil_eq
  | x :: t1, [], hp, _, _ => by simpa using hp.length_eq
  | x :: t1, y :: t2, hp, h1, h2 => by
    have h1' := List.pairwise_cons.mp h1
    have h2' := List.pairwise_cons.mp h2
    have hy : y ∈ x :: t1 := hp.mem_iff.mpr List.mem_cons_self
    have hx : x ∈ y :: t2 := hp.mem_iff.mp List.mem_cons_self
    have hxy : x ≤ y := by
      rcases List.mem_cons.mp hy with e | m
      · omega
      · exact h1'.1 y m
    have hyx : y ≤ x := by
      rcases List.mem_cons.mp hx with e | m
      · omega
      · exact h2'.1 x m
    have e : x = y := by omega
    subst e
    rw [sorted_perm_unique_nat t1 t2 hp.cons_inv h1'.2 h2'.2]

/-- any sorted permutation of `xs` is the sequential stable sort of `xs` -/
theorem eq_stableSort_natLt {xs l : List Nat} (hs : l.Pairwise (· ≤ ·)) (hp : l.Perm xs) :
    l = stableSort natLt xs :=
  sorted_perm_unique_nat _ _ (hp.trans (stableSort_perm strictWeak_natLt xs).symm) hs
    (sortedBy_natLt_iff.mp (stableSort_sorted strictWeak_natLt xs))

/-! ## LSB radix sort -/

/-- comparing keys by their `k`-th byte only -/
def byteLt (k : Nat) : Nat → Nat → Bool := fun a b => decide (byteOf k a < byteOf k b)

theorem strictWeak_byteLt (k : Nat) : StrictWeak (byteLt k) where
  asymm a b h := by simp [byteLt] at *; omega
  negTrans a b c h1 h2 := by simp [byteLt] at *; omega

theorem byteOf_lt (k x : Nat) : byteOf k x < 256 := Nat.mod_lt _ (by decide)

theorem cls_byteLt (k a : Nat) : cls (byteLt k) a = fun x => byteOf k x == byteOf k a := by
  funext x
  simp only [cls, byteLt]
  by_cases h : byteOf k x = byteOf k a
  · simp [h]
  · have : byteOf k x < byteOf k a ∨ byteOf k a < byteOf k x := by omega
    rcases this with h' | h' <;> simp [h, h']

/-- filtering the bucket concatenation by one bucket value gives that bucket -/
theorem filter_buckets (f : Nat → Nat) (xs : List Nat) (c : Nat) : ∀ n : Nat,
    ((List.range n).flatMap fun b => xs.filter fun x => f x == b).filter (fun x => f x == c) =
      if c < n then xs.filter (fun x => f x == c) else []
  | 0 => by simp
  | n + 1 => by
    rw [List.range_succ, List.flatMap_append, List.filter_append, filter_buckets f xs c n]
    simp only [List.flatMap_cons, List.flatMap_nil, List.append_nil, List.filter_filter]
    by_cases h1 : c < n
    · have : (fun a => f a == c && f a == n) = fun _ => false := by
        funext a; simp; omega
      simp [h1, this, Nat.lt_succ_of_lt h1]
    · by_cases h2 : c = n
      · subst h2; simp
      · have h3 : ¬ c < n + 1 := by omega
        have : (fun a => f a == c && f a == n) = fun _ => false := by
          funext a; simp; omega
        simp [h1, h3, this]

theorem shufflePass_sortedBy (k : Nat) (xs : List Nat) :
    SortedBy (byteLt k) (shufflePass k xs) := by
  unfold SortedBy shufflePass
  rw [List.pairwise_flatMap]
  constructor
  · intro b _
    apply List.pairwise_of_forall_mem_list
    intro x hx y hy
    simp [List.mem_filter] at hx hy
    simp [byteLt, hx.2, hy.2]
  · refine List.pairwise_lt_range.imp ?_
    intro b1 b2 hb x hx y hy
    simp [List.mem_filter] at hx hy
    simp [byteLt, hx.2, hy.2]; omega

theorem shufflePass_stable (k : Nat) (xs : List Nat) :
    StableWrt (byteLt k) xs (shufflePass k xs) := by
  intro a
  rw [cls_byteLt]
  unfold shufflePass
  rw [filter_buckets (byteOf k) xs (byteOf k a) 256]
  simp [byteOf_lt]

/-- one `shuffle` pass is the stable sort by byte `k` -/
theorem shufflePass_eq_stableSort (k : Nat) (xs : List Nat) :
    shufflePass k xs = stableSort (byteLt k) xs :=
  eq_stableSort (strictWeak_byteLt k) (shufflePass_sortedBy k xs) (shufflePass_stable k xs)

theorem shufflePass_perm (k : Nat) (xs : List Nat) : (shufflePass k xs).Perm xs := by
  rw [shufflePass_eq_stableSort]; exact stableSort_perm (strictWeak_byteLt k) xs

/-- lexicographic step: byte `k` first, then the low `k` bytes -/
theorem mod_pow_succ_le {k x y : Nat} (hb : byteOf k x ≤ byteOf k y)
    (hl : byteOf k x = byteOf k y → x % 256 ^ k ≤ y % 256 ^ k) :
    x % 256 ^ (k + 1) ≤ y % 256 ^ (k + 1) := by
  rw [Nat.mod_pow_succ, Nat.mod_pow_succ]
  show x % 256 ^ k + 256 ^ k * byteOf k x ≤ y % 256 ^ k + 256 ^ k * byteOf k y
  have hP : 0 < 256 ^ k := Nat.pow_pos (by decide)
  have hx : x % 256 ^ k < 256 ^ k := Nat.mod_lt _ hP
  rcases Nat.lt_or_ge (byteOf k x) (byteOf k y) with h | h
  · have := Nat.mul_le_mul_left (256 ^ k) (show byteOf k x + 1 ≤ byteOf k y from h)
    rw [Nat.mul_add] at this
    omega
  · have e : byteOf k x = byteOf k y := by omega
    have := hl e
    rw [e]; omega

/-- a stable pass on byte `k` turns "sorted by the low `k` bytes" into "sorted by the low
`k+1` bytes" -/
theorem shufflePass_step (k : Nat) (a : List Nat)
    (h : a.Pairwise fun x y => x % 256 ^ k ≤ y % 256 ^ k) :
    (shufflePass k a).Pairwise fun x y => x % 256 ^ (k + 1) ≤ y % 256 ^ (k + 1) := by
  unfold shufflePass
  rw [List.pairwise_flatMap]
  constructor
  · intro b _
    refine (h.sublist List.filter_sublist).imp_of_mem ?_
    intro x y hx hy hxy
    simp [List.mem_filter] at hx hy
    exact mod_pow_succ_le (by omega) (fun _ => hxy)
  · refine List.pairwise_lt_range.imp ?_
    intro b1 b2 hb x hx y hy
    simp [List.mem_filter] at hx hy
    exact mod_pow_succ_le (by omega) (fun e => by omega)

/-- the skip rule: `canSkip k xs` means byte `k` is the same for every key -/
theorem canSkip_const {k : Nat} {xs : List Nat} (h : canSkip k xs = true) :
    ∃ b, ∀ x ∈ xs, byteOf k x = b := by
  unfold canSkip at h
  rw [List.any_eq_true] at h
  obtain ⟨b, _, hb⟩ := h
  refine ⟨b, fun x hx => ?_⟩
  have hall : ∀ a ∈ xs, byteOf k a = b := by simpa using hb
  exact hall x hx

/-- the pass loop of `LSB_radix_sort` (constant bytes skipped) -/
def radixLoop (xs : List Nat) (n : Nat) : List Nat :=
  (List.range n).foldl (fun a k => if canSkip k xs then a else shufflePass k a) xs

theorem radixLoop_succ (xs : List Nat) (n : Nat) :
    radixLoop xs (n + 1) =
      if canSkip n xs then radixLoop xs n else shufflePass n (radixLoop xs n) := by
  simp [radixLoop, List.range_succ, List.foldl_append]

/-- loop invariant: after the passes for bytes `< n` the array is a permutation of the input
sorted by the low `n` bytes -/
theorem radixLoop_inv (xs : List Nat) : ∀ n : Nat,
    (radixLoop xs n).Perm xs ∧
    (radixLoop xs n).Pairwise fun x y => x % 256 ^ n ≤ y % 256 ^ n
  | 0 => by
    refine ⟨by simp [radixLoop], List.pairwise_of_forall ?_⟩
    intro x y; simp [Nat.mod_one]
  | n + 1 => by
    obtain ⟨hp, hs⟩ := radixLoop_inv xs n
    rw [radixLoop_succ]
    split
    · next hc =>
      obtain ⟨b, hb⟩ := canSkip_const hc
      refine ⟨hp, hs.imp_of_mem ?_⟩
      intro x y hx hy hxy
      have ex := hb x (hp.mem_iff.mp hx)
      have ey := hb y (hp.mem_iff.mp hy)
      exact mod_pow_succ_le (by omega) (fun _ => hxy)
    · exact ⟨(shufflePass_perm n _).trans hp, shufflePass_step n _ hs⟩

theorem isSortedAdj_iff (xs : List Nat) : isSortedAdj xs = true ↔ xs.Pairwise (· ≤ ·) := by
  induction xs with
  | nil => simp [isSortedAdj]
  | cons x rest ih =>
    cases rest with
    | nil => simp [isSortedAdj]
    | cons y rest =>
      simp only [isSortedAdj, Bool.and_eq_true, decide_eq_true_eq, ih, List.pairwise_cons]
      constructor
      · rintro ⟨hxy, hy, hr⟩
        refine ⟨?_, hy, hr⟩
        intro a ha
        rcases List.mem_cons.mp ha with rfl | ha
        · exact hxy
        · exact Nat.le_trans hxy (hy a ha)
      · rintro ⟨hx, hy, hr⟩
        exact ⟨hx y (List.mem_cons_self ..), hy, hr⟩

theorem lsbRadix_sorted_perm {nb : Nat} {xs : List Nat} (hk : ∀ x ∈ xs, x < 256 ^ nb) :
    (lsbRadix nb xs).Perm xs ∧ (lsbRadix nb xs).Pairwise (· ≤ ·) := by
  unfold lsbRadix
  split
  · next h => exact ⟨List.Perm.refl _, (isSortedAdj_iff _).mp h⟩
  · obtain ⟨hp, hs⟩ := radixLoop_inv xs nb
    refine ⟨hp, hs.imp_of_mem ?_⟩
    intro x y hx hy hxy
    rw [Nat.mod_eq_of_lt (hk x (hp.mem_iff.mp hx)), Nat.mod_eq_of_lt (hk y (hp.mem_iff.mp hy))] at hxy
    exact hxy

theorem lsbRadix_eq_sort' {nb : Nat} {xs : List Nat} (hk : ∀ x ∈ xs, x < 256 ^ nb) :
    lsbRadix nb xs = stableSort natLt xs :=
  eq_stableSort_natLt (lsbRadix_sorted_perm hk).2 (lsbRadix_sorted_perm hk).1

/-! ## `SortedRange::join` and `radix_sort` -/

theorem sortedJoin_sorted_perm' (T : Nat) {a b : List Nat}
    (ha : a.Pairwise (· ≤ ·)) (hb : b.Pairwise (· ≤ ·)) :
    (sortedJoin T a b).Pairwise (· ≤ ·) ∧ (sortedJoin T a b).Perm (a ++ b) := by
  unfold sortedJoin
  cases hx : a.getLast? with
  | none =>
    rw [List.getLast?_eq_none_iff] at hx; subst hx
    simpa using hb
  | some x =>
    cases hy : b.head? with
    | none =>
      rw [List.head?_eq_none_iff] at hy; subst hy
      simpa using ha
    | some y =>
      simp only []
      split
      · have := mergeRec_eq_mergeSeq' strictWeak_natLt T (a.length + b.length + 1) a b
          (sortedBy_natLt_iff.mpr ha) (sortedBy_natLt_iff.mpr hb)
        unfold natLt at this
        rw [this]
        exact ⟨sortedBy_natLt_iff.mp (mergeSeq_sorted strictWeak_natLt a b
          (sortedBy_natLt_iff.mpr ha) (sortedBy_natLt_iff.mpr hb)), mergeSeq_perm _ a b⟩
      · next hgt =>
        refine ⟨?_, List.Perm.refl _⟩
        obtain ⟨a', rfl⟩ := List.getLast?_eq_some_iff.mp hx
        obtain ⟨b', rfl⟩ := List.head?_eq_some_iff.mp hy
        rw [List.pairwise_append]
        refine ⟨ha, hb, ?_⟩
        intro u hu v hv
        have hux : u ≤ x := by
          rcases List.mem_append.mp hu with m | m
          · exact (List.pairwise_append.mp ha).2.2 u m x (by simp)
          · simp at m; omega
        have hyv : y ≤ v := by
          rcases List.mem_cons.mp hv with e | m
          · omega
          · exact (List.pairwise_cons.mp hb).1 v m
        omega

/-- the body of `radix_sort`'s parallel_reduce -/
def radixLeaf (T nb : Nat) (acc c : List Nat) : List Nat :=
  if acc.isEmpty then lsbRadix nb c else sortedJoin T acc (lsbRadix nb c)

theorem radixLeaf_sorted_perm (T : Nat) {nb : Nat} {acc c : List Nat}
    (ha : acc.Pairwise (· ≤ ·)) (hk : ∀ x ∈ c, x < 256 ^ nb) :
    (radixLeaf T nb acc c).Pairwise (· ≤ ·) ∧ (radixLeaf T nb acc c).Perm (acc ++ c) := by
  obtain ⟨hp, hs⟩ := lsbRadix_sorted_perm hk
  unfold radixLeaf
  split
  · next he => simp at he; subst he; simpa using ⟨hs, hp⟩
  · obtain ⟨hs', hp'⟩ := sortedJoin_sorted_perm' T ha hs
    exact ⟨hs', hp'.trans (hp.append_left acc)⟩

/-- invariant of the reduce: whatever the schedule, a body that starts with a sorted range
`v` and walks `xs` ends with a sorted permutation of `v ++ xs` -/
theorem radixReduce_sorted_perm (T nb : Nat) :
    ∀ (t : Sched) (v xs : List Nat), v.Pairwise (· ≤ ·) → (∀ x ∈ xs, x < 256 ^ nb) →
      (reduceGoG (radixLeaf T nb) (sortedJoin T) [] t v xs).Pairwise (· ≤ ·) ∧
      (reduceGoG (radixLeaf T nb) (sortedJoin T) [] t v xs).Perm (v ++ xs)
  | .leaf, v, xs, hv, hk => by
    simpa [reduceGoG] using radixLeaf_sorted_perm T hv hk
  | .node k false l r, v, xs, hv, hk => by
    have hkt : ∀ x ∈ xs.take k, x < 256 ^ nb := fun x hx => hk x (List.mem_of_mem_take hx)
    have hkd : ∀ x ∈ xs.drop k, x < 256 ^ nb := fun x hx => hk x (List.mem_of_mem_drop hx)
    obtain ⟨s1, p1⟩ := radixReduce_sorted_perm T nb l v (xs.take k) hv hkt
    obtain ⟨s2, p2⟩ := radixReduce_sorted_perm T nb r _ (xs.drop k) s1 hkd
    simp only [reduceGoG]
    refine ⟨s2, p2.trans ?_⟩
    have := p1.append_right (xs.drop k)
    simpa [List.append_assoc] using this
  | .node k true l r, v, xs, hv, hk => by
    have hkt : ∀ x ∈ xs.take k, x < 256 ^ nb := fun x hx => hk x (List.mem_of_mem_take hx)
    have hkd : ∀ x ∈ xs.drop k, x < 256 ^ nb := fun x hx => hk x (List.mem_of_mem_drop hx)
    obtain ⟨s1, p1⟩ := radixReduce_sorted_perm T nb l v (xs.take k) hv hkt
    obtain ⟨s2, p2⟩ := radixReduce_sorted_perm T nb r [] (xs.drop k) List.Pairwise.nil hkd
    obtain ⟨s3, p3⟩ := sortedJoin_sorted_perm' T s1 s2
    simp only [reduceGoG]
    refine ⟨s3, p3.trans ?_⟩
    have := p1.append p2
    simpa [List.append_assoc] using this

theorem parRadixSort_eq_sort' (T : Nat) {nb : Nat} (t : Sched) {xs : List Nat}
    (hk : ∀ x ∈ xs, x < 256 ^ nb) : parRadixSort T nb t xs = stableSort natLt xs := by
  have hdef : parRadixSort T nb t xs =
      if xs.isEmpty then [] else reduceGoG (radixLeaf T nb) (sortedJoin T) [] t [] xs := rfl
  rw [hdef]
  split
  · next he => simp at he; subst he; rfl
  · obtain ⟨s, p⟩ := radixReduce_sorted_perm T nb t [] xs List.Pairwise.nil hk
    exact eq_stableSort_natLt s (by simpa using p)

end MV.Par
