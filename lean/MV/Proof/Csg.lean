import MV.Proof.CsgVisit
import MV.Proof.CsgBuild
/-
Correctness of `toLeaf` (`CsgOpNode::ToLeafNode`) and of the node-building operations.
-/
set_option autoImplicit false
namespace MV.Csg
open SolidAlg XfAct

variable {M S : Type} [One M] [Mul M] [SolidAlg S] [XfAct M S]

/-- what a correct evaluation of node `n` returns -/
structure EvalOK (s : Store M) (n : Nat) (r : EvalResult M) : Prop where
  ok : r.ok = true
  ub : r.ub = false
  wf : WFs r.st
  ext : Ext s r.st
  isLeaf : ∃ l, r.st.nodes[r.ret]? = some (Node.leaf l)

/-- the evaluator proper: an op node without cache -/
theorem toLeaf_op_none (s : Store M) (hwf : WFs s) (n i : Nat) (o : Op) (nxf : M)
    (hn : s.nodes[n]? = some (Node.op i o nxf none)) (orc : List Bool) (fuel : Nat)
    (hfuel : cost s n ≤ fuel) :
    EvalOK s n (toLeaf s n orc fuel) ∧
    ∀ (L : Val S), Respects L (toLeaf s n orc fuel).evs → CacheOK L s →
      SemExt L s (toLeaf s n orc fuel).st ∧ CacheOK L (toLeaf s n orc fuel).st ∧
      denote L (toLeaf s n orc fuel).st (toLeaf s n orc fuel).ret = denote L s n := by
  obtain ⟨σ0, hσ0⟩ : ∃ σ0 : EvalState M, σ0 =
    { st := s, stack := [{ finalize := false, parentOp := o, xf := 1, posDest := none,
                           negDest := none, node := n }],
      orc := orc, used := 0, evs := [], ub := false } := ⟨_, rfl⟩
  obtain ⟨k, ev', σ', c, cl, big, hk, hst, hnc, hcl, hsem⟩ :=
    noncollapse_big (S := S) i (visit_all i) σ0
      { finalize := false, parentOp := o, xf := 1, posDest := none, negDest := none, node := n }
      [] i o nxf none (by rw [hσ0]) (by rw [hσ0]; exact hwf) (by rw [hσ0]; exact hn)
      (Nat.le_refl _) rfl rfl rfl (by simp [canCollapse])
  have hst' : σ'.stack = [] := hst
  have hrun : run fuel σ0 = σ' := by
    have hk' : k ≤ fuel := by
      have : cost σ0.st n = cost s n := by rw [hσ0]
      simp only at hk
      omega
    obtain ⟨j, rfl⟩ := Nat.exists_eq_add_of_le hk'
    rw [run_add, big.run, run_nil hst']
  have hσ0st : σ0.st = s := by rw [hσ0]
  have hev : σ'.evs = ev' := by rw [big.evs, hσ0]; rfl
  have hub : σ'.ub = false := by rw [big.ub, hσ0]
  have hres : toLeaf s n orc fuel =
      { st := σ'.st, ret := c, evs := σ'.evs, orc := σ'.orc, used := σ'.used,
        ok := σ'.stack.isEmpty, ub := σ'.ub } := by
    simp only [toLeaf, hn]
    rw [← hσ0, hrun]
    simp only at hnc
    rw [hnc]
  rw [hres]
  refine ⟨⟨by simp [hst'], hub, big.wf, hσ0st ▸ big.ext, cl, hcl⟩, ?_⟩
  intro L hL hc
  simp only at hL ⊢
  rw [hev] at hL
  obtain ⟨s1, c1, hv⟩ := hsem L hL (by rw [hσ0st]; exact hc)
  rw [hσ0st] at s1 hv
  exact ⟨s1, c1, by rw [denote_leaf L hcl]; exact hv⟩

/-- `ToLeafNode` on any existing node of a well-formed store, with any oracle and enough fuel -/
theorem toLeaf_built (s : Store M) (hwf : WFs s) (n : Nat) (hn : n < s.nodes.length)
    (orc : List Bool) (fuel : Nat) (hfuel : cost s n ≤ fuel) :
    (toLeaf s n orc fuel).ok = true ∧ (toLeaf s n orc fuel).ub = false ∧
    WFs (toLeaf s n orc fuel).st ∧
    (∃ l, (toLeaf s n orc fuel).st.nodes[(toLeaf s n orc fuel).ret]? = some (Node.leaf l)) ∧
    ∀ (L : Val S), Respects L (toLeaf s n orc fuel).evs → CacheOK L s →
      Built L s (toLeaf s n orc fuel).st (toLeaf s n orc fuel).ret (denote L s n) := by
  cases hnd : s.nodes[n]? with
  | none => rw [List.getElem?_eq_getElem hn] at hnd; cases hnd
  | some nd =>
    cases nd with
    | leaf l =>
      have e : toLeaf s n orc fuel =
          { st := (s.addNode (.leaf l)).1, ret := (s.addNode (.leaf l)).2, evs := [],
            orc := orc, used := 0, ok := true, ub := false } := by
        simp only [toLeaf, hnd]
      rw [e]
      refine ⟨rfl, rfl, ?_, ?_, ?_⟩
      · rw [addNode_eq]
        exact grow_wfs hwf ⟨fun h => (by cases h), fun _ h => (by simp at h)⟩
      · rw [addNode_eq]; exact ⟨l, grow_node_new⟩
      · intro L _ hc
        have := addLeaf_built L s hwf hc l
        rw [← denote_leaf L hnd] at this
        exact this
    | op i o nxf cache =>
      cases cache with
      | some c =>
        have e : toLeaf s n orc fuel =
            { st := s, ret := c, evs := [], orc := orc, used := 0, ok := true, ub := false } := by
          simp only [toLeaf, hnd]
        rw [e]
        obtain ⟨⟨l, hl⟩, _⟩ := hwf.cache hnd
        refine ⟨rfl, rfl, hwf, ⟨l, hl⟩, ?_⟩
        intro L _ hc
        exact ⟨hwf, SemExt.refl L s, hc, hc hnd, (List.getElem?_eq_some_iff.1 hl).1,
          Nat.le_refl _⟩
      | none =>
        obtain ⟨⟨ok, ub, wf, ext, l, hl⟩, hsem⟩ :=
          toLeaf_op_none (S := S) s hwf n i o nxf hnd orc fuel hfuel
        refine ⟨ok, ub, wf, ⟨l, hl⟩, ?_⟩
        intro L hL hc
        obtain ⟨s1, c1, hv⟩ := hsem L hL hc
        exact ⟨wf, s1, c1, hv, (List.getElem?_eq_some_iff.1 hl).1, ext.len⟩

/-- `GetCsgLeafNode` -/
theorem force_built (s : Store M) (hwf : WFs s) (n : Nat) (hn : n < s.nodes.length)
    (orc : List Bool) :
    (force s n orc).ok = true ∧ (force s n orc).ub = false ∧ WFs (force s n orc).st ∧
    (∃ l, (force s n orc).st.nodes[(force s n orc).ret]? = some (Node.leaf l)) ∧
    ∀ (L : Val S), Respects L (force s n orc).evs → CacheOK L s →
      Built L s (force s n orc).st (force s n orc).ret (denote L s n) := by
  simp only [force]
  split
  · rename_i hleaf
    simp only [Store.isLeaf] at hleaf
    split at hleaf
    · rename_i l hl
      exact ⟨rfl, rfl, hwf, ⟨l, hl⟩, fun L _ hc =>
        ⟨hwf, SemExt.refl L s, hc, rfl, hn, Nat.le_refl _⟩⟩
    · cases hleaf
  · exact toLeaf_built s hwf n hn orc _ (Nat.le_refl _)

end MV.Csg

namespace MV.Csg
variable {M : Type} [One M] [Mul M]

/-- Once the loop has terminated within some fuel, more fuel changes nothing: the driver may use
any fuel for which `ok` is reported and gets exactly the result of `force` (which uses
`cost s n`, sufficient by `toLeaf_denotes`). -/
theorem toLeaf_fuel_mono (s : Store M) (n : Nat) (orc : List Bool) (f f' : Nat) (h : f ≤ f')
    (hok : (toLeaf s n orc f).ok = true) : toLeaf s n orc f' = toLeaf s n orc f := by
  cases hnd : s.nodes[n]? with
  | none => simp [toLeaf, hnd] at hok
  | some nd =>
    cases nd with
    | leaf l => simp [toLeaf, hnd]
    | op i o nxf cache =>
      cases cache with
      | some c => simp [toLeaf, hnd]
      | none =>
        obtain ⟨d, rfl⟩ := Nat.exists_eq_add_of_le h
        obtain ⟨σ0, hσ0⟩ : ∃ σ0 : EvalState M, σ0 =
          { st := s, stack := [{ finalize := false, parentOp := o, xf := 1, posDest := none,
                                 negDest := none, node := n }],
            orc := orc, used := 0, evs := [], ub := false } := ⟨_, rfl⟩
        simp only [toLeaf, hnd] at hok ⊢
        rw [← hσ0] at hok ⊢
        rw [run_add]
        split at hok
        · rename_i c hc
          have hst : (run f σ0).stack = [] := by simpa using hok
          rw [run_nil hst, hc]
        · cases hok

end MV.Csg
