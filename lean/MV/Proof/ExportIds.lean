import MV.Proof.Export
/-! Mesh-ID bookkeeping lemmas (`MV/Model/MeshIds.lean`): `IncrementMeshIDs` renumbering,
`UpdateReference` key shifting, `Compose` key shifting.  Re-exported by `MV/Props/C07.lean`. -/
namespace MV.Export
open List

variable {τ : Type}

/-! ## general helpers on association lists with ascending keys -/

/-- in a list whose first components are strictly ascending, `find?` by key returns the
(unique) entry with that key -/
theorem find?_fst_of_mem_pairwise {β : Type} (l : List (Int × β)) (k : Int) (v : β)
    (h : (l.map (·.1)).Pairwise (· < ·)) (hmem : (k, v) ∈ l) :
    l.find? (fun p => p.1 == k) = some (k, v) := by
  induction l with
  | nil => simp at hmem
  | cons x xs ih =>
    simp only [List.map_cons, List.pairwise_cons] at h
    rcases List.mem_cons.1 hmem with rfl | hx
    · simp
    · have hlt : x.1 < k := h.1 k (List.mem_map.2 ⟨(k, v), hx, rfl⟩)
      have hne : (x.1 == k) = false := by
        simp only [beq_eq_false_iff_ne, ne_eq]; omega
      rw [List.find?_cons, hne]; exact ih h.2 hx

theorem RelMap.lookup_eq_some_of_mem (m : RelMap τ) (k : Int) (v : Rel τ)
    (hm : RelMap.Sorted m) (hmem : (k, v) ∈ m) : RelMap.lookup m k = some v := by
  unfold RelMap.lookup
  rw [find?_fst_of_mem_pairwise m k v hm hmem]; rfl

theorem RelMap.exists_mem_of_mem_keys (m : RelMap τ) (k : Int) (hk : k ∈ m.keys) :
    ∃ v, (k, v) ∈ m := by
  unfold RelMap.keys at hk
  obtain ⟨⟨k', v⟩, hmem, rfl⟩ := List.mem_map.1 hk
  exact ⟨v, hmem⟩

theorem RelMap.mem_keys_of_mem (m : RelMap τ) (k : Int) (v : Rel τ) (h : (k, v) ∈ m) :
    k ∈ m.keys := List.mem_map.2 ⟨(k, v), h, rfl⟩

theorem RelMap.lookup_append (m1 m2 : RelMap τ) (k : Int) :
    RelMap.lookup (m1 ++ m2) k = (RelMap.lookup m1 k).or (RelMap.lookup m2 k) := by
  unfold RelMap.lookup
  rw [List.find?_append]
  cases List.find? (fun kv => kv.1 == k) m1 <;> simp

theorem RelMap.lookup_eq_none_of_not_mem_keys (m : RelMap τ) (k : Int) (hk : k ∉ m.keys) :
    RelMap.lookup m k = none := by
  unfold RelMap.lookup
  rw [Option.map_eq_none_iff, List.find?_eq_none]
  intro x hx hxk
  exact hk (List.mem_map.2 ⟨x, hx, by simpa using hxk⟩)

theorem RelMap.lookup_append_of_not_mem_keys (m1 m2 : RelMap τ) (k : Int) (hk : k ∉ m1.keys) :
    RelMap.lookup (m1 ++ m2) k = RelMap.lookup m2 k := by
  rw [RelMap.lookup_append, RelMap.lookup_eq_none_of_not_mem_keys m1 k hk]; rfl

theorem RelMap.lookup_append_of_mem_keys (m1 m2 : RelMap τ) (k : Int) (hk : k ∈ m1.keys) :
    RelMap.lookup (m1 ++ m2) k = RelMap.lookup m1 k := by
  rw [RelMap.lookup_append]
  unfold RelMap.keys at hk
  obtain ⟨x, hx, hxk⟩ := List.mem_map.1 hk
  unfold RelMap.lookup
  have : (List.find? (fun kv => kv.1 == k) m1).isSome := by
    rw [List.find?_isSome]; exact ⟨x, hx, by simpa using hxk⟩
  cases h : List.find? (fun kv => kv.1 == k) m1 with
  | none => rw [h] at this; simp at this
  | some y => simp

/-- a key-shifting, value-mapping `map` commutes with `lookup` -/
theorem RelMap.lookup_map_shift (m : RelMap τ) (c : Int) (g : Rel τ → Rel τ) (k : Int) :
    RelMap.lookup (m.map fun kv => (kv.1 + c, g kv.2)) (k + c) = (RelMap.lookup m k).map g := by
  unfold RelMap.lookup
  induction m with
  | nil => rfl
  | cons x xs ih =>
    simp only [List.map_cons, List.find?_cons]
    by_cases h : x.1 = k
    · have h1 : (x.1 + c == k + c) = true := by simp [h]
      have h2 : (x.1 == k) = true := by simp [h]
      rw [h1, h2]; rfl
    · have h1 : (x.1 + c == k + c) = false := by
        simp only [beq_eq_false_iff_ne, ne_eq]; omega
      have h2 : (x.1 == k) = false := by simpa using h
      rw [h1, h2]; exact ih

/-- inserting a key above all present keys appends -/
theorem RelMap.insert_eq_append_of_lt (m : RelMap τ) (k : Int) (v : Rel τ)
    (h : ∀ k' ∈ m.keys, k' < k) : RelMap.insert m k v = m ++ [(k, v)] := by
  induction m with
  | nil => rfl
  | cons x xs ih =>
    obtain ⟨k', v'⟩ := x
    have hk' : k' < k := h k' (by simp [RelMap.keys])
    have h1 : ¬ k < k' := by omega
    have h2 : ¬ k = k' := by omega
    simp only [RelMap.insert, h1, h2, if_false, List.cons_append]
    rw [ih (fun k'' hk'' => h k'' (by
      simp only [RelMap.keys, List.map_cons, List.mem_cons] at hk'' ⊢
      exact Or.inr hk''))]

/-- folding `insert` over entries with ascending keys, all above the keys already present,
appends them -/
theorem RelMap.foldl_insert_eq_append {α : Type} (f : α → Int × Rel τ) (l : List α) (acc : RelMap τ)
    (hl : (l.map fun x => (f x).1).Pairwise (· < ·))
    (hacc : ∀ k ∈ acc.keys, ∀ x ∈ l, k < (f x).1) :
    l.foldl (fun m x => RelMap.insert m (f x).1 (f x).2) acc = acc ++ l.map f := by
  induction l generalizing acc with
  | nil => simp
  | cons x xs ih =>
    simp only [List.map_cons, List.pairwise_cons] at hl
    simp only [List.foldl_cons, List.map_cons]
    rw [RelMap.insert_eq_append_of_lt acc _ _ (fun k hk => hacc k hk x (by simp))]
    rw [ih _ hl.2]
    · simp
    · intro k hk y hy
      simp only [RelMap.keys, List.map_append, List.map_cons, List.map_nil, List.mem_append,
        List.mem_singleton] at hk
      rcases hk with hk | rfl
      · exact hacc k hk y (by simp [hy])
      · exact hl.1 _ (List.mem_map.2 ⟨y, hy, rfl⟩)

theorem RelMap.sorted_append (m1 m2 : RelMap τ) (h1 : RelMap.Sorted m1) (h2 : RelMap.Sorted m2)
    (h : ∀ a ∈ m1.keys, ∀ b ∈ m2.keys, a < b) : RelMap.Sorted (m1 ++ m2) := by
  unfold RelMap.Sorted
  rw [List.map_append, List.pairwise_append]
  exact ⟨h1, h2, h⟩

/-! ## IncrementMeshIDs -/

theorem old2new_keys (m : RelMap τ) (next : Int) :
    (old2new m next).map (·.1) = m.map (·.1) := by
  unfold old2new
  rw [List.map_map]
  have h : ((fun p : Int × Int => p.1) ∘ fun kvi : (Int × Rel τ) × Nat => (kvi.1.1, next + (kvi.2 : Int)))
      = (fun kv : Int × Rel τ => kv.1) ∘ Prod.fst := rfl
  rw [h, ← List.map_map, List.zipIdx_map_fst]

theorem old2newAt_getElem (m : RelMap τ) (next : Int) (hm : RelMap.Sorted m) (i : Nat)
    (hi : i < m.length) : old2newAt (old2new m next) (m[i]).1 = next + i := by
  unfold old2newAt
  rw [find?_fst_of_mem_pairwise (old2new m next) (m[i]).1 (next + i)
    (by rw [old2new_keys]; exact hm) ?_]
  · rfl
  · unfold old2new
    exact List.mem_map.2 ⟨(m[i], i), by simp [List.mk_mem_zipIdx_iff_getElem?], rfl⟩

theorem RelMap.mem_keys_iff_getElem (m : RelMap τ) (a : Int) :
    a ∈ m.keys ↔ ∃ (i : Nat) (hi : i < m.length), (m[i]).1 = a := by
  unfold RelMap.keys
  rw [List.mem_iff_getElem]
  constructor
  · rintro ⟨i, hi, h⟩
    rw [List.length_map] at hi
    exact ⟨i, hi, by simpa using h⟩
  · rintro ⟨i, hi, h⟩
    exact ⟨i, by simpa using hi, by simpa using h⟩

theorem RelMap.Sorted.key_lt_iff {m : RelMap τ} (hm : RelMap.Sorted m) (i j : Nat)
    (hi : i < m.length) (hj : j < m.length) : (m[i]).1 < (m[j]).1 ↔ i < j := by
  unfold RelMap.Sorted at hm
  rw [List.pairwise_iff_getElem] at hm
  have key : ∀ i j (hi : i < m.length) (hj : j < m.length), i < j → (m[i]).1 < (m[j]).1 := by
    intro i j hi hj hij
    have := hm i j (by simpa using hi) (by simpa using hj) hij
    simpa using this
  constructor
  · intro h
    rcases Nat.lt_trichotomy i j with hij | hij | hji
    · exact hij
    · subst hij; omega
    · have := key j i hj hi hji; omega
  · exact key i j hi hj

theorem incrementKeys_sorted (m : RelMap τ) (next : Int) : RelMap.Sorted (incrementKeys m next) := by
  unfold RelMap.Sorted incrementKeys
  rw [List.pairwise_iff_getElem]
  intro i j hi hj hij
  simp only [List.getElem_map, List.getElem_zipIdx]
  omega

theorem incrementKeys_lookup_getElem (m : RelMap τ) (next : Int) (hm : RelMap.Sorted m) (i : Nat)
    (hi : i < m.length) :
    RelMap.lookup (incrementKeys m next) (next + i) = RelMap.lookup m (m[i]).1 := by
  rw [RelMap.lookup_eq_some_of_mem m (m[i]).1 (m[i]).2 hm (List.getElem_mem hi)]
  apply RelMap.lookup_eq_some_of_mem _ _ _ (incrementKeys_sorted m next)
  unfold incrementKeys
  exact List.mem_map.2 ⟨(m[i], i), by simp [List.mk_mem_zipIdx_iff_getElem?], rfl⟩

theorem increment_bijective_monotone' (m : RelMap τ) (next : Int) (hm : RelMap.Sorted m) :
    let t := old2new m next
    (∀ a b, a ∈ m.keys → b ∈ m.keys → (a < b ↔ old2newAt t a < old2newAt t b)) ∧
    (∀ a ∈ m.keys, next ≤ old2newAt t a ∧ old2newAt t a < next + m.length) ∧
    (∀ j : Nat, j < m.length → ∃ a ∈ m.keys, old2newAt t a = next + j) ∧
    RelMap.Sorted (incrementKeys m next) ∧
    (∀ a ∈ m.keys, RelMap.lookup (incrementKeys m next) (old2newAt t a) = RelMap.lookup m a) := by
  intro t
  refine ⟨?_, ?_, ?_, incrementKeys_sorted m next, ?_⟩
  · intro a b ha hb
    obtain ⟨i, hi, rfl⟩ := (RelMap.mem_keys_iff_getElem m a).1 ha
    obtain ⟨j, hj, rfl⟩ := (RelMap.mem_keys_iff_getElem m b).1 hb
    show _ ↔ old2newAt (old2new m next) _ < old2newAt (old2new m next) _
    rw [old2newAt_getElem m next hm i hi, old2newAt_getElem m next hm j hj, hm.key_lt_iff i j hi hj]
    omega
  · intro a ha
    obtain ⟨i, hi, rfl⟩ := (RelMap.mem_keys_iff_getElem m a).1 ha
    show _ ≤ old2newAt (old2new m next) _ ∧ old2newAt (old2new m next) _ < _
    rw [old2newAt_getElem m next hm i hi]
    omega
  · intro j hj
    exact ⟨(m[j]).1, (RelMap.mem_keys_iff_getElem m _).2 ⟨j, hj, rfl⟩, old2newAt_getElem m next hm j hj⟩
  · intro a ha
    obtain ⟨i, hi, rfl⟩ := (RelMap.mem_keys_iff_getElem m a).1 ha
    show RelMap.lookup _ (old2newAt (old2new m next) _) = _
    rw [old2newAt_getElem m next hm i hi]
    exact incrementKeys_lookup_getElem m next hm i hi

example :
    RelMap.Sorted ([(5, ⟨2, 50, false, false⟩), (6, ⟨1, 60, true, false⟩), (9, ⟨1, 70, false, true⟩)] : RelMap Nat) := by
  simp [RelMap.Sorted]

theorem increment_preserves_runLE' (m : RelMap τ) (next : Int) (hm : RelMap.Sorted m)
    (a b : TriRef) (ha : a.meshID ∈ m.keys) (hb : b.meshID ∈ m.keys) :
    let t := old2new m next
    runLE { a with meshID := old2newAt t a.meshID } { b with meshID := old2newAt t b.meshID } = runLE a b := by
  intro t
  have h := (increment_bijective_monotone' m next hm).1 b.meshID a.meshID hb ha
  unfold runLE
  simp only
  split
  · have : (old2newAt t a.meshID ≤ old2newAt t b.meshID) ↔ (a.meshID ≤ b.meshID) := by
      have h' : b.meshID < a.meshID ↔ old2newAt t b.meshID < old2newAt t a.meshID := h
      omega
    simp only [this]
  · rfl

example :
    RelMap.Sorted ([(5, ⟨2, 50, false, false⟩), (6, ⟨1, 60, true, false⟩), (9, ⟨1, 70, false, true⟩)] : RelMap Nat) ∧
    (⟨9, 1, 0, 0⟩ : TriRef).meshID ∈ RelMap.keys
      ([(5, ⟨2, 50, false, false⟩), (6, ⟨1, 60, true, false⟩), (9, ⟨1, 70, false, true⟩)] : RelMap Nat) ∧
    (⟨6, 1, 3, 3⟩ : TriRef).meshID ∈ RelMap.keys
      ([(5, ⟨2, 50, false, false⟩), (6, ⟨1, 60, true, false⟩), (9, ⟨1, 70, false, true⟩)] : RelMap Nat) := by
  simp [RelMap.Sorted, RelMap.keys]

/-! ## UpdateReference -/

theorem RelMap.pairwise_map_shift (m : RelMap τ) (c : Int) (hm : RelMap.Sorted m) :
    (m.map fun kv => kv.1 + c).Pairwise (· < ·) := by
  unfold RelMap.Sorted at hm
  rw [List.pairwise_map] at hm ⊢
  exact hm.imp (fun h => by omega)

theorem RelMap.sorted_map_shift (m : RelMap τ) (c : Int) (g : Rel τ → Rel τ) (hm : RelMap.Sorted m) :
    RelMap.Sorted (m.map fun kv => (kv.1 + c, g kv.2)) := by
  have := RelMap.pairwise_map_shift m c hm
  unfold RelMap.Sorted
  rw [List.map_map]
  exact this

theorem RelMap.mem_keys_map_shift (m : RelMap τ) (c : Int) (g : Rel τ → Rel τ) (k : Int) :
    k ∈ RelMap.keys (m.map fun kv => (kv.1 + c, g kv.2)) ↔ ∃ k' ∈ m.keys, k = k' + c := by
  unfold RelMap.keys
  simp only [List.map_map, List.mem_map, Function.comp]
  constructor
  · rintro ⟨x, hx, rfl⟩; exact ⟨x.1, ⟨x, hx, rfl⟩, rfl⟩
  · rintro ⟨k', ⟨x, hx, rfl⟩, rfl⟩; exact ⟨x, hx, rfl⟩

theorem RelMap.foldl_insert_nil (m : RelMap τ) (hm : RelMap.Sorted m) :
    m.foldl (fun acc kv => RelMap.insert acc kv.1 kv.2) ([] : RelMap τ) = m := by
  have := RelMap.foldl_insert_eq_append (fun kv : Int × Rel τ => kv) m [] hm
    (by intro k hk; simp [RelMap.keys] at hk)
  simpa using this

theorem offsetQ_disjoint' (mP mQ : RelMap τ) (offsetQ : Int) (invertQ : Bool)
    (hP : RelMap.Sorted mP) (hQ : RelMap.Sorted mQ)
    (hPlt : ∀ k ∈ mP.keys, k < offsetQ) (hQge : ∀ k ∈ mQ.keys, 0 ≤ k) :
    let m := updateReference mP mQ offsetQ invertQ
    m = mP ++ mQ.map (fun kv => (kv.1 + offsetQ, { kv.2 with backSide := xor kv.2.backSide invertQ })) ∧
    RelMap.Sorted m ∧
    (∀ k ∈ mP.keys, RelMap.lookup m k = RelMap.lookup mP k) ∧
    (∀ k ∈ mQ.keys, RelMap.lookup m (k + offsetQ) =
      (RelMap.lookup mQ k).map fun r => { r with backSide := xor r.backSide invertQ }) := by
  intro m
  have hcat : m = mP ++ mQ.map (fun kv => (kv.1 + offsetQ,
      { kv.2 with backSide := xor kv.2.backSide invertQ })) := by
    show updateReference mP mQ offsetQ invertQ = _
    unfold updateReference
    simp only
    rw [RelMap.foldl_insert_nil mP hP]
    refine RelMap.foldl_insert_eq_append
      (fun kv : Int × Rel τ => (kv.1 + offsetQ, { kv.2 with backSide := xor kv.2.backSide invertQ }))
      mQ mP (RelMap.pairwise_map_shift mQ offsetQ hQ) ?_
    intro k hk x hx
    have h1 := hPlt k hk
    have h2 := hQge x.1 (List.mem_map.2 ⟨x, hx, rfl⟩)
    show k < x.1 + offsetQ
    omega
  have hdisj : ∀ k ∈ mQ.keys, k + offsetQ ∉ mP.keys := by
    intro k hk hmem
    have h1 := hPlt _ hmem
    have h2 := hQge k hk
    omega
  refine ⟨hcat, ?_, ?_, ?_⟩
  · rw [hcat]
    refine RelMap.sorted_append _ _ hP (RelMap.sorted_map_shift mQ offsetQ
      (fun r => { r with backSide := xor r.backSide invertQ }) hQ) ?_
    intro a ha b hb
    obtain ⟨k', hk', rfl⟩ := (RelMap.mem_keys_map_shift mQ offsetQ
      (fun r => { r with backSide := xor r.backSide invertQ }) b).1 hb
    have h1 := hPlt a ha
    have h2 := hQge k' hk'
    omega
  · intro k hk
    rw [hcat]; exact RelMap.lookup_append_of_mem_keys _ _ k hk
  · intro k hk
    rw [hcat, RelMap.lookup_append_of_not_mem_keys _ _ _ (hdisj k hk)]
    exact RelMap.lookup_map_shift mQ offsetQ
      (fun r => { r with backSide := xor r.backSide invertQ }) k

example :
    RelMap.Sorted ([(0, ⟨0, 10, false, false⟩), (3, ⟨2, 30, true, false⟩)] : RelMap Nat) ∧
    RelMap.Sorted ([(0, ⟨5, 50, false, false⟩), (1, ⟨6, 60, true, true⟩)] : RelMap Nat) ∧
    (∀ k ∈ RelMap.keys ([(0, ⟨0, 10, false, false⟩), (3, ⟨2, 30, true, false⟩)] : RelMap Nat), k < 4) ∧
    (∀ k ∈ RelMap.keys ([(0, ⟨5, 50, false, false⟩), (1, ⟨6, 60, true, true⟩)] : RelMap Nat), 0 ≤ k) := by
  simp [RelMap.Sorted, RelMap.keys]

/-! ## Compose -/

/-- node `(m, i)` of the zipped list, shifted -/
abbrev shiftNode (snapshot : Int) : RelMap τ × Nat → RelMap τ :=
  fun mi => mi.1.map fun kv => (kv.1 + mi.2 * snapshot, kv.2)

theorem compose_flat_sorted (ms : List (RelMap τ)) (s : Int) (hs0 : 0 < s)
    (hs : ∀ m ∈ ms, RelMap.Sorted m) (hk : ∀ m ∈ ms, ∀ k ∈ m.keys, 0 ≤ k ∧ k < s) (n : Nat) :
    RelMap.Sorted ((ms.zipIdx n).flatMap (shiftNode s)) ∧
    ∀ k ∈ RelMap.keys ((ms.zipIdx n).flatMap (shiftNode s)), (n : Int) * s ≤ k := by
  induction ms generalizing n with
  | nil => simp [RelMap.Sorted, RelMap.keys]
  | cons m ms ih =>
    obtain ⟨ih1, ih2⟩ := ih (fun m' hm' => hs m' (List.mem_cons_of_mem _ hm'))
      (fun m' hm' => hk m' (List.mem_cons_of_mem _ hm')) (n + 1)
    have hsm := hs m (List.mem_cons_self ..)
    have hkm := hk m (List.mem_cons_self ..)
    have hmul : ((n + 1 : Nat) : Int) * s = (n : Int) * s + s := by
      rw [Int.natCast_add, Int.add_mul]; simp
    rw [hmul] at ih2
    rw [List.zipIdx_cons, List.flatMap_cons]
    have hfirst : ∀ k ∈ RelMap.keys (shiftNode s (m, n)), (n : Int) * s ≤ k ∧ k < (n : Int) * s + s := by
      intro k hk'
      obtain ⟨k', hk'', rfl⟩ := (RelMap.mem_keys_map_shift m ((n : Int) * s) id k).1 hk'
      have := hkm k' hk''
      omega
    constructor
    · refine RelMap.sorted_append _ _ (RelMap.sorted_map_shift m ((n : Int) * s) id hsm) ih1 ?_
      intro a ha b hb
      have h1 := hfirst a ha
      have h2 := ih2 b hb
      omega
    · intro k hk'
      simp only [RelMap.keys, List.map_append, List.mem_append] at hk'
      rcases hk' with hk' | hk'
      · exact (hfirst k hk').1
      · have := ih2 k hk'; omega

theorem compose_foldl_eq (ms : List (RelMap τ)) (s : Int) (hs0 : 0 < s)
    (hs : ∀ m ∈ ms, RelMap.Sorted m) (hk : ∀ m ∈ ms, ∀ k ∈ m.keys, 0 ≤ k ∧ k < s) (n : Nat)
    (acc : RelMap τ) (hacc : ∀ k ∈ acc.keys, k < (n : Int) * s) :
    (ms.zipIdx n).foldl (fun acc mi =>
      mi.1.foldl (fun acc kv => RelMap.insert acc (kv.1 + mi.2 * s) kv.2) acc) acc
      = acc ++ (ms.zipIdx n).flatMap (shiftNode s) := by
  induction ms generalizing n acc with
  | nil => simp
  | cons m ms ih =>
    have hsm := hs m (List.mem_cons_self ..)
    have hkm := hk m (List.mem_cons_self ..)
    have hmul : ((n + 1 : Nat) : Int) * s = (n : Int) * s + s := by
      rw [Int.natCast_add, Int.add_mul]; simp
    rw [List.zipIdx_cons, List.foldl_cons, List.flatMap_cons]
    have hin : m.foldl (fun acc kv => RelMap.insert acc (kv.1 + (n : Int) * s) kv.2) acc
        = acc ++ shiftNode s (m, n) := by
      refine RelMap.foldl_insert_eq_append (fun kv : Int × Rel τ => (kv.1 + (n : Int) * s, kv.2))
        m acc (RelMap.pairwise_map_shift m _ hsm) ?_
      intro k hk' x hx
      have h1 := hacc k hk'
      have h2 := hkm x.1 (List.mem_map.2 ⟨x, hx, rfl⟩)
      show k < x.1 + (n : Int) * s
      omega
    show List.foldl _ (m.foldl (fun acc kv => RelMap.insert acc (kv.1 + (n : Int) * s) kv.2) acc) _ = _
    rw [hin, ih (fun m' hm' => hs m' (List.mem_cons_of_mem _ hm'))
      (fun m' hm' => hk m' (List.mem_cons_of_mem _ hm')) (n + 1), List.append_assoc]
    intro k hk'
    rw [hmul]
    simp only [RelMap.keys, List.map_append, List.mem_append] at hk'
    rcases hk' with hk' | hk'
    · have := hacc k hk'; omega
    · obtain ⟨k', hk'', rfl⟩ := (RelMap.mem_keys_map_shift m ((n : Int) * s) id k).1 hk'
      have := hkm k' hk''
      omega

/-- with no keys at all, `Compose` builds the empty table -/
theorem compose_all_nil (ms : List (RelMap τ)) (s : Int) (h : ∀ m ∈ ms, m = []) (n : Nat)
    (acc : RelMap τ) :
    (ms.zipIdx n).foldl (fun acc mi =>
      mi.1.foldl (fun acc kv => RelMap.insert acc (kv.1 + mi.2 * s) kv.2) acc) acc = acc ∧
    (ms.zipIdx n).flatMap (shiftNode s) = [] := by
  induction ms generalizing n with
  | nil => simp
  | cons m ms ih =>
    have hm : m = [] := h m (List.mem_cons_self ..)
    subst hm
    obtain ⟨ih1, ih2⟩ := ih (fun m' hm' => h m' (List.mem_cons_of_mem _ hm')) (n + 1)
    rw [List.zipIdx_cons, List.foldl_cons, List.flatMap_cons]
    exact ⟨by simpa using ih1, by simpa using ih2⟩

theorem compose_offsets_disjoint' (ms : List (RelMap τ)) (snapshot : Int)
    (hs : ∀ m ∈ ms, RelMap.Sorted m) (hk : ∀ m ∈ ms, ∀ k ∈ m.keys, 0 ≤ k ∧ k < snapshot) :
    let c := composeRelations ms snapshot
    c = ms.zipIdx.flatMap (fun mi => mi.1.map fun kv => (kv.1 + mi.2 * snapshot, kv.2)) ∧
    RelMap.Sorted c ∧
    (∀ (i : Nat) mi k, ms[i]? = some mi → k ∈ mi.keys →
      RelMap.lookup c (k + (i : Int) * snapshot) = RelMap.lookup mi k) := by
  intro c
  by_cases hs0 : 0 < snapshot
  · have hcat : c = ms.zipIdx.flatMap (shiftNode snapshot) := by
      have := compose_foldl_eq ms snapshot hs0 hs hk 0 [] (by intro k hk'; simp [RelMap.keys] at hk')
      show composeRelations ms snapshot = _
      unfold composeRelations
      simpa using this
    have hsorted : RelMap.Sorted c := by
      rw [hcat]; exact (compose_flat_sorted ms snapshot hs0 hs hk 0).1
    refine ⟨hcat, hsorted, ?_⟩
    intro i mi k hi hk'
    have hmi : mi ∈ ms := List.mem_of_getElem? hi
    obtain ⟨v, hv⟩ := RelMap.exists_mem_of_mem_keys mi k hk'
    rw [RelMap.lookup_eq_some_of_mem mi k v (hs mi hmi) hv]
    apply RelMap.lookup_eq_some_of_mem c _ v hsorted
    rw [hcat, List.mem_flatMap]
    exact ⟨(mi, i), List.mk_mem_zipIdx_iff_getElem?.2 hi, List.mem_map.2 ⟨(k, v), hv, rfl⟩⟩
  · have hnil : ∀ m ∈ ms, m = [] := by
      intro m hm
      cases m with
      | nil => rfl
      | cons x xs =>
        have := hk _ hm x.1 (by simp [RelMap.keys])
        omega
    obtain ⟨h1, h2⟩ := compose_all_nil ms snapshot hnil 0 []
    have hc : c = [] := h1
    refine ⟨by rw [hc]; exact h2.symm, by rw [hc]; simp [RelMap.Sorted], ?_⟩
    intro i mi k hi hk'
    have := hnil mi (List.mem_of_getElem? hi)
    subst this
    simp [RelMap.keys] at hk'

example :
    (∀ m ∈ ([[(0, ⟨0, 10, false, false⟩), (3, ⟨2, 30, true, false⟩)], [],
        [(1, ⟨5, 50, false, false⟩), (2, ⟨6, 60, true, true⟩)]] : List (RelMap Nat)), RelMap.Sorted m) ∧
    (∀ m ∈ ([[(0, ⟨0, 10, false, false⟩), (3, ⟨2, 30, true, false⟩)], [],
        [(1, ⟨5, 50, false, false⟩), (2, ⟨6, 60, true, true⟩)]] : List (RelMap Nat)),
      ∀ k ∈ m.keys, 0 ≤ k ∧ k < 4) := by
  refine ⟨by simp [RelMap.Sorted], ?_⟩
  intro m hm k hk
  simp only [List.mem_cons, List.not_mem_nil, or_false] at hm
  rcases hm with rfl | rfl | rfl <;> simp [RelMap.keys] at hk <;> omega

end MV.Export
