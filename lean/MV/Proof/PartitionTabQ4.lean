import MV.Model.PartitionCheck
/-! Finite table for property C19 (kernel evaluation, no `native_decide`): the verified checker
accepts every cached subdivision pattern of the listed chunk.  Regenerated against the model on
every build; split into chunks so that lake checks them in parallel. -/
namespace MV.Partition

theorem tab_q4 : ((canonQuads 4).filter fun d => decide (d.b = 4 ∨ d.c = 4 ∨ d.d = 4)).all checkCached = true := by decide +kernel

end MV.Partition
