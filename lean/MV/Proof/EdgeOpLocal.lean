import MV.Proof.EdgeOpBasic
/-!
Local edge operations of `MV.Model.EdgeOp` preserve the pairing invariant:
the executable checkers (`goodB`, `checkPairInv`, `checkVertOrbit`), `PairUp`, `CollapseTri`,
`RemoveIfFolded`.
-/
namespace MV.EdgeOp
open MV.Halfedge (HErr rd wr nextHalfedge GoodHalfedge Tomb endOf rd_ok wr_ok next_lt next_next_next)

/-! ## T0: the executable checkers decide the invariants -/

theorem goodB_iff (start paired : Array Int) (e : Nat) :
    goodB start paired e = true ↔ MV.Halfedge.GoodHalfedge start paired e := by
  unfold goodB GoodHalfedge Tomb endOf
  simp only []
  generalize start[e]! = st
  generalize start[nextHalfedge e]! = en
  generalize start[nextHalfedge (nextHalfedge e)]! = en2
  generalize paired[e]! = pr
  generalize paired[pr.toNat]! = pp
  generalize start[nextHalfedge pr.toNat]! = a
  generalize start[pr.toNat]! = b
  generalize start.size = n
  by_cases h1 : st = -1 ∧ en = -1 ∧ pr = -1
  · simp [h1]
  · have h1' : (st == -1 && en == -1 && pr == -1) = false := by
      simp only [Bool.and_eq_false_iff, beq_eq_false_iff_ne]; omega
    rw [h1']
    simp only [Bool.false_eq_true, if_false]
    by_cases h2 : en = -1 ∨ en2 = -1
    · have : (en == -1 || en2 == -1) = true := by simpa using h2
      rw [this]; simp only [if_true, Bool.false_eq_true, false_iff]
      rintro (h | h)
      · exact h1 h
      · omega
    · have : (en == -1 || en2 == -1) = false := by
        simp only [Bool.or_eq_false_iff, beq_eq_false_iff_ne]; omega
      rw [this]; simp only [Bool.false_eq_true, if_false]
      by_cases h3 : pr < 0 ∨ n ≤ pr.toNat
      · have : (decide (pr < 0) || decide (n ≤ pr.toNat)) = true := by simpa using h3
        rw [this]; simp only [if_true, Bool.false_eq_true, false_iff]
        rintro (h | h)
        · exact h1 h
        · omega
      · have : (decide (pr < 0) || decide (n ≤ pr.toNat)) = false := by
          simp only [Bool.or_eq_false_iff, decide_eq_false_iff_not]; omega
        rw [this]
        simp only [Bool.false_eq_true, if_false, Bool.and_eq_true, beq_iff_eq, bne_iff_ne, ne_eq]
        constructor
        · intro h; right; omega
        · rintro (h | h)
          · exact absurd h h1
          · omega

theorem checkPairInv_iff (start paired : Array Int) :
    checkPairInv start paired = true ↔ MV.Halfedge.PairInv start paired := by
  unfold checkPairInv MV.Halfedge.PairInv
  simp only [Bool.and_eq_true, beq_iff_eq, List.all_eq_true, List.mem_range, goodB_iff, and_assoc]

/-- every two live halfedges with the same start vertex lie on one `ForVert` cycle -/
def VertOrbitOk (start paired : Array Int) : Prop :=
  ∀ e, e < start.size → 0 ≤ paired[e]! → ∀ e', e' < start.size → 0 ≤ paired[e']! →
    start[e]! = start[e']! → reaches paired start.size e e' = true

theorem checkVertOrbit_iff (start paired : Array Int) :
    checkVertOrbit start paired = true ↔ VertOrbitOk start paired := by
  unfold checkVertOrbit VertOrbitOk
  simp only [List.all_eq_true, List.mem_range, Bool.or_eq_true, decide_eq_true_eq, bne_iff_ne, ne_eq]
  constructor
  · intro h e he hp e' he' hp' hs
    rcases h e he with h | h
    · omega
    · rcases h e' he' with h | h
      · rcases h with h | h
        · omega
        · exact absurd hs h
      · exact h
  · intro h e he
    by_cases hp : paired[e]! < 0
    · exact Or.inl hp
    · right
      intro e' he'
      by_cases hp' : paired[e']! < 0
      · exact Or.inl (Or.inl hp')
      · by_cases hs : start[e]! = start[e']!
        · exact Or.inr (h e he (by omega) e' he' (by omega) hs)
        · exact Or.inl (Or.inr hs)

/-- the tetrahedron used in the non-vacuity examples -/
def tetra : HE :=
  { start := #[0,2,1, 0,1,3, 1,2,3, 2,0,3], paired := #[9,6,3, 2,8,10, 1,11,4, 0,5,7],
    prop := #[0,2,1, 0,1,3, 1,2,3, 2,0,3], nVert := 4, nPropVert := 4 }

example : checkPairInv tetra.start tetra.paired = true ∧ checkVertOrbit tetra.start tetra.paired = true := by
  decide +kernel
example : PairInv tetra := by
  refine ⟨by decide, (checkPairInv_iff _ _).1 (by decide +kernel)⟩

/-! ## general helpers -/

theorem PairInvExcept.good {s : HE} {X : List Nat} (h : PairInvExcept s X) {e : Nat}
    (he : e < s.start.size) (hx : e ∉ X) : Good s e := h.2 e he hx

theorem Pn_eq_of_P {s : HE} {e q : Nat} (h : s.P e = (q : Int)) : s.Pn e = q := by
  unfold HE.Pn; unfold HE.P at h; rw [h]; simp

theorem P_eq_Pn {s : HE} {e : Nat} (h : 0 ≤ s.P e) : s.P e = ((s.Pn e : Nat) : Int) :=
  (Pn_cast s e h).symm

/-- `Good` only looks at `start` and `paired` -/
theorem good_congr {s s' : HE} (h1 : s'.start = s.start) (h2 : s'.paired = s.paired) (e : Nat) :
    Good s' e ↔ Good s e := by unfold Good; rw [h1, h2]

/-- a halfedge correctly paired with `y` is `Good` -/
theorem good_of_pair {s : HE} {x y : Nat} (hy : y < s.start.size) (hxy : s.P x = (y : Int))
    (hyx : s.P y = (x : Int)) (l1 : s.S (nx x) ≠ -1) (l2 : s.S (nx (nx x)) ≠ -1)
    (hne : s.S x ≠ s.S (nx x)) (h1 : s.S x = s.S (nx y)) (h2 : s.S (nx x) = s.S y) : Good s x := by
  rw [good_iff]; right
  rw [Pn_eq_of_P hxy, hxy]
  exact ⟨l1, l2, by omega, hy, hyx, hne, h1, h2⟩

/-- the pure result of `PairUp` -/
def pairS (s : HE) (e0 e1 : Nat) : HE := (s.setP e0 e1).setP e1 e0

section pairS
variable (s : HE) (e0 e1 j : Nat)
theorem P_pairS (h0 : e0 < s.paired.size) (h1 : e1 < s.paired.size) :
    (pairS s e0 e1).P j = if j = e1 then (e0 : Int) else if j = e0 then (e1 : Int) else s.P j := by
  unfold pairS
  simp only [P_setP, paired_size_setP]
  grind
@[simp] theorem S_pairS : (pairS s e0 e1).S j = s.S j := rfl
@[simp] theorem R_pairS : (pairS s e0 e1).R j = s.R j := rfl
@[simp] theorem start_pairS : (pairS s e0 e1).start = s.start := rfl
@[simp] theorem prop_pairS : (pairS s e0 e1).prop = s.prop := rfl
@[simp] theorem nVert_pairS : (pairS s e0 e1).nVert = s.nVert := rfl
@[simp] theorem nPropVert_pairS : (pairS s e0 e1).nPropVert = s.nPropVert := rfl
@[simp] theorem paired_size_pairS : (pairS s e0 e1).paired.size = s.paired.size := by simp [pairS]
theorem WF_pairS (h : WF s) : WF (pairS s e0 e1) := WF_setP _ _ _ (WF_setP _ _ _ h)
theorem pairUp_ok' (h0 : e0 < s.paired.size) (h1 : e1 < s.paired.size) :
    pairUp s (e0 : Int) (e1 : Int) = .ok (pairS s e0 e1) := pairUp_ok s e0 e1 h0 h1
end pairS

/-! ## T1: `PairUp` -/

theorem pairUp_frame (s : HE) (X : List Nat) (e0 e1 : Nat)
    (h : PairInvExcept s X) (h0 : e0 < s.start.size) (h1 : e1 < s.start.size) :
    ∃ s', pairUp s (e0 : Int) (e1 : Int) = .ok s' ∧ s'.start = s.start ∧ s'.prop = s.prop ∧
      s'.nVert = s.nVert ∧ PairInvExcept s' (X ++ [e0, e1, s.Pn e0, s.Pn e1]) := by
  have hw := h.1
  have h0' : e0 < s.paired.size := hw.1 ▸ h0
  have h1' : e1 < s.paired.size := hw.1 ▸ h1
  refine ⟨pairS s e0 e1, pairUp_ok' s e0 e1 h0' h1', rfl, rfl, rfl, WF_pairS s e0 e1 hw, ?_⟩
  intro e he hx
  simp only [List.mem_append, List.mem_cons, List.not_mem_nil, or_false, not_or] at hx
  obtain ⟨hx, hne0, hne1, hq0, hq1⟩ := hx
  have hg : Good s e := h.good he hx
  have hP : ∀ j, j ≠ e0 → j ≠ e1 → (pairS s e0 e1).P j = s.P j := by
    intro j a b; rw [P_pairS s e0 e1 j h0' h1', if_neg b, if_neg a]
  refine good_frame (s := s) rfl rfl rfl rfl (hP e hne0 hne1) (fun hl => ⟨?_, rfl, rfl⟩) hg
  obtain ⟨_, _, _, _, hinv, _⟩ := hg.live (by omega)
  apply hP
  · intro hc; rw [hc] at hinv; exact hq0 (Pn_eq_of_P hinv).symm
  · intro hc; rw [hc] at hinv; exact hq1 (Pn_eq_of_P hinv).symm

theorem pairUp_preserves (s : HE) (X : List Nat) (e0 e1 : Nat)
    (h : PairInvExcept s X) (h0 : e0 < s.start.size) (h1 : e1 < s.start.size) (hne : e0 ≠ e1)
    (hp0 : ∀ e, e < s.start.size → e ∉ X → s.P e = (e0 : Int) → e = e1)
    (hp1 : ∀ e, e < s.start.size → e ∉ X → s.P e = (e1 : Int) → e = e0)
    (hl0 : s.S (nx e0) ≠ -1 ∧ s.S (nx (nx e0)) ≠ -1) (hl1 : s.S (nx e1) ≠ -1 ∧ s.S (nx (nx e1)) ≠ -1)
    (hv : s.S e0 = s.S (nx e1) ∧ s.S (nx e0) = s.S e1 ∧ s.S e0 ≠ s.S (nx e0)) :
    ∃ s', pairUp s (e0 : Int) (e1 : Int) = .ok s' ∧ s'.start = s.start ∧ s'.prop = s.prop ∧
      s'.nVert = s.nVert ∧ PairInvExcept s' (X.filter fun e => e ≠ e0 ∧ e ≠ e1) := by
  have hw := h.1
  have h0' : e0 < s.paired.size := hw.1 ▸ h0
  have h1' : e1 < s.paired.size := hw.1 ▸ h1
  refine ⟨pairS s e0 e1, pairUp_ok' s e0 e1 h0' h1', rfl, rfl, rfl, WF_pairS s e0 e1 hw, ?_⟩
  intro e he hx
  have hPe0 : (pairS s e0 e1).P e0 = (e1 : Int) := by
    rw [P_pairS s e0 e1 e0 h0' h1', if_neg hne, if_pos rfl]
  have hPe1 : (pairS s e0 e1).P e1 = (e0 : Int) := by
    rw [P_pairS s e0 e1 e1 h0' h1', if_pos rfl]
  by_cases a0 : e = e0
  · subst a0
    exact good_of_pair h1 hPe0 hPe1 hl0.1 hl0.2 hv.2.2 hv.1 hv.2.1
  by_cases a1 : e = e1
  · subst a1
    refine good_of_pair h0 hPe1 hPe0 hl1.1 hl1.2 ?_ hv.2.1.symm hv.1.symm
    show s.S e ≠ s.S (nx e)
    rw [← hv.2.1, ← hv.1]; exact fun hc => hv.2.2 hc.symm
  have hx' : e ∉ X := by
    intro hc; apply hx; simp only [List.mem_filter, decide_eq_true_eq, ne_eq]; exact ⟨hc, a0, a1⟩
  have he' : e < s.start.size := he
  have hg : Good s e := h.good he' hx'
  have hP : ∀ j, j ≠ e0 → j ≠ e1 → (pairS s e0 e1).P j = s.P j := by
    intro j a b; rw [P_pairS s e0 e1 j h0' h1', if_neg b, if_neg a]
  refine good_frame (s := s) rfl rfl rfl rfl (hP e a0 a1) (fun hl => ⟨?_, rfl, rfl⟩) hg
  obtain ⟨_, _, _, hlt, hinv, _⟩ := hg.live (by omega)
  have hPe : s.P e = ((s.Pn e : Nat) : Int) := P_eq_Pn hl
  apply hP
  · intro hc; rw [hc] at hPe; exact a1 (hp0 e he' hx' hPe)
  · intro hc; rw [hc] at hPe; exact a0 (hp1 e he' hx' hPe)

/-- the tetrahedron with the edge 0-9 un-paired -/
def tetraCut : HE := { tetra with paired := #[-1,6,3, 2,8,10, 1,11,4, -1,5,7] }

/-- non-vacuity: halfedges 0 and 9 dangling (in the exception list), `PairUp 0 9` restores the
invariant -/
example :
    PairInvExcept tetraCut [0, 9] ∧ (0 : Nat) < tetraCut.start.size ∧ (9 : Nat) < tetraCut.start.size ∧
    (∀ e, e < tetraCut.start.size → e ∉ [0, 9] → tetraCut.P e = ((0 : Nat) : Int) → e = 9) ∧
    (∀ e, e < tetraCut.start.size → e ∉ [0, 9] → tetraCut.P e = ((9 : Nat) : Int) → e = 0) ∧
    (tetraCut.S (nx 0) ≠ -1 ∧ tetraCut.S (nx (nx 0)) ≠ -1) ∧
    (tetraCut.S (nx 9) ≠ -1 ∧ tetraCut.S (nx (nx 9)) ≠ -1) ∧
    (tetraCut.S 0 = tetraCut.S (nx 9) ∧ tetraCut.S (nx 0) = tetraCut.S 9 ∧
      tetraCut.S 0 ≠ tetraCut.S (nx 0)) ∧
    pairUp tetraCut ((0 : Nat) : Int) ((9 : Nat) : Int) = .ok tetra := by
  refine ⟨by decide +kernel, by decide +kernel, by decide +kernel, by decide +kernel,
    by decide +kernel, by decide +kernel, by decide +kernel, by decide +kernel, ?_⟩
  rfl

/-! ## tombstoning a triangle -/

/-- pure `halfedge_.Set(e, -1, -1, pp)` -/
def kill (s : HE) (e : Nat) (pp : Int) : HE := ((s.setS e (-1)).setP e (-1)).setR e pp

/-- the three halfedges of the triangle of `e0` tombstoned (`propVert_` set to `r0 r1 r2`) -/
def killTri (s : HE) (e0 : Nat) (r0 r1 r2 : Int) : HE :=
  kill (kill (kill s e0 r0) (nx e0) r1) (nx (nx e0)) r2

section kill
variable (s : HE) (e j : Nat) (pp : Int)
@[simp] theorem S_kill : (kill s e pp).S j = if e = j ∧ e < s.start.size then -1 else s.S j := by
  simp [kill]
@[simp] theorem P_kill : (kill s e pp).P j = if e = j ∧ e < s.paired.size then -1 else s.P j := by
  by_cases h : e = j ∧ e < s.paired.size
  · rw [if_pos h]; unfold kill; rw [P_setR, P_setP, if_pos (by simpa using h)]
  · rw [if_neg h]; unfold kill; rw [P_setR, P_setP, if_neg (by simpa using h), P_setS]
@[simp] theorem R_kill : (kill s e pp).R j = if e = j ∧ e < s.prop.size then pp else s.R j := by
  by_cases h : e = j ∧ e < s.prop.size
  · rw [if_pos h]; unfold kill; rw [R_setR, if_pos (by simpa using h)]
  · rw [if_neg h]; unfold kill; rw [R_setR, if_neg (by simpa using h), R_setP, R_setS]
@[simp] theorem start_size_kill : (kill s e pp).start.size = s.start.size := by simp [kill]
@[simp] theorem paired_size_kill : (kill s e pp).paired.size = s.paired.size := by simp [kill]
@[simp] theorem prop_size_kill : (kill s e pp).prop.size = s.prop.size := by simp [kill]
@[simp] theorem nVert_kill : (kill s e pp).nVert = s.nVert := rfl
@[simp] theorem nPropVert_kill : (kill s e pp).nPropVert = s.nPropVert := rfl
theorem WF_kill (h : WF s) : WF (kill s e pp) := WF_setR _ _ _ (WF_setP _ _ _ (WF_setS _ _ _ h))
theorem kill_ok (hw : WF s) (h : e < s.start.size) :
    s.set (e : Int) (-1) (-1) pp = .ok (kill s e pp) := set_ok s e hw h _ _ _

theorem setIfInBounds_self (a : Array Int) (i : Nat) : a.setIfInBounds i a[i]! = a := by
  apply Array.ext
  · simp
  · intro j h1 h2
    rw [Array.getElem_setIfInBounds]
    split
    · next h => subst h; simp [h2]
    · rfl

theorem prop_kill_self : (kill s e (s.R e)).prop = s.prop := by
  show s.prop.setIfInBounds e s.prop[e]! = s.prop
  exact setIfInBounds_self _ _
end kill

section killTri
variable (s : HE) (e0 j : Nat) (r0 r1 r2 : Int)
@[simp] theorem start_size_killTri : (killTri s e0 r0 r1 r2).start.size = s.start.size := by
  simp [killTri]
@[simp] theorem paired_size_killTri : (killTri s e0 r0 r1 r2).paired.size = s.paired.size := by
  simp [killTri]
@[simp] theorem prop_size_killTri : (killTri s e0 r0 r1 r2).prop.size = s.prop.size := by
  simp [killTri]
@[simp] theorem nVert_killTri : (killTri s e0 r0 r1 r2).nVert = s.nVert := rfl
@[simp] theorem nPropVert_killTri : (killTri s e0 r0 r1 r2).nPropVert = s.nPropVert := rfl
theorem WF_killTri (h : WF s) : WF (killTri s e0 r0 r1 r2) :=
  WF_kill _ _ _ (WF_kill _ _ _ (WF_kill _ _ _ h))

theorem S_killTri (hw : WF s) (h0 : e0 < s.start.size) :
    (killTri s e0 r0 r1 r2).S j = if j / 3 = e0 / 3 then -1 else s.S j := by
  have h1 := nx_lt hw.2.2 h0
  have h2 := nx_lt hw.2.2 h1
  unfold killTri
  simp only [S_kill, start_size_kill]
  by_cases hj : j / 3 = e0 / 3
  · rw [if_pos hj]
    rcases nx_cases hj.symm with h | h | h <;> subst h <;> simp [h0, h1, h2]
  · rw [if_neg hj]
    have a0 : e0 ≠ j := fun h => hj (h ▸ rfl)
    have a1 : nx e0 ≠ j := fun h => hj (h ▸ nx_div e0)
    have a2 : nx (nx e0) ≠ j := fun h => hj (h ▸ (nx_div _).trans (nx_div e0))
    simp [a0, a1, a2]

theorem P_killTri (hw : WF s) (h0 : e0 < s.start.size) :
    (killTri s e0 r0 r1 r2).P j = if j / 3 = e0 / 3 then -1 else s.P j := by
  have h1 := nx_lt hw.2.2 h0
  have h2 := nx_lt hw.2.2 h1
  rw [hw.1] at h0 h1 h2
  unfold killTri
  simp only [P_kill, paired_size_kill]
  by_cases hj : j / 3 = e0 / 3
  · rw [if_pos hj]
    rcases nx_cases hj.symm with h | h | h <;> subst h <;> simp [h0, h1, h2]
  · rw [if_neg hj]
    have a0 : e0 ≠ j := fun h => hj (h ▸ rfl)
    have a1 : nx e0 ≠ j := fun h => hj (h ▸ nx_div e0)
    have a2 : nx (nx e0) ≠ j := fun h => hj (h ▸ (nx_div _).trans (nx_div e0))
    simp [a0, a1, a2]

/-- `CollapseTri` rewrites `propVert_` with the values it holds -/
theorem prop_killTri_self :
    (killTri s e0 (s.R e0) (s.R (nx e0)) (s.R (nx (nx e0)))).prop = s.prop := by
  unfold killTri
  have a1 : s.R (nx e0) = (kill s e0 (s.R e0)).R (nx e0) := by
    rw [R_kill, if_neg (fun h => nx_ne e0 h.1.symm)]
  have a2 : s.R (nx (nx e0)) = (kill (kill s e0 (s.R e0)) (nx e0) (s.R (nx e0))).R (nx (nx e0)) := by
    rw [R_kill, if_neg (fun h => nx_ne _ h.1.symm), R_kill, if_neg (fun h => nx_nx_ne e0 h.1.symm)]
  rw [a2, prop_kill_self]
  rw [a1, prop_kill_self, prop_kill_self]

/-- the three `Set(triEdge[i], -1, -1, r_i)` calls -/
theorem killTri_ok (hw : WF s) (h0 : e0 < s.start.size) :
    (do let s ← s.set (e0 : Int) (-1) (-1) r0
        let s ← s.set ((nx e0 : Nat) : Int) (-1) (-1) r1
        s.set ((nx (nx e0) : Nat) : Int) (-1) (-1) r2) = Except.ok (killTri s e0 r0 r1 r2) := by
  have h1 := nx_lt hw.2.2 h0
  have h2 := nx_lt hw.2.2 h1
  rw [kill_ok s e0 r0 hw h0]
  simp only [bind, Except.bind]
  rw [kill_ok _ (nx e0) r1 (WF_kill _ _ _ hw) (by simpa using h1)]
  simp only []
  rw [kill_ok _ (nx (nx e0)) r2 (WF_kill _ _ _ (WF_kill _ _ _ hw)) (by simpa using h2)]
  rfl
end killTri

/-- general frame for "tombstone the halfedges in `D`, rewire `paired` on `Y`": a `Good` halfedge
outside `D ∪ Y` whose partner is outside `D ∪ Y` stays `Good` -/
theorem good_rewire {s s' : HE} (D : Nat → Prop) (Y : List Nat)
    (hsz : s'.start.size = s.start.size) (hD : ∀ j, D (nx j) ↔ D j)
    (hS : ∀ j, ¬ D j → s'.S j = s.S j) (hP : ∀ j, ¬ D j → j ∉ Y → s'.P j = s.P j)
    {e : Nat} (hg : Good s e) (heD : ¬ D e) (heY : e ∉ Y)
    (hq : 0 ≤ s.P e → ¬ D (s.Pn e) ∧ s.Pn e ∉ Y) : Good s' e := by
  have d1 : ¬ D (nx e) := fun h => heD ((hD e).1 h)
  have d2 : ¬ D (nx (nx e)) := fun h => d1 ((hD _).1 h)
  refine good_frame (s := s) hsz (hS e heD) (hS _ d1) (hS _ d2) (hP e heD heY) (fun hl => ?_) hg
  obtain ⟨q1, q2⟩ := hq hl
  exact ⟨hP _ q1 q2, hS _ q1, hS _ (fun h => q1 ((hD _).1 h))⟩

/-- a tombstoned halfedge of a tombstoned triangle is `Good` -/
theorem good_dead {s s' : HE} (D : Nat → Prop)
    (hw : WF s) (hD : ∀ j, D (nx j) ↔ D j)
    (hT : ∀ j, D j → j < s.start.size → s'.S j = -1 ∧ s'.P j = -1)
    {e : Nat} (he : e < s.start.size) (heD : D e) : Good s' e :=
  good_of_tomb (hT e heD he).1 (hT _ ((hD e).2 heD) (nx_lt hw.2.2 he)).1 (hT e heD he).2

theorem tri_closed (e0 j : Nat) : nx j / 3 = e0 / 3 ↔ j / 3 = e0 / 3 := by rw [nx_div]

/-! ## T2: `CollapseTri` -/

/-- `CollapseTri` evaluated: pair the two outer partners, tombstone the triangle -/
theorem collapseTri_ok (s : HE) (e0 : Nat) (hw : WF s) (h0 : e0 < s.start.size)
    (hq1 : 0 ≤ s.P (nx e0) ∧ s.Pn (nx e0) < s.start.size)
    (hq2 : 0 ≤ s.P (nx (nx e0)) ∧ s.Pn (nx (nx e0)) < s.start.size) :
    collapseTri s (triOf (e0 : Int)) =
      .ok (killTri (pairS s (s.Pn (nx e0)) (s.Pn (nx (nx e0)))) e0
        (s.R e0) (s.R (nx e0)) (s.R (nx (nx e0)))) := by
  have h1 := nx_lt hw.2.2 h0
  have h2 := nx_lt hw.2.2 h1
  have hps : s.prop.size = s.start.size := hw.2.1.trans hw.1.symm
  unfold collapseTri
  rw [triOf_cast]
  simp only []
  rw [getPair_ok s (nx e0) (hw.1 ▸ h1)]
  simp only [bind, Except.bind]
  rw [if_neg (by omega)]
  rw [getPair_ok s (nx (nx e0)) (hw.1 ▸ h2)]
  simp only []
  rw [P_eq_Pn hq1.1, P_eq_Pn hq2.1]
  rw [pairUp_ok' s _ _ (hw.1 ▸ hq1.2) (hw.1 ▸ hq2.2)]
  simp only []
  generalize hs1 : pairS s (s.Pn (nx e0)) (s.Pn (nx (nx e0))) = s1
  have hw1 : WF s1 := hs1 ▸ WF_pairS s _ _ hw
  have hsz1 : s1.start.size = s.start.size := by rw [← hs1]; rfl
  have hpz1 : s1.prop.size = s.start.size := by rw [← hs1]; exact hps
  have hR : ∀ j, s1.R j = s.R j := by intro j; rw [← hs1]; rfl
  rw [getProp_ok s1 e0 (by omega)]
  simp only []
  rw [kill_ok s1 e0 _ hw1 (by omega)]
  simp only []
  rw [getProp_ok _ (nx e0) (by rw [prop_size_kill]; omega)]
  simp only []
  rw [kill_ok _ (nx e0) _ (WF_kill _ _ _ hw1) (by rw [start_size_kill]; omega)]
  simp only []
  rw [getProp_ok _ (nx (nx e0)) (by rw [prop_size_kill, prop_size_kill]; omega)]
  simp only []
  rw [kill_ok _ (nx (nx e0)) _ (WF_kill _ _ _ (WF_kill _ _ _ hw1))
    (by rw [start_size_kill, start_size_kill]; omega)]
  have n1 : ¬ e0 = nx e0 := fun h => nx_ne e0 h.symm
  have n2 : ¬ e0 = nx (nx e0) := fun h => nx_nx_ne e0 h.symm
  have n3 : ¬ nx e0 = nx (nx e0) := fun h => nx_ne _ h.symm
  simp only [R_kill, hR, n1, n2, n3, false_and, if_false]
  rfl

/-- `CollapseTri` under pairing-only hypotheses on the two outer edges `e1 = nx e0`,
`e2 = nx (nx e0)`: the triangle is tombstoned, the outer partners `p1 = Pn e1`, `p2 = Pn e2` are
paired with each other (and stay in the exception list), the old partner of `e0` is left dangling -/
theorem collapseTri_frame (s : HE) (X : List Nat) (e0 : Nat) (h : PairInvExcept s X)
    (h0 : e0 < s.start.size)
    (hq1 : 0 ≤ s.P (nx e0) ∧ s.Pn (nx e0) < s.start.size ∧
      s.P (s.Pn (nx e0)) = ((nx e0 : Nat) : Int))
    (hq2 : 0 ≤ s.P (nx (nx e0)) ∧ s.Pn (nx (nx e0)) < s.start.size ∧
      s.P (s.Pn (nx (nx e0))) = ((nx (nx e0) : Nat) : Int)) :
    ∃ s', collapseTri s (triOf (e0 : Int)) = .ok s' ∧ s'.prop = s.prop ∧ s'.nVert = s.nVert ∧
      s'.nPropVert = s.nPropVert ∧ s'.start.size = s.start.size ∧
      (∀ j, j / 3 ≠ e0 / 3 → s'.S j = s.S j) ∧
      (∀ j, j / 3 = e0 / 3 → j < s.start.size → s'.S j = -1 ∧ s'.P j = -1) ∧
      (∀ j, j / 3 ≠ e0 / 3 → j ≠ s.Pn (nx e0) → j ≠ s.Pn (nx (nx e0)) → s'.P j = s.P j) ∧
      ((s.Pn (nx e0) / 3 ≠ e0 / 3 → s'.P (s.Pn (nx e0)) = (s.Pn (nx (nx e0)) : Int)) ∧
       (s.Pn (nx (nx e0)) / 3 ≠ e0 / 3 → s'.P (s.Pn (nx (nx e0))) = (s.Pn (nx e0) : Int))) ∧
      PairInvExcept s'
        ((X.filter fun e => e / 3 ≠ e0 / 3) ++ [s.Pn e0, s.Pn (nx e0), s.Pn (nx (nx e0))]) := by
  have hw := h.1
  have hp1 : s.Pn (nx e0) < s.paired.size := hw.1 ▸ hq1.2.1
  have hp2 : s.Pn (nx (nx e0)) < s.paired.size := hw.1 ▸ hq2.2.1
  have hw1 : WF (pairS s (s.Pn (nx e0)) (s.Pn (nx (nx e0)))) := WF_pairS s _ _ hw
  have hS : ∀ j, j / 3 ≠ e0 / 3 → (killTri (pairS s (s.Pn (nx e0)) (s.Pn (nx (nx e0)))) e0
      (s.R e0) (s.R (nx e0)) (s.R (nx (nx e0)))).S j = s.S j := by
    intro j hj; rw [S_killTri _ _ _ _ _ _ hw1 h0, if_neg hj]; rfl
  have hT : ∀ j, j / 3 = e0 / 3 → j < s.start.size →
      (killTri (pairS s (s.Pn (nx e0)) (s.Pn (nx (nx e0)))) e0
        (s.R e0) (s.R (nx e0)) (s.R (nx (nx e0)))).S j = -1 ∧
      (killTri (pairS s (s.Pn (nx e0)) (s.Pn (nx (nx e0)))) e0
        (s.R e0) (s.R (nx e0)) (s.R (nx (nx e0)))).P j = -1 := by
    intro j hj _
    rw [S_killTri _ _ _ _ _ _ hw1 h0, P_killTri _ _ _ _ _ _ hw1 h0, if_pos hj, if_pos hj]
    exact ⟨rfl, rfl⟩
  have hP : ∀ j, j / 3 ≠ e0 / 3 → (killTri (pairS s (s.Pn (nx e0)) (s.Pn (nx (nx e0)))) e0
      (s.R e0) (s.R (nx e0)) (s.R (nx (nx e0)))).P j =
      if j = s.Pn (nx (nx e0)) then (s.Pn (nx e0) : Int) else
      if j = s.Pn (nx e0) then (s.Pn (nx (nx e0)) : Int) else s.P j := by
    intro j hj
    rw [P_killTri _ _ _ _ _ _ hw1 h0, if_neg hj, P_pairS s _ _ j hp1 hp2]
  have hP' : ∀ j, j / 3 ≠ e0 / 3 → j ∉ [s.Pn (nx e0), s.Pn (nx (nx e0))] →
      (killTri (pairS s (s.Pn (nx e0)) (s.Pn (nx (nx e0)))) e0
      (s.R e0) (s.R (nx e0)) (s.R (nx (nx e0)))).P j = s.P j := by
    intro j hj hY
    simp only [List.mem_cons, List.not_mem_nil, or_false, not_or] at hY
    rw [hP j hj, if_neg hY.2, if_neg hY.1]
  refine ⟨_, collapseTri_ok s e0 hw h0 ⟨hq1.1, hq1.2.1⟩ ⟨hq2.1, hq2.2.1⟩, ?_, rfl, rfl, ?_,
    hS, hT, ?_, ⟨?_, ?_⟩, ?_, ?_⟩
  · exact prop_killTri_self (pairS s (s.Pn (nx e0)) (s.Pn (nx (nx e0)))) e0
  · simp
  · intro j hj a b; rw [hP j hj, if_neg b, if_neg a]
  · intro hj; rw [hP _ hj]; split
    · next hc => rw [← hc]
    · rw [if_pos rfl]
  · intro hj; rw [hP _ hj, if_pos rfl]
  · exact WF_killTri _ _ _ _ _ hw1
  · intro e he hx
    rw [start_size_killTri] at he
    have he' : e < s.start.size := he
    simp only [List.mem_append, List.mem_filter, decide_eq_true_eq, List.mem_cons,
      List.not_mem_nil, or_false, not_or, not_and, ne_eq] at hx
    obtain ⟨hx, hne0, hne1, hne2⟩ := hx
    by_cases hD : e / 3 = e0 / 3
    · exact good_dead (fun j => j / 3 = e0 / 3) hw (tri_closed e0) hT he' hD
    have hxX : e ∉ X := fun hc => hx hc hD
    have hg : Good s e := h.good he' hxX
    refine good_rewire (fun j => j / 3 = e0 / 3) [s.Pn (nx e0), s.Pn (nx (nx e0))] (by simp)
      (tri_closed e0) hS hP' hg hD (by simp [hne1, hne2]) (fun hl => ?_)
    obtain ⟨_, _, _, _, hinv, _⟩ := hg.live (by omega)
    constructor
    · intro hc
      rcases nx_cases hc.symm with hq | hq | hq
      · rw [hq] at hinv; exact hne0 (Pn_eq_of_P hinv).symm
      · rw [hq] at hinv; exact hne1 (Pn_eq_of_P hinv).symm
      · rw [hq] at hinv; exact hne2 (Pn_eq_of_P hinv).symm
    · simp only [List.mem_cons, List.not_mem_nil, or_false, not_or]
      constructor
      · intro hc; rw [hc, hq1.2.2] at hinv
        have : nx e0 = e := by omega
        exact hD (this ▸ nx_div e0)
      · intro hc; rw [hc, hq2.2.2] at hinv
        have : nx (nx e0) = e := by omega
        exact hD (this ▸ (nx_div _).trans (nx_div e0))

/-- `x` re-paired with `y`, both triangles untouched, labels matching: `x` is `Good` afterwards -/
theorem good_of_pair_frame {s s' : HE} {x y : Nat} (hsz : s'.start.size = s.start.size)
    (hSx : ∀ j, j / 3 = x / 3 → s'.S j = s.S j) (hSy : ∀ j, j / 3 = y / 3 → s'.S j = s.S j)
    (hy : y < s.start.size) (hxy : s'.P x = (y : Int)) (hyx : s'.P y = (x : Int))
    (l1 : s.S (nx x) ≠ -1) (l2 : s.S (nx (nx x)) ≠ -1)
    (hne : s.S x ≠ s.S (nx x)) (h1 : s.S x = s.S (nx y)) (h2 : s.S (nx x) = s.S y) : Good s' x := by
  have a0 := hSx x rfl
  have a1 := hSx (nx x) (nx_div x)
  have a2 := hSx (nx (nx x)) ((nx_div _).trans (nx_div x))
  have b0 := hSy y rfl
  have b1 := hSy (nx y) (nx_div y)
  refine good_of_pair (hsz ▸ hy) hxy hyx ?_ ?_ ?_ ?_ ?_ <;> omega

/-- `CollapseTri`, headline (general form): when the outer partners `p1`, `p2` lie outside the
triangle and their labels match, they leave the exception list -/
theorem collapseTri_preserves_full (s : HE) (X : List Nat) (e0 : Nat) (h : PairInvExcept s X)
    (h0 : e0 < s.start.size)
    (hq1 : 0 ≤ s.P (nx e0) ∧ s.Pn (nx e0) < s.start.size ∧
      s.P (s.Pn (nx e0)) = ((nx e0 : Nat) : Int))
    (hq2 : 0 ≤ s.P (nx (nx e0)) ∧ s.Pn (nx (nx e0)) < s.start.size ∧
      s.P (s.Pn (nx (nx e0))) = ((nx (nx e0) : Nat) : Int))
    (ho1 : s.Pn (nx e0) / 3 ≠ e0 / 3) (ho2 : s.Pn (nx (nx e0)) / 3 ≠ e0 / 3)
    (hl1 : s.S (nx (s.Pn (nx e0))) ≠ -1 ∧ s.S (nx (nx (s.Pn (nx e0)))) ≠ -1)
    (hl2 : s.S (nx (s.Pn (nx (nx e0)))) ≠ -1 ∧ s.S (nx (nx (s.Pn (nx (nx e0))))) ≠ -1)
    (hv : s.S (s.Pn (nx e0)) = s.S (nx (s.Pn (nx (nx e0)))) ∧
      s.S (nx (s.Pn (nx e0))) = s.S (s.Pn (nx (nx e0))) ∧
      s.S (s.Pn (nx e0)) ≠ s.S (nx (s.Pn (nx e0)))) :
    ∃ s', collapseTri s (triOf (e0 : Int)) = .ok s' ∧ s'.prop = s.prop ∧ s'.nVert = s.nVert ∧
      s'.nPropVert = s.nPropVert ∧ s'.start.size = s.start.size ∧
      (∀ j, j / 3 ≠ e0 / 3 → s'.S j = s.S j) ∧
      (∀ j, j / 3 = e0 / 3 → j < s.start.size → s'.S j = -1 ∧ s'.P j = -1) ∧
      (∀ j, j / 3 ≠ e0 / 3 → j ≠ s.Pn (nx e0) → j ≠ s.Pn (nx (nx e0)) → s'.P j = s.P j) ∧
      (s'.P (s.Pn (nx e0)) = (s.Pn (nx (nx e0)) : Int) ∧
       s'.P (s.Pn (nx (nx e0))) = (s.Pn (nx e0) : Int)) ∧
      PairInvExcept s'
        ((X.filter fun e => e / 3 ≠ e0 / 3 ∧ e ≠ s.Pn (nx e0) ∧ e ≠ s.Pn (nx (nx e0))) ++
          [s.Pn e0]) := by
  obtain ⟨s', heq, hprop, hnv, hnp, hsz, hS, hT, hP, ⟨hP1, hP2⟩, hinv⟩ :=
    collapseTri_frame s X e0 h h0 hq1 hq2
  refine ⟨s', heq, hprop, hnv, hnp, hsz, hS, hT, hP, ⟨hP1 ho1, hP2 ho2⟩, hinv.mono ?_⟩
  intro e _ hin hout
  have hS1 : ∀ j, j / 3 = s.Pn (nx e0) / 3 → s'.S j = s.S j := fun j hj => hS j (hj ▸ ho1)
  have hS2 : ∀ j, j / 3 = s.Pn (nx (nx e0)) / 3 → s'.S j = s.S j := fun j hj => hS j (hj ▸ ho2)
  have hcase : e = s.Pn (nx e0) ∨ e = s.Pn (nx (nx e0)) := by
    simp only [List.mem_append, List.mem_filter, decide_eq_true_eq, List.mem_cons,
      List.not_mem_nil, or_false, not_or, not_and, ne_eq] at hin hout
    obtain ⟨hout, hne0⟩ := hout
    rcases hin with ⟨hx, hd⟩ | hin | hin | hin
    · by_cases a : e = s.Pn (nx e0)
      · exact Or.inl a
      · by_cases b : e = s.Pn (nx (nx e0))
        · exact Or.inr b
        · exact absurd b (hout hx hd a)
    · exact absurd hin hne0
    · exact Or.inl hin
    · exact Or.inr hin
  rcases hcase with hc | hc <;> subst hc
  · exact good_of_pair_frame hsz hS1 hS2 hq2.2.1 (hP1 ho1) (hP2 ho2) hl1.1 hl1.2 hv.2.2 hv.1 hv.2.1
  · refine good_of_pair_frame hsz hS2 hS1 hq1.2.1 (hP2 ho2) (hP1 ho1) hl2.1 hl2.2 ?_ hv.2.1.symm
      hv.1.symm
    omega

theorem collapseTri_preserves (s : HE) (X : List Nat) (e0 : Nat) (h : PairInvExcept s X)
    (h0 : e0 < s.start.size)
    (hq1 : 0 ≤ s.P (nx e0) ∧ s.Pn (nx e0) < s.start.size ∧
      s.P (s.Pn (nx e0)) = ((nx e0 : Nat) : Int))
    (hq2 : 0 ≤ s.P (nx (nx e0)) ∧ s.Pn (nx (nx e0)) < s.start.size ∧
      s.P (s.Pn (nx (nx e0))) = ((nx (nx e0) : Nat) : Int))
    (ho1 : s.Pn (nx e0) / 3 ≠ e0 / 3) (ho2 : s.Pn (nx (nx e0)) / 3 ≠ e0 / 3)
    (hl1 : s.S (nx (s.Pn (nx e0))) ≠ -1 ∧ s.S (nx (nx (s.Pn (nx e0)))) ≠ -1)
    (hl2 : s.S (nx (s.Pn (nx (nx e0)))) ≠ -1 ∧ s.S (nx (nx (s.Pn (nx (nx e0))))) ≠ -1)
    (hv : s.S (s.Pn (nx e0)) = s.S (nx (s.Pn (nx (nx e0)))) ∧
      s.S (nx (s.Pn (nx e0))) = s.S (s.Pn (nx (nx e0))) ∧
      s.S (s.Pn (nx e0)) ≠ s.S (nx (s.Pn (nx e0)))) :
    ∃ s', collapseTri s (triOf (e0 : Int)) = .ok s' ∧
      PairInvExcept s'
        ((X.filter fun e => e / 3 ≠ e0 / 3 ∧ e ≠ s.Pn (nx e0) ∧ e ≠ s.Pn (nx (nx e0))) ++
          [s.Pn e0]) := by
  obtain ⟨s', heq, _, _, _, _, _, _, _, _, hinv⟩ :=
    collapseTri_preserves_full s X e0 h h0 hq1 hq2 ho1 ho2 hl1 hl2 hv
  exact ⟨s', heq, hinv⟩

/-- in a live `Good` triangle the next halfedge is live too -/
theorem live_next {s : HE} {e : Nat} (hg : Good s e) (hl : s.P e ≠ -1) (hg1 : Good s (nx e)) :
    s.P (nx e) ≠ -1 := by
  obtain ⟨a, _⟩ := hg.live hl
  rcases (good_iff s (nx e)).1 hg1 with ⟨b, _, _⟩ | hb
  · exact absurd b a
  · omega

/-- facts about the outer partners `p1 = Pn (nx e0)`, `p2 = Pn (nx (nx e0))` of a triangle whose
edges `nx e0`, `nx (nx e0)` are `Good` and live: either both lie outside the triangle, or
`p1 = nx (nx e0)` and `p2 = nx e0` (the two outer edges are paired with each other) -/
theorem tri_partners (s : HE) (X : List Nat) (e0 : Nat) (h : PairInvExcept s X)
    (h0 : e0 < s.start.size) (hl : s.P (nx e0) ≠ -1) (hX1 : nx e0 ∉ X) (hX2 : nx (nx e0) ∉ X) :
    (0 ≤ s.P (nx e0) ∧ s.Pn (nx e0) < s.start.size ∧ s.P (s.Pn (nx e0)) = ((nx e0 : Nat) : Int)) ∧
    (0 ≤ s.P (nx (nx e0)) ∧ s.Pn (nx (nx e0)) < s.start.size ∧
      s.P (s.Pn (nx (nx e0))) = ((nx (nx e0) : Nat) : Int)) ∧
    ((s.Pn (nx e0) / 3 ≠ e0 / 3 ∧ s.Pn (nx (nx e0)) / 3 ≠ e0 / 3) ∨
     (s.Pn (nx e0) = nx (nx e0) ∧ s.Pn (nx (nx e0)) = nx e0)) := by
  have h1 := nx_lt h.1.2.2 h0
  have h2 := nx_lt h.1.2.2 h1
  have g1 := h.good h1 hX1
  have g2 := h.good h2 hX2
  have hl2 := live_next g1 hl g2
  have L1 := g1.live hl
  have L2 := g2.live hl2
  simp only [nx_nx_nx] at L1 L2
  obtain ⟨a1, a2, a3, a4, a5, a6, a7, a8⟩ := L1
  obtain ⟨b1, b2, b3, b4, b5, b6, b7, b8⟩ := L2
  refine ⟨⟨a3, a4, a5⟩, ⟨b3, b4, b5⟩, ?_⟩
  by_cases ho1 : s.Pn (nx e0) / 3 = e0 / 3
  · right
    rcases nx_cases ho1.symm with hc | hc | hc
    · rw [hc] at a8; omega
    · rw [hc] at a7; omega
    · refine ⟨hc, ?_⟩
      rw [hc] at a5; exact Pn_eq_of_P a5
  · by_cases ho2 : s.Pn (nx (nx e0)) / 3 = e0 / 3
    · exfalso
      rcases nx_cases ho2.symm with hc | hc | hc
      · rw [hc] at b7; omega
      · rw [hc] at b5
        have := Pn_eq_of_P b5
        rw [this] at ho1
        exact ho1 ((nx_div _).trans (nx_div e0))
      · rw [hc, nx_nx_nx] at b7; omega
    · exact Or.inl ⟨ho1, ho2⟩

/-- `collapseTri_frame` with the hypotheses stated as `Good`-ness of the two outer edges -/
theorem collapseTri_frame' (s : HE) (X : List Nat) (e0 : Nat) (h : PairInvExcept s X)
    (h0 : e0 < s.start.size) (hl : s.P (nx e0) ≠ -1) (hX1 : nx e0 ∉ X) (hX2 : nx (nx e0) ∉ X) :
    ∃ s', collapseTri s (triOf (e0 : Int)) = .ok s' ∧ s'.prop = s.prop ∧ s'.nVert = s.nVert ∧
      s'.nPropVert = s.nPropVert ∧ s'.start.size = s.start.size ∧
      (∀ j, j / 3 ≠ e0 / 3 → s'.S j = s.S j) ∧
      (∀ j, j / 3 = e0 / 3 → j < s.start.size → s'.S j = -1 ∧ s'.P j = -1) ∧
      (∀ j, j / 3 ≠ e0 / 3 → j ≠ s.Pn (nx e0) → j ≠ s.Pn (nx (nx e0)) → s'.P j = s.P j) ∧
      (s.Pn (nx e0) / 3 ≠ e0 / 3 → s'.P (s.Pn (nx e0)) = (s.Pn (nx (nx e0)) : Int) ∧
        s'.P (s.Pn (nx (nx e0))) = (s.Pn (nx e0) : Int)) ∧
      PairInvExcept s'
        ((X.filter fun e => e / 3 ≠ e0 / 3) ++ [s.Pn e0, s.Pn (nx e0), s.Pn (nx (nx e0))]) := by
  obtain ⟨hq1, hq2, hcase⟩ := tri_partners s X e0 h h0 hl hX1 hX2
  obtain ⟨s', heq, hprop, hnv, hnp, hsz, hS, hT, hP, ⟨hP1, hP2⟩, hinv⟩ :=
    collapseTri_frame s X e0 h h0 hq1 hq2
  refine ⟨s', heq, hprop, hnv, hnp, hsz, hS, hT, hP, ?_, hinv⟩
  intro ho1
  rcases hcase with ⟨_, ho2⟩ | ⟨hc, _⟩
  · exact ⟨hP1 ho1, hP2 ho2⟩
  · rw [hc] at ho1; exact absurd ((nx_div _).trans (nx_div e0)) ho1

/-- `CollapseTri`, headline: collapsing a triangle whose edge `e0` has equal end labels (and whose
other two edges and their partners are `Good`) keeps the invariant; only the old partner of `e0`
is left in the exception list.  Covers the case where the two outer edges are paired with each
other (then the whole "pillow" dies). -/
theorem collapseTri_preserves' (s : HE) (X : List Nat) (e0 : Nat) (h : PairInvExcept s X)
    (h0 : e0 < s.start.size) (hl : s.P (nx e0) ≠ -1) (hX1 : nx e0 ∉ X) (hX2 : nx (nx e0) ∉ X)
    (hdeg : s.S e0 = s.S (nx e0))
    (hXp1 : s.Pn (nx e0) ∉ X) (hXp2 : s.Pn (nx (nx e0)) ∉ X) :
    ∃ s', collapseTri s (triOf (e0 : Int)) = .ok s' ∧
      PairInvExcept s' ((X.filter fun e => e / 3 ≠ e0 / 3) ++ [s.Pn e0]) := by
  obtain ⟨hq1, hq2, hcase⟩ := tri_partners s X e0 h h0 hl hX1 hX2
  have hw := h.1
  have h1 := nx_lt hw.2.2 h0
  have h2 := nx_lt hw.2.2 h1
  rcases hcase with ⟨ho1, ho2⟩ | ⟨hc1, hc2⟩
  · -- both partners outside: they get correctly paired
    have g1 := h.good h1 hX1
    have g2 := h.good h2 hX2
    have L1 := g1.live hl
    have L2 := g2.live (live_next g1 hl g2)
    have gp1 := h.good hq1.2.1 hXp1
    have gp2 := h.good hq2.2.1 hXp2
    have Lp1 := gp1.live (by rw [hq1.2.2]; omega)
    have Lp2 := gp2.live (by rw [hq2.2.2]; omega)
    simp only [nx_nx_nx] at L1 L2
    obtain ⟨a1, a2, a3, a4, a5, a6, a7, a8⟩ := L1
    obtain ⟨b1, b2, b3, b4, b5, b6, b7, b8⟩ := L2
    obtain ⟨s', heq, hinv⟩ := collapseTri_preserves s X e0 h h0 hq1 hq2 ho1 ho2
      ⟨Lp1.1, Lp1.2.1⟩ ⟨Lp2.1, Lp2.2.1⟩ ⟨by omega, by omega, by omega⟩
    refine ⟨s', heq, hinv.mono ?_⟩
    intro e _ hin hout
    exfalso; apply hout
    simp only [List.mem_append, List.mem_filter, decide_eq_true_eq, List.mem_cons,
      List.not_mem_nil, or_false] at hin ⊢
    rcases hin with ⟨hx, hd, _⟩ | hin
    · exact Or.inl ⟨hx, hd⟩
    · exact Or.inr hin
  · -- the two outer edges are paired with each other: everything dies
    obtain ⟨s', heq, _, _, _, hsz, _, hT, _, _, hinv⟩ := collapseTri_frame s X e0 h h0 hq1 hq2
    refine ⟨s', heq, hinv.mono ?_⟩
    intro e he hin hout
    have hD : e / 3 = e0 / 3 := by
      simp only [List.mem_append, List.mem_filter, decide_eq_true_eq, List.mem_cons,
        List.not_mem_nil, or_false, not_or] at hin hout
      rcases hin with hin | hin | hin | hin
      · exact absurd hin hout.1
      · exact absurd hin hout.2
      · rw [hin, hc1]; exact (nx_div _).trans (nx_div e0)
      · rw [hin, hc2]; exact nx_div e0
    exact good_dead (fun j => j / 3 = e0 / 3) hw (tri_closed e0) hT (hsz ▸ he) hD

/-- an octahedron (vertices 0 top, 1 bottom, 2 3 4 5 equator), 24 halfedges -/
def octa : HE :=
  { start := #[0,2,3, 0,3,4, 0,4,5, 0,5,2, 1,3,2, 1,4,3, 1,5,4, 1,2,5],
    paired := #[11,13,3, 2,16,6, 5,19,9, 8,22,0, 17,1,21, 20,4,12, 23,7,15, 14,10,18],
    prop := #[0,2,3, 0,3,4, 0,4,5, 0,5,2, 1,3,2, 1,4,3, 1,5,4, 1,2,5], nVert := 6, nPropVert := 6 }

/-- the octahedron with vertex 2 relabelled to its neighbour 3: halfedges 1 and 13 (the edge 2-3)
are degenerate -/
def octaDeg : HE :=
  { octa with start := #[0,3,3, 0,3,4, 0,4,5, 0,5,3, 1,3,3, 1,4,3, 1,5,4, 1,3,5] }

/-- two copies of the degenerate triangle (0,0,1) glued to each other ("pillow"): in each, the two
outer edges are paired with each other -/
def pillow : HE :=
  { start := #[0,0,1, 0,0,1], paired := #[3,2,1, 0,5,4], prop := #[0,0,1, 0,0,1],
    nVert := 2, nPropVert := 2 }

example : PairInv octa := ⟨by decide, (checkPairInv_iff _ _).1 (by decide +kernel)⟩

/-- non-vacuity of `collapseTri_frame` (pairing-only hypotheses) and `collapseTri_frame'`:
collapse the triangle of halfedge 0 of the tetrahedron -/
example : ∃ s', collapseTri tetra (triOf ((0 : Nat) : Int)) = .ok s' ∧
    PairInvExcept s' (([].filter fun e => e / 3 ≠ 0 / 3) ++
      [tetra.Pn 0, tetra.Pn (nx 0), tetra.Pn (nx (nx 0))]) := by
  obtain ⟨s', h1, _, _, _, _, _, _, _, _, h2⟩ :=
    collapseTri_frame tetra [] 0 (by decide +kernel) (by decide +kernel) (by decide +kernel)
      (by decide +kernel)
  exact ⟨s', h1, h2⟩
example : ∃ s', collapseTri tetra (triOf ((0 : Nat) : Int)) = .ok s' ∧
    PairInvExcept s' (([].filter fun e => e / 3 ≠ 0 / 3) ++
      [tetra.Pn 0, tetra.Pn (nx 0), tetra.Pn (nx (nx 0))]) := by
  obtain ⟨s', h1, _, _, _, _, _, _, _, _, h2⟩ :=
    collapseTri_frame' tetra [] 0 (by decide +kernel) (by decide +kernel) (by decide +kernel)
      (by decide +kernel) (by decide +kernel)
  exact ⟨s', h1, h2⟩

/-- non-vacuity of `collapseTri_preserves` / `collapseTri_preserves'`: in `octaDeg` (exception list
= the two degenerate halfedges 1, 13) collapse the triangle of the degenerate halfedge 1; only
13 (the old partner of 1) stays in the list -/
example : ∃ s', collapseTri octaDeg (triOf ((1 : Nat) : Int)) = .ok s' ∧
    PairInvExcept s' (([1, 13].filter fun e => e / 3 ≠ 1 / 3 ∧ e ≠ octaDeg.Pn (nx 1) ∧
      e ≠ octaDeg.Pn (nx (nx 1))) ++ [octaDeg.Pn 1]) :=
  collapseTri_preserves octaDeg [1, 13] 1 (by decide +kernel) (by decide +kernel)
    (by decide +kernel) (by decide +kernel) (by decide +kernel) (by decide +kernel)
    (by decide +kernel) (by decide +kernel) (by decide +kernel)
example : ∃ s', collapseTri octaDeg (triOf ((1 : Nat) : Int)) = .ok s' ∧
    PairInvExcept s' (([1, 13].filter fun e => e / 3 ≠ 1 / 3) ++ [octaDeg.Pn 1]) :=
  collapseTri_preserves' octaDeg [1, 13] 1 (by decide +kernel) (by decide +kernel)
    (by decide +kernel) (by decide +kernel) (by decide +kernel) (by decide +kernel)
    (by decide +kernel) (by decide +kernel)
/-- … and the case where the outer edges are paired with each other -/
example : ∃ s', collapseTri pillow (triOf ((0 : Nat) : Int)) = .ok s' ∧
    PairInvExcept s' (([0, 3].filter fun e => e / 3 ≠ 0 / 3) ++ [pillow.Pn 0]) :=
  collapseTri_preserves' pillow [0, 3] 0 (by decide +kernel) (by decide +kernel)
    (by decide +kernel) (by decide +kernel) (by decide +kernel) (by decide +kernel)
    (by decide +kernel) (by decide +kernel)

/-! ## T3: `RemoveIfFolded` -/

/-- the six `Set(…, -1, -1, -1)` of `RemoveIfFolded`, in the order of the C++ loop -/
def kill2 (s : HE) (e f : Nat) : HE :=
  kill (kill (kill (kill (kill (kill s e (-1)) f (-1)) (nx e) (-1)) (nx f) (-1))
    (nx (nx e)) (-1)) (nx (nx f)) (-1)

section kill2
variable (s : HE) (e f j : Nat)
@[simp] theorem start_size_kill2 : (kill2 s e f).start.size = s.start.size := by simp [kill2]
@[simp] theorem paired_size_kill2 : (kill2 s e f).paired.size = s.paired.size := by simp [kill2]
@[simp] theorem prop_size_kill2 : (kill2 s e f).prop.size = s.prop.size := by simp [kill2]
@[simp] theorem nVert_kill2 : (kill2 s e f).nVert = s.nVert := by simp [kill2]
theorem WF_kill2 (h : WF s) : WF (kill2 s e f) :=
  WF_kill _ _ _ (WF_kill _ _ _ (WF_kill _ _ _ (WF_kill _ _ _ (WF_kill _ _ _ (WF_kill _ _ _ h)))))

theorem not_tri {e j : Nat} (hj : ¬ j / 3 = e / 3) : e ≠ j ∧ nx e ≠ j ∧ nx (nx e) ≠ j :=
  ⟨fun h => hj (h ▸ rfl), fun h => hj (h ▸ nx_div e), fun h => hj (h ▸ (nx_div _).trans (nx_div e))⟩

theorem S_kill2 (hw : WF s) (he : e < s.start.size) (hf : f < s.start.size) :
    (kill2 s e f).S j = if j / 3 = e / 3 ∨ j / 3 = f / 3 then -1 else s.S j := by
  have e1 := nx_lt hw.2.2 he
  have e2 := nx_lt hw.2.2 e1
  have f1 := nx_lt hw.2.2 hf
  have f2 := nx_lt hw.2.2 f1
  unfold kill2
  simp only [S_kill, start_size_kill]
  by_cases hj : j / 3 = e / 3 ∨ j / 3 = f / 3
  · rw [if_pos hj]
    rcases hj with hj | hj <;> rcases nx_cases hj.symm with h | h | h <;> subst h <;>
      simp [he, hf, e1, e2, f1, f2]
  · rw [if_neg hj]
    obtain ⟨a0, a1, a2⟩ := not_tri (fun h => hj (Or.inl h))
    obtain ⟨b0, b1, b2⟩ := not_tri (fun h => hj (Or.inr h))
    simp [a0, a1, a2, b0, b1, b2]

theorem P_kill2 (hw : WF s) (he : e < s.start.size) (hf : f < s.start.size) :
    (kill2 s e f).P j = if j / 3 = e / 3 ∨ j / 3 = f / 3 then -1 else s.P j := by
  have e1 := nx_lt hw.2.2 he
  have e2 := nx_lt hw.2.2 e1
  have f1 := nx_lt hw.2.2 hf
  have f2 := nx_lt hw.2.2 f1
  rw [hw.1] at he hf e1 e2 f1 f2
  unfold kill2
  simp only [P_kill, paired_size_kill]
  by_cases hj : j / 3 = e / 3 ∨ j / 3 = f / 3
  · rw [if_pos hj]
    rcases hj with hj | hj <;> rcases nx_cases hj.symm with h | h | h <;> subst h <;>
      simp [he, hf, e1, e2, f1, f2]
  · rw [if_neg hj]
    obtain ⟨a0, a1, a2⟩ := not_tri (fun h => hj (Or.inl h))
    obtain ⟨b0, b1, b2⟩ := not_tri (fun h => hj (Or.inr h))
    simp [a0, a1, a2, b0, b1, b2]

theorem kill2_ok (hw : WF s) (he : e < s.start.size) (hf : f < s.start.size) :
    (do let s ← s.set (e : Int) (-1) (-1) (-1)
        let s ← s.set (f : Int) (-1) (-1) (-1)
        let s ← s.set ((nx e : Nat) : Int) (-1) (-1) (-1)
        let s ← s.set ((nx f : Nat) : Int) (-1) (-1) (-1)
        let s ← s.set ((nx (nx e) : Nat) : Int) (-1) (-1) (-1)
        s.set ((nx (nx f) : Nat) : Int) (-1) (-1) (-1)) = Except.ok (kill2 s e f) := by
  have e1 := nx_lt hw.2.2 he
  have e2 := nx_lt hw.2.2 e1
  have f1 := nx_lt hw.2.2 hf
  have f2 := nx_lt hw.2.2 f1
  rw [kill_ok s e _ hw he]
  simp only [bind, Except.bind]
  rw [kill_ok _ f _ (WF_kill _ _ _ hw) (by simpa using hf)]
  simp only []
  rw [kill_ok _ (nx e) _ (WF_kill _ _ _ (WF_kill _ _ _ hw)) (by simpa using e1)]
  simp only []
  rw [kill_ok _ (nx f) _ (WF_kill _ _ _ (WF_kill _ _ _ (WF_kill _ _ _ hw))) (by simpa using f1)]
  simp only []
  rw [kill_ok _ (nx (nx e)) _ (WF_kill _ _ _ (WF_kill _ _ _ (WF_kill _ _ _ (WF_kill _ _ _ hw))))
    (by simpa using e2)]
  simp only []
  rw [kill_ok _ (nx (nx f)) _
    (WF_kill _ _ _ (WF_kill _ _ _ (WF_kill _ _ _ (WF_kill _ _ _ (WF_kill _ _ _ hw)))))
    (by simpa using f2)]
  rfl
end kill2

/-- the configuration on which `RemoveIfFolded` acts: `e` paired with `f`, the two triangles have
the same apex, `a b c d` the four outer partners; all labels as forced by the invariant -/
structure FoldCfg (s : HE) (e f a b c d : Nat) : Prop where
  lf : f < s.start.size
  la : a < s.start.size
  lb : b < s.start.size
  lc : c < s.start.size
  ld : d < s.start.size
  Pe : s.P e = (f : Int)
  Pf : s.P f = (e : Int)
  Pe1 : s.P (nx e) = (a : Int)
  Pa : s.P a = ((nx e : Nat) : Int)
  Pe2 : s.P (nx (nx e)) = (c : Int)
  Pc : s.P c = ((nx (nx e) : Nat) : Int)
  Pf1 : s.P (nx f) = (d : Int)
  Pd : s.P d = ((nx f : Nat) : Int)
  Pf2 : s.P (nx (nx f)) = (b : Int)
  Pb : s.P b = ((nx (nx f) : Nat) : Int)
  uv : s.S e ≠ s.S (nx e)
  vw : s.S (nx e) ≠ s.S (nx (nx e))
  wu : s.S (nx (nx e)) ≠ s.S e
  u1 : s.S e ≠ -1
  v1 : s.S (nx e) ≠ -1
  w1 : s.S (nx (nx e)) ≠ -1
  Sf : s.S f = s.S (nx e)
  Sf1 : s.S (nx f) = s.S e
  Sf2 : s.S (nx (nx f)) = s.S (nx (nx e))
  Sa : s.S a = s.S (nx (nx e))
  Sa1 : s.S (nx a) = s.S (nx e)
  Sa2 : s.S (nx (nx a)) ≠ -1
  Sb : s.S b = s.S (nx e)
  Sb1 : s.S (nx b) = s.S (nx (nx e))
  Sb2 : s.S (nx (nx b)) ≠ -1
  Sc : s.S c = s.S e
  Sc1 : s.S (nx c) = s.S (nx (nx e))
  Sc2 : s.S (nx (nx c)) ≠ -1
  Sd : s.S d = s.S (nx (nx e))
  Sd1 : s.S (nx d) = s.S e
  Sd2 : s.S (nx (nx d)) ≠ -1

theorem fold_table {s : HE} {e : Nat} (h : PairInv s) (he : e < s.start.size) (hl : s.P e ≠ -1)
    (hfold : s.S (nx (nx e)) = s.S (nx (nx (s.Pn e)))) :
    FoldCfg s e (s.Pn e) (s.Pn (nx e)) (s.Pn (nx (nx (s.Pn e)))) (s.Pn (nx (nx e)))
      (s.Pn (nx (s.Pn e))) := by
  have hi := (pairInv_iff s).1 h
  have hw := hi.1
  have G : ∀ x, x < s.start.size → Good s x := fun x hx => hi.good hx (by simp)
  have e1 := nx_lt hw.2.2 he
  have e2 := nx_lt hw.2.2 e1
  have L0 := (G e he).live hl
  have hl1 := live_next (G e he) hl (G _ e1)
  have L1 := (G _ e1).live hl1
  have hl2 := live_next (G _ e1) hl1 (G _ e2)
  have L2 := (G _ e2).live hl2
  have hf := L0.2.2.2.1
  have hlf : s.P (s.Pn e) ≠ -1 := by have := L0.2.2.2.2.1; omega
  have f1 := nx_lt hw.2.2 hf
  have f2 := nx_lt hw.2.2 f1
  have M0 := (G _ hf).live hlf
  have hm1 := live_next (G _ hf) hlf (G _ f1)
  have M1 := (G _ f1).live hm1
  have hm2 := live_next (G _ f1) hm1 (G _ f2)
  have M2 := (G _ f2).live hm2
  have A := (G _ L1.2.2.2.1).live (by have := L1.2.2.2.2.1; omega)
  have B := (G _ M2.2.2.2.1).live (by have := M2.2.2.2.2.1; omega)
  have C := (G _ L2.2.2.2.1).live (by have := L2.2.2.2.2.1; omega)
  have D := (G _ M1.2.2.2.1).live (by have := M1.2.2.2.2.1; omega)
  have q0 := P_eq_Pn L0.2.2.1
  have q1 := P_eq_Pn L1.2.2.1
  have q2 := P_eq_Pn L2.2.2.1
  have r1 := P_eq_Pn M1.2.2.1
  have r2 := P_eq_Pn M2.2.2.1
  simp only [nx_nx_nx] at L0 L1 L2 M0 M1 M2 A B C D
  obtain ⟨l01, l02, l03, l04, l05, l06, l07, l08⟩ := L0
  obtain ⟨l11, l12, l13, l14, l15, l16, l17, l18⟩ := L1
  obtain ⟨l21, l22, l23, l24, l25, l26, l27, l28⟩ := L2
  obtain ⟨m01, m02, m03, m04, m05, m06, m07, m08⟩ := M0
  obtain ⟨m11, m12, m13, m14, m15, m16, m17, m18⟩ := M1
  obtain ⟨m21, m22, m23, m24, m25, m26, m27, m28⟩ := M2
  obtain ⟨a1, a2, -, -, -, -, -, -⟩ := A
  obtain ⟨b1, b2, -, -, -, -, -, -⟩ := B
  obtain ⟨c1, c2, -, -, -, -, -, -⟩ := C
  obtain ⟨d1, d2, -, -, -, -, -, -⟩ := D
  clear G hi h
  constructor <;> omega

/-- `RemoveIfFolded` evaluated on a folded configuration -/
theorem removeIfFolded_fold_ok {s : HE} {e f a b c d : Nat} (hw : WF s) (he : e < s.start.size)
    (F : FoldCfg s e f a b c d) :
    removeIfFolded s (e : Int) = .ok (kill2 (pairS (pairS s a b) c d) e f) := by
  have e1 := nx_lt hw.2.2 he
  have e2 := nx_lt hw.2.2 e1
  have f1 := nx_lt hw.2.2 F.lf
  have f2 := nx_lt hw.2.2 f1
  have hz := hw.1
  have n1 : nx (nx e) ≠ a := by
    intro hc; have h1 := congrArg (fun t => s.S (nx t)) hc; simp only [nx_nx_nx] at h1
    have := F.Sa1; have := F.uv; omega
  have n2 : nx (nx e) ≠ b := by
    intro hc; have h1 := congrArg s.S hc; have := F.Sb; have := F.vw; omega
  have n3 : nx f ≠ a := by
    intro hc; have h1 := congrArg s.S hc; have := F.Sa; have := F.Sf1; have := F.wu; omega
  have n4 : nx f ≠ b := by
    intro hc; have h1 := congrArg s.S hc; have := F.Sb; have := F.Sf1; have := F.uv; omega
  have la := F.la
  have lb := F.lb
  have lc := F.lc
  have ld := F.ld
  unfold removeIfFolded
  simp only []
  rw [triOf_cast, getPair_ok s e (hz ▸ he)]
  simp only [bind, Except.bind]
  rw [F.Pe, triOf_cast]
  simp only []
  rw [getPair_ok s (nx e) (hz ▸ e1)]
  simp only []
  rw [if_neg (by rw [F.Pe1]; omega)]
  rw [getStart_ok s _ e2]
  simp only []
  rw [getStart_ok s _ f2]
  simp only []
  rw [if_pos F.Sf2.symm]
  rw [getPair_ok s (nx (nx f)) (hz ▸ f2)]
  simp only []
  rw [F.Pe1, F.Pf2, pairUp_ok' s a b (hz ▸ F.la) (hz ▸ F.lb)]
  simp only []
  rw [getPair_ok _ (nx (nx e)) (by rw [paired_size_pairS]; omega)]
  simp only []
  rw [getPair_ok _ (nx f) (by rw [paired_size_pairS]; omega)]
  simp only []
  rw [P_pairS s a b _ (hz ▸ F.la) (hz ▸ F.lb), if_neg n2, if_neg n1, F.Pe2]
  rw [P_pairS s a b _ (hz ▸ F.la) (hz ▸ F.lb), if_neg n4, if_neg n3, F.Pf1]
  rw [pairUp_ok' _ c d (by rw [paired_size_pairS]; omega) (by rw [paired_size_pairS]; omega)]
  simp only []
  exact kill2_ok _ e f (WF_pairS _ _ _ (WF_pairS _ _ _ hw)) he F.lf

theorem lab_eq {s : HE} {x y : Nat} (h : x = y) : s.S x = s.S y ∧ s.S (nx x) = s.S (nx y) := by
  subst h; exact ⟨rfl, rfl⟩

theorem six_cases {e f x : Nat} (hx : x / 3 = e / 3 ∨ x / 3 = f / 3) :
    x = e ∨ x = nx e ∨ x = nx (nx e) ∨ x = f ∨ x = nx f ∨ x = nx (nx f) := by
  rcases hx with hx | hx <;> rcases nx_cases hx.symm with h | h | h <;> simp [h]

namespace FoldCfg
variable {s : HE} {e f a b c d : Nat} (F : FoldCfg s e f a b c d)
include F

/-- the four outer partners are pairwise distinct (their labels differ) -/
theorem distinct : a ≠ b ∧ a ≠ c ∧ a ≠ d ∧ b ≠ c ∧ b ≠ d ∧ c ≠ d := by
  have uv := F.uv; have vw := F.vw; have wu := F.wu
  have Sa := F.Sa; have Sa1 := F.Sa1; have Sb := F.Sb; have Sb1 := F.Sb1
  have Sc := F.Sc; have Sc1 := F.Sc1; have Sd := F.Sd; have Sd1 := F.Sd1
  refine ⟨?_, ?_, ?_, ?_, ?_, ?_⟩ <;> intro hc <;> have := lab_eq (s := s) hc <;> omega

theorem a_in (hx : a / 3 = e / 3 ∨ a / 3 = f / 3) : a = nx (nx f) := by
  have uv := F.uv; have vw := F.vw; have wu := F.wu
  have Sf := F.Sf; have Sf1 := F.Sf1; have Sf2 := F.Sf2
  have Sa := F.Sa; have Sa1 := F.Sa1
  rcases six_cases hx with hc | hc | hc | hc | hc | hc
  · have := lab_eq (s := s) hc; omega
  · have := lab_eq (s := s) hc; omega
  · have := lab_eq (s := s) hc; simp only [nx_nx_nx] at this; omega
  · have := lab_eq (s := s) hc; omega
  · have := lab_eq (s := s) hc; omega
  · exact hc

theorem b_in (hx : b / 3 = e / 3 ∨ b / 3 = f / 3) : b = nx e := by
  have uv := F.uv; have vw := F.vw; have wu := F.wu
  have Sf := F.Sf; have Sf1 := F.Sf1; have Sf2 := F.Sf2
  have Sb := F.Sb; have Sb1 := F.Sb1
  rcases six_cases hx with hc | hc | hc | hc | hc | hc
  · have := lab_eq (s := s) hc; omega
  · exact hc
  · have := lab_eq (s := s) hc; omega
  · have := lab_eq (s := s) hc; omega
  · have := lab_eq (s := s) hc; omega
  · have := lab_eq (s := s) hc; omega

theorem c_in (hx : c / 3 = e / 3 ∨ c / 3 = f / 3) : c = nx f := by
  have uv := F.uv; have vw := F.vw; have wu := F.wu
  have Sf := F.Sf; have Sf1 := F.Sf1; have Sf2 := F.Sf2
  have Sc := F.Sc; have Sc1 := F.Sc1
  rcases six_cases hx with hc | hc | hc | hc | hc | hc
  · have := lab_eq (s := s) hc; omega
  · have := lab_eq (s := s) hc; omega
  · have := lab_eq (s := s) hc; omega
  · have := lab_eq (s := s) hc; omega
  · exact hc
  · have := lab_eq (s := s) hc; omega

theorem d_in (hx : d / 3 = e / 3 ∨ d / 3 = f / 3) : d = nx (nx e) := by
  have uv := F.uv; have vw := F.vw; have wu := F.wu
  have Sf := F.Sf; have Sf1 := F.Sf1; have Sf2 := F.Sf2
  have Sd := F.Sd; have Sd1 := F.Sd1
  rcases six_cases hx with hc | hc | hc | hc | hc | hc
  · have := lab_eq (s := s) hc; omega
  · have := lab_eq (s := s) hc; omega
  · exact hc
  · have := lab_eq (s := s) hc; omega
  · have := lab_eq (s := s) hc; omega
  · have := lab_eq (s := s) hc; simp only [nx_nx_nx] at this; omega

/-- `a` lies in the dying triangles iff `b` does (then `nx e` and `nx (nx f)` are paired with
each other) -/
theorem ab_in : (a / 3 = e / 3 ∨ a / 3 = f / 3) ↔ (b / 3 = e / 3 ∨ b / 3 = f / 3) := by
  constructor
  · intro hx
    have h := F.a_in hx
    have h1 := F.Pa; rw [h, F.Pf2] at h1
    have : b = nx e := by omega
    left; rw [this, nx_div]
  · intro hx
    have h := F.b_in hx
    have h1 := F.Pb; rw [h, F.Pe1] at h1
    have : a = nx (nx f) := by omega
    right; rw [this, nx_div, nx_div]

theorem cd_in : (c / 3 = e / 3 ∨ c / 3 = f / 3) ↔ (d / 3 = e / 3 ∨ d / 3 = f / 3) := by
  constructor
  · intro hx
    have h := F.c_in hx
    have h1 := F.Pc; rw [h, F.Pf1] at h1
    have : d = nx (nx e) := by omega
    left; rw [this, nx_div, nx_div]
  · intro hx
    have h := F.d_in hx
    have h1 := F.Pd; rw [h, F.Pe2] at h1
    have : c = nx f := by omega
    right; rw [this, nx_div]

end FoldCfg

/-- description of the state after the folded pair has been removed -/
theorem fold_state {s : HE} {e f a b c d : Nat} (hw : WF s) (he : e < s.start.size)
    (F : FoldCfg s e f a b c d) :
    (∀ j, ¬ (j / 3 = e / 3 ∨ j / 3 = f / 3) →
      (kill2 (pairS (pairS s a b) c d) e f).S j = s.S j) ∧
    (∀ j, (j / 3 = e / 3 ∨ j / 3 = f / 3) → j < s.start.size →
      (kill2 (pairS (pairS s a b) c d) e f).S j = -1 ∧
      (kill2 (pairS (pairS s a b) c d) e f).P j = -1) ∧
    (∀ j, ¬ (j / 3 = e / 3 ∨ j / 3 = f / 3) →
      (kill2 (pairS (pairS s a b) c d) e f).P j =
        if j = d then (c : Int) else if j = c then (d : Int) else
        if j = b then (a : Int) else if j = a then (b : Int) else s.P j) := by
  have hz := hw.1
  have hw2 : WF (pairS (pairS s a b) c d) := WF_pairS _ _ _ (WF_pairS _ _ _ hw)
  refine ⟨?_, ?_, ?_⟩
  · intro j hj; rw [S_kill2 _ _ _ _ hw2 he F.lf, if_neg hj]; rfl
  · intro j hj _
    rw [S_kill2 _ _ _ _ hw2 he F.lf, P_kill2 _ _ _ _ hw2 he F.lf, if_pos hj, if_pos hj]
    exact ⟨rfl, rfl⟩
  · intro j hj
    rw [P_kill2 _ _ _ _ hw2 he F.lf, if_neg hj,
      P_pairS _ c d j (by rw [paired_size_pairS]; exact hz ▸ F.lc)
        (by rw [paired_size_pairS]; exact hz ▸ F.ld),
      P_pairS s a b j (hz ▸ F.la) (hz ▸ F.lb)]

/-- a halfedge outside the two triangles and different from the four outer partners keeps its
partner -/
theorem fold_good_generic {s s' : HE} {e f a b c d : Nat} (F : FoldCfg s e f a b c d)
    (hsz : s'.start.size = s.start.size)
    (hS : ∀ j, ¬ (j / 3 = e / 3 ∨ j / 3 = f / 3) → s'.S j = s.S j)
    (hP : ∀ j, ¬ (j / 3 = e / 3 ∨ j / 3 = f / 3) → j ∉ [a, b, c, d] → s'.P j = s.P j)
    {j : Nat} (hg : Good s j) (hDj : ¬ (j / 3 = e / 3 ∨ j / 3 = f / 3)) (hY : j ∉ [a, b, c, d]) :
    Good s' j := by
  refine good_rewire (fun j => j / 3 = e / 3 ∨ j / 3 = f / 3) [a, b, c, d] hsz
    (fun j => by simp only [nx_div]) hS hP hg hDj hY (fun hl => ?_)
  obtain ⟨_, _, _, _, hinv, _⟩ := hg.live (by omega)
  simp only [List.mem_cons, List.not_mem_nil, or_false, not_or] at hY
  obtain ⟨ya, yb, yc, yd⟩ := hY
  have Pe := F.Pe; have Pf := F.Pf; have Pe1 := F.Pe1; have Pa := F.Pa; have Pe2 := F.Pe2
  have Pc := F.Pc; have Pf1 := F.Pf1; have Pd := F.Pd; have Pf2 := F.Pf2; have Pb := F.Pb
  have inE : ∀ x, x / 3 = e / 3 → ¬ j = x := fun x hx hc => hDj (Or.inl (hc ▸ hx))
  have inF : ∀ x, x / 3 = f / 3 → ¬ j = x := fun x hx hc => hDj (Or.inr (hc ▸ hx))
  have j0 := inE e rfl
  have j1 := inE (nx e) (nx_div e)
  have j2 := inE (nx (nx e)) ((nx_div _).trans (nx_div e))
  have k0 := inF f rfl
  have k1 := inF (nx f) (nx_div f)
  have k2 := inF (nx (nx f)) ((nx_div _).trans (nx_div f))
  constructor
  · intro hD
    rcases six_cases hD with hc | hc | hc | hc | hc | hc <;> rw [hc] at hinv <;> omega
  · simp only [List.mem_cons, List.not_mem_nil, or_false, not_or]
    refine ⟨?_, ?_, ?_, ?_⟩ <;> intro hc <;> rw [hc] at hinv <;> omega

/-- the folded configuration is removed correctly -/
theorem fold_preserves {s : HE} {e f a b c d : Nat} (h : PairInv s) (he : e < s.start.size)
    (F : FoldCfg s e f a b c d) : PairInv (kill2 (pairS (pairS s a b) c d) e f) := by
  have hi := (pairInv_iff s).1 h
  have hw := hi.1
  obtain ⟨hS, hT, hP⟩ := fold_state hw he F
  obtain ⟨nab, nac, nad, nbc, nbd, ncd⟩ := F.distinct
  have hsz : (kill2 (pairS (pairS s a b) c d) e f).start.size = s.start.size := by
    rw [start_size_kill2]; rfl
  rw [pairInv_iff]
  refine ⟨WF_kill2 _ _ _ (WF_pairS _ _ _ (WF_pairS _ _ _ hw)), fun j hj _ => ?_⟩
  rw [hsz] at hj
  by_cases hDj : j / 3 = e / 3 ∨ j / 3 = f / 3
  · exact good_dead (fun j => j / 3 = e / 3 ∨ j / 3 = f / 3) hw (fun j => by simp only [nx_div])
      hT hj hDj
  have hSj : ∀ x, ¬ (x / 3 = e / 3 ∨ x / 3 = f / 3) → ∀ y, y / 3 = x / 3 →
      (kill2 (pairS (pairS s a b) c d) e f).S y = s.S y :=
    fun x hx y hy => hS y (by rw [hy]; exact hx)
  have uv := F.uv; have vw := F.vw; have wu := F.wu
  have u1 := F.u1; have v1 := F.v1; have w1 := F.w1
  have Sa := F.Sa; have Sa1 := F.Sa1; have Sb := F.Sb; have Sb1 := F.Sb1
  have Sc := F.Sc; have Sc1 := F.Sc1; have Sd := F.Sd; have Sd1 := F.Sd1
  by_cases ja : j = a
  · rw [ja] at hDj ⊢
    have hDb := fun hb => hDj (F.ab_in.2 hb)
    refine good_of_pair_frame hsz (hSj a hDj) (hSj b hDb) F.lb ?_ ?_ (by omega) F.Sa2 (by omega)
      (by omega) (by omega)
    · rw [hP a hDj, if_neg nad, if_neg nac, if_neg nab, if_pos rfl]
    · rw [hP b hDb, if_neg nbd, if_neg nbc, if_pos rfl]
  by_cases jb : j = b
  · rw [jb] at hDj ⊢
    have hDa := fun ha => hDj (F.ab_in.1 ha)
    refine good_of_pair_frame hsz (hSj b hDj) (hSj a hDa) F.la ?_ ?_ (by omega) F.Sb2 (by omega)
      (by omega) (by omega)
    · rw [hP b hDj, if_neg nbd, if_neg nbc, if_pos rfl]
    · rw [hP a hDa, if_neg nad, if_neg nac, if_neg nab, if_pos rfl]
  by_cases jc : j = c
  · rw [jc] at hDj ⊢
    have hDd := fun hd => hDj (F.cd_in.2 hd)
    refine good_of_pair_frame hsz (hSj c hDj) (hSj d hDd) F.ld ?_ ?_ (by omega) F.Sc2 (by omega)
      (by omega) (by omega)
    · rw [hP c hDj, if_neg ncd, if_pos rfl]
    · rw [hP d hDd, if_pos rfl]
  by_cases jd : j = d
  · rw [jd] at hDj ⊢
    have hDc := fun hc => hDj (F.cd_in.1 hc)
    refine good_of_pair_frame hsz (hSj d hDj) (hSj c hDc) F.lc ?_ ?_ (by omega) F.Sd2 (by omega)
      (by omega) (by omega)
    · rw [hP d hDj, if_pos rfl]
    · rw [hP c hDc, if_neg ncd, if_pos rfl]
  refine fold_good_generic F hsz hS (fun x hx hY => ?_) (hi.good hj (by simp)) hDj (by simp [ja, jb, jc, jd])
  simp only [List.mem_cons, List.not_mem_nil, or_false, not_or] at hY
  rw [hP x hx, if_neg hY.2.2.2, if_neg hY.2.2.1, if_neg hY.2.1, if_neg hY.1]

/-- T3: `RemoveIfFolded` keeps the invariant (and does not touch `vertPos_` / the size of
`propVert_`) -/
theorem removeIfFolded_preserves (s : HE) (e : Nat) (h : PairInv s) (he : e < s.start.size) :
    ∃ s', removeIfFolded s (e : Int) = .ok s' ∧ PairInv s' ∧ s'.nVert = s.nVert ∧
      s'.prop.size = s.prop.size := by
  have hi := (pairInv_iff s).1 h
  have hw := hi.1
  have hz := hw.1
  have G : ∀ x, x < s.start.size → Good s x := fun x hx => hi.good hx (by simp)
  have e1 := nx_lt hw.2.2 he
  have e2 := nx_lt hw.2.2 e1
  by_cases hl : s.P e = -1
  · -- dead halfedge: `TriOf(-1) = (-1, 0, 1)`, and `Pair(tri0edge[1]) = -1` returns at once
    refine ⟨s, ?_, h, rfl, rfl⟩
    have hS0 : s.S e = -1 := by
      rcases (good_iff s e).1 (G e he) with ⟨a, _, _⟩ | ⟨_, _, c, _⟩
      · exact a
      · omega
    have hP1 : s.P (nx e) = -1 := by
      rcases (good_iff s (nx e)).1 (G _ e1) with ⟨_, _, c⟩ | ⟨_, b, _⟩
      · exact c
      · rw [nx_nx_nx] at b; exact absurd hS0 b
    unfold removeIfFolded
    simp only []
    rw [triOf_cast, getPair_ok s e (hz ▸ he)]
    simp only [bind, Except.bind]
    rw [getPair_ok s (nx e) (hz ▸ e1), hP1]
    rfl
  · have L0 := (G e he).live hl
    have hPe : s.P e = ((s.Pn e : Nat) : Int) := P_eq_Pn L0.2.2.1
    have hf := L0.2.2.2.1
    have f1 := nx_lt hw.2.2 hf
    have f2 := nx_lt hw.2.2 f1
    have hl1 := live_next (G e he) hl (G _ e1)
    by_cases hfold : s.S (nx (nx e)) = s.S (nx (nx (s.Pn e)))
    · have F := fold_table h he hl hfold
      refine ⟨_, removeIfFolded_fold_ok hw he F, fold_preserves h he F, ?_, ?_⟩
      · rw [nVert_kill2]; rfl
      · rw [prop_size_kill2]; rfl
    · refine ⟨s, ?_, h, rfl, rfl⟩
      unfold removeIfFolded
      simp only []
      rw [triOf_cast, getPair_ok s e (hz ▸ he)]
      simp only [bind, Except.bind]
      rw [hPe, triOf_cast]
      simp only []
      rw [getPair_ok s (nx e) (hz ▸ e1)]
      simp only []
      rw [if_neg hl1]
      rw [getStart_ok s _ e2]
      simp only []
      rw [getStart_ok s _ f2]
      simp only []
      rw [if_neg hfold]
      rfl

/-- a pillow `(1,2,0),(2,1,0)` (triangles 0, 1) with a folded pair `(0,1,2),(1,0,2)` (triangles
2, 3) inserted along two of its edges: halfedges 6 and 9 are the fold -/
def foldEx : HE :=
  { start := #[1,2,0, 2,1,0, 0,1,2, 1,0,2], paired := #[11,10,4, 7,2,8, 9,3,5, 6,1,0],
    prop := #[1,2,0, 2,1,0, 0,1,2, 1,0,2], nVert := 3, nPropVert := 3 }

/-- non-vacuity of `removeIfFolded_preserves` (general case: the four outer partners 3, 0, 5, 1 are
outside the fold and get paired 3-0, 5-1) -/
example : PairInv foldEx ∧ (6 : Nat) < foldEx.start.size ∧
    removeIfFolded foldEx ((6 : Nat) : Int) = .ok
      { start := #[1,2,0, 2,1,0, -1,-1,-1, -1,-1,-1], paired := #[3,5,4, 0,2,1, -1,-1,-1, -1,-1,-1],
        prop := #[1,2,0, 2,1,0, -1,-1,-1, -1,-1,-1], nVert := 3, nPropVert := 3 } :=
  ⟨⟨by decide, (checkPairInv_iff _ _).1 (by decide +kernel)⟩, by decide, rfl⟩
/-- a bare pillow of two non-degenerate triangles -/
def pillow2 : HE :=
  { start := #[0,1,2, 1,0,2], paired := #[3,5,4, 0,2,1], prop := #[0,1,2, 1,0,2],
    nVert := 3, nPropVert := 3 }
/-- one tombstoned triangle -/
def dead3 : HE :=
  { start := #[-1,-1,-1], paired := #[-1,-1,-1], prop := #[0,0,0], nVert := 0, nPropVert := 0 }

/-- … the special case where both pairs are internal (everything dies) -/
example : PairInv pillow2 ∧
    removeIfFolded pillow2 ((0 : Nat) : Int) = .ok
      { start := #[-1,-1,-1, -1,-1,-1], paired := #[-1,-1,-1, -1,-1,-1],
        prop := #[-1,-1,-1, -1,-1,-1], nVert := 3, nPropVert := 3 } :=
  ⟨⟨by decide, (checkPairInv_iff _ _).1 (by decide +kernel)⟩, rfl⟩
/-- … and the unchanged cases (apexes differ; dead halfedge) -/
example : removeIfFolded tetra ((2 : Nat) : Int) = .ok tetra := rfl
example : PairInv dead3 ∧ removeIfFolded dead3 ((0 : Nat) : Int) = .ok dead3 :=
  ⟨⟨by decide, (checkPairInv_iff _ _).1 (by decide +kernel)⟩, rfl⟩

end MV.EdgeOp
