import MV.Model.Sweep2
/-! OutEdgesToPolygons: in a balanced directed multigraph every walk closes (C11 (e)). -/
namespace MV.Sweep2

/-- unvisited out-degree and in-degree -/
def outU (es : Graph) (vis : List Nat) (v : Nat) : Nat :=
  (List.range es.length).countP fun e => es.v0 e == v && !vis.contains e
def inU (es : Graph) (vis : List Nat) (v : Nat) : Nat :=
  (List.range es.length).countP fun e => es.v1 e == v && !vis.contains e
def unvis (es : Graph) (vis : List Nat) : Nat :=
  (List.range es.length).countP fun e => true && !vis.contains e

theorem countP_remove_notmem (l : List Nat) (f : Nat → Bool) (vis : List Nat) (c : Nat) (hc : c ∉ l) :
    l.countP (fun e => f e && !vis.contains e) = l.countP (fun e => f e && !(c :: vis).contains e) := by
  apply List.countP_congr
  intro x hx
  have : x ≠ c := fun e => hc (e ▸ hx)
  simp [this]

theorem countP_remove (l : List Nat) (hn : l.Nodup) (f : Nat → Bool) (vis : List Nat) (c : Nat)
    (hc : c ∈ l) (hcv : c ∉ vis) :
    l.countP (fun e => f e && !vis.contains e)
      = l.countP (fun e => f e && !(c :: vis).contains e) + (if f c = true then 1 else 0) := by
  induction l with
  | nil => simp at hc
  | cons x l ih =>
    have hnd := List.nodup_cons.mp hn
    rw [List.countP_cons, List.countP_cons]
    by_cases hx : x = c
    · subst hx
      rw [← countP_remove_notmem l f vis x hnd.1]
      simp [hcv]
    · have hc' : c ∈ l := by
        simp only [List.mem_cons] at hc
        rcases hc with h | h
        · exact absurd h.symm hx
        · exact h
      rw [ih hnd.2 hc']
      have : (c :: vis).contains x = vis.contains x := by simp [hx]
      rw [this]; omega

theorem outU_consume (es : Graph) (vis : List Nat) (c : Nat) (hc : c < es.length) (hcv : c ∉ vis) (v : Nat) :
    outU es vis v = outU es (c :: vis) v + (if v = es.v0 c then 1 else 0) := by
  unfold outU
  rw [countP_remove _ List.nodup_range (fun e => es.v0 e == v) vis c (List.mem_range.mpr hc) hcv]
  by_cases h : v = es.v0 c
  · simp [h]
  · have : ¬ es.v0 c = v := fun e => h e.symm
    simp [h, this]

theorem inU_consume (es : Graph) (vis : List Nat) (c : Nat) (hc : c < es.length) (hcv : c ∉ vis) (v : Nat) :
    inU es vis v = inU es (c :: vis) v + (if v = es.v1 c then 1 else 0) := by
  unfold inU
  rw [countP_remove _ List.nodup_range (fun e => es.v1 e == v) vis c (List.mem_range.mpr hc) hcv]
  by_cases h : v = es.v1 c
  · simp [h]
  · have : ¬ es.v1 c = v := fun e => h e.symm
    simp [h, this]

theorem unvis_consume (es : Graph) (vis : List Nat) (c : Nat) (hc : c < es.length) (hcv : c ∉ vis) :
    unvis es vis = unvis es (c :: vis) + 1 := by
  unfold unvis
  rw [countP_remove _ List.nodup_range (fun _ => true) vis c (List.mem_range.mpr hc) hcv]
  simp

theorem unvis_le (es : Graph) (vis : List Nat) : unvis es vis ≤ es.length := by
  unfold unvis
  have := List.countP_le_length (p := fun e => true && !vis.contains e) (l := List.range es.length)
  simpa using this

/-- residual imbalance: the unvisited graph is balanced except for one surplus out-edge at `a`
    and one surplus in-edge at `s` (`a = s`: balanced) -/
def Inv (es : Graph) (vis : List Nat) (a s : Nat) : Prop :=
  ∀ v, outU es vis v + (if v = s then 1 else 0) = inU es vis v + (if v = a then 1 else 0)

theorem mem_cands {es : Graph} {vis : List Nat} {v e : Nat} :
    e ∈ cands es vis v ↔ e < es.length ∧ es.v0 e = v ∧ e ∉ vis := by
  simp [cands, List.mem_filter, List.mem_range]

theorem cands_length (es : Graph) (vis : List Nat) (v : Nat) : (cands es vis v).length = outU es vis v := by
  unfold cands outU; rw [List.countP_eq_length_filter]

theorem sanitize_mem (choose : Nat → List Nat → Nat) (cur : Nat) (cs : List Nat) (h : cs ≠ []) :
    sanitize choose cur cs ∈ cs := by
  unfold sanitize
  by_cases hc : cs.contains (choose cur cs) = true
  · simp only [hc, if_true]; simpa using hc
  · simp only [hc, if_false, Bool.false_eq_true]
    cases cs with
    | nil => exact absurd rfl h
    | cons x _ => simp

theorem walkFromTo_snoc (es : Graph) (a : Nat) (p : List Nat) (b e : Nat)
    (h : WalkFromTo es a p b) (he : es.v0 e = b) : WalkFromTo es a (p ++ [e]) (es.v1 e) := by
  induction p generalizing a with
  | nil =>
    simp only [WalkFromTo] at h
    simp only [List.nil_append, WalkFromTo]
    exact ⟨by omega, trivial⟩
  | cons x p ih =>
    simp only [WalkFromTo, List.cons_append] at h ⊢
    exact ⟨h.1, ih _ h.2⟩

/-- the specification of one inner `while` loop -/
structure WalkOk (es : Graph) (s cur : Nat) (vis acc : List Nat) (r : WalkResult) : Prop where
  closed : r.closed = true
  path : ∃ p, r.loop = acc.reverse ++ (cur :: p) ∧ r.visited = (cur :: p).reverse ++ vis
  walk : WalkFromTo es s r.loop s
  nodup : r.visited.Nodup
  bound : ∀ e ∈ r.visited, e < es.length
  balanced : ∀ v, outU es r.visited v = inU es r.visited v

theorem walk_spec (es : Graph) (choose : Nat → List Nat → Nat) (s : Nat) :
    ∀ (fuel cur : Nat) (vis acc : List Nat),
      cur < es.length → cur ∉ vis → vis.Nodup → (∀ e ∈ vis, e < es.length) →
      Inv es vis (es.v0 cur) s → WalkFromTo es s acc.reverse (es.v0 cur) →
      unvis es vis ≤ fuel →
      WalkOk es s cur vis acc (walk es choose s fuel cur vis acc) := by
  intro fuel
  induction fuel with
  | zero =>
    intro cur vis acc hcur hcv _ _ _ _ hf
    have := unvis_consume es vis cur hcur hcv
    omega
  | succ fuel ih =>
    intro cur vis acc hcur hcv hnd hb hinv hw hf
    have hnd' : (cur :: vis).Nodup := List.nodup_cons.mpr ⟨hcv, hnd⟩
    have hb' : ∀ e ∈ cur :: vis, e < es.length := by
      intro e he
      simp only [List.mem_cons] at he
      rcases he with rfl | he
      · exact hcur
      · exact hb e he
    have hinv' : Inv es (cur :: vis) (es.v1 cur) s := by
      intro v
      have h0 := hinv v
      have h1 := outU_consume es vis cur hcur hcv v
      have h2 := inU_consume es vis cur hcur hcv v
      omega
    have hw' : WalkFromTo es s (cur :: acc).reverse (es.v1 cur) := by
      rw [List.reverse_cons]; exact walkFromTo_snoc es s _ _ cur hw rfl
    have hf' : unvis es (cur :: vis) ≤ fuel := by
      have := unvis_consume es vis cur hcur hcv; omega
    unfold walk
    by_cases hd : es.v1 cur = s
    · simp only [hd, if_true]
      refine ⟨rfl, ⟨[], by simp, by simp⟩, ?_, hnd', hb', ?_⟩
      · rw [hd] at hw'; exact hw'
      · show ∀ v, outU es (cur :: vis) v = inU es (cur :: vis) v
        intro v
        have := hinv' v
        rw [hd] at this
        omega
    · simp only [hd, if_false]
      have hpos : 0 < (cands es (cur :: vis) (es.v1 cur)).length := by
        rw [cands_length]
        have := hinv' (es.v1 cur)
        simp only [hd, ↓reduceIte] at this
        omega
      have hne : cands es (cur :: vis) (es.v1 cur) ≠ [] := by
        intro e; rw [e] at hpos; simp at hpos
      have hie : (cands es (cur :: vis) (es.v1 cur)).isEmpty = false := by
        cases h : cands es (cur :: vis) (es.v1 cur) with
        | nil => exact absurd h hne
        | cons _ _ => rfl
      simp only [hie, if_false, Bool.false_eq_true]
      have hmem := sanitize_mem choose cur _ hne
      obtain ⟨hn1, hn2, hn3⟩ := mem_cands.mp hmem
      have hinv'' : Inv es (cur :: vis) (es.v0 (sanitize choose cur (cands es (cur :: vis) (es.v1 cur)))) s := by
        rw [hn2]; exact hinv'
      have hw'' : WalkFromTo es s (cur :: acc).reverse
          (es.v0 (sanitize choose cur (cands es (cur :: vis) (es.v1 cur)))) := by
        rw [hn2]; exact hw'
      have r := ih _ (cur :: vis) (cur :: acc) hn1 hn3 hnd' hb' hinv'' hw'' hf'
      obtain ⟨p, hp1, hp2⟩ := r.path
      refine ⟨r.closed, ⟨sanitize choose cur (cands es (cur :: vis) (es.v1 cur)) :: p, ?_, ?_⟩,
        r.walk, r.nodup, r.bound, r.balanced⟩
      · rw [hp1]; simp
      · rw [hp2]; simp

/-- invariant of the outer `for` loop -/
structure ExtractOk (es : Graph) (st : Extract) : Prop where
  allClosed : st.allClosed = true
  nodup : st.visited.Nodup
  bound : ∀ e ∈ st.visited, e < es.length
  balanced : ∀ v, outU es st.visited v = inU es st.visited v
  loops : ∀ l ∈ st.loops, l ≠ [] ∧ ∃ s, WalkFromTo es s l s
  perm : st.loops.flatten.Perm st.visited

theorem extractFrom_spec (es : Graph) (choose : Nat → List Nat → Nat) :
    ∀ (starts : List Nat) (st : Extract), (∀ e ∈ starts, e < es.length) → ExtractOk es st →
      ExtractOk es (extractFrom es choose starts st)
        ∧ (∀ e, e ∈ starts ∨ e ∈ st.visited → e ∈ (extractFrom es choose starts st).visited) := by
  intro starts
  induction starts with
  | nil =>
    intro st _ h
    simp only [extractFrom]
    exact ⟨h, fun e he => by simpa using he⟩
  | cons start more ih =>
    intro st hs hok
    have hmore : ∀ e ∈ more, e < es.length := fun e he => hs e (by simp [he])
    unfold extractFrom
    by_cases hv : st.visited.contains start = true
    · simp only [hv, if_true]
      obtain ⟨h1, h2⟩ := ih st hmore hok
      refine ⟨h1, ?_⟩
      intro e he
      rcases he with he | he
      · simp only [List.mem_cons] at he
        rcases he with rfl | he
        · exact h2 _ (Or.inr (by simpa using hv))
        · exact h2 _ (Or.inl he)
      · exact h2 _ (Or.inr he)
    · simp only [hv, if_false, Bool.false_eq_true]
      have hsv : start ∉ st.visited := by simpa using hv
      have hsl : start < es.length := hs start (by simp)
      have hinv : Inv es st.visited (es.v0 start) (es.v0 start) := by
        intro v; have := hok.balanced v; omega
      have hfuel : unvis es st.visited ≤ es.length + 1 := by
        have := unvis_le es st.visited; omega
      have r := walk_spec es choose (es.v0 start) (es.length + 1) start st.visited []
        hsl hsv hok.nodup hok.bound hinv (by simp [WalkFromTo]) hfuel
      obtain ⟨p, hp1, hp2⟩ := r.path
      simp only [List.reverse_nil, List.nil_append] at hp1
      have hok' : ExtractOk es
          ⟨if (walk es choose (es.v0 start) (es.length + 1) start st.visited []).closed = true
              then st.loops ++ [(walk es choose (es.v0 start) (es.length + 1) start st.visited []).loop]
              else st.loops,
            st.allClosed && (walk es choose (es.v0 start) (es.length + 1) start st.visited []).closed,
            (walk es choose (es.v0 start) (es.length + 1) start st.visited []).visited⟩ := by
        refine ⟨by simp [hok.allClosed, r.closed], r.nodup, r.bound, r.balanced, ?_, ?_⟩
        · intro l hl
          simp only [r.closed, if_true, List.mem_append, List.mem_singleton] at hl
          rcases hl with hl | rfl
          · exact hok.loops l hl
          · exact ⟨by rw [hp1]; simp, _, r.walk⟩
        · simp only [r.closed, if_true, List.flatten_append, List.flatten_cons, List.flatten_nil,
            List.append_nil]
          rw [hp1, hp2]
          exact (hok.perm.append (List.reverse_perm (start :: p)).symm).trans List.perm_append_comm
      obtain ⟨h1, h2⟩ := ih _ hmore hok'
      refine ⟨h1, ?_⟩
      intro e he
      have hstart : start ∈ (walk es choose (es.v0 start) (es.length + 1) start st.visited []).visited := by
        rw [hp2]; simp
      have hold : ∀ x ∈ st.visited, x ∈ (walk es choose (es.v0 start) (es.length + 1) start st.visited []).visited := by
        intro x hx; rw [hp2]; simp [hx]
      rcases he with he | he
      · simp only [List.mem_cons] at he
        rcases he with rfl | he
        · exact h2 _ (Or.inr hstart)
        · exact h2 _ (Or.inl he)
      · exact h2 _ (Or.inr (hold e he))

end MV.Sweep2
