import MV.Model.CrossOps
import MV.Proof.CrossOpsField
import MV.Proof.CrossOpsSimplifyA
import MV.Proof.CrossOpsSimplifyB
/-!
`SimplifyRing` (cross_section.cpp:130-188): the final theorems.

* `simplify_sublist`, `simplifyKept_sublist` (any `Scalar`; proved in CrossOpsSimplifyA): the output
  is an in-order subset of the input.
* `simplify_count`: `numAlive` is the number of live indices and never drops below 3.
* `simplify_exit`: at exit at most 3 vertices are left, or EVERY live vertex is at squared distance
  `≥ tol²` from the line through its CURRENT neighbours (the comment of the code, "the first
  non-stale pop is the true global minimum", is the invariant `SInv` of CrossOpsSimplifyA).
* `simplify_linked`: `prev/next` of the final state is the cyclic adjacency of the survivors.
* `simplify_exit_ring`: the same exit statement on the returned ring.
-/
namespace MV.CrossOps

section Field
variable {F : Type} [Field F] [LinearOrder F]

theorem simplify_post (ring : List (V2 F)) (tol : F) (h : 3 < ring.length) :
    Post (fun i => ring.getD i V2.zero) ring.length (tol * tol) (simplifyFinal ring tol) :=
  loop_post _ _ _ _ (inv_init _ _ h)

/-- the counter is the number of live indices, and at least 3 vertices survive -/
theorem simplify_count (ring : List (V2 F)) (tol : F) (h : 3 < ring.length) :
    (simplifyFinal ring tol).numAlive
        = ((List.range ring.length).filter (simplifyFinal ring tol).alive).length
      ∧ 3 ≤ (simplifyFinal ring tol).numAlive :=
  ⟨(simplify_post ring tol h).cnt, (simplify_post ring tol h).ge3⟩

/-- at exit either at most 3 vertices are left or EVERY live vertex deviates by at least `tol²`
(squared distance) from the line through its CURRENT neighbours -/
theorem simplify_exit (ring : List (V2 F)) (tol : F) (h : 3 < ring.length) :
    (simplifyFinal ring tol).numAlive ≤ 3 ∨
    ∀ i < ring.length, (simplifyFinal ring tol).alive i = true →
      tol * tol ≤ deviation2 (fun i => ring.getD i V2.zero) (simplifyFinal ring tol).prev
        (simplifyFinal ring tol).next i :=
  (simplify_post ring tol h).exit

theorem simplifyKept_eq_live (ring : List (V2 F)) (tol : F) (h : 3 < ring.length) :
    simplifyKept ring tol = live ring.length (simplifyFinal ring tol) := by
  unfold simplifyKept live
  rw [if_neg (by omega)]

theorem simplify_linkedL (ring : List (V2 F)) (tol : F) (h : 3 < ring.length) :
    LinkedL (simplifyKept ring tol) (simplifyFinal ring tol).prev (simplifyFinal ring tol).next := by
  rw [simplifyKept_eq_live ring tol h]
  apply loop_linked _ _ _ _ (inv_init _ _ h)
  have hl : live ring.length (simplifyInit (fun i => ring.getD i V2.zero) ring.length : SState F)
      = List.range ring.length := by
    simp [live, simplifyInit]
  rw [hl]
  exact linkedL_range ring.length

theorem simplifyKept_length (ring : List (V2 F)) (tol : F) (h : 3 < ring.length) :
    (simplifyKept ring tol).length = (simplifyFinal ring tol).numAlive := by
  rw [simplifyKept_eq_live ring tol h, (simplify_count ring tol h).1]; rfl

/-- the linked ring at exit is the cyclic adjacency of the survivors -/
theorem simplify_linked (ring : List (V2 F)) (tol : F) (h : 3 < ring.length) :
    ∀ t ∈ cyclicTriples (simplifyKept ring tol),
      (simplifyFinal ring tol).prev t.2.1 = t.1 ∧ (simplifyFinal ring tol).next t.2.1 = t.2.2 := by
  intro t ht
  have hlen : 3 ≤ (simplifyKept ring tol).length := by
    rw [simplifyKept_length ring tol h]; exact (simplify_count ring tol h).2
  obtain ⟨i, h1, h2, h3⟩ := mem_cyclicTriples _ (by omega) t ht
  have hL := simplify_linkedL ring tol h
  exact ⟨(hL i _ _ h1 h2).2, (hL _ _ _ h2 h3).1⟩

/-- squared distance of `b` from the line through `a` and `c` exactly as the code computes it -/
def dev2pts (a b c : V2 F) : F :=
  deviation2 (fun i => if i = 0 then a else if i = 1 then b else c) (fun _ => 0) (fun _ => 2) 1

theorem dev2pts_eq (a b c : V2 F) :
    dev2pts a b c =
      if 0 < dot (c.sub a) (c.sub a) then
        cross (b.sub a) (c.sub a) * cross (b.sub a) (c.sub a) / dot (c.sub a) (c.sub a)
      else 0 := by
  simp [dev2pts, deviation2]

theorem deviation2_eq_dev2pts (r : Nat → V2 F) (prev next : Nat → Nat) (i : Nat) :
    deviation2 r prev next i = dev2pts (r (prev i)) (r i) (r (next i)) := rfl

/-- at exit at most 3 vertices are returned, or every returned vertex is at squared distance
`≥ tol²` from the line through its two neighbours IN THE RETURNED RING -/
theorem simplify_exit_ring (ring : List (V2 F)) (tol : F) (h : 3 < ring.length) :
    (simplifyRing ring tol).length ≤ 3 ∨
      ∀ t ∈ cyclicTriples (simplifyRing ring tol), tol * tol ≤ dev2pts t.1 t.2.1 t.2.2 := by
  rcases simplify_exit ring tol h with hle | hdev
  · left
    unfold simplifyRing
    rw [List.length_map, simplifyKept_length ring tol h]; exact hle
  · right
    intro t ht
    unfold simplifyRing at ht
    rw [cyclicTriples_map, List.mem_map] at ht
    obtain ⟨s, hs, rfl⟩ := ht
    obtain ⟨hp, hn⟩ := simplify_linked ring tol h s hs
    have hmem : s.2.1 ∈ simplifyKept ring tol := by
      unfold cyclicTriples at hs
      have h1 := (List.of_mem_zip hs).2
      have h2 := (List.of_mem_zip h1).1
      rcases List.mem_append.1 h2 with h3 | h3
      · exact List.mem_of_mem_drop h3
      · exact List.mem_of_mem_take h3
    rw [simplifyKept_eq_live ring tol h] at hmem
    simp only [live, List.mem_filter, List.mem_range] at hmem
    have := hdev s.2.1 hmem.1 hmem.2
    rw [deviation2_eq_dev2pts, hp, hn] at this
    exact this

end Field

/-! ### non-vacuity: a concrete run at `ℚ`

`simplifyLoop` is defined by well-founded recursion, which the kernel does not unfold; the same loop
with a fuel argument (structural recursion) agrees with it whenever the fuel exceeds the termination
measure, and that one evaluates. -/

section Fuel
variable {α : Type} [Scalar α]

/-- `simplifyLoop` with fuel -/
def simplifyLoopFuel (ring : Nat → V2 α) (tol2 : α) : Nat → SState α → SState α
  | 0, st => st
  | f + 1, st =>
    if st.numAlive > 3 ∧ st.heap ≠ [] then
      let k := minIdx st.heap
      let top := st.heap.getD k ⟨Scalar.zero, 0, 0⟩
      let rest := st.heap.eraseIdx k
      if !st.alive top.idx || top.stamp != st.stamp top.idx then
        simplifyLoopFuel ring tol2 f { st with heap := rest }
      else if Scalar.le tol2 top.d2 then { st with heap := rest }
      else simplifyLoopFuel ring tol2 f (removeVertex ring st rest top.idx)
    else st

theorem simplifyLoopFuel_eq (ring : Nat → V2 α) (tol2 : α) :
    ∀ (f : Nat) (st : SState α), st.heap.length + 2 * st.numAlive < f →
      simplifyLoopFuel ring tol2 f st = simplifyLoop ring tol2 st := by
  intro f
  induction f with
  | zero => intro st h; omega
  | succ f ih =>
    intro st hlt
    rw [simplifyLoopFuel, simplifyLoop]
    by_cases h : st.numAlive > 3 ∧ st.heap ≠ []
    · rw [if_pos h, dif_pos h]
      have hk := minIdx_lt st.heap h.2
      have hlen : (st.heap.eraseIdx (minIdx st.heap)).length = st.heap.length - 1 := by
        rw [List.length_eraseIdx, if_pos hk]
      simp only []
      split
      · apply ih
        simp only [hlen]; omega
      · split
        · rfl
        · apply ih
          simp only [removeVertex, List.length_cons, hlen]; omega
    · rw [if_neg h, dif_neg h]

end Fuel

/-- the unit square with one extra collinear vertex on the bottom edge -/
def exRing : List (V2 ℚ) := [⟨0, 0⟩, ⟨1, 0⟩, ⟨2, 0⟩, ⟨2, 2⟩, ⟨0, 2⟩]

/-- exactly the collinear vertex is dropped (tolerance 1/2): the loop ends by the `break` -/
theorem exRing_kept : simplifyKept exRing (1 / 2) = [0, 2, 3, 4] := by
  unfold simplifyKept simplifyFinal
  rw [← simplifyLoopFuel_eq _ _ 100 _ (by decide)]
  decide +kernel

theorem exRing_simplified :
    simplifyRing exRing (1 / 2) = [⟨0, 0⟩, ⟨2, 0⟩, ⟨2, 2⟩, ⟨0, 2⟩] := by
  unfold simplifyRing
  rw [exRing_kept]
  rfl

/-- with a huge tolerance the loop ends by `numAlive = 3` -/
example : simplifyKept exRing 10 = [2, 3, 4] := by
  unfold simplifyKept simplifyFinal
  rw [← simplifyLoopFuel_eq _ _ 100 _ (by decide)]
  decide +kernel

/-- with tolerance 0 nothing is removed (`0 ≥ 0` breaks at the first pop) -/
example : simplifyKept exRing 0 = [0, 1, 2, 3, 4] := by
  unfold simplifyKept simplifyFinal
  rw [← simplifyLoopFuel_eq _ _ 100 _ (by decide)]
  decide +kernel

end MV.CrossOps
