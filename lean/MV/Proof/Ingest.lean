import MV.Model.Ingest
/-!
Lemmas for property C09: the checked-primitive calculus (`R.Safe`, loops with invariants) and the
facts the ladder of `Impl(MeshGLP)` establishes.
-/
namespace MV.Ingest

/-! ## the `R` monad -/

@[simp] theorem bind_ok {α β : Type} (a : α) (f : α → R β) : (R.ok a).bind f = f a := rfl
@[simp] theorem bind_err {α β : Type} (e : Err) (f : α → R β) : (R.err e : R α).bind f = .err e := rfl
@[simp] theorem bind_fault {α β : Type} (x : Fault) (f : α → R β) : (R.fault x : R α).bind f = .fault x := rfl
@[simp] theorem monad_bind {α β : Type} (x : R α) (f : α → R β) : (x >>= f) = x.bind f := rfl
@[simp] theorem monad_pure {α : Type} (a : α) : (pure a : R α) = .ok a := rfl

@[simp] theorem safe_ok {α : Type} (a : α) : (R.ok a).Safe := trivial
@[simp] theorem safe_err {α : Type} (e : Err) : (R.err e : R α).Safe := trivial
@[simp] theorem safe_fail {α : Type} (e : Err) : (fail e : R α).Safe := trivial
@[simp] theorem not_safe_fault {α : Type} (x : Fault) : ¬ (R.fault x : R α).Safe := fun h => h

theorem safe_bind {α β : Type} {x : R α} {f : α → R β} (hx : x.Safe)
    (hf : ∀ a, x = .ok a → (f a).Safe) : (x.bind f).Safe := by
  cases x with
  | ok a => exact hf a rfl
  | err e => trivial
  | fault y => exact absurd hx (not_safe_fault y)

theorem bind_eq_ok {α β : Type} {x : R α} {f : α → R β} {b : β} (h : x.bind f = .ok b) :
    ∃ a, x = .ok a ∧ f a = .ok b := by
  cases x with
  | ok a => exact ⟨a, rfl, h⟩
  | err e => cases h
  | fault y => cases h

theorem rd_safe {α : Type} (ln : Nat) (a : Array α) (i : Nat) (h : i < a.size) : rd ln a i = .ok a[i] := by
  simp [rd, h]

theorem rd_ok {α : Type} {ln : Nat} {a : Array α} {i : Nat} {v : α} (h : rd ln a i = .ok v) :
    ∃ hi : i < a.size, v = a[i] := by
  unfold rd at h
  split at h
  · rename_i hi; cases h; exact ⟨hi, rfl⟩
  · cases h

theorem wr_safe {α : Type} (ln : Nat) (a : Array α) (i : Nat) (v : α) (h : i < a.size) :
    wr ln a i v = .ok (a.set! i v) := by
  simp [wr, h]

theorem wr_ok {α : Type} {ln : Nat} {a b : Array α} {i : Nat} {v : α} (h : wr ln a i v = .ok b) :
    i < a.size ∧ b = a.set! i v := by
  unfold wr at h
  split at h
  · rename_i hi; cases h; exact ⟨hi, rfl⟩
  · cases h

theorem chk_safe (ln len i : Nat) (h : i < len) : chk ln len i = .ok () := by simp [chk, h]

/-- a loop is safe when an invariant makes every iteration safe and is preserved by it -/
theorem forRange_inv {σ : Type} (P : Nat → σ → Prop) (f : Nat → σ → R σ) :
    ∀ (n lo : Nat) (s : σ), P lo s →
      (∀ i s, lo ≤ i → i < lo + n → P i s → (f i s).Safe ∧ ∀ s', f i s = .ok s' → P (i + 1) s') →
      (forRange f lo n s).Safe ∧ ∀ s', forRange f lo n s = .ok s' → P (lo + n) s' := by
  intro n
  induction n with
  | zero =>
    intro lo s h0 _
    refine ⟨trivial, ?_⟩
    intro s' h
    simp [forRange] at h
    cases h
    simpa using h0
  | succ n ih =>
    intro lo s h0 hstep
    have h1 := hstep lo s (Nat.le_refl _) (by omega) h0
    have hrest : ∀ s1, f lo s = .ok s1 →
        (forRange f (lo + 1) n s1).Safe ∧ ∀ s', forRange f (lo + 1) n s1 = .ok s' → P (lo + 1 + n) s' := by
      intro s1 hs1
      exact ih (lo + 1) s1 (h1.2 s1 hs1) (fun i s hi hi2 hp => hstep i s (by omega) (by omega) hp)
    constructor
    · show ((f lo s).bind fun s' => forRange f (lo + 1) n s').Safe
      exact safe_bind h1.1 (fun a ha => (hrest a ha).1)
    · intro s' h
      have h' : ((f lo s).bind fun s' => forRange f (lo + 1) n s') = .ok s' := h
      obtain ⟨s1, hs1, h2⟩ := bind_eq_ok h'
      have := (hrest s1 hs1).2 s' h2
      have e : lo + 1 + n = lo + (n + 1) := by omega
      rw [e] at this
      exact this

/-- loops over `Unit` whose every iteration is `ok ()` -/
theorem forRange_unit_safe (f : Nat → Unit → R Unit) (n lo : Nat)
    (h : ∀ i, lo ≤ i → i < lo + n → f i () = .ok ()) : forRange f lo n () = .ok () := by
  induction n generalizing lo with
  | zero => rfl
  | succ n ih =>
    show ((f lo ()).bind fun s' => forRange f (lo + 1) n s') = .ok ()
    rw [h lo (Nat.le_refl _) (by omega)]
    exact ih (lo + 1) (fun i hi hi2 => h i (by omega) (by omega))

/-! ## arithmetic -/

theorem stride_lt {np len i j : Nat} (hi : i < len / np) (hj : j < np) : np * i + j < len := by
  have hnp : 0 < np := by omega
  have h1 : np * (i + 1) ≤ np * (len / np) := Nat.mul_le_mul_left np hi
  have h2 : np * (len / np) ≤ len := Nat.mul_div_le len np
  have h3 : np * (i + 1) = np * i + np := Nat.mul_succ np i
  omega

/-! ## the ladder -/

theorem firstMatch_none {l : List (Bool × Err)} (h : firstMatch l = none) :
    ∀ p ∈ l, p.1 = false := by
  induction l with
  | nil => intro p hp; cases hp
  | cons a t ih =>
    obtain ⟨c, e⟩ := a
    intro p hp
    unfold firstMatch at h
    cases c with
    | true => simp at h
    | false =>
      simp at h
      cases hp with
      | head => rfl
      | tail _ hp' => exact ih h p hp'

theorem ladder_ok {g : Guards} {s : MeshShape} {nv : Nat} (h : ladder g s nv = .ok ()) :
    ∀ p ∈ rungs g s nv, p.1 = false := by
  unfold ladder at h
  split at h
  · cases h
  · rename_i hn; exact firstMatch_none hn

theorem ladder_safe (g : Guards) (s : MeshShape) (nv : Nat) : (ladder g s nv).Safe := by
  unfold ladder; split <;> simp

/-- what the fixed ladder guarantees when it lets the input through -/
structure LadderFacts (s : MeshShape) (nv : Nat) : Prop where
  numProp : 3 ≤ s.numProp
  nv4 : 4 ≤ nv
  nt4 : 4 ≤ numTriOf s
  mergeLen : s.mergeFrom.size = s.mergeTo.size
  transform : s.nRunTransform = 0 ∨ 12 * s.nRunID = s.nRunTransform
  runTable : runTableOk s = true
  faceID : s.nFaceID = 0 ∨ s.nFaceID = numTriOf s
  tangent : s.nTangent = 0 ∨ s.nTangent = 12 * numTriOf s
  vertFinite : s.vertFinite = true
  transformFinite : s.transformFinite = true
  tangentFinite : s.tangentFinite = true

theorem ladder_facts {s : MeshShape} {nv : Nat} (h : ladder Guards.fixed s nv = .ok ()) :
    LadderFacts s nv := by
  have hl := ladder_ok h
  simp only [rungs, Guards.fixed, List.mem_cons, List.mem_nil_iff, or_false, forall_eq_or_imp, forall_eq,
    Bool.true_and] at hl
  obtain ⟨_, h2, h3, h4, h5, _, h7, h8, h9, h10, h11, h12⟩ := hl
  simp only [Bool.or_eq_false_iff, decide_eq_false_iff_not, Nat.not_lt] at h2
  have h3' : 3 ≤ s.numProp := by simpa using h3
  have h4' : s.mergeFrom.size = s.mergeTo.size := by simpa using h4
  have h5' : s.nRunTransform = 0 ∨ 12 * s.nRunID = s.nRunTransform := by
    by_cases hz : s.nRunTransform = 0
    · exact Or.inl hz
    · right; simp [hz] at h5; exact h5
  have h7' : runTableOk s = true := by simpa using h7
  have h8' : s.nFaceID = 0 ∨ s.nFaceID = numTriOf s := by
    by_cases hz : s.nFaceID = 0
    · exact Or.inl hz
    · right; simp [hz] at h8; exact h8
  have h9' : s.nTangent = 0 ∨ s.nTangent = 12 * numTriOf s := by
    by_cases hz : s.nTangent = 0
    · exact Or.inl hz
    · right; simp [hz] at h9; exact h9
  exact ⟨h3', h2.1, h2.2, h4', h5', h7', h8', h9', by simpa using h10, by simpa using h11, by simpa using h12⟩

/-! ## the run table -/

/-- facts unpacked from `runTableOk` -/
theorem runTable_facts {s : MeshShape} (h : runTableOk s = true) :
    nRun s + 1 ≤ (normRunIndex s).size ∧ (normRunIndex s)[0]! = 0 ∧
    (normRunIndex s)[nRun s]! = s.triVerts.size ∧
    ∀ i, i < nRun s → (normRunIndex s)[i]! ≤ (normRunIndex s)[i + 1]! := by
  unfold runTableOk at h
  simp only [Bool.and_eq_true, decide_eq_true_eq, beq_iff_eq, List.all_eq_true, List.mem_range] at h
  exact ⟨h.1.1.1, h.1.1.2, h.1.2, h.2⟩

theorem run_mono {ri : Array Nat} {n : Nat} (hm : ∀ i, i < n → ri[i]! ≤ ri[i + 1]!) :
    ∀ j, j ≤ n → ∀ i, i ≤ j → ri[i]! ≤ ri[j]! := by
  intro j
  induction j with
  | zero => intro _ i hi; have : i = 0 := by omega
            subst this; exact Nat.le_refl _
  | succ j ih =>
    intro hj i hi
    by_cases h : i = j + 1
    · subst h; exact Nat.le_refl _
    · exact Nat.le_trans (ih (by omega) i (by omega)) (hm j (by omega))

end MV.Ingest
