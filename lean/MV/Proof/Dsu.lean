/-
The inductive invariant of the lock-free union-find (model: MV/Model/Dsu.lean) and its
preservation by every step of every thread.
-/
import MV.Proof.DsuBase

namespace MV.Dsu

/-! ## invariant: memory part -/

/-- `E` is the ghost list of successful link CASes.
* `klt`   (I1) every non-trivial parent link strictly increases the key (rank ↑, then id ↓)
* `edge`  (I2a) every parent link stays inside a class of `Conn E`
* `uroot` (I2b) a class of `Conn E` contains at most one root -/
structure MemInv (n : Nat) (m : Mem) (E : List (Nat × Nat)) : Prop where
  len : m.length = n
  bound : ∀ i, i < n → par m i < n
  klt : ∀ i, i < n → par m i ≠ i → KLt m i (par m i)
  edge : ∀ i, i < n → Conn E i (par m i)
  uroot : ∀ a b, a < n → b < n → Conn E a b → par m a = a → par m b = b → a = b
  ebound : ∀ a b, (a, b) ∈ E → a < n ∧ b < n

/-- what every step guarantees about the memory, whoever performs it (the "monotone" facts
all thread-local knowledge is built from): ranks never decrease, a non-root stays a non-root
with the same rank, classes only grow. -/
structure Ext (m m' : Mem) (E E' : List (Nat × Nat)) : Prop where
  len : m'.length = m.length
  rkMono : ∀ i, rk m i ≤ rk m' i
  nonroot : ∀ i, par m i ≠ i → par m' i ≠ i ∧ rk m' i = rk m i
  links : ∀ a b, Conn E a b → Conn E' a b
  /-- a non-root's word changes only by path halving: same rank, and the new parent is an
  element of the same class with a strictly larger key (a FORMER ancestor; under
  concurrency it need not be a current ancestor any more) -/
  word : ∀ i, par m i ≠ i → rd m' i = rd m i ∨
    (rk m' i = rk m i ∧ Conn E (par m i) (par m' i) ∧ KLt m (par m i) (par m' i))

theorem Ext.refl (m : Mem) (E : List (Nat × Nat)) : Ext m m E E :=
  ⟨rfl, fun _ => Nat.le_refl _, fun _ h => ⟨h, rfl⟩, fun _ _ h => h, fun _ _ => .inl rfl⟩

theorem Ext.klt {m m' : Mem} {E E' : List (Nat × Nat)} (x : Ext m m' E E') {a b : Nat}
    (ha : par m a ≠ a) (h : KLt m a b) : KLt m' a b :=
  h.mono (x.nonroot a ha).2 (x.rkMono b)

/-! ## invariant: thread-local part -/

def Op.Ok (n : Nat) : Op → Prop
  | .unite a b => a < n ∧ b < n
  | .find a => a < n
  | .same a b => a < n ∧ b < n

/-- what a completed operation's return value guarantees -/
def ResOk (E : List (Nat × Nat)) : Op → Nat → Prop
  | .unite a b, r => Conn E a b ∧ Conn E a r
  | .find a, r => Conn E a r
  | .same a b, r => (r = 1 → Conn E a b) ∧ r ≤ 1

/-- inside `findImpl`, searching from an element of the class of `tgt` -/
def FindInv (n : Nat) (m : Mem) (E : List (Nat × Nat)) (t : Thr) (tgt : Nat) : Prop :=
  t.id < n ∧ Conn E t.id tgt ∧
  match t.pc with
  | .fLoadP => True
  | .fLoadV => par m t.id ≠ t.id
  | .fLoadNP => par m t.id ≠ t.id ∧ t.value.parent < n ∧ Conn E t.id t.value.parent
  | .fCas => par m t.id ≠ t.id ∧ t.value.parent < n ∧ Conn E t.id t.value.parent ∧
      t.np < n ∧ Conn E t.value.parent t.np ∧
      par m t.value.parent ≠ t.value.parent ∧ KLt m t.value.parent t.np
  | _ => False

/-- inside `unite`, outside `findImpl` -/
def UPart (m : Mem) (E : List (Nat × Nat)) (t : Thr) : Prop :=
  match t.pc with
  | .uRank1 => t.id1 ≠ t.id2
  | .uRank2 => t.id1 ≠ t.id2 ∧ t.r1 ≤ rk m t.id1
  | .uLink => t.id1 ≠ t.id2 ∧ t.r1 ≤ rk m t.id1 ∧ t.r2 ≤ rk m t.id2 ∧
      (t.r1 < t.r2 ∨ (t.r1 = t.r2 ∧ t.id2 < t.id1))
  | .uRankCas => Conn E t.id1 t.id2
  | _ => False

def OpInv (n : Nat) (m : Mem) (E : List (Nat × Nat)) (t : Thr) : Op → Prop
  | .find a => t.id1 < n ∧ Conn E t.id1 a ∧ t.k = .find ∧ FindInv n m E t t.id1
  | .unite a b => t.id1 < n ∧ t.id2 < n ∧
      ((Conn E t.id1 a ∧ Conn E t.id2 b) ∨ (Conn E t.id1 b ∧ Conn E t.id2 a)) ∧
      ((t.k = .unite1 ∧ FindInv n m E t t.id1) ∨ (t.k = .unite2 ∧ FindInv n m E t t.id2) ∨
        UPart m E t)
  | .same a b => t.id1 < n ∧ t.id2 < n ∧ Conn E t.id1 a ∧ Conn E t.id2 b ∧
      ((t.k = .same1 ∧ FindInv n m E t t.id1) ∨ (t.k = .same2 ∧ FindInv n m E t t.id2) ∨
        t.pc = .sLoadP)

structure TBase (n : Nat) (E : List (Nat × Nat)) (t : Thr) : Prop where
  progOk : ∀ op, op ∈ t.prog → op.Ok n
  resLen : t.results.length = t.opIdx
  idxLe : t.opIdx ≤ t.prog.length
  resOk : ∀ (j : Nat) op r, t.prog[j]? = some op → t.results[j]? = some r → ResOk E op r

structure TInv (n : Nat) (m : Mem) (E : List (Nat × Nat)) (t : Thr) : Prop where
  base : TBase n E t
  cur : ∀ op, t.curOp = some op → OpInv n m E t op

structure Inv (n : Nat) (s : State) : Prop where
  mem : MemInv n s.mem s.links
  thr : ∀ (tid : Nat) t, s.thr[tid]? = some t → TInv n s.mem s.links t

/-! ## monotonicity of the thread-local part -/

theorem ResOk.mono {E E' : List (Nat × Nat)} (h : ∀ a b, Conn E a b → Conn E' a b) {op : Op}
    {r : Nat} (x : ResOk E op r) : ResOk E' op r := by
  cases op with
  | unite a b => exact ⟨h _ _ x.1, h _ _ x.2⟩
  | find a => exact h _ _ x
  | same a b => exact ⟨fun e => h _ _ (x.1 e), x.2⟩

theorem TBase.mono {n : Nat} {E E' : List (Nat × Nat)} (h : ∀ a b, Conn E a b → Conn E' a b)
    {t : Thr} (x : TBase n E t) : TBase n E' t :=
  ⟨x.progOk, x.resLen, x.idxLe, fun j op r h1 h2 => (x.resOk j op r h1 h2).mono h⟩

theorem FindInv.mono {n : Nat} {m m' : Mem} {E E' : List (Nat × Nat)} (x : Ext m m' E E')
    {t : Thr} {tgt : Nat} (h : FindInv n m E t tgt) : FindInv n m' E' t tgt := by
  unfold FindInv at *
  obtain ⟨h1, h2, h3⟩ := h
  refine ⟨h1, x.links _ _ h2, ?_⟩
  generalize t.pc = p at h3 ⊢
  cases p <;> dsimp only at h3 ⊢
  · exact (x.nonroot _ h3).1
  · exact ⟨(x.nonroot _ h3.1).1, h3.2.1, x.links _ _ h3.2.2⟩
  · obtain ⟨a1, a2, a3, a4, a5, a6, a7⟩ := h3
    exact ⟨(x.nonroot _ a1).1, a2, x.links _ _ a3, a4, x.links _ _ a5, (x.nonroot _ a6).1,
      x.klt a6 a7⟩

theorem UPart.mono {m m' : Mem} {E E' : List (Nat × Nat)} (x : Ext m m' E E')
    {t : Thr} (h : UPart m E t) : UPart m' E' t := by
  unfold UPart at *
  generalize t.pc = p at h ⊢
  cases p <;> dsimp only at h ⊢
  · exact h
  · exact ⟨h.1, Nat.le_trans h.2 (x.rkMono _)⟩
  · obtain ⟨a1, a2, a3, a4⟩ := h
    exact ⟨a1, Nat.le_trans a2 (x.rkMono _), Nat.le_trans a3 (x.rkMono _), a4⟩
  · exact x.links _ _ h

theorem OpInv.mono {n : Nat} {m m' : Mem} {E E' : List (Nat × Nat)} (x : Ext m m' E E')
    {t : Thr} {op : Op} (h : OpInv n m E t op) : OpInv n m' E' t op := by
  cases op with
  | find a =>
    obtain ⟨h1, h2, h3, h4⟩ := h
    exact ⟨h1, x.links _ _ h2, h3, h4.mono x⟩
  | unite a b =>
    obtain ⟨h1, h2, h3, h4⟩ := h
    refine ⟨h1, h2, ?_, ?_⟩
    · rcases h3 with ⟨c1, c2⟩ | ⟨c1, c2⟩
      · exact .inl ⟨x.links _ _ c1, x.links _ _ c2⟩
      · exact .inr ⟨x.links _ _ c1, x.links _ _ c2⟩
    · rcases h4 with ⟨k, f⟩ | ⟨k, f⟩ | u
      · exact .inl ⟨k, f.mono x⟩
      · exact .inr (.inl ⟨k, f.mono x⟩)
      · exact .inr (.inr (u.mono x))
  | same a b =>
    obtain ⟨h1, h2, h3, h4, h5⟩ := h
    refine ⟨h1, h2, x.links _ _ h3, x.links _ _ h4, ?_⟩
    rcases h5 with ⟨k, f⟩ | ⟨k, f⟩ | u
    · exact .inl ⟨k, f.mono x⟩
    · exact .inr (.inl ⟨k, f.mono x⟩)
    · exact .inr (.inr u)

theorem TInv.mono {n : Nat} {m m' : Mem} {E E' : List (Nat × Nat)} (x : Ext m m' E E')
    {t : Thr} (h : TInv n m E t) : TInv n m' E' t :=
  ⟨h.base.mono x.links, fun op hc => (h.cur op hc).mono x⟩

/-! ## starting and finishing operations -/

theorem curOp_mem {t : Thr} {op : Op} (h : t.curOp = some op) : op ∈ t.prog :=
  List.mem_of_getElem? h

theorem curOp_lt {t : Thr} {op : Op} (h : t.curOp = some op) : t.opIdx < t.prog.length := by
  unfold Thr.curOp at h
  exact (List.getElem?_eq_some_iff.1 h).1

theorem startOp_inv {n : Nat} {m : Mem} {E : List (Nat × Nat)} {t : Thr} (hb : TBase n E t) :
    TInv n m E t.startOp := by
  unfold Thr.startOp
  cases hc : t.curOp with
  | none => exact ⟨hb, fun op h => by rw [hc] at h; cases h⟩
  | some op =>
    have hok := hb.progOk op (curOp_mem hc)
    cases op with
    | unite a b =>
      refine ⟨⟨hb.progOk, hb.resLen, hb.idxLe, hb.resOk⟩, fun op' h' => ?_⟩
      have : op' = .unite a b := by
        have h2 : t.curOp = some op' := h'
        rw [hc] at h2; cases h2; rfl
      subst this
      exact ⟨hok.1, hok.2, .inl ⟨.refl _, .refl _⟩, .inl ⟨rfl, hok.1, .refl _, trivial⟩⟩
    | find a =>
      refine ⟨⟨hb.progOk, hb.resLen, hb.idxLe, hb.resOk⟩, fun op' h' => ?_⟩
      have : op' = .find a := by
        have h2 : t.curOp = some op' := h'
        rw [hc] at h2; cases h2; rfl
      subst this
      exact ⟨hok, .refl _, rfl, hok, .refl _, trivial⟩
    | same a b =>
      refine ⟨⟨hb.progOk, hb.resLen, hb.idxLe, hb.resOk⟩, fun op' h' => ?_⟩
      have : op' = .same a b := by
        have h2 : t.curOp = some op' := h'
        rw [hc] at h2; cases h2; rfl
      subst this
      exact ⟨hok.1, hok.2, .refl _, .refl _, .inl ⟨rfl, hok.1, .refl _, trivial⟩⟩

theorem finishOp_inv {n : Nat} {m : Mem} {E : List (Nat × Nat)} {t : Thr} {op : Op} {ret : Nat}
    (hb : TBase n E t) (hc : t.curOp = some op) (hr : ResOk E op ret) :
    TInv n m E (t.finishOp ret) := by
  unfold Thr.finishOp
  apply startOp_inv
  have hlt := curOp_lt hc
  refine ⟨hb.progOk, ?_, hlt, ?_⟩
  · simp [hb.resLen]
  · intro j op' r h1 h2
    have hlen := hb.resLen
    by_cases hj : j < t.results.length
    · have h2' : t.results[j]? = some r := by
        simpa [List.getElem?_append_left hj] using h2
      exact hb.resOk j op' r h1 h2'
    · have hj' : j = t.opIdx := by
        have : j < (t.results ++ [ret]).length := (List.getElem?_eq_some_iff.1 h2).1
        simp at this; omega
      subst hj'
      have e1 : op' = op := by
        have h1' : t.curOp = some op' := h1
        rw [hc] at h1'; cases h1'; rfl
      have e2 : r = ret := by
        have : (t.results ++ [ret])[t.opIdx]? = some ret := by
          rw [← hlen]; simp
        have h2' : (t.results ++ [ret])[t.opIdx]? = some r := h2
        rw [this] at h2'; cases h2'; rfl
      subst e1 e2
      exact hr

/-! ## steps inside `findImpl` -/

def FindPc : PC → Prop
  | .fLoadP | .fLoadV | .fLoadNP | .fCas => True
  | _ => False

theorem UPart.not_findPc {m : Mem} {E : List (Nat × Nat)} {t : Thr} (hpc : FindPc t.pc)
    (h : UPart m E t) : False := by
  unfold UPart at h
  generalize t.pc = p at h hpc
  cases p <;> first | exact h | exact hpc

/-- a step that stays inside `findImpl` and touches only `findImpl`'s locals -/
theorem OpInv.findStep {n : Nat} {m m' : Mem} {E E' : List (Nat × Nat)} {t t' : Thr} {op : Op}
    (x : Ext m m' E E') (hpc : FindPc t.pc) (hk : t'.k = t.k) (h1 : t'.id1 = t.id1)
    (h2 : t'.id2 = t.id2)
    (H : ∀ tgt, FindInv n m E t tgt → FindInv n m' E' t' tgt)
    (h : OpInv n m E t op) : OpInv n m' E' t' op := by
  cases op with
  | find a =>
    obtain ⟨a1, a2, a3, a4⟩ := h
    exact ⟨h1 ▸ a1, h1 ▸ x.links _ _ a2, hk ▸ a3, h1 ▸ H _ a4⟩
  | unite a b =>
    obtain ⟨a1, a2, a3, a4⟩ := h
    refine ⟨h1 ▸ a1, h2 ▸ a2, ?_, ?_⟩
    · rw [h1, h2]
      rcases a3 with ⟨c1, c2⟩ | ⟨c1, c2⟩
      · exact .inl ⟨x.links _ _ c1, x.links _ _ c2⟩
      · exact .inr ⟨x.links _ _ c1, x.links _ _ c2⟩
    · rcases a4 with ⟨k, f⟩ | ⟨k, f⟩ | u
      · exact .inl ⟨hk ▸ k, h1 ▸ H _ f⟩
      · exact .inr (.inl ⟨hk ▸ k, h2 ▸ H _ f⟩)
      · exact (u.not_findPc hpc).elim
  | same a b =>
    obtain ⟨a1, a2, a3, a4, a5⟩ := h
    refine ⟨h1 ▸ a1, h2 ▸ a2, h1 ▸ x.links _ _ a3, h2 ▸ x.links _ _ a4, ?_⟩
    rcases a5 with ⟨k, f⟩ | ⟨k, f⟩ | u
    · exact .inl ⟨hk ▸ k, h1 ▸ H _ f⟩
    · exact .inr (.inl ⟨hk ▸ k, h2 ▸ H _ f⟩)
    · rw [u] at hpc; exact hpc.elim

/-- `findImpl` returns its current `id` -/
theorem findRet_inv {n : Nat} {m : Mem} {E : List (Nat × Nat)} {t : Thr} {op : Op}
    (hb : TBase n E t) (hc : t.curOp = some op) (hpc : t.pc = .fLoadP)
    (h : OpInv n m E t op) : TInv n m E (t.findRet t.id) := by
  have fi : ∀ tgt, FindInv n m E t tgt → t.id < n ∧ Conn E t.id tgt := fun _ f => ⟨f.1, f.2.1⟩
  cases op with
  | find a =>
    obtain ⟨a1, a2, a3, a4⟩ := h
    unfold Thr.findRet; rw [a3]
    exact finishOp_inv hb hc ((a2.symm.trans (fi _ a4).2.symm : Conn E a t.id))
  | unite a b =>
    obtain ⟨a1, a2, a3, a4⟩ := h
    rcases a4 with ⟨k, f⟩ | ⟨k, f⟩ | u
    · obtain ⟨f1, f2⟩ := fi _ f
      unfold Thr.findRet; rw [k]
      refine ⟨⟨hb.progOk, hb.resLen, hb.idxLe, hb.resOk⟩, fun op' h' => ?_⟩
      have : op' = .unite a b := by
        have h2 : t.curOp = some op' := h'
        rw [hc] at h2; cases h2; rfl
      subst this
      refine ⟨f1, a2, ?_, .inr (.inl ⟨rfl, a2, .refl _, trivial⟩)⟩
      rcases a3 with ⟨c1, c2⟩ | ⟨c1, c2⟩
      · exact .inl ⟨f2.trans c1, c2⟩
      · exact .inr ⟨f2.trans c1, c2⟩
    · obtain ⟨f1, f2⟩ := fi _ f
      unfold Thr.findRet; rw [k]
      dsimp only
      split
      · rename_i heq
        refine finishOp_inv (t := { t with id2 := t.id, k := .unite2 }) ⟨hb.progOk, hb.resLen, hb.idxLe, hb.resOk⟩
          hc ?_
        have c12 : Conn E t.id1 t.id2 := heq ▸ f2
        rcases a3 with ⟨c1, c2⟩ | ⟨c1, c2⟩
        · exact ⟨c1.symm.trans (c12.trans c2), c1.symm⟩
        · exact ⟨c2.symm.trans (c12.symm.trans c1), c2.symm.trans c12.symm⟩
      · rename_i hne
        refine ⟨⟨hb.progOk, hb.resLen, hb.idxLe, hb.resOk⟩, fun op' h' => ?_⟩
        have : op' = .unite a b := by
          have h2 : t.curOp = some op' := h'
          rw [hc] at h2; cases h2; rfl
        subst this
        refine ⟨a1, f1, ?_, .inr (.inr hne)⟩
        rcases a3 with ⟨c1, c2⟩ | ⟨c1, c2⟩
        · exact .inl ⟨c1, f2.trans c2⟩
        · exact .inr ⟨c1, f2.trans c2⟩
    · unfold UPart at u; rw [hpc] at u; exact u.elim
  | same a b =>
    obtain ⟨a1, a2, a3, a4, a5⟩ := h
    rcases a5 with ⟨k, f⟩ | ⟨k, f⟩ | u
    · obtain ⟨f1, f2⟩ := fi _ f
      unfold Thr.findRet; rw [k]
      refine ⟨⟨hb.progOk, hb.resLen, hb.idxLe, hb.resOk⟩, fun op' h' => ?_⟩
      have : op' = .same a b := by
        have h2 : t.curOp = some op' := h'
        rw [hc] at h2; cases h2; rfl
      subst this
      exact ⟨f1, a2, f2.trans a3, a4, .inr (.inl ⟨rfl, a2, .refl _, trivial⟩)⟩
    · obtain ⟨f1, f2⟩ := fi _ f
      unfold Thr.findRet; rw [k]
      dsimp only
      split
      · rename_i heq
        refine finishOp_inv (t := { t with id2 := t.id, k := .same2 }) ⟨hb.progOk, hb.resLen, hb.idxLe, hb.resOk⟩
          hc ?_
        have c12 : Conn E t.id1 t.id2 := heq ▸ f2
        exact ⟨fun _ => a3.symm.trans (c12.trans a4), Nat.le_refl _⟩
      · refine ⟨⟨hb.progOk, hb.resLen, hb.idxLe, hb.resOk⟩, fun op' h' => ?_⟩
        have : op' = .same a b := by
          have h2 : t.curOp = some op' := h'
          rw [hc] at h2; cases h2; rfl
        subst this
        exact ⟨a1, f1, a3, f2.trans a4, .inr (.inr rfl)⟩
    · rw [hpc] at u; cases u

/-! ## the three kinds of successful CAS -/

theorem par_wr (m : Mem) (i j : Nat) (w : Word) (h : i < m.length) :
    par (wr m i w) j = if i = j then w.parent else par m j := by
  unfold par; rw [rd_wr]; by_cases e : i = j
  · subst e; simp [h]
  · simp [e]

theorem rk_wr (m : Mem) (i j : Nat) (w : Word) (h : i < m.length) :
    rk (wr m i w) j = if i = j then w.rank else rk m j := by
  unfold rk; rw [rd_wr]; by_cases e : i = j
  · subst e; simp [h]
  · simp [e]

/-- path halving: `mData[id]: (rk, p) → (rk, g)` -/
theorem halve_mem {n : Nat} {m : Mem} {E : List (Nat × Nat)} {id g : Nat} {v : Word}
    (hm : MemInv n m E) (hid : id < n) (hrd : rd m id = v) (hnr : par m id ≠ id) (hg : g < n)
    (hc : Conn E v.parent g) (hk : KLt m v.parent g) :
    MemInv n (wr m id ⟨v.rank, g⟩) E ∧ Ext m (wr m id ⟨v.rank, g⟩) E E := by
  have hlen : id < m.length := hm.len ▸ hid
  have hp : par m id = v.parent := by unfold par; rw [hrd]
  have hr : rk m id = v.rank := by unfold rk; rw [hrd]
  have hrk : ∀ j, rk (wr m id ⟨v.rank, g⟩) j = rk m j := by
    intro j; rw [rk_wr _ _ _ _ hlen]; by_cases e : id = j
    · subst e; simp [hr]
    · simp [e]
  have hkl : ∀ a b, KLt (wr m id ⟨v.rank, g⟩) a b ↔ KLt m a b := by
    intro a b; unfold KLt; rw [hrk, hrk]
  have hidg : KLt m id g := (hp ▸ hm.klt id hid hnr : KLt m id v.parent).trans hk
  have hne : g ≠ id := fun e => hidg.ne e.symm
  have hpar : ∀ j, par (wr m id ⟨v.rank, g⟩) j = if id = j then g else par m j := by
    intro j; rw [par_wr _ _ _ _ hlen]
  have hroot : ∀ j, par (wr m id ⟨v.rank, g⟩) j = j ↔ par m j = j := by
    intro j; rw [hpar]; by_cases e : id = j
    · subst e; simp [hne, hnr]
    · simp [e]
  refine ⟨⟨by simp [hm.len], ?_, ?_, ?_, ?_, hm.ebound⟩, ⟨by simp, ?_, ?_, fun _ _ h => h, ?_⟩⟩
  · intro j hj; rw [hpar]; by_cases e : id = j
    · simp [e, hg]
    · simp [e, hm.bound j hj]
  · intro j hj; rw [hpar, hkl]; by_cases e : id = j
    · subst e; simp [hidg]
    · simp only [e, if_false]; exact hm.klt j hj
  · intro j hj; rw [hpar]; by_cases e : id = j
    · subst e; simp only [if_true]
      exact ((hp ▸ hm.edge id hid : Conn E id v.parent)).trans hc
    · simp only [e, if_false]; exact hm.edge j hj
  · intro a b ha hb hab ra rb
    exact hm.uroot a b ha hb hab ((hroot a).1 ra) ((hroot b).1 rb)
  · intro j; rw [hrk]; exact Nat.le_refl _
  · intro j hj; exact ⟨fun e => hj ((hroot j).1 e), hrk j⟩
  · intro j _; by_cases e : id = j
    · subst e; right; refine ⟨hrk _, ?_, ?_⟩
      · rw [hpar, hp]; simpa using hc
      · rw [hpar, hp]; simpa using hk
    · left; exact rd_wr_ne _ _ _ _ e

/-- link: `mData[i]: (r, i) → (r, j)` -/
theorem link_mem {n : Nat} {m : Mem} {E : List (Nat × Nat)} {i j r r2 : Nat}
    (hm : MemInv n m E) (hi : i < n) (hj : j < n) (hrd : rd m i = ⟨r, i⟩) (hne : i ≠ j)
    (h2 : r2 ≤ rk m j) (hlt : r < r2 ∨ (r = r2 ∧ j < i)) :
    MemInv n (wr m i ⟨r, j⟩) ((i, j) :: E) ∧ Ext m (wr m i ⟨r, j⟩) E ((i, j) :: E) := by
  have hlen : i < m.length := hm.len ▸ hi
  have hp : par m i = i := by unfold par; rw [hrd]
  have hr : rk m i = r := by unfold rk; rw [hrd]
  have hrk : ∀ x, rk (wr m i ⟨r, j⟩) x = rk m x := by
    intro x; rw [rk_wr _ _ _ _ hlen]; by_cases e : i = x
    · subst e; simp [hr]
    · simp [e]
  have hkl : ∀ a b, KLt (wr m i ⟨r, j⟩) a b ↔ KLt m a b := by
    intro a b; unfold KLt; rw [hrk, hrk]
  have hpar : ∀ x, par (wr m i ⟨r, j⟩) x = if i = x then j else par m x := by
    intro x; rw [par_wr _ _ _ _ hlen]
  refine ⟨⟨by simp [hm.len], ?_, ?_, ?_, ?_, ?_⟩, ⟨by simp, ?_, ?_, fun _ _ h => h.cons, ?_⟩⟩
  · intro x hx; rw [hpar]; by_cases e : i = x
    · simp [e, hj]
    · simp [e, hm.bound x hx]
  · intro x hx; rw [hpar, hkl]; by_cases e : i = x
    · subst e; simp only [if_true]; intro _; unfold KLt; rw [hr]; omega
    · simp only [e, if_false]; exact hm.klt x hx
  · intro x hx; rw [hpar]; by_cases e : i = x
    · subst e; simp only [if_true]; exact .base (List.mem_cons_self ..)
    · simp only [e, if_false]; exact (hm.edge x hx).cons
  · intro a b ha hb hab ra rb
    rw [hpar] at ra rb
    have hai : i ≠ a := by intro e; subst e; simp at ra; exact hne ra.symm
    have hbi : i ≠ b := by intro e; subst e; simp at rb; exact hne rb.symm
    simp only [hai, hbi, if_false] at ra rb
    rcases hab.cons_cases with h | ⟨h1, _⟩ | ⟨_, h2'⟩
    · exact hm.uroot a b ha hb h ra rb
    · exact (hai (hm.uroot a i ha hi h1 ra hp).symm).elim
    · exact (hbi (hm.uroot i b hi hb h2' hp rb)).elim
  · intro a b hab
    rcases List.mem_cons.1 hab with h | h
    · cases h; exact ⟨hi, hj⟩
    · exact hm.ebound a b h
  · intro x; rw [hrk]; exact Nat.le_refl _
  · intro x hx; refine ⟨?_, hrk x⟩
    rw [hpar]; by_cases e : i = x
    · subst e; exact (hx hp).elim
    · simp only [e, if_false]; exact hx
  · intro x hx; left; apply rd_wr_ne; intro e; subst e; exact hx hp

/-- rank bump: `mData[j]: (r, j) → (r+1, j)` -/
theorem bump_mem {n : Nat} {m : Mem} {E : List (Nat × Nat)} {j r : Nat}
    (hm : MemInv n m E) (hj : j < n) (hrd : rd m j = ⟨r, j⟩) :
    MemInv n (wr m j ⟨r + 1, j⟩) E ∧ Ext m (wr m j ⟨r + 1, j⟩) E E := by
  have hlen : j < m.length := hm.len ▸ hj
  have hp : par m j = j := by unfold par; rw [hrd]
  have hr : rk m j = r := by unfold rk; rw [hrd]
  have hpar : ∀ x, par (wr m j ⟨r + 1, j⟩) x = par m x := by
    intro x; rw [par_wr _ _ _ _ hlen]; by_cases e : j = x
    · subst e; simp [hp]
    · simp [e]
  have hrk : ∀ x, rk (wr m j ⟨r + 1, j⟩) x = if j = x then r + 1 else rk m x := by
    intro x; rw [rk_wr _ _ _ _ hlen]
  have hmono : ∀ x, rk m x ≤ rk (wr m j ⟨r + 1, j⟩) x := by
    intro x; rw [hrk]; by_cases e : j = x
    · subst e; simp [hr]
    · simp [e]
  have hsame : ∀ x, par m x ≠ x → rk (wr m j ⟨r + 1, j⟩) x = rk m x := by
    intro x hx; rw [hrk]; by_cases e : j = x
    · subst e; exact (hx hp).elim
    · simp [e]
  refine ⟨⟨by simp [hm.len], ?_, ?_, ?_, ?_, hm.ebound⟩, ⟨by simp, hmono, ?_, fun _ _ h => h, ?_⟩⟩
  · intro x hx; rw [hpar]; exact hm.bound x hx
  · intro x hx; rw [hpar]; intro hnr
    exact (hm.klt x hx hnr).mono (hsame x hnr) (hmono _)
  · intro x hx; rw [hpar]; exact hm.edge x hx
  · intro a b ha hb hab ra rb
    rw [hpar] at ra rb
    exact hm.uroot a b ha hb hab ra rb
  · intro x hx; exact ⟨by rw [hpar]; exact hx, hsame x hx⟩
  · intro x hx; left; apply rd_wr_ne; intro e; subst e; exact hx hp

/-! ## case analysis helpers -/

theorem FindInv.findPc {n : Nat} {m : Mem} {E : List (Nat × Nat)} {t : Thr} {tgt : Nat}
    (h : FindInv n m E t tgt) : FindPc t.pc := by
  unfold FindInv at h
  obtain ⟨_, _, h⟩ := h
  generalize t.pc = p at h ⊢
  cases p <;> first | trivial | exact h

/-- at a `findImpl` program counter the thread-local invariant provides a `FindInv` -/
theorem OpInv.getFind {n : Nat} {m : Mem} {E : List (Nat × Nat)} {t : Thr} {op : Op}
    (hpc : FindPc t.pc) (h : OpInv n m E t op) : ∃ tgt, FindInv n m E t tgt := by
  cases op with
  | find a => exact ⟨_, h.2.2.2⟩
  | unite a b =>
    rcases h.2.2.2 with ⟨_, f⟩ | ⟨_, f⟩ | u
    · exact ⟨_, f⟩
    · exact ⟨_, f⟩
    · exact (u.not_findPc hpc).elim
  | same a b =>
    rcases h.2.2.2.2 with ⟨_, f⟩ | ⟨_, f⟩ | u
    · exact ⟨_, f⟩
    · exact ⟨_, f⟩
    · rw [u] at hpc; exact hpc.elim

/-- at a program counter of `unite` proper, the operation is a `unite` -/
theorem OpInv.getUnite {n : Nat} {m : Mem} {E : List (Nat × Nat)} {t : Thr} {op : Op}
    (hpc : ¬ FindPc t.pc) (hs : t.pc ≠ .sLoadP) (h : OpInv n m E t op) :
    ∃ a b, op = .unite a b ∧ t.id1 < n ∧ t.id2 < n ∧
      ((Conn E t.id1 a ∧ Conn E t.id2 b) ∨ (Conn E t.id1 b ∧ Conn E t.id2 a)) ∧ UPart m E t := by
  cases op with
  | find a => exact (hpc h.2.2.2.findPc).elim
  | unite a b =>
    refine ⟨a, b, rfl, h.1, h.2.1, h.2.2.1, ?_⟩
    rcases h.2.2.2 with ⟨_, f⟩ | ⟨_, f⟩ | u
    · exact (hpc f.findPc).elim
    · exact (hpc f.findPc).elim
    · exact u
  | same a b =>
    rcases h.2.2.2.2 with ⟨_, f⟩ | ⟨_, f⟩ | u
    · exact (hpc f.findPc).elim
    · exact (hpc f.findPc).elim
    · exact (hs u).elim

theorem OpInv.getSame {n : Nat} {m : Mem} {E : List (Nat × Nat)} {t : Thr} {op : Op}
    (hs : t.pc = .sLoadP) (h : OpInv n m E t op) :
    ∃ a b, op = .same a b ∧ t.id1 < n ∧ t.id2 < n ∧ Conn E t.id1 a ∧ Conn E t.id2 b := by
  have nf : ¬ FindPc t.pc := by rw [hs]; exact fun h => h
  cases op with
  | find a => exact (nf h.2.2.2.findPc).elim
  | unite a b =>
    rcases h.2.2.2 with ⟨_, f⟩ | ⟨_, f⟩ | u
    · exact (nf f.findPc).elim
    · exact (nf f.findPc).elim
    · unfold UPart at u; rw [hs] at u; exact u.elim
  | same a b => exact ⟨a, b, rfl, h.1, h.2.1, h.2.2.1, h.2.2.2.1⟩

/-- rebuild `TInv` after a step that stays inside `findImpl` -/
theorem TInv.findStep {n : Nat} {m m' : Mem} {E E' : List (Nat × Nat)} {t t' : Thr}
    (hT : TInv n m E t) (x : Ext m m' E E') (hpc : FindPc t.pc)
    (hp : t'.prog = t.prog) (hi : t'.opIdx = t.opIdx) (hr : t'.results = t.results)
    (hk : t'.k = t.k) (h1 : t'.id1 = t.id1) (h2 : t'.id2 = t.id2)
    (H : ∀ tgt, FindInv n m E t tgt → FindInv n m' E' t' tgt) : TInv n m' E' t' := by
  have hb := hT.base.mono x.links
  refine ⟨⟨hp ▸ hb.progOk, by rw [hr, hi]; exact hb.resLen, by rw [hp, hi]; exact hb.idxLe,
    by rw [hp, hr]; exact hb.resOk⟩, fun op hc => ?_⟩
  have hc' : t.curOp = some op := by unfold Thr.curOp at hc ⊢; rw [← hp, ← hi]; exact hc
  exact (hT.cur op hc').findStep x hpc hk h1 h2 H

/-- the post-state satisfies the invariant and extends the pre-state -/
def Step2 (n : Nat) (s s' : State) : Prop :=
  Inv n s' ∧ Ext s.mem s'.mem s.links s'.links

theorem inv_update {n : Nat} {s : State} {tid : Nat} {t' : Thr} {m' : Mem}
    {E' : List (Nat × Nat)} (hI : Inv n s) (hm' : MemInv n m' E')
    (x : Ext s.mem m' s.links E') (ht' : TInv n m' E' t') :
    Step2 n s { mem := m', thr := s.thr.set tid t', links := E' } := by
  refine ⟨⟨hm', fun tid2 t2 h => ?_⟩, x⟩
  dsimp only at h
  rw [List.getElem?_set] at h
  split at h
  · split at h
    · cases h; exact ht'
    · cases h
  · exact (hI.thr tid2 t2 h).mono x

/-! ## the load steps -/

theorem next_fLoadP {n : Nat} {m : Mem} {E : List (Nat × Nat)} {t : Thr} {op : Op}
    (hT : TInv n m E t) (hc : t.curOp = some op) (hpc : t.pc = .fLoadP) :
    TInv n m E (t.next (rd m t.id) false) := by
  unfold Thr.next; rw [hpc]; dsimp only
  split
  · exact findRet_inv hT.base hc hpc (hT.cur op hc)
  · rename_i hne
    refine hT.findStep (Ext.refl _ _) (by rw [hpc]; trivial) rfl rfl rfl rfl rfl rfl ?_
    intro tgt f
    unfold FindInv at f ⊢
    exact ⟨f.1, f.2.1, hne⟩

theorem next_fLoadV {n : Nat} {m : Mem} {E : List (Nat × Nat)} {t : Thr}
    (hm : MemInv n m E) (hT : TInv n m E t) (hpc : t.pc = .fLoadV) :
    TInv n m E (t.next (rd m t.id) false) := by
  unfold Thr.next; rw [hpc]; dsimp only
  refine hT.findStep (Ext.refl _ _) (by rw [hpc]; trivial) rfl rfl rfl rfl rfl rfl ?_
  intro tgt f
  unfold FindInv at f ⊢
  rw [hpc] at f
  exact ⟨f.1, f.2.1, f.2.2, hm.bound _ f.1, hm.edge _ f.1⟩

theorem next_fLoadNP {n : Nat} {m : Mem} {E : List (Nat × Nat)} {t : Thr}
    (hm : MemInv n m E) (hT : TInv n m E t) (hpc : t.pc = .fLoadNP) :
    TInv n m E (t.next (rd m t.value.parent) false) := by
  unfold Thr.next; rw [hpc]; dsimp only
  split
  · refine hT.findStep (Ext.refl _ _) (by rw [hpc]; trivial) rfl rfl rfl rfl rfl rfl ?_
    intro tgt f
    unfold FindInv at f ⊢
    rw [hpc] at f
    obtain ⟨f1, f2, f3, f4, f5⟩ := f
    exact ⟨hm.bound _ f4, ((hm.edge _ f4).symm.trans (f5.symm.trans f2)), trivial⟩
  · rename_i hne
    refine hT.findStep (Ext.refl _ _) (by rw [hpc]; trivial) rfl rfl rfl rfl rfl rfl ?_
    intro tgt f
    unfold FindInv at f ⊢
    rw [hpc] at f
    obtain ⟨f1, f2, f3, f4, f5⟩ := f
    exact ⟨f1, f2, f3, f4, f5, hm.bound _ f4, hm.edge _ f4, hne, hm.klt _ f4 hne⟩

theorem next_sLoadP {n : Nat} {m : Mem} {E : List (Nat × Nat)} {t : Thr} {op : Op}
    (hT : TInv n m E t) (hc : t.curOp = some op) (hpc : t.pc = .sLoadP) :
    TInv n m E (t.next (rd m t.id1) false) := by
  obtain ⟨a, b, rfl, h1, h2, c1, c2⟩ := (hT.cur op hc).getSame hpc
  have hb := hT.base
  unfold Thr.next; rw [hpc]; dsimp only
  split
  · exact finishOp_inv hb hc (by unfold ResOk; exact ⟨fun e => absurd e (by decide), by decide⟩)
  · refine ⟨⟨hb.progOk, hb.resLen, hb.idxLe, hb.resOk⟩, fun op' h' => ?_⟩
    have : op' = .same a b := by
      have h2 : t.curOp = some op' := h'
      rw [hc] at h2; cases h2; rfl
    subst this
    exact ⟨h1, h2, c1, c2, .inl ⟨rfl, h1, .refl _, trivial⟩⟩

theorem next_uRank1 {n : Nat} {m : Mem} {E : List (Nat × Nat)} {t : Thr} {op : Op}
    (hT : TInv n m E t) (hc : t.curOp = some op) (hpc : t.pc = .uRank1) :
    TInv n m E (t.next (rd m t.id1) false) := by
  obtain ⟨a, b, rfl, h1, h2, ua, u⟩ :=
    (hT.cur op hc).getUnite (by rw [hpc]; exact fun h => h) (by rw [hpc]; exact fun h => by cases h)
  have hb := hT.base
  unfold UPart at u; rw [hpc] at u
  unfold Thr.next; rw [hpc]; dsimp only
  refine ⟨⟨hb.progOk, hb.resLen, hb.idxLe, hb.resOk⟩, fun op' h' => ?_⟩
  have : op' = .unite a b := by
    have h2 : t.curOp = some op' := h'
    rw [hc] at h2; cases h2; rfl
  subst this
  exact ⟨h1, h2, ua, .inr (.inr ⟨u, Nat.le_refl _⟩)⟩

theorem next_uRank2 {n : Nat} {m : Mem} {E : List (Nat × Nat)} {t : Thr} {op : Op}
    (hT : TInv n m E t) (hc : t.curOp = some op) (hpc : t.pc = .uRank2) :
    TInv n m E (t.next (rd m t.id2) false) := by
  obtain ⟨a, b, rfl, h1, h2, ua, u⟩ :=
    (hT.cur op hc).getUnite (by rw [hpc]; exact fun h => h) (by rw [hpc]; exact fun h => by cases h)
  have hb := hT.base
  unfold UPart at u; rw [hpc] at u
  obtain ⟨u1, u2⟩ := u
  unfold Thr.next; rw [hpc]; dsimp only
  split
  · rename_i hsw
    refine ⟨⟨hb.progOk, hb.resLen, hb.idxLe, hb.resOk⟩, fun op' h' => ?_⟩
    have : op' = .unite a b := by
      have h2 : t.curOp = some op' := h'
      rw [hc] at h2; cases h2; rfl
    subst this
    refine ⟨h2, h1, ?_, .inr (.inr ?_)⟩
    · rcases ua with ⟨c1, c2⟩ | ⟨c1, c2⟩
      · exact .inr ⟨c2, c1⟩
      · exact .inl ⟨c2, c1⟩
    · exact ⟨fun e => u1 e.symm, Nat.le_refl _, u2, by dsimp only; omega⟩
  · rename_i hsw
    refine ⟨⟨hb.progOk, hb.resLen, hb.idxLe, hb.resOk⟩, fun op' h' => ?_⟩
    have : op' = .unite a b := by
      have h2 : t.curOp = some op' := h'
      rw [hc] at h2; cases h2; rfl
    subst this
    refine ⟨h1, h2, ua, .inr (.inr ?_)⟩
    exact ⟨u1, u2, Nat.le_refl _, by dsimp only; omega⟩

/-! ## the CAS steps -/

theorem inv_fCas {n : Nat} {s : State} {tid : Nat} {t : Thr} {op : Op} (hI : Inv n s)
    (hget : s.thr[tid]? = some t) (hc : t.curOp = some op) (hpc : t.pc = .fCas) (w : Word)
    (ok : Bool) (hok : ok = true → rd s.mem t.id = t.value) :
    Step2 n s ({ mem := if ok then wr s.mem t.id ⟨t.value.rank, t.np⟩ else s.mem,
                 thr := s.thr.set tid (t.next w ok), links := s.links } : State) := by
  have hT := hI.thr tid t hget
  have hfp : FindPc t.pc := by rw [hpc]; trivial
  obtain ⟨tgt0, f0⟩ := (hT.cur op hc).getFind hfp
  have f0' := f0
  unfold FindInv at f0'; rw [hpc] at f0'
  obtain ⟨g1, g2, g3, g4, g5, g6, g7, g8, g9⟩ := f0'
  have key : ∀ m', Ext s.mem m' s.links s.links → TInv n m' s.links (t.next w ok) := by
    intro m' x
    unfold Thr.next; rw [hpc]; dsimp only
    refine hT.findStep x hfp rfl rfl rfl rfl rfl rfl ?_
    intro tgt f
    unfold FindInv at f ⊢
    rw [hpc] at f
    obtain ⟨f1, f2, f3, f4, f5, f6, f7, f8, f9⟩ := f
    exact ⟨f6, x.links _ _ (f7.symm.trans (f5.symm.trans f2)), trivial⟩
  cases ok with
  | false => exact inv_update hI hI.mem (Ext.refl _ _) (key _ (Ext.refl _ _))
  | true =>
    obtain ⟨hm', x⟩ := halve_mem hI.mem g1 (hok rfl) g3 g6 g7 g9
    exact inv_update hI hm' x (key _ x)

theorem inv_uLink {n : Nat} {s : State} {tid : Nat} {t : Thr} {op : Op} (hI : Inv n s)
    (hget : s.thr[tid]? = some t) (hc : t.curOp = some op) (hpc : t.pc = .uLink) (w : Word)
    (ok : Bool) (hok : ok = true → rd s.mem t.id1 = ⟨t.r1, t.id1⟩) :
    Step2 n s ({ mem := if ok then wr s.mem t.id1 ⟨t.r1, t.id2⟩ else s.mem,
                 thr := s.thr.set tid (t.next w ok),
                 links := if ok then (t.id1, t.id2) :: s.links else s.links } : State) := by
  have hT := hI.thr tid t hget
  obtain ⟨a, b, rfl, h1, h2, ua, u⟩ :=
    (hT.cur _ hc).getUnite (by rw [hpc]; exact fun h => h) (by rw [hpc]; exact fun h => by cases h)
  have hb := hT.base
  unfold UPart at u; rw [hpc] at u
  obtain ⟨u1, u2, u3, u4⟩ := u
  cases ok with
  | false =>
    refine inv_update hI hI.mem (Ext.refl _ _) ?_
    unfold Thr.next; rw [hpc]; dsimp only
    unfold Thr.uniteRetry
    refine ⟨⟨hb.progOk, hb.resLen, hb.idxLe, hb.resOk⟩, fun op' h' => ?_⟩
    have : op' = .unite a b := by
      have h2 : t.curOp = some op' := h'
      rw [hc] at h2; cases h2; rfl
    subst this
    exact ⟨h1, h2, ua, .inl ⟨rfl, h1, .refl _, trivial⟩⟩
  | true =>
    obtain ⟨hm', x⟩ := link_mem hI.mem h1 h2 (hok rfl) u1 u3 u4
    refine inv_update hI hm' x ?_
    have hb' := hb.mono x.links
    have c12 : Conn ((t.id1, t.id2) :: s.links) t.id1 t.id2 := .base (List.mem_cons_self ..)
    have ua' : (Conn ((t.id1, t.id2) :: s.links) t.id1 a ∧ Conn ((t.id1, t.id2) :: s.links) t.id2 b) ∨
        (Conn ((t.id1, t.id2) :: s.links) t.id1 b ∧ Conn ((t.id1, t.id2) :: s.links) t.id2 a) := by
      rcases ua with ⟨c1, c2⟩ | ⟨c1, c2⟩
      · exact .inl ⟨c1.cons, c2.cons⟩
      · exact .inr ⟨c1.cons, c2.cons⟩
    unfold Thr.next; rw [hpc]; dsimp only
    simp only [if_true]
    split
    · refine ⟨⟨hb'.progOk, hb'.resLen, hb'.idxLe, hb'.resOk⟩, fun op' h' => ?_⟩
      have : op' = .unite a b := by
        have h2 : t.curOp = some op' := h'
        rw [hc] at h2; cases h2; rfl
      subst this
      exact ⟨h1, h2, ua', .inr (.inr c12)⟩
    · refine finishOp_inv hb' hc ?_
      rcases ua' with ⟨c1, c2⟩ | ⟨c1, c2⟩
      · exact ⟨c1.symm.trans (c12.trans c2), c1.symm.trans c12⟩
      · exact ⟨c2.symm.trans (c12.symm.trans c1), c2.symm⟩

theorem inv_uRankCas {n : Nat} {s : State} {tid : Nat} {t : Thr} {op : Op} (hI : Inv n s)
    (hget : s.thr[tid]? = some t) (hc : t.curOp = some op) (hpc : t.pc = .uRankCas) (w : Word)
    (ok : Bool) (hok : ok = true → rd s.mem t.id2 = ⟨t.r2, t.id2⟩) :
    Step2 n s ({ mem := if ok then wr s.mem t.id2 ⟨t.r2 + 1, t.id2⟩ else s.mem,
                 thr := s.thr.set tid (t.next w ok), links := s.links } : State) := by
  have hT := hI.thr tid t hget
  obtain ⟨a, b, rfl, h1, h2, ua, u⟩ :=
    (hT.cur _ hc).getUnite (by rw [hpc]; exact fun h => h) (by rw [hpc]; exact fun h => by cases h)
  have hb := hT.base
  unfold UPart at u; rw [hpc] at u
  have hres : ResOk s.links (.unite a b) t.id2 := by
    rcases ua with ⟨c1, c2⟩ | ⟨c1, c2⟩
    · exact ⟨c1.symm.trans (u.trans c2), c1.symm.trans u⟩
    · exact ⟨c2.symm.trans (u.symm.trans c1), c2.symm⟩
  cases ok with
  | false =>
    refine inv_update hI hI.mem (Ext.refl _ _) ?_
    unfold Thr.next; rw [hpc]; dsimp only
    by_cases h0 : t.r2 = 0
    · simp only [h0, and_self, if_true]
      unfold Thr.uniteRetry
      refine ⟨⟨hb.progOk, hb.resLen, hb.idxLe, hb.resOk⟩, fun op' h' => ?_⟩
      have : op' = .unite a b := by
        have h2 : t.curOp = some op' := h'
        rw [hc] at h2; cases h2; rfl
      subst this
      exact ⟨h1, h2, ua, .inl ⟨rfl, h1, .refl _, trivial⟩⟩
    · simp only [h0, and_false, if_false]
      exact finishOp_inv hb hc hres
  | true =>
    obtain ⟨hm', x⟩ := bump_mem hI.mem h2 (hok rfl)
    refine inv_update hI hm' x ?_
    unfold Thr.next; rw [hpc]; dsimp only
    simp only [Bool.true_eq_false, false_and, if_false]
    exact finishOp_inv (hb.mono x.links) hc hres

/-! ## every step preserves the invariant -/

theorem inv_load {n : Nat} {s : State} {tid : Nat} {t' : Thr} (hI : Inv n s)
    (ht' : TInv n s.mem s.links t') :
    Step2 n s { s with thr := s.thr.set tid t' } :=
  inv_update (s := s) hI hI.mem (Ext.refl _ _) ht'

theorem step_inv2 {n : Nat} {s : State} (hI : Inv n s) (tid : Nat) (sp : Bool) :
    Step2 n s (step s tid sp).1 := by
  unfold step
  cases hget : s.thr[tid]? with
  | none => exact ⟨hI, Ext.refl _ _⟩
  | some t =>
    dsimp only
    by_cases hfin : t.finished = true
    · rw [if_pos hfin]; exact ⟨hI, Ext.refl _ _⟩
    rw [if_neg hfin]
    have hT := hI.thr tid t hget
    obtain ⟨op, hc⟩ : ∃ op, t.curOp = some op := by
      unfold Thr.finished at hfin
      cases h : t.curOp with
      | none => rw [h] at hfin; exact (hfin rfl).elim
      | some op => exact ⟨op, rfl⟩
    cases hpc : t.pc with
    | fLoadP =>
      simp only [Thr.memOp, hpc]
      exact inv_load hI (next_fLoadP hT hc hpc)
    | fLoadV =>
      simp only [Thr.memOp, hpc]
      exact inv_load hI (next_fLoadV hI.mem hT hpc)
    | fLoadNP =>
      simp only [Thr.memOp, hpc]
      exact inv_load hI (next_fLoadNP hI.mem hT hpc)
    | uRank1 =>
      simp only [Thr.memOp, hpc]
      exact inv_load hI (next_uRank1 hT hc hpc)
    | uRank2 =>
      simp only [Thr.memOp, hpc]
      exact inv_load hI (next_uRank2 hT hc hpc)
    | sLoadP =>
      simp only [Thr.memOp, hpc]
      exact inv_load hI (next_sLoadP hT hc hpc)
    | fCas =>
      simp only [Thr.memOp, hpc]
      have := inv_fCas hI hget hc hpc (rd s.mem t.id)
        (!(true && sp) && decide (rd s.mem t.id = t.value)) (by
          intro h; simp only [Bool.and_eq_true, decide_eq_true_eq] at h; exact h.2)
      simpa using this
    | uLink =>
      simp only [Thr.memOp, hpc]
      have := inv_uLink hI hget hc hpc (rd s.mem t.id1)
        (!(false && sp) && decide (rd s.mem t.id1 = ⟨t.r1, t.id1⟩)) (by
          intro h; simp only [Bool.and_eq_true, decide_eq_true_eq] at h; exact h.2)
      simpa using this
    | uRankCas =>
      simp only [Thr.memOp, hpc]
      have := inv_uRankCas hI hget hc hpc (rd s.mem t.id2)
        (!(false && sp) && decide (rd s.mem t.id2 = ⟨t.r2, t.id2⟩)) (by
          intro h; simp only [Bool.and_eq_true, decide_eq_true_eq] at h; exact h.2)
      simpa using this

theorem step_inv {n : Nat} {s : State} (hI : Inv n s) (tid : Nat) (sp : Bool) :
    Inv n (step s tid sp).1 := (step_inv2 hI tid sp).1

theorem init_inv (n : Nat) (progs : List (List Op))
    (hok : ∀ p, p ∈ progs → ∀ op, op ∈ p → op.Ok n) : Inv n (init n progs) := by
  refine ⟨⟨by simp [init], ?_, ?_, ?_, ?_, ?_⟩, ?_⟩
  · intro i hi; simp [init, par, rd_initMem n i hi, hi]
  · intro i hi h; simp [init, par, rd_initMem n i hi] at h
  · intro i hi; simp only [init, par, rd_initMem n i hi]; exact .refl _
  · intro a b ha hb hab _ _
    have : ∀ {x y : Nat}, Conn ([] : List (Nat × Nat)) x y → x = y := by
      intro x y c
      induction c with
      | base h => cases h
      | refl => rfl
      | symm _ ih => exact ih.symm
      | trans _ _ ih1 ih2 => exact ih1.trans ih2
    exact this hab
  · intro a b h; cases h
  · intro tid t h
    simp only [init, List.getElem?_map] at h
    cases hp : progs[tid]? with
    | none => rw [hp] at h; cases h
    | some p =>
      rw [hp] at h; simp only [Option.map_some, Option.some.injEq] at h
      subst h
      apply startOp_inv
      refine ⟨hok p (List.mem_of_getElem? hp), rfl, Nat.zero_le _, ?_⟩
      intro j op r _ h2; cases h2

theorem exec_inv {n : Nat} {s : State} (hI : Inv n s) (sched : List (Nat × Bool)) :
    Inv n (exec s sched) := by
  induction sched generalizing s with
  | nil => exact hI
  | cons e rest ih => exact ih (step_inv hI e.1 e.2)

end MV.Dsu
