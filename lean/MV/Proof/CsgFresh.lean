import MV.Proof.CsgBig
import MV.Proof.CsgBuild
/-
Existence of valuations that respect the events of a run: result meshes get consecutive fresh
names, so the valuation can be extended event by event.
-/
set_option autoImplicit false
namespace MV.Csg
open SolidAlg XfAct

variable {M S : Type}

def LeafId.below (b : Nat) : LeafId → Bool
  | .res k => decide (k < b)
  | _ => true

def leavesBelow (b : Nat) (ls : List (Leaf M)) : Bool := ls.all (fun l => l.id.below b)

/-- the events only mention result meshes created before, and the fresh ones are numbered
consecutively from `b` -/
def Scoped [One M] : Nat → List (Event M) → Prop
  | _, [] => True
  | b, e :: es => leavesBelow b e.pos = true ∧ leavesBelow b e.neg = true ∧
      (if e.fresh = true then e.res = ⟨.res b, 1⟩ ∧ Scoped (b + 1) es else Scoped b es)

instance decScoped [One M] [DecidableEq M] :
    (b : Nat) → (evs : List (Event M)) → Decidable (Scoped b evs)
  | _, [] => isTrue trivial
  | b, e :: es => by
    unfold Scoped
    have := decScoped (b + 1) es
    have := decScoped b es
    infer_instance

section
variable [One M] [Mul M] [SolidAlg S] [XfAct M S]

def Val.set (L : Val S) (k : Nat) (v : S) : Val S :=
  { L with res := fun j => if j = k then v else L.res j }

/-- give every fresh result mesh the value of the operation that created it -/
def Val.extend (L : Val S) : List (Event M) → Val S
  | [] => L
  | e :: es =>
    if e.fresh then
      match e.res.id with
      | .res k => (L.set k (evSem L e.op e.pos e.neg)).extend es
      | _ => L.extend es
    else L.extend es

def Agree (b : Nat) (L L' : Val S) : Prop := L.orig = L'.orig ∧ ∀ j, j < b → L.res j = L'.res j

omit [One M] [Mul M] [SolidAlg S] [XfAct M S] in
theorem Agree.refl (b : Nat) (L : Val S) : Agree b L L := ⟨rfl, fun _ _ => rfl⟩

omit [One M] [Mul M] [SolidAlg S] [XfAct M S] in
theorem Agree.trans {b : Nat} {L L' L'' : Val S} (a : Agree b L L') (c : Agree b L' L'') :
    Agree b L L'' := ⟨a.1.trans c.1, fun j hj => (a.2 j hj).trans (c.2 j hj)⟩

omit [One M] [Mul M] [SolidAlg S] [XfAct M S] in
theorem Agree.mono {b b' : Nat} {L L' : Val S} (a : Agree b' L L') (h : b ≤ b') : Agree b L L' :=
  ⟨a.1, fun j hj => a.2 j (by omega)⟩

theorem leaf_congr {b : Nat} {L L' : Val S} (a : Agree b L L') {l : Leaf M}
    (h : l.id.below b = true) : L.leaf l = L'.leaf l := by
  obtain ⟨id, xf⟩ := l
  cases id with
  | orig k => simp [Val.leaf, Val.leafId, a.1]
  | res k =>
    have : k < b := by simpa [LeafId.below] using h
    simp [Val.leaf, Val.leafId, a.2 k this]
  | empty => rfl

theorem leaves_congr {b : Nat} {L L' : Val S} (a : Agree b L L') {ls : List (Leaf M)}
    (h : leavesBelow b ls = true) : L.leaves ls = L'.leaves ls := by
  simp only [Val.leaves]
  apply List.map_congr_left
  intro l hl
  simp only [leavesBelow, List.all_eq_true] at h
  exact leaf_congr a (h l hl)

theorem evSem_congr {b : Nat} {L L' : Val S} (a : Agree b L L') (o : Op) {pos neg : List (Leaf M)}
    (hp : leavesBelow b pos = true) (hn : leavesBelow b neg = true) :
    evSem L o pos neg = evSem L' o pos neg := by
  simp only [evSem, leaves_congr a hp, leaves_congr a hn]

theorem extend_agree : ∀ (evs : List (Event M)) (b : Nat) (L : Val S), Scoped b evs →
    Agree b L (L.extend evs) := by
  intro evs
  induction evs with
  | nil => intro b L _; exact Agree.refl b L
  | cons e es ih =>
    intro b L h
    obtain ⟨_, _, h3⟩ := h
    by_cases hf : e.fresh = true
    · rw [if_pos hf] at h3
      obtain ⟨hres, hs⟩ := h3
      have : L.extend (e :: es) = (L.set b (evSem L e.op e.pos e.neg)).extend es := by
        simp [Val.extend, hf, hres]
      rw [this]
      have a1 : Agree b L (L.set b (evSem L e.op e.pos e.neg)) :=
        ⟨rfl, fun j hj => by simp [Val.set, Nat.ne_of_lt hj]⟩
      exact a1.trans ((ih (b + 1) _ hs).mono (by omega))
    · rw [if_neg hf] at h3
      have : L.extend (e :: es) = L.extend es := by simp [Val.extend, hf]
      rw [this]
      exact ih b L h3

/-- a valuation respecting the events exists, and it extends the given one -/
theorem extend_respects : ∀ (evs : List (Event M)) (b : Nat) (L : Val S), Scoped b evs →
    Respects (L.extend evs) evs := by
  intro evs
  induction evs with
  | nil => intro b L _; exact Respects_nil _
  | cons e es ih =>
    intro b L h
    have hag := extend_agree (e :: es) b L h
    obtain ⟨hp, hn, h3⟩ := h
    by_cases hf : e.fresh = true
    · rw [if_pos hf] at h3
      obtain ⟨hres, hs⟩ := h3
      have hext : L.extend (e :: es) = (L.set b (evSem L e.op e.pos e.neg)).extend es := by
        simp [Val.extend, hf, hres]
      intro e' he' hf'
      rcases List.mem_cons.1 he' with rfl | he'
      · rw [← evSem_congr hag e'.op hp hn, hext, hres]
        have := (extend_agree es (b + 1) (L.set b (evSem L e'.op e'.pos e'.neg)) hs).2 b
          (by omega)
        simp only [Val.leaf, Val.leafId, act_one, ← this]
        simp [Val.set]
      · rw [hext]
        exact ih (b + 1) _ hs e' he' hf'
    · rw [if_neg hf] at h3
      have hext : L.extend (e :: es) = L.extend es := by simp [Val.extend, hf]
      intro e' he' hf'
      rcases List.mem_cons.1 he' with rfl | he'
      · exact absurd hf' hf
      · rw [hext]
        exact ih b L h3 e' he' hf'

end
end MV.Csg

/-! ### every run produces well scoped events -/
namespace MV.Csg

variable {M : Type} [One M] [Mul M]

def nfresh (evs : List (Event M)) : Nat := (evs.filter (·.fresh)).length

omit [One M] [Mul M] in
theorem nfresh_append (a c : List (Event M)) : nfresh (a ++ c) = nfresh a + nfresh c := by
  simp [nfresh]

omit [Mul M] in
theorem scoped_append : ∀ (a c : List (Event M)) (b : Nat),
    Scoped b (a ++ c) ↔ Scoped b a ∧ Scoped (b + nfresh a) c := by
  intro a
  induction a with
  | nil => intro c b; simp [Scoped, nfresh]
  | cons e es ih =>
    intro c b
    simp only [List.cons_append, Scoped]
    by_cases hf : e.fresh = true
    · simp only [hf, if_true, ih]
      have : nfresh (e :: es) = nfresh es + 1 := by simp [nfresh, hf]
      rw [this, show b + (nfresh es + 1) = b + 1 + nfresh es by omega]
      constructor
      · rintro ⟨h1, h2, h3, h4, h5⟩; exact ⟨⟨h1, h2, h3, h4⟩, h5⟩
      · rintro ⟨⟨h1, h2, h3, h4⟩, h5⟩; exact ⟨h1, h2, h3, h4, h5⟩
    · simp only [hf, if_false, ih, Bool.false_eq_true]
      have : nfresh (e :: es) = nfresh es := by simp [nfresh, hf]
      rw [this]
      constructor
      · rintro ⟨h1, h2, h3, h4⟩; exact ⟨⟨h1, h2, h3⟩, h4⟩
      · rintro ⟨⟨h1, h2, h3⟩, h4⟩; exact ⟨h1, h2, h3, h4⟩

theorem LeafId.below_mono {b b' : Nat} (h : b ≤ b') {i : LeafId} (hi : i.below b = true) :
    i.below b' = true := by
  cases i <;> simp_all [LeafId.below]
  omega

omit [One M] [Mul M] in
theorem leavesBelow_mono {b b' : Nat} (h : b ≤ b') {ls : List (Leaf M)}
    (hl : leavesBelow b ls = true) : leavesBelow b' ls = true := by
  simp only [leavesBelow, List.all_eq_true] at hl ⊢
  exact fun l hm => LeafId.below_mono h (hl l hm)

/-- all meshes named in the store were created before `nextRes` -/
def StoreBelow (s : Store M) : Prop :=
  ∀ (n : Nat) (l : Leaf M), s.nodes[n]? = some (Node.leaf l) → l.id.below s.nextRes = true

def FrameBelow (b : Nat) (F : Frame M) : Prop :=
  leavesBelow b F.pos = true ∧ leavesBelow b F.neg = true

omit [One M] [Mul M] in
theorem pushDest_below {b : Nat} {stk : List (Frame M)} (h : ∀ F ∈ stk, FrameBelow b F)
    (d : Dest) (l : Leaf M) (hl : l.id.below b = true) :
    ∀ F ∈ pushDest stk d l, FrameBelow b F := by
  induction stk with
  | nil => simp [pushDest]
  | cons f fs ih =>
    simp only [pushDest]
    have hf := h f (by simp)
    have hfs : ∀ F ∈ fs, FrameBelow b F := fun F hF => h F (by simp [hF])
    split
    · intro F hF
      rcases List.mem_cons.1 hF with rfl | hF
      · have hl' : leavesBelow b [l] = true := by simpa [leavesBelow] using hl
        simp only [Frame.push]
        split
        · refine ⟨hf.1, ?_⟩
          simp only [leavesBelow, List.all_append, Bool.and_eq_true] at hf hl' ⊢
          exact ⟨hf.2, hl'⟩
        · refine ⟨?_, hf.2⟩
          simp only [leavesBelow, List.all_append, Bool.and_eq_true] at hf hl' ⊢
          exact ⟨hf.1, hl'⟩
      · exact hfs F hF
    · intro F hF
      rcases List.mem_cons.1 hF with rfl | hF
      · exact hf
      · exact ih hfs F hF

omit [One M] in
theorem addChildren_below {st : Store M} (hst : StoreBelow st) (o : Op) (xf : M)
    (pd nd : Option Dest) (cs : List Nat) (first : Bool) (acc : List (Frame M) × Bool)
    (h : ∀ F ∈ acc.1, FrameBelow st.nextRes F) :
    ∀ F ∈ (addChildren st o xf pd nd cs first acc).1, FrameBelow st.nextRes F := by
  induction cs generalizing first acc with
  | nil => simpa [addChildren] using h
  | cons c cs ih =>
    simp only [addChildren]
    apply ih
    simp only [addChild]
    split
    · rename_i lf hlf
      split
      · exact pushDest_below h _ _ (by simpa [Leaf.transform] using hst c lf hlf)
      · exact h
    · intro F hF
      rcases List.mem_cons.1 hF with rfl | hF
      · exact ⟨rfl, rfl⟩
      · exact h F hF
    · exact h

omit [Mul M] in
theorem finalizeResult_fresh (fr : Leaf M) (o : Op) (pos neg : List (Leaf M)) (b : Nat)
    (hp : leavesBelow b pos = true) :
    ((finalizeResult fr o pos neg).2.1 = true → (finalizeResult fr o pos neg).1 = fr) ∧
    ((finalizeResult fr o pos neg).2.1 = false →
      (finalizeResult fr o pos neg).1.id.below b = true) := by
  have hmem : ∀ x ∈ pos, x.id.below b = true := by
    simpa [leavesBelow, List.all_eq_true] using hp
  cases o with
  | add =>
    match pos, hmem with
    | [], _ => simp [finalizeResult, batchUnion, LeafId.below]
    | [x], hm => simpa [finalizeResult, batchUnion] using hm
    | x :: y :: r, _ => simp [finalizeResult, batchUnion]
  | int =>
    match pos, hmem with
    | [], _ => simp [finalizeResult, LeafId.below]
    | [x], hm => simpa [finalizeResult] using hm
    | x :: y :: r, _ => simp [finalizeResult]
  | sub =>
    match pos, hmem with
    | [], _ => simp [finalizeResult, LeafId.below]
    | [x], hm =>
      cases neg with
      | nil => simpa [finalizeResult, batchUnion] using hm
      | cons z zs => simp [finalizeResult]
    | x :: y :: r, _ =>
      cases neg with
      | nil => simp [finalizeResult, batchUnion]
      | cons z zs => simp [finalizeResult]

/-- invariant of the loop for the freshness of result meshes -/
structure FreshInv (b0 : Nat) (σ : EvalState M) : Prop where
  sc : Scoped b0 σ.evs
  nx : σ.st.nextRes = b0 + nfresh σ.evs
  sb : StoreBelow σ.st
  fb : ∀ F ∈ σ.stack, FrameBelow σ.st.nextRes F

theorem step_fresh {b0 : Nat} {σ : EvalState M} (inv : FreshInv b0 σ) : FreshInv b0 (step σ) := by
  unfold step
  split
  · exact inv
  · rename_i frame rest hs
    have hframe : FrameBelow σ.st.nextRes frame := inv.fb frame (by simp [hs])
    have hrest : ∀ F ∈ rest, FrameBelow σ.st.nextRes F := fun F hF => inv.fb F (by simp [hs, hF])
    split
    · rename_i i o nxf cache hn
      split
      · -- finalize
        cases cache with
        | some c =>
          simp only
          cases hc : σ.st.leafAt? c with
          | none => exact ⟨inv.sc, inv.nx, inv.sb, hrest⟩
          | some cl =>
            have hcl : cl.id.below σ.st.nextRes = true := by
              simp only [Store.leafAt?] at hc
              split at hc
              · rename_i l hl; cases hc; exact inv.sb c _ hl
              · cases hc
            simp only
            split
            · exact ⟨inv.sc, inv.nx, inv.sb,
                pushDest_below hrest _ _ (by simpa [Leaf.transform] using hcl)⟩
            · exact ⟨inv.sc, inv.nx, inv.sb, hrest⟩
        | none =>
          simp only
          obtain ⟨hfr, hnf⟩ := finalizeResult_fresh (⟨.res σ.st.nextRes, 1⟩ : Leaf M) o
            frame.pos frame.neg σ.st.nextRes hframe.1
          generalize finalizeResult (⟨.res σ.st.nextRes, 1⟩ : Leaf M) o frame.pos frame.neg = rr
            at hfr hnf
          obtain ⟨res, fresh, ub'⟩ := rr
          simp only at hfr hnf ⊢
          -- the new bound
          have hle : σ.st.nextRes ≤ (if fresh = true then σ.st.nextRes + 1 else σ.st.nextRes) := by
            split <;> omega
          have hres : res.id.below (if fresh = true then σ.st.nextRes + 1 else σ.st.nextRes)
              = true := by
            cases fresh with
            | true => rw [hfr rfl]; simp [LeafId.below]
            | false => simpa using hnf rfl
          have hscoped : Scoped b0 (σ.evs ++ [{ op := o, pos := frame.pos, neg := frame.neg, res := res, fresh := fresh }]) := by
            rw [scoped_append, ← inv.nx]
            refine ⟨inv.sc, hframe.1, hframe.2, ?_⟩
            cases fresh with
            | true => simp only [if_true]; exact ⟨hfr rfl, trivial⟩
            | false => simp [Scoped]
          have hnext : (if fresh = true then σ.st.nextRes + 1 else σ.st.nextRes)
              = b0 + nfresh (σ.evs ++ [{ op := o, pos := frame.pos, neg := frame.neg, res := res, fresh := fresh }]) := by
            rw [nfresh_append, ← Nat.add_assoc, ← inv.nx]
            cases fresh <;> simp [nfresh]
          have hstore : StoreBelow
              (finStore σ.st frame.node i o nxf res fresh) := by
            intro k l hk
            have hk' : (finStore σ.st frame.node i o nxf res fresh).nodes[k]? = some (.leaf l) := hk
            rcases finStore_cases hk' with ⟨_, _, h'⟩ | ⟨_, _, h'⟩ | ⟨_, h'⟩ | ⟨_, h'⟩
            · exact LeafId.below_mono hle (inv.sb k l h')
            · cases h'
            · cases h'; exact hres
            · cases h'; exact hres
          have hrest' : ∀ F ∈ rest, FrameBelow
              (if fresh = true then σ.st.nextRes + 1 else σ.st.nextRes) F :=
            fun F hF => ⟨leavesBelow_mono hle (hrest F hF).1, leavesBelow_mono hle (hrest F hF).2⟩
          split
          · exact ⟨hscoped, hnext, hstore,
              pushDest_below hrest' _ _ (by simpa [Leaf.transform] using hres)⟩
          · exact ⟨hscoped, hnext, hstore, hrest'⟩
      · -- visit
        refine ⟨inv.sc, inv.nx, inv.sb, ?_⟩
        apply addChildren_below inv.sb
        simp only
        split
        · exact hrest
        · intro F hF
          rcases List.mem_cons.1 hF with rfl | hF
          · exact hframe
          · exact hrest F hF
    · exact ⟨inv.sc, inv.nx, inv.sb, hrest⟩

theorem run_fresh {b0 : Nat} (f : Nat) {σ : EvalState M} (inv : FreshInv b0 σ) :
    FreshInv b0 (run f σ) := by
  induction f generalizing σ with
  | zero => exact inv
  | succ f ih => rw [run_succ]; exact ih (step_fresh inv)

end MV.Csg

/-! ### freshness for `toLeaf`, `force`, and the node-building operations -/
namespace MV.Csg

variable {M : Type} [One M] [Mul M]

/-- what one evaluation does to the freshness bookkeeping -/
structure FreshStep (s : Store M) (s' : Store M) (evs : List (Event M)) : Prop where
  sc : Scoped s.nextRes evs
  nx : s'.nextRes = s.nextRes + nfresh evs
  sb : StoreBelow s'

omit [One M] [Mul M] in
theorem grow_below {s : Store M} (hs : StoreBelow s) (nd : Node M) (is : List (List Nat))
    (hnd : ∀ l, nd = Node.leaf l → l.id.below s.nextRes = true) : StoreBelow (s.grow nd is) := by
  intro k l hk
  rcases grow_node_cases hk with h | ⟨_, h⟩
  · exact hs k l h
  · exact hnd l h.symm

theorem toLeaf_fresh (s : Store M) (hs : StoreBelow s) (n : Nat) (orc : List Bool) (fuel : Nat) :
    FreshStep s (toLeaf s n orc fuel).st (toLeaf s n orc fuel).evs := by
  cases hnd : s.nodes[n]? with
  | none => simp only [toLeaf, hnd]; exact ⟨trivial, rfl, hs⟩
  | some nd =>
    cases nd with
    | leaf l =>
      simp only [toLeaf, hnd, addNode_eq]
      exact ⟨trivial, rfl, grow_below hs _ _ (fun l' e => by cases e; exact hs n l hnd)⟩
    | op i o nxf cache =>
      cases cache with
      | some c => simp only [toLeaf, hnd]; exact ⟨trivial, rfl, hs⟩
      | none =>
        have inv0 : FreshInv s.nextRes
            ({ st := s, stack := [{ finalize := false, parentOp := o, xf := 1, posDest := none,
                                    negDest := none, node := n }],
               orc := orc, used := 0, evs := [], ub := false } : EvalState M) :=
          ⟨trivial, rfl, hs, fun F hF => by
            simp only [List.mem_singleton] at hF; subst hF; exact ⟨rfl, rfl⟩⟩
        have inv := run_fresh fuel inv0
        simp only [toLeaf, hnd]
        split <;> exact ⟨inv.sc, inv.nx, inv.sb⟩

theorem force_fresh (s : Store M) (hs : StoreBelow s) (n : Nat) (orc : List Bool) :
    FreshStep s (force s n orc).st (force s n orc).evs := by
  simp only [force]
  split
  · exact ⟨trivial, rfl, hs⟩
  · exact toLeaf_fresh s hs n orc _

/-- bookkeeping invariant of a session started from the empty store -/
structure SessFresh (σ : Sess M) : Prop where
  sc : Scoped 0 σ.evs
  nx : σ.st.nextRes = nfresh σ.evs
  sb : StoreBelow σ.st

theorem exec_fresh {σ : Sess M} (inv : SessFresh σ) (c : Cmd M) : SessFresh (σ.exec c) := by
  have leafCase : ∀ (id : LeafId) (m : M), id.below σ.st.nextRes = true →
      StoreBelow (σ.st.addNode (.leaf ⟨id, m⟩)).1 := by
    intro id m h
    rw [addNode_eq]
    exact grow_below inv.sb _ _ (fun l e => by cases e; exact h)
  have opCase : ∀ (ch : List Nat) (o : Op), StoreBelow (σ.st.newOp ch o).1 := by
    intro ch o
    exact grow_below inv.sb (Node.op σ.st.impls.length o 1 none) [ch] (fun l e => by cases e)
  cases c with
  | leaf h => exact ⟨inv.sc, inv.nx, leafCase _ _ rfl⟩
  | bool h o a b =>
    simp only [Sess.exec]
    split
    · refine ⟨inv.sc, ?_, ?_⟩
      · simp only [Store.boolean]
        split <;> exact inv.nx
      · simp only [Store.boolean]
        split <;> exact opCase _ _
    · exact ⟨inv.sc, inv.nx, inv.sb⟩
  | batch h o as =>
    simp only [Sess.exec]
    split
    · rename_i ns _
      refine ⟨inv.sc, ?_, ?_⟩
      · simp only [Store.batch]
        split
        · exact inv.nx
        · exact inv.nx
        · exact inv.nx
      · simp only [Store.batch]
        split
        · exact leafCase _ _ rfl
        · exact inv.sb
        · exact opCase _ _
    · exact ⟨inv.sc, inv.nx, inv.sb⟩
  | xf h a m =>
    simp only [Sess.exec]
    split
    · rename_i na _
      refine ⟨inv.sc, ?_, ?_⟩
      · simp only [Store.transform]
        split <;> exact inv.nx
      · simp only [Store.transform]
        split
        · rename_i l hl
          exact leafCase _ _ (inv.sb na l hl)
        · rw [addNode_eq]
          exact grow_below inv.sb _ _ (fun l e => by cases e)
        · exact inv.sb
    · exact ⟨inv.sc, inv.nx, inv.sb⟩
  | drop h => exact ⟨inv.sc, inv.nx, inv.sb⟩
  | force h orc =>
    simp only [Sess.exec]
    split
    · rename_i n _
      have f := force_fresh σ.st inv.sb n orc
      split
      · refine ⟨?_, ?_, f.sb⟩
        · rw [scoped_append, Nat.zero_add, ← inv.nx]; exact ⟨inv.sc, f.sc⟩
        · simp only [nfresh_append, f.nx, inv.nx]
      · exact ⟨inv.sc, inv.nx, inv.sb⟩
    · exact ⟨inv.sc, inv.nx, inv.sb⟩

theorem run_sess_fresh (prog : List (Cmd M)) (σ : Sess M) (inv : SessFresh σ) :
    SessFresh (σ.run prog) := by
  induction prog generalizing σ with
  | nil => exact inv
  | cons c cs ih => exact ih (σ.exec c) (exec_fresh inv c)

omit [Mul M] in
theorem sessFresh_empty : SessFresh ({} : Sess M) :=
  ⟨trivial, rfl, fun n l h => by simp at h⟩

end MV.Csg

/-! ### denotations only depend on the meshes named in the store -/
namespace MV.Csg
open SolidAlg XfAct

variable {M S : Type} [One M] [Mul M] [SolidAlg S] [XfAct M S]

theorem denoteF_congr {L L' : Val S} {s : Store M} (hs : StoreBelow s)
    (a : Agree s.nextRes L L') : ∀ f n, denoteF L s f n = denoteF L' s f n := by
  intro f
  induction f with
  | zero => intro n; rfl
  | succ f ih =>
    intro n
    simp only [denoteF]
    cases hn : s.nodes[n]? with
    | none => rfl
    | some nd =>
      cases nd with
      | leaf l => exact leaf_congr a (hs n l hn)
      | op i o m c =>
        simp only
        congr 2
        apply List.map_congr_left
        intro c _
        exact ih c

theorem denote_congr {L L' : Val S} {s : Store M} (hs : StoreBelow s)
    (a : Agree s.nextRes L L') (n : Nat) : denote L s n = denote L' s n :=
  denoteF_congr hs a _ n

theorem cacheOK_congr {L L' : Val S} {s : Store M} (hs : StoreBelow s)
    (a : Agree s.nextRes L L') (hc : CacheOK L s) : CacheOK L' s := by
  intro n i o m c hn
  rw [← denote_congr hs a, ← denote_congr hs a]
  exact hc hn

end MV.Csg

/-! ### executable checks for concrete stores -/
namespace MV.Csg
open SolidAlg XfAct

variable {M S : Type}

def Store.belowB (s : Store M) : Bool :=
  s.nodes.all (fun nd => match nd with
    | .leaf l => l.id.below s.nextRes
    | _ => true)

theorem storeBelow_of_check {s : Store M} (h : s.belowB = true) : StoreBelow s := by
  intro n l hn
  simp only [Store.belowB, List.all_eq_true] at h
  exact h _ (List.mem_of_getElem? hn)

def Store.noCacheB (s : Store M) : Bool :=
  s.nodes.all (fun nd => match nd with
    | .op _ _ _ (some _) => false
    | _ => true)

theorem cacheOK_of_noCache [One M] [Mul M] [SolidAlg S] [XfAct M S] (L : Val S) {s : Store M}
    (h : s.noCacheB = true) : CacheOK L s := by
  intro n i o m c hn
  simp only [Store.noCacheB, List.all_eq_true] at h
  have := h _ (List.mem_of_getElem? hn)
  simp at this

end MV.Csg
