import MV.Model.HalfedgeGate
import MV.Proof.Halfedge
/-!
C09b, part A: the in-place reordering loop of `ids` (impl.cpp:473-490) on ARBITRARY states:
no out-of-range access, termination within the fuel given by `reorder`, and its exact effect
(a cyclic shift of the not-removed entries between `i + numEdge` and `k`, which keeps `ids` a
permutation and keeps the removal status of every position except `i + numEdge`).
-/
namespace MV.Halfedge
open List

/-- removal status of POSITION `p` of `ids`: `removed[ids[p]]` -/
def remAt (removed : Array Bool) (ids : Array Nat) (p : Nat) : Bool :=
  removed.getD (ids.getD p 0) false

def remI (removed : Array Bool) (ids : Array Nat) (x : Int) : Bool := remAt removed ids x.toNat

/-- sizes and value range of the loop state -/
structure VR (N : Nat) (removed : Array Bool) (ids : Array Nat) : Prop where
  isz : ids.size = N
  rsz : removed.size = N
  val : ∀ p, p < N → ids.getD p 0 < N

theorem rd_int {α : Type} {x : Array α} {k : Int} (d : α) (h0 : 0 ≤ k) (h1 : k < x.size) :
    rd x k = .ok (x.getD k.toNat d) := by
  obtain ⟨p, rfl⟩ := Int.eq_ofNat_of_zero_le h0
  have hp : p < x.size := by omega
  rw [rd_ok (getElem?_eq_some_getD d hp)]; simp

theorem wr_int {α : Type} {x : Array α} {k : Int} (v : α) (h0 : 0 ≤ k) (h1 : k < x.size) :
    wr x k v = .ok (x.setIfInBounds k.toNat v) := by
  obtain ⟨p, rfl⟩ := Int.eq_ofNat_of_zero_le h0
  rw [wr_ok (by omega)]; simp

theorem isRemoved_int {N : Nat} {removed : Array Bool} {ids : Array Nat} (v : VR N removed ids)
    {x : Int} (h0 : 0 ≤ x) (h1 : x < N) :
    isRemoved removed ids x = .ok (remI removed ids x) := by
  unfold isRemoved
  rw [rd_int 0 h0 (by rw [v.isz]; exact h1)]
  simp only [bind, Except.bind]
  have := v.val x.toNat (by omega)
  rw [rd_int false (by omega) (by rw [v.rsz]; omega)]
  simp [remI, remAt]

theorem getD_setIB (xs : Array Nat) (q p v : Nat) (hq : q < xs.size) :
    (xs.setIfInBounds q v).getD p 0 = if p = q then v else xs.getD p 0 := by
  simp only [Array.getD_eq_getD_getElem?, Array.getElem?_setIfInBounds]
  by_cases h : p = q
  · subst h; simp [hq]
  · have : ¬ q = p := fun h' => h h'.symm
    simp [h, this]

theorem count_setIB (xs : Array Nat) (q v x : Nat) (hq : q < xs.size) :
    count x (xs.setIfInBounds q v).toList + (if xs.getD q 0 = x then 1 else 0)
      = count x xs.toList + (if v = x then 1 else 0) := by
  rw [Array.toList_setIfInBounds, List.count_set (by simpa using hq)]
  have hget : xs.toList[q]'(by simpa using hq) = xs.getD q 0 := by
    simp [Array.getD_eq_getD_getElem?, hq]
  simp only [hget, beq_iff_eq]
  by_cases h : xs.getD q 0 = x
  · have hpos : 0 < count x xs.toList := by
      rw [List.count_pos_iff]; rw [← h, ← hget]; exact List.getElem_mem _
    simp only [h, if_true]; omega
  · simp only [h, if_false]; omega
theorem remAt_setIB (removed : Array Bool) (xs : Array Nat) (q p v : Nat) (hq : q < xs.size) :
    remAt removed (xs.setIfInBounds q v) p = if p = q then removed.getD v false else remAt removed xs p := by
  unfold remAt; rw [getD_setIB xs q p v hq]; split <;> rfl

/-- `x` lies strictly between `p` (the end nearer to `tgt`) and `q` (the end nearer to `k`) -/
def Btw (dir p q x : Int) : Prop := (dir = 1 ∧ p < x ∧ x < q) ∨ (dir = -1 ∧ q < x ∧ x < p)

section loops
variable {N : Nat} {removed : Array Bool} {tgt k dir : Int}

theorem inRangeA_iff (a : Int) (hd : dir = 1 ∨ dir = -1) :
    inRangeA tgt dir a = true ↔ ((dir = 1 ∧ tgt ≤ a) ∨ (dir = -1 ∧ a ≤ tgt)) := by
  unfold inRangeA
  rcases hd with rfl | rfl <;> simp

/-- the `do … while` over `a` (impl.cpp:481-483) -/
theorem stepA_spec {ids : Array Nat} (v : VR N removed ids) (hd : dir = 1 ∨ dir = -1)
    (ht0 : 0 < tgt) (htN : tgt < N) :
    ∀ (f : Nat) (a : Int), 0 ≤ a → a < N → (dir = 1 → tgt ≤ a) → (dir = -1 → a ≤ tgt) →
      (a - tgt).toNat + (tgt - a).toNat + 1 ≤ f →
      ∃ a', stepA removed tgt dir ids f a = .ok a' ∧
        (dir = 1 → tgt - 1 ≤ a' ∧ a' < a) ∧ (dir = -1 → a < a' ∧ a' ≤ tgt + 1) ∧
        (∀ x, Btw dir a' a x → remI removed ids x = true) ∧
        (inRangeA tgt dir a' = true → remI removed ids a' = false) := by
  intro f
  induction f with
  | zero => intro a _ _ _ _ hf; omega
  | succ f ih =>
    intro a ha0 haN h1 h2 hf
    rw [stepA]
    by_cases hin : inRangeA tgt dir (a - dir) = true
    · have hin' := (inRangeA_iff (a - dir) hd).1 hin
      have hb : 0 ≤ a - dir ∧ a - dir < N := by
        rcases hd with rfl | rfl <;> omega
      simp only [hin, if_true, isRemoved_int v hb.1 hb.2, bind, Except.bind]
      cases hr : remI removed ids (a - dir)
      · refine ⟨a - dir, by simp [pure, Except.pure], ?_, ?_, ?_, fun _ => hr⟩
        · intro h; subst h; omega
        · intro h; subst h; omega
        · intro x hx; unfold Btw at hx; omega
      · simp only [if_true]
        obtain ⟨a', he, r1, r2, r3, r4⟩ := ih (a - dir) hb.1 hb.2
          (by intro h; subst h; omega) (by intro h; subst h; omega)
          (by rcases hd with rfl | rfl <;> omega)
        refine ⟨a', he, ?_, ?_, ?_, r4⟩
        · intro h; have := r1 h; subst h; omega
        · intro h; have := r2 h; subst h; omega
        · intro x hx
          by_cases hxa : x = a - dir
          · rw [hxa]; exact hr
          · apply r3; unfold Btw at hx ⊢; omega
    · have hin' : ¬ ((dir = 1 ∧ tgt ≤ a - dir) ∨ (dir = -1 ∧ a - dir ≤ tgt)) :=
        fun h => hin ((inRangeA_iff (a - dir) hd).2 h)
      simp only [hin, Bool.false_eq_true, if_false]
      refine ⟨a - dir, rfl, ?_, ?_, ?_, fun h => absurd h hin⟩
      · intro h; subst h; omega
      · intro h; subst h; omega
      · intro x hx; unfold Btw at hx; omega

/-- the `do … while` over `b` (impl.cpp:485-487): under the loop invariant it stops exactly at
the previous `a` -/
theorem stepB_spec {ids : Array Nat} (v : VR N removed ids) (hd : dir = 1 ∨ dir = -1)
    {a : Int} (ha0 : 0 ≤ a) (haN : a < N) (hstop : a = k ∨ remI removed ids a = false) :
    ∀ (f : Nat) (b : Int), (dir = 1 → a < b ∧ b ≤ N) → (dir = -1 → b < a ∧ -1 ≤ b) →
      (∀ x, Btw dir a b x → remI removed ids x = true ∧ x ≠ k) →
      (b - a).toNat + (a - b).toNat ≤ f →
      stepB removed k dir ids f b = .ok a := by
  intro f
  induction f with
  | zero => intro b h1 h2 _ hf; rcases hd with rfl | rfl <;> omega
  | succ f ih =>
    intro b h1 h2 hJ hf
    rw [stepB]
    have hb : 0 ≤ b - dir ∧ b - dir < N := by
      rcases hd with rfl | rfl
      · have := h1 rfl; omega
      · have := h2 rfl; omega
    simp only [isRemoved_int v hb.1 hb.2, bind, Except.bind]
    by_cases hba : b - dir = a
    · rw [hba]
      rcases hstop with hk | hr
      · simp [hk, pure, Except.pure]
      · simp [hr, pure, Except.pure]
    · have hbt : Btw dir a b (b - dir) := by
        unfold Btw
        rcases hd with rfl | rfl
        · have := h1 rfl; omega
        · have := h2 rfl; omega
      obtain ⟨hr, hk⟩ := hJ _ hbt
      have hk' : (b - dir != k) = true := by simpa using hk
      simp only [hr, hk', Bool.and_self, if_true]
      apply ih
      · intro h; subst h; have := h1 rfl; omega
      · intro h; subst h; have := h2 rfl; omega
      · intro x hx; apply hJ; unfold Btw at hx ⊢; omega
      · rcases hd with rfl | rfl
        · have := h1 rfl; omega
        · have := h2 rfl; omega

/-- invariant of the outer `while (1)` (impl.cpp:480-489).  `ids₀` is `ids` at entry, `pair1` the
value at position `k` at entry. -/
structure OQ (N : Nat) (removed : Array Bool) (tgt k dir : Int) (ids₀ : Array Nat) (pair1 : Nat)
    (a b : Int) (ids : Array Nat) : Prop where
  vr : VR N removed ids
  ord1 : dir = 1 → tgt ≤ a ∧ a < b ∧ b ≤ k + 1 ∧ a ≤ k
  ord2 : dir = -1 → a ≤ tgt ∧ b < a ∧ k - 1 ≤ b ∧ k ≤ a
  bk : b = k + dir → a = k
  J : ∀ x, Btw dir a b x → remI removed ids x = true
  A : a = k ∨ remI removed ids a = false
  cnt : ∀ x, count x ids.toList + (if pair1 = x then 1 else 0)
      = count x ids₀.toList + (if ids.getD a.toNat 0 = x then 1 else 0)
  K2 : ∀ p : Nat, p < N → (p : Int) ≠ k → remAt removed ids p = remAt removed ids₀ p
  K3 : a ≠ k → remI removed ids k = false

theorem outer_spec {ids₀ : Array Nat} {pair1 : Nat} (hd : dir = 1 ∨ dir = -1)
    (ht0 : 0 < tgt) (htN : tgt < N) (hk0 : 0 ≤ k) (hkN : k < N)
    (hk1 : dir = 1 → tgt < k) (hk2 : dir = -1 → k < tgt)
    (hT : remI removed ids₀ tgt = false) (fuelIn : Nat) (hfi : N + 2 ≤ fuelIn) :
    ∀ (f : Nat) (a b : Int) (ids : Array Nat), OQ N removed tgt k dir ids₀ pair1 a b ids →
      (a - tgt).toNat + (tgt - a).toNat + 1 ≤ f →
      ∃ idsf, outer removed tgt k dir fuelIn f a b ids = .ok idsf ∧ VR N removed idsf ∧
        (∀ x, count x idsf.toList + (if pair1 = x then 1 else 0)
          = count x ids₀.toList + (if idsf.getD tgt.toNat 0 = x then 1 else 0)) ∧
        (∀ p : Nat, p < N → (p : Int) ≠ k → remAt removed idsf p = remAt removed ids₀ p) ∧
        remI removed idsf k = false := by
  intro f
  induction f with
  | zero => intro a b ids _ hf; omega
  | succ f ih =>
    intro a b ids q hf
    have ha : 0 ≤ a ∧ a < N := by
      rcases hd with rfl | rfl
      · have := q.ord1 rfl; omega
      · have := q.ord2 rfl; omega
    obtain ⟨a', hA, r1, r2, r3, r4⟩ := stepA_spec q.vr hd ht0 htN fuelIn a ha.1 ha.2
      (fun h => (q.ord1 h).1) (fun h => (q.ord2 h).1) (by omega)
    rw [outer]
    simp only [hA, bind, Except.bind]
    by_cases hin : inRangeA tgt dir a' = true
    · have hin' := (inRangeA_iff a' hd).1 hin
      have hra := r4 hin
      have ha' : 0 ≤ a' ∧ a' < N ∧ a' ≠ a := by
        rcases hd with rfl | rfl
        · have := r1 rfl; omega
        · have := r2 rfl; omega
      have hB := stepB_spec (k := k) q.vr hd ha.1 ha.2 q.A fuelIn b
        (fun h => by have := q.ord1 h; omega) (fun h => by have := q.ord2 h; omega)
        (fun x hx => ⟨q.J x hx, by
          intro hxk
          unfold Btw at hx
          have hbk := q.bk
          rcases hd with rfl | rfl
          · have := q.ord1 rfl; omega
          · have := q.ord2 rfl; omega⟩)
        (by rcases hd with rfl | rfl
            · have := q.ord1 rfl; omega
            · have := q.ord2 rfl; omega)
      have hasz : a.toNat < ids.size := by rw [q.vr.isz]; omega
      simp only [hin, Bool.not_true, Bool.false_eq_true, if_false, hB,
        rd_int 0 ha'.1 (show a' < ids.size by rw [q.vr.isz]; exact ha'.2.1),
        wr_int (ids.getD a'.toNat 0) ha.1 (show a < ids.size by rw [q.vr.isz]; exact ha.2)]
      have hne : a'.toNat ≠ a.toNat := by omega
      apply ih
      · refine
          { vr := ⟨by simp [q.vr.isz], q.vr.rsz, ?_⟩, ord1 := ?_, ord2 := ?_, bk := ?_, J := ?_, A := ?_,
            cnt := ?_, K2 := ?_, K3 := ?_ }
        · intro p hp
          rw [getD_setIB _ _ _ _ hasz]
          split
          · exact q.vr.val _ (by omega)
          · exact q.vr.val p hp
        · intro h; have := q.ord1 h; have := r1 h; subst h
          rcases hin' with h' | h' <;> omega
        · intro h; have := q.ord2 h; have := r2 h; subst h
          rcases hin' with h' | h' <;> omega
        · intro h
          rcases hd with rfl | rfl
          · have := q.ord1 rfl; omega
          · have := q.ord2 rfl; omega
        · intro x hx
          have hxa : x.toNat ≠ a.toNat := by
            unfold Btw at hx
            rcases hd with rfl | rfl
            · have := r1 rfl; omega
            · have := r2 rfl; omega
          have := r3 x hx
          unfold remI at this ⊢
          rw [remAt_setIB _ _ _ _ _ hasz, if_neg hxa]; exact this
        · right
          unfold remI at hra ⊢
          rw [remAt_setIB _ _ _ _ _ hasz, if_neg hne]; exact hra
        · intro x
          have h1 := count_setIB ids a.toNat (ids.getD a'.toNat 0) x hasz
          have h2 := q.cnt x
          rw [getD_setIB _ _ _ _ hasz, if_neg hne]
          omega
        · intro p hp hpk
          rw [remAt_setIB _ _ _ _ _ hasz]
          split
          · rename_i hpa
            have hak : a ≠ k := by intro h; apply hpk; rw [← h]; omega
            rw [← q.K2 p hp hpk]
            have hA' := q.A.resolve_left hak
            unfold remI remAt at hA' hra
            unfold remAt
            rw [hpa, hA']; exact hra
          · exact q.K2 p hp hpk
        · intro _
          unfold remI
          rw [remAt_setIB _ _ _ _ _ hasz]
          split
          · unfold remI remAt at hra; exact hra
          · rename_i hka
            have hak : a ≠ k := by intro h; apply hka; rw [h]
            exact q.K3 hak
      · rcases hd with rfl | rfl
        · have := r1 rfl; rcases hin' with h' | h' <;> omega
        · have := r2 rfl; rcases hin' with h' | h' <;> omega
    · have hin' : ¬ ((dir = 1 ∧ tgt ≤ a') ∨ (dir = -1 ∧ a' ≤ tgt)) :=
        fun h => hin ((inRangeA_iff a' hd).2 h)
      have hTi : remI removed ids tgt = false := by
        have htk : ((tgt.toNat : Nat) : Int) ≠ k := by
          rcases hd with rfl | rfl
          · have := hk1 rfl; omega
          · have := hk2 rfl; omega
        unfold remI at hT ⊢
        rw [q.K2 tgt.toNat (by omega) htk]; exact hT
      have hat : a = tgt := by
        apply Classical.byContradiction
        intro hne
        have hb : Btw dir a' a tgt := by
          unfold Btw
          rcases hd with rfl | rfl
          · have := q.ord1 rfl; have := r1 rfl; omega
          · have := q.ord2 rfl; have := r2 rfl; omega
        have := r3 tgt hb
        rw [hTi] at this; cases this
      have hbn : (!inRangeA tgt dir a') = true := by simpa using hin
      simp only [hbn, if_true, pure, Except.pure]
      refine ⟨ids, rfl, q.vr, ?_, q.K2, ?_⟩
      · intro x; have := q.cnt x; rw [hat] at this; exact this
      · apply q.K3
        rcases hd with rfl | rfl
        · have := hk1 rfl; omega
        · have := hk2 rfl; omega
end loops
end MV.Halfedge
