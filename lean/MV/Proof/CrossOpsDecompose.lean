import MV.Proof.CrossOpsField
/-!
`DecomposeByContainment` (boolean2_offset.cpp:364-432): the combinatorial part.

`decomposeIdx parent isNeg isPos n` is the model of the seeding loop and the hole loop.  Everything
geometric (areas, the containment tests, hence `parent`, `isNeg`, `isPos`) is an arbitrary function
argument here, so the theorems of the first section hold for every outcome of the floating-point
tests.  The only hypothesis that is ever needed is `ParentInRange` (`parent[i]` is `-1` or an index
`< n`), and only for the statements that say a hole with a positive ancestor IS placed: without it
`compOf[p]` would be an out-of-bounds read in the C++.  It is proved for the `parent` the code
computes (`parentOf_lt`, `dParent_lt`).
-/
namespace MV.CrossOps

/-! ## the index model, arbitrary `parent` / sign tests -/

section Idx
variable (parent : Nat → Option Nat) (isNeg isPos : Nat → Bool) (n : Nat)

/-- the holes pushed into the component seeded by `p`, in the order they are pushed -/
def holesOf (p : Nat) : List Nat :=
  (List.range n).filter fun i => !isPos i && holeTarget parent isNeg isPos n i == some p

theorem decomposeIdx_eq : decomposeIdx parent isNeg isPos n =
    ((List.range n).filter isPos).map fun p => p :: holesOf parent isNeg isPos n p := rfl

theorem mem_holesOf {p i : Nat} : i ∈ holesOf parent isNeg isPos n p ↔
    i < n ∧ isPos i = false ∧ holeTarget parent isNeg isPos n i = some p := by
  simp [holesOf]

/-- `parent[i]` is `-1` or a ring index -/
def ParentInRange : Prop := ∀ i, i < n → ∀ q, parent i = some q → q < n

/-- `k`-th ancestor: follow `parent` `k` times -/
def anc : Nat → Option Nat → Option Nat
  | 0, p => p
  | k + 1, p => anc k (p.bind parent)

/-- the walk returns either nothing or the ring `q` reached from the start by following `parent`
`k ≤ fuel` times, through negative rings only (every ring strictly before `q` on the chain is
negative); `q` itself is not negative unless the hop budget ran out exactly there (`k = fuel`). -/
theorem walkUp_spec (fuel : Nat) (p : Option Nat) (q : Nat)
    (h : walkUp parent isNeg fuel p = some q) :
    ∃ k, k ≤ fuel ∧ anc parent k p = some q ∧
      (∀ j, j < k → ∃ r, anc parent j p = some r ∧ isNeg r = true) ∧
      (isNeg q = false ∨ k = fuel) := by
  induction fuel generalizing p with
  | zero =>
    refine ⟨0, Nat.le_refl _, ?_, ?_, Or.inr rfl⟩
    · simpa [walkUp, anc] using h
    · intro j hj; omega
  | succ fuel ih =>
    cases p with
    | none => simp [walkUp] at h
    | some r =>
      by_cases hr : isNeg r = true
      · simp only [walkUp, hr, if_true] at h
        obtain ⟨k, hk, hq, hneg, hlast⟩ := ih _ h
        refine ⟨k + 1, Nat.succ_le_succ hk, ?_, ?_, ?_⟩
        · simpa [anc] using hq
        · intro j hj
          cases j with
          | zero => exact ⟨r, rfl, hr⟩
          | succ j => simpa [anc] using hneg j (by omega)
        · rcases hlast with h1 | h1
          · exact Or.inl h1
          · exact Or.inr (by omega)
      · simp only [walkUp, hr] at h
        have hq : r = q := by simpa using h
        subst hq
        refine ⟨0, Nat.zero_le _, rfl, ?_, Or.inl (by simpa using hr)⟩
        intro j hj; omega

/-- the weak form: the result is not negative, or the hop budget was used up -/
theorem walkUp_not_neg (fuel : Nat) (p : Option Nat) (q : Nat)
    (h : walkUp parent isNeg fuel p = some q) :
    isNeg q = false ∨ ∃ k, k = fuel ∧ anc parent k p = some q := by
  obtain ⟨k, _, hq, _, hlast⟩ := walkUp_spec parent isNeg fuel p q h
  rcases hlast with h1 | h1
  · exact Or.inl h1
  · exact Or.inr ⟨k, h1, hq⟩

/-- completeness: if the first non-negative ancestor is reached within the hop budget, the walk
returns it -/
theorem walkUp_complete (fuel k : Nat) (p : Option Nat) (q : Nat) (hk : k < fuel)
    (hq : anc parent k p = some q)
    (hneg : ∀ j, j < k → ∃ r, anc parent j p = some r ∧ isNeg r = true)
    (hnn : isNeg q = false) : walkUp parent isNeg fuel p = some q := by
  induction fuel generalizing p k with
  | zero => omega
  | succ fuel ih =>
    cases k with
    | zero =>
      have : p = some q := by simpa [anc] using hq
      subst this
      simp [walkUp, hnn]
    | succ k =>
      obtain ⟨r, hr0, hr⟩ := hneg 0 (Nat.succ_pos _)
      have : p = some r := by simpa [anc] using hr0
      subst this
      simp only [walkUp, hr, if_true]
      refine ih k (parent r) (by omega) (by simpa [anc] using hq) ?_
      intro j hj
      simpa [anc] using hneg (j + 1) (by omega)

/-- the walk ends at nothing only if the chain of negative ancestors ends at a root -/
theorem walkUp_none (fuel : Nat) (p : Option Nat) (h : walkUp parent isNeg fuel p = none) :
    ∃ k, k ≤ fuel ∧ anc parent k p = none ∧
      (∀ j, j < k → ∃ r, anc parent j p = some r ∧ isNeg r = true) := by
  induction fuel generalizing p with
  | zero =>
    refine ⟨0, Nat.le_refl _, by simpa [walkUp, anc] using h, ?_⟩
    intro j hj; omega
  | succ fuel ih =>
    cases p with
    | none => exact ⟨0, Nat.zero_le _, rfl, fun j hj => by omega⟩
    | some r =>
      by_cases hr : isNeg r = true
      · simp only [walkUp, hr, if_true] at h
        obtain ⟨k, hk, hq, hneg⟩ := ih _ h
        refine ⟨k + 1, Nat.succ_le_succ hk, by simpa [anc] using hq, ?_⟩
        intro j hj
        cases j with
        | zero => exact ⟨r, rfl, hr⟩
        | succ j => simpa [anc] using hneg j (by omega)
      · simp [walkUp, hr] at h

theorem walkUp_lt (hpar : ParentInRange parent n) (fuel : Nat) (p : Option Nat) (q : Nat)
    (hp : ∀ r, p = some r → r < n) (h : walkUp parent isNeg fuel p = some q) : q < n := by
  induction fuel generalizing p with
  | zero => exact hp q (by simpa [walkUp] using h)
  | succ fuel ih =>
    cases p with
    | none => simp [walkUp] at h
    | some r =>
      have hr := hp r rfl
      by_cases hneg : isNeg r = true
      · simp only [walkUp, hneg, if_true] at h
        exact ih (parent r) (fun s hs => hpar r hr s hs) h
      · simp only [walkUp, hneg] at h
        have : r = q := by simpa using h
        exact this ▸ hr

theorem holeTarget_eq_some {i p : Nat} : holeTarget parent isNeg isPos n i = some p ↔
    walkUp parent isNeg (n + 1) (parent i) = some p ∧ isPos p = true := by
  unfold holeTarget
  cases h : walkUp parent isNeg (n + 1) (parent i) with
  | none => simp
  | some q =>
    by_cases hq : isPos q = true
    · simp only [hq, if_true, Option.some.injEq]
      constructor
      · rintro rfl; exact ⟨rfl, hq⟩
      · exact fun h => h.1
    · simp only [hq, Option.some.injEq]
      constructor
      · intro h; cases h
      · rintro ⟨rfl, h2⟩; exact absurd h2 hq

/-- a hole's target is a positive ring reached from `parent[i]` through negative rings only -/
theorem holeTarget_spec {i p : Nat} (h : holeTarget parent isNeg isPos n i = some p) :
    isPos p = true ∧ ∃ k, k ≤ n + 1 ∧ anc parent k (parent i) = some p ∧
      ∀ j, j < k → ∃ r, anc parent j (parent i) = some r ∧ isNeg r = true := by
  obtain ⟨hw, hp⟩ := (holeTarget_eq_some parent isNeg isPos n).1 h
  obtain ⟨k, hk, hq, hneg, _⟩ := walkUp_spec parent isNeg _ _ _ hw
  exact ⟨hp, k, hk, hq, hneg⟩

theorem holeTarget_lt (hpar : ParentInRange parent n) {i p : Nat} (hi : i < n)
    (h : holeTarget parent isNeg isPos n i = some p) : p < n :=
  walkUp_lt parent isNeg n hpar _ _ _ (fun r hr => hpar i hi r hr)
    ((holeTarget_eq_some parent isNeg isPos n).1 h).1

/-- every positive ring seeds exactly one component, in increasing order, and is its first ring -/
theorem decompose_heads : (decomposeIdx parent isNeg isPos n).map List.head? =
    ((List.range n).filter isPos).map some := by
  simp [decomposeIdx, List.map_map, Function.comp_def]

theorem decompose_length :
    (decomposeIdx parent isNeg isPos n).length = ((List.range n).filter isPos).length := by
  simp [decomposeIdx]

/-- the rings after the first of a component are non-positive rings (holes) whose walk ended at that
component's seed -/
theorem decompose_tails : ∀ c ∈ decomposeIdx parent isNeg isPos n, ∀ p, c.head? = some p →
    ∀ i ∈ c.tail, i < n ∧ isPos i = false ∧ holeTarget parent isNeg isPos n i = some p := by
  intro c hc p hp i hi
  rw [decomposeIdx_eq, List.mem_map] at hc
  obtain ⟨q, _, rfl⟩ := hc
  have : q = p := by simpa using hp
  subst this
  exact (mem_holesOf parent isNeg isPos n).1 hi

/-- … and they are pushed in increasing order of ring index -/
theorem decompose_tails_sorted : ∀ c ∈ decomposeIdx parent isNeg isPos n,
    c.tail.Pairwise (· < ·) := by
  intro c hc
  rw [decomposeIdx_eq, List.mem_map] at hc
  obtain ⟨q, _, rfl⟩ := hc
  exact List.Pairwise.filter _ List.pairwise_lt_range

/-- no ring index occurs twice over all components: every positive ring is in exactly one component
and every hole in at most one -/
theorem decompose_nodup : (decomposeIdx parent isNeg isPos n).flatten.Nodup := by
  rw [List.nodup_flatten]
  constructor
  · intro c hc
    rw [decomposeIdx_eq, List.mem_map] at hc
    obtain ⟨p, hp, rfl⟩ := hc
    rw [List.nodup_cons]
    refine ⟨?_, List.nodup_range.filter _⟩
    intro h
    have h1 := ((mem_holesOf parent isNeg isPos n).1 h).2.1
    have h2 : isPos p = true := (List.mem_filter.1 hp).2
    rw [h1] at h2; cases h2
  · rw [decomposeIdx_eq, List.pairwise_map]
    have hnd : ((List.range n).filter isPos).Pairwise (· ≠ ·) := List.nodup_range.filter _
    refine List.Pairwise.imp_of_mem ?_ hnd
    intro p q hp hq hpq a ha hb
    have hpp : isPos p = true := (List.mem_filter.1 hp).2
    have hqp : isPos q = true := (List.mem_filter.1 hq).2
    rcases List.mem_cons.1 ha with rfl | ha
    · rcases List.mem_cons.1 hb with rfl | hb
      · exact hpq rfl
      · have := ((mem_holesOf parent isNeg isPos n).1 hb).2.1
        rw [this] at hpp; cases hpp
    · have ha' := (mem_holesOf parent isNeg isPos n).1 ha
      rcases List.mem_cons.1 hb with rfl | hb
      · rw [ha'.2.1] at hqp; cases hqp
      · have hb' := (mem_holesOf parent isNeg isPos n).1 hb
        have : some p = some q := ha'.2.2.symm.trans hb'.2.2
        exact hpq (by simpa using this)

/-- which rings appear at all, for EVERY `parent`: the positive ones and the holes whose walk ended
at a positive ring index below `n` -/
theorem decompose_mem' (i : Nat) : i ∈ (decomposeIdx parent isNeg isPos n).flatten ↔
    i < n ∧ (isPos i = true ∨ ∃ p, p < n ∧ holeTarget parent isNeg isPos n i = some p) := by
  rw [List.mem_flatten]
  constructor
  · rintro ⟨c, hc, hi⟩
    rw [decomposeIdx_eq, List.mem_map] at hc
    obtain ⟨p, hp, rfl⟩ := hc
    obtain ⟨hpn, hpp⟩ := List.mem_filter.1 hp
    rcases List.mem_cons.1 hi with rfl | hi
    · exact ⟨List.mem_range.1 hpn, Or.inl hpp⟩
    · have := (mem_holesOf parent isNeg isPos n).1 hi
      exact ⟨this.1, Or.inr ⟨p, List.mem_range.1 hpn, this.2.2⟩⟩
  · rintro ⟨hi, h⟩
    by_cases hpos : isPos i = true
    · refine ⟨i :: holesOf parent isNeg isPos n i, ?_, List.mem_cons_self⟩
      rw [decomposeIdx_eq, List.mem_map]
      exact ⟨i, List.mem_filter.2 ⟨List.mem_range.2 hi, hpos⟩, rfl⟩
    · rcases h with h | ⟨p, hp, ht⟩
      · exact absurd h hpos
      · refine ⟨p :: holesOf parent isNeg isPos n p, ?_, List.mem_cons_of_mem _ ?_⟩
        · rw [decomposeIdx_eq, List.mem_map]
          exact ⟨p, List.mem_filter.2 ⟨List.mem_range.2 hp,
            ((holeTarget_eq_some parent isNeg isPos n).1 ht).2⟩, rfl⟩
        · exact (mem_holesOf parent isNeg isPos n).2 ⟨hi, by simpa using hpos, ht⟩

/-- which rings appear at all: the positive ones and the holes that found a positive ancestor -/
theorem decompose_mem (hpar : ParentInRange parent n) (i : Nat) :
    i ∈ (decomposeIdx parent isNeg isPos n).flatten ↔
    i < n ∧ (isPos i = true ∨ (holeTarget parent isNeg isPos n i).isSome = true) := by
  rw [decompose_mem']
  constructor
  · rintro ⟨hi, h | ⟨p, _, hp⟩⟩
    · exact ⟨hi, Or.inl h⟩
    · exact ⟨hi, Or.inr (by simp [hp])⟩
  · rintro ⟨hi, h | h⟩
    · exact ⟨hi, Or.inl h⟩
    · obtain ⟨p, hp⟩ := Option.isSome_iff_exists.1 h
      exact ⟨hi, Or.inr ⟨p, holeTarget_lt parent isNeg isPos n hpar hi hp, hp⟩⟩

theorem decompose_mem_lt {i : Nat} (h : i ∈ (decomposeIdx parent isNeg isPos n).flatten) : i < n :=
  ((decompose_mem' parent isNeg isPos n i).1 h).1

/-- multiset of rings preserved: if no hole is orphaned, the components are a partition of all rings -/
theorem decompose_perm (hpar : ParentInRange parent n)
    (hall : ∀ i, i < n → isPos i = false → (holeTarget parent isNeg isPos n i).isSome = true) :
    (decomposeIdx parent isNeg isPos n).flatten.Perm (List.range n) := by
  refine (List.perm_ext_iff_of_nodup (decompose_nodup parent isNeg isPos n) List.nodup_range).2 ?_
  intro i
  rw [decompose_mem parent isNeg isPos n hpar, List.mem_range]
  constructor
  · exact fun h => h.1
  · intro hi
    refine ⟨hi, ?_⟩
    by_cases hpos : isPos i = true
    · exact Or.inl hpos
    · exact Or.inr (hall i hi (by simpa using hpos))

/-- in general the placed rings are a sublist-up-to-order of all rings: nothing is invented -/
theorem decompose_subperm :
    (decomposeIdx parent isNeg isPos n).flatten.Subperm (List.range n) := by
  refine (List.subperm_of_subset (decompose_nodup parent isNeg isPos n) ?_)
  intro i hi
  exact List.mem_range.2 (decompose_mem_lt parent isNeg isPos n hi)

/-- areas add up: for any additive weight `area`, the sum over components of the component sums is
the sum over all placed rings -/
theorem decompose_area_sum {M : Type} [AddCommMonoid M] (area : Nat → M) :
    ((decomposeIdx parent isNeg isPos n).map fun c => (c.map area).sum).sum =
    ((decomposeIdx parent isNeg isPos n).flatten.map area).sum := by
  generalize decomposeIdx parent isNeg isPos n = comps
  induction comps with
  | nil => simp
  | cons c cs ih => simp [List.sum_append, ih]

/-- … and equals the sum over ALL rings when no hole is orphaned -/
theorem decompose_area_total {M : Type} [AddCommMonoid M] (area : Nat → M)
    (hpar : ParentInRange parent n)
    (hall : ∀ i, i < n → isPos i = false → (holeTarget parent isNeg isPos n i).isSome = true) :
    ((decomposeIdx parent isNeg isPos n).map fun c => (c.map area).sum).sum =
    ((List.range n).map area).sum := by
  rw [decompose_area_sum]
  exact ((decompose_perm parent isNeg isPos n hpar hall).map area).sum_eq

end Idx

/-! ### non-vacuity: a concrete run (ring 0 positive; 1 a hole in 0; 2 a negative ring inside 1;
3 positive; 4 an orphan hole) -/

section Examples

private def exParent : Nat → Option Nat := fun i => [none, some 0, some 1, none, none].getD i none
private def exNeg : Nat → Bool := fun i => [false, true, true, false, true].getD i false
private def exPos : Nat → Bool := fun i => [true, false, false, true, false].getD i false

example : decomposeIdx exParent exNeg exPos 5 = [[0, 1, 2], [3]] := by decide
example : holeTarget exParent exNeg exPos 5 2 = some 0 := by decide
example : holeTarget exParent exNeg exPos 5 4 = none := by decide
example : ParentInRange exParent 5 := by
  intro i hi q; revert q; revert i; decide
/-- the hypothesis of `decompose_perm` on the first four rings -/
example : ∀ i, i < 4 → exPos i = false → (holeTarget exParent exNeg exPos 4 i).isSome = true := by
  decide
example : ParentInRange exParent 4 := by
  intro i hi q; revert q; revert i; decide
example : (decomposeIdx exParent exNeg exPos 4).flatten.Perm (List.range 4) :=
  decompose_perm _ _ _ _ (by intro i hi q; revert q; revert i; decide) (by decide)
example : walkUp exParent exNeg 6 (some 2) = some 0 := by decide
/-- `ParentInRange` cannot be dropped from `decompose_mem`/`decompose_perm` -/
example : (decomposeIdx (fun _ => some 7) (fun _ => false) (fun i => decide (i = 7)) 1).flatten = [] ∧
    (holeTarget (fun _ => some 7) (fun _ => false) (fun i => decide (i = 7)) 1 0).isSome = true := by
  decide
/-- the weak `isNeg q = false ∨ fuel = 0` is false: a chain of negatives longer than the budget -/
example : walkUp (fun i => some (i + 1)) (fun _ => true) 2 (some 0) = some 2 := by decide

end Examples

/-! ## `decompose` itself -/

section Generic
variable {α : Type} [Scalar α]

/-- `info[i]` of the kept rings -/
def dInfo (epsOf : α → α) (polys : List (List (V2 α))) (i : Nat) : RingInfo α :=
  ((polys.filter (keepRing epsOf)).map (summarize epsOf)).getD i
    ⟨Scalar.zero, Scalar.zero, Scalar.zero, Scalar.zero, Scalar.zero, Scalar.zero⟩

/-- `BoxInside(info[i], info[j]) && RingInside(rings[i], rings[j], info[j].eps)` -/
def dContains (epsOf : α → α) (polys : List (List (V2 α))) (i j : Nat) : Bool :=
  boxInside (dInfo epsOf polys i) (dInfo epsOf polys j) &&
    ringInside ((polys.filter (keepRing epsOf)).getD i []) ((polys.filter (keepRing epsOf)).getD j [])
      (dInfo epsOf polys j).eps

/-- `parent[i]` as the code computes it -/
def dParent (epsOf : α → α) (polys : List (List (V2 α))) (i : Nat) : Option Nat :=
  ((List.range (polys.filter (keepRing epsOf)).length).map
    (parentOf (dContains epsOf polys) (fun j => Scalar.abs (dInfo epsOf polys j).area)
      (polys.filter (keepRing epsOf)).length)).getD i none

/-- `info[i].area < 0` / `info[i].area > 0` -/
def dNeg (epsOf : α → α) (polys : List (List (V2 α))) (i : Nat) : Bool :=
  Scalar.lt (dInfo epsOf polys i).area Scalar.zero
def dPos (epsOf : α → α) (polys : List (List (V2 α))) (i : Nat) : Bool :=
  Scalar.lt Scalar.zero (dInfo epsOf polys i).area

/-- `decompose` is `decomposeIdx` at the `parent` and the sign tests the code computes (any scalar
type, `Float` included) -/
theorem decompose_components_spec (epsOf : α → α) (polys : List (List (V2 α))) :
    decompose epsOf polys = (polys.filter (keepRing epsOf),
      decomposeIdx (dParent epsOf polys) (dNeg epsOf polys) (dPos epsOf polys)
        (polys.filter (keepRing epsOf)).length) := rfl

theorem decompose_rings (epsOf : α → α) (polys : List (List (V2 α))) :
    (decompose epsOf polys).1 = polys.filter (keepRing epsOf) := rfl

/-- the inner loop only ever records a `j < n`, `j ≠ i`, that passed the containment tests -/
theorem parentOf_spec (contains : Nat → Nat → Bool) (absArea : Nat → α) (n i j : Nat)
    (h : parentOf contains absArea n i = some j) : j < n ∧ j ≠ i ∧ contains i j = true := by
  unfold parentOf at h
  have key : ∀ (l : List Nat) (st : Option α × Option Nat),
      (∀ j, j ∈ l → j < n) →
      (∀ j, st.2 = some j → j < n ∧ j ≠ i ∧ contains i j = true) →
      ∀ j, (l.foldl (fun (st : Option α × Option Nat) j =>
        if j = i then st
        else if !contains i j then st
        else
          let aj := absArea j
          let better := match st.1 with
            | none => Scalar.isFinite aj
            | some b => Scalar.lt aj b
          if better then (some aj, some j) else st) st).2 = some j →
        j < n ∧ j ≠ i ∧ contains i j = true := by
    intro l
    induction l with
    | nil => intro st _ hst j hj; exact hst j hj
    | cons a l ih =>
      intro st hl hst j hj
      rw [List.foldl_cons] at hj
      refine ih _ (fun j hj => hl j (List.mem_cons_of_mem _ hj)) ?_ j hj
      intro j' hj'
      by_cases h1 : a = i
      · rw [if_pos h1] at hj'; exact hst j' hj'
      · rw [if_neg h1] at hj'
        by_cases h2 : contains i a = true
        · simp only [h2, Bool.not_true, Bool.false_eq_true, if_false] at hj'
          have aux : ∀ b : Bool, (if b = true then ((some (absArea a), some a) : Option α × Option Nat)
              else st).2 = some j' → a = j' ∨ st.2 = some j' := by
            intro b hb
            cases b with
            | true => exact Or.inl (by simpa using hb)
            | false => exact Or.inr (by simpa using hb)
          rcases aux _ hj' with h3 | h3
          · subst h3
            exact ⟨hl a List.mem_cons_self, h1, h2⟩
          · exact hst j' h3
        · have h2' : contains i a = false := by simpa using h2
          simp only [h2', Bool.not_false, if_true] at hj'
          exact hst j' hj'
  exact key (List.range n) (none, none) (fun j hj => List.mem_range.1 hj)
    (fun j hj => by cases hj) j h

theorem dParent_eq (epsOf : α → α) (polys : List (List (V2 α))) (i : Nat)
    (hi : i < (polys.filter (keepRing epsOf)).length) :
    dParent epsOf polys i = parentOf (dContains epsOf polys)
      (fun j => Scalar.abs (dInfo epsOf polys j).area) (polys.filter (keepRing epsOf)).length i := by
  simp [dParent, List.getD_eq_getElem?_getD, List.getElem?_map, List.getElem?_range hi]

/-- `parent[i]` is `-1` or a ring index: no out-of-bounds `compOf[p]` -/
theorem dParent_lt (epsOf : α → α) (polys : List (List (V2 α))) :
    ParentInRange (dParent epsOf polys) (polys.filter (keepRing epsOf)).length := by
  intro i hi q hq
  rw [dParent_eq epsOf polys i hi] at hq
  exact (parentOf_spec _ _ _ _ _ hq).1

/-- the parent is a different ring that contains ring `i` (box and ring tests) -/
theorem dParent_spec (epsOf : α → α) (polys : List (List (V2 α))) (i q : Nat)
    (hi : i < (polys.filter (keepRing epsOf)).length) (hq : dParent epsOf polys i = some q) :
    q < (polys.filter (keepRing epsOf)).length ∧ q ≠ i ∧ dContains epsOf polys i q = true := by
  rw [dParent_eq epsOf polys i hi] at hq
  exact parentOf_spec _ _ _ _ _ hq

end Generic

/-! ## at the exact field instance -/

section Field
variable {F : Type} [Field F] [LinearOrder F]

/-- the two sign tests of `decompose` are exclusive … -/
theorem sign_tests_exclusive (a : F) : ¬ (Scalar.lt a 0 = true ∧ Scalar.lt 0 a = true) := by
  simp only [sc_lt, decide_eq_true_eq]
  exact fun h => lt_asymm h.1 h.2

/-- … and a ring of non-zero area passes one of them -/
theorem sign_tests_cover (a : F) (h : a ≠ 0) : Scalar.lt a 0 = true ∨ Scalar.lt 0 a = true := by
  simp only [sc_lt, decide_eq_true_eq]
  exact lt_or_gt_of_ne h

theorem dNeg_dPos_exclusive (epsOf : F → F) (polys : List (List (V2 F))) (i : Nat) :
    ¬ (dNeg epsOf polys i = true ∧ dPos epsOf polys i = true) :=
  sign_tests_exclusive _

/-- the target of a hole is positive, hence not negative: the walk did not stop for lack of hops -/
theorem holeTarget_not_neg (epsOf : F → F) (polys : List (List (V2 F))) (i p : Nat)
    (h : holeTarget (dParent epsOf polys) (dNeg epsOf polys) (dPos epsOf polys)
      (polys.filter (keepRing epsOf)).length i = some p) :
    dPos epsOf polys p = true ∧ dNeg epsOf polys p = false := by
  have hp := ((holeTarget_eq_some _ _ _ _).1 h).2
  refine ⟨hp, ?_⟩
  have := dNeg_dPos_exclusive epsOf polys p
  cases hn : dNeg epsOf polys p with
  | false => rfl
  | true => exact absurd ⟨hn, hp⟩ this

/-- `DecomposeByContainment` at exact arithmetic, for the `parent` computed by `parentOf`:
the components are seeded by the positive kept rings in increasing order; no kept ring is used
twice; exactly the positive rings and the holes with a positive ancestor are placed, all indices
are ring indices; weights (areas) add up; and when no hole is orphaned the components are a
partition of the kept rings and the total weight is preserved. -/
theorem decompose_partition (epsOf : F → F) (polys : List (List (V2 F))) :
    let rings := (decompose epsOf polys).1
    let comps := (decompose epsOf polys).2
    let n := rings.length
    let target := holeTarget (dParent epsOf polys) (dNeg epsOf polys) (dPos epsOf polys) n
    rings = polys.filter (keepRing epsOf) ∧
    comps.map List.head? = ((List.range n).filter (dPos epsOf polys)).map some ∧
    (∀ c ∈ comps, ∀ p, c.head? = some p → ∀ i ∈ c.tail,
      i < n ∧ dPos epsOf polys i = false ∧ target i = some p) ∧
    comps.flatten.Nodup ∧
    (∀ i, i ∈ comps.flatten ↔ i < n ∧ (dPos epsOf polys i = true ∨ (target i).isSome = true)) ∧
    (∀ {M : Type} [AddCommMonoid M] (area : Nat → M),
      (comps.map fun c => (c.map area).sum).sum = (comps.flatten.map area).sum) ∧
    ((∀ i, i < n → dPos epsOf polys i = false → (target i).isSome = true) →
      comps.flatten.Perm (List.range n) ∧
      ∀ {M : Type} [AddCommMonoid M] (area : Nat → M),
        (comps.map fun c => (c.map area).sum).sum = ((List.range n).map area).sum) := by
  intro rings comps n target
  have hpar := dParent_lt epsOf polys
  refine ⟨rfl, decompose_heads _ _ _ _, decompose_tails _ _ _ _, decompose_nodup _ _ _ _,
    decompose_mem _ _ _ _ hpar, fun area => decompose_area_sum _ _ _ _ area, ?_⟩
  intro hall
  exact ⟨decompose_perm _ _ _ _ hpar hall, fun area => decompose_area_total _ _ _ _ area hpar hall⟩

/-- the bounding box `Summarize` computes is not inverted -/
theorem summarize_box_le (epsOf : F → F) (ring : List (V2 F)) :
    (summarize epsOf ring).minx ≤ (summarize epsOf ring).maxx ∧
    (summarize epsOf ring).miny ≤ (summarize epsOf ring).maxy := by
  have key : ∀ (l : List (V2 F)) (b : F × F × F × F), b.1 ≤ b.2.2.1 ∧ b.2.1 ≤ b.2.2.2 →
      (l.foldl (fun (b : F × F × F × F) v =>
        (lmin b.1 v.x, lmin b.2.1 v.y, lmax b.2.2.1 v.x, lmax b.2.2.2 v.y)) b).1 ≤
      (l.foldl (fun (b : F × F × F × F) v =>
        (lmin b.1 v.x, lmin b.2.1 v.y, lmax b.2.2.1 v.x, lmax b.2.2.2 v.y)) b).2.2.1 ∧
      (l.foldl (fun (b : F × F × F × F) v =>
        (lmin b.1 v.x, lmin b.2.1 v.y, lmax b.2.2.1 v.x, lmax b.2.2.2 v.y)) b).2.1 ≤
      (l.foldl (fun (b : F × F × F × F) v =>
        (lmin b.1 v.x, lmin b.2.1 v.y, lmax b.2.2.1 v.x, lmax b.2.2.2 v.y)) b).2.2.2 := by
    intro l
    induction l with
    | nil => intro b hb; exact hb
    | cons v l ih =>
      intro b hb
      simp only [List.foldl_cons]
      apply ih
      simp only [lmin_eq, lmax_eq]
      exact ⟨le_trans (min_le_left _ _) (le_trans hb.1 (le_max_left _ _)),
        le_trans (min_le_left _ _) (le_trans hb.2 (le_max_left _ _))⟩
  exact key ring.tail _ ⟨le_refl _, le_refl _⟩

theorem dInfo_eq (epsOf : F → F) (polys : List (List (V2 F))) (i : Nat)
    (hi : i < (polys.filter (keepRing epsOf)).length) :
    dInfo epsOf polys i = summarize epsOf ((polys.filter (keepRing epsOf))[i]) := by
  simp [dInfo, List.getD_eq_getElem?_getD, hi]

variable [IsStrictOrderedRing F]

/-- a ring that survives the sliver filter has non-zero area (for a non-negative `eps`) -/
theorem keepRing_area_ne (epsOf : F → F) (heps : ∀ x, 0 ≤ epsOf x) (ring : List (V2 F))
    (h : keepRing epsOf ring = true) : (summarize epsOf ring).area ≠ 0 := by
  unfold keepRing at h
  split at h
  · cases h
  · simp only [sc_le, sc_abs, sc_sub, sc_mul, lmax_eq, Bool.not_eq_true', decide_eq_false_iff_not,
      not_le] at h
    intro h0
    rw [h0, abs_zero] at h
    have hb := summarize_box_le epsOf ring
    have h1 : 0 ≤ max ((summarize epsOf ring).maxx - (summarize epsOf ring).minx)
        ((summarize epsOf ring).maxy - (summarize epsOf ring).miny) :=
      le_max_of_le_left (sub_nonneg.2 hb.1)
    have h2 : 0 ≤ (summarize epsOf ring).eps := heps _
    exact absurd h (not_lt.2 (mul_nonneg h1 h2))

/-- every kept ring is negative or positive (never both: `dNeg_dPos_exclusive`), so
`dPos i = false` in `decompose_partition` means "ring `i` is a hole" -/
theorem decompose_kept_signed (epsOf : F → F) (heps : ∀ x, 0 ≤ epsOf x)
    (polys : List (List (V2 F))) (i : Nat) (hi : i < (polys.filter (keepRing epsOf)).length) :
    dNeg epsOf polys i = true ∨ dPos epsOf polys i = true := by
  unfold dNeg dPos
  rw [dInfo_eq epsOf polys i hi]
  apply sign_tests_cover
  apply keepRing_area_ne epsOf heps
  exact (List.mem_filter.1 (List.getElem_mem hi)).2

end Field

/-! ### non-vacuity at ℚ: a unit square with a square hole, `eps = 0` -/

section ExamplesQ

private def sqOuter : List (V2 ℚ) := [⟨0, 0⟩, ⟨4, 0⟩, ⟨4, 4⟩, ⟨0, 4⟩]
private def sqHole : List (V2 ℚ) := [⟨1, 1⟩, ⟨1, 2⟩, ⟨2, 2⟩, ⟨2, 1⟩]

example : keepRing (fun _ => (0 : ℚ)) sqOuter = true := by decide +kernel
example : (decompose (fun _ => (0 : ℚ)) [sqOuter, sqHole]).2 = [[0, 1]] := by decide +kernel
example : dParent (fun _ => (0 : ℚ)) [sqOuter, sqHole] 1 = some 0 := by decide +kernel
/-- the no-orphan hypothesis of the last part of `decompose_partition` holds here -/
example : ∀ i, i < 2 → dPos (fun _ => (0 : ℚ)) [sqOuter, sqHole] i = false →
    (holeTarget (dParent (fun _ => (0 : ℚ)) [sqOuter, sqHole]) (dNeg (fun _ => (0 : ℚ)) [sqOuter, sqHole])
      (dPos (fun _ => (0 : ℚ)) [sqOuter, sqHole]) 2 i).isSome = true := by decide +kernel
example : ¬ (Scalar.lt (-3 : ℚ) 0 = true ∧ Scalar.lt 0 (-3 : ℚ) = true) := sign_tests_exclusive _
example : Scalar.lt (-3 : ℚ) 0 = true ∨ Scalar.lt 0 (-3 : ℚ) = true :=
  sign_tests_cover _ (by decide)

end ExamplesQ

end MV.CrossOps
