import MV.Model.CrossOps
import MV.Proof.CrossOpsField
/-!
Convex hull (Andrew's monotone chain), part A: the lexicographic order on points at the exact
instance and the purely algebraic lemmas about `orient` the chain invariant needs.
-/
namespace MV.CrossOps
set_option linter.unusedSectionVars false

section
variable {F : Type} [Field F] [LinearOrder F]

/-- the lexicographic order `lexLe` decides -/
def lle (a b : V2 F) : Prop := a.x < b.x ∨ (a.x = b.x ∧ a.y ≤ b.y)

/-- point reflection -/
def vneg (a : V2 F) : V2 F := ⟨-a.x, -a.y⟩

theorem lexLe_iff (a b : V2 F) : lexLe a b = true ↔ lle a b := by
  simp only [lexLe, lexLess, sc_beq, sc_lt, lle]
  by_cases h : b.x = a.x
  · simp [h]
  · have h' : ¬ a.x = b.x := fun e => h e.symm
    simp only [h, h', decide_false, Bool.false_eq_true, if_false, Bool.not_eq_true',
      decide_eq_false_iff_not, not_lt, false_and, or_false]
    exact ⟨fun hle => lt_of_le_of_ne hle h', le_of_lt⟩

theorem lle_refl (a : V2 F) : lle a a := Or.inr ⟨rfl, le_refl _⟩

theorem lle_total (a b : V2 F) : lle a b ∨ lle b a := by
  unfold lle
  rcases lt_trichotomy a.x b.x with h | h | h
  · exact Or.inl (Or.inl h)
  · rcases le_total a.y b.y with hy | hy
    · exact Or.inl (Or.inr ⟨h, hy⟩)
    · exact Or.inr (Or.inr ⟨h.symm, hy⟩)
  · exact Or.inr (Or.inl h)

theorem lle_antisymm {a b : V2 F} (h1 : lle a b) (h2 : lle b a) : a = b := by
  unfold lle at h1 h2
  rcases h1 with h1 | ⟨h1, h1'⟩ <;> rcases h2 with h2 | ⟨h2, h2'⟩
  · exact absurd h1 (lt_asymm h2)
  · exact absurd h1 (by rw [h2]; exact lt_irrefl _)
  · exact absurd h2 (by rw [h1]; exact lt_irrefl _)
  · exact V2.ext' h1 (le_antisymm h1' h2')

theorem lle_trans {a b c : V2 F} (h1 : lle a b) (h2 : lle b c) : lle a c := by
  unfold lle at *
  rcases h1 with h1 | ⟨h1, h1'⟩ <;> rcases h2 with h2 | ⟨h2, h2'⟩
  · exact Or.inl (lt_trans h1 h2)
  · exact Or.inl (h2 ▸ h1)
  · exact Or.inl (h1 ▸ h2)
  · exact Or.inr ⟨h1.trans h2, le_trans h1' h2'⟩

theorem lle.x_le {a b : V2 F} (h : lle a b) : a.x ≤ b.x := by
  rcases h with h | ⟨h, _⟩
  · exact le_of_lt h
  · exact le_of_eq h

end

section
variable {F : Type} [Field F] [LinearOrder F] [IsStrictOrderedRing F]

theorem lle_vneg {a b : V2 F} : lle (vneg a) (vneg b) ↔ lle b a := by
  simp only [lle, vneg, neg_lt_neg_iff, neg_inj, neg_le_neg_iff]
  constructor
  · rintro (h | ⟨h, h'⟩)
    · exact Or.inl h
    · exact Or.inr ⟨h.symm, h'⟩
  · rintro (h | ⟨h, h'⟩)
    · exact Or.inl h
    · exact Or.inr ⟨h.symm, h'⟩

theorem orient_vneg (a b c : V2 F) : orient (vneg a) (vneg b) (vneg c) = orient a b c := by
  simp only [orient, vneg]; ring

theorem orient_self_left (a q : V2 F) : orient a a q = 0 := by simp [orient]
theorem orient_self_right (a b : V2 F) : orient a b b = 0 := by simp only [orient]; ring
theorem orient_self_mid (a b : V2 F) : orient a b a = 0 := by simp [orient]

/-- L1: points lex-before the stop vertex `t` see the new edge `(t, p)` -/
theorem orient_L1 {a t p q : V2 F} (hat : lle a t) (hqt : lle q t) (htp : lle t p)
    (h1 : 0 ≤ orient a t q) (h2 : 0 < orient a t p) : 0 ≤ orient t p q := by
  have hP := htp.x_le
  have hQ := hqt.x_le
  unfold orient at *
  rcases hat with hux | ⟨hux, huy⟩
  · have hux' : 0 < t.x - a.x := sub_pos.2 hux
    have key : 0 ≤ (t.x - a.x) * ((p.x - t.x) * (q.y - t.y) - (p.y - t.y) * (q.x - t.x)) := by
      have e1 := mul_nonneg (sub_nonneg.2 hP) h1
      have e2 := mul_nonneg (sub_nonneg.2 hQ) (le_of_lt h2)
      nlinarith [e1, e2]
    exact (mul_nonneg_iff_of_pos_left hux').1 key
  · exfalso
    have e := mul_nonneg (sub_nonneg.2 huy) (sub_nonneg.2 hP)
    rw [hux] at h2
    nlinarith [e]

/-- L2a: one pop, the point is at or after the popped vertex (purely linear) -/
theorem orient_L2a {a b p q : V2 F} (h1 : orient a b p ≤ 0) (h2 : 0 ≤ orient a b q)
    (h3 : 0 ≤ orient b p q) : 0 ≤ orient a p q := by
  unfold orient at *
  nlinarith [h1, h2, h3]

/-- L2b: one pop, the point is between the new top and the popped vertex -/
theorem orient_L2b {a b p q : V2 F} (haq : lle a q) (hqb : lle q b) (hbp : lle b p)
    (h1 : orient a b p ≤ 0) (h2 : 0 ≤ orient a b q) : 0 ≤ orient a p q := by
  have hab : lle a b := lle_trans haq hqb
  have hP := hbp.x_le
  have hQ := haq.x_le
  unfold orient at *
  rcases hab with hbx | ⟨hbx, hby⟩
  · have hbx' : 0 < b.x - a.x := sub_pos.2 hbx
    have key : 0 ≤ (b.x - a.x) * ((p.x - a.x) * (q.y - a.y) - (p.y - a.y) * (q.x - a.x)) := by
      have e1 := mul_nonneg (sub_nonneg.2 (le_trans (le_of_lt hbx) hP)) h2
      have e2 := mul_nonneg (sub_nonneg.2 hQ) (neg_nonneg.2 h1)
      nlinarith [e1, e2]
    exact (mul_nonneg_iff_of_pos_left hbx').1 key
  · -- b.x = a.x, hence q.x = a.x
    have hqx : q.x = a.x := le_antisymm (hbx ▸ hqb.x_le) hQ
    have hqy : a.y ≤ q.y := by
      rcases haq with h | ⟨_, h⟩
      · exact absurd h (by rw [hqx]; exact lt_irrefl _)
      · exact h
    have e := mul_nonneg (sub_nonneg.2 (hbx ▸ hP)) (sub_nonneg.2 hqy)
    rw [hqx]
    nlinarith [e]

/-- L3: an older edge sees the new point -/
theorem orient_L3 {a b c p : V2 F} (hab : lle a b) (hbc : lle b c) (hcp : lle c p)
    (h1 : 0 < orient a b c) (h2 : 0 ≤ orient b c p) : 0 ≤ orient a b p := by
  have hA := hab.x_le
  have hP := hcp.x_le
  unfold orient at *
  rcases hbc with hcx | ⟨hcx, hcy⟩
  · have hcx' : 0 < c.x - b.x := sub_pos.2 hcx
    have key : 0 ≤ (c.x - b.x) * ((b.x - a.x) * (p.y - a.y) - (b.y - a.y) * (p.x - a.x)) := by
      have e1 := mul_nonneg (sub_nonneg.2 (le_trans (le_of_lt hcx) hP)) (le_of_lt h1)
      have e2 := mul_nonneg (sub_nonneg.2 hA) h2
      nlinarith [e1, e2]
    exact (mul_nonneg_iff_of_pos_left hcx').1 key
  · -- c.x = b.x
    rw [← hcx] at h1 h2
    have hpx : p.x = b.x := by
      have e := mul_nonneg (sub_nonneg.2 hcy) (sub_nonneg.2 (hcx ▸ hP))
      by_contra hne
      have hlt : b.x < p.x := lt_of_le_of_ne (hcx ▸ hP) (fun e => hne e.symm)
      have hcy' : b.y < c.y := by
        rcases lt_or_eq_of_le hcy with h | h
        · exact h
        · exfalso; rw [← h] at h1; nlinarith [h1]
      nlinarith [mul_pos (sub_pos.2 hcy') (sub_pos.2 hlt)]
    have hpy : c.y ≤ p.y := by
      rcases hcp with h | ⟨_, h⟩
      · exact absurd h (by rw [hpx, hcx]; exact lt_irrefl _)
      · exact h
    rw [hpx]
    have hcy' : b.y < c.y := by
      rcases lt_or_eq_of_le hcy with h | h
      · exact h
      · exfalso; rw [← h] at h1; nlinarith [h1]
    have hax : a.x < b.x := by
      by_contra hne
      have : a.x = b.x := le_antisymm hA (not_lt.1 hne)
      rw [this] at h1; nlinarith [h1]
    nlinarith [mul_pos (sub_pos.2 hax) (sub_pos.2 (lt_of_lt_of_le hcy' hpy))]

theorem vneg_inj {a b : V2 F} (h : vneg a = vneg b) : a = b := by
  have hx : -a.x = -b.x := congrArg V2.x h
  have hy : -a.y = -b.y := congrArg V2.y h
  exact V2.ext' (neg_inj.1 hx) (neg_inj.1 hy)

/-- J (both neighbours lex-before the joint `m`): a flat joint forces every point that both joint
edges see onto the line of the joint -/
theorem orient_joint_lt {s m t q : V2 F} (hs : lle s m) (hsm : s ≠ m) (ht : lle t m) (htm : t ≠ m)
    (h0 : orient s m t = 0) (h1 : 0 ≤ orient s m q) (h2 : 0 ≤ orient m t q) :
    orient s m q = 0 := by
  have hid : (t.x - m.x) * orient s m q + (s.x - m.x) * orient m t q
      = (q.x - m.x) * orient s m t := by
    unfold orient; ring
  rw [h0, mul_zero] at hid
  have hs' : s.x < m.x ∨ (s.x = m.x ∧ s.y < m.y) := by
    rcases hs with h | ⟨h, h'⟩
    · exact Or.inl h
    · refine Or.inr ⟨h, lt_of_le_of_ne h' (fun e => hsm (V2.ext' h e))⟩
  have ht' : t.x < m.x ∨ (t.x = m.x ∧ t.y < m.y) := by
    rcases ht with h | ⟨h, h'⟩
    · exact Or.inl h
    · refine Or.inr ⟨h, lt_of_le_of_ne h' (fun e => htm (V2.ext' h e))⟩
  apply le_antisymm _ h1
  by_contra hpos
  have hpos : 0 < orient s m q := not_le.1 hpos
  rcases hs' with hsx | ⟨hsx, hsy⟩ <;> rcases ht' with htx | ⟨htx, hty⟩
  · have e1 := mul_pos (sub_pos.2 htx) hpos
    have e2 := mul_nonneg (sub_nonneg.2 (le_of_lt hsx)) h2
    nlinarith [e1, e2]
  · exfalso
    unfold orient at h0
    rw [htx] at h0
    have e := mul_pos (sub_pos.2 hsx) (sub_pos.2 hty)
    nlinarith [e]
  · exfalso
    unfold orient at h0
    rw [hsx] at h0
    have e := mul_pos (sub_pos.2 htx) (sub_pos.2 hsy)
    nlinarith [e]
  · unfold orient at h1 h2 hpos
    rw [hsx] at h1 hpos
    rw [htx] at h2
    have e1 : (m.y - s.y) * (q.x - m.x) < 0 := by nlinarith [hpos]
    have e2 : 0 ≤ (m.y - t.y) * (q.x - m.x) := by nlinarith [h2]
    have hq : q.x - m.x < 0 := by
      by_contra hn
      have := mul_nonneg (le_of_lt (sub_pos.2 hsy)) (not_lt.1 hn)
      linarith
    have := mul_pos_of_neg_of_neg (neg_neg_of_pos (sub_pos.2 hty)) hq
    nlinarith [this]

/-- J (both neighbours lex-after the joint) -/
theorem orient_joint_gt {s m t q : V2 F} (hs : lle m s) (hsm : s ≠ m) (ht : lle m t) (htm : t ≠ m)
    (h0 : orient s m t = 0) (h1 : 0 ≤ orient s m q) (h2 : 0 ≤ orient m t q) :
    orient s m q = 0 := by
  have := orient_joint_lt (s := vneg s) (m := vneg m) (t := vneg t) (q := vneg q)
    (lle_vneg.2 hs) (fun e => hsm (vneg_inj e)) (lle_vneg.2 ht) (fun e => htm (vneg_inj e))
    (by rw [orient_vneg]; exact h0) (by rw [orient_vneg]; exact h1) (by rw [orient_vneg]; exact h2)
  rwa [orient_vneg] at this

/-- K: three points on the line through two distinct points are collinear -/
theorem orient_collinear {s m a b c : V2 F} (hsm : s ≠ m) (ha : orient s m a = 0)
    (hb : orient s m b = 0) (hc : orient s m c = 0) : orient a b c = 0 := by
  by_cases hx : m.x - s.x = 0
  · have hy : m.y - s.y ≠ 0 := fun hy =>
      hsm (V2.ext' (sub_eq_zero.1 hx).symm (sub_eq_zero.1 hy).symm)
    have key : (m.y - s.y) * orient a b c = 0 := by
      unfold orient at *
      linear_combination (-(c.y - a.y)) * (hb - ha) + (b.y - a.y) * (hc - ha)
    exact (mul_eq_zero.1 key).resolve_left hy
  · have key : (m.x - s.x) * orient a b c = 0 := by
      unfold orient at *
      linear_combination (b.x - a.x) * (hc - ha) - (c.x - a.x) * (hb - ha)
    exact (mul_eq_zero.1 key).resolve_left hx

end
end MV.CrossOps
