import MV.Model.Arrange2
/-!
C11b, adjacency tests of `SweepPass::ProcessEvent` (arrangement mode): the shape of the status after the
re-insertion, which neighbour pairs are new, and which `TestPair(i, j)` calls are issued.
Everything here holds for EVERY oracle (classification, gradient order, crossing).
-/
namespace MV.Arr2
open MV.Sweep2

/-! ### a list with a middle segment replaced -/

/-- In `A ++ R ++ C` (obtained from `A ++ B ++ C` by replacing the middle), two neighbours `x, y` at positions
    `i, i+1` were already neighbours, or both belong to the new middle, or they sit at one of the two seams. -/
theorem splice_adjacent {α : Type} (A B C R : List α) (i : Nat) (x y : α)
    (hx : (A ++ R ++ C)[i]? = some x) (hy : (A ++ R ++ C)[i + 1]? = some y) :
    (∃ j, (A ++ B ++ C)[j]? = some x ∧ (A ++ B ++ C)[j + 1]? = some y)
    ∨ (x ∈ R ∧ y ∈ R)
    ∨ (i + 1 = A.length ∧ (R ≠ [] ∨ B ≠ []))
    ∨ (i + 1 = A.length + R.length ∧ R ≠ []) := by
  by_cases h1 : i + 1 < A.length
  · left
    refine ⟨i, ?_, ?_⟩
    · rw [List.append_assoc, List.getElem?_append_left (by omega)] at hx
      rw [List.append_assoc, List.getElem?_append_left (by omega)]; exact hx
    · rw [List.append_assoc, List.getElem?_append_left (by omega)] at hy
      rw [List.append_assoc, List.getElem?_append_left (by omega)]; exact hy
  · by_cases h2 : i + 1 = A.length
    · by_cases h3 : R = [] ∧ B = []
      · left
        obtain ⟨hR, hB⟩ := h3
        subst hR; subst hB
        exact ⟨i, hx, hy⟩
      · right; right; left
        refine ⟨h2, ?_⟩
        by_cases hR : R = []
        · right; intro hB; exact h3 ⟨hR, hB⟩
        · left; exact hR
    · by_cases h4 : i + 1 < A.length + R.length
      · right; left
        have hi : A.length ≤ i := by omega
        rw [List.append_assoc, List.getElem?_append_right hi, List.getElem?_append_left (by omega)] at hx
        rw [List.append_assoc, List.getElem?_append_right (by omega), List.getElem?_append_left (by omega)] at hy
        exact ⟨List.mem_of_getElem? hx, List.mem_of_getElem? hy⟩
      · by_cases h5 : i + 1 = A.length + R.length
        · by_cases hR : R = []
          · subst hR; simp at h5; omega
          · right; right; right; exact ⟨h5, hR⟩
        · left
          refine ⟨i - R.length + B.length, ?_, ?_⟩
          · rw [List.append_assoc, List.getElem?_append_right (by omega), List.getElem?_append_right (by omega)] at hx
            rw [List.append_assoc, List.getElem?_append_right (by omega), List.getElem?_append_right (by omega)]
            rw [← hx]; congr 1; omega
          · rw [List.append_assoc, List.getElem?_append_right (by omega), List.getElem?_append_right (by omega)] at hy
            rw [List.append_assoc, List.getElem?_append_right (by omega), List.getElem?_append_right (by omega)]
            rw [← hy]; congr 1; omega

/-! ### lo, hi -/

theorem loIdx_le (cls : List Side) : loIdx cls ≤ cls.length := by
  unfold loIdx
  exact (List.takeWhile_sublist _).length_le

theorem loIdx_le_hiIdx (cls : List Side) : loIdx cls ≤ hiIdx cls := by
  unfold hiIdx; omega

theorem hiIdx_le (cls : List Side) : hiIdx cls ≤ cls.length := by
  unfold hiIdx
  have h1 : ((cls.drop (loIdx cls)).reverse.dropWhile (· = Side.over)).length ≤ (cls.drop (loIdx cls)).reverse.length :=
    (List.dropWhile_sublist _).length_le
  have h2 := loIdx_le cls
  simp only [List.length_reverse, List.length_drop] at h1
  omega

/-- every edge strictly below the block is classified UNDER -/
theorem under_below_lo (cls : List Side) (i : Nat) (h : i < loIdx cls) : cls[i]? = some Side.under := by
  induction cls generalizing i with
  | nil => simp [loIdx] at h
  | cons c rest ih =>
    unfold loIdx at h
    by_cases hc : c = Side.under
    · subst hc
      simp only [List.takeWhile_cons, decide_true, if_true, List.length_cons] at h
      cases i with
      | zero => simp
      | succ i =>
        simp only [List.getElem?_cons_succ]
        exact ih i (by unfold loIdx; omega)
    · simp [hc] at h

/-! ### the re-inserted edges all leave the event point -/

theorem blockLoop_left (mode : Mode) (rule : WindRule) (p : Pt) (bl : List (SEdge × Side)) (w : Int)
    (out : PolySet) (re : List SEdge) (seq : Nat) (h : ∀ e ∈ re, e.l = p) :
    ∀ e ∈ (blockLoop mode rule p bl w out re seq).2.1, e.l = p := by
  induction bl generalizing w out re seq with
  | nil => simpa [blockLoop] using h
  | cons x rest ih =>
    obtain ⟨e, c⟩ := x
    unfold blockLoop
    by_cases hc : c = Side.ends
    · simp only [hc, if_true]
      exact ih _ _ _ _ h
    · simp only [hc, if_false]
      apply ih
      intro e' he'
      rcases List.mem_append.mp he' with h1 | h1
      · exact h e' h1
      · simp at h1; subst h1; rfl

theorem pendingEdges_left (p : Pt) (inner : List (Pt × Int)) (seq : Nat) :
    ∀ e ∈ pendingEdges p inner seq, e.l = p := by
  induction inner generalizing seq with
  | nil => simp [pendingEdges]
  | cons x rest ih =>
    obtain ⟨b, m⟩ := x
    intro e he
    simp only [pendingEdges, List.mem_cons] at he
    rcases he with h | h
    · subst h; rfl
    · exact ih _ e h

theorem pendingEdges_length (p : Pt) (inner : List (Pt × Int)) (seq : Nat) :
    (pendingEdges p inner seq).length = inner.length := by
  induction inner generalizing seq with
  | nil => rfl
  | cons x rest ih => obtain ⟨b, m⟩ := x; simp [pendingEdges, ih]

/-- the unsorted `reinsert` vector of `ProcessEvent` -/
def reinsertOf (o : Oracle) (mode : Mode) (rule : WindRule) (st : St) (p : Pt) : List SEdge :=
  let cls := classes o st.status p
  let lo := loIdx cls
  let hi := hiIdx cls
  let w0 := ((st.status.take lo).map lexMult).sum
  let block := ((st.status.zip cls).drop lo).take (hi - lo)
  let r := blockLoop mode rule p block w0 st.out [] st.seq
  let pe := match pendFind st.pending p with
    | none => []
    | some inner => pendingEdges p inner r.2.2
  r.2.1 ++ pe

theorem reinsertOf_left (o : Oracle) (mode : Mode) (rule : WindRule) (st : St) (p : Pt) :
    ∀ e ∈ reinsertOf o mode rule st p, e.l = p := by
  intro e he
  unfold reinsertOf at he
  simp only at he
  rcases List.mem_append.mp he with h | h
  · exact blockLoop_left mode rule p _ _ _ [] _ (by simp) e h
  · cases hf : pendFind st.pending p with
    | none => simp [hf] at h
    | some inner => simp only [hf] at h; exact pendingEdges_left p inner _ e h

/-- the status after the re-insertion: the part below the block, the sorted re-inserted edges, the part above -/
theorem prepare_status (o : Oracle) (mode : Mode) (rule : WindRule) (st : St) (p : Pt) :
    (prepare o mode rule st p).mid.status =
      st.status.take (prepare o mode rule st p).lo ++ sortReinsert o (reinsertOf o mode rule st p)
        ++ st.status.drop (prepare o mode rule st p).hi := rfl

theorem prepare_k (o : Oracle) (mode : Mode) (rule : WindRule) (st : St) (p : Pt) :
    (prepare o mode rule st p).k = (sortReinsert o (reinsertOf o mode rule st p)).length := rfl

theorem prepare_lo (o : Oracle) (mode : Mode) (rule : WindRule) (st : St) (p : Pt) :
    (prepare o mode rule st p).lo = loIdx (classes o st.status p) := rfl

theorem prepare_hi (o : Oracle) (mode : Mode) (rule : WindRule) (st : St) (p : Pt) :
    (prepare o mode rule st p).hi = hiIdx (classes o st.status p) := rfl

theorem prepare_removedAny (o : Oracle) (mode : Mode) (rule : WindRule) (st : St) (p : Pt) :
    (prepare o mode rule st p).removedAny = decide ((prepare o mode rule st p).hi > (prepare o mode rule st p).lo) := rfl

theorem prepare_lo_le_hi (o : Oracle) (mode : Mode) (rule : WindRule) (st : St) (p : Pt) :
    (prepare o mode rule st p).lo ≤ (prepare o mode rule st p).hi := loIdx_le_hiIdx _

theorem prepare_hi_le (o : Oracle) (mode : Mode) (rule : WindRule) (st : St) (p : Pt) :
    (prepare o mode rule st p).hi ≤ st.status.length := by
  have := hiIdx_le (classes o st.status p)
  simpa [classes, prepare_hi] using this

theorem mem_insertStable (o : Oracle) (x : SEdge) (s : List SEdge) (z : SEdge) :
    z ∈ insertStable o x s ↔ z = x ∨ z ∈ s := by
  induction s with
  | nil => simp [insertStable]
  | cons y ys ih =>
    unfold insertStable
    split
    · simp
    · simp only [List.mem_cons, ih]
      constructor
      · rintro (h | h | h)
        · exact Or.inr (Or.inl h)
        · exact Or.inl h
        · exact Or.inr (Or.inr h)
      · rintro (h | h | h)
        · exact Or.inr (Or.inl h)
        · exact Or.inl h
        · exact Or.inr (Or.inr h)

theorem length_insertStable (o : Oracle) (x : SEdge) (s : List SEdge) :
    (insertStable o x s).length = s.length + 1 := by
  induction s with
  | nil => rfl
  | cons y ys ih =>
    unfold insertStable
    split
    · simp
    · simp [ih]

theorem sortReinsert_mem (o : Oracle) (re : List SEdge) (e : SEdge) : e ∈ sortReinsert o re ↔ e ∈ re := by
  unfold sortReinsert
  induction re with
  | nil => simp
  | cons x xs ih => simp only [List.foldr_cons, mem_insertStable, ih, List.mem_cons]

theorem sortReinsert_length (o : Oracle) (re : List SEdge) : (sortReinsert o re).length = re.length := by
  unfold sortReinsert
  induction re with
  | nil => rfl
  | cons x xs ih => simp only [List.foldr_cons, length_insertStable, ih, List.length_cons]

theorem pairwise_insertStable (o : Oracle)
    (htot : ∀ a b, (gradLE o a b || gradLE o b a) = true)
    (htr : ∀ a b c, gradLE o a b = true → gradLE o b c = true → gradLE o a c = true)
    (x : SEdge) (s : List SEdge) (h : s.Pairwise (fun a b => gradLE o a b = true)) :
    (insertStable o x s).Pairwise (fun a b => gradLE o a b = true) := by
  induction s with
  | nil => simp [insertStable]
  | cons y ys ih =>
    have hy := List.pairwise_cons.mp h
    unfold insertStable
    split
    · next hxy =>
      apply List.pairwise_cons.mpr
      refine ⟨?_, h⟩
      intro z hz
      rcases List.mem_cons.mp hz with hz | hz
      · rw [hz]; exact hxy
      · exact htr _ _ _ hxy (hy.1 z hz)
    · next hxy =>
      have hyx : gradLE o y x = true := by
        have := htot x y
        cases h1 : gradLE o x y with
        | true => exact absurd h1 hxy
        | false => rw [h1] at this; simpa using this
      apply List.pairwise_cons.mpr
      refine ⟨?_, ih hy.2⟩
      intro z hz
      rcases (mem_insertStable o x ys z).mp hz with hz | hz
      · rw [hz]; exact hyx
      · exact hy.1 z hz

theorem pairwise_sortReinsert (o : Oracle)
    (htot : ∀ a b, (gradLE o a b || gradLE o b a) = true)
    (htr : ∀ a b c, gradLE o a b = true → gradLE o b c = true → gradLE o a c = true)
    (re : List SEdge) : (sortReinsert o re).Pairwise (fun a b => gradLE o a b = true) := by
  unfold sortReinsert
  induction re with
  | nil => exact List.Pairwise.nil
  | cons x xs ih => exact pairwise_insertStable o htot htr x _ ih

/-- the old status split at `lo` and `hi` -/
theorem status_split (l : List SEdge) (lo hi : Nat) (h : lo ≤ hi) :
    l = l.take lo ++ (l.drop lo).take (hi - lo) ++ l.drop hi := by
  have h1 : l.drop hi = (l.drop lo).drop (hi - lo) := by
    rw [List.drop_drop]; congr 1; omega
  rw [h1, List.append_assoc, List.take_append_drop, List.take_append_drop]

/-! ### adjacency -/

/-- edges with ids `a` (below) and `b` (above) are neighbours in the status -/
def Adj (l : List SEdge) (a b : Nat) : Prop :=
  ∃ i x y, l[i]? = some x ∧ l[i + 1]? = some y ∧ x.seq = a ∧ y.seq = b

theorem adjacency_complete_core (o : Oracle) (mode : Mode) (rule : WindRule) (st : St) (p : Pt)
    (i : Nat) (x y : SEdge)
    (hx : (prepare o mode rule st p).mid.status[i]? = some x)
    (hy : (prepare o mode rule st p).mid.status[i + 1]? = some y) :
    Adj st.status x.seq y.seq
    ∨ (x.l = p ∧ y.l = p)
    ∨ (i, i + 1) ∈ adjacencyTests (prepare o mode rule st p).lo (prepare o mode rule st p).k
        (prepare o mode rule st p).removedAny := by
  have hlh := prepare_lo_le_hi o mode rule st p
  have hhn := prepare_hi_le o mode rule st p
  rw [prepare_status] at hx hy
  have hlen : (st.status.take (prepare o mode rule st p).lo).length = (prepare o mode rule st p).lo := by
    rw [List.length_take]; omega
  have hB : ((st.status.drop (prepare o mode rule st p).lo).take
      ((prepare o mode rule st p).hi - (prepare o mode rule st p).lo)).length
      = (prepare o mode rule st p).hi - (prepare o mode rule st p).lo := by
    rw [List.length_take, List.length_drop]; omega
  rcases splice_adjacent _ ((st.status.drop (prepare o mode rule st p).lo).take
      ((prepare o mode rule st p).hi - (prepare o mode rule st p).lo)) _ _ i x y hx hy with h | h | h | h
  · left
    obtain ⟨j, h1, h2⟩ := h
    rw [← status_split st.status _ _ hlh] at h1 h2
    exact ⟨j, x, y, h1, h2, rfl, rfl⟩
  · right; left
    exact ⟨reinsertOf_left o mode rule st p x ((sortReinsert_mem o _ x).mp h.1),
           reinsertOf_left o mode rule st p y ((sortReinsert_mem o _ y).mp h.2)⟩
  · right; right
    obtain ⟨h1, h2⟩ := h
    rw [hlen] at h1
    have hi1 : i = (prepare o mode rule st p).lo - 1 := by omega
    have hlo : (prepare o mode rule st p).lo > 0 := by omega
    unfold adjacencyTests
    rw [prepare_k]
    rcases h2 with h2 | h2
    · have : (sortReinsert o (reinsertOf o mode rule st p)).length > 0 := List.length_pos_iff.mpr h2
      simp only [this, if_true, hlo]
      rw [hi1]
      have : (prepare o mode rule st p).lo - 1 + 1 = (prepare o mode rule st p).lo := by omega
      rw [this]
      exact List.mem_cons_of_mem _ (List.mem_singleton.mpr rfl)
    · by_cases hk : (sortReinsert o (reinsertOf o mode rule st p)).length > 0
      · simp only [hk, if_true, hlo]
        rw [hi1]
        have : (prepare o mode rule st p).lo - 1 + 1 = (prepare o mode rule st p).lo := by omega
        rw [this]
        exact List.mem_cons_of_mem _ (List.mem_singleton.mpr rfl)
      · have hrem : (prepare o mode rule st p).removedAny = true := by
          rw [prepare_removedAny]
          have h0 : (prepare o mode rule st p).hi - (prepare o mode rule st p).lo ≠ 0 := by
            intro h0'
            apply h2
            apply List.length_eq_zero_iff.mp
            rw [hB]; exact h0'
          simp only [gt_iff_lt, decide_eq_true_eq]; omega
        simp only [hk, if_false, hrem, hlo, decide_true, Bool.and_self, if_true]
        rw [hi1]
        have : (prepare o mode rule st p).lo - 1 + 1 = (prepare o mode rule st p).lo := by omega
        rw [this]
        exact List.mem_singleton.mpr rfl
  · right; right
    obtain ⟨h1, h2⟩ := h
    rw [hlen] at h1
    unfold adjacencyTests
    rw [prepare_k]
    have : (sortReinsert o (reinsertOf o mode rule st p)).length > 0 := List.length_pos_iff.mpr h2
    simp only [this, if_true]
    have e1 : i = (prepare o mode rule st p).lo + (sortReinsert o (reinsertOf o mode rule st p)).length - 1 := by omega
    have e2 : i + 1 = (prepare o mode rule st p).lo + (sortReinsert o (reinsertOf o mode rule st p)).length := by omega
    rw [e2, e1]
    exact List.mem_cons_self

end MV.Arr2
