import MV.Model.CrossOps
import Mathlib.Algebra.Order.Field.Basic
import Mathlib.Algebra.Order.Ring.Rat
import Mathlib.Algebra.Field.Rat
import Mathlib.Tactic.Ring
import Mathlib.Tactic.Linarith
import Mathlib.Tactic.Positivity
import Mathlib.Tactic.FieldSimp
import Mathlib.Tactic.LinearCombination
/-!
The exact instance of `MV.CrossOps.Scalar`: a linearly ordered field, every operation exact,
comparisons decided, everything finite.  All theorems of MV/Props/C12.lean are about the model
definitions of MV/Model/CrossOps.lean at this instance (division only ever happens under the
guards the code itself has: `pnLen2 > 0`, `denom > 0`, `b.y ≠ a.y`).
-/
namespace MV.CrossOps

/-- consecutive pairs of a ring, cyclically: `(l[i], l[i+1 mod n])` -/
def cyclicPairs {β : Type} (l : List β) : List (β × β) := l.zip (l.drop 1 ++ l.take 1)
/-- consecutive triples of a ring, cyclically: `(l[i], l[i+1 mod n], l[i+2 mod n])` (for `n ≥ 2`) -/
def cyclicTriples {β : Type} (l : List β) : List (β × β × β) :=
  l.zip ((l.drop 1 ++ l.take 1).zip (l.drop 2 ++ l.take 2))

example : cyclicPairs [1, 2, 3] = [(1, 2), (2, 3), (3, 1)] := by decide
example : cyclicTriples [1, 2, 3, 4] = [(1, 2, 3), (2, 3, 4), (3, 4, 1), (4, 1, 2)] := by decide

instance fieldScalar (F : Type) [Field F] [LinearOrder F] : Scalar F where
  zero := 0
  one := 1
  add a b := a + b
  sub a b := a - b
  mul a b := a * b
  div a b := a / b
  neg a := -a
  abs a := |a|
  lt a b := decide (a < b)
  le a b := decide (a ≤ b)
  beq a b := decide (a = b)
  isFinite _ := true

section Field
variable {F : Type} [Field F] [LinearOrder F]

@[simp] theorem sc_zero : (Scalar.zero : F) = 0 := rfl
@[simp] theorem sc_one : (Scalar.one : F) = 1 := rfl
@[simp] theorem sc_add (a b : F) : Scalar.add a b = a + b := rfl
@[simp] theorem sc_sub (a b : F) : Scalar.sub a b = a - b := rfl
@[simp] theorem sc_mul (a b : F) : Scalar.mul a b = a * b := rfl
@[simp] theorem sc_div (a b : F) : Scalar.div a b = a / b := rfl
@[simp] theorem sc_neg (a : F) : Scalar.neg a = -a := rfl
@[simp] theorem sc_abs (a : F) : Scalar.abs a = |a| := rfl
@[simp] theorem sc_lt (a b : F) : Scalar.lt a b = decide (a < b) := rfl
@[simp] theorem sc_le (a b : F) : Scalar.le a b = decide (a ≤ b) := rfl
@[simp] theorem sc_beq (a b : F) : Scalar.beq a b = decide (a = b) := rfl
@[simp] theorem sc_isFinite (a : F) : Scalar.isFinite a = true := rfl

/-- twice the signed area of the triangle `a b c` (positive: counter-clockwise) -/
def orient (a b c : V2 F) : F := (b.x - a.x) * (c.y - a.y) - (b.y - a.y) * (c.x - a.x)

omit [Field F] [LinearOrder F] in
@[ext] theorem V2.ext' {a b : V2 F} (hx : a.x = b.x) (hy : a.y = b.y) : a = b := by
  cases a; cases b; simp_all

@[simp] theorem dot_eq (a b : V2 F) : dot a b = a.x * b.x + a.y * b.y := by
  simp [dot]
@[simp] theorem cross_eq (a b : V2 F) : cross a b = a.x * b.y - a.y * b.x := by
  simp [cross]
@[simp] theorem two_eq : (two : F) = 2 := by simp [two]; norm_num
@[simp] theorem four_eq : (four : F) = 4 := by simp [four]; norm_num
@[simp] theorem lmax_eq (a b : F) : lmax a b = max a b := by
  simp only [lmax, sc_lt, decide_eq_true_eq]
  split
  · exact (max_eq_right (le_of_lt ‹_›)).symm
  · exact (max_eq_left (not_lt.1 ‹_›)).symm
@[simp] theorem lmin_eq (a b : F) : lmin a b = min a b := by
  simp only [lmin, sc_lt, decide_eq_true_eq]
  split
  · exact (min_eq_left (le_of_lt ‹_›)).symm
  · exact (min_eq_right (not_lt.1 ‹_›)).symm
@[simp] theorem smin_eq (a b : F) : smin a b = min a b := by
  simp only [smin, sc_lt, decide_eq_true_eq]
  split
  · exact (min_eq_right (le_of_lt ‹_›)).symm
  · exact (min_eq_left (not_lt.1 ‹_›)).symm

variable [IsStrictOrderedRing F]

/-- `CCW(p0, p1, p2, 0.0)` in exact arithmetic is the sign of `orient` -/
theorem ccw_zero (p0 p1 p2 : V2 F) :
    ccw p0 p1 p2 (0 : F) = if orient p0 p1 p2 = 0 then 0 else if 0 < orient p0 p1 p2 then 1 else -1 := by
  have harea : (p1.sub p0).x * (p2.sub p0).y - (p1.sub p0).y * (p2.sub p0).x = orient p0 p1 p2 := by
    simp [V2.sub, orient]
  simp only [ccw, sc_mul, sc_sub, sc_le, sc_lt, sc_zero, four_eq, mul_zero, harea, decide_eq_true_eq]
  by_cases h0 : orient p0 p1 p2 = 0
  · simp [h0]
  · have hpos : 0 < orient p0 p1 p2 * orient p0 p1 p2 * 4 := by
      have := mul_self_pos.2 h0; linarith
    simp [h0, not_le.2 hpos]

theorem ccw_zero_le_iff (p0 p1 p2 : V2 F) : ccw p0 p1 p2 (0 : F) ≤ 0 ↔ orient p0 p1 p2 ≤ 0 := by
  rw [ccw_zero]
  by_cases h0 : orient p0 p1 p2 = 0
  · simp [h0]
  · by_cases hp : 0 < orient p0 p1 p2
    · simp [h0, hp, not_le.2 hp]
    · have : orient p0 p1 p2 ≤ 0 := not_lt.1 hp
      simp [h0, hp, this]

end Field

example : ccw (⟨0, 0⟩ : V2 ℚ) ⟨1, 0⟩ ⟨0, 1⟩ 0 = 1 := by
  rw [ccw_zero]; simp [orient]

end MV.CrossOps
