/-
Lemmas for the candidate search of `MergeVerts` (MV/Model/MergeSweep.lean): it is the generic
sorted sweep of MV/Proof/Broad2Sweep.lean (`innerG`/`outerG`) with key `x`.
-/
import MV.Model.MergeSweep
import MV.Proof.Broad2Bvh
import MV.Proof.Broad2Kd

namespace MV.Broad2


theorem iabs_le (d t : Int) : iabs d ≤ t ↔ (d ≤ t ∧ -d ≤ t) := by
  unfold iabs; split <;> omega

theorem iabs_neg_sub (a b : Int) : iabs (a - b) = iabs (b - a) := by
  unfold iabs; split <;> split <;> omega

def mbrk (pts : Array (Int × Int)) (thresh : Int) (i a : Nat) : Bool :=
  decide (ptX pts a - ptX pts i > thresh)

def mkeep (pts : Array (Int × Int)) (thresh : Int) (i a : Nat) : Bool :=
  !decide (iabs (ptY pts a - ptY pts i) > thresh)

theorem mergeInner_eq (pts : Array (Int × Int)) (thresh : Int) (ai : Nat) : ∀ rest,
    mergeInner pts thresh ai rest = innerG (mbrk pts thresh) (mkeep pts thresh) ai rest := by
  intro rest
  induction rest with
  | nil => rfl
  | cons bi rest ih =>
    unfold mergeInner innerG
    simp only [mbrk, mkeep, ih, decide_eq_true_eq, Bool.not_eq_true', decide_eq_false_iff_not]
    by_cases h1 : ptX pts bi - ptX pts ai > thresh
    · simp [h1]
    · by_cases h2 : iabs (ptY pts bi - ptY pts ai) > thresh
      · simp [h1, h2]
      · simp [h1, h2]

theorem mergeOuter_eq (pts : Array (Int × Int)) (thresh : Int) : ∀ l,
    mergeOuter pts thresh l = outerG (mbrk pts thresh) (mkeep pts thresh) l := by
  intro l
  induction l with
  | nil => rfl
  | cons i rest ih => simp only [mergeOuter, outerG, mergeInner_eq, ih]

theorem mbrk_mono (pts : Array (Int × Int)) (thresh : Int) : ∀ i a b, ptX pts a ≤ ptX pts b →
    mbrk pts thresh i a = true → mbrk pts thresh i b = true := by
  intro i a b h
  simp only [mbrk, decide_eq_true_eq]
  omega

theorem mergeOrder_perm (pts : Array (Int × Int)) :
    (mergeOrder pts).Perm (List.range pts.size) := List.mergeSort_perm _ _

theorem mergeOrder_nodup (pts : Array (Int × Int)) : (mergeOrder pts).Nodup :=
  (mergeOrder_perm pts).symm.nodup List.nodup_range

theorem mergeOrder_mem (pts : Array (Int × Int)) (i : Nat) : i ∈ mergeOrder pts ↔ i < pts.size := by
  rw [(mergeOrder_perm pts).mem_iff, List.mem_range]

theorem mergeOrder_sorted (pts : Array (Int × Int)) :
    (mergeOrder pts).Pairwise (fun a b => ptX pts a ≤ ptX pts b) := by
  have := List.pairwise_mergeSort (le := fun a b => !decide (ptX pts b < ptX pts a))
    (keyIntLe_trans (ptX pts)) (keyIntLe_total (ptX pts)) (List.range pts.size)
  exact this.imp (fun {a b} h => by
    simp only [Bool.not_eq_true', decide_eq_false_iff_not] at h; omega)

/-- the sweep branch -/
theorem mergeSweep_spec (pts : Array (Int × Int)) (thresh : Int) :
    let ps := (mergeOuter pts thresh (mergeOrder pts)).mergeSort pairLe
    ps.Pairwise pairLt ∧
    ∀ a b, (a, b) ∈ ps ↔ (a < b ∧ b < pts.size ∧ iabs (ptX pts a - ptX pts b) ≤ thresh ∧
      iabs (ptY pts a - ptY pts b) ≤ thresh) := by
  intro ps
  have hnd : (mergeOuter pts thresh (mergeOrder pts)).Nodup := by
    rw [mergeOuter_eq]; exact nodup_outerG _ _ _ (mergeOrder_nodup pts)
  refine ⟨radixSortPairs_strict hnd, ?_⟩
  intro a b
  show (a, b) ∈ radixSortPairs _ ↔ _
  rw [(radixSortPairs_perm _).mem_iff, mergeOuter_eq,
    mem_outerG (keep := mkeep pts thresh) (mbrk_mono pts thresh) _ (mergeOrder_sorted pts)]
  have hs := mergeOrder_sorted pts
  constructor
  · rintro ⟨i, j, hbf, hb, hk, e⟩
    have hi := (mergeOrder_mem pts i).mp hbf.mem.1
    have hj := (mergeOrder_mem pts j).mp hbf.mem.2
    have hne := before_ne (mergeOrder_nodup pts) hbf
    have hx := List.pairwise_pair.mp (hs.sublist hbf)
    simp only [mbrk, decide_eq_false_iff_not] at hb
    simp only [mkeep, Bool.not_eq_true', decide_eq_false_iff_not] at hk
    simp only [Prod.mk.injEq] at e
    have hk' := (iabs_le (ptY pts j - ptY pts i) thresh).mp (by omega)
    by_cases hij : i < j
    · have ea : a = i := by omega
      have eb : b = j := by omega
      subst ea; subst eb
      refine ⟨hij, hj, (iabs_le _ _).mpr (by omega), (iabs_le _ _).mpr (by omega)⟩
    · have ea : a = j := by omega
      have eb : b = i := by omega
      subst ea; subst eb
      refine ⟨by omega, hi, (iabs_le _ _).mpr (by omega), (iabs_le _ _).mpr (by omega)⟩
  · rintro ⟨hab, hb, hx, hy⟩
    rw [iabs_le] at hx hy
    rcases before_total ((mergeOrder_mem pts a).mpr (by omega)) ((mergeOrder_mem pts b).mpr hb)
      (by omega) with h | h
    · refine ⟨a, b, h, ?_, ?_, ?_⟩
      · simp only [mbrk, decide_eq_false_iff_not]; omega
      · simp only [mkeep, Bool.not_eq_true', decide_eq_false_iff_not]
        have := (iabs_le (ptY pts b - ptY pts a) thresh).mpr (by omega)
        omega
      · simp only [Prod.mk.injEq]; omega
    · refine ⟨b, a, h, ?_, ?_, ?_⟩
      · simp only [mbrk, decide_eq_false_iff_not]; omega
      · simp only [mkeep, Bool.not_eq_true', decide_eq_false_iff_not]
        have := (iabs_le (ptY pts a - ptY pts b) thresh).mpr (by omega)
        omega
      · simp only [Prod.mk.injEq]; omega

/-- the brute-force branch -/
theorem mergeBrute_spec (pts : Array (Int × Int)) (thresh : Int) :
    (mergeBrute pts thresh).Pairwise pairLt ∧
    ∀ a b, (a, b) ∈ mergeBrute pts thresh ↔ (a < b ∧ b < pts.size ∧
      iabs (ptX pts a - ptX pts b) ≤ thresh ∧ iabs (ptY pts a - ptY pts b) ≤ thresh) := by
  unfold mergeBrute
  constructor
  · rw [List.pairwise_flatMap]
    constructor
    · intro i _
      rw [List.pairwise_map]
      have h : (List.range' (i + 1) (pts.size - (i + 1))).Pairwise (· < ·) :=
        List.pairwise_lt_range'
      exact (h.sublist List.filter_sublist).imp (fun {a b} hab => Or.inr ⟨rfl, hab⟩)
    · refine List.pairwise_lt_range.imp ?_
      intro f1 f2 h x hx y hy
      rw [List.mem_map] at hx hy
      obtain ⟨_, _, ex⟩ := hx
      obtain ⟨_, _, ey⟩ := hy
      subst ex; subst ey
      exact Or.inl h
  · intro a b
    rw [List.mem_flatMap]
    constructor
    · rintro ⟨i, hi, h⟩
      rw [List.mem_range] at hi
      rw [List.mem_map] at h
      obtain ⟨j, hj, e⟩ := h
      rw [List.mem_filter, List.mem_range'_1] at hj
      simp only [Prod.mk.injEq] at e
      obtain ⟨e1, e2⟩ := e
      subst e1; subst e2
      simp only [Bool.and_eq_true, decide_eq_true_eq] at hj
      exact ⟨by omega, by omega, hj.2.1, hj.2.2⟩
    · rintro ⟨hab, hb, hx, hy⟩
      refine ⟨a, List.mem_range.mpr (by omega), ?_⟩
      rw [List.mem_map]
      refine ⟨b, ?_, rfl⟩
      rw [List.mem_filter, List.mem_range'_1]
      simp only [Bool.and_eq_true, decide_eq_true_eq]
      exact ⟨by omega, hx, hy⟩

end MV.Broad2
