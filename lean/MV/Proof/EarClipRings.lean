import MV.Proof.EarClip
/-!
The explicit cycle decomposition of a well-linked state: the lists `ring s v` read through
`right` pointers from the smallest vert of each ring partition the unclipped verts, so
`net (liveEdges s)` really is the sum of the ring boundaries `bdRing`.  Core Lean only.
-/
namespace MV.EarClip

/-- `k` steps along `right` -/
def iter (s : State) : Nat → Nat → Nat
  | 0, v => v
  | k + 1, v => s.R (iter s k v)

/-- `u` is reachable from `v` through `right` pointers -/
def Orbit (s : State) (v u : Nat) : Prop := ∃ i, iter s i v = u

theorem iter_add (s : State) (j k v : Nat) : iter s (j + k) v = iter s j (iter s k v) := by
  induction j with
  | zero => simp [iter]
  | succ j ih => rw [Nat.succ_add]; simp only [iter, ih]

theorem iter_live (s : State) (h : Linked s) (v : Nat) (hv : v < s.n) (hl : s.live v) (k : Nat) :
    iter s k v < s.n ∧ s.live (iter s k v) := by
  induction k with
  | zero => exact ⟨hv, hl⟩
  | succ k ih => exact ⟨(h.range _ ih.1).2, (h.live _ ih.1 ih.2).2⟩

theorem R_inj (s : State) (x y : Nat) (hx : s.live x) (hy : s.live y) (h : s.R x = s.R y) : x = y := by
  unfold State.live at hx hy; rw [← hx, ← hy, h]

theorem iter_inj (s : State) (h : Linked s) (k x y : Nat) (hx : x < s.n) (hy : y < s.n)
    (hlx : s.live x) (hly : s.live y) (he : iter s k x = iter s k y) : x = y := by
  induction k with
  | zero => exact he
  | succ k ih =>
    exact ih (R_inj s _ _ (iter_live s h x hx hlx k).2 (iter_live s h y hy hly k).2 he)

/-- pigeonhole: the walk returns to its start within `n` steps -/
theorem exists_period (s : State) (h : Linked s) (v : Nat) (hv : v < s.n) (hl : s.live v) :
    ∃ k, 0 < k ∧ k ≤ s.n ∧ iter s k v = v := by
  false_or_by_contra
  rename_i hno
  have hinj : ∀ x, x ∈ List.range (s.n + 1) → ∀ y, y ∈ List.range (s.n + 1) →
      iter s x v = iter s y v → x = y := by
    have key : ∀ i j, i < j → j ≤ s.n → iter s i v = iter s j v → False := by
      intro i j hij hj he
      have e : j = i + (j - i) := by omega
      rw [e, iter_add] at he
      have := iter_inj s h i v (iter s (j - i) v) hv (iter_live s h v hv hl _).1 hl
        (iter_live s h v hv hl _).2 he
      exact hno ⟨j - i, by omega, by omega, this.symm⟩
    intro x hx y hy he
    rw [List.mem_range] at hx hy
    rcases Nat.lt_trichotomy x y with hlt | heq | hgt
    · exact (key x y hlt (by omega) he).elim
    · exact heq
    · exact (key y x hgt (by omega) he.symm).elim
  have hnd := nodup_map_on (f := fun i => iter s i v) List.nodup_range hinj
  have hsub : (List.range (s.n + 1)).map (fun i => iter s i v) ⊆ List.range s.n := by
    intro x hx
    rw [List.mem_map] at hx
    obtain ⟨i, _, rfl⟩ := hx
    exact List.mem_range.2 (iter_live s h v hv hl i).1
  have := hnd.length_le_of_subset hsub
  simp at this
  omega

/-- shape of the walk: `m` consecutive iterates, none of which (after the first) is `v`; it
    stops because it closed up or because the fuel ran out -/
theorem ringFrom_shape (s : State) (v : Nat) (f j : Nat) :
    ∃ m, m ≤ f ∧ ringFrom s v f (iter s j v) = (List.range m).map (fun i => iter s (j + i) v) ∧
      (∀ i, 0 < i → i < m → iter s (j + i) v ≠ v) ∧
      ((0 < m ∧ iter s (j + m) v = v) ∨ (m = f ∧ ∀ i, 0 < i → i ≤ m → iter s (j + i) v ≠ v)) := by
  induction f generalizing j with
  | zero => exact ⟨0, by omega, rfl, by intro i h1 h2; omega, Or.inr ⟨rfl, by intro i h1 h2; omega⟩⟩
  | succ f ih =>
    unfold ringFrom
    by_cases hc : s.R (iter s j v) = v
    · refine ⟨1, by omega, by simp [hc], by intro i h1 h2; omega, Or.inl ⟨by omega, hc⟩⟩
    · obtain ⟨m, hm, hlist, hnr, hend⟩ := ih (j + 1)
      have hnr' : ∀ i, 0 < i → i < m + 1 → iter s (j + i) v ≠ v := by
        intro i h1 h2
        by_cases hi : i = 1
        · subst hi; exact hc
        · have := hnr (i - 1) (by omega) (by omega)
          have e : j + 1 + (i - 1) = j + i := by omega
          rwa [e] at this
      refine ⟨m + 1, by omega, ?_, hnr', ?_⟩
      · simp only [hc, if_false]
        have e : s.R (iter s j v) = iter s (j + 1) v := rfl
        rw [e, hlist, List.range_succ_eq_map, List.map_cons, List.map_map]
        congr 1
        apply List.map_congr_left
        intro i _
        show iter s (j + 1 + i) v = iter s (j + (i + 1)) v
        congr 1; omega
      · rcases hend with ⟨h1, h2⟩ | ⟨h1, h2⟩
        · left; refine ⟨by omega, ?_⟩
          have e : j + (m + 1) = j + 1 + m := by omega
          rw [e]; exact h2
        · right; refine ⟨by omega, ?_⟩
          intro i hi1 hi2
          by_cases hi : i = 1
          · subst hi; exact hc
          · have := h2 (i - 1) (by omega) (by omega)
            have e : j + 1 + (i - 1) = j + i := by omega
            rwa [e] at this

/-- the ring through an unclipped `v`: the iterates up to the minimal period -/
theorem ring_shape (s : State) (h : Linked s) (v : Nat) (hv : v < s.n) (hl : s.live v) :
    ∃ m, 0 < m ∧ ring s v = (List.range m).map (fun i => iter s i v) ∧
      iter s m v = v ∧ ∀ i, 0 < i → i < m → iter s i v ≠ v := by
  obtain ⟨m, hm, hlist, hnr, hend⟩ := ringFrom_shape s v s.n 0
  simp only [Nat.zero_add] at hlist hnr hend
  have e0 : iter s 0 v = v := rfl
  rw [e0] at hlist
  rcases hend with ⟨h1, h2⟩ | ⟨h1, h2⟩
  · exact ⟨m, h1, hlist, h2, hnr⟩
  · obtain ⟨k, hk1, hk2, hk3⟩ := exists_period s h v hv hl
    exact absurd hk3 (h2 k hk1 (by omega))

theorem iter_mul_period (s : State) (v m : Nat) (hm : iter s m v = v) (q : Nat) :
    iter s (q * m) v = v := by
  induction q with
  | zero => simp [iter]
  | succ q ih => rw [Nat.succ_mul, iter_add, hm, ih]

theorem mem_ring_iff (s : State) (h : Linked s) (v : Nat) (hv : v < s.n) (hl : s.live v) (u : Nat) :
    u ∈ ring s v ↔ Orbit s v u := by
  obtain ⟨m, hm0, hlist, hclose, _⟩ := ring_shape s h v hv hl
  rw [hlist, List.mem_map]
  constructor
  · rintro ⟨i, _, rfl⟩; exact ⟨i, rfl⟩
  · rintro ⟨i, rfl⟩
    refine ⟨i % m, List.mem_range.2 (Nat.mod_lt _ hm0), ?_⟩
    have e : i = i % m + (i / m) * m := by
      have := Nat.mod_add_div i m; rw [Nat.mul_comm] at this; omega
    conv => rhs; rw [e, iter_add, iter_mul_period s v m hclose]

theorem ring_nodup (s : State) (h : Linked s) (v : Nat) (hv : v < s.n) (hl : s.live v) :
    (ring s v).Nodup := by
  obtain ⟨m, hm0, hlist, hclose, hnr⟩ := ring_shape s h v hv hl
  rw [hlist]
  apply nodup_map_on List.nodup_range
  have key : ∀ i j, i < j → j < m → iter s i v = iter s j v → False := by
    intro i j hij hj he
    have e : j = i + (j - i) := by omega
    rw [e, iter_add] at he
    have := iter_inj s h i v (iter s (j - i) v) hv (iter_live s h v hv hl _).1 hl
      (iter_live s h v hv hl _).2 he
    exact hnr (j - i) (by omega) (by omega) this.symm
  intro x hx y hy he
  rw [List.mem_range] at hx hy
  rcases Nat.lt_trichotomy x y with hlt | heq | hgt
  · exact (key x y hlt hy he).elim
  · exact heq
  · exact (key y x hgt hx he.symm).elim

theorem Orbit.refl (s : State) (v : Nat) : Orbit s v v := ⟨0, rfl⟩

theorem Orbit.trans {s : State} {a b c : Nat} (h1 : Orbit s a b) (h2 : Orbit s b c) : Orbit s a c := by
  obtain ⟨i, rfl⟩ := h1; obtain ⟨j, rfl⟩ := h2
  exact ⟨j + i, iter_add s j i a⟩

theorem Orbit.symm {s : State} (h : Linked s) {v u : Nat} (hv : v < s.n) (hl : s.live v)
    (ho : Orbit s v u) : Orbit s u v := by
  obtain ⟨i, rfl⟩ := ho
  obtain ⟨m, hm0, _, hclose, _⟩ := ring_shape s h v hv hl
  refine ⟨i * m - i, ?_⟩
  rw [← iter_add]
  have : i * m - i + i = i * m := by
    have : i ≤ i * m := Nat.le_mul_of_pos_right i hm0
    omega
  rw [this, iter_mul_period s v m hclose]

theorem Orbit.live {s : State} (h : Linked s) {v u : Nat} (hv : v < s.n) (hl : s.live v)
    (ho : Orbit s v u) : u < s.n ∧ s.live u := by
  obtain ⟨i, rfl⟩ := ho; exact iter_live s h v hv hl i

theorem exists_min_mem (l : List Nat) (hne : l ≠ []) : ∃ v, v ∈ l ∧ ∀ u, u ∈ l → v ≤ u := by
  induction l with
  | nil => exact absurd rfl hne
  | cons a l ih =>
    by_cases hl : l = []
    · subst hl; exact ⟨a, List.mem_cons_self, by intro u hu; simp at hu; omega⟩
    · obtain ⟨v, hv, hmin⟩ := ih hl
      by_cases hav : a ≤ v
      · refine ⟨a, List.mem_cons_self, ?_⟩
        intro u hu
        rcases List.mem_cons.1 hu with rfl | hu
        · omega
        · have := hmin u hu; omega
      · refine ⟨v, List.mem_cons_of_mem _ hv, ?_⟩
        intro u hu
        rcases List.mem_cons.1 hu with rfl | hu
        · omega
        · exact hmin u hu

theorem mem_ringReps (s : State) (h : Linked s) (v : Nat) :
    v ∈ ringReps s ↔ (v < s.n ∧ s.live v ∧ ∀ u, Orbit s v u → v ≤ u) := by
  unfold ringReps
  rw [List.mem_filter, mem_liveList]
  constructor
  · rintro ⟨⟨hv, hl⟩, hall⟩
    refine ⟨hv, hl, fun u hu => ?_⟩
    rw [List.all_eq_true] at hall
    have := hall u ((mem_ring_iff s h v hv hl u).2 hu)
    simpa using this
  · rintro ⟨hv, hl, hmin⟩
    refine ⟨⟨hv, hl⟩, ?_⟩
    rw [List.all_eq_true]
    intro u hu
    have := hmin u ((mem_ring_iff s h v hv hl u).1 hu)
    simpa using this

/-- the rings (one per smallest vert) partition the unclipped verts -/
theorem rings_flatten_perm (s : State) (h : Linked s) : (rings s).flatten.Perm (liveList s) := by
  have hflat : (rings s).flatten = (ringReps s).flatMap (ring s) := by
    simp [rings, List.flatMap]
  rw [hflat, List.perm_ext_iff_of_nodup _ (liveList_nodup s)]
  · intro x
    rw [List.mem_flatMap, mem_liveList]
    constructor
    · rintro ⟨v, hv, hx⟩
      rw [mem_ringReps s h] at hv
      exact Orbit.live h hv.1 hv.2.1 ((mem_ring_iff s h v hv.1 hv.2.1 x).1 hx)
    · rintro ⟨hx, hlx⟩
      have hne : ring s x ≠ [] := by
        intro he
        have := (mem_ring_iff s h x hx hlx x).2 (Orbit.refl s x)
        rw [he] at this; cases this
      obtain ⟨v, hv, hmin⟩ := exists_min_mem (ring s x) hne
      have hxv := (mem_ring_iff s h x hx hlx v).1 hv
      have hvl := Orbit.live h hx hlx hxv
      refine ⟨v, ?_, ?_⟩
      · rw [mem_ringReps s h]
        refine ⟨hvl.1, hvl.2, fun u hu => ?_⟩
        exact hmin u ((mem_ring_iff s h x hx hlx u).2 (hxv.trans hu))
      · exact (mem_ring_iff s h v hvl.1 hvl.2 x).2 (Orbit.symm h hx hlx hxv)
  · rw [List.Nodup, List.pairwise_flatMap]
    constructor
    · intro v hv
      rw [mem_ringReps s h] at hv
      exact ring_nodup s h v hv.1 hv.2.1
    · have hnd : (ringReps s).Nodup := List.Nodup.sublist List.filter_sublist (liveList_nodup s)
      apply List.Pairwise.imp_of_mem _ hnd
      intro a b ha hb hab x hx y hy hxy
      subst hxy
      rw [mem_ringReps s h] at ha hb
      have h1 := (mem_ring_iff s h a ha.1 ha.2.1 x).1 hx
      have h2 := (mem_ring_iff s h b hb.1 hb.2.1 x).1 hy
      have hab' : Orbit s a b := h1.trans (Orbit.symm h hb.1 hb.2.1 h2)
      have hba' : Orbit s b a := h2.trans (Orbit.symm h ha.1 ha.2.1 h1)
      have := ha.2.2 b hab'
      have := hb.2.2 a hba'
      exact hab (by omega)

theorem net_flatten (Ls : List (List Edge)) (a b : Nat) :
    net Ls.flatten a b = (Ls.map fun l => net l a b).sum := by
  induction Ls with
  | nil => simp
  | cons l Ls ih => simp only [List.flatten_cons, net_append, ih, List.map_cons, List.sum_cons]

/-- `net (liveEdges s)` is the sum of the boundaries of the rings -/
theorem netLive_eq_sum_rings (s : State) (h : Linked s) (a b : Nat) :
    net (liveEdges s) a b = ((ringReps s).map fun v => bdRing s v a b).sum := by
  have hp := (rings_flatten_perm s h).map (fun v => (s.mesh v, s.mesh (s.R v)))
  have : net (liveEdges s) a b =
      net ((rings s).flatten.map (fun v => (s.mesh v, s.mesh (s.R v)))) a b :=
    (net_perm hp a b).symm
  rw [this, List.map_flatten, net_flatten]
  simp only [rings, List.map_map]
  rfl

end MV.EarClip
